#!/bin/bash
# Offline setup: verify the toolchain and warm the Go build cache for the harness binaries.
set -e
cd "$(dirname "$0")"
command -v tlc >/dev/null && command -v python3 >/dev/null && command -v go >/dev/null
mkdir -p .build evidence
for h in $(ls harness); do ./driver/build.sh "$h" >/dev/null || exit 1; done
echo setup ok
