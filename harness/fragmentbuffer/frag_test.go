// Replays TLC-generated scripts of spec/FragmentBuffer.tla on the real
// FragmentBuffer and evaluates the C12 predicates on the real outputs.

//go:build verif

package fragmentbuffer

import (
	"bufio"
	"bytes"
	"encoding/json"
	"fmt"
	"os"
	"strconv"
	"testing"
)

type vFrag struct {
	Seq  int  `json:"seq"`
	Len  int  `json:"len"`
	Off  int  `json:"off"`
	Flen int  `json:"flen"`
	Junk bool `json:"junk"`
}

type vObs struct {
	Cur   int `json:"cur"`
	Count int `json:"count"`
	Size  int `json:"size"`
}

type vStep struct {
	Op      string `json:"op"`
	F       *vFrag `json:"f"`
	Hs      bool   `json:"hs"`
	Retx    bool   `json:"retx"`
	Seq     int    `json:"seq"`
	To      int    `json:"to"`
	Content []int  `json:"content"`
	Obs     *vObs  `json:"obs"`
}

type vScript struct {
	Plan   []int   `json:"plan"`
	Steps  []vStep `json:"steps"`
	Honest bool    `json:"honest"`
}

type vResult struct {
	Script     int      `json:"script"`
	Violations []string `json:"violations,omitempty"`
	Diverge    []string `json:"diverge,omitempty"`
	Pops       int      `json:"pops"`
	Panic      string   `json:"panic,omitempty"`
	Packed     bool     `json:"packed,omitempty"`
}

func vByte(s, p int) byte { return byte(s*16 + p + 1) }

func vData(f *vFrag) []byte {
	out := make([]byte, f.Flen)
	for i := range out {
		if f.Junk {
			out[i] = 255
		} else {
			out[i] = vByte(f.Seq, f.Off+i)
		}
	}

	return out
}

func put24(b []byte, v int) { b[0], b[1], b[2] = byte(v>>16), byte(v>>8), byte(v) }

// vRecord builds one plaintext handshake record carrying the fragment.
func vRecord(f *vFrag) []byte {
	data := vData(f)
	hs := make([]byte, 12, 12+len(data))
	hs[0] = 1
	put24(hs[1:], f.Len)
	hs[4], hs[5] = byte(f.Seq>>8), byte(f.Seq)
	put24(hs[6:], f.Off)
	put24(hs[9:], f.Flen)
	hs = append(hs, data...)
	rec := []byte{22, 0xfe, 0xfd, 0, 0, 0, 0, 0, 0, 0, 0, byte(len(hs) >> 8), byte(len(hs))}

	return append(rec, hs...)
}

// vRecordMulti builds ONE plaintext handshake record that carries several fragments back to back (RFC 6347 4.2.3:
// several handshake messages / fragments may share a record).
func vRecordMulti(fs []*vFrag) []byte {
	var body []byte
	for _, f := range fs {
		body = append(body, vRecord(f)[13:]...)
	}
	rec := []byte{22, 0xfe, 0xfd, 0, 0, 0, 0, 0, 0, 0, 0, byte(len(body) >> 8), byte(len(body))}

	return append(rec, body...)
}

func vPop(fb *FragmentBuffer) (content []byte, panicked string) {
	defer func() {
		if r := recover(); r != nil {
			panicked = fmt.Sprint(r)
		}
	}()
	content, _ = fb.Pop()

	return content, ""
}

// packed: runs of up to three consecutive pushes of the script travel in ONE record (one Push call); what the buffer holds
// and surfaces afterwards must be what the separate pushes give.
func vReplay(idx int, sc *vScript, packed bool) vResult { //nolint:cyclop,gocognit,maintidx
	res := vResult{Script: idx, Packed: packed}
	fb := New()
	covered := map[int]map[int]bool{}
	pieces := map[int]map[[2]int]bool{}
	// hostile scripts: a message whose fragments all agree on the total length, stay inside it and carry
	// position-coded bytes is an honest message sent with several partitions (e.g. retransmitted with
	// another fragment size): what surfaces for it must still be the original, with no byte missing
	msgLen := map[int]int{}
	inconsistent := map[int]bool{}
	nextPop := 0
	viol := func(format string, a ...any) { res.Violations = append(res.Violations, fmt.Sprintf(format, a...)) }
	div := func(format string, a ...any) { res.Diverge = append(res.Diverge, fmt.Sprintf(format, a...)) }
	obs := func(i int, o *vObs) {
		if o == nil {
			return
		}
		if int(fb.currentMessageSequenceNumber) != o.Cur || fb.totalFragmentCount != o.Count || fb.totalBufferSize != o.Size {
			div("step %d: state cur/count/size model %d/%d/%d code %d/%d/%d", i, o.Cur, o.Count, o.Size,
				fb.currentMessageSequenceNumber, fb.totalFragmentCount, fb.totalBufferSize)
		}
	}
	// packed mode: a twin buffer receives the same fragments one record each; how fragments are packed into records must
	// not change what the buffer holds or surfaces (the law is between two uses of the real code, no model involved)
	var twin *FragmentBuffer
	if packed {
		twin = New()
	}
	sameAsTwin := func(i int, what string) {
		if twin == nil {
			return
		}
		if fb.currentMessageSequenceNumber != twin.currentMessageSequenceNumber || fb.totalFragmentCount != twin.totalFragmentCount ||
			fb.totalBufferSize != twin.totalBufferSize {
			viol("step %d (%s): fragments sharing a record are handled differently from the same fragments in records of their own: "+
				"cursor/fragments/bytes %d/%d/%d against %d/%d/%d", i, what, fb.currentMessageSequenceNumber, fb.totalFragmentCount, fb.totalBufferSize,
				twin.currentMessageSequenceNumber, twin.totalFragmentCount, twin.totalBufferSize)
			twin = nil // one report per script
		}
	}
	skip := 0 // pushes already delivered inside a packed record: only their bookkeeping remains
	for i, st := range sc.Steps {
		switch st.Op {
		case "push":
			cursor := int(fb.currentMessageSequenceNumber)
			if twin != nil {
				_, _, _ = twin.Push(vRecord(st.F))
			}
			switch {
			case skip > 0:
				skip--
			case packed && i+1 < len(sc.Steps) && sc.Steps[i+1].Op == "push":
				group := []*vFrag{st.F}
				for j := i + 1; j < len(sc.Steps) && sc.Steps[j].Op == "push" && len(group) < 3; j++ {
					group = append(group, sc.Steps[j].F)
				}
				skip = len(group) - 1
				if _, _, err := fb.Push(vRecordMulti(group)); err != nil {
					div("step %d: push error %v (record of %d fragments)", i, err, len(group))
				}
			default:
				hs, retx, err := fb.Push(vRecord(st.F))
				if err != nil {
					div("step %d: push error %v", i, err)

					continue
				}
				if st.F.Seq < cursor && !retx {
					viol("step %d: fragment of delivered message %d (cursor %d) not recognised as retransmission", i, st.F.Seq, cursor)
				}
				if st.F.Seq >= cursor && retx {
					viol("step %d: fragment of undelivered message %d (cursor %d) flagged as retransmission", i, st.F.Seq, cursor)
				}
				if hs != st.Hs || retx != st.Retx {
					div("step %d: push result model hs=%v retx=%v code hs=%v retx=%v", i, st.Hs, st.Retx, hs, retx)
				}
			}
			if st.F.Seq >= cursor {
				if l, ok := msgLen[st.F.Seq]; ok && l != st.F.Len {
					inconsistent[st.F.Seq] = true
				}
				msgLen[st.F.Seq] = st.F.Len
				if st.F.Junk || st.F.Off+st.F.Flen > st.F.Len {
					inconsistent[st.F.Seq] = true
				}
				if covered[st.F.Seq] == nil {
					covered[st.F.Seq] = map[int]bool{}
					pieces[st.F.Seq] = map[[2]int]bool{}
				}
				for p := st.F.Off; p < st.F.Off+st.F.Flen; p++ {
					covered[st.F.Seq][p] = true
				}
				pieces[st.F.Seq][[2]int{st.F.Off, st.F.Flen}] = true
			}
			if skip == 0 { // inside a packed record the model's intermediate states do not exist
				obs(i, st.Obs)
				sameAsTwin(i, "push")
			}
		case "advance":
			fb.AdvanceTo(uint16(st.To)) //nolint:gosec
			if twin != nil {
				twin.AdvanceTo(uint16(st.To)) //nolint:gosec
				sameAsTwin(i, "advance")
			}
			if st.To > nextPop {
				nextPop = st.To
			}
			obs(i, st.Obs)
		case "pop", "pop-nil", "pop-panic":
			cursor := int(fb.currentMessageSequenceNumber)
			content, p := vPop(fb)
			if twin != nil && p == "" {
				tc, tp := vPop(twin)
				if tp == "" && !bytes.Equal(tc, content) {
					viol("step %d (pop): fragments sharing a record surface %v, the same fragments in records of their own surface %v", i, content, tc)
					twin = nil
				}
				sameAsTwin(i, "pop")
			}
			if p != "" {
				res.Panic = p
				viol("step %d: Pop panicked: %s", i, p)

				return res
			}
			if st.Op == "pop-panic" {
				div("step %d: model predicts a panic, code returned (len %d)", i, len(content))

				return res
			}
			if content == nil {
				if st.Op == "pop" {
					div("step %d: model surfaces message %d, code returned nil", i, st.Seq)
				}
				if sc.Honest && cursor < len(sc.Plan) && len(pieces[cursor]) > 0 {
					// availability: every fragment of the (single) partition arrived, and none was dropped as a retransmission
					complete := true
					for p := 0; p < sc.Plan[cursor]; p++ {
						if !covered[cursor][p] {
							complete = false
						}
					}
					if complete && vAllPiecesSeen(sc, cursor, pieces[cursor]) {
						viol("step %d: all fragments of message %d arrived but Pop does not surface it", i, cursor)
					}
				}
				obs(i, st.Obs)

				continue
			}
			res.Pops++
			if len(content) < 12 {
				viol("step %d: surfaced message shorter than a handshake header", i)

				continue
			}
			seq := int(content[4])<<8 | int(content[5])
			body := content[12:]
			if seq != nextPop || seq != cursor {
				viol("step %d: surfaced message_seq %d, expected %d (in-order exactly-once)", i, seq, nextPop)
			}
			nextPop = seq + 1
			hl := int(content[1])<<16 | int(content[2])<<8 | int(content[3])
			fo := int(content[6])<<16 | int(content[7])<<8 | int(content[8])
			fl := int(content[9])<<16 | int(content[10])<<8 | int(content[11])
			// hostile fragments may disagree on the total length (the first one stored fixes the body
			// length, the one at offset 0 supplies the header): only honest senders are held to this
			if sc.Honest && (hl != len(body) || fo != 0 || fl != len(body)) {
				viol("step %d: surfaced header length/offset/fragment-length %d/%d/%d for a body of %d bytes", i, hl, fo, fl, len(body))
			}
			if !sc.Honest && !inconsistent[seq] && len(pieces[seq]) > 0 {
				want := make([]byte, msgLen[seq])
				for p := range want {
					want[p] = vByte(seq, p)
				}
				if !bytes.Equal(body, want) {
					viol("step %d: surfaced message %d differs from the original (mixed partitions): got %v want %v", i, seq, body, want)
				}
				for p := 0; p < msgLen[seq]; p++ {
					if !covered[seq][p] {
						viol("step %d: message %d surfaced while byte %d never arrived (mixed partitions)", i, seq, p)
					}
				}
			}
			if sc.Honest && seq < len(sc.Plan) {
				want := make([]byte, sc.Plan[seq])
				for p := range want {
					want[p] = vByte(seq, p)
				}
				if !bytes.Equal(body, want) {
					viol("step %d: surfaced message %d differs from the original: got %v want %v", i, seq, body, want)
				}
				for p := 0; p < sc.Plan[seq]; p++ {
					if !covered[seq][p] {
						viol("step %d: message %d surfaced while byte %d never arrived", i, seq, p)
					}
				}
			}
			if st.Op != "pop" {
				div("step %d: code surfaced message %d, model returns nil", i, seq)
			} else {
				mb := make([]byte, len(st.Content))
				for k, v := range st.Content {
					mb[k] = byte(v)
				}
				if !bytes.Equal(mb, body) {
					div("step %d: surfaced body model %v code %v", i, mb, body)
				}
			}
			obs(i, st.Obs)
		}
	}

	return res
}

// vAllPiecesSeen: the script's own pushes of message seq form the whole partition used by this
// script (the model pushes only fragments of the chosen partition in honest mode; the harness
// re-derives "whole partition" as: the pushed non-empty pieces tile [0,len) without overlap).
func vAllPiecesSeen(sc *vScript, seq int, ps map[[2]int]bool) bool {
	total := 0
	for p := range ps {
		total += p[1]
	}

	return total == sc.Plan[seq]
}

func TestVerifFragScripts(t *testing.T) {
	in, out := os.Getenv("VERIF_IN"), os.Getenv("VERIF_OUT")
	fi, err := os.Open(in)
	if err != nil {
		t.Fatal(err)
	}
	defer fi.Close()
	fo, err := os.Create(out)
	if err != nil {
		t.Fatal(err)
	}
	defer fo.Close()
	w := bufio.NewWriter(fo)
	defer w.Flush()
	enc := json.NewEncoder(w)
	scan := bufio.NewScanner(fi)
	scan.Buffer(make([]byte, 1<<20), 1<<24)
	n, bad, pops, packedRuns := 0, 0, 0, 0
	seed, _ := strconv.Atoi(os.Getenv("VERIF_SEED"))
	packShare, packAll := seed%3, os.Getenv("VERIF_PACK_ALL") != ""
	for scan.Scan() {
		var sc vScript
		if err := json.Unmarshal(scan.Bytes(), &sc); err != nil {
			t.Fatalf("script %d: %v", n, err)
		}
		res := vReplay(n, &sc, false)
		pops += res.Pops
		if len(res.Violations) > 0 || len(res.Diverge) > 0 {
			bad++
			_ = enc.Encode(res)
		}
		// a third of the scripts (all of them in a replay of few) once more with consecutive pushes sharing a record
		if n%3 == packShare || packAll {
			res = vReplay(n, &sc, true)
			pops += res.Pops
			packedRuns++
			if len(res.Violations) > 0 || len(res.Diverge) > 0 {
				bad++
				_ = enc.Encode(res)
			}
		}
		n++
	}
	_ = enc.Encode(map[string]int{"scripts": n, "flagged": bad, "pops": pops, "packed": packedRuns})
}
