// C08: the reassembly buffer stays within its fixed limits under a flood of hostile fragments (in-package:
// the counters are unexported).

//go:build verif

package fragmentbuffer

import (
	"encoding/json"
	"math/rand"
	"os"
	"runtime"
	"strconv"
	"testing"
)

func TestVerifFragBounds(t *testing.T) {
	seed, _ := strconv.ParseInt(os.Getenv("VERIF_SEED"), 10, 64)
	n, _ := strconv.Atoi(os.Getenv("VERIF_N"))
	if n == 0 {
		n = 20000
	}
	rng := rand.New(rand.NewSource(seed)) //nolint:gosec
	fb := New()
	var before, after runtime.MemStats
	runtime.GC()
	runtime.ReadMemStats(&before)
	maxSize, maxCount, pushed, errs, pops := 0, 0, 0, 0, 0
	for i := 0; i < n; i++ {
		flen := []int{0, 1, 7, 64, 500, 1400}[rng.Intn(6)]
		length := []int{0, 1, flen, flen + 1, 1 << 14, 1<<24 - 1}[rng.Intn(6)]
		off := []int{0, 1, flen, length, 1<<24 - 1}[rng.Intn(5)]
		seq := rng.Intn(6)
		if rng.Intn(3) == 0 {
			seq = rng.Intn(65536)
		}
		hs := []byte{byte([]int{1, 2, 11, 12, 16, 20, 99}[rng.Intn(7)]), byte(length >> 16), byte(length >> 8), byte(length),
			byte(seq >> 8), byte(seq), byte(off >> 16), byte(off >> 8), byte(off), byte(flen >> 16), byte(flen >> 8), byte(flen)}
		body := make([]byte, flen)
		rec := []byte{22, 0xfe, 0xfd, 0, 0, 0, 0, 0, 0, byte(i >> 8), byte(i), byte((12 + flen) >> 8), byte(12 + flen)}
		buf := append(append(rec, hs...), body...)
		if _, _, err := fb.Push(buf); err != nil {
			errs++
		} else {
			pushed++
		}
		if fb.totalBufferSize > maxSize {
			maxSize = fb.totalBufferSize
		}
		if fb.totalFragmentCount > maxCount {
			maxCount = fb.totalFragmentCount
		}
		if rng.Intn(50) == 0 {
			for out, _ := fb.Pop(); out != nil; out, _ = fb.Pop() {
				pops++
			}
		}
	}
	runtime.GC()
	runtime.ReadMemStats(&after)
	res := map[string]any{"pushes": n, "accepted": pushed, "refused": errs, "popped": pops, "maxBufferSize": maxSize, "maxFragmentCount": maxCount,
		"limitSize": fragmentBufferMaxSize, "limitCount": fragmentBufferMaxCount, "heapDelta": int64(after.HeapAlloc) - int64(before.HeapAlloc)}
	b, _ := json.Marshal(res)
	_ = os.WriteFile(os.Getenv("VERIF_OUT"), append(b, '\n'), 0o600)
}
