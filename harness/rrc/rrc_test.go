// Replays TLC-generated scripts of spec/CidRrc.tla (Part "mgr") on the real
// rrc.Manager: every call of every edge script is made with the model's
// arguments, return values and the path table are compared step by step with
// the model, and the C15 predicates of the manager (three-times budget,
// only a timely response to an issued, pending challenge is accepted) are
// evaluated on the real outputs with the harness's own accounting.

//go:build verif

package rrc

import (
	"bufio"
	"encoding/json"
	"fmt"
	"net"
	"os"
	"sort"
	"strconv"
	"sync"
	"testing"
	"time"

	"github.com/pion/dtls/v3/pkg/protocol"
)

type vPath struct {
	Present bool `json:"present"`
	Recv    int  `json:"recv"`
	Sent    int  `json:"sent"`
	Pending bool `json:"pending"`
	Cookie  int  `json:"cookie"`
}

type vStep struct {
	Op   string           `json:"op"`
	A    string           `json:"a"`
	Act  string           `json:"act"`
	En   bool             `json:"en"`
	Ok   bool             `json:"ok"`
	Ck   int              `json:"ck"`
	N    int              `json:"n"`
	Post map[string]vPath `json:"post"`
}

type vScript struct {
	Steps []vStep `json:"steps"`
}

type vResult struct {
	Script     int      `json:"script"`
	Violations []string `json:"violations,omitempty"`
	Diverge    []string `json:"diverge,omitempty"`
	Late       bool     `json:"late,omitempty"`
	Ticks      int      `json:"ticks"`
	Calls      int      `json:"calls"`
	Accepted   int      `json:"accepted"`
	Refused    int      `json:"refused"`
	Panic      string   `json:"panic,omitempty"`
}

type vCookie = [protocol.ReturnRoutabilityCheckCookieLength]byte

func vAddr(name string) net.Addr {
	n, _ := strconv.Atoi(name[1:])

	// pairs of addresses share a host and differ in the port only: a path is an (address, port) pair, a response from
	// another port of the challenged host answers nothing
	return &net.UDPAddr{IP: net.IPv4(192, 0, 2, byte(n/2)), Port: 4000 + n}
}

const (
	vWindow   = time.Second // the validity window of the model (V = 2 ticks): RFC 9853 path validation timeout of the library
	vTick     = 650 * time.Millisecond
	vLateness = 250 * time.Millisecond
)

type vIssued struct {
	addr      string
	at        time.Time // after Start returned
	cancelled bool
	used      bool
}

// vReplay runs one script. start is the real time of model clock 1.
func vReplay(idx int, sc *vScript, wrap bool) (res vResult) { //nolint:cyclop,gocognit,gocyclo,maintidx
	res.Script = idx
	defer func() {
		if r := recover(); r != nil {
			res.Panic = fmt.Sprint(r)
			res.Violations = append(res.Violations, "panicked: "+res.Panic)
		}
	}()
	mgr := &Manager{}
	cookies := map[int]vCookie{}   // model cookie id -> real cookie
	ids := map[vCookie]int{{}: 0}  // real cookie -> model id
	issued := map[vCookie]*vIssued{}
	recvTotal := map[string]uint64{}
	grantTotal := map[string]uint64{}
	start := time.Now()
	clock := 1
	viol := func(i int, f string, a ...any) {
		res.Violations = append(res.Violations, fmt.Sprintf("step %d (%s): ", i, sc.Steps[i].Op)+fmt.Sprintf(f, a...))
	}
	div := func(i int, f string, a ...any) {
		if len(res.Diverge) < 4 {
			res.Diverge = append(res.Diverge, fmt.Sprintf("step %d (%s): ", i, sc.Steps[i].Op)+fmt.Sprintf(f, a...))
		}
	}
	for i := range sc.Steps {
		st := &sc.Steps[i]
		addr := net.Addr(nil)
		if st.A != "" {
			addr = vAddr(st.A)
		}
		active := vAddr(sc.active(i))
		if clock > 1 {
			// operations of model time m happen within [T(m), T(m)+lateness]
			if time.Since(start) > time.Duration(clock-1)*vTick+vLateness {
				res.Late = true

				return res
			}
		}
		res.Calls++
		switch st.Op {
		case "tick":
			res.Calls--
			res.Ticks++
			clock++
			target := start.Add(time.Duration(clock-1) * vTick)
			time.Sleep(time.Until(target))
			if time.Since(target) > vLateness { // overslept on a busy machine: the script is re-run, not judged
				res.Late = true

				return res
			}
			// the model's timers fire inside the tick: give the AfterFunc goroutines time to run
			deadline := time.Now().Add(vLateness)
			for {
				mgr.mu.Lock()
				stale := false
				now := time.Now()
				for _, p := range mgr.paths {
					if !p.expiresAt.IsZero() && !now.Before(p.expiresAt) {
						stale = true
					}
				}
				mgr.mu.Unlock()
				if !stale {
					break
				}
				if time.Now().After(deadline) {
					res.Late = true

					return res
				}
				time.Sleep(2 * time.Millisecond)
			}
		case "start":
			ck, ok, err := mgr.Start(st.En, addr, active)
			after := time.Now()
			if err != nil {
				div(i, "Start error %v", err)
			}
			if ok != st.Ok {
				div(i, "Start ok=%v, model %v", ok, st.Ok)
			}
			if ok {
				if _, dup := issued[ck]; dup || ck == (vCookie{}) {
					viol(i, "challenge cookie %x is not fresh", ck)
				}
				issued[ck] = &vIssued{addr: st.A, at: after}
				if st.Ok {
					cookies[st.Ck] = ck
					ids[ck] = st.Ck
				} else {
					ids[ck] = 1000 + len(ids)
				}
			}
		case "cancel":
			ck, known := cookies[st.Ck]
			if !known && st.Ck != 0 {
				div(i, "script uses unknown cookie %d", st.Ck)

				return res
			}
			mgr.Cancel(addr, ck)
			if is := issued[ck]; is != nil && is.addr == st.A {
				is.cancelled = true
			}
		case "response":
			ck, known := cookies[st.Ck]
			if !known && st.Ck != 0 {
				div(i, "script uses unknown cookie %d", st.Ck)

				return res
			}
			before := time.Now()
			ok := mgr.HandleResponse(addr, ck)
			if ok {
				res.Accepted++
				is := issued[ck]
				switch {
				case is == nil:
					viol(i, "response with a cookie that was never issued was accepted for %s", st.A)
				case is.addr != st.A:
					viol(i, "response from %s accepted for the challenge sent to %s", st.A, is.addr)
				case is.cancelled:
					viol(i, "response accepted for a cancelled (never sent) challenge")
				case is.used:
					viol(i, "response accepted twice for one challenge")
				case before.Sub(is.at) >= vWindow:
					viol(i, "response accepted %v after the challenge (window %v)", before.Sub(is.at), vWindow)
				}
				// a validated path ends every outstanding challenge
				for _, other := range issued {
					other.used = true
				}
			} else {
				res.Refused++
			}
			if ok != st.Ok {
				div(i, "HandleResponse=%v, model %v", ok, st.Ok)
			}
		case "reserve":
			err := mgr.Reserve(addr, active, st.N)
			if err == nil && st.A != sc.active(i) {
				grantTotal[st.A] += uint64(st.N) //nolint:gosec
				if grantTotal[st.A] > 3*recvTotal[st.A] {
					viol(i, "Reserve let %d bytes out to unvalidated %s after %d bytes received from it",
						grantTotal[st.A], st.A, recvTotal[st.A])
				}
			}
			if (err == nil) != st.Ok {
				div(i, "Reserve err=%v, model ok=%v", err, st.Ok)
			}
		case "received":
			if wrap {
				calls := 0
				marker := mgr.WrapReplayMarker(func() bool { calls++; return true }, addr, st.N,
					func() net.Addr { return active }, true)
				marker()
				marker() // counted once
				if calls != 2 {
					div(i, "wrapped marker called the inner marker %d times", calls)
				}
			} else {
				mgr.recordReceived(addr, active, st.N)
			}
			if st.A != sc.active(i) && st.N > 0 {
				recvTotal[st.A] += uint64(st.N) //nolint:gosec
			}
		default:
			div(i, "unknown op")

			return res
		}
		// compare the path table with the model (still inside the time slot of this model time)
		if clock > 1 && time.Since(start) > time.Duration(clock-1)*vTick+vLateness {
			res.Late = true

			return res
		}
		mgr.mu.Lock()
		names := make([]string, 0, len(st.Post))
		for name := range st.Post {
			names = append(names, name)
		}
		sort.Strings(names)
		for _, name := range names {
			want := st.Post[name]
			p := mgr.paths[pathKey(vAddr(name))]
			got := vPath{}
			if p != nil {
				id, okID := ids[p.cookie]
				if !okID {
					id = -1
				}
				got = vPath{Present: true, Recv: int(p.receivedBytes), Sent: int(p.sentBytes), //nolint:gosec
					Pending: p.challengePending, Cookie: id}
				if p.sentBytes > 3*p.receivedBytes {
					viol(i, "path %s: sentBytes %d > 3 x receivedBytes %d", name, p.sentBytes, p.receivedBytes)
				}
			}
			if got != want {
				div(i, "path %s is %+v, model %+v", name, got, want)
			}
		}
		if len(mgr.paths) > len(st.Post) {
			div(i, "unexpected paths in the table: %d", len(mgr.paths))
		}
		mgr.mu.Unlock()
	}

	return res
}

// active returns the active address before step i (the model logs it after each step).
func (sc *vScript) active(i int) string {
	if i == 0 {
		return "a1"
	}

	return sc.Steps[i-1].Act
}

func TestVerifRrcScripts(t *testing.T) { //nolint:cyclop
	in, out := os.Getenv("VERIF_IN"), os.Getenv("VERIF_OUT")
	fi, err := os.Open(in)
	if err != nil {
		t.Fatal(err)
	}
	defer fi.Close()
	scan := bufio.NewScanner(fi)
	scan.Buffer(make([]byte, 1<<20), 1<<24)
	var scripts []*vScript
	for scan.Scan() {
		sc := &vScript{}
		if err := json.Unmarshal(scan.Bytes(), sc); err != nil {
			t.Fatalf("script %d: %v", len(scripts), err)
		}
		scripts = append(scripts, sc)
	}
	results := make([]vResult, len(scripts))
	run := func(todo []int, parallel int) {
		var wg sync.WaitGroup
		sem := make(chan struct{}, parallel)
		for _, i := range todo {
			wg.Add(1)
			sem <- struct{}{}
			go func(i int) {
				defer wg.Done()
				defer func() { <-sem }()
				results[i] = vReplay(i, scripts[i], i%2 == 1)
			}(i)
		}
		wg.Wait()
	}
	all := make([]int, len(scripts))
	for i := range all {
		all[i] = i
	}
	par := 4096
	for attempt := 0; attempt < 4 && len(all) > 0; attempt++ {
		run(all, par)
		var late []int
		for _, i := range all {
			if results[i].Late {
				late = append(late, i)
			}
		}
		all = late
		par = 64 // retries of scripts that missed their time slots run with little contention
	}
	fo, err := os.Create(out)
	if err != nil {
		t.Fatal(err)
	}
	defer fo.Close()
	w := bufio.NewWriter(fo)
	defer w.Flush()
	enc := json.NewEncoder(w)
	sum := map[string]int{}
	for i := range results {
		r := &results[i]
		sum["scripts"]++
		sum["calls"] += r.Calls
		sum["ticks"] += r.Ticks
		sum["accepted"] += r.Accepted
		sum["refused"] += r.Refused
		if r.Late {
			sum["late"]++
		}
		if len(r.Violations) > 0 {
			sum["flagged"]++
		}
		if len(r.Diverge) > 0 {
			sum["diverged"]++
		}
		if r.Late || len(r.Violations) > 0 || len(r.Diverge) > 0 {
			_ = enc.Encode(r)
		}
	}
	_ = enc.Encode(map[string]any{"summary": sum})
}
