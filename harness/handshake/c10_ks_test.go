// C10 (in-package part): the DTLS 1.3 key schedule of internal/handshake against the derivation graph
// printed by TLC (spec/Codec.tla KeySchedule, RFC 8446 7.1) interpreted with HMAC from the standard library.
// VERIF_IN: ndjson TLC vectors (kinds ks_graph, hkdf_label, certverify); VERIF_OUT: rows + summary.

//go:build verif

package dtlshandshake

import (
	"bufio"
	"bytes"
	"crypto/hmac"
	"crypto/sha256"
	"crypto/sha512"
	"encoding/hex"
	"encoding/json"
	"fmt"
	"hash"
	mrand "math/rand"
	"os"
	"strconv"
	"testing"
)

type c10kStep struct {
	Out    string          `json:"out"`
	Op     string          `json:"op"`
	Salt   string          `json:"salt"`
	IKM    string          `json:"ikm"`
	Secret string          `json:"secret"`
	Label  json.RawMessage `json:"label"`
	Ctx    string          `json:"ctx"`
}

type c10kVec struct {
	K        string     `json:"k"`
	Schedule []c10kStep `json:"schedule"`
	Label    []int      `json:"label"`
	Context  []int      `json:"context"`
	N        int        `json:"n"`
	Info     []int      `json:"info"`
	Client   bool       `json:"client"`
	TH       []int      `json:"transcript_hash"`
	Out      []int      `json:"out"`
}

func c10kBytes(in []int) []byte {
	out := make([]byte, len(in))
	for i, v := range in {
		out[i] = byte(v) //nolint:gosec
	}

	return out
}

func c10kHMAC(h func() hash.Hash, key []byte, parts ...[]byte) []byte {
	m := hmac.New(h, key)
	for _, p := range parts {
		m.Write(p)
	}

	return m.Sum(nil)
}

func c10kExpand(h func() hash.Hash, prk, info []byte, n int) []byte {
	var out, t []byte
	for i := byte(1); len(out) < n; i++ {
		t = c10kHMAC(h, prk, t, info, []byte{i})
		out = append(out, t...)
	}

	return out[:n]
}

func c10kLabel(n int, label string, ctx []byte) []byte {
	full := "dtls13" + label
	out := []byte{byte(n >> 8), byte(n), byte(len(full))}
	out = append(out, full...)
	out = append(out, byte(len(ctx)))

	return append(out, ctx...)
}

// TestVerifC10KeySchedule is the entry point.
func TestVerifC10KeySchedule(t *testing.T) { //nolint:cyclop,gocognit,maintidx
	in, out := os.Getenv("VERIF_IN"), os.Getenv("VERIF_OUT")
	if in == "" || out == "" {
		t.Skip("VERIF_IN / VERIF_OUT not set")
	}
	seed, _ := strconv.ParseInt(os.Getenv("VERIF_SEED"), 10, 64)
	rounds, _ := strconv.Atoi(os.Getenv("VERIF_ROUNDS"))
	if rounds == 0 {
		rounds = 50
	}
	rng := mrand.New(mrand.NewSource(seed)) //nolint:gosec
	fin, err := os.Open(in)                 //nolint:gosec
	if err != nil {
		t.Fatal(err)
	}
	defer fin.Close() //nolint:errcheck
	var viol, layout []string
	evals := 0
	eq := func(what string, lib, want []byte) {
		evals++
		if !bytes.Equal(lib, want) {
			viol = append(viol, fmt.Sprintf("%s: library %s != expected %s", what, hex.EncodeToString(lib), hex.EncodeToString(want)))
		}
	}
	fill := func(n int) []byte {
		b := make([]byte, n)
		_, _ = rng.Read(b)

		return b
	}
	var graph []c10kStep
	sc := bufio.NewScanner(fin)
	sc.Buffer(make([]byte, 1<<20), 1<<24)
	nvec := 0
	for sc.Scan() {
		var v c10kVec
		if err := json.Unmarshal(sc.Bytes(), &v); err != nil {
			t.Fatal(err)
		}
		nvec++
		switch v.K {
		case "ks_graph":
			graph = v.Schedule
		case "hkdf_label":
			if got := c10kLabel(v.N, string(c10kBytes(v.Label)), c10kBytes(v.Context)); !bytes.Equal(got, c10kBytes(v.Info)) {
				layout = append(layout, fmt.Sprintf("HkdfLabel restatement differs from TLC for %q", string(c10kBytes(v.Label))))
			}
		case "certverify":
			// RFC 8446 4.4.3 signed content; the transcript hash bytes are free
			eq(fmt.Sprintf("certificateVerifyInput(client=%v)", v.Client), certificateVerifyInput(v.Client, c10kBytes(v.TH)), c10kBytes(v.Out))
			th := fill(len(v.TH))
			want := bytes.Replace(c10kBytes(v.Out), c10kBytes(v.TH), th, 1)
			eq(fmt.Sprintf("certificateVerifyInput(client=%v) random hash", v.Client), certificateVerifyInput(v.Client, th), want)
		}
	}
	if graph == nil {
		t.Fatal("no ks_graph vector")
	}
	for round := 0; round < rounds; round++ {
		for _, hf := range []func() hash.Hash{sha256.New, sha512.New384} {
			hl := hf().Size()
			env := map[string][]byte{
				"zeros": make([]byte, hl), "hash_empty": hf().Sum(nil), "empty": {},
				"ecdhe": fill([]int{32, 48, 65, 1, 1120}[rng.Intn(5)]),
				"th_sh": fill(hl), "th_sf": fill(hl), "th_cf": fill(hl),
			}
			for _, st := range graph {
				switch st.Op {
				case "extract":
					env[st.Out] = c10kHMAC(hf, env[st.Salt], env[st.IKM])
				case "expand":
					var lab []int
					if err := json.Unmarshal(st.Label, &lab); err != nil {
						t.Fatalf("graph label: %v", err)
					}
					env[st.Out] = c10kExpand(hf, env[st.Secret], c10kLabel(hl, string(c10kBytes(lab)), env[st.Ctx]), hl)
				default:
					t.Fatalf("graph op %q", st.Op)
				}
			}
			ks, err := deriveHandshakeKeySchedule(hf, env["ecdhe"], env["th_sh"])
			if err != nil {
				viol = append(viol, "deriveHandshakeKeySchedule: "+err.Error())

				continue
			}
			eq("client_handshake_traffic_secret", ks.HandshakeTrafficSecrets.Client, env["c_hs"])
			eq("server_handshake_traffic_secret", ks.HandshakeTrafficSecrets.Server, env["s_hs"])
			eq("master secret", ks.MasterSecret, env["master"])
			hsSecret, err := deriveHandshakeSecret(hf, env["ecdhe"])
			if err == nil {
				eq("handshake secret", hsSecret, env["handshake"])
			}
			ap, err := deriveApplicationTrafficSecrets(hf, ks.MasterSecret, env["th_sf"])
			if err != nil {
				viol = append(viol, "deriveApplicationTrafficSecrets: "+err.Error())

				continue
			}
			eq("client_application_traffic_secret_0", ap.Client, env["c_ap"])
			eq("server_application_traffic_secret_0", ap.Server, env["s_ap"])
			x, err := deriveExporterMasterSecret(hf, ks.MasterSecret, env["th_sf"])
			if err == nil {
				eq("exporter_master_secret", x, env["exp_master"])
			}
			x, err = deriveResumptionMasterSecret(hf, ks.MasterSecret, env["th_cf"])
			if err == nil {
				eq("resumption_master_secret", x, env["res_master"])
			}
			x, err = deriveNextApplicationTrafficSecret(hf, ap.Client)
			if err == nil {
				eq("client application_traffic_secret_N+1", x, env["c_ap_next"])
			}
			x, err = deriveNextApplicationTrafficSecret(hf, ap.Server)
			if err == nil {
				eq("server application_traffic_secret_N+1", x, env["s_ap_next"])
			}
			// RFC 8446 4.4.4: verify_data = HMAC(finished_key, transcript hash)
			x, err = finishedVerifyData(hf, ks.HandshakeTrafficSecrets.Server, env["th_sf"])
			if err == nil {
				eq("server Finished verify_data", x, c10kHMAC(hf, env["s_finished_key"], env["th_sf"]))
			}
			x, err = finishedVerifyData(hf, ks.HandshakeTrafficSecrets.Client, env["th_cf"])
			if err == nil {
				eq("client Finished verify_data", x, c10kHMAC(hf, env["c_finished_key"], env["th_cf"]))
			}
			if err != nil {
				viol = append(viol, "key schedule function failed: "+err.Error())
			}
		}
	}
	fout, err := os.Create(out) //nolint:gosec
	if err != nil {
		t.Fatal(err)
	}
	defer fout.Close() //nolint:errcheck
	if len(viol) > 20 {
		viol = viol[:20]
	}
	_ = json.NewEncoder(fout).Encode(map[string]any{"summary": true, "vectors": nvec, "evaluations": evals, "viol": viol, "layout": layout})
}
