// C17 (ii): handleRetransmitTimeout driven through call sequences up to the 60 s cap and compared with the
// law stated in spec/Handshake12.tla (TimerLaw): retransmittable => interval' = min(2*interval, 60 s) (or the
// interval itself with backoff disabled) and the flight is sent again; otherwise nothing changes.

//go:build verif

package dtlshandshake

import (
	"encoding/json"
	"fmt"
	"os"
	"testing"
	"time"

	dtlsconfig "github.com/pion/dtls/v3/internal/config"
)

func TestVerifTimerFn(t *testing.T) {
	type out struct {
		Calls      int      `json:"calls"`
		Violations []string `json:"violations"`
	}
	var o out
	for _, initial := range []time.Duration{time.Millisecond, 10 * time.Millisecond, 100 * time.Millisecond, time.Second, 16 * time.Second, 45 * time.Second, 60 * time.Second} {
		for _, disable := range []bool{false, true} {
			for _, retx := range []bool{true, false} {
				cfg := &dtlsconfig.HandshakeConfig{InitialRetransmitInterval: initial, DisableRetransmitBackoff: disable}
				cur := initial
				for k := 0; k < 20; k++ {
					before := cur
					next := handleRetransmitTimeout(retx, &cur, cfg)
					o.Calls++
					want, wantState := before, StateWaiting
					if retx {
						wantState = StateSending
						if !disable {
							want = 2 * before
						}
						if want > 60*time.Second {
							want = 60 * time.Second
						}
					}
					if cur != want || next != wantState {
						o.Violations = append(o.Violations, fmt.Sprintf(
							"initial %v backoffDisabled=%v retransmit=%v timeout %d: interval %v -> %v (law: %v), next state %s (law: %s)",
							initial, disable, retx, k+1, before, cur, want, next, wantState))
					}
				}
			}
		}
	}
	b, _ := json.Marshal(o)
	if p := os.Getenv("VERIF_OUT"); p != "" {
		_ = os.WriteFile(p, b, 0o600)
	} else {
		fmt.Println(string(b))
	}
}
