// C16 (deadlines interrupt blocked calls): instances of Lifecycle.tla's DeadlineInterrupts on real connections.  A call
// (Read, Write) is blocked for a model-named reason (no data; a DTLS 1.3 write queued behind post-handshake flights that
// nobody acknowledges; a peer that went silent), then its deadline passes: the call must return a timeout-class error
// within the deadline plus scheduling slack, and Close must still unblock everything afterwards.

//go:build verif

package dtls

import (
	"bufio"
	"context"
	"encoding/json"
	"errors"
	"net"
	"os"
	"testing"
	"time"
)

type c16dlCase struct {
	Name    string  `json:"name"`
	Scen    scenCfg `json:"scen"`
	Side    string  `json:"side"`    // endpoint under test
	Call    string  `json:"call"`    // "read" | "write"
	Blocker string  `json:"blocker"` // "none" | "keyupdates" (n unacknowledged KeyUpdate flights queued first) | "handshake" (the call runs the
	//                                    handshake itself against a silent peer)
	Updates  int    `json:"updates"`  // number of UpdateKeys calls started before the judged call
	Deadline int    `json:"deadline"` // milliseconds
	Setter   string `json:"setter"`   // "specific" (SetReadDeadline/SetWriteDeadline) | "both" (SetDeadline)
	Late     bool   `json:"late"`     // the deadline is set AFTER the call blocked (from another goroutine)
}

type c16dlResult struct {
	Case       int    `json:"case"`
	Name       string `json:"name"`
	Lab        string `json:"lab,omitempty"`
	Returned   bool   `json:"returned"`
	ElapsedMS  int    `json:"elapsedMs"`
	Err        string `json:"err"`
	Timeout    bool   `json:"timeout"` // the error is a timeout-class error
	CloseOK    bool   `json:"closeOk"` // Close afterwards returned and unblocked the helper calls
	Violations []string
}

func c16dlIsTimeout(err error) bool {
	if err == nil {
		return false
	}
	var ne net.Error
	if errors.As(err, &ne) && ne.Timeout() {
		return true
	}

	return errors.Is(err, os.ErrDeadlineExceeded) || errors.Is(err, context.DeadlineExceeded)
}

func runC16Deadline(idx int, cs *c16dlCase) c16dlResult {
	res := c16dlResult{Case: idx, Name: cs.Name}
	scen := cs.Scen
	scen.IntervalMS = 40
	var sess *dataSess
	if cs.Blocker == "handshake" {
		// the call is made on a connection whose handshake has not started: Read / Write run it themselves, and the peer
		// stays silent (nothing is delivered), so the call is blocked inside that implicit handshake
		r := newLabRun()
		if err := r.setup(&scen, &scenStores{}); err != nil {
			res.Lab = err.Error()

			return res
		}
		sess = &dataSess{r: r, sc: &scen, reads: map[string]*readLog{}}
	} else {
		var err error
		sess, err = openSession(&scen, nil)
		if err != nil {
			res.Lab = err.Error()

			return res
		}
	}
	defer sess.close()
	p := sess.peer(cs.Side)
	// from now on nothing is delivered any more: acknowledgements never come back
	sess.scripted()
	helpers := make(chan error, 8)
	if cs.Blocker == "keyupdates" {
		for i := 0; i < cs.Updates; i++ {
			go func(i int) {
				ctx, cancel := context.WithTimeout(context.Background(), 10*time.Second)
				defer cancel()
				helpers <- p.conn.UpdateKeys(ctx, KeyUpdateOptions{RequestPeerUpdate: i%2 == 0})
			}(i)
			time.Sleep(5 * time.Millisecond)
		}
		time.Sleep(20 * time.Millisecond)
	}
	dl := time.Duration(cs.Deadline) * time.Millisecond
	set := func() {
		at := time.Now().Add(dl)
		switch {
		case cs.Setter == "both":
			_ = p.conn.SetDeadline(at)
		case cs.Call == "read":
			_ = p.conn.SetReadDeadline(at)
		default:
			_ = p.conn.SetWriteDeadline(at)
		}
	}
	if !cs.Late {
		set()
	}
	start := time.Now()
	done := make(chan error, 1)
	go func() {
		if cs.Call == "read" {
			_, e := p.conn.Read(make([]byte, 256))
			done <- e

			return
		}
		_, e := p.conn.Write([]byte("c16-deadline-probe"))
		done <- e
	}()
	if cs.Late {
		time.Sleep(30 * time.Millisecond)
		start = time.Now()
		set()
	}
	slack := 1500 * time.Millisecond
	select {
	case e := <-done:
		res.Returned = true
		res.ElapsedMS = int(time.Since(start) / time.Millisecond)
		res.Err = errString(e)
		res.Timeout = c16dlIsTimeout(e)
	case <-time.After(dl + slack):
		res.ElapsedMS = int(time.Since(start) / time.Millisecond)
	}
	// Close must still return and unblock everything
	closed := make(chan struct{})
	go func() { _ = p.conn.Close(); close(closed) }()
	select {
	case <-closed:
		res.CloseOK = true
	case <-time.After(5 * time.Second):
	}
	if !res.Returned {
		select {
		case e := <-done:
			res.Err = "returned only after Close: " + errString(e)
		case <-time.After(2 * time.Second):
			res.Err = "never returned"
		}
	}

	return res
}

func TestVerifC16Deadlines(t *testing.T) {
	in, out := os.Getenv("VERIF_IN"), os.Getenv("VERIF_OUT")
	fi, err := os.Open(in)
	if err != nil {
		t.Fatal(err)
	}
	defer fi.Close()
	var cases []c16dlCase
	scan := bufio.NewScanner(fi)
	scan.Buffer(make([]byte, 1<<20), 1<<26)
	for scan.Scan() {
		var c c16dlCase
		if err := json.Unmarshal(scan.Bytes(), &c); err != nil {
			t.Fatal(err)
		}
		cases = append(cases, c)
	}
	getPKI()
	fo, err := os.Create(out)
	if err != nil {
		t.Fatal(err)
	}
	defer fo.Close()
	enc := json.NewEncoder(fo)
	type item struct {
		i int
		r c16dlResult
	}
	ch := make(chan item, len(cases))
	sem := make(chan struct{}, 8)
	for i := range cases {
		sem <- struct{}{}
		go func(i int) {
			defer func() { <-sem }()
			ch <- item{i, runC16Deadline(i, &cases[i])}
		}(i)
	}
	results := make([]c16dlResult, len(cases))
	for range cases {
		it := <-ch
		results[it.i] = it.r
	}
	for _, r := range results {
		_ = enc.Encode(r)
	}
}
