// C09 nonce uniqueness: record numbers of whole sessions (handshake with retransmissions, concurrent
// writers, alerts, key updates, export/import, counters near 2^48) are collected from the wire (DTLS 1.2
// headers) and from the seal hook (DTLS 1.3, where numbers are masked on the wire) and checked for
// uniqueness and strict increase in emission order; the same event stream is validated by TLC against the
// numbering projection of spec/RecordLayer.tla (TraceNumbering.tla).

//go:build verif

package dtls

import (
	"bufio"
	"context"
	"encoding/json"
	"errors"
	"fmt"
	"math/rand"
	"os"
	"runtime"
	"sync"
	"testing"
	"time"

	dtlserrors "github.com/pion/dtls/v3/internal/errors"
)

type c09Case struct {
	Scen     scenCfg `json:"scen"`
	Name     string  `json:"name"`
	Kind     string  `json:"kind"` // "session" | "overflow"
	CMask    []int   `json:"cmask"`
	SMask    []int   `json:"smask"`
	Writers  int     `json:"writers"`
	Writes   int     `json:"writes"`
	KeyUpd   int     `json:"keyUpdates"`
	Exports  int     `json:"exports"`
	Poke     uint64  `json:"poke"`
	Seed     int64   `json:"seed"`
	CloseEnd bool    `json:"closeEnd"`
}

type numRec struct {
	Side  string `json:"side"`
	Epoch int    `json:"epoch"`
	Seq   uint64 `json:"seq"`
	Ctype int    `json:"ctype"`
	Inc   int    `json:"inc"` // incarnation of the endpoint (export/import round trips so far)
}

type c09Result struct {
	Case       int      `json:"case"`
	Name       string   `json:"name"`
	Violations []string `json:"violations,omitempty"`
	Info       []string `json:"info,omitempty"`
	Lab        string   `json:"lab,omitempty"`
	Records    []numRec `json:"records,omitempty"`
	NRecords   int      `json:"nrecords"`
	Refused    int      `json:"refused"` // writes refused with the overflow error
	Data       int      `json:"data"`    // payloads that arrived
}

// reincarnate replaces the endpoint of one side by a connection resumed from its exported state;
// the old connection "crashes" (its socket disappears, no close_notify).
func (d *dataSess) reincarnate(side string, window int) error {
	p := d.peer(side)
	st, ok := p.conn.ConnectionState()
	if !ok {
		return fmt.Errorf("%w: ConnectionState unavailable", errLab)
	}
	blob, err := st.MarshalBinary()
	if err != nil {
		return err
	}
	var st2 State
	if err := st2.UnmarshalBinary(blob); err != nil {
		return err
	}
	old := p.conn
	n := d.r.net
	_ = p.end.Close()
	_ = old.Close()
	p.detach()
	end := n.endpoint(p.name, p.end.addr)
	p.end = end
	peerAddr := labAddr("s")
	if side == "s" {
		peerAddr = labAddr("c")
	}
	opts := []Option{WithFlightInterval(time.Hour)}
	if window > 0 {
		opts = append(opts, WithReplayProtectionWindow(window))
	}
	if d.sc.Padding > 0 {
		pad := uint(d.sc.Padding) //nolint:gosec
		opts = append(opts, WithPaddingLengthGenerator(func(uint) uint { return pad }))
	}
	nc, err := ResumeWithOptions(&st2, end, peerAddr, opts...)
	if err != nil {
		return err
	}
	p.hsDone = make(chan struct{})
	p.hsErr = nil
	p.attach(nc)
	ctx, cancel := context.WithTimeout(context.Background(), 3*time.Second)
	defer cancel()
	p.startHandshake(ctx)
	<-p.hsDone
	if p.hsErr != nil {
		return p.hsErr
	}
	d.startDrain(p)

	return nil
}

// emittedNumbers lists every record the endpoints put on the wire, in emission order per side.
func emittedNumbers(r *labRun, sc *scenCfg, incAt map[string][]int) []numRec { //nolint:cyclop
	var out []numRec
	if sc.Ver == "13" {
		for _, e := range r.rec.snapshot() {
			if e["ev"] == "rec.seal" {
				out = append(out, numRec{Side: e["side"].(string), Epoch: e["epoch"].(int), Seq: e["seq"].(uint64), Ctype: e["ctype"].(int)})
			}
		}
	}
	for _, side := range []string{"c", "s"} {
		dir := dirOf(side)
		cidLen := 0
		// records sent by the client carry the CID the server asked for, and vice versa
		if side == "c" && sc.CIDs > 0 {
			cidLen = sc.CIDs
		}
		if side == "s" && sc.CIDc > 0 {
			cidLen = sc.CIDc
		}
		for i := 0; i < r.net.Emitted(dir); i++ {
			inc := 0
			for _, at := range incAt[side] {
				if i >= at {
					inc++
				}
			}
			d := r.net.Data(dir, i)
			if len(d) > 0 && d[0]&0xe0 == 0x20 {
				continue // DTLS 1.3 ciphertext: numbered through the hook
			}
			for _, rec := range parseRecords12(d, cidLen) {
				out = append(out, numRec{Side: side, Epoch: int(rec.epoch), Seq: rec.seq, Ctype: int(rec.ctype), Inc: inc})
			}
		}
	}

	return out
}

func checkNumbers(recs []numRec, viol func(string, ...any)) {
	type key struct {
		side  string
		epoch int
	}
	last := map[key]uint64{}
	has := map[key]bool{}
	for _, r := range recs {
		k := key{r.Side, r.Epoch}
		if r.Seq > (1<<48)-1 {
			viol("%s emitted sequence number %d > 2^48-1 in epoch %d", r.Side, r.Seq, r.Epoch)
		}
		if has[k] && r.Seq <= last[k] {
			if r.Seq == last[k] {
				viol("%s emitted (epoch %d, sequence %d) twice (content types involved: %d)", r.Side, r.Epoch, r.Seq, r.Ctype)
			} else {
				viol("%s emitted (epoch %d, sequence %d) after sequence %d: numbers are reused or not increasing in emission order", r.Side, r.Epoch, r.Seq, last[k])
			}
		}
		if !has[k] || r.Seq > last[k] {
			last[k] = r.Seq
		}
		has[k] = true
	}
}

func runC09(idx int, cc *c09Case, keepRecords bool) c09Result { //nolint:cyclop,gocognit
	res := c09Result{Case: idx, Name: cc.Name}
	viol := func(f string, a ...any) {
		if len(res.Violations) < 6 {
			res.Violations = append(res.Violations, fmt.Sprintf(f, a...))
		}
	}
	rng := rand.New(rand.NewSource(cc.Seed + int64(idx)*104729)) //nolint:gosec
	scen := cc.Scen
	r := newLabRun()
	st := &scenStores{}
	if len(cc.CMask)+len(cc.SMask) > 0 {
		scen.IntervalMS = 20
	}
	if err := r.setup(&scen, st); err != nil {
		res.Lab = err.Error()

		return res
	}
	d := &dataSess{r: r, sc: &scen, reads: map[string]*readLog{}}
	defer d.close()
	r.net.mu.Lock()
	r.net.auto = maskPolicy(cc.CMask, cc.SMask, scen.interval(), r.net)
	r.net.mu.Unlock()
	ctx, cancel := context.WithTimeout(context.Background(), 5*time.Second)
	r.s.startHandshake(ctx)
	r.c.startHandshake(ctx)
	<-r.c.hsDone
	<-r.s.hsDone
	cancel()
	if r.c.hsErr != nil || r.s.hsErr != nil {
		res.Lab = fmt.Sprintf("handshake failed: %v / %v", r.c.hsErr, r.s.hsErr)

		return res
	}
	d.lossless()
	d.startDrain(r.c)
	d.startDrain(r.s)
	incAt := map[string][]int{}
	if cc.Kind == "overflow" {
		// the sequence counter of the sending epoch of both sides is moved next to 2^48
		for _, p := range []*labPeer{r.c, r.s} {
			p.conn.lock.Lock()
			cs := commonOf(p.conn)
			ep := int(cs.LocalEpoch())
			for len(cs.LocalSequenceNumber) <= ep {
				cs.LocalSequenceNumber = append(cs.LocalSequenceNumber, 0)
			}
			cs.LocalSequenceNumber[ep] = cc.Poke
			p.conn.lock.Unlock()
		}
	}
	total := 0
	var resMu sync.Mutex
	write := func(p *labPeer, tag string) {
		_, err := p.conn.Write([]byte(tag))
		if err != nil {
			resMu.Lock()
			defer resMu.Unlock()
			if errors.Is(err, dtlserrors.ErrSequenceNumberOverflow) {
				res.Refused++
			} else if len(res.Info) < 4 {
				res.Info = append(res.Info, "write error: "+err.Error())
			}
		}
	}
	rounds := 1 + cc.Exports + cc.KeyUpd
	for round := 0; round < rounds; round++ {
		var wg sync.WaitGroup
		var mu sync.Mutex
		for _, p := range []*labPeer{r.c, r.s} {
			for w := 0; w < cc.Writers; w++ {
				wg.Add(1)
				go func(p *labPeer, w int) {
					defer wg.Done()
					for k := 0; k < cc.Writes; k++ {
						write(p, fmt.Sprintf("%s-r%d-w%d-%d", p.name, round, w, k))
						mu.Lock()
						total++
						mu.Unlock()
					}
				}(p, w)
			}
		}
		// key updates race with the writers (DTLS 1.3)
		if scen.Ver == "13" && round < cc.KeyUpd {
			wg.Add(1)
			go func() {
				defer wg.Done()
				p := r.c
				if rng.Intn(2) == 0 {
					p = r.s
				}
				kctx, kcancel := context.WithTimeout(context.Background(), 3*time.Second)
				defer kcancel()
				if err := p.conn.UpdateKeys(kctx, KeyUpdateOptions{RequestPeerUpdate: rng.Intn(2) == 0}); err != nil && len(res.Info) < 4 {
					res.Info = append(res.Info, "UpdateKeys: "+err.Error())
				}
			}()
		}
		wg.Wait()
		d.settle(3 * time.Second)
		if scen.Ver != "13" && round < cc.Exports {
			side := "c"
			if (round+int(cc.Seed))%2 == 1 {
				side = "s"
			}
			incAt[side] = append(incAt[side], r.net.Emitted(dirOf(side)))
			if err := d.reincarnate(side, scen.Window); err != nil {
				res.Lab = "export/import failed: " + err.Error()

				return res
			}
		}
	}
	if cc.CloseEnd {
		_ = r.c.conn.Close()
		d.settle(time.Second)
		_ = r.s.conn.Close()
	}
	d.settle(2 * time.Second)
	for _, side := range []string{"c", "s"} {
		if l := d.reads[side]; l != nil {
			pls, _, _ := l.snapshot()
			res.Data += len(pls)
		}
	}
	recs := emittedNumbers(r, &scen, incAt)
	res.NRecords = len(recs)
	checkNumbers(recs, viol)
	if cc.Kind == "overflow" {
		if res.Refused == 0 {
			viol("no write was refused although the sequence counter started at %d (2^48-1 = %d)", cc.Poke, uint64(1<<48)-1)
		}
	}
	if keepRecords || len(res.Violations) > 0 {
		res.Records = recs
	}

	return res
}

func TestVerifNumbering(t *testing.T) {
	in, out := os.Getenv("VERIF_IN"), os.Getenv("VERIF_OUT")
	keep := os.Getenv("VERIF_KEEP_EVENTS") != ""
	fi, err := os.Open(in)
	if err != nil {
		t.Fatal(err)
	}
	defer fi.Close()
	var cases []c09Case
	scan := bufio.NewScanner(fi)
	scan.Buffer(make([]byte, 1<<20), 1<<24)
	for scan.Scan() {
		var c c09Case
		if err := json.Unmarshal(scan.Bytes(), &c); err != nil {
			t.Fatal(err)
		}
		cases = append(cases, c)
	}
	getPKI()
	results := make([]c09Result, len(cases))
	var wg sync.WaitGroup
	sem := make(chan struct{}, runtime.GOMAXPROCS(0)/2+1)
	for i := range cases {
		wg.Add(1)
		sem <- struct{}{}
		go func(i int) {
			defer wg.Done()
			defer func() { <-sem }()
			results[i] = runC09(i, &cases[i], keep)
			if results[i].Lab != "" {
				results[i] = runC09(i, &cases[i], keep)
			}
		}(i)
	}
	wg.Wait()
	fo, err := os.Create(out)
	if err != nil {
		t.Fatal(err)
	}
	defer fo.Close()
	w := bufio.NewWriter(fo)
	defer w.Flush()
	enc := json.NewEncoder(w)
	for _, r := range results {
		_ = enc.Encode(r)
	}
}
