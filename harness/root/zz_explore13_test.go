//go:build verif

package dtls

import (
	"context"
	"fmt"
	"os"
	"sort"
	"strconv"
	"strings"
	"testing"
	"time"
)

type x13 struct {
	r      *labRun
	seen   int
	seals  map[string][]string
	recmap map[string]string // "side/epoch/seq" -> fragment name
	out    map[string][]int  // dir -> pending datagram indices
	desc   map[string]string // "dir#idx" -> description
}

func fragName(b []byte) string {
	if len(b) < 12 {
		return "?"
	}
	names := map[byte]string{1: "CH", 2: "SH", 8: "EE", 11: "CERT", 15: "CV", 20: "FIN", 4: "NST", 13: "CR", 24: "KU"}
	off := int(b[6])<<16 | int(b[7])<<8 | int(b[8])
	n := names[b[0]]
	if n == "" {
		n = fmt.Sprintf("T%d", b[0])
	}
	if off > 0 || (int(b[9])<<16|int(b[10])<<8|int(b[11])) < (int(b[1])<<16|int(b[2])<<8|int(b[3])) {
		n += fmt.Sprintf("@%d", off)
	}

	return n
}

func (x *x13) absorb() {
	evs := x.r.rec.snapshot()
	for _, e := range evs[x.seen:] {
		switch e["ev"] {
		case "rec.seal":
			side, _ := e["side"].(string)
			head, _ := e["head"].(string)
			ct, _ := e["ctype"].(int)
			d := fmt.Sprintf("ct%d", ct)
			switch ct {
			case 22:
				d = fragName([]byte(head))
				x.recmap[fmt.Sprintf("%s/%v/%v", side, e["epoch"], e["seq"])] = d
			case 26:
				b := []byte(head)
				var acked []string
				for i := 2; i+16 <= len(b); i += 16 {
					ep := uint64(0)
					sq := uint64(0)
					for k := 0; k < 8; k++ {
						ep = ep<<8 | uint64(b[i+k])
						sq = sq<<8 | uint64(b[i+8+k])
					}
					peer := "s"
					if side == "s" {
						peer = "c"
					}
					nm := x.recmap[fmt.Sprintf("%s/%d/%d", peer, ep, sq)]
					acked = append(acked, fmt.Sprintf("%s(%d/%d)", nm, ep, sq))
				}
				d = "ACK{" + strings.Join(acked, ",") + "}"
			}
			x.seals[side] = append(x.seals[side], fmt.Sprintf("%s.e%v", d, e["epoch"]))
		case "dgram.out":
			from, _ := e["from"].(string)
			dir, _ := e["dir"].(string)
			idx, _ := e["idx"].(int)
			data := x.r.net.Data(dir, idx)
			var parts []string
			for len(data) > 0 {
				if data[0]&0xe0 == 0x20 {
					hl := 1
					if data[0]&0x08 != 0 {
						hl += 2
					} else {
						hl++
					}
					l := int(data[hl])<<8 | int(data[hl+1])
					hl += 2
					if len(x.seals[from]) > 0 {
						parts = append(parts, x.seals[from][0])
						x.seals[from] = x.seals[from][1:]
					} else {
						parts = append(parts, "prot?")
					}
					data = data[min(hl+l, len(data)):]
				} else {
					l := int(data[11])<<8 | int(data[12])
					b := data[13:min(13+l, len(data))]
					nm := fmt.Sprintf("clear%d", data[0])
					if data[0] == 22 {
						nm = fragName(b)
					}
					parts = append(parts, nm)
					data = data[min(13+l, len(data)):]
				}
			}
			x.out[dir] = append(x.out[dir], idx)
			x.desc[fmt.Sprintf("%s#%d", dir, idx)] = strings.Join(parts, "+")
			fmt.Printf("    %s emits #%d len=%v [%s]\n", from, idx, e["len"], strings.Join(parts, " + "))
		case "fsm.parsed":
			fmt.Printf("    (%v parsed: flight=%v next=%v interval=%v retransmit=%v)\n", e["side"], e["flight"], e["next"], e["interval"], e["retransmit"])
		case "fsm.recv":
			fmt.Printf("    (%v recv: flight=%v isRetransmit=%v hasHandshake=%v acks=%v)\n", e["side"], e["flight"], e["isRetransmit"], e["hasHandshake"], e["acks"])
		case "fsm.timeout":
			fmt.Printf("    (%v timeout)\n", e["side"])
		case "hs.return":
			fmt.Printf("    (%v HandshakeContext returned ok=%v %v)\n", e["side"], e["ok"], e["err"])
		}
	}
	x.seen = len(evs)
}

// VERIF_X: space-separated commands: "c2s:0" deliver datagram index 0 of direction c2s, "drop:s2c:1", "tc"/"ts" fire timer
func TestVerifExplore13(t *testing.T) {
	mtu, _ := strconv.Atoi(envOr("VERIF_MTU", "600"))
	r := newLabRun()
	scen := scenCfg{Ver: "13", MTU: mtu, HelloVerify: os.Getenv("VERIF_HRR") == "1", CurvesC: []int{29}, CurvesS: []int{29}, CIDc: -1, CIDs: -1}
	if err := r.setup(&scen, &scenStores{}); err != nil {
		t.Fatal(err)
	}
	defer r.closeAll()
	x := &x13{r: r, seals: map[string][]string{}, recmap: map[string]string{}, out: map[string][]int{}, desc: map[string]string{}}
	ctx, cancel := context.WithTimeout(context.Background(), 20*time.Second)
	defer cancel()
	r.s.startHandshake(ctx)
	r.c.startHandshake(ctx)
	r.waitQuiet(2 * time.Second)
	x.absorb()
	for _, cmd := range strings.Fields(os.Getenv("VERIF_X")) {
		fmt.Println(">>", cmd)
		p := strings.Split(cmd, ":")
		switch p[0] {
		case "c2s", "s2c":
			i, _ := strconv.Atoi(p[1])
			fmt.Printf("   deliver %s#%d [%s] -> %v\n", p[0], i, x.desc[cmd2key(p[0], i)], r.net.Deliver(p[0], i))
		case "tc":
			fmt.Println("   fire c:", r.c.fire())
		case "ts":
			fmt.Println("   fire s:", r.s.fire())
		}
		waitQuiet13(r, 3*time.Second)
		time.Sleep(20 * time.Millisecond)
		r.waitQuiet(time.Second)
		x.absorb()
	}
	var ks []string
	for d := range x.out {
		ks = append(ks, d)
	}
	sort.Strings(ks)
	fmt.Println("pending:", r.net.Pending("c2s"), r.net.Pending("s2c"))
}

func cmd2key(dir string, i int) string { return fmt.Sprintf("%s#%d", dir, i) }
