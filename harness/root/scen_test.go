// Scenario configuration -> pion/dtls options, credentials, and the generic
// handshake runner used by the check drivers.

//go:build verif

package dtls

import (
	"context"
	"crypto/ecdsa"
	"crypto/elliptic"
	"crypto/rand"
	"crypto/rsa"
	"crypto/tls"
	"crypto/x509"
	"crypto/x509/pkix"
	"fmt"
	"math/big"
	"net"
	"sync"
	"time"

	dtlselliptic "github.com/pion/dtls/v3/pkg/crypto/elliptic"
	"github.com/pion/dtls/v3/pkg/protocol"
)

// scenCfg is the JSON-visible description of one client/server configuration pair.
type scenCfg struct {
	Name        string   `json:"name"`
	Ver         string   `json:"ver"`  // "12" | "13" (both sides), overridden by CVer/SVer
	CVer        string   `json:"cver"` // "12" | "13" | "dual"
	SVer        string   `json:"sver"`
	Auth        string   `json:"auth"`  // "cert" | "rsa" | "psk" | "ecdhepsk"
	Suite       string   `json:"suite"` // suite name, "" = default list
	CSuites     []string `json:"csuites"`
	SSuites     []string `json:"ssuites"`
	ClientAuth  int      `json:"clientAuth"` // ClientAuthType on the server
	ClientCert  bool     `json:"clientCert"` // client presents a certificate
	Verify      bool     `json:"verify"`     // real chain verification instead of InsecureSkipVerify
	HelloVerify bool     `json:"helloVerify"`
	MTU         int      `json:"mtu"`
	EMSc        int      `json:"emsC"`
	EMSs        int      `json:"emsS"`
	CIDc        int      `json:"cidC"` // -1 = no generator, otherwise CID length the client wants to RECEIVE
	CIDs        int      `json:"cidS"`
	SRTPc       []int    `json:"srtpC"`
	SRTPs       []int    `json:"srtpS"`
	ALPNc       []string `json:"alpnC"`
	ALPNs       []string `json:"alpnS"`
	CurvesC     []int    `json:"curvesC"`
	CurvesS     []int    `json:"curvesS"`
	Resume      bool     `json:"resume"`   // both session stores pre-populated with the same session
	Stores      bool     `json:"stores"`   // session stores present (empty unless Resume)
	NoPSKHint   bool     `json:"noPskHint"` // PSK server without identity hint
	LeafOnly    bool     `json:"leafOnly"` // certificate messages carry the leaf only (the verifier builds the rest of the chain from its pool)
	StaleC      bool     `json:"staleC"`   // stores present, only the CLIENT's holds a session: it offers an id the server does not know
	Window      int      `json:"window"`
	IntervalMS  int      `json:"intervalMs"` // 0 => virtual timers only (1h real interval)
	NoBackoff   bool     `json:"noBackoff"`
	Padding     int      `json:"padding"`
	PSKc        string   `json:"pskC"` // hex-less ascii keys; default "k1"
	PSKs        string   `json:"pskS"`
}

func (s *scenCfg) defaults() {
	if s.Ver == "" {
		s.Ver = "12"
	}
	if s.CVer == "" {
		s.CVer = s.Ver
	}
	if s.SVer == "" {
		s.SVer = s.Ver
	}
	if s.Auth == "" {
		s.Auth = "cert"
	}
	if s.PSKc == "" {
		s.PSKc = "k1"
	}
	if s.PSKs == "" {
		s.PSKs = "k1"
	}
}

var suiteByName = map[string]CipherSuiteID{ //nolint:gochecknoglobals
	"TLS_AES_128_GCM_SHA256":                        TLS_AES_128_GCM_SHA256,
	"TLS_AES_256_GCM_SHA384":                        TLS_AES_256_GCM_SHA384,
	"TLS_CHACHA20_POLY1305_SHA256":                  TLS_CHACHA20_POLY1305_SHA256,
	"TLS_ECDHE_ECDSA_WITH_AES_128_CCM":              TLS_ECDHE_ECDSA_WITH_AES_128_CCM,
	"TLS_ECDHE_ECDSA_WITH_AES_128_CCM_8":            TLS_ECDHE_ECDSA_WITH_AES_128_CCM_8,
	"TLS_ECDHE_ECDSA_WITH_AES_128_GCM_SHA256":       TLS_ECDHE_ECDSA_WITH_AES_128_GCM_SHA256,
	"TLS_ECDHE_RSA_WITH_AES_128_GCM_SHA256":         TLS_ECDHE_RSA_WITH_AES_128_GCM_SHA256,
	"TLS_ECDHE_ECDSA_WITH_AES_256_GCM_SHA384":       TLS_ECDHE_ECDSA_WITH_AES_256_GCM_SHA384,
	"TLS_ECDHE_RSA_WITH_AES_256_GCM_SHA384":         TLS_ECDHE_RSA_WITH_AES_256_GCM_SHA384,
	"TLS_ECDHE_ECDSA_WITH_AES_256_CBC_SHA":          TLS_ECDHE_ECDSA_WITH_AES_256_CBC_SHA,
	"TLS_ECDHE_RSA_WITH_AES_256_CBC_SHA":            TLS_ECDHE_RSA_WITH_AES_256_CBC_SHA,
	"TLS_PSK_WITH_AES_128_CCM":                      TLS_PSK_WITH_AES_128_CCM,
	"TLS_PSK_WITH_AES_128_CCM_8":                    TLS_PSK_WITH_AES_128_CCM_8,
	"TLS_PSK_WITH_AES_256_CCM_8":                    TLS_PSK_WITH_AES_256_CCM_8,
	"TLS_PSK_WITH_AES_128_GCM_SHA256":               TLS_PSK_WITH_AES_128_GCM_SHA256,
	"TLS_PSK_WITH_AES_128_CBC_SHA256":               TLS_PSK_WITH_AES_128_CBC_SHA256,
	"TLS_ECDHE_PSK_WITH_AES_128_CBC_SHA256":         TLS_ECDHE_PSK_WITH_AES_128_CBC_SHA256,
	"TLS_ECDHE_ECDSA_WITH_CHACHA20_POLY1305_SHA256": TLS_ECDHE_ECDSA_WITH_CHACHA20_POLY1305_SHA256,
	"TLS_ECDHE_RSA_WITH_CHACHA20_POLY1305_SHA256":   TLS_ECDHE_RSA_WITH_CHACHA20_POLY1305_SHA256,
	"TLS_PSK_WITH_CHACHA20_POLY1305_SHA256":         TLS_PSK_WITH_CHACHA20_POLY1305_SHA256,
}

func suiteIDs(names []string) []CipherSuiteID {
	out := make([]CipherSuiteID, 0, len(names))
	for _, n := range names {
		id, ok := suiteByName[n]
		if !ok {
			panic("unknown suite " + n)
		}
		out = append(out, id)
	}

	return out
}

// ---------------------------------------------------------------------------
// credentials (generated once per process)

type labPKI struct {
	caCert     *x509.Certificate
	caKey      *ecdsa.PrivateKey
	pool       *x509.CertPool
	server     tls.Certificate // ECDSA leaf, CN/SAN "server.lab", signed by CA
	serverRSA  tls.Certificate
	client     tls.Certificate // ECDSA leaf "client.lab"
	otherCA    *x509.CertPool  // a CA that signed nothing we present
	rogue      tls.Certificate // self-signed, not under CA, name server.lab
	expired    tls.Certificate // under CA, expired
	wrongName  tls.Certificate // under CA, name other.lab
	rogueCli   tls.Certificate // self-signed client cert
	serverLeaf *x509.Certificate
}

var (
	pkiOnce sync.Once //nolint:gochecknoglobals
	pki     *labPKI   //nolint:gochecknoglobals
)

func mkCert(tmpl, parent *x509.Certificate, pub any, signer any) []byte {
	der, err := x509.CreateCertificate(rand.Reader, tmpl, parent, pub, signer)
	if err != nil {
		panic(err)
	}

	return der
}

func leafTmpl(serial int64, cn string, notBefore, notAfter time.Time, client bool) *x509.Certificate {
	eku := []x509.ExtKeyUsage{x509.ExtKeyUsageServerAuth, x509.ExtKeyUsageClientAuth}
	_ = client

	t := &x509.Certificate{
		SerialNumber: big.NewInt(serial), Subject: pkix.Name{CommonName: cn}, DNSNames: []string{cn},
		NotBefore: notBefore, NotAfter: notAfter, KeyUsage: x509.KeyUsageDigitalSignature, ExtKeyUsage: eku,
		BasicConstraintsValid: true,
	}
	if cn == labServerName {
		// the lab server is also reachable under IP address literals (C03: server name = IP literal); other.lab is not
		t.IPAddresses = []net.IP{net.ParseIP(labServerIP4), net.ParseIP(labServerIP6)}
	}

	return t
}

const (
	labServerIP4 = "192.0.2.7"
	labServerIP6 = "2001:db8::7"
)

func getPKI() *labPKI {
	pkiOnce.Do(func() {
		now := time.Now()
		p := &labPKI{}
		mkCA := func(cn string) (*x509.Certificate, *ecdsa.PrivateKey) {
			key, _ := ecdsa.GenerateKey(elliptic.P256(), rand.Reader)
			tmpl := &x509.Certificate{
				SerialNumber: big.NewInt(1), Subject: pkix.Name{CommonName: cn},
				NotBefore: now.Add(-time.Hour), NotAfter: now.Add(240 * time.Hour),
				KeyUsage: x509.KeyUsageCertSign | x509.KeyUsageDigitalSignature, IsCA: true, BasicConstraintsValid: true,
			}
			der := mkCert(tmpl, tmpl, &key.PublicKey, key)
			cert, _ := x509.ParseCertificate(der)

			return cert, key
		}
		p.caCert, p.caKey = mkCA("lab CA")
		p.pool = x509.NewCertPool()
		p.pool.AddCert(p.caCert)
		other, _ := mkCA("other CA")
		p.otherCA = x509.NewCertPool()
		p.otherCA.AddCert(other)
		leaf := func(serial int64, cn string, nb, na time.Time, rsaKey bool) tls.Certificate {
			var priv any
			var pub any
			if rsaKey {
				k, _ := rsa.GenerateKey(rand.Reader, 2048)
				priv, pub = k, &k.PublicKey
			} else {
				k, _ := ecdsa.GenerateKey(elliptic.P256(), rand.Reader)
				priv, pub = k, &k.PublicKey
			}
			der := mkCert(leafTmpl(serial, cn, nb, na, false), p.caCert, pub, p.caKey)
			c, _ := x509.ParseCertificate(der)

			return tls.Certificate{Certificate: [][]byte{der, p.caCert.Raw}, PrivateKey: priv, Leaf: c}
		}
		p.server = leaf(10, "server.lab", now.Add(-time.Hour), now.Add(200*time.Hour), false)
		p.serverLeaf = p.server.Leaf
		p.serverRSA = leaf(11, "server.lab", now.Add(-time.Hour), now.Add(200*time.Hour), true)
		p.client = leaf(12, "client.lab", now.Add(-time.Hour), now.Add(200*time.Hour), false)
		p.expired = leaf(13, "server.lab", now.Add(-48*time.Hour), now.Add(-24*time.Hour), false)
		p.wrongName = leaf(14, "other.lab", now.Add(-time.Hour), now.Add(200*time.Hour), false)
		self := func(cn string) tls.Certificate {
			k, _ := ecdsa.GenerateKey(elliptic.P256(), rand.Reader)
			t := leafTmpl(20, cn, now.Add(-time.Hour), now.Add(200*time.Hour), false)
			der := mkCert(t, t, &k.PublicKey, k)
			c, _ := x509.ParseCertificate(der)

			return tls.Certificate{Certificate: [][]byte{der}, PrivateKey: k, Leaf: c}
		}
		p.rogue = self("server.lab")
		p.rogueCli = self("client.lab")
		pki = p
	})

	return pki
}

// ---------------------------------------------------------------------------
// session store used by resumption scenarios

type labStore struct {
	mu   sync.Mutex
	m    map[string]Session
	gets []string
	sets []string
	dels []string
}

func newLabStore() *labStore { return &labStore{m: map[string]Session{}} }

func (s *labStore) Set(key []byte, v Session) error {
	s.mu.Lock()
	defer s.mu.Unlock()
	s.m[string(key)] = Session{ID: append([]byte(nil), v.ID...), Secret: append([]byte(nil), v.Secret...)}
	s.sets = append(s.sets, string(key))

	return nil
}

func (s *labStore) Get(key []byte) (Session, error) {
	s.mu.Lock()
	defer s.mu.Unlock()
	s.gets = append(s.gets, string(key))

	return s.m[string(key)], nil
}

func (s *labStore) Del(key []byte) error {
	s.mu.Lock()
	defer s.mu.Unlock()
	delete(s.m, string(key))
	s.dels = append(s.dels, string(key))

	return nil
}

func (s *labStore) has(key string) bool {
	s.mu.Lock()
	defer s.mu.Unlock()
	_, ok := s.m[key]

	return ok
}

// ---------------------------------------------------------------------------
// options

func verRange(v string) (protocol.Version, protocol.Version) {
	switch v {
	case "13":
		return protocol.Version1_3, protocol.Version1_3
	case "dual":
		return protocol.Version1_2, protocol.Version1_3
	default:
		return protocol.Version1_2, protocol.Version1_2
	}
}

func cidGen(n int) func() []byte {
	return func() []byte {
		b := make([]byte, n)
		_, _ = rand.Read(b)

		return b
	}
}

func toCurves(in []int) []dtlselliptic.Curve {
	out := make([]dtlselliptic.Curve, 0, len(in))
	for _, c := range in {
		out = append(out, dtlselliptic.Curve(c)) //nolint:gosec
	}

	return out
}

func toSRTP(in []int) []SRTPProtectionProfile {
	out := make([]SRTPProtectionProfile, 0, len(in))
	for _, c := range in {
		out = append(out, SRTPProtectionProfile(c)) //nolint:gosec
	}

	return out
}

type scenStores struct {
	c, s *labStore
}

const labServerName = "server.lab"

var (
	labSessID     = []byte("0123456789abcdef0123456789abcdef")                 //nolint:gochecknoglobals
	labSessSecret = []byte("secretsecretsecretsecretsecretsecretsecretsecret") //nolint:gochecknoglobals
)

func (s *scenCfg) interval() time.Duration {
	if s.IntervalMS <= 0 {
		return time.Hour
	}

	return time.Duration(s.IntervalMS) * time.Millisecond
}

func leafOnly(c tls.Certificate, on bool) tls.Certificate {
	if !on || len(c.Certificate) < 2 {
		return c
	}

	return tls.Certificate{Certificate: c.Certificate[:1], PrivateKey: c.PrivateKey, Leaf: c.Leaf}
}

// buildOptions turns a scenario into client and server option lists.
func (s *scenCfg) buildOptions(st *scenStores) ([]ClientOption, []ServerOption) { //nolint:cyclop,gocognit
	s.defaults()
	p := getPKI()
	var co []ClientOption
	var so []ServerOption
	both := func(o Option) {
		co = append(co, o)
		so = append(so, o)
	}
	cmin, cmax := verRange(s.CVer)
	smin, smax := verRange(s.SVer)
	co = append(co, WithMinVersion(cmin), WithMaxVersion(cmax))
	so = append(so, WithMinVersion(smin), WithMaxVersion(smax))
	both(WithFlightInterval(s.interval()))
	if s.NoBackoff {
		both(WithDisableRetransmitBackoff(true))
	}
	if s.MTU > 0 {
		both(WithMTU(s.MTU))
	}
	if s.Window > 0 {
		both(WithReplayProtectionWindow(s.Window))
	}
	if s.Padding > 0 {
		pad := uint(s.Padding) //nolint:gosec
		both(WithPaddingLengthGenerator(func(uint) uint { return pad }))
	}
	cs, ss := s.CSuites, s.SSuites
	if s.Suite != "" {
		cs, ss = []string{s.Suite}, []string{s.Suite}
	}
	if len(cs) > 0 {
		co = append(co, WithCipherSuites(suiteIDs(cs)...))
	}
	if len(ss) > 0 {
		so = append(so, WithCipherSuites(suiteIDs(ss)...))
	}
	switch s.Auth {
	case "psk", "ecdhepsk":
		kc, ks := []byte(s.PSKc), []byte(s.PSKs)
		co = append(co, WithPSK(func([]byte) ([]byte, error) { return kc, nil }), WithPSKIdentityHint([]byte("lab-client")))
		so = append(so, WithPSK(func([]byte) ([]byte, error) { return ks, nil }))
		if !s.NoPSKHint {
			so = append(so, WithPSKIdentityHint([]byte("lab-server")))
		}
	case "rsa":
		so = append(so, WithCertificates(leafOnly(p.serverRSA, s.LeafOnly)))
	default:
		so = append(so, WithCertificates(leafOnly(p.server, s.LeafOnly)))
	}
	if s.Auth == "cert" || s.Auth == "rsa" {
		if s.Verify {
			co = append(co, WithRootCAs(p.pool), WithServerName(labServerName))
		} else {
			co = append(co, WithInsecureSkipVerify(true), WithServerName(labServerName))
		}
		if s.ClientCert {
			co = append(co, WithCertificates(leafOnly(p.client, s.LeafOnly)))
		}
		if s.ClientAuth != 0 {
			so = append(so, WithClientAuth(ClientAuthType(s.ClientAuth)), WithClientCAs(p.pool))
		}
	}
	so = append(so, WithInsecureSkipVerifyHello(!s.HelloVerify))
	co = append(co, WithExtendedMasterSecret(ExtendedMasterSecretType(s.EMSc)))
	so = append(so, WithExtendedMasterSecret(ExtendedMasterSecretType(s.EMSs)))
	if s.CIDc >= 0 {
		co = append(co, WithConnectionIDGenerator(cidGen(s.CIDc)))
	}
	if s.CIDs >= 0 {
		so = append(so, WithConnectionIDGenerator(cidGen(s.CIDs)))
	}
	if len(s.SRTPc) > 0 {
		co = append(co, WithSRTPProtectionProfiles(toSRTP(s.SRTPc)...))
	}
	if len(s.SRTPs) > 0 {
		so = append(so, WithSRTPProtectionProfiles(toSRTP(s.SRTPs)...))
	}
	if len(s.ALPNc) > 0 {
		co = append(co, WithSupportedProtocols(s.ALPNc...))
	}
	if len(s.ALPNs) > 0 {
		so = append(so, WithSupportedProtocols(s.ALPNs...))
	}
	if len(s.CurvesC) > 0 {
		co = append(co, WithEllipticCurves(toCurves(s.CurvesC)...))
	}
	if len(s.CurvesS) > 0 {
		so = append(so, WithEllipticCurves(toCurves(s.CurvesS)...))
	}
	if (s.Resume || s.Stores || s.StaleC) && st != nil {
		if st.c == nil {
			st.c, st.s = newLabStore(), newLabStore()
		}
		if s.StaleC {
			_ = st.c.Set([]byte("s_"+labServerName), Session{ID: labSessID, Secret: labSessSecret})
		}
		if s.Resume {
			_ = st.c.Set([]byte("s_"+labServerName), Session{ID: labSessID, Secret: labSessSecret})
			_ = st.s.Set(labSessID, Session{ID: labSessID, Secret: labSessSecret})
		}
		co = append(co, WithSessionStore(st.c))
		so = append(so, WithSessionStore(st.s))
	}

	return co, so
}

// ---------------------------------------------------------------------------
// building a lab run

// setup creates both endpoints (not yet handshaking).
func (r *labRun) setup(sc *scenCfg, st *scenStores) error {
	co, so := sc.buildOptions(st)

	return r.setupWith(co, so)
}

func (r *labRun) setupWith(co []ClientOption, so []ServerOption) error {
	pc := r.newPeer("c", "c")
	ps := r.newPeer("s", "s")
	cc, err := ClientWithOptions(pc.end, labAddr("s"), co...)
	if err != nil {
		return fmt.Errorf("client options: %w", err)
	}
	pc.attach(cc)
	sv, err := ServerWithOptions(ps.end, labAddr("c"), so...)
	if err != nil {
		return fmt.Errorf("server options: %w", err)
	}
	ps.attach(sv)

	return nil
}

// handshakeLossless runs both handshakes with immediate delivery.
func (r *labRun) handshakeLossless(timeout time.Duration) (error, error) {
	r.net.mu.Lock()
	r.net.auto = func(*labDgram) labAction { return labAction{deliver: 1} }
	r.net.mu.Unlock()
	ctx, cancel := context.WithTimeout(context.Background(), timeout)
	defer cancel()
	r.c.startHandshake(ctx)
	r.s.startHandshake(ctx)
	<-r.c.hsDone
	<-r.s.hsDone

	return r.c.hsErr, r.s.hsErr
}
