// C17 real-time part: silence runs (inter-emission gaps against the timer law) and floods of stale /
// garbage datagrams (emission bound), on free-running endpoints with real timers.

//go:build verif

package dtls

import (
	"bufio"
	"context"
	"encoding/json"
	"fmt"
	"math/rand"
	"os"
	"sync"
	"testing"
	"time"
)

type silenceCase struct {
	Scen   scenCfg `json:"scen"`
	Name   string  `json:"name"`
	Side   string  `json:"side"`   // endpoint under test
	Flight string  `json:"flight"` // silence starts once it has emitted this flight
	Gaps   int     `json:"gaps"`   // number of retransmission gaps to observe
	Flood  string  `json:"flood"`  // "" | "garbage" | "stale" (rewritten epoch-0 copies of the peer's last datagram) | "replay"
	FloodN int     `json:"floodN"`
}

type silenceResult struct {
	Case      int       `json:"case"`
	Name      string    `json:"name"`
	GapsMS    []float64 `json:"gapsMs"`
	Emitted   int       `json:"emitted"`   // datagrams emitted by the endpoint after silence began
	Timeouts  int       `json:"timeouts"`  // fsm.timeout events of the endpoint after silence began
	Injected  int       `json:"injected"`
	Hard      []string  `json:"hard,omitempty"` // violations that do not depend on scheduling
	Soft      []string  `json:"soft,omitempty"` // upper-bound (scheduling dependent) observations
	Lab       string    `json:"lab,omitempty"`
	Retx      bool      `json:"retx"`
	FlightMax int       `json:"flightMax"`
}

func runSilence(idx int, sc *silenceCase, seed int64) silenceResult { //nolint:cyclop,gocognit
	res := silenceResult{Case: idx, Name: sc.Name}
	r := newLabRun()
	scen := sc.Scen
	if scen.IntervalMS <= 0 {
		scen.IntervalMS = 10
	}
	interval := scen.interval()
	if err := r.setup(&scen, &scenStores{}); err != nil {
		res.Lab = err.Error()

		return res
	}
	defer r.closeAll()
	target := r.c
	if sc.Side == "s" {
		target = r.s
	}
	tdir := dirOf(sc.Side)
	var mu sync.Mutex
	silent := false
	var firstIdx int
	var times []time.Duration
	var lastPeer []byte
	burst := 0
	r.net.mu.Lock()
	r.net.auto = func(d *labDgram) labAction {
		mu.Lock()
		defer mu.Unlock()
		if d.dir == tdir {
			if !silent && d.tag == sc.Flight {
				silent = true
				firstIdx = d.idx
			}
			if silent {
				if d.tag == sc.Flight {
					times = append(times, d.t)
				}

				return labAction{deliver: 0}
			}

			return labAction{deliver: 1}
		}
		if silent {
			return labAction{deliver: 0}
		}
		lastPeer = append([]byte(nil), d.data...)

		return labAction{deliver: 1}
	}
	r.net.mu.Unlock()
	budget := interval * time.Duration((1<<(sc.Gaps+1))+4)
	if scen.NoBackoff {
		budget = interval * time.Duration(sc.Gaps+4)
	}
	if sc.Flood != "" {
		budget = interval * 8
	}
	ctx, cancel := context.WithTimeout(context.Background(), budget+3*time.Second)
	defer cancel()
	r.s.startHandshake(ctx)
	r.c.startHandshake(ctx)
	// wait for the silence to begin
	deadline := time.Now().Add(3 * time.Second)
	for {
		mu.Lock()
		s := silent
		mu.Unlock()
		if s {
			break
		}
		if time.Now().After(deadline) {
			res.Lab = "flight " + sc.Flight + " never emitted by " + sc.Side

			return res
		}
		time.Sleep(200 * time.Microsecond)
	}
	startEv := len(r.rec.snapshot())
	if sc.Flood != "" {
		rng := rand.New(rand.NewSource(seed + int64(idx))) //nolint:gosec
		mu.Lock()
		base := append([]byte(nil), lastPeer...)
		mu.Unlock()
		for j := 0; j < sc.FloodN; j++ {
			var pkt []byte
			switch sc.Flood {
			case "garbage":
				pkt = make([]byte, 1+rng.Intn(200))
				_, _ = rng.Read(pkt)
			case "replay":
				pkt = base
			case "stale":
				// epoch-0 records carry no MAC: a peer repeating an old flight with fresh record numbers
				pkt = append([]byte(nil), base...)
				for _, rec := range parseRecords12(pkt, 0) {
					if rec.epoch == 0 {
						n := uint64(100000 + j*16 + rec.off%16) //nolint:gosec
						for b := 0; b < 6; b++ {
							pkt[rec.off+10-b] = byte(n >> (8 * b)) //nolint:gosec
						}
					}
				}
			}
			if len(pkt) == 0 {
				continue
			}
			peerName := "s"
			if sc.Side == "s" {
				peerName = "c"
			}
			r.net.Inject(sc.Side, labAddr(peerName), pkt)
			res.Injected++
			if j%50 == 49 {
				time.Sleep(time.Millisecond)
			}
		}
	}
	time.Sleep(budget)
	mu.Lock()
	ts := append([]time.Duration(nil), times...)
	mu.Unlock()
	res.Emitted = r.net.Emitted(tdir) - firstIdx
	evs := r.rec.snapshot()
	for _, e := range evs[startEv:] {
		if e["ev"] == "fsm.timeout" && e["side"] == sc.Side {
			res.Timeouts++
		}
	}
	// flight size: datagrams of the first emission (same timestamp cluster within 1 ms... use the tag count before the first gap)
	burst = 1
	for i := 1; i < len(ts); i++ {
		if ts[i]-ts[i-1] < interval/2 {
			burst++
		} else {
			break
		}
	}
	res.FlightMax = burst
	// collapse bursts into emission instants
	var inst []time.Duration
	for i, t := range ts {
		if i == 0 || t-ts[i-1] >= interval/2 {
			inst = append(inst, t)
		}
	}
	for i := 1; i < len(inst); i++ {
		res.GapsMS = append(res.GapsMS, float64((inst[i]-inst[i-1]).Microseconds())/1000)
	}
	st, _ := target.state.Load().(string)
	retransmittable := sc.Flight != "F2"
	res.Retx = retransmittable
	iv := float64(interval.Microseconds()) / 1000
	if sc.Flood == "" { //nolint:nestif
		switch {
		case !retransmittable || st == "Finished":
			if len(inst) > 1 {
				res.Hard = append(res.Hard, fmt.Sprintf("%s (%s, state %s) re-sent its flight %d time(s) without any input", sc.Name, sc.Flight, st, len(inst)-1))
			}
		default:
			if len(res.GapsMS) < sc.Gaps {
				res.Soft = append(res.Soft, fmt.Sprintf("%s: only %d of %d retransmissions observed in %v", sc.Name, len(res.GapsMS), sc.Gaps, budget))
			}
			for k, g := range res.GapsMS {
				want := iv * float64(uint(1)<<uint(k)) //nolint:gosec
				if scen.NoBackoff {
					want = iv
				}
				if want > 60000 {
					want = 60000
				}
				if g < want*0.97 {
					res.Hard = append(res.Hard, fmt.Sprintf("%s: retransmission %d came after %.2f ms, the timer law requires at least %.2f ms", sc.Name, k+1, g, want))
				}
				if g > want+40 {
					res.Soft = append(res.Soft, fmt.Sprintf("%s: retransmission %d came after %.2f ms, expected about %.2f ms", sc.Name, k+1, g, want))
				}
			}
		}
	} else {
		// emission bound: the timer schedule plus one flight per datagram received
		bound := burst * (1 + res.Timeouts + res.Injected)
		if res.Emitted > bound {
			res.Hard = append(res.Hard, fmt.Sprintf("%s: %d datagrams emitted for %d timer events and %d datagrams received (flight size %d)",
				sc.Name, res.Emitted, res.Timeouts, res.Injected, burst))
		}
		if sc.Flood != "stale" && sc.Flood != "replay" && res.Emitted > burst*(1+res.Timeouts)+2 {
			// garbage is not handshake input at all: only the timer may cause emissions (alerts aside).  Replayed datagrams
			// are, when they carry a cleartext handshake record (epoch 0 is outside the anti-replay window): they fall
			// under the per-datagram bound above
			res.Hard = append(res.Hard, fmt.Sprintf("%s: %d datagrams emitted under a %s flood with %d timer events", sc.Name, res.Emitted, sc.Flood, res.Timeouts))
		}
	}

	return res
}

func TestVerifSilence(t *testing.T) {
	in, out := os.Getenv("VERIF_IN"), os.Getenv("VERIF_OUT")
	fi, err := os.Open(in)
	if err != nil {
		t.Fatal(err)
	}
	defer fi.Close()
	var cases []silenceCase
	scan := bufio.NewScanner(fi)
	scan.Buffer(make([]byte, 1<<20), 1<<24)
	for scan.Scan() {
		var c silenceCase
		if err := json.Unmarshal(scan.Bytes(), &c); err != nil {
			t.Fatal(err)
		}
		cases = append(cases, c)
	}
	getPKI()
	results := make([]silenceResult, len(cases))
	var wg sync.WaitGroup
	sem := make(chan struct{}, 4) // timing sensitive: little parallelism
	for i := range cases {
		wg.Add(1)
		sem <- struct{}{}
		go func(i int) {
			defer wg.Done()
			defer func() { <-sem }()
			results[i] = runSilence(i, &cases[i], 1)
			for try := 0; try < 2 && (len(results[i].Soft) > 0 || results[i].Lab != ""); try++ {
				again := runSilence(i, &cases[i], int64(try+2))
				if len(again.Hard) > 0 {
					results[i] = again

					break
				}
				if len(again.Soft) < len(results[i].Soft) || results[i].Lab != "" {
					results[i] = again
				}
			}
		}(i)
	}
	wg.Wait()
	fo, err := os.Create(out)
	if err != nil {
		t.Fatal(err)
	}
	defer fo.Close()
	enc := json.NewEncoder(fo)
	for _, r := range results {
		_ = enc.Encode(r)
	}
}
