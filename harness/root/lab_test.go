// Verification lab for pion/dtls: controllable in-memory network, event
// recorder and endpoint wrapper. Compiled INTO package dtls through
// `go test -overlay` with `-tags verif` (see /verif/DESIGN.md 2.2 - 2.4).

//go:build verif

package dtls

import (
	"context"
	"encoding/hex"
	"encoding/json"
	"errors"
	"fmt"
	"net"
	"os"
	"sort"
	"sync"
	"sync/atomic"
	"time"

	"github.com/pion/dtls/v3/internal/vtrace"
)

// ---------------------------------------------------------------------------
// event recorder

type vEvent map[string]any

type vRecorder struct {
	mu     sync.Mutex
	events []vEvent
	start  time.Time
}

func newRecorder() *vRecorder { return &vRecorder{start: time.Now()} }

func normVal(v any) any {
	switch x := v.(type) {
	case []byte:
		return hex.EncodeToString(x)
	case time.Duration:
		return int64(x)
	case fmt.Stringer:
		return x.String()
	case error:
		if x == nil {
			return ""
		}

		return x.Error()
	default:
		return v
	}
}

func (r *vRecorder) emitKV(g uint64, ev string, extra map[string]any, kv []any) {
	e := vEvent{"g": g, "ev": ev, "t": time.Since(r.start).Nanoseconds()}
	for k, v := range extra {
		e[k] = v
	}
	for i := 0; i+1 < len(kv); i += 2 {
		k, _ := kv[i].(string)
		e[k] = normVal(kv[i+1])
	}
	r.mu.Lock()
	r.events = append(r.events, e)
	r.mu.Unlock()
}

// add records a harness/lab event with a fresh global sequence number.
func (r *vRecorder) add(ev string, kv ...any) {
	r.emitKV(vtrace.NextSeq(), ev, nil, kv)
}

// snapshot returns the events ordered by global sequence number.
func (r *vRecorder) snapshot() []vEvent {
	r.mu.Lock()
	out := append([]vEvent(nil), r.events...)
	r.mu.Unlock()
	sort.SliceStable(out, func(i, j int) bool { return out[i]["g"].(uint64) < out[j]["g"].(uint64) })

	return out
}

func (r *vRecorder) count(ev string) int {
	r.mu.Lock()
	defer r.mu.Unlock()
	n := 0
	for _, e := range r.events {
		if e["ev"] == ev {
			n++
		}
	}

	return n
}

// ---------------------------------------------------------------------------
// lab network

type labAddr string

func (a labAddr) Network() string { return "lab" }
func (a labAddr) String() string  { return string(a) }

type labDgram struct {
	idx       int
	dir       string // "c2s" or "s2c" (by emitting endpoint)
	from      string // endpoint name
	src, dst  labAddr
	data      []byte
	delivered int
	dropped   bool
	t         time.Duration
	g         uint64
	tag       string // flight the emitting FSM was in ("F1".."F6"), "alert", or ""
}

type labIn struct {
	data []byte
	src  net.Addr
}

type labEnd struct {
	n       *labNet
	name    string
	addr    labAddr
	inbox   []labIn
	waiting bool
	closed  bool
	rdl     time.Time
	rdlGen  int
	tag     func() string
}

// labAction is what the automatic policy decides for an emitted datagram.
type labAction struct {
	deliver int           // number of copies to deliver now
	delay   time.Duration // deliver after this delay instead of now (one copy)
	hold    bool          // keep until the next datagram of the same direction was handled
	keep    bool          // leave the datagram pending (neither delivered nor dropped): the driver decides later
}

type labNet struct {
	mu      sync.Mutex
	cond    *sync.Cond
	rec     *vRecorder
	ends    map[string]*labEnd // by endpoint name
	byAddr  map[labAddr]*labEnd
	emitted map[string][]*labDgram // by dir
	held    map[string][]*labDgram
	auto    func(d *labDgram) labAction // nil => scripted: datagrams wait for Deliver/Drop
	start   time.Time
}

func newLabNet(rec *vRecorder) *labNet {
	n := &labNet{
		rec: rec, ends: map[string]*labEnd{}, byAddr: map[labAddr]*labEnd{},
		emitted: map[string][]*labDgram{}, held: map[string][]*labDgram{}, start: time.Now(),
	}
	n.cond = sync.NewCond(&n.mu)

	return n
}

func (n *labNet) endpoint(name string, addr labAddr) *labEnd {
	e := &labEnd{n: n, name: name, addr: addr}
	n.mu.Lock()
	n.ends[name] = e
	n.byAddr[addr] = e
	n.mu.Unlock()

	return e
}

func dirOf(from string) string {
	if from == "c" {
		return "c2s"
	}

	return "s2c"
}

// pushLocked places a copy of data into the inbox of the endpoint owning dst.
func (n *labNet) pushLocked(dst labAddr, src net.Addr, data []byte) bool {
	e := n.byAddr[dst]
	if e == nil || e.closed {
		return false
	}
	e.inbox = append(e.inbox, labIn{data: append([]byte(nil), data...), src: src})
	n.cond.Broadcast()

	return true
}

func (e *labEnd) ReadFrom(p []byte) (int, net.Addr, error) {
	n := e.n
	n.mu.Lock()
	defer n.mu.Unlock()
	for {
		if e.closed {
			return 0, nil, net.ErrClosed
		}
		if !e.rdl.IsZero() && !time.Now().Before(e.rdl) {
			return 0, nil, os.ErrDeadlineExceeded
		}
		if len(e.inbox) > 0 {
			in := e.inbox[0]
			e.inbox = e.inbox[1:]
			e.waiting = false

			return copy(p, in.data), in.src, nil
		}
		e.waiting = true
		n.cond.Broadcast()
		n.cond.Wait()
		e.waiting = false
	}
}

func (e *labEnd) WriteTo(p []byte, addr net.Addr) (int, error) {
	n := e.n
	n.mu.Lock()
	if e.closed {
		n.mu.Unlock()

		return 0, net.ErrClosed
	}
	dir := dirOf(e.name)
	dst := labAddr("")
	if addr != nil {
		dst = labAddr(addr.String())
	}
	d := &labDgram{
		idx: len(n.emitted[dir]), dir: dir, from: e.name, src: e.addr, dst: dst,
		data: append([]byte(nil), p...), t: time.Since(n.start), g: vtrace.NextSeq(),
	}
	if len(p) > 0 && p[0] == 21 {
		d.tag = "alert"
	} else if e.tag != nil {
		d.tag = e.tag()
	}
	n.emitted[dir] = append(n.emitted[dir], d)
	auto := n.auto
	n.mu.Unlock()
	n.rec.emitKV(d.g, "dgram.out", nil, []any{"from", e.name, "dir", dir, "idx", d.idx, "len", len(p), "dst", string(dst), "tag", d.tag})
	if auto != nil {
		n.applyAuto(d, auto(d))
	}

	return len(p), nil
}

func (n *labNet) applyAuto(d *labDgram, a labAction) {
	n.mu.Lock()
	prevHeld := n.held[d.dir]
	n.held[d.dir] = nil
	if a.hold {
		n.held[d.dir] = append(n.held[d.dir], d)
	}
	n.mu.Unlock()
	switch {
	case a.hold, a.keep:
	case a.delay > 0:
		time.AfterFunc(a.delay, func() { n.Deliver(d.dir, d.idx) })
	case a.deliver == 0:
		n.Drop(d.dir, d.idx)
	default:
		for i := 0; i < a.deliver; i++ {
			n.Deliver(d.dir, d.idx)
		}
	}
	for _, h := range prevHeld {
		n.Deliver(h.dir, h.idx)
	}
}

// flushHeld delivers datagrams still held back by the automatic policy.
func (n *labNet) flushHeld() {
	n.mu.Lock()
	var all []*labDgram
	for dir, hs := range n.held {
		all = append(all, hs...)
		n.held[dir] = nil
	}
	n.mu.Unlock()
	for _, h := range all {
		n.Deliver(h.dir, h.idx)
	}
}

func (e *labEnd) Close() error {
	n := e.n
	n.mu.Lock()
	e.closed = true
	n.cond.Broadcast()
	n.mu.Unlock()

	return nil
}

func (e *labEnd) LocalAddr() net.Addr                { return e.addr }
func (e *labEnd) SetDeadline(t time.Time) error      { return e.SetReadDeadline(t) }
func (e *labEnd) SetWriteDeadline(t time.Time) error { return nil }
func (e *labEnd) SetReadDeadline(t time.Time) error {
	n := e.n
	n.mu.Lock()
	e.rdl = t
	e.rdlGen++
	gen := e.rdlGen
	n.cond.Broadcast()
	n.mu.Unlock()
	if !t.IsZero() {
		if d := time.Until(t); d > 0 {
			time.AfterFunc(d, func() {
				n.mu.Lock()
				if e.rdlGen == gen {
					n.cond.Broadcast()
				}
				n.mu.Unlock()
			})
		}
	}

	return nil
}

// Deliver hands one copy of datagram idx of direction dir to its destination.
func (n *labNet) Deliver(dir string, idx int) bool { return n.DeliverFrom(dir, idx, "") }

// DeliverFrom is Deliver with a rewritten source address (path migration / spoofing).
func (n *labNet) DeliverFrom(dir string, idx int, src labAddr) bool {
	n.mu.Lock()
	if idx < 0 || idx >= len(n.emitted[dir]) {
		n.mu.Unlock()

		return false
	}
	d := n.emitted[dir][idx]
	s := d.src
	if src != "" {
		s = src
	}
	ok := n.pushLocked(d.dst, s, d.data)
	if ok {
		d.delivered++
	}
	n.mu.Unlock()
	n.rec.add("net.deliver", "dir", dir, "idx", idx, "src", string(s), "ok", ok)

	return ok
}

// Drop marks a datagram as lost.
func (n *labNet) Drop(dir string, idx int) {
	n.mu.Lock()
	if idx >= 0 && idx < len(n.emitted[dir]) {
		n.emitted[dir][idx].dropped = true
	}
	n.mu.Unlock()
	n.rec.add("net.drop", "dir", dir, "idx", idx)
}

// Inject delivers arbitrary bytes to the endpoint named to, as if from src.
func (n *labNet) Inject(to string, src labAddr, data []byte) bool {
	n.mu.Lock()
	e := n.ends[to]
	ok := e != nil && n.pushLocked(e.addr, src, data)
	n.mu.Unlock()
	n.rec.add("net.inject", "to", to, "src", string(src), "len", len(data), "ok", ok)

	return ok
}

// Emitted returns the number of datagrams emitted so far in direction dir.
func (n *labNet) Emitted(dir string) int {
	n.mu.Lock()
	defer n.mu.Unlock()

	return len(n.emitted[dir])
}

// Data returns a copy of an emitted datagram.
func (n *labNet) Data(dir string, idx int) []byte {
	n.mu.Lock()
	defer n.mu.Unlock()
	if idx < 0 || idx >= len(n.emitted[dir]) {
		return nil
	}

	return append([]byte(nil), n.emitted[dir][idx].data...)
}

// Dgram returns the datagram record (shared; read fields under no lock only after quiescence).
func (n *labNet) Dgram(dir string, idx int) *labDgram {
	n.mu.Lock()
	defer n.mu.Unlock()
	if idx < 0 || idx >= len(n.emitted[dir]) {
		return nil
	}

	return n.emitted[dir][idx]
}

// Pending lists emitted datagrams of dir that were neither delivered nor dropped.
func (n *labNet) Pending(dir string) []int {
	n.mu.Lock()
	defer n.mu.Unlock()
	var out []int
	for _, d := range n.emitted[dir] {
		if d.delivered == 0 && !d.dropped {
			out = append(out, d.idx)
		}
	}

	return out
}

func (n *labNet) readerIdle(name string) bool {
	n.mu.Lock()
	defer n.mu.Unlock()
	e := n.ends[name]

	return e == nil || e.closed || (e.waiting && len(e.inbox) == 0)
}

// ---------------------------------------------------------------------------
// endpoint wrapper

const (
	fsmIdle = int32(iota)
	fsmBusy
	fsmGone
	fsmNone // handshake not started yet
)

type labPeer struct {
	name   string
	lab    *labRun
	end    *labEnd
	conn   *Conn
	tc     chan struct{}
	status atomic.Int32 // fsmIdle / fsmBusy / fsmGone
	ver    atomic.Int32
	flight atomic.Value // string
	state  atomic.Value // string
	hsDone chan struct{}
	hsErr  error
	gates  sync.Map // point -> chan struct{} (armed gates)
	gateAt chan string
	filter func(point string, v any) any
	phIdle atomic.Int32 // C20: 1 while the DTLS 1.3 post-handshake loop blocks in its select (ph.idle hook)
	phQ    atomic.Int32 // C20: queue length / number of active flights reported by the last ph.idle
	phF    atomic.Int32
}

type labRun struct {
	rec   *vRecorder
	net   *labNet
	c, s  *labPeer
	extra map[string]any
}

func newLabRun() *labRun {
	rec := newRecorder()
	r := &labRun{rec: rec, net: newLabNet(rec)}

	return r
}

func (r *labRun) newPeer(name string, addr labAddr) *labPeer {
	p := &labPeer{name: name, lab: r, tc: make(chan struct{}), hsDone: make(chan struct{}), gateAt: make(chan string, 16)}
	p.end = r.net.endpoint(name, addr)
	p.flight.Store("")
	p.state.Store("")
	p.status.Store(fsmNone)
	if name == "c" {
		r.c = p
	} else {
		r.s = p
	}

	return p
}

// attach registers the verification hooks for the connection of this peer.
func (p *labPeer) attach(c *Conn) {
	p.conn = c
	p.end.tag = p.flightTag
	extra := map[string]any{"side": p.name}
	vtrace.Register(c.handshakeConfig, &vtrace.Hooks{
		Emit: func(g uint64, ev string, kv []any) {
			p.track(ev, kv)
			p.lab.rec.emitKV(g, ev, extra, kv)
		},
		TimeoutC: p.tc,
		Gate:     p.gate,
		Filter: func(point string, v any) any {
			if p.filter != nil {
				return p.filter(point, v)
			}

			return v
		},
	})
}

// flightTag names the flight the FSM is currently in ("Flight 4b" -> "F4b").
func (p *labPeer) flightTag() string {
	f, _ := p.flight.Load().(string)
	if len(f) > 7 && f[:7] == "Flight " {
		return "F" + f[7:]
	}

	return f
}

func (p *labPeer) detach() {
	if p.conn != nil {
		vtrace.Unregister(p.conn.handshakeConfig)
	}
}

func kvGet(kv []any, key string) any {
	for i := 0; i+1 < len(kv); i += 2 {
		if kv[i] == key {
			return kv[i+1]
		}
	}

	return nil
}

// track follows the FSM goroutine: idle while it blocks in wait/finish.
func (p *labPeer) track(ev string, kv []any) {
	switch ev {
	case "fsm.state":
		st, _ := kvGet(kv, "state").(string)
		fl, _ := kvGet(kv, "flight").(string)
		if v, ok := kvGet(kv, "ver").(int); ok {
			p.ver.Store(int32(v))
		}
		p.flight.Store(fl)
		p.state.Store(st)
		switch st {
		case "Waiting", "Finished":
			p.status.Store(fsmIdle)
		case "Errored":
			p.status.Store(fsmGone)
		default:
			p.status.Store(fsmBusy)
		}
	case "fsm.recv", "fsm.finrecv", "fsm.timeout", "ph.command", "ph.timer":
		p.status.Store(fsmBusy)
		p.phIdle.Store(0)
	case "ph.idle":
		if v, ok := kvGet(kv, "queue").(int); ok {
			p.phQ.Store(int32(v)) //nolint:gosec
		}
		if v, ok := kvGet(kv, "flights").(int); ok {
			p.phF.Store(int32(v)) //nolint:gosec
		}
		p.phIdle.Store(1)
	case "fsm.parsed":
		next, _ := kvGet(kv, "next").(string)
		failed, _ := kvGet(kv, "err").(bool)
		if !failed && (next == "Invalid Flight" || next == "Waiting") {
			p.status.Store(fsmIdle)
		}
	}
}

func (p *labPeer) gate(point string) {
	v, ok := p.gates.Load(point)
	if !ok {
		return
	}
	ch, _ := v.(chan struct{})
	select {
	case p.gateAt <- point:
	default:
	}
	<-ch
}

// arm makes the next goroutine reaching point block until release(point).
func (p *labPeer) arm(point string) { p.gates.Store(point, make(chan struct{})) }

func (p *labPeer) release(point string) {
	if v, ok := p.gates.LoadAndDelete(point); ok {
		close(v.(chan struct{}))
	}
}

func (p *labPeer) releaseAll() {
	p.gates.Range(func(k, v any) bool {
		p.gates.Delete(k)
		close(v.(chan struct{}))

		return true
	})
}

// startHandshake runs HandshakeContext in a goroutine.
func (p *labPeer) startHandshake(ctx context.Context) {
	p.status.Store(fsmBusy)
	go func() {
		err := p.conn.HandshakeContext(ctx)
		p.hsErr = err
		if err != nil {
			p.status.Store(fsmGone)
		}
		p.lab.rec.add("hs.return", "side", p.name, "ok", err == nil, "err", errString(err))
		close(p.hsDone)
	}()
}

func errString(err error) string {
	if err == nil {
		return ""
	}

	return err.Error()
}

func (p *labPeer) hsReturned() bool {
	select {
	case <-p.hsDone:
		return true
	default:
		return false
	}
}

func (p *labPeer) quiet() bool {
	if p.conn == nil {
		return true
	}
	if p.hsReturned() && p.hsErr != nil {
		return true
	}
	if p.conn.isConnectionClosed() { // torn down (Close, fatal alert): its goroutines are gone or going
		return true
	}
	if f := p.conn.fsm; f != nil && p.hsReturned() {
		select {
		case <-f.Done(): // the flight machine has exited (e.g. after a post-handshake error)
			return p.lab.net.readerIdle(p.name)
		default:
		}
	}
	st := p.status.Load()
	if st == fsmBusy {
		return false
	}
	if st == fsmNone {
		return true
	}

	return p.lab.net.readerIdle(p.name)
}

// fire triggers one virtual retransmission timeout; false if the FSM did not take it.
func (p *labPeer) fire() bool {
	if p.status.Load() != fsmIdle {
		return false
	}
	p.status.Store(fsmBusy)
	select {
	case p.tc <- struct{}{}:
		return true
	case <-time.After(200 * time.Millisecond):
		p.status.Store(fsmIdle)

		return false
	}
}

// waitQuiet blocks until both endpoints are quiescent (FSMs blocked in
// wait/finish, readers blocked on an empty inbox), or the timeout passes.
func (r *labRun) waitQuiet(timeout time.Duration) bool {
	deadline := time.Now().Add(timeout)
	stable := 0
	for {
		q := true
		for _, p := range []*labPeer{r.c, r.s} {
			if p != nil && !p.quiet() {
				q = false
			}
		}
		if q {
			stable++
			if stable >= 3 {
				return true
			}
		} else {
			stable = 0
		}
		if time.Now().After(deadline) {
			return false
		}
		if stable > 0 {
			time.Sleep(20 * time.Microsecond)
		} else {
			time.Sleep(50 * time.Microsecond)
		}
	}
}

// wedged names an endpoint that is open but is not reading its socket: its reader is not blocked in ReadFrom (it has
// returned, or it is stuck in the middle of a datagram).  Called after waitQuiet has failed for several seconds.
func (r *labRun) wedged() string {
	for _, p := range []*labPeer{r.c, r.s} {
		if p == nil {
			continue
		}
		r.net.mu.Lock()
		e := r.net.ends[p.name]
		stuck := e != nil && !e.closed && !e.waiting
		n := 0
		if e != nil {
			n = len(e.inbox)
		}
		r.net.mu.Unlock()
		if stuck {
			return fmt.Sprintf("endpoint %s stopped reading: %d datagrams unread, FSM status %d", p.name, n, p.status.Load())
		}
	}

	return ""
}

func (r *labRun) closeAll() {
	for _, p := range []*labPeer{r.c, r.s} {
		if p == nil {
			continue
		}
		p.releaseAll()
		if p.conn != nil {
			_ = p.conn.Close()
		}
		_ = p.end.Close()
		p.detach()
	}
}

// ---------------------------------------------------------------------------
// small helpers shared by the check drivers

func envOr(key, def string) string {
	if v := os.Getenv(key); v != "" {
		return v
	}

	return def
}

func writeJSONLines(path string, rows []vEvent) error {
	f, err := os.Create(path)
	if err != nil {
		return err
	}
	defer f.Close()
	enc := json.NewEncoder(f)
	for _, row := range rows {
		if err := enc.Encode(row); err != nil {
			return err
		}
	}

	return nil
}

func readJSONFile(path string, into any) error {
	b, err := os.ReadFile(path)
	if err != nil {
		return err
	}

	return json.Unmarshal(b, into)
}

var errLab = errors.New("lab")
