// C14, deviating server: a peer that holds NO session secret answers a real client (which has a session
// store) with the messages of an abbreviated handshake - ServerHello carrying a session id, ChangeCipherSpec and a
// Finished computed and protected under a master secret the peer can guess (the empty one, a stale one, ...),
// in every delivery pattern of spec/Resumption.tla's rogue scripts (ServerHello alone first, repeated, with or
// without the rest).  The client must never complete: an abbreviated handshake succeeds only under the secret the
// client's store holds for the session id it offered.

//go:build verif

package dtls

import (
	"bufio"
	"bytes"
	"context"
	"crypto/rand"
	"encoding/hex"
	"encoding/json"
	"fmt"
	"os"
	"runtime"
	"sync"
	"testing"
	"time"

	"github.com/pion/dtls/v3/internal/ciphersuite"
	"github.com/pion/dtls/v3/pkg/crypto/prf"
	"github.com/pion/dtls/v3/pkg/protocol"
	"github.com/pion/dtls/v3/pkg/protocol/handshake"
	"github.com/pion/dtls/v3/pkg/protocol/recordlayer"
)

type c14RogueCase struct {
	Name    string   `json:"name"`
	Scen    scenCfg  `json:"scen"`
	Content string   `json:"content"` // pre-populated store content (as in c14Case)
	SID     string   `json:"sid"`     // session id in the rogue ServerHello: "new" | "A"
	Secret  string   `json:"secret"`  // secret the rogue keys its Finished with: "empty" | "SB" | "zero48" | "SA" (positive control)
	Script  []string `json:"script"`  // sequence of "SH" | "FIN" (CCS+Finished) | "SH+FIN" | "T" (client timer)
	Expect  string   `json:"expect"`  // model: final class of the client ("est" | "running" | "failed" | "")
	Mode    string   `json:"mode"`    // "" rogue server against a real client | "client": rogue client against a real server
}

type c14RogueResult struct {
	Case       int      `json:"case"`
	Name       string   `json:"name"`
	Lab        string   `json:"lab,omitempty"`
	CEst       bool     `json:"cest"`
	CErr       string   `json:"cerr,omitempty"`
	Flight     string   `json:"flight"`
	Violations []string `json:"violations,omitempty"`
	Diverge    string   `json:"diverge,omitempty"`
	Control    bool     `json:"control"` // the peer held the client's secret for the offered id and was accepted
	ClientSent []string `json:"clientSent,omitempty"`
	StoreAfter string   `json:"storeAfter"`
	AppData    bool     `json:"appData"` // the rogue could read application data the client wrote
}

func c14PlainRecord(ctype byte, epoch uint16, seq uint64, body []byte) []byte {
	rec := []byte{ctype, 0xfe, 0xfd, byte(epoch >> 8), byte(epoch), 0, 0, 0, 0, 0, byte(seq), byte(len(body) >> 8), byte(len(body))}

	return append(rec, body...)
}

func runC14Rogue(idx int, rc *c14RogueCase) c14RogueResult { //nolint:cyclop,gocognit,maintidx
	if rc.Mode == "client" {
		return runC14RogueClient(idx, rc)
	}
	res := c14RogueResult{Case: idx, Name: rc.Name}
	scen := rc.Scen
	scen.Resume, scen.Stores = false, false
	co, _ := scen.buildOptions(nil)
	env := &c14Env{cc: &c14Case{}, cstore: newC14Store(), sstore: newC14Store(), runs: map[int]*c14Run{}, res: &c14Result{}}
	env.ckey = "s_"
	scen.defaults()
	if scen.Auth == "cert" || scen.Auth == "rsa" {
		env.ckey = "s_" + labServerName
	}
	env.cc.Content = rc.Content
	env.populate()
	co = append(co, WithSessionStore(&c14View{st: env.cstore, env: env, k: 1, side: "c"}))
	r := newLabRun()
	pc := r.newPeer("c", "c")
	r.newPeer("s", "s") // the rogue owns the server address; nothing is attached to it
	cc, err := ClientWithOptions(pc.end, labAddr("s"), co...)
	if err != nil {
		res.Lab = err.Error()

		return res
	}
	pc.attach(cc)
	offered := env.cstore.snapshot()[env.ckey]
	defer func() {
		_ = cc.Close()
		_ = pc.end.Close()
		pc.detach()
	}()
	ctx, cancel := context.WithCancel(context.Background())
	defer cancel()
	pc.startHandshake(ctx)
	quiet := func() bool {
		deadline := time.Now().Add(3 * time.Second)
		stable := 0
		for time.Now().Before(deadline) {
			if pc.quiet() {
				stable++
				if stable >= 3 {
					return true
				}
			} else {
				stable = 0
			}
			time.Sleep(50 * time.Microsecond)
		}

		return false
	}
	if !quiet() || r.net.Emitted("c2s") == 0 {
		res.Lab = "client did not send its ClientHello"

		return res
	}
	chDgram := r.net.Data("c2s", 0)
	recs := parseRecords12(chDgram, 0)
	if len(recs) != 1 || recs[0].ctype != 22 {
		res.Lab = "unexpected first client datagram"

		return res
	}
	chRaw := chDgram[13:recs[0].size]
	hs := &handshake.Handshake{}
	if err := hs.Unmarshal(chRaw); err != nil {
		res.Lab = "ClientHello: " + err.Error()

		return res
	}
	ch, ok := hs.Message.(*handshake.MessageClientHello)
	if !ok {
		res.Lab = "first message is not a ClientHello"

		return res
	}
	// ---- the rogue's ServerHello
	var srvRandom handshake.Random
	if err := srvRandom.Populate(); err != nil {
		res.Lab = err.Error()

		return res
	}
	sid := make([]byte, 32)
	_, _ = rand.Read(sid)
	if rc.SID == "A" {
		sid = append([]byte(nil), labSessID...)
	}
	suiteID := ch.CipherSuiteIDs[0]
	suite := ciphersuite.ForID(ciphersuite.ID(suiteID), nil)
	if suite == nil {
		res.Lab = "unknown suite offered"

		return res
	}
	sh := &handshake.Handshake{
		Header: handshake.Header{MessageSequence: 0},
		Message: &handshake.MessageServerHello{
			Version: protocol.Version1_2, Random: srvRandom, SessionID: sid, CipherSuiteID: &suiteID,
			CompressionMethod: defaultCompressionMethods()[0],
		},
	}
	shRaw, err := sh.Marshal()
	if err != nil {
		res.Lab = "ServerHello: " + err.Error()

		return res
	}
	var secret []byte
	switch rc.Secret {
	case "SB":
		secret = c14SecretB
	case "SA":
		secret = c14SecretA
	case "ST":
		secret = c14SecretA[:20]
	case "zero48":
		secret = make([]byte, 48)
	default:
		secret = []byte{}
	}
	cr, sr := ch.Random.MarshalFixed(), srvRandom.MarshalFixed()
	if err := suite.Init(secret, cr[:], sr[:], false); err != nil {
		res.Lab = "suite init: " + err.Error()

		return res
	}
	verify, err := prf.VerifyDataServer(secret, append(append([]byte(nil), chRaw...), shRaw...), suite.HashFunc())
	if err != nil {
		res.Lab = "verify data: " + err.Error()

		return res
	}
	finRec := &recordlayer.RecordLayer{
		Header: recordlayer.Header{Version: protocol.Version1_2, Epoch: 1, SequenceNumber: 0},
		Content: &handshake.Handshake{
			Header:  handshake.Header{MessageSequence: 1},
			Message: &handshake.MessageFinished{VerifyData: verify},
		},
	}
	finPlain, err := finRec.Marshal()
	if err != nil {
		res.Lab = "Finished: " + err.Error()

		return res
	}
	finEnc, err := suite.Encrypt(finRec, finPlain)
	if err != nil {
		res.Lab = "Finished encrypt: " + err.Error()

		return res
	}
	seq0 := uint64(0)
	nextSH := func() []byte {
		d := c14PlainRecord(22, 0, seq0, shRaw)
		seq0++

		return d
	}
	nextFIN := func() []byte {
		d := c14PlainRecord(20, 0, seq0, []byte{1})
		seq0++

		return append(d, finEnc...)
	}
	for _, step := range rc.Script {
		switch step {
		case "SH":
			r.net.Inject("c", labAddr("s"), nextSH())
		case "FIN":
			r.net.Inject("c", labAddr("s"), nextFIN())
		case "SH+FIN":
			r.net.Inject("c", labAddr("s"), append(nextSH(), nextFIN()...))
		case "T":
			pc.fire()
		}
		if !quiet() {
			res.Lab = "not quiescent after " + step

			return res
		}
	}
	if s, _ := pc.state.Load().(string); s == "Finished" {
		select {
		case <-pc.hsDone:
		case <-time.After(2 * time.Second):
		}
	}
	res.Flight = pc.flightTag()
	res.CEst = pc.hsReturned() && pc.hsErr == nil
	if pc.hsReturned() {
		res.CErr = errString(pc.hsErr)
	}
	for i := 0; i < r.net.Emitted("c2s"); i++ {
		res.ClientSent = append(res.ClientSent, r.net.Dgram("c2s", i).tag)
	}
	if s, ok := env.cstore.snapshot()[env.ckey]; ok {
		res.StoreAfter = env.symOf(s.ID) + "/" + env.symOf(s.Secret)
	}
	// an EMPTY secret is no secret: a peer that keys its Finished with it holds nothing (Resumption.tla: cms \notin {None, "E"})
	sameSecret := len(offered.ID) > 0 && bytes.Equal(offered.ID, sid) && bytes.Equal(offered.Secret, secret) && len(secret) > 0
	res.Control = sameSecret && res.CEst
	got := "running"
	if res.CEst {
		got = "est"
	} else if pc.hsReturned() {
		got = "failed"
	}
	if rc.Expect != "" && rc.Expect != got {
		res.Diverge = fmt.Sprintf("model: client %s, code: client %s (%s, %s)", rc.Expect, got, res.Flight, res.CErr)
	}
	if res.CEst && !sameSecret {
		res.Violations = append(res.Violations, fmt.Sprintf(
			"the client completed an abbreviated handshake with a peer that does not hold a secret of the client's store: ServerHello session id %s.. (client offered %q), Finished keyed with the %s secret; client store held %s",
			hex.EncodeToString(sid[:4]), hex.EncodeToString(ch.SessionID), rc.Secret, rc.Content))
		// can the rogue read what the client writes?
		before := r.net.Emitted("c2s")
		msg := []byte("c14 rogue probe 0123456789")
		if _, err := cc.Write(msg); err == nil && r.net.Emitted("c2s") > before {
			d := r.net.Data("c2s", before)
			h := &recordlayer.Header{}
			if err := h.Unmarshal(d); err == nil {
				if plain, err := suite.Decrypt(*h, d); err == nil && bytes.Contains(plain, msg) {
					res.AppData = true
				}
			}
		}
	}

	return res
}

// runC14RogueClient: a "client" that holds no secret of the server's store offers a session id and sends
// ChangeCipherSpec + Finished computed and protected under a secret of its choice.  Script: "CH" (its ClientHello
// reaches the real server), "FIN" (CCS + Finished), "T" (server timer).  The ClientHello is taken from a real client
// of the same configuration whose store was primed with (session id, anything), so that it is a well-formed offer.
func runC14RogueClient(idx int, rc *c14RogueCase) c14RogueResult { //nolint:cyclop,gocognit,maintidx
	res := c14RogueResult{Case: idx, Name: rc.Name}
	scen := rc.Scen
	scen.Resume, scen.Stores = false, false
	co, so := scen.buildOptions(nil)
	env := &c14Env{cc: &c14Case{}, cstore: newC14Store(), sstore: newC14Store(), runs: map[int]*c14Run{}, res: &c14Result{}}
	env.ckey = "s_"
	scen.defaults()
	if scen.Auth == "cert" || scen.Auth == "rsa" {
		env.ckey = "s_" + labServerName
	}
	env.cc.Content = rc.Content
	env.populate()
	sid := append([]byte(nil), labSessID...)
	if rc.SID != "A" {
		sid = bytes.Repeat([]byte{0x5c}, 32)
	}
	// a donor client produces the ClientHello (its store offers sid)
	donor := newLabRun()
	dstore := newC14Store()
	dstore.m[env.ckey] = Session{ID: sid, Secret: bytes.Repeat([]byte{9}, 48)}
	dc := donor.newPeer("c", "c")
	donor.newPeer("s", "s")
	dconn, err := ClientWithOptions(dc.end, labAddr("s"), append(co, WithSessionStore(&c14View{st: dstore, env: env, k: 9, side: "c"}))...)
	if err != nil {
		res.Lab = err.Error()

		return res
	}
	dc.attach(dconn)
	dctx, dcancel := context.WithCancel(context.Background())
	dc.startHandshake(dctx)
	for i := 0; i < 40000 && donor.net.Emitted("c2s") == 0; i++ {
		time.Sleep(50 * time.Microsecond)
	}
	chDgram := donor.net.Data("c2s", 0)
	dcancel()
	<-dc.hsDone
	_ = dconn.Close()
	_ = dc.end.Close()
	dc.detach()
	recs := parseRecords12(chDgram, 0)
	if len(recs) != 1 || recs[0].ctype != 22 {
		res.Lab = "donor client did not produce a ClientHello"

		return res
	}
	chRaw := chDgram[13:recs[0].size]
	hs := &handshake.Handshake{}
	if err := hs.Unmarshal(chRaw); err != nil {
		res.Lab = "ClientHello: " + err.Error()

		return res
	}
	ch, ok := hs.Message.(*handshake.MessageClientHello)
	if !ok || !bytes.Equal(ch.SessionID, sid) {
		res.Lab = "donor ClientHello does not offer the session id"

		return res
	}
	// ---- the real server
	r := newLabRun()
	r.newPeer("c", "c")
	ps := r.newPeer("s", "s")
	sv, err := ServerWithOptions(ps.end, labAddr("c"), append(so, WithSessionStore(&c14View{st: env.sstore, env: env, k: 1, side: "s"}))...)
	if err != nil {
		res.Lab = err.Error()

		return res
	}
	ps.attach(sv)
	defer func() {
		_ = sv.Close()
		_ = ps.end.Close()
		ps.detach()
	}()
	ctx, cancel := context.WithCancel(context.Background())
	defer cancel()
	ps.startHandshake(ctx)
	quiet := func() bool {
		deadline := time.Now().Add(3 * time.Second)
		stable := 0
		for time.Now().Before(deadline) {
			if ps.quiet() {
				stable++
				if stable >= 3 {
					return true
				}
			} else {
				stable = 0
			}
			time.Sleep(50 * time.Microsecond)
		}

		return false
	}
	if !quiet() {
		res.Lab = "server not quiescent at start"

		return res
	}
	var secret []byte
	switch rc.Secret {
	case "SB":
		secret = c14SecretB
	case "SA":
		secret = c14SecretA
	case "ST":
		secret = c14SecretA[:20]
	default:
		secret = []byte{}
	}
	held := env.sstore.snapshot()[string(sid)]
	sentFin := false
	var suite ciphersuite.CipherSuite
	cseq := uint64(1)
	for _, step := range rc.Script {
		switch step {
		case "CH":
			r.net.Inject("s", labAddr("c"), chDgram)
		case "T":
			ps.fire()
		case "FIN":
			// needs the server's hello: random and suite
			var shRaw []byte
			var srvRandom [handshake.RandomLength]byte
			var suiteID uint16
			for i := 0; i < r.net.Emitted("s2c") && shRaw == nil; i++ {
				d := r.net.Data("s2c", i)
				for _, rec := range parseRecords12(d, 0) {
					if rec.epoch != 0 {
						break
					}
					body := d[rec.off+13 : rec.off+rec.size]
					if rec.ctype == 22 && len(body) > 12 && body[0] == 2 {
						h2 := &handshake.Handshake{}
						if err := h2.Unmarshal(body); err == nil {
							if m, ok := h2.Message.(*handshake.MessageServerHello); ok && m.CipherSuiteID != nil {
								shRaw = append([]byte(nil), body...)
								srvRandom = m.Random.MarshalFixed()
								suiteID = *m.CipherSuiteID
								if !bytes.Equal(m.SessionID, sid) {
									shRaw = nil // full handshake: the rogue cannot continue
								}
							}
						}
					}
				}
			}
			if shRaw == nil {
				continue
			}
			suite = ciphersuite.ForID(ciphersuite.ID(suiteID), nil)
			if suite == nil {
				res.Lab = "server chose an unknown suite"

				return res
			}
			cr := ch.Random.MarshalFixed()
			if err := suite.Init(secret, cr[:], srvRandom[:], true); err != nil {
				res.Lab = "suite init: " + err.Error()

				return res
			}
			// what the server's Finished must be if it holds the guessed secret
			sfin, err := prf.VerifyDataServer(secret, append(append([]byte(nil), chRaw...), shRaw...), suite.HashFunc())
			if err != nil {
				res.Lab = err.Error()

				return res
			}
			sfinMsg, err := (&handshake.Handshake{Header: handshake.Header{MessageSequence: 1}, Message: &handshake.MessageFinished{VerifyData: sfin}}).Marshal()
			if err != nil {
				res.Lab = err.Error()

				return res
			}
			transcript := append(append(append([]byte(nil), chRaw...), shRaw...), sfinMsg...)
			cfin, err := prf.VerifyDataClient(secret, transcript, suite.HashFunc())
			if err != nil {
				res.Lab = err.Error()

				return res
			}
			finRec := &recordlayer.RecordLayer{
				Header: recordlayer.Header{Version: protocol.Version1_2, Epoch: 1, SequenceNumber: 0},
				Content: &handshake.Handshake{
					Header:  handshake.Header{MessageSequence: 1},
					Message: &handshake.MessageFinished{VerifyData: cfin},
				},
			}
			finPlain, err := finRec.Marshal()
			if err != nil {
				res.Lab = err.Error()

				return res
			}
			finEnc, err := suite.Encrypt(finRec, finPlain)
			if err != nil {
				res.Lab = err.Error()

				return res
			}
			d := c14PlainRecord(20, 0, cseq, []byte{1})
			cseq++
			r.net.Inject("s", labAddr("c"), append(d, finEnc...))
			sentFin = true
		}
		if !quiet() {
			res.Lab = "not quiescent after " + step

			return res
		}
	}
	if s, _ := ps.state.Load().(string); s == "Finished" {
		select {
		case <-ps.hsDone:
		case <-time.After(2 * time.Second):
		}
	}
	res.Flight = ps.flightTag()
	res.CEst = ps.hsReturned() && ps.hsErr == nil // here: the SERVER reported success
	if ps.hsReturned() {
		res.CErr = errString(ps.hsErr)
	}
	for i := 0; i < r.net.Emitted("s2c"); i++ {
		res.ClientSent = append(res.ClientSent, r.net.Dgram("s2c", i).tag)
	}
	sameSecret := len(held.ID) > 0 && bytes.Equal(held.Secret, secret) && len(secret) > 0
	res.Control = sameSecret && res.CEst
	got := "running"
	if res.CEst {
		got = "est"
	} else if ps.hsReturned() {
		got = "failed"
	}
	if rc.Expect != "" && rc.Expect != got {
		res.Diverge = fmt.Sprintf("model: server %s, code: server %s (%s, %s; Finished sent: %v)", rc.Expect, got, res.Flight, res.CErr, sentFin)
	}
	if res.CEst && !sameSecret {
		res.Violations = append(res.Violations, fmt.Sprintf(
			"the server completed an abbreviated handshake with a peer that does not hold the secret of the server's store: offered session id %s.., Finished keyed with the %s secret; server store content %s",
			hex.EncodeToString(sid[:4]), rc.Secret, rc.Content))
		before := r.net.Emitted("s2c")
		msg := []byte("c14 rogue probe 0123456789")
		if _, err := sv.Write(msg); err == nil && r.net.Emitted("s2c") > before && suite != nil {
			d := r.net.Data("s2c", before)
			h := &recordlayer.Header{}
			if err := h.Unmarshal(d); err == nil {
				if plain, err := suite.Decrypt(*h, d); err == nil && bytes.Contains(plain, msg) {
					res.AppData = true
				}
			}
		}
	}

	return res
}

func defaultCompressionMethods() []*protocol.CompressionMethod {
	return []*protocol.CompressionMethod{{}}
}

func TestVerifRogueResume(t *testing.T) {
	in, out := os.Getenv("VERIF_IN"), os.Getenv("VERIF_OUT")
	fi, err := os.Open(in)
	if err != nil {
		t.Fatal(err)
	}
	defer fi.Close()
	var cases []c14RogueCase
	scan := bufio.NewScanner(fi)
	scan.Buffer(make([]byte, 1<<20), 1<<24)
	for scan.Scan() {
		var c c14RogueCase
		if err := json.Unmarshal(scan.Bytes(), &c); err != nil {
			t.Fatal(err)
		}
		cases = append(cases, c)
	}
	getPKI()
	results := make([]c14RogueResult, len(cases))
	var wg sync.WaitGroup
	sem := make(chan struct{}, runtime.GOMAXPROCS(0))
	for i := range cases {
		wg.Add(1)
		sem <- struct{}{}
		go func(i int) {
			defer wg.Done()
			defer func() { <-sem }()
			results[i] = runC14Rogue(i, &cases[i])
			if results[i].Lab != "" {
				results[i] = runC14Rogue(i, &cases[i])
			}
		}(i)
	}
	wg.Wait()
	fo, err := os.Create(out)
	if err != nil {
		t.Fatal(err)
	}
	defer fo.Close()
	w := bufio.NewWriter(fo)
	defer w.Flush()
	enc := json.NewEncoder(w)
	for _, r := range results {
		_ = enc.Encode(r)
	}
}
