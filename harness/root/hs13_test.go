// Replay of spec/Handshake13.tla edge scripts on two real DTLS 1.3 endpoints with virtual timers: after every
// environment step the projected state (flight, Waiting/Finished, established, backoff exponent) and the kinds
// of the datagrams emitted are compared with the model, and the C13 / C17 predicates are evaluated on the real
// observations (what was emitted, and whether a timer or a datagram caused it).

//go:build verif

package dtls

import (
	"bufio"
	"bytes"
	"context"
	"encoding/json"
	"fmt"
	"os"
	"runtime"
	"sort"
	"strings"
	"sync"
	"testing"
	"time"

	extension13 "github.com/pion/dtls/v3/pkg/protocol/extension/dtls13"
	"github.com/pion/dtls/v3/pkg/protocol/handshake"
)

type hs13Post struct {
	Cst   string   `json:"cst"`
	Sst   string   `json:"sst"`
	Cfl   string   `json:"cfl"`
	Sfl   string   `json:"sfl"`
	Cest  bool     `json:"cest"`
	Sest  bool     `json:"sest"`
	Cbk   int      `json:"cbk"`
	Sbk   int      `json:"sbk"`
	Emits []string `json:"emits"`
}

type hs13Step struct {
	Act  string   `json:"act"`
	Arg  string   `json:"arg"`
	Post hs13Post `json:"post"`
}

type hs13Script struct {
	Scen  scenCfg    `json:"scen"`
	Steps []hs13Step `json:"steps"`
	Cap   int        `json:"cap"`
	BkCap int        `json:"bkcap"`
}

type hs13Driver struct {
	r       *labRun
	pending map[string][]hsTok
	evSeen  int
	sealBuf map[string][][2]int // per side: (ctype, epoch) sealed since its last datagram
	cap     int
	hrr     bool
	emitted map[string]int // per side
	unknown []string
	clientT bool // a NewSessionTicket datagram has reached the client: its next acknowledgement covers it
}

func sender13(kind string) string {
	switch kind {
	case "F1", "F3", "F5", "Ac", "Ac4", "AcT":
		return "c"
	default:
		return "s"
	}
}

// classify names one emitted datagram.
func (h *hs13Driver) classify(from string, data []byte, seals [][2]int) string {
	if len(data) > 13 && data[0] == 22 && data[3] == 0 && data[4] == 0 {
		l := int(data[11])<<8 | int(data[12])
		body := data[13:min(13+l, len(data))]
		if len(body) < 12 {
			return "?"
		}
		switch body[0] {
		case 1:
			hs := &handshake.Handshake{}
			if err := hs.Unmarshal(body); err == nil {
				if ch, ok := hs.Message.(*handshake.MessageClientHello); ok {
					for _, e := range ch.Extensions {
						if _, isCookie := e.(*extension13.Cookie); isCookie {
							return "F3"
						}
					}
				}
			}

			return "F1"
		case 2:
			if len(body) >= 12+2+32 && bytes.Equal(body[14:46], hrrRandom[:]) {
				return "F2"
			}

			return "F4"
		}

		return "?"
	}
	if len(data) > 0 && data[0] == 21 {
		return "alert"
	}
	hasHS, hasACK, hsEpoch, hasAlert := false, false, 0, false
	for _, s := range seals {
		switch s[0] {
		case 22:
			hasHS, hsEpoch = true, s[1]
		case 26:
			hasACK = true
		case 21:
			hasAlert = true
		}
	}
	switch {
	case hasAlert:
		return "alert"
	case hasHS && from == "c":
		return "F5"
	case hasHS && hsEpoch >= 3:
		return "T"
	case hasHS:
		return "F4"
	case hasACK && from == "c":
		if h.clientT {
			h.clientT = false

			return "AcT"
		}

		return "Ac4"
	case hasACK:
		return "As"
	}

	return "?"
}

// absorb classifies what was emitted since the last call (in emission order).
func (h *hs13Driver) absorb() []string {
	var kinds []string
	evs := h.r.rec.snapshot()
	for _, e := range evs[h.evSeen:] {
		switch e["ev"] {
		case "rec.seal":
			side, _ := e["side"].(string)
			ct, _ := e["ctype"].(int)
			ep, _ := e["epoch"].(int)
			h.sealBuf[side] = append(h.sealBuf[side], [2]int{ct, ep})
		case "dgram.out":
			from, _ := e["from"].(string)
			dir, _ := e["dir"].(string)
			idx, _ := e["idx"].(int)
			k := h.classify(from, h.r.net.Data(dir, idx), h.sealBuf[from])
			h.sealBuf[from] = nil
			h.emitted[from]++
			kinds = append(kinds, k)
			if k == "?" {
				h.unknown = append(h.unknown, fmt.Sprintf("%s#%d", dir, idx))
			}
			fresh := 0
			for _, t := range h.pending[k] {
				if t.kind != "s" {
					fresh++
				}
			}
			if h.cap > 0 && k != "alert" && fresh >= h.cap {
				h.r.net.Drop(dir, idx) // the model merges emissions beyond Cap

				continue
			}
			h.pending[k] = append(h.pending[k], hsTok{idx: idx, kind: "n"})
		}
	}
	h.evSeen = len(evs)

	return kinds
}

func (h *hs13Driver) take(arg string, deliver bool) (int, bool) {
	d := &hsDriver{pending: h.pending}

	return d.take(arg, deliver)
}

func sameKinds(a, b []string) bool {
	x, y := append([]string(nil), a...), append([]string(nil), b...)
	sort.Strings(x)
	sort.Strings(y)

	return strings.Join(x, ",") == strings.Join(y, ",")
}

func runHs13Script(idx int, sc *hs13Script) hsResult { //nolint:cyclop,gocognit,maintidx
	res := hsResult{Script: idx}
	r := newLabRun()
	scen := sc.Scen
	scen.IntervalMS = int(hsBaseInterval / time.Millisecond)
	if err := r.setup(&scen, &scenStores{}); err != nil {
		res.Lab = err.Error()

		return res
	}
	defer r.closeAll()
	h := &hs13Driver{r: r, pending: map[string][]hsTok{}, sealBuf: map[string][][2]int{}, cap: sc.Cap, hrr: scen.HelloVerify,
		emitted: map[string]int{}}
	legacy := &hsDriver{r: r}
	ctx, cancel := context.WithTimeout(context.Background(), 20*time.Second)
	defer cancel()
	r.s.startHandshake(ctx)
	r.c.startHandshake(ctx)
	if !r.waitQuiet(2 * time.Second) {
		res.Lab = "not quiescent after start"

		return res
	}
	h.absorb()
	div := func(f string, a ...any) {
		if len(res.Diverge) < 6 {
			res.Diverge = append(res.Diverge, fmt.Sprintf(f, a...))
		}
	}
	law := func(f string, a ...any) {
		if len(res.Law) < 6 {
			res.Law = append(res.Law, fmt.Sprintf(f, a...))
		}
	}
	cookieEchoed := false
	ticketRetx := 0
	inputs := map[string]int{}
	for i, st := range sc.Steps {
		_, _, cestB, cbkB, cretxB := legacy.peerState(r.c)
		_, _, sestB, sbkB, sretxB := legacy.peerState(r.s)
		cstB, _ := r.c.state.Load().(string)
		sstB, _ := r.s.state.Load().(string)
		cflB, sflB := r.c.flightTag(), r.s.flightTag()
		emB := map[string]int{"c": h.emitted["c"], "s": h.emitted["s"]}
		timerSide := ""
		switch st.Act {
		case "Deliver":
			k, ok := h.take(st.Arg, true)
			if !ok {
				div("step %d: model delivers %s but no such datagram is in flight", i, st.Arg)

				goto flush
			}
			kind := flightOf(st.Arg)
			if kind == "F3" && !strings.HasSuffix(st.Arg, "/s") {
				cookieEchoed = true
			}
			inputs[peerName(sender13(kind))]++
			// a ticket that reaches an ESTABLISHED client is processed and acknowledged at once
			h.clientT = kind == "T" && !strings.HasSuffix(st.Arg, "/s") && estOf(r.c)
			r.net.Deliver(dirOf(sender13(kind)), k)
		case "Drop":
			k, ok := h.take(st.Arg, false)
			if !ok {
				div("step %d: model drops %s but no such datagram is in flight", i, st.Arg)

				goto flush
			}
			r.net.Drop(dirOf(sender13(flightOf(st.Arg))), k)
		case "Dup":
			found := false
			for j, t := range h.pending[st.Arg] {
				if t.kind == "n" {
					h.pending[st.Arg][j].kind = "d"
					found = true

					break
				}
			}
			if !found {
				div("step %d: model duplicates %s but no such datagram is in flight", i, st.Arg)

				goto flush
			}
		case "Timeout":
			p := r.c
			if st.Arg == "s" {
				p = r.s
			}
			timerSide = st.Arg
			inputs[st.Arg]++
			if !p.fire() {
				div("step %d: model fires the timer of %s but its FSM does not take it", i, st.Arg)

				goto flush
			}
		}
		if !waitQuiet13(r, 3*time.Second) {
			res.Lab = fmt.Sprintf("step %d: not quiescent", i)

			return res
		}
		{
			kinds := h.absorb()
			if !sestB && estOf(r.s) { // the ticket flight starts a moment after the server reported success
				for w := 0; w < 400; w++ {
					hasT := false
					for _, k := range kinds {
						hasT = hasT || k == "T"
					}
					if hasT {
						break
					}
					time.Sleep(250 * time.Microsecond)
					r.waitQuiet(time.Second)
					kinds = append(kinds, h.absorb()...)
				}
			}
			var noAlert []string
			for _, k := range kinds {
				if k != "alert" {
					noAlert = append(noAlert, k)
				}
			}
			cst, _ := r.c.state.Load().(string)
			sst, _ := r.s.state.Load().(string)
			_, cfl, cest, cbk, _ := legacy.peerState(r.c)
			_, sfl, sest, sbk, _ := legacy.peerState(r.s)
			p := st.Post
			if sc.BkCap > 0 {
				cbk, sbk = min(cbk, sc.BkCap), min(sbk, sc.BkCap)
			}
			if cst != p.Cst || sst != p.Sst || cfl != p.Cfl || sfl != p.Sfl || cest != p.Cest || sest != p.Sest {
				div("step %d %s %s: state c=%s/%s/%v s=%s/%s/%v, model c=%s/%s/%v s=%s/%s/%v", i, st.Act, st.Arg,
					cst, cfl, cest, sst, sfl, sest, p.Cst, p.Cfl, p.Cest, p.Sst, p.Sfl, p.Sest)
			}
			if !sameKinds(noAlert, p.Emits) {
				div("step %d %s %s: emitted %v, model %v", i, st.Act, st.Arg, noAlert, p.Emits)
			}
			if scen.NoBackoff {
				p.Cbk, p.Sbk = 0, 0
			}
			if (cst == "Waiting" && cbk != p.Cbk) || (sst == "Waiting" && sbk != p.Sbk) {
				div("step %d %s %s: backoff exponent c=%d s=%d, model c=%d s=%d", i, st.Act, st.Arg, cbk, sbk, p.Cbk, p.Sbk)
			}
			// ---- property predicates on the real observations -------------------------------------------------
			for _, k := range noAlert {
				if sender13(k) == "s" && k != "F2" && scen.HelloVerify && !cookieEchoed {
					law("C13 cookie-first: server emitted %s before a ClientHello echoing the cookie arrived (step %d %s %s)", k, i, st.Act, st.Arg)
				}
				if k == "F2" && st.Act == "Timeout" {
					law("C13/C17 cookie request on a timer: HelloRetryRequest emitted by a timer event of %s (step %d)", st.Arg, i)
				}
				if (k == "As" || k == "Ac4" || k == "AcT") && st.Act == "Timeout" {
					law("C17 acknowledgement emitted by a timer event (step %d)", i)
				}
			}
			if st.Act == "Timeout" {
				side, estB, stB, flB, retxB, bkB := "c", cestB, cstB, cflB, cretxB, cbkB
				bkA := cbk
				if timerSide == "s" {
					side, estB, stB, flB, retxB, bkB, bkA = "s", sestB, sstB, sflB, sretxB, sbkB, sbk
				}
				n := h.emitted[side] - emB[side]
				// ClientHello (with or without cookie), the server's flight 4 and the client's Finished are retransmittable by
				// design; only the HelloRetryRequest (F2) is not.  The implementation's own flag is not trusted for that,
				// except where an acknowledgement of the whole flight may have switched the timer off (the client's flight 5)
				if stB == "Waiting" && (flB == "F1" || flB == "F3" || flB == "F4") {
					retxB = true
				}
				switch {
				case stB == "Waiting" && retxB && flB != "F0":
					if len(noAlert) != 1 || noAlert[0] != flB {
						law("C17 timer law: timer of %s in %s (retransmittable) emitted %v, expected exactly the current flight (step %d)", side, flB, noAlert, i)
					}
					want := bkB + 1
					if sc.BkCap > 0 {
						want = min(want, sc.BkCap)
					}
					if !scen.NoBackoff && bkA != want && want <= 3 {
						law("C17 timer law: interval exponent of %s after a timeout is %d, expected %d (step %d)", side, bkA, want, i)
					}
					if scen.NoBackoff && bkA != 0 {
						law("C17 timer law: backoff is disabled but the interval of %s grew (exponent %d, step %d)", side, bkA, i)
					}
				case stB == "Waiting":
					if n != 0 {
						law("C17 timer law: timer of %s in %s (not retransmittable) emitted %v (step %d)", side, flB, noAlert, i)
					}
				case estB:
					for _, k := range noAlert {
						if k != "T" {
							law("C17 final flight only on peer retransmission: established %s emitted %s on a timer (step %d)", side, k, i)
						}
						if k == "T" && side == "s" {
							// the post-handshake flight backs off like a handshake flight: the interval that has just elapsed is
							// the configured one doubled once per earlier retransmission (constant without backoff, at most 60 s)
							ticketRetx++
							iv := int64(0)
							for _, e := range r.rec.snapshot() {
								if e["ev"] == "ph.retx" && e["side"] == "s" {
									if v, ok := e["interval"].(int64); ok {
										iv = v
									}
								}
							}
							want := int64(hsBaseInterval)
							if !scen.NoBackoff {
								for d := 1; d < ticketRetx; d++ {
									want *= 2
								}
							}
							if want > int64(60*time.Second) {
								want = int64(60 * time.Second)
							}
							if iv != 0 && iv != want {
								law("C17 timer law: retransmission %d of the NewSessionTicket flight came after an interval of %v, expected %v (step %d)",
									ticketRetx, time.Duration(iv), time.Duration(want), i)
							}
						}
					}
				}
			}
			if st.Act != "Timeout" {
				other := "c"
				if len(noAlert) > 0 {
					other = sender13(noAlert[0])
				}
				if h.emitted[other]-emB[other] > 3 {
					law("C17 emission bound: %d datagrams emitted by %s in answer to one datagram (step %d %s %s)",
						h.emitted[other]-emB[other], other, i, st.Act, st.Arg)
				}
			}
		}
	}
flush:
	res.Rounds = len(sc.Steps)
	// C02: the network turns reliable, timers keep firing: both must complete
	for round := 0; round < 40; round++ {
		if estOf(r.c) && estOf(r.s) {
			break
		}
		moved := false
		for _, kind := range []string{"F1", "F2", "F3", "F4", "F5", "As", "Ac4", "AcT", "T"} {
			for len(h.pending[kind]) > 0 {
				t := h.pending[kind][0]
				h.pending[kind] = h.pending[kind][1:]
				h.clientT = kind == "T" && estOf(r.c)
				r.net.Deliver(dirOf(sender13(kind)), t.idx)
				moved = true
				if !waitQuiet13(r, 3*time.Second) {
					res.Lab = "flush: not quiescent"

					return res
				}
				h.absorb()
			}
		}
		if !moved {
			fired := false
			for _, p := range []*labPeer{r.c, r.s} {
				if !estOf(p) && p.fire() {
					fired = true
				}
			}
			if !fired {
				// an established server still owes its ticket: its timer drives the client's implicit acknowledgement
				if estOf(r.s) && r.s.fire() {
					fired = true
				}
			}
			if !fired || !waitQuiet13(r, 3*time.Second) {
				break
			}
			h.absorb()
		}
	}
	res.Completed = estOf(r.c) && estOf(r.s)
	res.CErr, res.SErr = errString(r.c.hsErr), errString(r.s.hsErr)
	if res.Completed && ticketRetx > 0 && len(res.Lab) == 0 {
		// C17 "intervals start at the configured value": the NewSessionTicket flight needed retransmissions; once it is
		// acknowledged, the NEXT post-handshake flight of the server (a KeyUpdate) starts from the configured interval again
		if v := hs13NextFlightInterval(r, h, &scen); v != "" {
			law("%s", v)
		}
	}
	if os.Getenv("VERIF_KEEP_EVENTS") != "" {
		res.Events = r.rec.snapshot()
	}
	if len(h.unknown) > 0 {
		res.Diverge = append(res.Diverge, fmt.Sprintf("unclassified datagrams %v", h.unknown))
	}

	return res
}

// hs13NextFlightInterval lets the ticket flight finish (everything in flight is delivered), starts a KeyUpdate on the server,
// keeps its datagrams back and fires the server's timer twice: the intervals reported for that flight must be the
// configured one and its double (constant without backoff).  Returns a law text or "".
func hs13NextFlightInterval(r *labRun, h *hs13Driver, scen *scenCfg) string {
	for round := 0; round < 12; round++ { // drain: the ticket must be acknowledged before a new flight may start
		h.absorb()
		moved := false
		for kind, q := range h.pending {
			for _, t := range q {
				r.net.Deliver(dirOf(sender13(kind)), t.idx)
				moved = true
			}
			h.pending[kind] = nil
		}
		if !moved {
			break
		}
		if !waitQuiet13(r, 2*time.Second) {
			return ""
		}
	}
	mark := len(r.rec.snapshot())
	ctx, cancel := context.WithTimeout(context.Background(), 3*time.Second)
	defer cancel()
	done := make(chan error, 1)
	go func() { done <- r.s.conn.UpdateKeys(ctx, KeyUpdateOptions{}) }()
	time.Sleep(2 * time.Millisecond)
	if !waitQuiet13(r, 2*time.Second) {
		return ""
	}
	var got []int64
	for k := 0; k < 2; k++ {
		if !r.s.fire() || !waitQuiet13(r, 2*time.Second) {
			break
		}
	}
	kuSeq := -1 // message sequence of the KeyUpdate flight started after the mark (none: it is queued behind the ticket)
	for _, e := range r.rec.snapshot()[mark:] {
		if e["ev"] == "ph.start" && e["side"] == "s" && e["kind"] == "keyupdate" {
			kuSeq, _ = e["msgseq"].(int)
		}
		if e["ev"] == "ph.retx" && e["side"] == "s" && kuSeq >= 0 {
			if ms, _ := e["msgseq"].(int); ms != kuSeq {
				continue
			}
			if v, ok := e["interval"].(int64); ok {
				got = append(got, v)
			}
		}
	}
	cancel()
	<-done
	if len(got) == 0 {
		return "" // the flight did not start (queued behind an unacknowledged ticket): nothing to judge
	}
	want := int64(hsBaseInterval)
	for i, g := range got {
		if g != want {
			return fmt.Sprintf("C17 timer law: retransmission %d of a NEW post-handshake flight (KeyUpdate after a ticket flight that was retransmitted) came after %v, expected %v",
				i+1, time.Duration(g), time.Duration(want))
		}
		if !scen.NoBackoff {
			want *= 2
		}
	}

	return ""
}

// waitQuiet13: quiescence for DTLS 1.3 endpoints - a flight machine in Finished runs the post-handshake loop, which is
// idle only once it blocks in its select again (ph.idle hook), not when the Finished state is traced.
func waitQuiet13(r *labRun, timeout time.Duration) bool {
	deadline := time.Now().Add(timeout)
	for {
		if !r.waitQuiet(time.Until(deadline)) {
			return false
		}
		ok := true
		for _, p := range []*labPeer{r.c, r.s} {
			if s, _ := p.state.Load().(string); s == "Finished" && !p.conn.isConnectionClosed() && p.phIdle.Load() != 1 {
				ok = false
			}
		}
		if ok && r.waitQuiet(time.Until(deadline)) {
			return true
		}
		if time.Now().After(deadline) {
			return false
		}
		time.Sleep(30 * time.Microsecond)
	}
}

func peerName(e string) string {
	if e == "c" {
		return "s"
	}

	return "c"
}

func TestVerifHs13Scripts(t *testing.T) {
	in, out := os.Getenv("VERIF_IN"), os.Getenv("VERIF_OUT")
	fi, err := os.Open(in)
	if err != nil {
		t.Fatal(err)
	}
	defer fi.Close()
	var scripts []hs13Script
	scan := bufio.NewScanner(fi)
	scan.Buffer(make([]byte, 1<<20), 1<<26)
	for scan.Scan() {
		var sc hs13Script
		if err := json.Unmarshal(scan.Bytes(), &sc); err != nil {
			t.Fatal(err)
		}
		scripts = append(scripts, sc)
	}
	getPKI()
	results := make([]hsResult, len(scripts))
	var wg sync.WaitGroup
	sem := make(chan struct{}, runtime.GOMAXPROCS(0))
	for i := range scripts {
		wg.Add(1)
		sem <- struct{}{}
		go func(i int) {
			defer wg.Done()
			defer func() { <-sem }()
			results[i] = runHs13Script(i, &scripts[i])
			if results[i].Lab != "" {
				results[i] = runHs13Script(i, &scripts[i])
			}
		}(i)
	}
	wg.Wait()
	fo, err := os.Create(out)
	if err != nil {
		t.Fatal(err)
	}
	defer fo.Close()
	w := bufio.NewWriter(fo)
	defer w.Flush()
	enc := json.NewEncoder(w)
	sum := map[string]int{"scripts": len(scripts)}
	for _, r := range results {
		if r.Completed {
			sum["completed"]++
		}
		if r.Lab != "" {
			sum["lab"]++
		}
		if len(r.Diverge) > 0 {
			sum["diverged"]++
		}
		if len(r.Law) > 0 {
			sum["law"]++
		}
		if !r.Completed || len(r.Diverge) > 0 || len(r.Law) > 0 || r.Lab != "" || os.Getenv("VERIF_KEEP_EVENTS") != "" {
			_ = enc.Encode(r)
		}
	}
	_ = enc.Encode(sum)
}
