// Replay of spec/Handshake13F.tla scripts (DTLS 1.3 handshake whose server flight spans several datagrams: selective
// acknowledgement and selective retransmission) on two real DTLS 1.3 endpoints with virtual timers.  Datagrams are
// identified by their CONTENT: the handshake fragments they carry (cleartext records are parsed, protected records are
// named through the rec.seal hook) or, for ACK records, the fragments whose record numbers they list.  After every
// environment step the projected state, the emitted datagrams and the model's network queues are compared, and the
// C02 / C12 / C17 predicates are evaluated on the real observations.

//go:build verif

package dtls

import (
	"bufio"
	"context"
	"encoding/json"
	"fmt"
	"os"
	"runtime"
	"sort"
	"strings"
	"sync"
	"testing"
	"time"
)

type hs13fPost struct {
	Cst   string   `json:"cst"`
	Sst   string   `json:"sst"`
	Cfl   string   `json:"cfl"`
	Sfl   string   `json:"sfl"`
	Cest  bool     `json:"cest"`
	Sest  bool     `json:"sest"`
	Cbk   int      `json:"cbk"`
	Sbk   int      `json:"sbk"`
	Emits []string `json:"emits"`
	Pend  string   `json:"pend"`
	Have  string   `json:"have"`
	Owe   string   `json:"owe"`
	Qc2s  []string `json:"qc2s"`
	Qs2c  []string `json:"qs2c"`
}

type hs13fStep struct {
	Act  string    `json:"act"`
	Dir  string    `json:"dir"` // direction, or the endpoint for Timeout
	Pos  int       `json:"pos"`
	Name string    `json:"name"`
	Post hs13fPost `json:"post"`
}

type hs13fScript struct {
	Scen  scenCfg     `json:"scen"`
	Steps []hs13fStep `json:"steps"`
	QMax  int         `json:"qmax"`
	BkCap int         `json:"bkcap"`
}

type hs13fTok struct {
	idx  int
	name string
	dup  bool
}

type hs13fDriver struct {
	r         *labRun
	evSeen    int
	seals     map[string][]string // per side: names of the protected records sealed and not yet seen in a datagram
	recmap    map[string]string   // "side/epoch/seq" -> fragment name
	q         map[string][]hs13fTok
	stale     map[string][]int
	qmax      int
	emitted   map[string]int
	unknown   []string
	lastSeq   map[string]int64 // C09: highest record number sealed per side/epoch
	numbering []string
	clear     []string // C07: handshake messages other than ClientHello / ServerHello / HelloRetryRequest that left in a DTLSPlaintext record
	// what the real client was handed (for the acknowledgement-soundness predicate)
	clientGot map[string]bool
	flightSz  int
}

var hs13fOrder = []string{"SH", "EE", "C0", "C1", "C2", "CV", "FIN", "T"} //nolint:gochecknoglobals

func hs13fFragName(side string, b []byte) string {
	if len(b) < 12 {
		return "?"
	}
	off := int(b[6])<<16 | int(b[7])<<8 | int(b[8])
	switch b[0] {
	case 1:
		return "CH"
	case 2:
		return "SH"
	case 8:
		return "EE"
	case 11:
		if off == 0 {
			return "C0"
		}
		flen := int(b[9])<<16 | int(b[10])<<8 | int(b[11])
		total := int(b[1])<<16 | int(b[2])<<8 | int(b[3])
		if off+flen == total {
			return "C1"
		}

		return "C2" // a middle fragment: the scenario's MTU is supposed to give exactly two
	case 15:
		return "CV"
	case 20:
		if side == "c" {
			return "FIN5"
		}

		return "FIN"
	case 4:
		return "T"
	}

	return fmt.Sprintf("hs%d", b[0])
}

func hs13fSortFrags(names map[string]bool) []string {
	var out []string
	for _, n := range hs13fOrder {
		if names[n] {
			out = append(out, n)
		}
	}
	var rest []string
	for n := range names {
		known := false
		for _, o := range hs13fOrder {
			known = known || o == n
		}
		if !known {
			rest = append(rest, n)
		}
	}
	sort.Strings(rest)

	return append(out, rest...)
}

// absorb names what was emitted since the last call (in emission order) and appends it to the mirror queues.
func (h *hs13fDriver) absorb() []string {
	var out []string
	evs := h.r.rec.snapshot()
	for _, e := range evs[h.evSeen:] {
		switch e["ev"] {
		case "rec.seal":
			side, _ := e["side"].(string)
			head, _ := e["head"].(string)
			ct, _ := e["ctype"].(int)
			ep, _ := e["epoch"].(int)
			// C09: per side and epoch the record numbers sealed strictly increase (hence no pair is used twice under one key)
			if sq, ok := hs13fSeq(e["seq"]); ok {
				if h.lastSeq == nil {
					h.lastSeq = map[string]int64{}
				}
				k := fmt.Sprintf("%s/%d", side, ep)
				last, seen := h.lastSeq[k]
				if seen && sq <= last && len(h.numbering) < 4 {
					h.numbering = append(h.numbering, fmt.Sprintf("%s sealed a record (content type %d) as (epoch %d, sequence number %d) after it had sealed (epoch %d, sequence number %d)",
						side, ct, ep, sq, ep, last))
				}
				if !seen || sq > last {
					h.lastSeq[k] = sq
				}
			}
			name := fmt.Sprintf("ct%d", ct)
			switch ct {
			case 22:
				name = hs13fFragName(side, []byte(head))
				h.recmap[fmt.Sprintf("%s/%d/%v", side, ep, e["seq"])] = name
			case 26:
				b := []byte(head)
				peer := "s"
				if side == "s" {
					peer = "c"
				}
				acked := map[string]bool{}
				for i := 2; i+16 <= len(b); i += 16 {
					var aep, asq uint64
					for k := 0; k < 8; k++ {
						aep = aep<<8 | uint64(b[i+k])
						asq = asq<<8 | uint64(b[i+8+k])
					}
					n, ok := h.recmap[fmt.Sprintf("%s/%d/%d", peer, aep, asq)]
					if !ok {
						n = fmt.Sprintf("unknown(%d/%d)", aep, asq)
					}
					acked[n] = true
				}
				if side == "s" {
					name = "AS"
				} else {
					name = strings.Join(append([]string{fmt.Sprintf("A%d", ep)}, hs13fSortFrags(acked)...), "+")
				}
			case 21:
				name = "alert"
			}
			h.seals[side] = append(h.seals[side], name)
		case "dgram.out":
			from, _ := e["from"].(string)
			dir, _ := e["dir"].(string)
			idx, _ := e["idx"].(int)
			data := h.r.net.Data(dir, idx)
			var parts []string
			for len(data) > 0 {
				if data[0]&0xe0 == 0x20 { // unified header, no connection ID configured in these scenarios
					hl := 2
					if data[0]&0x08 != 0 {
						hl = 3
					}
					if len(data) < hl+2 {
						break
					}
					l := int(data[hl])<<8 | int(data[hl+1])
					hl += 2
					if len(h.seals[from]) > 0 {
						parts = append(parts, h.seals[from][0])
						h.seals[from] = h.seals[from][1:]
					} else {
						parts = append(parts, "?")
					}
					data = data[min(hl+l, len(data)):]

					continue
				}
				if len(data) < 13 {
					break
				}
				l := int(data[11])<<8 | int(data[12])
				b := data[13:min(13+l, len(data))]
				switch data[0] {
				case 22:
					parts = append(parts, hs13fFragName(from, b))
					if len(b) > 0 && b[0] != 1 && b[0] != 2 {
						h.clear = append(h.clear, fmt.Sprintf("%s#%d: handshake type %d in a DTLSPlaintext record of epoch %d", dir, idx, b[0], int(data[3])<<8|int(data[4])))
					}
				case 23:
					parts = append(parts, "clear23")
					h.clear = append(h.clear, fmt.Sprintf("%s#%d: application data in a DTLSPlaintext record", dir, idx))
				case 21:
					parts = append(parts, "alert")
				default:
					parts = append(parts, fmt.Sprintf("clear%d", data[0]))
				}
				data = data[min(13+l, len(data)):]
			}
			name := strings.Join(parts, "+")
			h.emitted[from]++
			if strings.Contains(name, "alert") {
				out = append(out, "alert")
				h.r.net.Drop(dir, idx)

				continue
			}
			if strings.Contains(name, "?") || strings.Contains(name, "unknown") || strings.Contains(name, "hs") {
				h.unknown = append(h.unknown, fmt.Sprintf("%s#%d=%s", dir, idx, name))
			}
			out = append(out, name)
			if h.qmax > 0 && len(h.q[dir]) >= h.qmax {
				h.r.net.Drop(dir, idx) // the model loses what does not fit into the network

				continue
			}
			h.q[dir] = append(h.q[dir], hs13fTok{idx: idx, name: name})
		}
	}
	h.evSeen = len(evs)

	return out
}

// hsReturned: the peer's Handshake call has returned (with or without an error).
func hsReturned(p *labPeer) bool {
	select {
	case <-p.hsDone:
		return true
	default:
		return false
	}
}

func hs13fSeq(v any) (int64, bool) {
	switch x := v.(type) {
	case int:
		return int64(x), true
	case int64:
		return x, true
	case uint64:
		return int64(x), true //nolint:gosec
	case float64:
		return int64(x), true
	}

	return 0, false
}

func hsFailed(p *labPeer) bool { return hsReturned(p) && p.hsErr != nil }

func hs13fNames(q []hs13fTok) []string {
	out := make([]string, len(q))
	for i, t := range q {
		out[i] = t.name
	}

	return out
}

func hs13fFragsOf(name string) []string {
	var out []string
	for _, p := range strings.Split(name, "+") {
		switch p {
		case "SH", "EE", "C0", "C1", "C2", "CV", "FIN":
			out = append(out, p)
		}
	}

	return out
}

func runHs13FScript(idx int, sc *hs13fScript) hsResult { //nolint:cyclop,gocognit,maintidx
	res := hsResult{Script: idx}
	r := newLabRun()
	scen := sc.Scen
	scen.IntervalMS = int(hsBaseInterval / time.Millisecond)
	if err := r.setup(&scen, &scenStores{}); err != nil {
		res.Lab = err.Error()

		return res
	}
	defer r.closeAll()
	h := &hs13fDriver{r: r, seals: map[string][]string{}, recmap: map[string]string{}, q: map[string][]hs13fTok{}, stale: map[string][]int{},
		qmax: sc.QMax, emitted: map[string]int{}, clientGot: map[string]bool{}}
	legacy := &hsDriver{r: r}
	ctx, cancel := context.WithTimeout(context.Background(), 30*time.Second)
	defer cancel()
	r.s.startHandshake(ctx)
	r.c.startHandshake(ctx)
	if !r.waitQuiet(2 * time.Second) {
		res.Lab = "not quiescent after start"

		return res
	}
	h.absorb()
	div := func(f string, a ...any) {
		if len(res.Diverge) < 6 {
			res.Diverge = append(res.Diverge, fmt.Sprintf(f, a...))
		}
	}
	law := func(f string, a ...any) {
		if len(res.Law) < 6 {
			res.Law = append(res.Law, fmt.Sprintf(f, a...))
		}
	}
	silentRounds := 0
	serverFirst := true // the server's first transmission of its flight has not happened yet
	for i, st := range sc.Steps {
		_, cflB, cestB, _, cretxB := legacy.peerState(r.c)
		_, sflB, sestB, _, sretxB := legacy.peerState(r.s)
		cstB, _ := r.c.state.Load().(string)
		sstB, _ := r.s.state.Load().(string)
		emB := map[string]int{"c": h.emitted["c"], "s": h.emitted["s"]}
		delivered := ""
		switch st.Act {
		case "Deliver", "Drop", "Dup":
			q := h.q[st.Dir]
			if st.Pos < 1 || st.Pos > len(q) || q[st.Pos-1].name != st.Name {
				div("step %d: model %s %s at position %d of %s, real queue %v", i, st.Act, st.Name, st.Pos, st.Dir, hs13fNames(q))

				goto flush
			}
			t := q[st.Pos-1]
			switch st.Act {
			case "Deliver":
				h.q[st.Dir] = append(append([]hs13fTok(nil), q[:st.Pos-1]...), q[st.Pos:]...)
				if t.dup {
					h.stale[st.Dir] = append(h.stale[st.Dir], t.idx)
				}
				delivered = t.name
				if st.Dir == "s2c" {
					for _, f := range hs13fFragsOf(t.name) {
						h.clientGot[f] = true
					}
				}
				r.net.Deliver(st.Dir, t.idx)
			case "Drop":
				h.q[st.Dir] = append(append([]hs13fTok(nil), q[:st.Pos-1]...), q[st.Pos:]...)
				r.net.Drop(st.Dir, t.idx)
			case "Dup":
				h.q[st.Dir][st.Pos-1].dup = true
			}
		case "Stale":
			if len(h.stale[st.Dir]) == 0 {
				div("step %d: model delivers a stale twin in %s but none is pending", i, st.Dir)

				goto flush
			}
			k := h.stale[st.Dir][0]
			h.stale[st.Dir] = h.stale[st.Dir][1:]
			r.net.Deliver(st.Dir, k)
		case "Timeout":
			p := r.c
			if st.Dir == "s" {
				p = r.s
			}
			if !p.fire() {
				div("step %d: model fires the timer of %s but its FSM does not take it", i, st.Dir)

				goto flush
			}
		}
		if !waitQuiet13(r, 3*time.Second) && (hsWedges.Load() >= 20 || !waitQuiet13(r, 8*time.Second)) {
			if w := r.wedged(); w != "" {
				res.Wedge = fmt.Sprintf("step %d: %s", i, w)
				hsWedges.Add(1)

				return res
			}
			res.Lab = fmt.Sprintf("step %d: not quiescent", i)

			return res
		}
		{
			kinds := h.absorb()
			if !sestB && estOf(r.s) { // the ticket flight starts a moment after the server reported success
				for w := 0; w < 400; w++ {
					hasT := false
					for _, k := range kinds {
						hasT = hasT || k == "T"
					}
					if hasT {
						break
					}
					time.Sleep(250 * time.Microsecond)
					r.waitQuiet(time.Second)
					kinds = append(kinds, h.absorb()...)
				}
			}
			var noAlert []string
			for _, k := range kinds {
				if k != "alert" {
					noAlert = append(noAlert, k)
				}
			}
			cst, _ := r.c.state.Load().(string)
			sst, _ := r.s.state.Load().(string)
			_, cfl, cest, cbk, _ := legacy.peerState(r.c)
			_, sfl, sest, sbk, _ := legacy.peerState(r.s)
			p := st.Post
			if sc.BkCap > 0 {
				cbk, sbk = min(cbk, sc.BkCap), min(sbk, sc.BkCap)
			}
			if cst != p.Cst || sst != p.Sst || cfl != p.Cfl || sfl != p.Sfl || cest != p.Cest || sest != p.Sest {
				div("step %d %s %s/%d %s: state c=%s/%s/%v s=%s/%s/%v, model c=%s/%s/%v s=%s/%s/%v", i, st.Act, st.Dir, st.Pos, st.Name,
					cst, cfl, cest, sst, sfl, sest, p.Cst, p.Cfl, p.Cest, p.Sst, p.Sfl, p.Sest)
			}
			if !sameKinds(noAlert, p.Emits) {
				div("step %d %s %s/%d %s: emitted %v, model %v", i, st.Act, st.Dir, st.Pos, st.Name, noAlert, p.Emits)
			}
			if (cst == "Waiting" && cbk != p.Cbk) || (sst == "Waiting" && sbk != p.Sbk) {
				div("step %d %s %s/%d %s: backoff exponent c=%d s=%d, model c=%d s=%d", i, st.Act, st.Dir, st.Pos, st.Name, cbk, sbk, p.Cbk, p.Sbk)
			}
			if !(p.Cest && p.Sest) && (!sameKinds(hs13fNames(h.q["c2s"]), p.Qc2s) || !sameKinds(hs13fNames(h.q["s2c"]), p.Qs2c)) {
				div("step %d %s %s/%d %s: network c2s=%v s2c=%v, model c2s=%v s2c=%v", i, st.Act, st.Dir, st.Pos, st.Name,
					hs13fNames(h.q["c2s"]), hs13fNames(h.q["s2c"]), p.Qc2s, p.Qs2c)
			}
			// ---- property predicates on the real observations -------------------------------------------------
			// C12 (DTLS 1.3): the client leaves flight 1 only when every fragment of the server flight reached it
			if cflB == "F1" && cfl == "F5" {
				for _, f := range []string{"SH", "EE", "C0", "C1", "CV", "FIN"} {
					if !h.clientGot[f] {
						law("C12 complete-only-with-all-fragments: the client moved to its Finished although fragment %s never reached it (step %d)", f, i)
					}
				}
			}
			for _, k := range noAlert {
				isAck := strings.HasPrefix(k, "A2") || strings.HasPrefix(k, "A3") || k == "AS"
				if isAck && st.Act == "Timeout" {
					law("C17 acknowledgement emitted by a timer event (step %d)", i)
				}
				// acknowledgement soundness: the client lists only records whose datagram it was handed
				if strings.HasPrefix(k, "A2") || strings.HasPrefix(k, "A3") {
					for _, f := range strings.Split(k, "+")[1:] {
						if f != "T" && !h.clientGot[f] {
							law("C02 acknowledgement soundness: the client acknowledged %s, which never reached it (step %d, %s)", f, i, k)
						}
					}
				}
			}
			// C17 selective retransmission: once the server holds an acknowledgement for a fragment it does not send it again
			if st.Act == "Deliver" && st.Dir == "c2s" && strings.HasPrefix(delivered, "A2") || st.Act == "Timeout" && st.Dir == "s" {
				if !sestB {
					for _, k := range noAlert {
						for _, f := range hs13fFragsOf(k) {
							if f != "SH" && !strings.Contains("+"+p.Pend+"+", "+"+f+"+") {
								law("C17 selective retransmission: the server re-sent fragment %s after it was acknowledged (step %d, datagram %s)", f, i, k)
							}
						}
					}
				}
			}
			if st.Act == "Timeout" {
				side, estB, stB, flB, retxB := "c", cestB, cstB, cflB, cretxB
				if st.Dir == "s" {
					side, estB, stB, flB, retxB = "s", sestB, sstB, sflB, sretxB
				}
				n := h.emitted[side] - emB[side]
				// every flight of this handshake (ClientHello, ServerHello..Finished, client Finished) is retransmittable by
				// design, and the server's is never acknowledged completely (its ServerHello travels in epoch 0): whatever
				// the implementation's own flag says, a waiting endpoint re-sends on its timer
				if stB == "Waiting" && flB != "F0" {
					retxB = true
				}
				switch {
				case stB == "Waiting" && retxB && flB != "F0":
					if n == 0 {
						law("C17 timer law: timer of %s in %s (retransmittable) emitted nothing (step %d)", side, flB, i)
					}
					if side == "c" && (len(noAlert) != 1 || (flB == "F1" && noAlert[0] != "CH") || (flB == "F5" && noAlert[0] != "FIN5")) {
						law("C17 timer law: timer of the client in %s emitted %v (step %d)", flB, noAlert, i)
					}
				case stB == "Waiting":
					if n != 0 {
						law("C17 timer law: timer of %s in %s (not retransmittable) emitted %v (step %d)", side, flB, noAlert, i)
					}
				case estB:
					for _, k := range noAlert {
						if k != "T" {
							law("C17 final flight only on peer retransmission: established %s emitted %s on a timer (step %d)", side, k, i)
						}
					}
				}
			} else {
				for _, side := range []string{"c", "s"} {
					if h.flightSz > 0 && h.emitted[side]-emB[side] > h.flightSz+1 {
						law("C17 emission bound: %d datagrams emitted by %s in answer to one datagram (step %d %s %s)",
							h.emitted[side]-emB[side], side, i, st.Act, st.Name)
					}
				}
			}
			if serverFirst && sfl == "F4" {
				serverFirst = false
				h.flightSz = h.emitted["s"] - emB["s"]
			}
		}
	}
flush:
	res.Rounds = len(sc.Steps)
	silentRounds = 0
	// C02: the network turns reliable (in order, nothing lost), timers keep firing: both must complete
	for round := 0; round < 200; round++ {
		if estOf(r.c) && estOf(r.s) {
			break
		}
		moved := false
		for _, dir := range []string{"s2c", "c2s"} {
			if len(h.q[dir]) > 0 {
				t := h.q[dir][0]
				h.q[dir] = h.q[dir][1:]
				r.net.Deliver(dir, t.idx)
				moved = true
				if !waitQuiet13(r, 3*time.Second) && (hsWedges.Load() >= 20 || !waitQuiet13(r, 8*time.Second)) {
					if w := r.wedged(); w != "" {
						res.Wedge = "flush: " + w
						hsWedges.Add(1)

						return res
					}
					res.Lab = "flush: not quiescent"

					return res
				}
				h.absorb()
			}
		}
		if !moved {
			fired := false
			emB := h.emitted["c"] + h.emitted["s"]
			quiet := true
			for _, p := range []*labPeer{r.c, r.s} {
				if estOf(p) {
					continue
				}
				st, _ := p.state.Load().(string)
				fl := p.flightTag()
				em := h.emitted[p.name]
				if !p.fire() {
					continue
				}
				fired = true
				if quiet = waitQuiet13(r, 3*time.Second); !quiet {
					break
				}
				h.absorb()
				// C17 timer law, per endpoint, in any state the reliable phase passes through (also behind a divergence of the
				// script): every flight of this handshake is retransmittable, so a waiting endpoint re-sends on its timer
				if st == "Waiting" && fl != "F0" && h.emitted[p.name] == em && !hsReturned(p) {
					law("C17 timer law: nothing in flight, timer of %s in %s (waiting, handshake pending) emitted nothing (reliable phase, round %d)",
						p.name, fl, round)
				}
			}
			if !fired && estOf(r.s) && r.s.fire() {
				fired = true
			}
			if !fired || !quiet || !waitQuiet13(r, 3*time.Second) {
				break
			}
			h.absorb()
			// C17 timer law in total silence: as long as the handshake is incomplete on a side and nobody gave up, somebody
			// awaits a reply, and its timer re-sends its flight
			if h.emitted["c"]+h.emitted["s"] == emB && (!hsReturned(r.c) || !hsReturned(r.s)) && !hsFailed(r.c) && !hsFailed(r.s) && len(h.q["s2c"])+len(h.q["c2s"]) == 0 {
				silentRounds++
				if silentRounds >= 3 {
					_, cfl, _, _, _ := legacy.peerState(r.c)
					_, sfl, _, _, _ := legacy.peerState(r.s)
					law("C17 timer law: nothing in flight, a handshake call is still pending and none has failed (client in %s, server in %s) and %d successive "+
						"time-outs of the waiting endpoints re-sent nothing", cfl, sfl, silentRounds)

					break
				}
			} else {
				silentRounds = 0
			}
		}
	}
	res.Completed = estOf(r.c) && estOf(r.s)
	res.CErr, res.SErr = errString(r.c.hsErr), errString(r.s.hsErr)
	if os.Getenv("VERIF_KEEP_EVENTS") != "" {
		res.Events = r.rec.snapshot()
	}
	for _, c := range h.clear {
		law("C07 cleartext: %s", c)
	}
	for _, c := range h.numbering {
		law("C09 record numbers: %s", c)
	}
	if len(h.unknown) > 0 {
		res.Diverge = append(res.Diverge, fmt.Sprintf("unclassified datagrams %v", h.unknown))
	}

	return res
}

func TestVerifHs13FScripts(t *testing.T) {
	in, out := os.Getenv("VERIF_IN"), os.Getenv("VERIF_OUT")
	fi, err := os.Open(in)
	if err != nil {
		t.Fatal(err)
	}
	defer fi.Close()
	var scripts []hs13fScript
	scan := bufio.NewScanner(fi)
	scan.Buffer(make([]byte, 1<<20), 1<<26)
	for scan.Scan() {
		var sc hs13fScript
		if err := json.Unmarshal(scan.Bytes(), &sc); err != nil {
			t.Fatal(err)
		}
		scripts = append(scripts, sc)
	}
	getPKI()
	results := make([]hsResult, len(scripts))
	var wg sync.WaitGroup
	sem := make(chan struct{}, runtime.GOMAXPROCS(0))
	for i := range scripts {
		wg.Add(1)
		sem <- struct{}{}
		go func(i int) {
			defer wg.Done()
			defer func() { <-sem }()
			results[i] = runHs13FScript(i, &scripts[i])
		}(i)
	}
	wg.Wait()
	fo, err := os.Create(out)
	if err != nil {
		t.Fatal(err)
	}
	defer fo.Close()
	w := bufio.NewWriter(fo)
	defer w.Flush()
	enc := json.NewEncoder(w)
	summ := map[string]int{"scripts": len(scripts)}
	for _, r := range results {
		if r.Lab != "" {
			summ["lab"]++
		}
		if r.Completed {
			summ["completed"]++
		}
		if len(r.Diverge) > 0 {
			summ["diverged"]++
		}
		if len(r.Law) > 0 {
			summ["law"]++
		}
		if r.Wedge != "" {
			summ["wedged"]++
		}
		if r.Lab != "" || !r.Completed || len(r.Diverge) > 0 || len(r.Law) > 0 || r.Wedge != "" {
			if err := enc.Encode(r); err != nil {
				t.Fatal(err)
			}
		}
	}
	if err := enc.Encode(summ); err != nil {
		t.Fatal(err)
	}
}
