// C11 (negotiation honours both endpoints' policy) and the configuration dimension of C01:
// runs configuration pairs enumerated by TLC from spec/Negotiation.tla on two real endpoints over
// the lossless lab network and reports what was observed (no verdict here: the driver compares the
// observation with the expectation record the specification printed for the pair).

//go:build verif

package dtls

import (
	"bufio"
	"crypto/ed25519"
	"crypto/rand"
	"crypto/sha256"
	"crypto/tls"
	"encoding/hex"
	"encoding/json"
	"fmt"
	"os"
	"runtime"
	"sort"
	"strconv"
	"sync"
	"testing"
	"time"

	dtlsflight "github.com/pion/dtls/v3/internal/flight"
	dtlsstate "github.com/pion/dtls/v3/internal/state"
	"github.com/pion/dtls/v3/pkg/protocol"
	"github.com/pion/dtls/v3/pkg/protocol/handshake"
)

// c11Side is one endpoint's option set as the specification names it.
type c11Side struct {
	CertViaCallback bool     `json:"certViaCallback"` // server certificate provided by a GetCertificate callback instead of a static list
	Ver             string   `json:"ver"`             // "12" | "13" | "dual"
	Suites          []string `json:"suites"`          // explicit cipher-suite list ([] = library default)
	Curves          []int    `json:"curves"`          // explicit group list ([] = library default)
	Sigs            []int    `json:"sigs"`            // explicit signature schemes ([] = library default)
	PSK             string   `json:"psk"`             // "" = no PSK callback, otherwise the key
	Cert            string   `json:"cert"`            // "" | "ecdsa" | "rsa"
	EMS             int      `json:"ems"`             // 0 request, 1 require, 2 disable
	SRTP            []int    `json:"srtp"`
	ALPN            []string `json:"alpn"`
	CID             int      `json:"cid"`        // -1 = no generator, otherwise the length this side wants to receive
	ClientAuth      int      `json:"clientAuth"` // server only
	HV              bool     `json:"hv"`         // server only: hello verification / retry on
	MTU             int      `json:"mtu"`
	Store           bool     `json:"store"`  // session store present
	Resume          bool     `json:"resume"` // session store pre-populated with the lab session
	Verify          bool     `json:"verify"` // client: verify the chain against the lab CA instead of skipping
}

type c11Case struct {
	ID  int             `json:"id"`
	C   c11Side         `json:"c"`
	S   c11Side         `json:"s"`
	Exp json.RawMessage `json:"exp,omitempty"`
	// C01: exercise the session after success
	Session bool `json:"session"`
	// history: an earlier connection with these configurations runs (and is closed) on the same session stores first,
	// so that the judged handshake may be a resumption negotiated under ANOTHER policy
	Pre *c11Pre `json:"pre,omitempty"`
}

type c11Pre struct {
	C c11Side `json:"c"`
	S c11Side `json:"s"`
}

type c11SideObs struct {
	OK      bool   `json:"ok"`
	Err     string `json:"err,omitempty"`
	Ver     string `json:"ver,omitempty"`
	Suite   string `json:"suite,omitempty"`
	SuiteID int    `json:"suiteId"`
	ALPN    string `json:"alpn"`
	SRTP    int    `json:"srtp"`
	EMS     bool   `json:"ems"`
	Group   int    `json:"group"`
	LCID    string `json:"lcid"` // CID this side expects to receive ("-" = none negotiated)
	RCID    string `json:"rcid"` // CID this side puts into records it sends
	NPeer   int    `json:"npeer"`
	Peer    string `json:"peer"`    // digest of the peer chain as seen by this side
	Present string `json:"present"` // digest of the chain this side was configured to present
	Resumed bool   `json:"resumed"`
	// C01
	EKM    []string `json:"ekm,omitempty"`
	EKMErr string   `json:"ekmErr,omitempty"`
	SessID string   `json:"sessid,omitempty"`
}

type c11Alert struct {
	Side  string `json:"side"`
	Dir   string `json:"dir"` // "out" | "in"
	Desc  int    `json:"desc"`
	Level int    `json:"level"`
}

type c11Obs struct {
	PreOK    bool        `json:"preOk"`
	ID       int         `json:"id"`
	SetupErr string      `json:"setupErr,omitempty"` // "c: ..." / "s: ..." : option set rejected before any handshake
	Lab      string      `json:"lab,omitempty"`
	C        c11SideObs  `json:"c"`
	S        c11SideObs  `json:"s"`
	Alerts   []c11Alert  `json:"alerts,omitempty"`
	WireAl   int         `json:"wireAlerts"` // plaintext alert records seen on the wire
	CH       []int       `json:"ch"`         // extension types of the last ClientHello on the wire
	CH1      []int       `json:"ch1"`        // ... of the first ClientHello
	CHSuites []int       `json:"chSuites"`   // cipher-suite ids of the last ClientHello (SCSV exception)
	SH       []int       `json:"sh"`         // ServerHello extension types
	HRR      []int       `json:"hrr"`        // HelloRetryRequest extension types
	EE       []int       `json:"ee"`         // EncryptedExtensions extension types (server's handshake transcript)
	NCH      int         `json:"nch"`
	SHSuite  int         `json:"shSuite"`
	SHVer    string      `json:"shVer"`
	SigWire  int         `json:"sigWire"`  // signature scheme the server signed with (0 = none observed)
	GrpWire  int         `json:"grpWire"`  // group of the server's key share (ServerKeyExchange / ServerHello key_share)
	CSigWire int         `json:"csigWire"` // signature scheme of the client's CertificateVerify
	Dgrams   int         `json:"dgrams"`
	DataOK   bool        `json:"dataOk"`
	MS       float64     `json:"ms"`
	Sess     *c01Session `json:"sess,omitempty"`
}

func c11Sigs(in []int) []tls.SignatureScheme {
	out := make([]tls.SignatureScheme, 0, len(in))
	for _, s := range in {
		out = append(out, tls.SignatureScheme(s)) //nolint:gosec
	}

	return out
}

func c11Common(sd *c11Side, interval time.Duration) []Option {
	var o []Option
	mn, mx := verRange(sd.Ver)
	o = append(o, WithMinVersion(mn), WithMaxVersion(mx), WithFlightInterval(interval))
	if sd.MTU > 0 {
		o = append(o, WithMTU(sd.MTU))
	}
	if len(sd.Suites) > 0 {
		o = append(o, WithCipherSuites(suiteIDs(sd.Suites)...))
	}
	if len(sd.Curves) > 0 {
		o = append(o, WithEllipticCurves(toCurves(sd.Curves)...))
	}
	if len(sd.Sigs) > 0 {
		o = append(o, WithSignatureSchemes(c11Sigs(sd.Sigs)...))
	}
	if sd.PSK != "" {
		k := []byte(sd.PSK)
		o = append(o, WithPSK(func([]byte) ([]byte, error) { return k, nil }), WithPSKIdentityHint([]byte("lab-identity")))
	}
	o = append(o, WithExtendedMasterSecret(ExtendedMasterSecretType(sd.EMS)))
	if len(sd.SRTP) > 0 {
		o = append(o, WithSRTPProtectionProfiles(toSRTP(sd.SRTP)...))
	}
	if len(sd.ALPN) > 0 {
		o = append(o, WithSupportedProtocols(sd.ALPN...))
	}
	if sd.CID >= 0 {
		o = append(o, WithConnectionIDGenerator(cidGen(sd.CID)))
	}

	return o
}

func c11Options(cs *c11Case, st *scenStores, interval time.Duration) ([]ClientOption, []ServerOption) {
	p := getPKI()
	var co []ClientOption
	var so []ServerOption
	for _, o := range c11Common(&cs.C, interval) {
		co = append(co, o)
	}
	for _, o := range c11Common(&cs.S, interval) {
		so = append(so, o)
	}
	co = append(co, WithServerName(labServerName))
	if cs.C.Verify {
		co = append(co, WithRootCAs(p.pool))
	} else {
		co = append(co, WithInsecureSkipVerify(true))
	}
	switch cs.C.Cert {
	case "ecdsa":
		co = append(co, WithCertificates(p.client))
	case "rsa":
		co = append(co, WithCertificates(p.serverRSA))
	}
	var scert *tls.Certificate
	switch cs.S.Cert {
	case "ecdsa":
		scert = &p.server
	case "rsa":
		scert = &p.serverRSA
	case "ed25519":
		c := c11Ed25519Cert()
		scert = &c
	}
	if scert != nil {
		if cs.S.CertViaCallback {
			// the same credential, handed out by a GetCertificate callback only: the policy is the same
			so = append(so, WithGetCertificate(func(*ClientHelloInfo) (*tls.Certificate, error) { return scert, nil }))
		} else {
			so = append(so, WithCertificates(*scert))
		}
	}
	if cs.S.ClientAuth != 0 {
		so = append(so, WithClientAuth(ClientAuthType(cs.S.ClientAuth)), WithClientCAs(p.pool))
	}
	so = append(so, WithInsecureSkipVerifyHello(!cs.S.HV))
	if cs.C.Store || cs.C.Resume {
		if st.c == nil {
			st.c = newLabStore()
		}
		if cs.C.Resume {
			_ = st.c.Set([]byte("s_"+labServerName), Session{ID: labSessID, Secret: labSessSecret})
		}
		co = append(co, WithSessionStore(st.c))
	}
	if cs.S.Store || cs.S.Resume {
		if st.s == nil {
			st.s = newLabStore()
		}
		if cs.S.Resume {
			_ = st.s.Set(labSessID, Session{ID: labSessID, Secret: labSessSecret})
		}
		so = append(so, WithSessionStore(st.s))
	}

	return co, so
}

func c11Digest(chain [][]byte) string {
	if len(chain) == 0 {
		return "-"
	}
	h := sha256.New()
	for _, c := range chain {
		_, _ = h.Write([]byte{byte(len(c) >> 16), byte(len(c) >> 8), byte(len(c))})
		_, _ = h.Write(c)
	}

	return hex.EncodeToString(h.Sum(nil)[:8])
}

func c11Presented(sd *c11Side, server bool) [][]byte {
	p := getPKI()
	switch sd.Cert {
	case "ecdsa":
		if server {
			return p.server.Certificate
		}

		return p.client.Certificate
	case "rsa":
		return p.serverRSA.Certificate
	case "ed25519":
		return c11Ed25519Cert().Certificate
	}

	return nil
}

var (
	c11EdOnce sync.Once       //nolint:gochecknoglobals
	c11EdCert tls.Certificate //nolint:gochecknoglobals
)

// c11Ed25519Cert: a server leaf with an Ed25519 key under the lab CA.
func c11Ed25519Cert() tls.Certificate {
	c11EdOnce.Do(func() {
		p := getPKI()
		pub, priv, _ := ed25519.GenerateKey(rand.Reader)
		der := mkCert(leafTmpl(31, labServerName, time.Now().Add(-time.Hour), time.Now().Add(200*time.Hour), false), p.caCert, pub, p.caKey)
		c11EdCert = tls.Certificate{Certificate: [][]byte{der, p.caCert.Raw}, PrivateKey: priv}
	})

	return c11EdCert
}

func c11VerString(v protocol.Version) string {
	switch {
	case v.Equal(protocol.Version1_3):
		return "13"
	case v.Equal(protocol.Version1_2):
		return "12"
	}

	return fmt.Sprintf("%d.%d", v.Major, v.Minor)
}

func c11CID(b []byte, negotiated bool) string {
	if !negotiated {
		return "-"
	}

	return hex.EncodeToString(b)
}

var c11EKMLabels = []string{"EXTRACTOR-dtls_srtp", "EXPORTER-verif-label-a", "EXPORTER_verif_label_b"} //nolint:gochecknoglobals

// c11Observe reads the negotiated outputs of one endpoint after its handshake returned nil.
func c11Observe(p *labPeer, o *c11SideObs, session bool) {
	st, ok := p.conn.ConnectionState()
	if !ok {
		o.Err = "ConnectionState unavailable"

		return
	}
	o.Ver = c11VerString(st.version)
	o.Suite = CipherSuiteName(st.CipherSuiteID)
	o.SuiteID = int(st.CipherSuiteID)
	o.ALPN = st.NegotiatedProtocol
	if prof, ok := p.conn.SelectedSRTPProtectionProfile(); ok {
		o.SRTP = int(prof)
	}
	common := dtlsstate.CommonState(p.conn.state)
	neg := common.LocalCIDOffered && common.RemoteCIDOffered
	o.LCID = c11CID(st.localConnectionID, neg)
	o.RCID = c11CID(st.remoteConnectionID, neg)
	o.NPeer = len(st.PeerCertificates)
	o.Peer = c11Digest(st.PeerCertificates)
	o.SessID = hex.EncodeToString(st.SessionID)
	switch s := p.conn.state.(type) {
	case *dtlsstate.State12:
		o.EMS = s.ExtendedMasterSecret
		o.Group = int(s.NamedCurve)
	case *dtlsstate.State13:
		o.Group = int(s.SelectedGroup)
	}
	if session {
		for _, l := range c11EKMLabels {
			for _, n := range []int{16, 60} {
				km, err := st.ExportKeyingMaterial(l, nil, n)
				if err != nil {
					o.EKMErr = err.Error()

					continue
				}
				d := sha256.Sum256(km)
				o.EKM = append(o.EKM, fmt.Sprintf("%s/%d:%d:%s", l, n, len(km), hex.EncodeToString(d[:8])))
			}
		}
	}
}

// ---------------------------------------------------------------------------
// wire capture: reassemble the plaintext (epoch 0) handshake messages of one direction

type c11Msg struct {
	typ  byte
	seq  uint16
	body []byte
}

func c11Plaintext(r *labRun, dir string) (msgs []c11Msg, alerts int) {
	type part struct {
		typ   byte
		total int
		got   int
		buf   []byte
		have  map[int]bool
		done  bool
	}
	parts := map[uint16]*part{}
	var order []uint16
	n := r.net.Emitted(dir)
	for i := 0; i < n; i++ {
		d := r.net.Data(dir, i)
		off := 0
		for off+13 <= len(d) {
			ct := d[off]
			if ct&0xe0 == 0x20 { // DTLS 1.3 unified header: ciphertext to the end of the datagram
				break
			}
			epoch := int(d[off+3])<<8 | int(d[off+4])
			hl := 13
			l := int(d[off+11])<<8 | int(d[off+12])
			if ct == 25 { // tls12_cid: encrypted, CID of unknown length follows: stop
				break
			}
			if off+hl+l > len(d) {
				break
			}
			body := d[off+hl : off+hl+l]
			off += hl + l
			if epoch != 0 {
				continue
			}
			if ct == 21 {
				alerts++

				continue
			}
			if ct != 22 {
				continue
			}
			for len(body) >= 12 {
				typ := body[0]
				total := int(body[1])<<16 | int(body[2])<<8 | int(body[3])
				seq := uint16(body[4])<<8 | uint16(body[5])
				fo := int(body[6])<<16 | int(body[7])<<8 | int(body[8])
				fl := int(body[9])<<16 | int(body[10])<<8 | int(body[11])
				if 12+fl > len(body) || fo+fl > total {
					break
				}
				pt := parts[seq]
				if pt == nil {
					pt = &part{typ: typ, total: total, buf: make([]byte, total), have: map[int]bool{}}
					parts[seq] = pt
					order = append(order, seq)
				}
				if pt.typ == typ && pt.total == total && !pt.have[fo] {
					copy(pt.buf[fo:], body[12:12+fl])
					pt.have[fo] = true
					pt.got += fl
				}
				body = body[12+fl:]
			}
		}
	}
	for _, seq := range order {
		pt := parts[seq]
		if pt.got >= pt.total {
			msgs = append(msgs, c11Msg{typ: pt.typ, seq: seq, body: pt.buf})
		}
	}

	return msgs, alerts
}

func c11ExtTypes(ext []byte) ([]int, map[int][]byte) {
	var out []int
	data := map[int][]byte{}
	for len(ext) >= 4 {
		t := int(ext[0])<<8 | int(ext[1])
		l := int(ext[2])<<8 | int(ext[3])
		if 4+l > len(ext) {
			break
		}
		out = append(out, t)
		data[t] = ext[4 : 4+l]
		ext = ext[4+l:]
	}
	sort.Ints(out)

	return out, data
}

// c11ParseClientHello returns extension types and cipher-suite ids.
func c11ParseClientHello(b []byte) (exts []int, suites []int, ok bool) {
	if len(b) < 35 {
		return nil, nil, false
	}
	p := 34
	skip := func(w int) bool {
		if p+w > len(b) {
			return false
		}
		l := int(b[p])
		if w == 2 {
			l = int(b[p])<<8 | int(b[p+1])
		}
		p += w
		if p+l > len(b) {
			return false
		}
		p += l

		return true
	}
	if !skip(1) || !skip(1) { // session id, cookie
		return nil, nil, false
	}
	if p+2 > len(b) {
		return nil, nil, false
	}
	sl := int(b[p])<<8 | int(b[p+1])
	if p+2+sl > len(b) {
		return nil, nil, false
	}
	for i := 0; i+1 < sl; i += 2 {
		suites = append(suites, int(b[p+2+i])<<8|int(b[p+3+i]))
	}
	p += 2 + sl
	if !skip(1) { // compression
		return nil, nil, false
	}
	if p+2 > len(b) {
		return []int{}, suites, true
	}
	el := int(b[p])<<8 | int(b[p+1])
	if p+2+el > len(b) {
		return nil, nil, false
	}
	exts, _ = c11ExtTypes(b[p+2 : p+2+el])

	return exts, suites, true
}

var c11HRRRandom = []byte{ //nolint:gochecknoglobals
	0xCF, 0x21, 0xAD, 0x74, 0xE5, 0x9A, 0x61, 0x11, 0xBE, 0x1D, 0x8C, 0x02, 0x1E, 0x65, 0xB8, 0x91,
	0xC2, 0xA2, 0x11, 0x16, 0x7A, 0xBB, 0x8C, 0x5E, 0x07, 0x9E, 0x09, 0xE2, 0xC8, 0xA8, 0x33, 0x9C,
}

// c11ParseServerHello returns extension types, selected suite, version and whether it is a HelloRetryRequest.
func c11ParseServerHello(b []byte) (exts []int, data map[int][]byte, suite int, hrr bool, ok bool) {
	if len(b) < 35 {
		return nil, nil, 0, false, false
	}
	hrr = string(b[2:34]) == string(c11HRRRandom)
	p := 34
	sl := int(b[p])
	p += 1 + sl
	if p+3 > len(b) {
		return nil, nil, 0, hrr, false
	}
	suite = int(b[p])<<8 | int(b[p+1])
	p += 3
	if p+2 > len(b) {
		return []int{}, map[int][]byte{}, suite, hrr, true
	}
	el := int(b[p])<<8 | int(b[p+1])
	if p+2+el > len(b) {
		return nil, nil, suite, hrr, false
	}
	exts, data = c11ExtTypes(b[p+2 : p+2+el])

	return exts, data, suite, hrr, true
}

// c11ServerKeyExchangeSig extracts the signature scheme and the named group of a DTLS 1.2 ServerKeyExchange.
func c11ServerKeyExchange(b []byte, pskHint bool) (group int, sig int) {
	p := 0
	if pskHint {
		if len(b) < 2 {
			return 0, 0
		}
		p = 2 + (int(b[0])<<8 | int(b[1]))
	}
	if p+4 > len(b) || b[p] != 3 {
		return 0, 0
	}
	group = int(b[p+1])<<8 | int(b[p+2])
	pl := int(b[p+3])
	p += 4 + pl
	if p+2 <= len(b) {
		sig = int(b[p])<<8 | int(b[p+1])
	}

	return group, sig
}

func c11Wire(r *labRun, obs *c11Obs) {
	pskSuite := false
	cm, ca := c11Plaintext(r, "c2s")
	sm, sa := c11Plaintext(r, "s2c")
	obs.WireAl = ca + sa
	for _, m := range cm {
		if m.typ == 1 {
			if exts, suites, ok := c11ParseClientHello(m.body); ok {
				if obs.NCH == 0 {
					obs.CH1 = exts
				}
				obs.NCH++
				obs.CH, obs.CHSuites = exts, suites
			}
		}
	}
	for _, m := range sm {
		switch m.typ {
		case 2:
			exts, data, suite, hrr, ok := c11ParseServerHello(m.body)
			if !ok {
				continue
			}
			if hrr {
				obs.HRR = exts

				continue
			}
			obs.SH, obs.SHSuite = exts, suite
			switch suite {
			case 0xc0a4, 0xc0a8, 0xc0a9, 0x00a8, 0x00ae, 0xc037, 0xccab: // PSK key exchange: ServerKeyExchange starts with the hint
				pskSuite = true
			}
			obs.SHVer = "12"
			if v, ok := data[43]; ok && len(v) == 2 {
				obs.SHVer = c11VerString(protocol.Version{Major: v[0], Minor: v[1]})
			}
			if v, ok := data[51]; ok && len(v) >= 2 {
				obs.GrpWire = int(v[0])<<8 | int(v[1])
			}
		case 12:
			obs.GrpWire, obs.SigWire = c11ServerKeyExchange(m.body, pskSuite)
		}
	}
	// protected messages: the server's own transcript (pushed at write time) and the client's
	pullBody := func(p *labPeer, typ handshake.Type, isClient bool) []byte {
		if p == nil || p.conn == nil {
			return nil
		}
		for _, it := range p.conn.handshakeCache.Pull(dtlsflight.HandshakeCachePullRule{Typ: typ, Epoch: 2, IsClient: isClient}) {
			if it != nil && len(it.Data) >= 12 {
				return it.Data[12:]
			}
		}

		return nil
	}
	if body := pullBody(r.s, handshake.TypeEncryptedExtensions, false); len(body) >= 2 {
		obs.EE, _ = c11ExtTypes(body[2:])
		if obs.EE == nil {
			obs.EE = []int{}
		}
	}
	if body := pullBody(r.s, handshake.TypeCertificateVerify, false); len(body) >= 2 {
		obs.SigWire = int(body[0])<<8 | int(body[1])
	}
	if body := pullBody(r.c, handshake.TypeCertificateVerify, true); len(body) >= 2 {
		obs.CSigWire = int(body[0])<<8 | int(body[1])
	}
	// DTLS 1.2 client CertificateVerify travels in epoch 0
	for _, m := range cm {
		if m.typ == 15 && len(m.body) >= 2 {
			obs.CSigWire = int(m.body[0])<<8 | int(m.body[1])
		}
	}
}

// ---------------------------------------------------------------------------

func c11Run(cs *c11Case, timeout, interval time.Duration) c11Obs {
	obs := c11Obs{ID: cs.ID}
	st := &scenStores{}
	if cs.Pre != nil {
		pre := &c11Case{ID: cs.ID, C: cs.Pre.C, S: cs.Pre.S}
		r0 := newLabRun()
		co0, so0 := c11Options(pre, st, interval)
		p0c, p0s := r0.newPeer("c", "c"), r0.newPeer("s", "s")
		c0, err0 := ClientWithOptions(p0c.end, labAddr("s"), co0...)
		s0, err1 := ServerWithOptions(p0s.end, labAddr("c"), so0...)
		if err0 != nil || err1 != nil {
			obs.SetupErr = fmt.Sprintf("pre: %v / %v", err0, err1)
			r0.closeAll()

			return obs
		}
		p0c.attach(c0)
		p0s.attach(s0)
		ce0, se0 := r0.handshakeLossless(timeout)
		obs.PreOK = ce0 == nil && se0 == nil
		if obs.PreOK {
			pingPong(r0)
		}
		r0.closeAll()
	}
	r := newLabRun()
	co, so := c11Options(cs, st, interval)
	pc := r.newPeer("c", "c")
	ps := r.newPeer("s", "s")
	defer r.closeAll()
	cc, err := ClientWithOptions(pc.end, labAddr("s"), co...)
	if err != nil {
		obs.SetupErr = "c: " + err.Error()
	} else {
		pc.attach(cc)
	}
	sv, err := ServerWithOptions(ps.end, labAddr("c"), so...)
	if err != nil {
		if obs.SetupErr != "" {
			obs.SetupErr += " | "
		}
		obs.SetupErr += "s: " + err.Error()
	} else {
		ps.attach(sv)
	}
	if obs.SetupErr != "" {
		return obs
	}
	start := time.Now()
	ce, se := r.handshakeLossless(timeout)
	obs.MS = float64(time.Since(start).Microseconds()) / 1000
	obs.C.OK, obs.C.Err = ce == nil, errString(ce)
	obs.S.OK, obs.S.Err = se == nil, errString(se)
	obs.C.Present, obs.S.Present = c11Digest(c11Presented(&cs.C, false)), c11Digest(c11Presented(&cs.S, true))
	if ce == nil {
		c11Observe(r.c, &obs.C, cs.Session)
	}
	if se == nil {
		c11Observe(r.s, &obs.S, cs.Session)
	}
	if ce == nil && se == nil {
		obs.DataOK = pingPong(r)
		if cs.Session {
			obs.Sess = c01Collect(r)
		}
		if st.s != nil && cs.S.Resume {
			obs.S.Resumed = obs.S.SessID == hex.EncodeToString(labSessID)
			obs.C.Resumed = obs.C.SessID == hex.EncodeToString(labSessID)
		}
	} else {
		// let a late alert reach the peer's reader
		time.Sleep(2 * time.Millisecond)
	}
	for _, e := range r.rec.snapshot() {
		ev, _ := e["ev"].(string)
		if ev != "alert.out" && ev != "alert.in" {
			continue
		}
		side, _ := e["side"].(string)
		desc, _ := e["desc"].(int)
		lvl, _ := e["level"].(int)
		obs.Alerts = append(obs.Alerts, c11Alert{Side: side, Dir: ev[6:], Desc: desc, Level: lvl})
	}
	c11Wire(r, &obs)
	obs.Dgrams = r.net.Emitted("c2s") + r.net.Emitted("s2c")

	return obs
}

func TestVerifNegotiation(t *testing.T) {
	in, out := os.Getenv("VERIF_IN"), os.Getenv("VERIF_OUT")
	timeoutMS, _ := strconv.Atoi(envOr("VERIF_BUDGET_MS", "2500"))
	intervalMS, _ := strconv.Atoi(envOr("VERIF_INTERVAL_MS", "60"))
	par, _ := strconv.Atoi(envOr("VERIF_PAR", "0"))
	if par <= 0 {
		par = runtime.GOMAXPROCS(0)
	}
	journal := os.Getenv("VERIF_JOURNAL")
	fi, err := os.Open(in)
	if err != nil {
		t.Fatal(err)
	}
	defer fi.Close()
	var cases []c11Case
	scan := bufio.NewScanner(fi)
	scan.Buffer(make([]byte, 1<<20), 1<<26)
	for scan.Scan() {
		var c c11Case
		if err := json.Unmarshal(scan.Bytes(), &c); err != nil {
			t.Fatal(err)
		}
		cases = append(cases, c)
	}
	getPKI()
	var jmu sync.Mutex
	var jf *os.File
	if journal != "" {
		jf, _ = os.Create(journal)
		defer jf.Close()
	}
	mark := func(tag string, id int) {
		if jf == nil {
			return
		}
		jmu.Lock()
		fmt.Fprintf(jf, "%s %d\n", tag, id)
		jmu.Unlock()
	}
	results := make([]c11Obs, len(cases))
	var wg sync.WaitGroup
	sem := make(chan struct{}, par)
	for i := range cases {
		wg.Add(1)
		sem <- struct{}{}
		go func(i int) {
			defer wg.Done()
			defer func() { <-sem }()
			mark("start", cases[i].ID)
			results[i] = c11Run(&cases[i], time.Duration(timeoutMS)*time.Millisecond, time.Duration(intervalMS)*time.Millisecond)
			mark("done", cases[i].ID)
		}(i)
	}
	wg.Wait()
	fo, err := os.Create(out)
	if err != nil {
		t.Fatal(err)
	}
	defer fo.Close()
	w := bufio.NewWriter(fo)
	defer w.Flush()
	enc := json.NewEncoder(w)
	sum := map[string]int{"cases": len(cases)}
	for i := range results {
		if results[i].C.OK && results[i].S.OK {
			sum["both_ok"]++
		}
		if results[i].SetupErr != "" {
			sum["setup_rejected"]++
		}
		_ = enc.Encode(&results[i])
	}
	_ = enc.Encode(sum)
}
