// Established-session helper: lossless handshake, then a scripted network and
// background drains that log everything Read returns.

//go:build verif

package dtls

import (
	"bytes"
	"errors"
	"fmt"
	"io"
	"sync"
	"time"

	dtlsstate "github.com/pion/dtls/v3/internal/state"
	"github.com/pion/dtls/v3/pkg/protocol/recordlayer"
)

type readLog struct {
	mu       sync.Mutex
	payloads [][]byte
	errs     []string
	eof      bool
	done     chan struct{}
}

func (l *readLog) snapshot() ([][]byte, []string, bool) {
	l.mu.Lock()
	defer l.mu.Unlock()

	return append([][]byte(nil), l.payloads...), append([]string(nil), l.errs...), l.eof
}

type dataSess struct {
	r     *labRun
	sc    *scenCfg
	reads map[string]*readLog
}

// openSession completes a lossless handshake and switches the lab network to scripted mode.
func openSession(sc *scenCfg, st *scenStores) (*dataSess, error) {
	r := newLabRun()
	if st == nil {
		st = &scenStores{}
	}
	if err := r.setup(sc, st); err != nil {
		return nil, err
	}
	ce, se := r.handshakeLossless(5 * time.Second)
	if ce != nil || se != nil {
		r.closeAll()

		return nil, fmt.Errorf("%w: handshake failed: client=%v server=%v", errLab, ce, se)
	}
	if !r.waitQuiet(2 * time.Second) {
		r.closeAll()

		return nil, fmt.Errorf("%w: not quiescent after handshake", errLab)
	}
	d := &dataSess{r: r, sc: sc, reads: map[string]*readLog{}}
	d.scripted()
	d.startDrain(r.c)
	d.startDrain(r.s)

	return d, nil
}

func (d *dataSess) scripted() {
	d.r.net.mu.Lock()
	d.r.net.auto = nil
	d.r.net.mu.Unlock()
}

func (d *dataSess) lossless() {
	d.r.net.mu.Lock()
	d.r.net.auto = func(*labDgram) labAction { return labAction{deliver: 1} }
	d.r.net.mu.Unlock()
}

func (d *dataSess) startDrain(p *labPeer) {
	l := &readLog{done: make(chan struct{})}
	d.reads[p.name] = l
	go func() {
		defer close(l.done)
		buf := make([]byte, 1<<16)
		for {
			n, err := p.conn.Read(buf)
			l.mu.Lock()
			if err != nil {
				if errors.Is(err, io.EOF) || errors.Is(err, ErrConnClosed) {
					l.eof = true
					l.mu.Unlock()
					d.r.rec.add("app.read", "side", p.name, "eof", true)

					return
				}
				l.errs = append(l.errs, err.Error())
				l.mu.Unlock()
				d.r.rec.add("app.read", "side", p.name, "err", err.Error())
				if len(l.errs) > 10000 {
					return
				}

				continue
			}
			pl := append([]byte(nil), buf[:n]...)
			l.payloads = append(l.payloads, pl)
			l.mu.Unlock()
			d.r.rec.add("app.read", "side", p.name, "payload", pl)
		}
	}()
}

func (d *dataSess) peer(side string) *labPeer {
	if side == "c" {
		return d.r.c
	}

	return d.r.s
}

// write sends one payload from side and returns the indices of the datagrams it emitted.
func (d *dataSess) write(side string, payload []byte) ([]int, error) {
	dir := dirOf(side)
	before := d.r.net.Emitted(dir)
	_, err := d.peer(side).conn.Write(payload)
	after := d.r.net.Emitted(dir)
	idx := make([]int, 0, after-before)
	for i := before; i < after; i++ {
		idx = append(idx, i)
	}

	return idx, err
}

// settle waits until both endpoints are quiescent and everything delivered has been read.
func (d *dataSess) settle(timeout time.Duration) bool {
	deadline := time.Now().Add(timeout)
	for {
		if !d.r.waitQuiet(time.Until(deadline)) {
			return false
		}
		ok := true
		for _, p := range []*labPeer{d.r.c, d.r.s} {
			l := d.reads[p.name]
			if l == nil {
				continue
			}
			delivered := 0
			for _, e := range d.r.rec.snapshotEv("app.deliver") {
				if e["side"] == p.name {
					delivered++
				}
			}
			l.mu.Lock()
			got := len(l.payloads)
			l.mu.Unlock()
			if got < delivered && !p.lab.net.endClosed(p.name) {
				ok = false
			}
		}
		if ok {
			return true
		}
		if time.Now().After(deadline) {
			return false
		}
		time.Sleep(50 * time.Microsecond)
	}
}

func (d *dataSess) close() { d.r.closeAll() }

func commonOf(c *Conn) *dtlsstate.Common { return dtlsstate.CommonState(c.state) }

func (r *vRecorder) snapshotEv(ev string) []vEvent {
	r.mu.Lock()
	defer r.mu.Unlock()
	var out []vEvent
	for _, e := range r.events {
		if e["ev"] == ev {
			out = append(out, e)
		}
	}

	return out
}

func (n *labNet) endClosed(name string) bool {
	n.mu.Lock()
	defer n.mu.Unlock()
	e := n.ends[name]

	return e == nil || e.closed
}

// recInfo describes one record found in a DTLS 1.2 datagram (plaintext header fields).
type recInfo struct {
	ctype byte
	epoch uint16
	seq   uint64
	off   int // offset of the record in the datagram
	size  int // header + body
	cid   bool
}

// parseRecords12 splits a datagram into DTLS 1.2 records; cidLen is the length of the CID carried by tls12_cid records.
func parseRecords12(dgram []byte, cidLen int) []recInfo {
	var out []recInfo
	off := 0
	for off+recordlayer.FixedHeaderSize <= len(dgram) {
		h := dgram[off:]
		ct := h[0]
		hl := recordlayer.FixedHeaderSize
		isCID := ct == 25
		if isCID {
			hl += cidLen
		}
		if len(h) < hl {
			break
		}
		epoch := uint16(h[3])<<8 | uint16(h[4])
		var seq uint64
		for _, b := range h[5:11] {
			seq = seq<<8 | uint64(b)
		}
		l := int(h[hl-2])<<8 | int(h[hl-1])
		if len(h) < hl+l {
			break
		}
		out = append(out, recInfo{ctype: ct, epoch: epoch, seq: seq, off: off, size: hl + l, cid: isCID})
		off += hl + l
	}

	return out
}

func payloadFor(tag string, i int) []byte {
	return []byte(fmt.Sprintf("%s-%04d-%s", tag, i, "0123456789abcdef"))
}

func indexOfPayload(all [][]byte, p []byte) int {
	for i, q := range all {
		if bytes.Equal(p, q) {
			return i
		}
	}

	return -1
}
