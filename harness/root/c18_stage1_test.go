// C18 stage 1: record headers (legacy, connection-id, unified), handshake header, alert, ACK, RRC,
// inner plaintext and the three datagram unpackers against the encoders/decoders of spec/Codec.tla.
// VERIF_IN: TLC vectors (CodecGen modes hdr12 uhdr hshdr alert ack rrc inner str dgram12 dgram13).
// VERIF_OUT: rows {i,k,viol,div} + summary.  viol = property falsified by the library;
// div = the library is stricter than the grammar on a well-formed non-canonical input (information).
//
// Rule per offered byte string b with specification result d:
//   d.ok = false                 -> the library must return an error (truncated w.r.t. declared lengths)
//   d.ok, d.used = len(b)        -> if accepted, the value equals d.h; the canonical encoding must be accepted
//   d.ok, d.used < len(b)        -> may be rejected; if accepted the value equals d.h (bytes beyond not consumed)
//   whenever accepted            -> Marshal(value) is a fixed point of Unmarshal-then-Marshal

//go:build verif

package dtls

import (
	"bufio"
	"bytes"
	"encoding/json"
	"errors"
	"fmt"
	"os"
	"reflect"
	"strconv"
	"testing"

	"github.com/pion/dtls/v3/pkg/protocol"
	"github.com/pion/dtls/v3/pkg/protocol/alert"
	"github.com/pion/dtls/v3/pkg/protocol/handshake"
	"github.com/pion/dtls/v3/pkg/protocol/recordlayer"
)

type c18Dec struct {
	OK   bool            `json:"ok"`
	Used int             `json:"used"`
	H    json.RawMessage `json:"h"`
	Recs [][]int         `json:"recs"`
	Rest int             `json:"rest"`
}

type c18Var struct {
	B bs     `json:"b"`
	D c18Dec `json:"d"`
}

type c18Vec struct {
	K        string          `json:"k"`
	N        int             `json:"n"`
	Val      json.RawMessage `json:"val"`
	Enc      bs              `json:"enc"`
	Variants []c18Var        `json:"variants"`
	B        bs              `json:"b"`
	// str
	Alert, Ack, Rrc, Inner, UHdr0, UHdr1, UHdr2, Hdr12, HsHdr *c18Dec
	Unpack, UnpackCID, Unpack13, Unpack13CID                  *c18Dec
	// dgram
	D       bs       `json:"d"`
	Prefix0 []c18Dec `json:"prefix0"`
	PrefixN []c18Dec `json:"prefixn"`
	Prefix  []c18Dec `json:"prefix"`
	Plain   []c18Var `json:"plain"`
	CID     []c18Var `json:"cid"`
	Req     bool     `json:"req"`
	Cte     bool     `json:"cte"`
}

func (v *c18Vec) UnmarshalJSON(data []byte) error {
	type plain c18Vec
	aux := struct {
		*plain
		Alert       *c18Dec `json:"alert"`
		Ack         *c18Dec `json:"ack"`
		Rrc         *c18Dec `json:"rrc"`
		Inner       *c18Dec `json:"inner"`
		UHdr0       *c18Dec `json:"uhdr0"`
		UHdr1       *c18Dec `json:"uhdr1"`
		UHdr2       *c18Dec `json:"uhdr2"`
		Hdr12       *c18Dec `json:"hdr12"`
		HsHdr       *c18Dec `json:"hshdr"`
		Unpack      *c18Dec `json:"unpack"`
		UnpackCID   *c18Dec `json:"unpackcid"`
		Unpack13    *c18Dec `json:"unpack13"`
		Unpack13CID *c18Dec `json:"unpack13cid"`
	}{plain: (*plain)(v)}
	if err := json.Unmarshal(data, &aux); err != nil {
		return err
	}
	v.Alert, v.Ack, v.Rrc, v.Inner, v.UHdr0, v.UHdr1, v.UHdr2 = aux.Alert, aux.Ack, aux.Rrc, aux.Inner, aux.UHdr0, aux.UHdr1, aux.UHdr2
	v.Hdr12, v.HsHdr, v.Unpack, v.UnpackCID, v.Unpack13, v.Unpack13CID = aux.Hdr12, aux.HsHdr, aux.Unpack, aux.UnpackCID, aux.Unpack13, aux.Unpack13CID

	return nil
}

type c18Res struct {
	viol  []string
	div   []string
	evals int
}

func (r *c18Res) bad(f string, a ...any) {
	if len(r.viol) < 6 {
		r.viol = append(r.viol, fmt.Sprintf(f, a...))
	}
}

// c18ReencodeError: the decoder accepted, the encoder refuses the decoded value.
type c18ReencodeError struct{ err error }

func (e *c18ReencodeError) Error() string { return "re-encode: " + e.err.Error() }

// c18Codec adapts one library codec: decode returns a normalised value (JSON-comparable with the
// specification's h) and the re-encoding of the decoded value.
type c18Codec struct {
	name   string
	decode func(b []byte) (val any, reenc []byte, err error)
}

func c18Norm(v any) any {
	raw, _ := json.Marshal(v)
	var out any
	_ = json.Unmarshal(raw, &out)

	return out
}

func c18SpecVal(raw json.RawMessage) any {
	var out any
	_ = json.Unmarshal(raw, &out)

	return out
}

func limbs(v uint64, n int) []int {
	out := make([]int, n)
	for i := n - 1; i >= 0; i-- {
		out[i] = int(v & 0xffff)
		v >>= 16
	}

	return out
}

func ints(b []byte) []int {
	out := make([]int, len(b))
	for i, x := range b {
		out[i] = int(x)
	}

	return out
}

func c18Offer(r *c18Res, c c18Codec, b []byte, d *c18Dec, canonical bool) {
	if d == nil {
		return
	}
	r.evals++
	val, reenc, err := c.decode(b)
	what := fmt.Sprintf("%s(%s)", c.name, c10hex(b))
	var reErr *c18ReencodeError
	if errors.As(err, &reErr) {
		r.bad("FIXPOINT %s: the decoder accepts the input but the value it returns cannot be re-encoded: %v", what, reErr.err)

		return
	}
	switch {
	case !d.OK:
		if err == nil {
			r.bad("TRUNC %s: truncated input accepted (declared lengths / fixed part exceed the %d bytes offered)", what, len(b))
		}
	case d.Used == len(b):
		if err != nil {
			if canonical {
				r.bad("ROUNDTRIP %s: the canonical encoding of a value is rejected: %v", what, err)
			} else {
				r.div = append(r.div, what+": well-formed input rejected: "+err.Error())
			}

			return
		}
		if !reflect.DeepEqual(c18Norm(val), c18SpecVal(d.H)) {
			r.bad("ROUNDTRIP %s: decoded value %v differs from %s", what, c18Norm(val), string(d.H))
		}
		if canonical && !bytes.Equal(reenc, b) {
			r.bad("ROUNDTRIP %s: Marshal(Unmarshal(canonical)) = %s", what, c10hex(reenc))
		}
	default:
		if err == nil && !reflect.DeepEqual(c18Norm(val), c18SpecVal(d.H)) {
			r.bad("OVERREAD %s: bytes beyond the declared end (%d of %d) were consumed: value %v, expected %s", what, d.Used, len(b),
				c18Norm(val), string(d.H))
		}
	}
	if err == nil { // fixed point of decode-then-encode
		_, re2, err2 := c.decode(reenc)
		if err2 != nil {
			r.bad("FIXPOINT %s: re-encoding %s of an accepted input is rejected: %v", what, c10hex(reenc), err2)
		} else if !bytes.Equal(re2, reenc) {
			r.bad("FIXPOINT %s: re-encoding is not a fixed point: %s -> %s", what, c10hex(reenc), c10hex(re2))
		}
	}
}

func c18Codecs(n int) map[string]c18Codec { //nolint:cyclop
	return map[string]c18Codec{
		"hdr12": {"recordlayer.Header", func(b []byte) (any, []byte, error) {
			h := recordlayer.Header{ConnectionID: make([]byte, n)}
			if err := h.Unmarshal(b); err != nil {
				return nil, nil, err
			}
			re, err := h.Marshal()

			return map[string]any{"type": int(h.ContentType), "ver": []int{int(h.Version.Major), int(h.Version.Minor)}, "epoch": int(h.Epoch),
				"seq": limbs(h.SequenceNumber, 3), "cid": ints(h.ConnectionID), "len": int(h.ContentLen)}, re, err
		}},
		"uhdr": {"recordlayer.UnifiedHeader", func(b []byte) (any, []byte, error) {
			h := recordlayer.UnifiedHeader{ConnectionID: make([]byte, n)}
			if err := h.Unmarshal(b); err != nil {
				return nil, nil, err
			}
			re, err := h.Marshal()

			return map[string]any{"cid": ints(h.ConnectionID), "s": h.SeqBit, "seq": int(h.SequenceNumber), "l": h.LengthBit,
				"len": int(h.Length), "epoch": int(h.EpochLow)}, re, err
		}},
		"hshdr": {"handshake.Header", func(b []byte) (any, []byte, error) {
			var h handshake.Header
			if err := h.Unmarshal(b); err != nil {
				return nil, nil, err
			}
			re, err := h.Marshal()

			return map[string]any{"type": int(h.Type), "length": int(h.Length), "mseq": int(h.MessageSequence),
				"foff": int(h.FragmentOffset), "flen": int(h.FragmentLength)}, re, err
		}},
		"alert": {"alert.Alert", func(b []byte) (any, []byte, error) {
			var a alert.Alert
			if err := a.Unmarshal(b); err != nil {
				return nil, nil, err
			}
			re, err := a.Marshal()

			return map[string]any{"level": int(a.Level), "desc": int(a.Description)}, re, err
		}},
		"ack": {"protocol.ACK", func(b []byte) (any, []byte, error) {
			var a protocol.ACK
			if err := a.Unmarshal(b); err != nil {
				return nil, nil, err
			}
			re, err := a.Marshal()
			out := []any{}
			for _, rn := range a.Records {
				out = append(out, map[string]any{"epoch": limbs(rn.Epoch, 4), "seq": limbs(rn.SequenceNumber, 4)})
			}

			return out, re, err
		}},
		"rrc": {"protocol.ReturnRoutabilityCheck", func(b []byte) (any, []byte, error) {
			var m protocol.ReturnRoutabilityCheck
			if err := m.Unmarshal(b); err != nil {
				return nil, nil, err
			}
			re, err := m.Marshal()

			return map[string]any{"type": int(m.MessageType), "cookie": ints(m.Cookie[:])}, re, err
		}},
		"plain12": {"recordlayer.RecordLayer", func(b []byte) (any, []byte, error) {
			var rl recordlayer.RecordLayer
			if err := rl.Unmarshal(b); err != nil {
				return nil, nil, err
			}
			h := rl.Header
			body, err := rl.Content.Marshal()
			if err != nil {
				return nil, nil, err
			}
			re, err := rl.Marshal()

			return map[string]any{"hdr": map[string]any{"type": int(h.ContentType), "ver": []int{int(h.Version.Major), int(h.Version.Minor)},
				"epoch": int(h.Epoch), "seq": limbs(h.SequenceNumber, 3), "cid": ints(h.ConnectionID), "len": int(h.ContentLen)},
				"body": ints(body)}, re, err
		}},
		"hs12": {"handshake.Handshake", func(b []byte) (any, []byte, error) {
			var h handshake.Handshake
			if err := h.Unmarshal(b); err != nil {
				return nil, nil, err
			}
			hd := h.Header
			body, err := h.Message.Marshal()
			if err != nil {
				return nil, nil, &c18ReencodeError{err}
			}
			re, err := h.Marshal()
			if err != nil {
				return nil, nil, &c18ReencodeError{err}
			}

			return map[string]any{"hdr": map[string]any{"type": int(hd.Type), "length": int(hd.Length), "mseq": int(hd.MessageSequence),
				"foff": int(hd.FragmentOffset), "flen": int(hd.FragmentLength)}, "body": ints(body)}, re, nil
		}},
		"inner": {"recordlayer.InnerPlaintext", func(b []byte) (any, []byte, error) {
			var p recordlayer.InnerPlaintext
			if err := p.Unmarshal(b); err != nil {
				return nil, nil, err
			}
			re, err := p.Marshal()

			return map[string]any{"content": ints(p.Content), "type": int(p.RealType), "zeros": int(p.Zeros)}, re, err //nolint:gosec
		}},
	}
}

// c18Unpack compares an unpacker's result with the specification's partition.
func c18Unpack(r *c18Res, name string, b []byte, d *c18Dec, canonical bool, f func([]byte) ([][]byte, error)) {
	if d == nil {
		return
	}
	r.evals++
	buf := bytes.Clone(b)
	recs, err := f(buf)
	what := fmt.Sprintf("%s(%s)", name, c10hex(b))
	if !d.OK {
		if err == nil {
			r.bad("TRUNC %s: a datagram with a truncated record is accepted (%d records)", what, len(recs))
		}

		return
	}
	if err != nil {
		if canonical {
			r.bad("ROUNDTRIP %s: a well-formed datagram is rejected: %v", what, err)
		} else {
			r.div = append(r.div, what+": well-formed datagram rejected: "+err.Error())
		}

		return
	}
	if len(recs) != len(d.Recs) {
		r.bad("PARTITION %s: %d records, the declared lengths give %d", what, len(recs), len(d.Recs))

		return
	}
	off := 0
	for i, rec := range recs {
		from, to := d.Recs[i][0]-1, d.Recs[i][1]
		if from != off || !bytes.Equal(rec, b[from:to]) {
			r.bad("PARTITION %s: record %d is %s, expected bytes [%d,%d)", what, i, c10hex(rec), from, to)

			return
		}
		off = to
	}
	if off != len(b)-d.Rest {
		r.bad("PARTITION %s: records cover %d of %d bytes", what, off, len(b))
	}
	if !bytes.Equal(buf, b) {
		r.bad("PARTITION %s: the unpacker modified the datagram", what)
	}
}

func c18DoStage1(v *c18Vec, r *c18Res) { //nolint:cyclop
	switch v.K {
	case "hdr12", "uhdr", "hshdr", "alert", "ack", "rrc", "inner", "plain12", "hs12":
		c := c18Codecs(v.N)[v.K]
		c18Offer(r, c, v.Enc, &c18Dec{OK: true, Used: len(v.Enc), H: v.Val}, true)
		for i := range v.Variants {
			c18Offer(r, c, v.Variants[i].B, &v.Variants[i].D, false)
		}
	case "str":
		for n, cs := range map[int]map[string]*c18Dec{
			0: {"alert": v.Alert, "ack": v.Ack, "rrc": v.Rrc, "inner": v.Inner, "uhdr": v.UHdr0, "hdr12": v.Hdr12, "hshdr": v.HsHdr},
			1: {"uhdr": v.UHdr1}, 2: {"uhdr": v.UHdr2},
		} {
			codecs := c18Codecs(n)
			for name, d := range cs {
				c18Offer(r, codecs[name], v.B, d, false)
			}
		}
		c18Unpack(r, "UnpackDatagram", v.B, v.Unpack, false, recordlayer.UnpackDatagram)
		c18Unpack(r, "ContentAwareUnpackDatagram/1", v.B, v.UnpackCID, false, func(b []byte) ([][]byte, error) {
			return recordlayer.ContentAwareUnpackDatagram(b, 1)
		})
		c18Unpack(r, "UnpackDatagram13/0", v.B, v.Unpack13, false, func(b []byte) ([][]byte, error) {
			return recordlayer.UnpackDatagram13(b, 0, false, true)
		})
		c18Unpack(r, "UnpackDatagram13/1req", v.B, v.Unpack13CID, false, func(b []byte) ([][]byte, error) {
			return recordlayer.UnpackDatagram13(b, 1, true, true)
		})
	case "dgram12":
		f0 := recordlayer.UnpackDatagram
		fn := func(b []byte) ([][]byte, error) { return recordlayer.ContentAwareUnpackDatagram(b, v.N) }
		for i := range v.Prefix0 {
			c18Unpack(r, "UnpackDatagram", v.D[:i], &v.Prefix0[i], false, f0)
			c18Unpack(r, fmt.Sprintf("ContentAwareUnpackDatagram/%d", v.N), v.D[:i], &v.PrefixN[i], false, fn)
		}
		for i := range v.Plain {
			c18Unpack(r, "UnpackDatagram", v.Plain[i].B, &v.Plain[i].D, false, f0)
			c18Unpack(r, fmt.Sprintf("ContentAwareUnpackDatagram/%d", v.N), v.CID[i].B, &v.CID[i].D, i == 0, fn)
		}
	case "dgram13":
		f := func(b []byte) ([][]byte, error) { return recordlayer.UnpackDatagram13(b, v.N, v.Req, v.Cte) }
		name := fmt.Sprintf("UnpackDatagram13/%d/%v/%v", v.N, v.Req, v.Cte)
		for i := range v.Prefix {
			c18Unpack(r, name, v.D[:i], &v.Prefix[i], false, f)
		}
		for i := range v.Variants {
			c18Unpack(r, name, v.Variants[i].B, &v.Variants[i].D, i == 0, f)
		}
	default:
		r.div = append(r.div, "unknown vector kind "+v.K)
	}
}

// TestVerifC18Stage1 is the entry point.
func TestVerifC18Stage1(t *testing.T) {
	c18Run(t, func(line []byte, r *c18Res) (string, error) {
		v := &c18Vec{}
		if err := json.Unmarshal(line, v); err != nil {
			return "", err
		}
		c18DoStage1(v, r)

		return v.K, nil
	})
}

// c18Run is the shared ndjson driver loop (journal names the vector in flight).
func c18Run(t *testing.T, do func(line []byte, r *c18Res) (string, error)) {
	t.Helper()
	in, out := os.Getenv("VERIF_IN"), os.Getenv("VERIF_OUT")
	if in == "" || out == "" {
		t.Skip("VERIF_IN / VERIF_OUT not set")
	}
	skip, _ := strconv.Atoi(os.Getenv("VERIF_SKIP"))
	fin, err := os.Open(in) //nolint:gosec
	if err != nil {
		t.Fatal(err)
	}
	defer fin.Close()                                                         //nolint:errcheck
	fout, err := os.OpenFile(out, os.O_APPEND|os.O_CREATE|os.O_WRONLY, 0o600) //nolint:gosec
	if err != nil {
		t.Fatal(err)
	}
	defer fout.Close() //nolint:errcheck
	enc := json.NewEncoder(fout)
	journal := os.Getenv("VERIF_JOURNAL")
	sc := bufio.NewScanner(fin)
	sc.Buffer(make([]byte, 1<<20), 1<<28)
	n, evals, nviol, ndiv := 0, 0, 0, 0
	for i := 0; sc.Scan(); i++ {
		if i < skip {
			continue
		}
		if journal != "" {
			_ = os.WriteFile(journal, []byte(strconv.Itoa(i)), 0o600)
		}
		r := &c18Res{}
		k, err := do(sc.Bytes(), r)
		if err != nil {
			t.Fatalf("vector %d: %v", i, err)
		}
		n++
		evals += r.evals
		ndiv += len(r.div)
		if len(r.viol) > 0 || len(r.div) > 0 {
			nviol += len(r.viol)
			if len(r.div) > 3 {
				r.div = r.div[:3]
			}
			_ = enc.Encode(map[string]any{"i": i, "k": k, "viol": r.viol, "div": r.div})
		}
	}
	_ = enc.Encode(map[string]any{"summary": true, "vectors": n, "evaluations": evals, "viol": nviol, "div": ndiv, "skip": skip})
}
