// C12 sender side: Conn.fragmentHandshake splits a handshake message by the MTU;
// the fragments must partition the message, none may carry more body bytes than
// the MTU, and the real FragmentBuffer must rebuild the original from them in any
// arrival order (seeded permutations, duplicates).

//go:build verif

package dtls

import (
	"bytes"
	"encoding/json"
	"fmt"
	"math/rand"
	"os"
	"strconv"
	"testing"

	dtlsfragmentbuffer "github.com/pion/dtls/v3/internal/fragmentbuffer"
	"github.com/pion/dtls/v3/pkg/protocol/handshake"
)

type rawHSMessage struct{ b []byte }

func (m *rawHSMessage) Marshal() ([]byte, error) { return m.b, nil }
func (m *rawHSMessage) Unmarshal(d []byte) error { m.b = append([]byte(nil), d...); return nil }
func (m *rawHSMessage) Type() handshake.Type     { return handshake.TypeCertificate }

func recWrap(frag []byte, seq uint64) []byte {
	rec := []byte{22, 0xfe, 0xfd, 0, 0, 0, 0, 0, 0, 0, byte(seq), byte(len(frag) >> 8), byte(len(frag))}

	return append(rec, frag...)
}

func TestVerifFragSender(t *testing.T) { //nolint:cyclop,gocognit
	seed, _ := strconv.ParseInt(envOr("VERIF_SEED", "1"), 10, 64)
	maxMTU, _ := strconv.Atoi(envOr("VERIF_MAXMTU", "24"))
	rng := rand.New(rand.NewSource(seed)) //nolint:gosec
	type res struct {
		Pairs      int      `json:"pairs"`
		Orders     int      `json:"orders"`
		Violations []string `json:"violations"`
	}
	var out res
	viol := func(f string, a ...any) {
		if len(out.Violations) < 50 {
			out.Violations = append(out.Violations, fmt.Sprintf(f, a...))
		}
	}
	pairs := [][2]int{}
	for mtu := 1; mtu <= maxMTU; mtu++ {
		for l := 0; l <= 3*mtu+1; l++ {
			pairs = append(pairs, [2]int{l, mtu})
		}
	}
	for i := 0; i < 40; i++ {
		mtu := 100 + rng.Intn(1400)
		pairs = append(pairs, [2]int{rng.Intn(5 * mtu), mtu})
	}
	// "for every message length": the 24-bit length / offset fields around their byte boundaries, up to the largest
	// message the format can express (reassembly is exercised where the receiver's fixed limits - 1000 fragments,
	// 2 MB - admit the message)
	for _, l := range []int{255, 256, 65535, 65536, 65537, 70000, 131071, 131072, 196608, 1<<20 + 3, 1<<24 - 1} {
		for _, mtu := range []int{1200, 16000} {
			pairs = append(pairs, [2]int{l, mtu})
		}
	}
	for i := 0; i < 6; i++ {
		pairs = append(pairs, [2]int{65536 + rng.Intn(1<<20), 1100 + rng.Intn(15000)})
	}
	for _, pr := range pairs {
		l, mtu := pr[0], pr[1]
		out.Pairs++
		body := make([]byte, l)
		_, _ = rng.Read(body)
		c := &Conn{maximumTransmissionUnit: mtu}
		hs := &handshake.Handshake{Header: handshake.Header{MessageSequence: 0}, Message: &rawHSMessage{b: body}}
		if _, err := hs.Marshal(); err != nil {
			t.Fatal(err)
		}
		frags, err := c.fragmentHandshake(hs)
		if err != nil {
			viol("len %d mtu %d: %v", l, mtu, err)

			continue
		}
		next := 0
		var rebuilt []byte
		for i, f := range frags {
			h := &handshake.Header{}
			if err := h.Unmarshal(f); err != nil {
				viol("len %d mtu %d frag %d: header %v", l, mtu, i, err)

				break
			}
			data := f[handshake.HeaderLength:]
			if len(data) > mtu {
				viol("len %d mtu %d frag %d: %d body bytes exceed the MTU", l, mtu, i, len(data))
			}
			if int(h.FragmentLength) != len(data) || int(h.FragmentOffset) != next || int(h.Length) != l {
				viol("len %d mtu %d frag %d: header off/flen/len %d/%d/%d, expected %d/%d/%d", l, mtu, i,
					h.FragmentOffset, h.FragmentLength, h.Length, next, len(data), l)
			}
			next += len(data)
			rebuilt = append(rebuilt, data...)
		}
		if !bytes.Equal(rebuilt, body) {
			viol("len %d mtu %d: fragments do not partition the message", l, mtu)
		}
		if len(frags) == 0 {
			viol("len %d mtu %d: no fragment emitted", l, mtu)
		}
		if len(frags) >= 900 || l >= 1900000 {
			continue // beyond the receiver's buffering limits (C08)
		}
		// receiver: any arrival order with duplicates
		for k := 0; k < 3; k++ {
			out.Orders++
			order := rng.Perm(len(frags))
			if k == 0 {
				for i := range order {
					order[i] = len(frags) - 1 - i
				}
			}
			fb := dtlsfragmentbuffer.New()
			var got []byte
			pops := 0
			for _, i := range order {
				for rep := 0; rep < 1+k%2; rep++ {
					if _, _, err := fb.Push(recWrap(frags[i], uint64(i))); err != nil { //nolint:gosec
						viol("len %d mtu %d: push %v", l, mtu, err)
					}
					for m, _ := fb.Pop(); m != nil; m, _ = fb.Pop() {
						got = m
						pops++
					}
				}
			}
			if pops != 1 || len(got) < handshake.HeaderLength || !bytes.Equal(got[handshake.HeaderLength:], body) {
				if len(order) > 40 {
					order = order[:40]
				}
				viol("len %d mtu %d order %v..: receiver surfaced %d messages / wrong bytes", l, mtu, order, pops)
			}
		}
	}
	b, _ := json.Marshal(out)
	if p := os.Getenv("VERIF_OUT"); p != "" {
		_ = os.WriteFile(p, b, 0o600)
	} else {
		fmt.Println(string(b))
	}
}
