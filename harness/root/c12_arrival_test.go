// C12 at the level of the connection (conn.go bufferHandshakeRecord + FragmentBuffer + handshake cache): every datagram
// of every flight arrives exactly once, in an order chosen by a seeded permutation (reversed, rotated, random), with small
// MTUs so that a flight is many records and messages are fragmented.  No timer ever fires: since every fragment of every
// message arrives, the receiver must surface every message - in message-sequence order, whatever the arrival order and
// the interleaving across message sequence numbers - and the handshake must complete on the first transmission alone.

//go:build verif

package dtls

import (
	"context"
	"encoding/json"
	"fmt"
	"math/rand"
	"os"
	"testing"
	"time"
)

type c12ArrCase struct {
	Name  string  `json:"name"`
	Scen  scenCfg `json:"scen"`
	Order string  `json:"order"` // "reverse" | "rotate" | "random" | "inorder"
	Seed  int64   `json:"seed"`
}

type c12ArrResult struct {
	Case      int    `json:"case"`
	Name      string `json:"name"`
	Lab       string `json:"lab,omitempty"`
	Completed bool   `json:"completed"`
	CErr      string `json:"cerr,omitempty"`
	SErr      string `json:"serr,omitempty"`
	Datagrams int    `json:"datagrams"`
	Batches   int    `json:"batches"` // batches of more than one datagram (where the order matters)
	Delivered bool   `json:"delivered"`
	Stuck     string `json:"stuck,omitempty"`
}

// c12OnlyEpoch0Handshake: every record of the datagram is a DTLSPlaintext handshake record of epoch 0.
func c12OnlyEpoch0Handshake(d []byte) bool {
	off := 0
	for off+13 <= len(d) {
		if d[off] != 22 || d[off+3] != 0 || d[off+4] != 0 {
			return false
		}
		off += 13 + (int(d[off+11])<<8 | int(d[off+12]))
	}

	return off == len(d)
}

func runC12Arrival(idx int, cs *c12ArrCase) (res c12ArrResult) {
	res = c12ArrResult{Case: idx, Name: cs.Name}
	rng := rand.New(rand.NewSource(cs.Seed)) //nolint:gosec
	r := newLabRun()
	scen := cs.Scen
	if err := r.setup(&scen, &scenStores{}); err != nil {
		res.Lab = err.Error()

		return res
	}
	defer r.closeAll()
	ctx, cancel := context.WithTimeout(context.Background(), 20*time.Second)
	defer cancel()
	r.s.startHandshake(ctx)
	r.c.startHandshake(ctx)
	next := map[string]int{"c2s": 0, "s2c": 0}
	for round := 0; round < 80; round++ {
		if !r.waitQuiet(3 * time.Second) {
			if w := r.wedged(); w != "" {
				res.Stuck = "endpoint wedged: " + w

				return res
			}
			res.Lab = "not quiescent"

			return res
		}
		if estOf(r.c) && estOf(r.s) {
			break
		}
		moved := false
		for _, dir := range []string{"c2s", "s2c"} {
			var batch []int
			for next[dir] < r.net.Emitted(dir) {
				batch = append(batch, next[dir])
				next[dir]++
			}
			if len(batch) == 0 {
				continue
			}
			moved = true
			res.Datagrams += len(batch)
			// DTLS 1.2: the ChangeCipherSpec and the records behind it are not handshake fragments of epoch 0 - what a receiver does
			// with a record of an epoch it has no keys for yet (buffer or discard, RFC 6347 4.1) is not C12's subject: only the
			// leading datagrams that consist of epoch-0 handshake records are permuted, the rest keeps its place behind them
			tail := []int(nil)
			if cs.Scen.Ver == "12" {
				for i, k := range batch {
					if !c12OnlyEpoch0Handshake(r.net.Data(dir, k)) {
						batch, tail = batch[:i], append([]int(nil), batch[i:]...)

						break
					}
				}
			}
			if len(batch) > 1 {
				res.Batches++
				switch cs.Order {
				case "reverse":
					for i, j := 0, len(batch)-1; i < j; i, j = i+1, j-1 {
						batch[i], batch[j] = batch[j], batch[i]
					}
				case "rotate":
					k := 1 + rng.Intn(len(batch)-1)
					batch = append(append([]int(nil), batch[k:]...), batch[:k]...)
				case "random":
					rng.Shuffle(len(batch), func(i, j int) { batch[i], batch[j] = batch[j], batch[i] })
				}
			}
			for _, k := range append(batch, tail...) {
				r.net.Deliver(dir, k)
				if !r.waitQuiet(3 * time.Second) {
					res.Lab = "not quiescent after a delivery"

					return res
				}
			}
		}
		if !moved {
			break // nothing in flight and nobody completed: without a timer nothing more will happen
		}
	}
	res.Completed = estOf(r.c) && estOf(r.s)
	if !res.Completed && res.Stuck == "" {
		cst, _ := r.c.state.Load().(string)
		sst, _ := r.s.state.Load().(string)
		res.Stuck = fmt.Sprintf("client %s in %s, server %s in %s", cst, r.c.flightTag(), sst, r.s.flightTag())
	}
	select {
	case <-r.c.hsDone:
		res.CErr = errString(r.c.hsErr)
	default:
	}
	select {
	case <-r.s.hsDone:
		res.SErr = errString(r.s.hsErr)
	default:
	}
	if res.Completed {
		// lossless from here on
		r.net.mu.Lock()
		r.net.auto = func(*labDgram) labAction { return labAction{deliver: 1} }
		r.net.mu.Unlock()
		<-r.c.hsDone
		<-r.s.hsDone
		msg := []byte("c12-arrival-probe")
		_ = r.c.conn.SetWriteDeadline(time.Now().Add(2 * time.Second))
		if _, err := r.c.conn.Write(msg); err == nil {
			buf := make([]byte, 64)
			_ = r.s.conn.SetReadDeadline(time.Now().Add(2 * time.Second))
			if n, err := r.s.conn.Read(buf); err == nil && string(buf[:n]) == string(msg) {
				res.Delivered = true
			}
		}
	}

	return res
}

func TestVerifC12Arrival(t *testing.T) {
	var cases []c12ArrCase
	raw, err := os.ReadFile(os.Getenv("VERIF_IN"))
	if err != nil {
		t.Fatal(err)
	}
	if err := json.Unmarshal(raw, &cases); err != nil {
		t.Fatal(err)
	}
	getPKI()
	out, err := os.Create(os.Getenv("VERIF_OUT"))
	if err != nil {
		t.Fatal(err)
	}
	defer out.Close()
	enc := json.NewEncoder(out)
	for i := range cases {
		res := runC12Arrival(i, &cases[i])
		if res.Lab != "" {
			res = runC12Arrival(i, &cases[i])
		}
		if err := enc.Encode(res); err != nil {
			t.Fatal(err)
		}
	}
	fmt.Println("c12 arrival cases:", len(cases))
}
