// C02 (B2): the property's own quantifier - every fault mask over the first N datagrams of a
// direction (deliver / drop / duplicate / hold back behind the successor) on free-running
// endpoints with real retransmission timers.

//go:build verif

package dtls

import (
	"bufio"
	"context"
	"encoding/json"
	"fmt"
	"os"
	"runtime"
	"strconv"
	"sync"
	"testing"
	"time"
)

type maskCase struct {
	Scen    scenCfg `json:"scen"`
	Variant string  `json:"variant"`
	CMask   []int   `json:"cmask"` // faults on client->server datagrams, by emission index
	SMask   []int   `json:"smask"`
	Events  bool    `json:"events"`
}

type maskResult struct {
	Case      int      `json:"case"`
	Completed bool     `json:"completed"`
	CErr      string   `json:"cerr,omitempty"`
	SErr      string   `json:"serr,omitempty"`
	LatencyMS float64  `json:"latencyMs"`
	Final     string   `json:"final,omitempty"`
	Lost      []string `json:"lost,omitempty"` // tags of flights whose every emitted copy was dropped by the mask
	Dgrams    int      `json:"dgrams"`
	Lab       string   `json:"lab,omitempty"`
	DataOK    bool     `json:"dataOk"`
	Events    []vEvent `json:"events,omitempty"`
	Sess      any      `json:"sess,omitempty"` // C01: *c01Session, outputs of both sides (VERIF_ESTABLISHED)
}

func maskPolicy(cm, sm []int, interval time.Duration, n *labNet) func(d *labDgram) labAction {
	return func(d *labDgram) labAction {
		m := cm
		if d.dir == "s2c" {
			m = sm
		}
		f := 0
		if d.idx < len(m) {
			f = m[d.idx]
		}
		switch f {
		case 1:
			return labAction{deliver: 0}
		case 2:
			return labAction{deliver: 2}
		case 3:
			// held back behind its successor; a finite delay in any case
			dir, idx := d.dir, d.idx
			time.AfterFunc(interval*3/2, func() {
				n.mu.Lock()
				still := false
				for i, h := range n.held[dir] {
					if h.idx == idx {
						n.held[dir] = append(n.held[dir][:i:i], n.held[dir][i+1:]...)
						still = true

						break
					}
				}
				n.mu.Unlock()
				if still {
					n.Deliver(dir, idx)
				}
			})

			return labAction{hold: true}
		default:
			return labAction{deliver: 1}
		}
	}
}

func runMaskCase(idx int, mc *maskCase, budget time.Duration) maskResult { //nolint:cyclop
	res := maskResult{Case: idx}
	r := newLabRun()
	scen := mc.Scen
	if scen.IntervalMS <= 0 {
		scen.IntervalMS = 20
	}
	if err := r.setup(&scen, &scenStores{}); err != nil {
		res.Lab = err.Error()

		return res
	}
	defer r.closeAll()
	r.net.mu.Lock()
	r.net.auto = maskPolicy(mc.CMask, mc.SMask, scen.interval(), r.net)
	r.net.mu.Unlock()
	ctx, cancel := context.WithTimeout(context.Background(), budget)
	defer cancel()
	start := time.Now()
	r.s.startHandshake(ctx)
	r.c.startHandshake(ctx)
	<-r.c.hsDone
	<-r.s.hsDone
	res.LatencyMS = float64(time.Since(start).Microseconds()) / 1000
	res.CErr, res.SErr = errString(r.c.hsErr), errString(r.s.hsErr)
	res.Completed = r.c.hsErr == nil && r.s.hsErr == nil
	res.Dgrams = r.net.Emitted("c2s") + r.net.Emitted("s2c")
	cst, _ := r.c.state.Load().(string)
	sst, _ := r.s.state.Load().(string)
	res.Final = fmt.Sprintf("c=%s/%s s=%s/%s", cst, r.c.flightTag(), sst, r.s.flightTag())
	// which flights lost every copy
	r.net.mu.Lock()
	type agg struct{ emitted, dropped int }
	byTag := map[string]*agg{}
	var order []string
	for _, dir := range []string{"c2s", "s2c"} {
		for _, d := range r.net.emitted[dir] {
			key := dir + ":" + d.tag
			if byTag[key] == nil {
				byTag[key] = &agg{}
				order = append(order, key)
			}
			byTag[key].emitted++
			if d.dropped && d.delivered == 0 {
				byTag[key].dropped++
			}
		}
	}
	r.net.mu.Unlock()
	for _, k := range order {
		if a := byTag[k]; a.emitted == a.dropped {
			res.Lost = append(res.Lost, k)
		}
	}
	if res.Completed {
		// application data must flow both ways afterwards (reliable network now)
		r.net.mu.Lock()
		r.net.auto = func(*labDgram) labAction { return labAction{deliver: 1} }
		r.net.mu.Unlock()
		res.DataOK = pingPong(r)
		if c01Wanted() {
			res.Sess = c01Collect(r)
		}
	}
	if mc.Events || !res.Completed {
		res.Events = r.rec.snapshot()
	}

	return res
}

// pingPong writes one payload in each direction and reads it on the other side.
func pingPong(r *labRun) bool {
	ok := true
	for _, pr := range [][2]*labPeer{{r.c, r.s}, {r.s, r.c}} {
		from, to := pr[0], pr[1]
		msg := []byte("ping-from-" + from.name)
		if _, err := from.conn.Write(msg); err != nil {
			return false
		}
		_ = to.conn.SetReadDeadline(time.Now().Add(2 * time.Second))
		buf := make([]byte, 256)
		n, err := to.conn.Read(buf)
		if err != nil || string(buf[:n]) != string(msg) {
			ok = false
		}
	}

	return ok
}

func TestVerifMasks(t *testing.T) {
	in, out := os.Getenv("VERIF_IN"), os.Getenv("VERIF_OUT")
	budgetMS, _ := strconv.Atoi(envOr("VERIF_BUDGET_MS", "3000"))
	par, _ := strconv.Atoi(envOr("VERIF_PAR", "0"))
	if par <= 0 {
		par = runtime.GOMAXPROCS(0)
	}
	fi, err := os.Open(in)
	if err != nil {
		t.Fatal(err)
	}
	defer fi.Close()
	var cases []maskCase
	scan := bufio.NewScanner(fi)
	scan.Buffer(make([]byte, 1<<20), 1<<26)
	for scan.Scan() {
		var mc maskCase
		if err := json.Unmarshal(scan.Bytes(), &mc); err != nil {
			t.Fatal(err)
		}
		cases = append(cases, mc)
	}
	getPKI()
	results := make([]maskResult, len(cases))
	var wg sync.WaitGroup
	sem := make(chan struct{}, par)
	for i := range cases {
		wg.Add(1)
		sem <- struct{}{}
		go func(i int) {
			defer wg.Done()
			defer func() { <-sem }()
			results[i] = runMaskCase(i, &cases[i], time.Duration(budgetMS)*time.Millisecond)
		}(i)
	}
	wg.Wait()
	fo, err := os.Create(out)
	if err != nil {
		t.Fatal(err)
	}
	defer fo.Close()
	w := bufio.NewWriter(fo)
	defer w.Flush()
	enc := json.NewEncoder(w)
	sum := map[string]float64{"cases": float64(len(cases))}
	for _, r := range results {
		if r.Completed {
			sum["completed"]++
			if r.LatencyMS > sum["maxLatencyMs"] {
				sum["maxLatencyMs"] = r.LatencyMS
			}
			if !r.DataOK {
				sum["dataFailed"]++
			}
		}
		if !r.Completed || !r.DataOK || r.Lab != "" || cases[r.Case].Events || r.Sess != nil {
			_ = enc.Encode(r)
		}
	}
	_ = enc.Encode(sum)
}
