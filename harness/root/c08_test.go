// C08: robustness.  (endpoint state, hostile datagram class) pairs enumerated by spec/Robustness.tla are instantiated
// with seeded concrete datagrams and injected into a real endpoint that was driven to that state; afterwards the
// genuine peer's traffic continues.  Observed: process survival (the driver runs batches in a subprocess with a
// journal), quiescence (no deadlock, no emission storm), queue bounds, and whether service continued.

//go:build verif

package dtls

import (
	"bufio"
	"context"
	"crypto/aes"
	"crypto/cipher"
	"encoding/json"
	"fmt"
	"math/rand"
	"os"
	"runtime"
	"sync"
	"testing"
	"time"

	dtlsflight "github.com/pion/dtls/v3/internal/flight"
	dtlsstate "github.com/pion/dtls/v3/internal/state"
	"github.com/pion/dtls/v3/pkg/crypto/prf"
	"github.com/pion/dtls/v3/pkg/protocol"
	"github.com/pion/dtls/v3/pkg/protocol/recordlayer"
)

type c08Case struct {
	Scen   scenCfg `json:"scen"`
	Name   string  `json:"name"`
	Pumps  int     `json:"pumps"` // delivery rounds before the injection (>= 20: after establishment)
	Target string  `json:"target"`
	Class  string  `json:"class"`
	Seed   int64   `json:"seed"`
	Count  int     `json:"count"`
}

type c08Result struct {
	Case        int      `json:"case"`
	Name        string   `json:"name"`
	Injected    int      `json:"injected"`
	EstBefore   bool     `json:"estBefore"` // target had completed its handshake before the injection
	Emitted     int      `json:"emitted"`   // datagrams the target emitted while the hostile input was processed
	EmittedB    int      `json:"emittedBytes"`
	QueueMax    int      `json:"queueMax"`
	Quiet       bool     `json:"quiet"`       // the endpoints became quiescent after the injection
	TargetAlive bool     `json:"targetAlive"` // target neither failed its handshake nor closed because of the input
	Completed   bool     `json:"completed"`   // both handshakes completed afterwards
	PingPong    bool     `json:"pingPong"`    // application data flowed in both directions afterwards
	TargetErr   string   `json:"targetErr,omitempty"`
	ReadErrs    []string `json:"readErrs,omitempty"`
	Lab         string   `json:"lab,omitempty"`
	Sample      string   `json:"sample,omitempty"`
}

type c08Raw struct {
	typ  protocol.ContentType
	data []byte
}

func (r *c08Raw) ContentType() protocol.ContentType { return r.typ }
func (r *c08Raw) Marshal() ([]byte, error)          { return append([]byte(nil), r.data...), nil }
func (r *c08Raw) Unmarshal(d []byte) error          { r.data = append([]byte(nil), d...); return nil }

// c08Seal makes the genuine sender protect arbitrary inner content with its real keys and numbering.
func c08Seal(sender *Conn, ctype byte, inner []byte) ([]byte, error) {
	common := dtlsstate.CommonState(sender.state)
	epoch := common.LocalEpoch()
	sender.lock.Lock()
	defer sender.lock.Unlock()
	if common.LocalVersion.Equal(protocol.Version1_3) {
		seq, err := sender.nextLocalSequenceNumber(epoch)
		if err != nil {
			return nil, err
		}

		return sender.sealRecordContent(epoch, seq, protocol.ContentType(ctype), inner)
	}

	return sender.processPacket(&dtlsflight.Packet{
		Record: &recordlayer.RecordLayer{
			Header:  recordlayer.Header{Epoch: epoch, Version: protocol.Version1_2},
			Content: &c08Raw{typ: protocol.ContentType(ctype), data: inner},
		},
		ShouldEncrypt: true, ShouldWrapCID: sender.state.ShouldWrapConnectionID(),
	})
}

// c08CBCPadding builds a correctly keyed CBC record whose decrypted body is nothing but padding (longer than the record
// can hold next to a MAC).
func c08CBCPadding(sender *Conn, macLen, keyLen int, padByte byte, blocks int) []byte {
	st, ok := sender.state.(*dtlsstate.State12)
	if !ok {
		return nil
	}
	common := dtlsstate.CommonState(sender.state)
	lr, rr := common.LocalRandom.MarshalFixed(), common.RemoteRandom.MarshalFixed()
	cr, sr := lr[:], rr[:]
	if !common.IsClient {
		cr, sr = rr[:], lr[:]
	}
	keys, err := prf.GenerateEncryptionKeys(st.MasterSecret, cr, sr, macLen, keyLen, 16, st.CipherSuite.HashFunc())
	if err != nil {
		return nil
	}
	key := keys.ClientWriteKey
	if !common.IsClient {
		key = keys.ServerWriteKey
	}
	blk, err := aes.NewCipher(key)
	if err != nil {
		return nil
	}
	iv := make([]byte, 16)
	for i := range iv {
		iv[i] = byte(i*11 + 5)
	}
	body := make([]byte, 16*blocks)
	for i := range body {
		body[i] = padByte
	}
	cipher.NewCBCEncrypter(blk, iv).CryptBlocks(body, body)
	sender.lock.Lock()
	seq, _ := sender.nextLocalSequenceNumber(common.LocalEpoch())
	sender.lock.Unlock()
	l := 16 + len(body)
	rec := []byte{23, 0xfe, 0xfd, 0, byte(common.LocalEpoch()), byte(seq >> 40), byte(seq >> 32), byte(seq >> 24), byte(seq >> 16),
		byte(seq >> 8), byte(seq), byte(l >> 8), byte(l)}

	return append(append(rec, iv...), body...)
}

func c08Plain(ctype byte, epoch uint16, seq uint64, body []byte) []byte {
	rec := []byte{ctype, 0xfe, 0xfd, byte(epoch >> 8), byte(epoch), byte(seq >> 40), byte(seq >> 32), byte(seq >> 24),
		byte(seq >> 16), byte(seq >> 8), byte(seq), byte(len(body) >> 8), byte(len(body))}

	return append(rec, body...)
}

func c08HS(typ byte, length, seq, off, flen int, body []byte) []byte {
	return append([]byte{typ, byte(length >> 16), byte(length >> 8), byte(length), byte(seq >> 8), byte(seq),
		byte(off >> 16), byte(off >> 8), byte(off), byte(flen >> 16), byte(flen >> 8), byte(flen)}, body...)
}

// c08Make produces the k-th hostile datagram of a class.
func c08Make(cs *c08Case, r *labRun, rng *rand.Rand, k int) []byte { //nolint:cyclop,gocognit,maintidx
	target := r.c
	sender := r.s
	if cs.Target == "s" {
		target, sender = r.s, r.c
	}
	dirIn := dirOf(sender.name) // datagrams travelling towards the target
	rnd := func(n int) []byte {
		b := make([]byte, n)
		for i := range b {
			b[i] = byte(rng.Intn(256))
		}

		return b
	}
	genuine := func() []byte {
		n := r.net.Emitted(dirIn)
		if n == 0 {
			return nil
		}

		return r.net.Data(dirIn, rng.Intn(n))
	}
	ver13 := cs.Scen.Ver == "13"
	tcommon := dtlsstate.CommonState(target.conn.state)
	nextSeq := dtlsstate.HandshakeRecvSequence(target.conn.state)
	remoteEpoch := tcommon.RemoteEpoch()
	switch cs.Class {
	case "random-unframeable": // first byte is neither a DTLSPlaintext content type nor a unified header
		b := rnd(1 + rng.Intn(300))
		for (b[0] >= 20 && b[0] <= 27) || b[0]&0xe0 == 0x20 {
			b[0] = byte(rng.Intn(256))
		}

		return b
	case "random-typed": // a plausible first byte, the rest random
		b := rnd(1 + rng.Intn(300))
		b[0] = []byte{20, 21, 22, 23, 25, 26, 27, 0x2f, 0x2c, 0x3f}[rng.Intn(10)]

		return b
	case "random-header": // well-formed 13-byte header, random body that disagrees with the declared length
		body := rnd(rng.Intn(80))
		rec := c08Plain([]byte{20, 21, 22, 23, 25, 26}[rng.Intn(6)], []uint16{0, 1, 2, 3, 65535}[rng.Intn(5)], uint64(rng.Int63n(1<<40)), body)
		l := []int{0, 1, len(body) + 1, len(body) + 200, 0xffff}[rng.Intn(5)]
		rec[11], rec[12] = byte(l>>8), byte(l)

		return rec
	case "trunc":
		g := genuine()
		if len(g) < 2 {
			return nil
		}

		return g[:1+rng.Intn(len(g)-1)]
	case "lenfield":
		g := genuine()
		if len(g) < 13 || g[0]&0xe0 == 0x20 {
			return nil
		}
		l := int(g[11])<<8 | int(g[12])
		nl := []int{0, 1, l - 1, l + 1, 0xffff, l / 2}[rng.Intn(6)]
		if nl < 0 {
			nl = 0
		}
		g[11], g[12] = byte(nl>>8), byte(nl)

		return g
	case "badtype": // genuine framing, but the first record's content type is no DTLS content type at all
		g := genuine()
		if len(g) < 13 {
			return nil
		}
		g[0] = []byte{0, 1, 19, 28, 31, 64, 99, 128, 200, 255}[rng.Intn(10)]

		return g
	case "typever":
		g := genuine()
		if len(g) < 13 {
			return nil
		}
		switch 1 + rng.Intn(3) {
		case 0:
			g[0] = byte(rng.Intn(256))
		case 1:
			g[1], g[2] = byte(rng.Intn(256)), byte(rng.Intn(256))
		case 2:
			g[3], g[4] = byte(rng.Intn(2)), byte(rng.Intn(5))
		default:
			g[5+rng.Intn(6)] ^= byte(1 << rng.Intn(8))
		}

		return g
	case "hsfrag": // cleartext handshake fragments with inconsistent headers
		typ := []byte{1, 2, 3, 4, 8, 11, 12, 13, 14, 15, 16, 20, 24, 99}[rng.Intn(14)]
		length := []int{0, 1, 3, 64, 1 << 14, 1<<24 - 1}[rng.Intn(6)]
		seq := []int{0, nextSeq, nextSeq + 1, nextSeq + 7, 65535}[rng.Intn(5)]
		flen := []int{0, 1, 3, 64}[rng.Intn(4)]
		off := []int{0, 1, length, 1<<24 - 1}[rng.Intn(4)]
		body := rnd(flen)
		if rng.Intn(4) == 0 && flen > 0 {
			body = body[:flen-1] // fragment length field larger than the data
		}

		return c08Plain(22, 0, uint64(1000+k), c08HS(typ, length, seq&0xffff, off, flen, body))
	case "hs-nextseq": // a complete, empty cleartext handshake message carrying exactly the next expected message_seq
		typ := []byte{1, 2, 4, 8, 11, 13, 14, 15, 16, 20, 24, 99}[k%12]

		return c08Plain(22, 0, uint64(2000+k), c08HS(typ, 0, nextSeq&0xffff, 0, 0, nil))
	case "plain-benign": // cleartext records that tell the endpoint nothing (warning alerts other than close_notify, alerts and
		// ChangeCipherSpec / ACK bodies that do not decode), with small, window-sized and huge record sequence numbers: an
		// unauthenticated record must neither abort the association nor move the anti-replay window of epoch 0
		seqs := []uint64{uint64(k), uint64(60 + k), uint64(3000 + k), 1<<40 + uint64(k), 1<<48 - 1 - uint64(k)}
		seq := seqs[rng.Intn(len(seqs))]
		switch k % 3 {
		case 0:
			bodies := [][]byte{{1, 90}, {1, 100}, {2}, {}, {1, 90, 0}, {1}, {1, 41}}

			return c08Plain(21, 0, seq, bodies[rng.Intn(len(bodies))])
		case 1:
			bodies := [][]byte{{2}, {}, {1, 1}, {0}}

			return c08Plain(20, 0, seq, bodies[rng.Intn(len(bodies))])
		default:
			return c08Plain(26, 0, seq, [][]byte{{0}, {}, {0, 16, 1, 2}}[rng.Intn(3)])
		}
	case "plain-established": // unprotected records thrown at an ESTABLISHED endpoint: the peer protects everything by now, so
		// none of them can be the peer's - a fatal alert, a close_notify, application data, an ACK, a ChangeCipherSpec
		// labelled with the current epoch (the cipher suites hand ChangeCipherSpec through unauthenticated)
		seq := []uint64{uint64(k), uint64(3000 + k), 1<<48 - 1 - uint64(k)}[rng.Intn(3)]
		switch k % 5 {
		case 0:
			return c08Plain(21, 0, seq, [][]byte{{2, 40}, {2, 10}, {2, 80}}[rng.Intn(3)])
		case 1:
			return c08Plain(21, 0, seq, []byte{1, 0})
		case 2:
			return c08Plain(23, 0, seq, rnd(1+rng.Intn(40)))
		case 3:
			return c08Plain(26, 0, seq, []byte{0, 16, 0, 0, 0, 0, 0, 0, 0, 1, 0, 0, 0, 0, 0, 0, 0, 1})
		default:
			return c08Plain(20, uint16(remoteEpoch), seq, []byte{1})
		}
	case "plain-alert":
		bodies := [][]byte{{1, 0}, {2, 40}, {2, 10}, {1, 90}, {2}, {}, {2, 0, 0}}

		return c08Plain(21, 0, uint64(3000+k), bodies[k%len(bodies)])
	case "plain-ccs":
		bodies := [][]byte{{1}, {2}, {}, {1, 1}}

		return c08Plain(20, uint16(k%2), uint64(4000+k), bodies[k%len(bodies)])
	case "plain-app":
		return c08Plain(23, 0, uint64(5000+k), rnd(1+rng.Intn(64)))
	case "plain-ack":
		return c08Plain(26, 0, uint64(6000+k), [][]byte{{0, 0}, {0, 16, 0, 0, 0, 0, 0, 0, 0, 0, 0, 0, 0, 0, 0, 0, 0, 1}, {0}, {}}[k%4])
	case "forged-protected": // right framing for the epoch the target expects, random ciphertext
		lens := []int{0, 1, 7, 8, 15, 16, 17, 24, 31, 32, 33, 48, 64, 1 + rng.Intn(400)}
		body := rnd(lens[k%len(lens)])
		if ver13 {
			ep := remoteEpoch
			if ep < 2 {
				ep = 2
			}
			seq := rng.Intn(1 << 16)
			hdr := []byte{0x2c | byte(ep&3), byte(seq >> 8), byte(seq), byte(len(body) >> 8), byte(len(body))}

			return append(hdr, body...)
		}
		ep := remoteEpoch
		if ep == 0 {
			ep = 1
		}

		// (content type 20 too: the record protection hands a ChangeCipherSpec through without authenticating it, whatever
		// its epoch - the reader must not act on what it then finds)
		return c08Plain([]byte{23, 22, 21, 25, 26, 20}[k%6], ep, uint64(rng.Int63n(1<<20)), body)
	case "future-epoch": // records one or more epochs ahead (queued without authentication, bounded)
		return c08Plain([]byte{23, 22, 21}[rng.Intn(3)], remoteEpoch+1+uint16(rng.Intn(2)), uint64(k), rnd(8+rng.Intn(40)))
	case "bitflip-protected":
		g := genuine()
		if len(g) < 14 {
			return nil
		}
		pos := rng.Intn(len(g))
		if !ver13 && pos < 13 && (pos == 3 || pos == 4) {
			pos = 13 // leave the epoch field alone (epoch 0 = cleartext, another class)
		}
		g[pos] ^= byte(1 << rng.Intn(8))

		return g
	case "replay":
		return genuine()
	case "auth-malformed": // correctly protected by the genuine peer, malformed inside
		type mc struct {
			t byte
			b []byte
		}
		table := []mc{{22, nil}, {22, []byte{1}}, {22, []byte{1, 0, 0}}, {22, c08HS(1, 1<<24-1, nextSeq&0xffff, 0, 1<<24-1, nil)},
			{21, nil}, {21, []byte{1}}, {21, []byte{2, 0, 0}}, {21, []byte{3, 3}},
			{20, nil}, {20, []byte{2}}, {20, []byte{1, 1}}, {23, nil}, {26, []byte{0}}, {26, []byte{0, 5, 1}},
			{27, nil}, {27, []byte{9}}, {99, []byte{1, 2, 3}}, {0, []byte{0}}, {24, []byte{1, 2}}}
		for _, typ := range []byte{1, 2, 4, 8, 11, 12, 13, 14, 15, 16, 20, 24} {
			for _, n := range []int{0, 1, 2, 3, 5, 40} {
				table = append(table, mc{22, c08HS(typ, n, nextSeq&0xffff, 0, n, rnd(n))})
			}
		}
		m := table[k%len(table)]
		raw, err := c08Seal(sender.conn, m.t, m.b)
		if err != nil {
			return nil
		}

		return raw
	case "cbc-padding":
		mac, key := 20, 32
		if cs.Scen.Suite == "TLS_ECDHE_PSK_WITH_AES_128_CBC_SHA256" || cs.Scen.Suite == "TLS_PSK_WITH_AES_128_CBC_SHA256" {
			mac, key = 32, 16
		}
		blocks := []int{2, 3, 4, 16}[k%4]
		pad := []byte{byte(16*blocks - 1), 15, 31, 255, byte(16*blocks - mac), byte(16*blocks - mac - 1)}[(k/4)%6]

		return c08CBCPadding(sender.conn, mac, key, pad, blocks)
	}

	return nil
}

func runC08Case(idx int, cs *c08Case) (res c08Result) { //nolint:cyclop,gocognit
	res = c08Result{Case: idx, Name: cs.Name}
	r := newLabRun()
	scen := cs.Scen
	scen.IntervalMS = 0
	if err := r.setup(&scen, &scenStores{}); err != nil {
		res.Lab = err.Error()

		return res
	}
	defer r.closeAll()
	ctx, cancel := context.WithTimeout(context.Background(), 20*time.Second)
	defer cancel()
	r.s.startHandshake(ctx)
	r.c.startHandshake(ctx)
	if !r.waitQuiet(2 * time.Second) {
		res.Lab = "not quiescent after start"

		return res
	}
	var dmu sync.Mutex
	got := map[string][]string{}
	rerrs := map[string][]string{}
	draining := map[string]bool{}
	startDrains := func() {
		for _, p := range []*labPeer{r.c, r.s} {
			if draining[p.name] || !p.hsReturned() || p.hsErr != nil {
				continue
			}
			draining[p.name] = true
			go func(p *labPeer) {
				buf := make([]byte, 16384)
				for {
					n, err := p.conn.Read(buf)
					dmu.Lock()
					if err != nil {
						if len(rerrs[p.name]) < 1000 {
							rerrs[p.name] = append(rerrs[p.name], err.Error())
						}
						dmu.Unlock()
						if p.conn.isConnectionClosed() || len(rerrs[p.name]) >= 1000 {
							return
						}

						continue
					}
					got[p.name] = append(got[p.name], string(buf[:n]))
					dmu.Unlock()
				}
			}(p)
		}
	}
	next := map[string]int{"c2s": 0, "s2c": 0}
	pump := func() (bool, bool) {
		defer startDrains()
		moved := false
		for _, dir := range []string{"c2s", "s2c"} {
			n := r.net.Emitted(dir)
			for k := next[dir]; k < n; k++ {
				r.net.Deliver(dir, k)
				moved = true
			}
			next[dir] = n
		}

		return moved, r.waitQuiet(3 * time.Second)
	}
	both := func() bool {
		return r.c.hsReturned() && r.s.hsReturned() && r.c.hsErr == nil && r.s.hsErr == nil
	}
	for i := 0; i < cs.Pumps; i++ {
		if both() {
			break
		}
		if _, ok := pump(); !ok {
			res.Lab = "not quiescent before the injection"

			return res
		}
	}
	target, sender := r.c, r.s
	if cs.Target == "s" {
		target, sender = r.s, r.c
	}
	res.EstBefore = target.hsReturned() && target.hsErr == nil
	if (cs.Class == "auth-malformed" || cs.Class == "cbc-padding" || cs.Class == "bitflip-protected" || cs.Class == "plain-established") && !both() {
		res.Lab = "class needs an established session"

		return res
	}
	if cs.Class == "bitflip-protected" || cs.Class == "replay" {
		// make sure there are protected datagrams towards the target to work with (delivered genuinely first)
		for i := 0; i < 3 && both(); i++ {
			_, _ = sender.conn.Write([]byte(fmt.Sprintf("c08-genuine-%d", i)))
		}
		pump()
	}
	rng := rand.New(rand.NewSource(cs.Seed)) //nolint:gosec
	dirOut := dirOf(target.name)
	beforeN := r.net.Emitted(dirOut)
	// hostile input; datagrams the target emits meanwhile stay undelivered
	for k := 0; k < cs.Count; k++ {
		d := c08Make(cs, r, rng, k)
		if d == nil {
			continue
		}
		if res.Sample == "" {
			res.Sample = fmt.Sprintf("%x", d[:min(len(d), 48)])
		}
		if os.Getenv("VERIF_DEBUG") != "" {
			fmt.Printf("inject to %s: %x\n", target.name, d)
		}
		r.net.Inject(target.name, labAddr(sender.name), d)
		res.Injected++
		if k%16 == 15 {
			r.waitQuiet(2 * time.Second)
		}
		target.conn.lock.Lock()
		if q := len(target.conn.encryptedPackets); q > res.QueueMax {
			res.QueueMax = q
		}
		target.conn.lock.Unlock()
	}
	res.Quiet = r.waitQuiet(4 * time.Second)
	target.conn.lock.Lock()
	if q := len(target.conn.encryptedPackets); q > res.QueueMax {
		res.QueueMax = q
	}
	target.conn.lock.Unlock()
	afterN := r.net.Emitted(dirOut)
	res.Emitted = afterN - beforeN
	for k := beforeN; k < afterN; k++ {
		res.EmittedB += len(r.net.Data(dirOut, k))
	}
	res.TargetAlive = !(target.hsReturned() && target.hsErr != nil) && !target.conn.isConnectionClosed()
	if target.hsReturned() && target.hsErr != nil {
		res.TargetErr = target.hsErr.Error()
	}
	if !res.Quiet {
		return res
	}
	// the genuine peer carries on; stalled handshakes get their retransmission timers
	for round := 0; round < 30 && !both(); round++ {
		moved, ok := pump()
		if !ok {
			break
		}
		if !moved {
			fired := false
			for _, p := range []*labPeer{r.c, r.s} {
				if !p.hsReturned() && p.fire() {
					fired = true
				}
			}
			if !fired || !r.waitQuiet(3*time.Second) {
				break
			}
		}
	}
	res.Completed = both()
	if res.Completed && !r.c.conn.isConnectionClosed() && !r.s.conn.isConnectionClosed() {
		r.net.mu.Lock()
		r.net.auto = func(*labDgram) labAction { return labAction{deliver: 1} }
		r.net.mu.Unlock()
		pump()
		ok := true
		for _, pr := range [][2]*labPeer{{r.c, r.s}, {r.s, r.c}} {
			from, to := pr[0], pr[1]
			msg := "c08-ping-from-" + from.name
			_ = from.conn.SetWriteDeadline(time.Now().Add(time.Second))
			if _, err := from.conn.Write([]byte(msg)); err != nil {
				ok = false

				continue
			}
			seen := false
			for tries := 0; tries < 2000 && !seen; tries++ {
				dmu.Lock()
				for _, g := range got[to.name] {
					seen = seen || g == msg
				}
				dmu.Unlock()
				if !seen {
					time.Sleep(500 * time.Microsecond)
				}
			}
			ok = ok && seen
		}
		dmu.Lock()
		for _, side := range []string{"c", "s"} {
			for _, e := range rerrs[side] {
				if len(res.ReadErrs) < 4 {
					res.ReadErrs = append(res.ReadErrs, side+": "+e)
				}
			}
		}
		dmu.Unlock()
		res.PingPong = ok
	}

	return res
}

func TestVerifHostile(t *testing.T) {
	in, out, journal := os.Getenv("VERIF_IN"), os.Getenv("VERIF_OUT"), os.Getenv("VERIF_JOURNAL")
	fi, err := os.Open(in)
	if err != nil {
		t.Fatal(err)
	}
	defer fi.Close()
	var cases []c08Case
	scan := bufio.NewScanner(fi)
	scan.Buffer(make([]byte, 1<<20), 1<<26)
	for scan.Scan() {
		var c c08Case
		if err := json.Unmarshal(scan.Bytes(), &c); err != nil {
			t.Fatal(err)
		}
		cases = append(cases, c)
	}
	getPKI()
	var jmu sync.Mutex
	var jf *os.File
	if journal != "" {
		jf, _ = os.Create(journal)
		defer jf.Close()
	}
	note := func(s string, i int) {
		if jf != nil {
			jmu.Lock()
			fmt.Fprintf(jf, "%s %d\n", s, i)
			jmu.Unlock()
		}
	}
	fo, err := os.Create(out)
	if err != nil {
		t.Fatal(err)
	}
	defer fo.Close()
	var omu sync.Mutex
	enc := json.NewEncoder(fo)
	var wg sync.WaitGroup
	par := runtime.GOMAXPROCS(0)
	if os.Getenv("VERIF_SERIAL") != "" {
		par = 1
	}
	sem := make(chan struct{}, par)
	for i := range cases {
		wg.Add(1)
		sem <- struct{}{}
		go func(i int) {
			defer wg.Done()
			defer func() { <-sem }()
			note("start", i)
			r := runC08Case(i, &cases[i])
			if r.Lab != "" && r.Lab != "class needs an established session" {
				r = runC08Case(i, &cases[i])
			}
			note("done", i)
			omu.Lock()
			_ = enc.Encode(r)
			omu.Unlock()
		}(i)
	}
	wg.Wait()
}
