// C01 (handshake agreement): after both HandshakeContext calls returned nil, record per side every output the
// property names - version, cipher suite, ALPN, SRTP profile, both connection IDs, the peer chain as seen and the
// chain as presented (taken from the presenter's own handshake transcript), exported keying material for three
// labels and two lengths (digests) - then move one payload in each direction.  The records are compared by TLC
// (spec/TraceAgreement.tla) and by the driver.

//go:build verif

package dtls

import (
	"crypto/sha256"
	"encoding/hex"
	"fmt"
	"os"
	"time"

	dtlsflight "github.com/pion/dtls/v3/internal/flight"
	dtlsstate "github.com/pion/dtls/v3/internal/state"
	"github.com/pion/dtls/v3/pkg/protocol/handshake"
)

type c01Est struct {
	Side    string   `json:"side"`
	Ver     string   `json:"ver"`
	Suite   int      `json:"suite"`
	ALPN    string   `json:"alpn"`
	SRTP    int      `json:"srtp"`
	LCID    string   `json:"lcid"`
	RCID    string   `json:"rcid"`
	Peer    string   `json:"peer"`    // digest of ConnectionState().PeerCertificates
	Present string   `json:"present"` // digest of the certificate_list this side put into its own Certificate message
	EKM     []string `json:"ekm"`
	EKMErr  string   `json:"ekmErr,omitempty"`
	EMS     bool     `json:"ems"`     // outside the projection (logged)
	SessID  string   `json:"sessid"`  // outside the projection (logged)
	Resumed bool     `json:"resumed"` // outside the projection (logged)
}

type c01Session struct {
	Est  []c01Est `json:"est"`
	C2S  bool     `json:"c2s"`
	S2C  bool     `json:"s2c"`
	Note string   `json:"note,omitempty"`
}

func c01Wanted() bool { return os.Getenv("VERIF_ESTABLISHED") != "" }

// c01PresentedChain extracts the certificate_list of the Certificate message the endpoint itself sent.
func c01PresentedChain(p *labPeer, ver string) [][]byte {
	isClient := p.name == "c"
	epoch := uint16(0)
	if ver == "13" {
		epoch = 2
	}
	var body []byte
	for _, it := range p.conn.handshakeCache.Pull(dtlsflight.HandshakeCachePullRule{Typ: handshake.TypeCertificate, Epoch: epoch, IsClient: isClient}) {
		if it != nil && len(it.Data) >= 12 {
			body = it.Data[12:]
		}
	}
	if body == nil {
		return nil
	}
	if ver == "13" {
		if len(body) < 1 || len(body) < 1+int(body[0]) {
			return nil
		}
		body = body[1+int(body[0]):]
	}
	if len(body) < 3 {
		return nil
	}
	total := int(body[0])<<16 | int(body[1])<<8 | int(body[2])
	body = body[3:]
	if total > len(body) {
		return nil
	}
	body = body[:total]
	var chain [][]byte
	for len(body) >= 3 {
		l := int(body[0])<<16 | int(body[1])<<8 | int(body[2])
		if 3+l > len(body) {
			break
		}
		chain = append(chain, body[3:3+l])
		body = body[3+l:]
		if ver == "13" {
			if len(body) < 2 {
				break
			}
			el := int(body[0])<<8 | int(body[1])
			if 2+el > len(body) {
				break
			}
			body = body[2+el:]
		}
	}

	return chain
}

func c01Side(p *labPeer) (c01Est, bool) {
	e := c01Est{Side: p.name}
	st, ok := p.conn.ConnectionState()
	if !ok {
		return e, false
	}
	e.Ver = c11VerString(st.version)
	e.Suite = int(st.CipherSuiteID)
	e.ALPN = st.NegotiatedProtocol
	if prof, ok := p.conn.SelectedSRTPProtectionProfile(); ok {
		e.SRTP = int(prof)
	}
	common := dtlsstate.CommonState(p.conn.state)
	neg := common.LocalCIDOffered && common.RemoteCIDOffered
	e.LCID = c11CID(st.localConnectionID, neg)
	e.RCID = c11CID(st.remoteConnectionID, neg)
	e.Peer = c11Digest(st.PeerCertificates)
	e.Present = c11Digest(c01PresentedChain(p, e.Ver))
	e.SessID = hex.EncodeToString(st.SessionID)
	if s, ok := p.conn.state.(*dtlsstate.State12); ok {
		e.EMS = s.ExtendedMasterSecret
	}
	for _, l := range c11EKMLabels {
		for _, n := range []int{16, 60} {
			km, err := st.ExportKeyingMaterial(l, nil, n)
			if err != nil {
				e.EKMErr = err.Error()
				e.EKM = append(e.EKM, fmt.Sprintf("%s/%d:error", l, n))

				continue
			}
			d := sha256.Sum256(km)
			e.EKM = append(e.EKM, fmt.Sprintf("%s/%d:%d:%s", l, n, len(km), hex.EncodeToString(d[:8])))
		}
	}

	return e, true
}

// c01Collect is called once both handshakes returned nil and the network is reliable.
func c01Collect(r *labRun) *c01Session {
	s := &c01Session{}
	for _, p := range []*labPeer{r.c, r.s} {
		e, ok := c01Side(p)
		if !ok {
			s.Note = "ConnectionState unavailable on " + p.name

			return s
		}
		s.Est = append(s.Est, e)
	}
	s.C2S = c01Move(r.c, r.s)
	s.S2C = c01Move(r.s, r.c)

	return s
}

// c01Move writes one payload on from and reads it on to.
func c01Move(from, to *labPeer) bool {
	msg := []byte("c01-payload-from-" + from.name)
	if _, err := from.conn.Write(msg); err != nil {
		return false
	}
	_ = to.conn.SetReadDeadline(time.Now().Add(2 * time.Second))
	buf := make([]byte, 256)
	n, err := to.conn.Read(buf)

	return err == nil && string(buf[:n]) == string(msg)
}
