// C11, client side of the signature-scheme clause (spec/ClientSig.tla): the scheme of the client's CertificateVerify
// must be one BOTH endpoints are configured with; without a common scheme that fits the client's key the handshake fails.

//go:build verif

package dtls

import (
	"crypto/tls"
	"encoding/json"
	"fmt"
	"os"
	"testing"
	"time"
)

type c11CSCase struct {
	Ver   string `json:"ver"`
	CSigs []int  `json:"csigs"` // IANA SignatureScheme code points; empty = library default
	SSigs []int  `json:"ssigs"`
}

type c11CSResult struct {
	Case   int    `json:"case"`
	Lab    string `json:"lab,omitempty"`
	CErr   string `json:"cerr,omitempty"`
	SErr   string `json:"serr,omitempty"`
	Both   bool   `json:"both"`   // both sides reported success
	Scheme int    `json:"scheme"` // code point of the client's CertificateVerify (0 = none seen)
}

func runC11ClientSig(idx int, cs *c11CSCase) (res c11CSResult) {
	res = c11CSResult{Case: idx}
	p := getPKI()
	sc := scenCfg{Ver: cs.Ver, ClientAuth: 2, ClientCert: true, CurvesC: []int{29}, CurvesS: []int{29}, CIDc: -1, CIDs: -1}
	co, so := sc.buildOptions(&scenStores{})
	co = append(co, WithCertificates(p.client))
	if len(cs.CSigs) > 0 {
		co = append(co, WithSignatureSchemes(c11Sigs(cs.CSigs)...))
	}
	if len(cs.SSigs) > 0 {
		so = append(so, WithSignatureSchemes(c11Sigs(cs.SSigs)...))
	}
	r := newLabRun()
	if err := r.setupWith(co, so); err != nil {
		// a configuration the library refuses to construct is outside the domain
		res.Lab = "config: " + err.Error()

		return res
	}
	defer r.closeAll()
	ce, se := r.handshakeLossless(5 * time.Second)
	res.CErr, res.SErr, res.Both = errString(ce), errString(se), ce == nil && se == nil
	for _, e := range r.rec.snapshot() {
		if e["ev"] == "rec.seal" && e["side"] == "c" {
			if h, _ := e["head"].(string); len(h) > 14 && h[0] == 15 {
				res.Scheme = int(h[12])<<8 | int(h[13])
			}
		}
		if e["ev"] == "dgram.out" && e["from"] == "c" {
			dir, _ := e["dir"].(string)
			i, _ := e["idx"].(int)
			d := r.net.Data(dir, i)
			off := 0
			for off+13 <= len(d) && d[off]&0xe0 != 0x20 {
				l := int(d[off+11])<<8 | int(d[off+12])
				if d[off] == 22 && d[off+3] == 0 && d[off+4] == 0 && l > 14 && off+13+14 <= len(d) && d[off+13] == 15 &&
					d[off+13+6] == 0 && d[off+13+7] == 0 && d[off+13+8] == 0 { // first fragment of CertificateVerify
					res.Scheme = int(d[off+13+12])<<8 | int(d[off+13+13])
				}
				off += 13 + l
			}
		}
	}

	return res
}

func TestVerifC11ClientSig(t *testing.T) {
	var cases []c11CSCase
	raw, err := os.ReadFile(os.Getenv("VERIF_IN"))
	if err != nil {
		t.Fatal(err)
	}
	if err := json.Unmarshal(raw, &cases); err != nil {
		t.Fatal(err)
	}
	getPKI()
	_ = tls.ECDSAWithP256AndSHA256
	out, err := os.Create(os.Getenv("VERIF_OUT"))
	if err != nil {
		t.Fatal(err)
	}
	defer out.Close()
	enc := json.NewEncoder(out)
	for i := range cases {
		if err := enc.Encode(runC11ClientSig(i, &cases[i])); err != nil {
			t.Fatal(err)
		}
	}
	fmt.Println("c11 client signature cases:", len(cases))
}
