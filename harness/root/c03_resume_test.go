// C03 through a HISTORY of connections (spec/Resumption.tla, entries of the server's session store carry whether the
// handshake that created them satisfied the server's client-authentication policy): a client that never presents the
// credential the policy requires runs a full handshake up to its ClientKeyExchange and stalls; if the server has
// stored the session by then, the same client - which knows that master secret, it took part in the key exchange -
// resumes it on a second connection, and the abbreviated handshake has no client-authentication step.

//go:build verif

package dtls

import (
	"context"
	"encoding/json"
	"fmt"
	"os"
	"testing"
	"time"

	dtlsstate "github.com/pion/dtls/v3/internal/state"
)

type c03ResumeCase struct {
	Name       string `json:"name"`
	ClientAuth int    `json:"clientAuth"`
	ClientCert bool   `json:"clientCert"` // control: the client owns the required credential
	Stall      string `json:"stall"`      // "beforeCCS": first connection delivers everything before the client's ChangeCipherSpec
	//                                        "complete": first connection runs to its end (accepted or refused)
	HelloVerify bool   `json:"helloVerify"`
	EMS         int    `json:"ems"`
	Dev         string `json:"dev"` // deviation of the first connection's client: "omitCert" leaves the Certificate message out altogether
	//                                 (an honest client without a certificate answers a CertificateRequest with an EMPTY Certificate
	//                                 message), "emptyCert" sends the empty message although it owns a certificate
}

type c03ResumeResult struct {
	Case        int    `json:"case"`
	Name        string `json:"name"`
	Lab         string `json:"lab,omitempty"`
	FirstServer string `json:"firstServer"` // outcome of the server's first HandshakeContext: "ok" | "pending" | error text
	Applied     bool   `json:"applied"`     // the deviation was really applied to the client's flight
	Stored      bool   `json:"stored"`      // the server's store holds the session of the first connection when the second starts
	Offered     bool   `json:"offered"`     // the second ClientHello offered that session id
	CErr        string `json:"cerr,omitempty"`
	SErr        string `json:"serr,omitempty"`
	SEst        bool   `json:"sest"`
	Resumed     bool   `json:"resumed"` // the second connection was an abbreviated handshake (server side)
	PeerCerts   int    `json:"peerCerts"`
	Delivered   bool   `json:"delivered"` // application data of the client reached the server's Read
}

// c03CutAtCCS returns the records of a datagram that precede its first ChangeCipherSpec record (nil if there is none).
func c03CutAtCCS(d []byte) []byte {
	off := 0
	for off+13 <= len(d) {
		l := int(d[off+11])<<8 | int(d[off+12])
		if d[off] == 20 {
			return d[:off]
		}
		off += 13 + l
	}

	return nil
}

func runC03Resume(idx int, cs *c03ResumeCase) (res c03ResumeResult) { //nolint:cyclop
	res = c03ResumeResult{Case: idx, Name: cs.Name, FirstServer: "pending"}
	stores := &scenStores{}
	scen := scenCfg{Ver: "12", Stores: true, ClientAuth: cs.ClientAuth, ClientCert: cs.ClientCert, Verify: true, HelloVerify: cs.HelloVerify,
		EMSc: cs.EMS, EMSs: cs.EMS, CIDc: -1, CIDs: -1}
	r1 := newLabRun()
	if err := r1.setup(&scen, stores); err != nil {
		res.Lab = err.Error()

		return res
	}
	defer r1.closeAll()
	if cs.Dev != "" {
		r1.c.filter = c03Filter(&c03Case{Ver: 12, Honest: "s", Dev: cs.Dev}, r1.c, nil, nil, &res.Applied)
	}
	ctx1, cancel1 := context.WithTimeout(context.Background(), 8*time.Second)
	defer cancel1()
	r1.s.startHandshake(ctx1)
	r1.c.startHandshake(ctx1)
	next := map[string]int{"c2s": 0, "s2c": 0}
	stalled := false
	for round := 0; round < 40 && !stalled; round++ {
		if !r1.waitQuiet(2 * time.Second) {
			res.Lab = "first connection not quiescent"

			return res
		}
		moved := false
		for _, dir := range []string{"c2s", "s2c"} {
			for next[dir] < r1.net.Emitted(dir) {
				k := next[dir]
				next[dir]++
				moved = true
				data := r1.net.Data(dir, k)
				if cs.Stall == "beforeCCS" && dir == "c2s" {
					if pre := c03CutAtCCS(data); pre != nil {
						r1.net.Drop(dir, k)
						if len(pre) > 0 {
							r1.net.Inject("s", labAddr("c"), append([]byte(nil), pre...))
						}
						stalled = true

						break
					}
				}
				r1.net.Deliver(dir, k)
			}
		}
		if !moved {
			break
		}
	}
	r1.waitQuiet(2 * time.Second)
	select {
	case <-r1.s.hsDone:
		res.FirstServer = "ok"
		if r1.s.hsErr != nil {
			res.FirstServer = r1.s.hsErr.Error()
		}
	default:
	}
	// what the client of the first connection knows: the session id the server chose and the master secret
	st1, ok := r1.c.conn.state.(*dtlsstate.State12)
	if !ok || len(st1.SessionID) == 0 || len(st1.MasterSecret) == 0 {
		res.Lab = "the first connection's client holds no session id / master secret"

		return res
	}
	id := append([]byte(nil), st1.SessionID...)
	secret := append([]byte(nil), st1.MasterSecret...)
	res.Stored = stores.s.has(string(id))
	if os.Getenv("VERIF_DEBUG") != "" {
		if ss, ok := r1.s.conn.state.(*dtlsstate.State12); ok {
			fmt.Printf("   server state sid=%x ms=%d hasStore=%v\n", ss.SessionID, len(ss.MasterSecret), r1.s.conn.handshakeConfig.HasSessionStore)
		}
		fmt.Printf("%s: id=%x sets=%x gets=%x dels=%x csets=%x\n", cs.Name, id, stores.s.sets, stores.s.gets, stores.s.dels, stores.c.sets)
	}
	// second connection: same client (no further credential), its store holds what it knows
	stores2 := &scenStores{c: newLabStore(), s: stores.s}
	_ = stores2.c.Set([]byte("s_"+labServerName), Session{ID: id, Secret: secret})
	r2 := newLabRun()
	if err := r2.setup(&scen, stores2); err != nil {
		res.Lab = err.Error()

		return res
	}
	defer r2.closeAll()
	ce, se := r2.handshakeLossless(6 * time.Second)
	res.CErr, res.SErr = errString(ce), errString(se)
	res.SEst = se == nil
	for _, e := range r2.rec.snapshot() {
		if e["ev"] == "dgram.out" && e["from"] == "c" {
			dir, _ := e["dir"].(string)
			i, _ := e["idx"].(int)
			d := r2.net.Data(dir, i)
			// ClientHello: record header 13, handshake header 12, version 2, random 32, session id length
			if len(d) > 13+12+34 && d[0] == 22 && d[13] == 1 && int(d[13+12+34]) == len(id) {
				res.Offered = true
			}
		}
	}
	if res.SEst {
		if st2, ok := r2.s.conn.state.(*dtlsstate.State12); ok {
			res.PeerCerts = len(st2.PeerCertificates)
			res.Resumed = string(st2.SessionID) == string(id)
		}
		if ce == nil {
			msg := []byte("c03-resume-probe")
			_, _ = r2.c.conn.Write(msg)
			buf := make([]byte, 64)
			_ = r2.s.conn.SetReadDeadline(time.Now().Add(2 * time.Second))
			if n, err := r2.s.conn.Read(buf); err == nil && string(buf[:n]) == string(msg) {
				res.Delivered = true
			}
		}
	}

	return res
}

func TestVerifC03Resume(t *testing.T) {
	var cases []c03ResumeCase
	raw, err := os.ReadFile(os.Getenv("VERIF_IN"))
	if err != nil {
		t.Fatal(err)
	}
	if err := json.Unmarshal(raw, &cases); err != nil {
		t.Fatal(err)
	}
	getPKI()
	out, err := os.Create(os.Getenv("VERIF_OUT"))
	if err != nil {
		t.Fatal(err)
	}
	defer out.Close()
	enc := json.NewEncoder(out)
	for i := range cases {
		res := runC03Resume(i, &cases[i])
		if err := enc.Encode(res); err != nil {
			t.Fatal(err)
		}
	}
	fmt.Println("c03 resume cases:", len(cases))
}
