// C13: every (first, second) ClientHello pair class against a real server with hello verification:
// everything the server emits is classified; nothing but cookie requests may appear until the cookie
// has been echoed by an otherwise identical ClientHello.

//go:build verif

package dtls

import (
	"bufio"
	"bytes"
	"context"
	"encoding/json"
	"fmt"
	"os"
	"runtime"
	"sync"
	"testing"
	"time"

	"github.com/pion/dtls/v3/pkg/protocol/extension"
	extension13 "github.com/pion/dtls/v3/pkg/protocol/extension/dtls13"
	"github.com/pion/dtls/v3/pkg/protocol/handshake"
)

type cookieCase struct {
	Scen  scenCfg `json:"scen"`
	Name  string  `json:"name"`
	Mut   string  `json:"mut"`
	Reps  int     `json:"reps"`
	Timer bool    `json:"timer"`
}

type cookieResult struct {
	Case       int      `json:"case"`
	Name       string   `json:"name"`
	Emitted    []string `json:"emitted"` // classification of everything the server emitted before the genuine second hello
	After      []string `json:"after"`   // ... and after the genuine one was finally delivered
	Violations []string `json:"violations,omitempty"`
	Info       []string `json:"info,omitempty"`
	Lab        string   `json:"lab,omitempty"`
	Applied    bool     `json:"applied"`
}

var hrrRandom = handshake.HelloRetryRequestRandom() //nolint:gochecknoglobals

// classifyServerDatagram names every record of a server datagram.
func classifyServerDatagram(d []byte) []string {
	var out []string
	off := 0
	for off < len(d) {
		b := d[off]
		if b&0xe0 == 0x20 {
			out = append(out, "protected13")

			break
		}
		if off+13 > len(d) {
			out = append(out, "garbage")

			break
		}
		l := int(d[off+11])<<8 | int(d[off+12])
		epoch := int(d[off+3])<<8 | int(d[off+4])
		body := d[off+13 : min(off+13+l, len(d))]
		switch {
		case b == 21:
			out = append(out, fmt.Sprintf("alert(%v)", body))
		case b == 20:
			out = append(out, "ccs")
		case b == 22 && epoch == 0 && len(body) >= 12:
			switch body[0] {
			case 3:
				out = append(out, "HelloVerifyRequest")
			case 2:
				if len(body) >= 12+2+32 && bytes.Equal(body[14:46], hrrRandom[:]) {
					out = append(out, "HelloRetryRequest")
				} else {
					out = append(out, "ServerHello")
				}
			default:
				out = append(out, fmt.Sprintf("handshake(%d)", body[0]))
			}
		default:
			out = append(out, fmt.Sprintf("record(type %d epoch %d)", b, epoch))
		}
		off += 13 + l
	}

	return out
}

// rebuildHello re-encodes a single-record ClientHello datagram after edit() changed it.
func rebuildHello(dgram []byte, recSeq uint64, edit func(*handshake.MessageClientHello) bool) ([]byte, bool) {
	if len(dgram) < 25 || dgram[0] != 22 {
		return nil, false
	}
	l := int(dgram[11])<<8 | int(dgram[12])
	if 13+l > len(dgram) {
		return nil, false
	}
	hs := &handshake.Handshake{}
	if err := hs.Unmarshal(dgram[13 : 13+l]); err != nil {
		return nil, false
	}
	ch, ok := hs.Message.(*handshake.MessageClientHello)
	if !ok {
		return nil, false
	}
	if !edit(ch) {
		return nil, false
	}
	raw, err := hs.Marshal()
	if err != nil {
		return nil, false
	}
	out := append([]byte(nil), dgram[:13]...)
	for b := 0; b < 6; b++ {
		out[10-b] = byte(recSeq >> (8 * b)) //nolint:gosec
	}
	out[11], out[12] = byte(len(raw)>>8), byte(len(raw))

	return append(out, raw...), true
}

func mutateSecondHello(mut string, ch1, ch2 []byte, ver string, recSeq uint64) ([]byte, bool) { //nolint:cyclop,gocognit
	flipCookie13 := func(ch *handshake.MessageClientHello, f func([]byte) []byte) bool {
		for i, e := range ch.Extensions {
			if c, ok := e.(*extension13.Cookie); ok {
				ch.Extensions[i] = &extension13.Cookie{Cookie: f(append([]byte(nil), c.Cookie...))}

				return true
			}
		}

		return false
	}
	cookieEdit := func(f func([]byte) []byte) func(*handshake.MessageClientHello) bool {
		return func(ch *handshake.MessageClientHello) bool {
			if ver == "13" {
				return flipCookie13(ch, f)
			}
			if len(ch.Cookie) == 0 {
				return false
			}
			ch.Cookie = f(append([]byte(nil), ch.Cookie...))

			return true
		}
	}
	plain := func(ctype byte, body []byte) ([]byte, bool) {
		rec := []byte{ctype, 0xfe, 0xfd, 0, 0, 0, 0, 0, 0, 0, 0, byte(len(body) >> 8), byte(len(body))}
		for b := 0; b < 6; b++ {
			rec[10-b] = byte(recSeq >> (8 * b)) //nolint:gosec
		}

		return append(rec, body...), true
	}
	switch mut {
	// stimuli that are not a ClientHello at all: a cookie request must never answer them
	case "stim-emptyack":
		return plain(26, []byte{0, 0})
	case "stim-ack":
		return plain(26, []byte{0, 16, 0, 0, 0, 0, 0, 0, 0, 0, 0, 0, 0, 0, 0, 0, 0, 1})
	case "stim-ccs":
		return plain(20, []byte{1})
	case "stim-warning-alert":
		return plain(21, []byte{1, 90})
	case "stim-hs-garbage": // a handshake record that is not a ClientHello (unknown type, empty body)
		return plain(22, []byte{99, 0, 0, 0, 0, 7, 0, 0, 0, 0, 0, 0})
	case "stim-serverhello-echo": // the server's own cookie request reflected back at it
		return nil, false
	case "absent": // the first hello again, fresh record number
		return rebuildHello(ch1, recSeq, func(*handshake.MessageClientHello) bool { return true })
	case "genuine":
		return rebuildHello(ch2, recSeq, func(*handshake.MessageClientHello) bool { return true })
	case "wrongcookie":
		return rebuildHello(ch2, recSeq, cookieEdit(func(c []byte) []byte { c[len(c)/2] ^= 0x40; return c }))
	case "lastbit":
		return rebuildHello(ch2, recSeq, cookieEdit(func(c []byte) []byte { c[len(c)-1] ^= 1; return c }))
	case "truncated":
		return rebuildHello(ch2, recSeq, cookieEdit(func(c []byte) []byte { return c[:len(c)-1] }))
	case "extended":
		return rebuildHello(ch2, recSeq, cookieEdit(func(c []byte) []byte { return append(c, 0) }))
	case "stale": // a well-formed cookie this server never issued to us
		return rebuildHello(ch2, recSeq, cookieEdit(func(c []byte) []byte {
			for i := range c {
				c[i] = byte(i*7 + 3)
			}

			return c
		}))
	case "emptycookie":
		if ver == "13" {
			return rebuildHello(ch2, recSeq, func(ch *handshake.MessageClientHello) bool {
				var ext []extension.Value
				found := false
				for _, e := range ch.Extensions {
					if _, ok := e.(*extension13.Cookie); ok {
						found = true

						continue
					}
					ext = append(ext, e)
				}
				ch.Extensions = ext

				return found
			})
		}

		return rebuildHello(ch2, recSeq, func(ch *handshake.MessageClientHello) bool { ch.Cookie = nil; return true })
	case "random":
		return rebuildHello(ch2, recSeq, func(ch *handshake.MessageClientHello) bool { ch.Random.RandomBytes[5] ^= 1; return true })
	case "sessionid":
		return rebuildHello(ch2, recSeq, func(ch *handshake.MessageClientHello) bool {
			if ver == "13" && len(ch.SessionID) > 0 {
				ch.SessionID[0] ^= 1
			} else {
				ch.SessionID = append(ch.SessionID, 7)
			}

			return true
		})
	case "suites-reorder":
		return rebuildHello(ch2, recSeq, func(ch *handshake.MessageClientHello) bool {
			if len(ch.CipherSuiteIDs) < 2 {
				return false
			}
			ch.CipherSuiteIDs[0], ch.CipherSuiteIDs[1] = ch.CipherSuiteIDs[1], ch.CipherSuiteIDs[0]

			return true
		})
	case "suites-drop":
		return rebuildHello(ch2, recSeq, func(ch *handshake.MessageClientHello) bool {
			if len(ch.CipherSuiteIDs) < 2 {
				return false
			}
			ch.CipherSuiteIDs = ch.CipherSuiteIDs[:len(ch.CipherSuiteIDs)-1]

			return true
		})
	case "ext-append": // one more extension behind those of the first ClientHello (an ALPN offer the first one did not carry)
		return rebuildHello(ch2, recSeq, func(ch *handshake.MessageClientHello) bool {
			for _, e := range ch.Extensions {
				if _, has := e.(*extension.ALPNOffer); has {
					return false
				}
			}
			ch.Extensions = append(ch.Extensions, &extension.ALPNOffer{Protocols: []string{"c13-extra"}})

			return true
		})
	case "ext-drop": // strip the last non-cookie, non-key-share extension
		return rebuildHello(ch2, recSeq, func(ch *handshake.MessageClientHello) bool {
			for i := len(ch.Extensions) - 1; i >= 0; i-- {
				switch ch.Extensions[i].(type) {
				case *extension13.Cookie, *extension13.ClientKeyShare, *extension13.OfferedVersions:
					continue
				}
				ch.Extensions = append(ch.Extensions[:i:i], ch.Extensions[i+1:]...)

				return true
			}

			return false
		})
	}

	return nil, false
}

func runCookieCase(idx int, cc *cookieCase) cookieResult { //nolint:cyclop,gocognit
	res := cookieResult{Case: idx, Name: cc.Name}
	r := newLabRun()
	scen := cc.Scen
	scen.IntervalMS = 5000
	if err := r.setup(&scen, &scenStores{}); err != nil {
		res.Lab = err.Error()

		return res
	}
	defer r.closeAll()
	ctx, cancel := context.WithTimeout(context.Background(), 20*time.Second)
	defer cancel()
	r.s.startHandshake(ctx)
	r.c.startHandshake(ctx)
	if !r.waitQuiet(2*time.Second) || r.net.Emitted("c2s") != 1 {
		res.Lab = "no first ClientHello"

		return res
	}
	seen := 0
	collect := func(into *[]string) {
		for ; seen < r.net.Emitted("s2c"); seen++ {
			*into = append(*into, classifyServerDatagram(r.net.Data("s2c", seen))...)
		}
	}
	ch1 := r.net.Data("c2s", 0)
	r.net.Deliver("c2s", 0)
	r.waitQuiet(2 * time.Second)
	collect(&res.Emitted)
	if cc.Timer {
		for k := 0; k < 2; k++ {
			r.s.fire()
			r.waitQuiet(2 * time.Second)
		}
		collect(&res.Emitted)
	}
	if r.net.Emitted("s2c") < 1 {
		res.Lab = "server did not answer the first ClientHello"

		return res
	}
	r.net.Deliver("s2c", 0)
	r.waitQuiet(2 * time.Second)
	if r.net.Emitted("c2s") < 2 {
		res.Lab = "client did not send the second ClientHello"

		return res
	}
	ch2 := r.net.Data("c2s", 1)
	for k := 0; k < cc.Reps; k++ {
		m, ok := mutateSecondHello(cc.Mut, ch1, ch2, scen.Ver, uint64(50+k)) //nolint:gosec
		if !ok {
			res.Info = append(res.Info, "mutation not applicable")

			break
		}
		res.Applied = true
		r.net.Inject("s", labAddr("c"), m)
		r.waitQuiet(2 * time.Second)
		if cc.Timer {
			r.s.fire()
			r.waitQuiet(2 * time.Second)
		}
	}
	collect(&res.Emitted)
	stim := len(cc.Mut) > 5 && cc.Mut[:5] == "stim-"
	cookieReqs := 0
	for _, e := range res.Emitted {
		if e == "HelloVerifyRequest" || e == "HelloRetryRequest" {
			cookieReqs++
		}
	}
	if stim && res.Applied && cookieReqs > 1 {
		res.Violations = append(res.Violations, fmt.Sprintf("server sent %d cookie requests although only one ClientHello arrived (stimulus %s x%d)", cookieReqs, cc.Mut, cc.Reps))
	}
	for _, e := range res.Emitted {
		switch {
		case e == "HelloVerifyRequest" || e == "HelloRetryRequest":
		case len(e) > 5 && e[:5] == "alert":
			res.Info = append(res.Info, "server answered with "+e)
		default:
			if cc.Mut != "genuine" {
				res.Violations = append(res.Violations, fmt.Sprintf("server emitted %s before the cookie was echoed by an identical ClientHello (%s x%d)", e, cc.Mut, cc.Reps))
			}
		}
	}
	// finally the genuine second hello (vacuity guard: the server does continue once the cookie is right)
	if !r.s.hsReturned() {
		r.net.Deliver("c2s", 1)
		r.waitQuiet(2 * time.Second)
		collect(&res.After)
	}

	return res
}

func TestVerifCookie(t *testing.T) {
	in, out := os.Getenv("VERIF_IN"), os.Getenv("VERIF_OUT")
	fi, err := os.Open(in)
	if err != nil {
		t.Fatal(err)
	}
	defer fi.Close()
	var cases []cookieCase
	scan := bufio.NewScanner(fi)
	for scan.Scan() {
		var c cookieCase
		if err := json.Unmarshal(scan.Bytes(), &c); err != nil {
			t.Fatal(err)
		}
		cases = append(cases, c)
	}
	getPKI()
	results := make([]cookieResult, len(cases))
	var wg sync.WaitGroup
	sem := make(chan struct{}, runtime.GOMAXPROCS(0))
	for i := range cases {
		wg.Add(1)
		sem <- struct{}{}
		go func(i int) {
			defer wg.Done()
			defer func() { <-sem }()
			results[i] = runCookieCase(i, &cases[i])
		}(i)
	}
	wg.Wait()
	fo, err := os.Create(out)
	if err != nil {
		t.Fatal(err)
	}
	defer fo.Close()
	enc := json.NewEncoder(fo)
	for _, r := range results {
		_ = enc.Encode(r)
	}
}
