// C18 stages 2 and 3: handshake message bodies (per key-exchange context) and typed extension payloads
// against the grammars of spec/CodecMsg.tla.  Vectors: CodecGen modes msg and ext.  Byte-level rule per
// offered string b with the specification parser's result d (see c18_stage1_test.go for the rule);
// value equality is judged through the library itself: Unmarshal(Marshal(x)) deep-equals x, and a string with
// bytes beyond the declared end, if accepted, must decode to the same value as its declared part.

//go:build verif

package dtls

import (
	"bytes"
	"encoding/json"
	"fmt"
	"reflect"
	"testing"

	"github.com/pion/dtls/v3/internal/ciphersuite/types"
	"github.com/pion/dtls/v3/pkg/protocol/extension"
	"github.com/pion/dtls/v3/pkg/protocol/extension/dtls12"
	"github.com/pion/dtls/v3/pkg/protocol/extension/dtls13"
	"github.com/pion/dtls/v3/pkg/protocol/handshake"
)

type c18Obj interface {
	Unmarshal(data []byte) error
	Marshal() ([]byte, error)
}

type c18ExtVal interface {
	extension.Value
	extension.PayloadUnmarshaller
}

type c18ExtObj struct{ v c18ExtVal }

func (e c18ExtObj) Unmarshal(data []byte) error { return e.v.UnmarshalData(data) }
func (e c18ExtObj) Marshal() ([]byte, error)    { return e.v.MarshalData() }

func c18MsgFactory(name string) func() c18Obj { //nolint:cyclop
	psk, ecdhe := types.KeyExchangeAlgorithmPsk, types.KeyExchangeAlgorithmEcdhe
	m := map[string]func() c18Obj{
		"client_hello":          func() c18Obj { return &handshake.MessageClientHello{} },
		"server_hello":          func() c18Obj { return &handshake.MessageServerHello{} },
		"hello_verify_request":  func() c18Obj { return &handshake.MessageHelloVerifyRequest{} },
		"certificate":           func() c18Obj { return &handshake.MessageCertificate{} },
		"ske_ecdhe":             func() c18Obj { return &handshake.MessageServerKeyExchange{KeyExchangeAlgorithm: ecdhe} },
		"ske_psk":               func() c18Obj { return &handshake.MessageServerKeyExchange{KeyExchangeAlgorithm: psk} },
		"ske_ecdhe_psk":         func() c18Obj { return &handshake.MessageServerKeyExchange{KeyExchangeAlgorithm: psk | ecdhe} },
		"cke_ecdhe":             func() c18Obj { return &handshake.MessageClientKeyExchange{KeyExchangeAlgorithm: ecdhe} },
		"cke_psk":               func() c18Obj { return &handshake.MessageClientKeyExchange{KeyExchangeAlgorithm: psk} },
		"cke_ecdhe_psk":         func() c18Obj { return &handshake.MessageClientKeyExchange{KeyExchangeAlgorithm: psk | ecdhe} },
		"certificate_request":   func() c18Obj { return &handshake.MessageCertificateRequest{} },
		"certificate_verify":    func() c18Obj { return &handshake.MessageCertificateVerify{} },
		"finished":              func() c18Obj { return &handshake.MessageFinished{} },
		"server_hello_done":     func() c18Obj { return &handshake.MessageServerHelloDone{} },
		"key_update":            func() c18Obj { return &handshake.MessageKeyUpdate{} },
		"new_session_ticket":    func() c18Obj { return &handshake.MessageNewSessionTicket{} },
		"encrypted_extensions":  func() c18Obj { return &handshake.MessageEncryptedExtensions{} },
		"certificate13":         func() c18Obj { return &handshake.MessageCertificate13{} },
		"certificate_request13": func() c18Obj { return &handshake.MessageCertificateRequest13{} },
	}

	return m[name]
}

func c18ExtFactory(name string) func() c18Obj { //nolint:cyclop
	w := func(f func() c18ExtVal) func() c18Obj { return func() c18Obj { return c18ExtObj{f()} } }
	m := map[string]func() c18Obj{
		"supported_groups":          w(func() c18ExtVal { return &extension.SupportedGroups{} }),
		"ec_point_formats":          w(func() c18ExtVal { return &dtls12.SupportedPointFormats{} }),
		"signature_algorithms":      w(func() c18ExtVal { return &extension.SignatureAlgorithms{} }),
		"signature_algorithms_cert": w(func() c18ExtVal { return &extension.CertificateSignatureAlgorithms{} }),
		"use_srtp_offer":            w(func() c18ExtVal { return &extension.SRTPOffer{} }),
		"use_srtp_selection":        w(func() c18ExtVal { return &extension.SRTPSelection{} }),
		"alpn_offer":                w(func() c18ExtVal { return &extension.ALPNOffer{} }),
		"alpn_selection":            w(func() c18ExtVal { return &extension.ALPNSelection{} }),
		"server_name_offer":         w(func() c18ExtVal { return &extension.ServerNameOffer{} }),
		"server_name_ack":           w(func() c18ExtVal { return &extension.ServerNameAck{} }),
		"extended_master_secret":    w(func() c18ExtVal { return &dtls12.ExtendedMasterSecret{} }),
		"rrc":                       w(func() c18ExtVal { return &extension.ReturnRoutabilityCheck{} }),
		"post_handshake_auth":       w(func() c18ExtVal { return &dtls13.PostHandshakeAuth{} }),
		"early_data":                w(func() c18ExtVal { return &dtls13.EarlyData{} }),
		"max_early_data":            w(func() c18ExtVal { return &dtls13.MaxEarlyData{} }),
		"renegotiation_info":        w(func() c18ExtVal { return &dtls12.RenegotiationInfo{} }),
		"connection_id":             w(func() c18ExtVal { return &extension.ConnectionID{} }),
		"supported_versions_ch":     w(func() c18ExtVal { return &dtls13.OfferedVersions{} }),
		"supported_versions_sh":     w(func() c18ExtVal { return &dtls13.SelectedVersion{} }),
		"cookie":                    w(func() c18ExtVal { return &dtls13.Cookie{} }),
		"key_share_ch":              w(func() c18ExtVal { return &dtls13.ClientKeyShare{} }),
		"key_share_sh":              w(func() c18ExtVal { return &dtls13.ServerKeyShare{} }),
		"key_share_hrr":             w(func() c18ExtVal { return &dtls13.RetryKeyShare{} }),
		"psk_key_exchange_modes":    w(func() c18ExtVal { return &dtls13.PSKKeyExchangeModes{} }),
		"pre_shared_key_ch":         w(func() c18ExtVal { return &dtls13.OfferedPSKs{} }),
		"pre_shared_key_sh":         w(func() c18ExtVal { return &dtls13.SelectedPSK{} }),
		"certificate_authorities":   w(func() c18ExtVal { return &dtls13.CertificateAuthorities{} }),
		"oid_filters":               w(func() c18ExtVal { return &dtls13.OIDFilters{} }),
	}

	return m[name]
}

type c18MsgVec struct {
	K        string   `json:"k"`
	Msg      string   `json:"msg"`
	I        int      `json:"i"`
	Enc      bs       `json:"enc"`
	Variants []c18Var `json:"variants"`
}

// c18OfferBytes applies the byte-level rule to one string.
func c18OfferBytes(r *c18Res, name string, mk func() c18Obj, b []byte, d *c18Dec, canonical bool) { //nolint:cyclop
	r.evals++
	what := fmt.Sprintf("%s(%s)", name, c10hex(b))
	obj := mk()
	err := obj.Unmarshal(bytes.Clone(b))
	if !d.OK {
		if err == nil {
			r.bad("TRUNC %s: truncated input accepted (a declared length or fixed part exceeds the %d bytes offered)", what, len(b))
		}
	}
	if err != nil {
		if d.OK && d.Used == len(b) {
			if canonical {
				r.bad("ROUNDTRIP %s: the canonical encoding of a value is rejected: %v", what, err)
			} else {
				r.div = append(r.div, what+": well-formed input rejected: "+err.Error())
			}
		}

		return
	}
	e1, err := obj.Marshal()
	if err != nil {
		r.bad("FIXPOINT %s: accepted input cannot be re-encoded: %v", what, err)

		return
	}
	obj2 := mk()
	if err := obj2.Unmarshal(bytes.Clone(e1)); err != nil {
		r.bad("FIXPOINT %s: re-encoding %s of an accepted input is rejected: %v", what, c10hex(e1), err)

		return
	}
	e2, err := obj2.Marshal()
	if err != nil || !bytes.Equal(e1, e2) {
		r.bad("FIXPOINT %s: re-encoding is not a fixed point: %s -> %s (%v)", what, c10hex(e1), c10hex(e2), err)
	}
	if canonical {
		if !reflect.DeepEqual(obj, obj2) {
			r.bad("ROUNDTRIP %s: Unmarshal(Marshal(x)) differs from x: %+v vs %+v", what, obj2, obj)
		}
		if !bytes.Equal(e1, b) {
			r.div = append(r.div, fmt.Sprintf("%s: canonical form of the library is %s", what, c10hex(e1)))
		}
	}
	if d.OK && d.Used < len(b) {
		// bytes beyond the declared end: must not influence the value
		ref := mk()
		if err := ref.Unmarshal(bytes.Clone(b[:d.Used])); err == nil {
			e0, err := ref.Marshal()
			if err == nil && !bytes.Equal(e0, e1) {
				r.bad("OVERREAD %s: bytes beyond the declared end (%d of %d) were consumed: value re-encodes to %s, the declared part alone to %s",
					what, d.Used, len(b), c10hex(e1), c10hex(e0))
			}
		}
	}
}

// TestVerifC18Stage2 handles both msg (stage 2) and ext (stage 3) vectors.
func TestVerifC18Stage2(t *testing.T) {
	c18Run(t, func(line []byte, r *c18Res) (string, error) {
		v := &c18MsgVec{}
		if err := json.Unmarshal(line, v); err != nil {
			return "", err
		}
		mk := c18MsgFactory(v.Msg)
		if v.K == "ext" {
			mk = c18ExtFactory(v.Msg)
		}
		if mk == nil {
			return v.K, fmt.Errorf("%w: no factory for %s %s", errC10Plan, v.K, v.Msg)
		}
		c18OfferBytes(r, v.Msg, mk, v.Enc, &c18Dec{OK: true, Used: len(v.Enc)}, true)
		for i := range v.Variants {
			c18OfferBytes(r, v.Msg, mk, v.Variants[i].B, &v.Variants[i].D, false)
		}

		return v.K, nil
	})
}
