//go:build verif

package dtls

import (
	"context"
	"fmt"
	"testing"
	"time"
)

func TestVerifC20Explore(t *testing.T) {
	sc := &scenCfg{Ver: "13", CIDc: -1, CIDs: -1}
	d, err := openSession(sc, nil)
	if err != nil {
		t.Fatal(err)
	}
	defer d.close()
	n0 := len(d.r.rec.snapshot())
	for _, e := range d.r.rec.snapshot() {
		fmt.Println("HS", e)
	}
	done := make(chan error, 1)
	go func() {
		ctx, cancel := context.WithTimeout(context.Background(), 3*time.Second)
		defer cancel()
		done <- d.r.c.conn.UpdateKeys(ctx, KeyUpdateOptions{RequestPeerUpdate: true})
	}()
	d.r.waitQuiet(time.Second)
	time.Sleep(5 * time.Millisecond)
	d.r.waitQuiet(time.Second)
	fmt.Println("pending c2s", d.r.net.Pending("c2s"), "s2c", d.r.net.Pending("s2c"))
	for _, k := range d.r.net.Pending("c2s") {
		d.r.net.Deliver("c2s", k)
	}
	d.r.waitQuiet(time.Second)
	fmt.Println("pending c2s", d.r.net.Pending("c2s"), "s2c", d.r.net.Pending("s2c"))
	for _, k := range d.r.net.Pending("s2c") {
		d.r.net.Deliver("s2c", k)
		d.r.waitQuiet(time.Second)
	}
	fmt.Println("pending c2s", d.r.net.Pending("c2s"), "s2c", d.r.net.Pending("s2c"))
	select {
	case err := <-done:
		fmt.Println("UpdateKeys ->", err)
	case <-time.After(time.Second):
		fmt.Println("UpdateKeys pending")
	}
	for _, k := range d.r.net.Pending("c2s") {
		d.r.net.Deliver("c2s", k)
		d.r.waitQuiet(time.Second)
	}
	fmt.Println("pending c2s", d.r.net.Pending("c2s"), "s2c", d.r.net.Pending("s2c"))
	for _, e := range d.r.rec.snapshot()[n0:] {
		fmt.Println("PH", e)
	}
}
