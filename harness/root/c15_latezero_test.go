// C15, clause "only after an authentic, NEWEST record arrives from a new address": the peer's record numbered 0 of the
// protected epoch (DTLS 1.2: its Finished) is held back, the handshake completes through the retransmission (number 1),
// application data follows (number 2), and then the held record arrives - late, genuine, never seen before, NOT the
// newest - from another address.  It must not start a return routability check (no path_challenge to that address) and
// must not move the peer address.

//go:build verif

package dtls

import (
	"context"
	"encoding/json"
	"fmt"
	"os"
	"testing"
	"time"
)

type c15LateCase struct {
	Name string  `json:"name"`
	Scen scenCfg `json:"scen"`
}

type c15LateResult struct {
	Case       int      `json:"case"`
	Name       string   `json:"name"`
	Lab        string   `json:"lab,omitempty"`
	Violations []string `json:"violations,omitempty"`
	Held       bool     `json:"held"`
	ToNew      int      `json:"toNew"` // datagrams the endpoint sent to the new address
}

// c15HasProtectedEpoch: the datagram contains a DTLS 1.2 record of a non-zero epoch (cidLen: length of the CID in tls12_cid records).
func c15HasProtectedEpoch(d []byte, cidLen int) bool {
	off := 0
	for off+13 <= len(d) {
		hl := 13
		if d[off] == 25 {
			hl += cidLen
		}
		if off+hl > len(d) {
			return false
		}
		if d[off+3] != 0 || d[off+4] != 0 {
			return true
		}
		off += hl + (int(d[off+hl-2])<<8 | int(d[off+hl-1]))
	}

	return false
}

func runC15LateZero(idx int, cs *c15LateCase) (res c15LateResult) { //nolint:cyclop
	res = c15LateResult{Case: idx, Name: cs.Name}
	r := newLabRun()
	scen := cs.Scen
	if err := r.setup(&scen, &scenStores{}); err != nil {
		res.Lab = err.Error()

		return res
	}
	defer r.closeAll()
	ctx, cancel := context.WithTimeout(context.Background(), 20*time.Second)
	defer cancel()
	r.s.startHandshake(ctx)
	r.c.startHandshake(ctx)
	next := map[string]int{"c2s": 0, "s2c": 0}
	held := -1
	for round := 0; round < 60 && !(estOf(r.c) && estOf(r.s)); round++ {
		if !r.waitQuiet(3 * time.Second) {
			res.Lab = "not quiescent"

			return res
		}
		moved := false
		for _, dir := range []string{"c2s", "s2c"} {
			for next[dir] < r.net.Emitted(dir) {
				k := next[dir]
				next[dir]++
				moved = true
				// the server's own CID is what the client puts into its records
				if dir == "c2s" && held < 0 && c15HasProtectedEpoch(r.net.Data(dir, k), max(scen.CIDs, 0)) {
					held = k

					continue
				}
				r.net.Deliver(dir, k)
			}
		}
		if !moved && !r.c.fire() && !r.s.fire() {
			break
		}
	}
	if !r.waitQuiet(3*time.Second) || !(estOf(r.c) && estOf(r.s)) || held < 0 {
		res.Lab = fmt.Sprintf("handshake did not complete with the first protected datagram held (held %d)", held)

		return res
	}
	res.Held = true
	d := &dataSess{r: r, sc: &scen, reads: map[string]*readLog{}}
	defer d.close()
	d.startDrain(r.c)
	d.startDrain(r.s)
	// flush what the handshake tail left, then one application record from the client's own address
	for _, dir := range []string{"c2s", "s2c"} {
		for next[dir] < r.net.Emitted(dir) {
			r.net.Deliver(dir, next[dir])
			next[dir]++
		}
	}
	idxs, err := d.write("c", []byte("c15-late-zero"))
	if err != nil {
		res.Lab = "client write failed: " + err.Error()

		return res
	}
	for _, k := range idxs {
		r.net.Deliver("c2s", k)
	}
	if !d.settle(3 * time.Second) {
		res.Lab = "session did not settle"

		return res
	}
	before := r.s.conn.RemoteAddr().String()
	mark := r.net.Emitted("s2c")
	const newAddr = labAddr("b9")
	r.net.DeliverFrom("c2s", held, newAddr)
	if !d.settle(3 * time.Second) {
		res.Lab = "session did not settle after the late record"

		return res
	}
	for k := mark; k < r.net.Emitted("s2c"); k++ {
		if dg := r.net.Dgram("s2c", k); dg != nil && dg.dst == newAddr {
			res.ToNew++
		}
	}
	if res.ToNew > 0 {
		res.Violations = append(res.Violations, fmt.Sprintf("the peer's record numbered 0 of epoch 1 arrived late from %s, after records 1 and 2 of that epoch had been accepted from %s: "+
			"the endpoint treated it as the newest record and sent %d datagram(s) (path_challenge) to %s", newAddr, before, res.ToNew, newAddr))
	}
	if a := r.s.conn.RemoteAddr().String(); a != before {
		res.Violations = append(res.Violations, fmt.Sprintf("the peer address moved from %s to %s on a late record", before, a))
	}

	return res
}

func TestVerifC15LateZero(t *testing.T) {
	var cases []c15LateCase
	raw, err := os.ReadFile(os.Getenv("VERIF_IN"))
	if err != nil {
		t.Fatal(err)
	}
	if err := json.Unmarshal(raw, &cases); err != nil {
		t.Fatal(err)
	}
	getPKI()
	out, err := os.Create(os.Getenv("VERIF_OUT"))
	if err != nil {
		t.Fatal(err)
	}
	defer out.Close()
	enc := json.NewEncoder(out)
	for i := range cases {
		res := runC15LateZero(i, &cases[i])
		if res.Lab != "" {
			res = runC15LateZero(i, &cases[i])
		}
		if err := enc.Encode(res); err != nil {
			t.Fatal(err)
		}
	}
}
