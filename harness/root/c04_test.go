// C04: transcript integrity.  A man in the middle alters ONE cleartext handshake message (every copy of it,
// so a retransmission is rewritten in the same way) between two honest real endpoints; no endpoint that sent
// or received the altered message may report a successful handshake.  Cases come from the Tamper edges of
// spec/Transcript.tla, made concrete by a mutator table (bit flips anywhere in the body, field-level
// rewrites of the hellos through the library's own codecs).

//go:build verif

package dtls

import (
	"bufio"
	"bytes"
	"context"
	"crypto/elliptic"
	"encoding/asn1"
	"encoding/json"
	"fmt"
	"math/big"
	"os"
	"runtime"
	"strconv"
	"strings"
	"sync"
	"testing"
	"time"

	"github.com/pion/dtls/v3/pkg/protocol"
	"github.com/pion/dtls/v3/pkg/protocol/extension"
	"github.com/pion/dtls/v3/pkg/protocol/handshake"
)

type c04Case struct {
	Scen scenCfg `json:"scen"`
	Name string  `json:"name"`
	Msg  string  `json:"msg"` // model name of the message: CH1 HVR HRR CH2 SH CERT SKE CR SHD CCERT CKE CV ("" = honest control)
	Mut  string  `json:"mut"` // "bit:<pos>" | "suites-reverse" | "suites-drop-first" | "suites-only-last" | "strip-ext:<i>" |
	//                           "sessionid" | "version" | "suite-swap" | "random" | "compression"
	Probe bool `json:"probe"` // only list the cleartext messages of an honest run
}

type c04Msg struct {
	Name string `json:"name"`
	Len  int    `json:"len"`
	Exts int    `json:"exts"`
	Frag bool   `json:"frag"`
}

type c04Result struct {
	Case    int      `json:"case"`
	Name    string   `json:"name"`
	Applied int      `json:"applied"` // copies of the message that were altered and delivered
	CEst    bool     `json:"cest"`
	SEst    bool     `json:"sest"`
	CErr    string   `json:"cerr,omitempty"`
	SErr    string   `json:"serr,omitempty"`
	Lab     string   `json:"lab,omitempty"`
	Msgs    []c04Msg `json:"msgs,omitempty"`
	Fired   int      `json:"fired"`
	Panic   string   `json:"panic,omitempty"`
	Events  []vEvent `json:"events,omitempty"`
	// negotiated outputs of each side that reported success: "ver|suite|alpn|srtp|ems|group|len(lcid)|len(rcid)|peer chain length"
	CNeg string `json:"cneg,omitempty"`
	SNeg string `json:"sneg,omitempty"`
}

func c04Negotiated(p *labPeer) string {
	var o c11SideObs
	c11Observe(p, &o, false)
	if o.Err != "" {
		return "?" + o.Err
	}
	cl := func(s string) int {
		if s == "-" {
			return -1
		}

		return len(s) / 2
	}

	return fmt.Sprintf("%s|%s|%s|%d|%v|%d|%d|%d|%d", o.Ver, o.Suite, o.ALPN, o.SRTP, o.EMS, o.Group, cl(o.LCID), cl(o.RCID), o.NPeer)
}

// c04Namer turns (sender, handshake type, message_seq, body) into the model's message name.
type c04Namer struct {
	cookieExchange bool // hello verification (1.2) / HelloRetryRequest (1.3)
	ver13          bool
}

func (n *c04Namer) name(from string, typ byte, seq int, body []byte) string {
	switch {
	case from == "c" && typ == 1:
		if n.cookieExchange && seq == 0 {
			return "CH1"
		}

		return "CH2"
	case from == "s" && typ == 3:
		return "HVR"
	case from == "s" && typ == 2:
		if len(body) >= 34 && bytes.Equal(body[2:34], hrrRandom[:]) {
			return "HRR"
		}

		return "SH"
	case from == "s" && typ == 11:
		return "CERT"
	case from == "s" && typ == 12:
		return "SKE"
	case from == "s" && typ == 13:
		return "CR"
	case from == "s" && typ == 14:
		return "SHD"
	case from == "c" && typ == 11:
		return "CCERT"
	case from == "c" && typ == 16:
		return "CKE"
	case from == "c" && typ == 15:
		return "CV"
	}

	return fmt.Sprintf("%s-hs%d", from, typ)
}

// c04Walk calls f for every cleartext (epoch 0) handshake record of a datagram; f may return a replacement for the
// handshake fragment (header + body).  Everything that is not a cleartext DTLSPlaintext record is copied verbatim.
func c04Walk(dgram []byte, f func(hs []byte) []byte) []byte {
	out := make([]byte, 0, len(dgram)+64)
	off := 0
	for off < len(dgram) {
		if off+13 > len(dgram) || dgram[off]&0xe0 == 0x20 || dgram[off] < 20 || dgram[off] > 26 {
			break
		}
		l := int(dgram[off+11])<<8 | int(dgram[off+12])
		if off+13+l > len(dgram) {
			break
		}
		epoch := int(dgram[off+3])<<8 | int(dgram[off+4])
		body := dgram[off+13 : off+13+l]
		if dgram[off] == 22 && epoch == 0 && l >= 12 {
			if nb := f(body); nb != nil {
				body = nb
			}
		}
		out = append(out, dgram[off:off+11]...)
		out = append(out, byte(len(body)>>8), byte(len(body)))
		out = append(out, body...)
		off += 13 + l
	}

	return append(out, dgram[off:]...)
}

func c04Header(hs []byte) (typ byte, length, seq, fragOff, fragLen int) {
	return hs[0], int(hs[1])<<16 | int(hs[2])<<8 | int(hs[3]), int(hs[4])<<8 | int(hs[5]),
		int(hs[6])<<16 | int(hs[7])<<8 | int(hs[8]), int(hs[9])<<16 | int(hs[10])<<8 | int(hs[11])
}

// c04Mutate applies the mutator to one handshake fragment; nil = not applicable to this fragment.
func c04Mutate(mut string, hs []byte) []byte { //nolint:cyclop,gocognit
	_, length, _, fragOff, fragLen := c04Header(hs)
	if strings.HasPrefix(mut, "bit:") {
		pos, _ := strconv.Atoi(mut[4:])
		if length == 0 || fragLen == 0 {
			return nil
		}
		bit := pos % (8 * length)
		byteAt := bit / 8
		if byteAt < fragOff || byteAt >= fragOff+fragLen || 12+byteAt-fragOff >= len(hs) {
			return nil
		}
		out := append([]byte(nil), hs...)
		out[12+byteAt-fragOff] ^= 1 << (bit % 8)

		return out
	}
	if fragOff != 0 || fragLen != length {
		return nil // field-level rewrites need the whole message
	}
	h := &handshake.Handshake{}
	if err := h.Unmarshal(hs); err != nil {
		return nil
	}
	changed := false
	stripExt := func(exts []extension.Value, i int) []extension.Value {
		if i >= len(exts) {
			return exts
		}
		changed = true

		return append(append([]extension.Value(nil), exts[:i]...), exts[i+1:]...)
	}
	switch m := h.Message.(type) {
	case *handshake.MessageCertificateVerify:
		// another VALID encoding of the same ECDSA signature (r, n-s): the message is altered in transit although its
		// signature still verifies - only the Finished check over the transcript can notice
		if mut == "sig-malleate" {
			if alt := c04MalleateECDSA(m.Signature); alt != nil {
				m.Signature, changed = alt, true
			}
		}
	case *handshake.MessageServerKeyExchange:
		if mut == "sig-malleate" && len(m.Signature) > 0 {
			if alt := c04MalleateECDSA(m.Signature); alt != nil {
				m.Signature, changed = alt, true
			}
		}
	case *handshake.MessageClientHello:
		switch {
		case mut == "suites-reverse" && len(m.CipherSuiteIDs) > 1:
			s := append([]uint16(nil), m.CipherSuiteIDs...)
			for i, j := 0, len(s)-1; i < j; i, j = i+1, j-1 {
				s[i], s[j] = s[j], s[i]
			}
			m.CipherSuiteIDs, changed = s, true
		case mut == "suites-drop-first" && len(m.CipherSuiteIDs) > 1:
			m.CipherSuiteIDs, changed = append([]uint16(nil), m.CipherSuiteIDs[1:]...), true
		case mut == "suites-only-last" && len(m.CipherSuiteIDs) > 1:
			m.CipherSuiteIDs, changed = []uint16{m.CipherSuiteIDs[len(m.CipherSuiteIDs)-1]}, true
		case mut == "sessionid":
			if len(m.SessionID) == 0 {
				m.SessionID = bytes.Repeat([]byte{0x5a}, 32)
			} else {
				m.SessionID = append([]byte(nil), m.SessionID...)
				m.SessionID[0] ^= 1
			}
			changed = true
		case mut == "version":
			m.Version, changed = protocol.Version{Major: 0xfe, Minor: 0xff}, true
		case mut == "random":
			m.Random.RandomBytes[7] ^= 0x10
			changed = true
		case strings.HasPrefix(mut, "strip-ext:"):
			i, _ := strconv.Atoi(mut[10:])
			m.Extensions = stripExt(m.Extensions, i)
		}
	case *handshake.MessageServerHello:
		switch {
		case mut == "sessionid":
			if len(m.SessionID) == 0 {
				m.SessionID = bytes.Repeat([]byte{0x5a}, 32)
			} else {
				m.SessionID = append([]byte(nil), m.SessionID...)
				m.SessionID[0] ^= 1
			}
			changed = true
		case mut == "version":
			m.Version, changed = protocol.Version{Major: 0xfe, Minor: 0xff}, true
		case mut == "random":
			m.Random.RandomBytes[7] ^= 0x10
			changed = true
		case mut == "suite-swap" && m.CipherSuiteID != nil:
			// steer the client to a sibling suite with the same key exchange
			sw := map[uint16]uint16{0xc02b: 0xc0ac, 0xc0ac: 0xc02b, 0xc02c: 0xc02b, 0xc0ae: 0xc02b, 0xc00a: 0xc02b, 0xcca9: 0xc02b,
				0xc02f: 0xc030, 0xc030: 0xc02f, 0xc014: 0xc02f, 0xcca8: 0xc02f,
				0x00a8: 0xc0a4, 0xc0a4: 0x00a8, 0xc0a8: 0x00a8, 0xc0a9: 0x00a8, 0x00ae: 0x00a8, 0xccab: 0x00a8,
				0x1301: 0x1302, 0x1302: 0x1301, 0x1303: 0x1301}
			if to, ok := sw[*m.CipherSuiteID]; ok {
				m.CipherSuiteID, changed = &to, true
			}
		case strings.HasPrefix(mut, "strip-ext:"):
			i, _ := strconv.Atoi(mut[10:])
			m.Extensions = stripExt(m.Extensions, i)
		}
	}
	if !changed {
		return nil
	}
	raw, err := h.Marshal()
	if err != nil || bytes.Equal(raw, hs) {
		return nil
	}

	return raw
}

// c04MalleateECDSA returns the DER encoding of (r, n-s) for a DER ECDSA P-256 signature (r, s); nil if it is none.
func c04MalleateECDSA(sig []byte) []byte {
	var rs struct{ R, S *big.Int }
	if rest, err := asn1.Unmarshal(sig, &rs); err != nil || len(rest) != 0 || rs.R == nil || rs.S == nil {
		return nil
	}
	n := elliptic.P256().Params().N
	if rs.S.Sign() <= 0 || rs.S.Cmp(n) >= 0 {
		return nil
	}
	rs.S = new(big.Int).Sub(n, rs.S)
	out, err := asn1.Marshal(rs)
	if err != nil {
		return nil
	}

	return out
}

func runC04Case(idx int, cs *c04Case) (res c04Result) { //nolint:cyclop,gocognit
	res = c04Result{Case: idx, Name: cs.Name}
	defer func() {
		if p := recover(); p != nil {
			res.Panic = fmt.Sprint(p)
		}
	}()
	r := newLabRun()
	scen := cs.Scen
	scen.IntervalMS = 0 // virtual timers only
	if err := r.setup(&scen, &scenStores{}); err != nil {
		res.Lab = err.Error()

		return res
	}
	defer r.closeAll()
	scen.defaults()
	namer := &c04Namer{cookieExchange: scen.HelloVerify && !scen.Resume || scen.HelloVerify && scen.Ver == "13", ver13: scen.Ver == "13"}
	ctx, cancel := context.WithTimeout(context.Background(), 15*time.Second)
	defer cancel()
	r.s.startHandshake(ctx)
	r.c.startHandshake(ctx)
	seen := map[string]bool{}
	next := map[string]int{"c2s": 0, "s2c": 0}
	pump := func() bool { // deliver everything that is in flight, altering the target message; false when nothing moved
		moved := false
		for _, dir := range []string{"c2s", "s2c"} {
			from := dir[:1]
			for next[dir] < r.net.Emitted(dir) {
				k := next[dir]
				next[dir]++
				moved = true
				data := r.net.Data(dir, k)
				applied := false
				nd := c04Walk(data, func(hs []byte) []byte {
					typ, length, seq, fragOff, fragLen := c04Header(hs)
					name := namer.name(from, typ, seq, hs[12:])
					if !seen[name+"/"+strconv.Itoa(fragOff)] {
						seen[name+"/"+strconv.Itoa(fragOff)] = true
						if fragOff == 0 {
							m := c04Msg{Name: name, Len: length, Frag: fragLen != length}
							if typ == 1 || typ == 2 {
								h := &handshake.Handshake{}
								if fragLen == length && h.Unmarshal(hs) == nil {
									switch mm := h.Message.(type) {
									case *handshake.MessageClientHello:
										m.Exts = len(mm.Extensions)
									case *handshake.MessageServerHello:
										m.Exts = len(mm.Extensions)
									}
								}
							}
							res.Msgs = append(res.Msgs, m)
						}
					}
					if cs.Msg == "" || name != cs.Msg {
						return nil
					}
					nb := c04Mutate(cs.Mut, hs)
					if nb != nil {
						applied = true
					}

					return nb
				})
				if applied {
					res.Applied++
					r.net.Drop(dir, k)
					r.net.Inject(dir[2:], labAddr(from), nd)
				} else {
					r.net.Deliver(dir, k)
				}
				if !r.waitQuiet(3 * time.Second) {
					res.Lab = "not quiescent"

					return false
				}
			}
		}

		return moved
	}
	if !r.waitQuiet(2 * time.Second) {
		res.Lab = "not quiescent after start"

		return res
	}
	for round := 0; round < 40; round++ {
		for pump() {
		}
		if res.Lab != "" {
			return res
		}
		if r.c.hsReturned() && r.s.hsReturned() {
			break
		}
		// stalled: let the retransmission timers run (the altered copies are altered again)
		if res.Fired >= 4 {
			break
		}
		fired := false
		for _, p := range []*labPeer{r.c, r.s} {
			if !p.hsReturned() && p.fire() {
				fired = true
			}
		}
		res.Fired++
		if !fired {
			break
		}
		if !r.waitQuiet(3 * time.Second) {
			res.Lab = "not quiescent after timer"

			return res
		}
	}
	cancel()
	select {
	case <-r.c.hsDone:
	case <-time.After(5 * time.Second):
		res.Lab = "client handshake did not return"

		return res
	}
	select {
	case <-r.s.hsDone:
	case <-time.After(5 * time.Second):
		res.Lab = "server handshake did not return"

		return res
	}
	res.CEst, res.SEst = r.c.hsErr == nil, r.s.hsErr == nil
	if res.CEst {
		res.CNeg = c04Negotiated(r.c)
	}
	if res.SEst {
		res.SNeg = c04Negotiated(r.s)
	}
	if os.Getenv("VERIF_KEEP_EVENTS") != "" {
		res.Events = r.rec.snapshot()
	}
	res.CErr, res.SErr = errString(r.c.hsErr), errString(r.s.hsErr)

	return res
}

func TestVerifTamper(t *testing.T) {
	in, out := os.Getenv("VERIF_IN"), os.Getenv("VERIF_OUT")
	fi, err := os.Open(in)
	if err != nil {
		t.Fatal(err)
	}
	defer fi.Close()
	var cases []c04Case
	scan := bufio.NewScanner(fi)
	scan.Buffer(make([]byte, 1<<20), 1<<26)
	for scan.Scan() {
		var c c04Case
		if err := json.Unmarshal(scan.Bytes(), &c); err != nil {
			t.Fatal(err)
		}
		cases = append(cases, c)
	}
	getPKI()
	results := make([]c04Result, len(cases))
	var wg sync.WaitGroup
	sem := make(chan struct{}, runtime.GOMAXPROCS(0))
	for i := range cases {
		wg.Add(1)
		sem <- struct{}{}
		go func(i int) {
			defer wg.Done()
			defer func() { <-sem }()
			results[i] = runC04Case(i, &cases[i])
			if results[i].Lab != "" {
				results[i] = runC04Case(i, &cases[i])
			}
		}(i)
	}
	wg.Wait()
	fo, err := os.Create(out)
	if err != nil {
		t.Fatal(err)
	}
	defer fo.Close()
	w := bufio.NewWriter(fo)
	defer w.Flush()
	enc := json.NewEncoder(w)
	for _, r := range results {
		_ = enc.Encode(r)
	}
}
