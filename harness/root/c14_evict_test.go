// C14, fatal-alert clause, on histories of three connections that share a client store and a server store, with endpoint
// configurations that differ from connection to connection (which the script lab of TestVerifResumption keeps fixed) and
// with dual-version endpoints: (1) a full handshake creates session X; (2) X is offered and resumed, and ONE endpoint
// rejects the abbreviated handshake with a fatal alert because of its configuration on this connection (server: no common
// ALPN protocol; client: extended master secret required but the session has none); (3) benign configurations again: the
// endpoint that sent the alert no longer holds X, and X is not resumed.

//go:build verif

package dtls

import (
	"encoding/json"
	"fmt"
	"os"
	"testing"
	"time"

	dtlsstate "github.com/pion/dtls/v3/internal/state"
)

type c14EvictCase struct {
	Name        string `json:"name"`
	Who         string `json:"who"` // "server-alpn" | "client-ems"
	CVer        string `json:"cver"`
	SVer        string `json:"sver"`
	HelloVerify bool   `json:"helloVerify"`
	Auth        string `json:"auth"`
	Suite       string `json:"suite"`
}

type c14EvictResult struct {
	Case       int      `json:"case"`
	Name       string   `json:"name"`
	Lab        string   `json:"lab,omitempty"`
	Violations []string `json:"violations,omitempty"`
	Conn2      string   `json:"conn2"`
	Resumed2   bool     `json:"resumed2"`
	Resumed3   bool     `json:"resumed3"`
}

func (s *labStore) holdsID(id []byte) bool {
	s.mu.Lock()
	defer s.mu.Unlock()
	for _, v := range s.m {
		if string(v.ID) == string(id) {
			return true
		}
	}

	return false
}

func runC14Evict(idx int, cs *c14EvictCase) (res c14EvictResult) { //nolint:cyclop
	res = c14EvictResult{Case: idx, Name: cs.Name}
	stores := &scenStores{c: newLabStore(), s: newLabStore()}
	base := scenCfg{Ver: "12", CVer: cs.CVer, SVer: cs.SVer, Stores: true, HelloVerify: cs.HelloVerify, Auth: cs.Auth, Suite: cs.Suite,
		CIDc: -1, CIDs: -1, IntervalMS: 50}
	if cs.Who == "client-ems" {
		base.EMSc, base.EMSs = 0, 2 // the client merely requests it, the server has it disabled: sessions without EMS
	}
	connect := func(sc scenCfg) (r *labRun, ce, se error, err error) {
		r = newLabRun()
		if err = r.setup(&sc, stores); err != nil {
			return nil, nil, nil, err
		}
		ce, se = r.handshakeLossless(4 * time.Second)

		return r, ce, se, nil
	}
	// (1)
	r1, ce, se, err := connect(base)
	if err != nil || ce != nil || se != nil {
		res.Lab = fmt.Sprintf("first connection failed: %v / %v / %v", err, ce, se)
		if r1 != nil {
			r1.closeAll()
		}

		return res
	}
	st1, ok := r1.c.conn.state.(*dtlsstate.State12)
	if !ok || len(st1.SessionID) == 0 {
		r1.closeAll()
		res.Lab = "the first connection created no session"

		return res
	}
	id := append([]byte(nil), st1.SessionID...)
	r1.closeAll()
	if !stores.c.holdsID(id) || !stores.s.holdsID(id) {
		res.Lab = "the session of the first connection is not in both stores"

		return res
	}
	// (2)
	sc2 := base
	switch cs.Who {
	case "server-alpn":
		sc2.ALPNc, sc2.ALPNs = []string{"h2"}, []string{"http/1.1"}
	case "client-ems":
		sc2.EMSc = 1 // required
	}
	r2, ce2, se2, err := connect(sc2)
	if err != nil {
		res.Lab = err.Error()

		return res
	}
	res.Conn2 = fmt.Sprintf("client: %v, server: %v", ce2, se2)
	if st2, ok := r2.s.conn.state.(*dtlsstate.State12); ok && string(st2.SessionID) == string(id) {
		res.Resumed2 = true
	}
	r2.closeAll()
	if ce2 == nil && se2 == nil {
		res.Lab = "the second connection was not rejected"

		return res
	}
	if !res.Resumed2 {
		res.Lab = "the second connection did not resume the session: the alert was not sent on it"

		return res
	}
	alerter, store := "server", stores.s
	if cs.Who == "client-ems" {
		alerter, store = "client", stores.c
	}
	if store.holdsID(id) {
		res.Violations = append(res.Violations, fmt.Sprintf("the %s rejected the resumption of session %x with a fatal alert (%s) and its store still holds that session",
			alerter, id[:4], res.Conn2))
	}
	// (3)
	r3, ce3, se3, err := connect(base)
	if err != nil {
		res.Lab = err.Error()

		return res
	}
	defer r3.closeAll()
	if st3, ok := r3.s.conn.state.(*dtlsstate.State12); ok && ce3 == nil && se3 == nil && string(st3.SessionID) == string(id) {
		res.Resumed3 = true
		res.Violations = append(res.Violations, fmt.Sprintf("session %x was resumed on the next connection although the %s had sent a fatal alert on it", id[:4], alerter))
	}
	if ce3 != nil || se3 != nil {
		res.Violations = append(res.Violations, fmt.Sprintf("the connection after the rejected one did not complete: %v / %v", ce3, se3))
	}

	return res
}

func TestVerifC14Evict(t *testing.T) {
	var cases []c14EvictCase
	raw, err := os.ReadFile(os.Getenv("VERIF_IN"))
	if err != nil {
		t.Fatal(err)
	}
	if err := json.Unmarshal(raw, &cases); err != nil {
		t.Fatal(err)
	}
	getPKI()
	out, err := os.Create(os.Getenv("VERIF_OUT"))
	if err != nil {
		t.Fatal(err)
	}
	defer out.Close()
	enc := json.NewEncoder(out)
	for i := range cases {
		res := runC14Evict(i, &cases[i])
		if res.Lab != "" {
			res = runC14Evict(i, &cases[i])
		}
		if err := enc.Encode(res); err != nil {
			t.Fatal(err)
		}
	}
}
