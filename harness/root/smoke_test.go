//go:build verif

package dtls

import (
	"fmt"
	"testing"
	"time"
)

func TestVerifSmoke(t *testing.T) {
	for _, sc := range []scenCfg{
		{Name: "full12", Ver: "12", HelloVerify: true},
		{Name: "psk12", Ver: "12", Auth: "psk", Suite: "TLS_PSK_WITH_AES_128_GCM_SHA256", HelloVerify: true},
		{Name: "resume12", Ver: "12", Resume: true, HelloVerify: true, CIDc: -1, CIDs: -1},
		{Name: "full13", Ver: "13", HelloVerify: true},
	} {
		sc := sc
		if sc.Name != "resume12" {
			sc.CIDc, sc.CIDs = -1, -1
		}
		r := newLabRun()
		if err := r.setup(&sc, &scenStores{}); err != nil {
			t.Fatal(err)
		}
		ce, se := r.handshakeLossless(3 * time.Second)
		q := r.waitQuiet(time.Second)
		fmt.Println(sc.Name, "c:", ce, "s:", se, "quiet:", q, "events:", len(r.rec.snapshot()),
			"c2s", r.net.Emitted("c2s"), "s2c", r.net.Emitted("s2c"))
		if testing.Verbose() && sc.Name == "full12" {
			for _, e := range r.rec.snapshot() {
				fmt.Println(e)
			}
		}
		r.closeAll()
	}
}
