// C10: library functions against "TLC layout o standard primitive" on TLC-generated tuples.
// Input  VERIF_IN : ndjson, one TLC vector per line (spec/CodecGen.tla, modes suite12, suite13, prf, rec12, hkdf, rec13)
// Output VERIF_OUT: ndjson rows {i, k, viol:[...], layout:[...]} and a final summary row.
//   viol   = the LIBRARY disagrees with layout o primitive (a C10 violation)
//   layout = the Go restatement of a layout disagrees with TLC (oracle defect: inconclusive, never a violation)

//go:build verif

package dtls

import (
	"bufio"
	"bytes"
	"crypto/rand"
	"encoding/hex"
	"encoding/json"
	"fmt"
	mrand "math/rand"
	"os"
	"strconv"
	"testing"

	"github.com/pion/dtls/v3/internal/ciphersuite"
	dtlscrypto "github.com/pion/dtls/v3/internal/handshakecrypto"
	"github.com/pion/dtls/v3/pkg/crypto/elliptic"
	"github.com/pion/dtls/v3/pkg/crypto/keyschedule"
	"github.com/pion/dtls/v3/pkg/crypto/prf"
	"github.com/pion/dtls/v3/pkg/protocol"
	"github.com/pion/dtls/v3/pkg/protocol/recordlayer"
)

type c10Suite struct {
	Name string `json:"name"`
	ID   bs     `json:"id"`
	Kind string `json:"kind"`
	Mac  int    `json:"mac"`
	Key  int    `json:"key"`
	IV   int    `json:"iv"`
	Tag  int    `json:"tag"`
	Prf  string `json:"prf"`
	Mach string `json:"mach"`
	Hash string `json:"hash"`
	Hlen int    `json:"hlen"`
	Sn   string `json:"snalg"`
}

type c10UHdrV struct {
	CID   bs   `json:"cid"`
	S     bool `json:"s"`
	Seq   int  `json:"seq"`
	L     bool `json:"l"`
	Len   int  `json:"len"`
	Epoch int  `json:"epoch"`
}

type c10GraphStep struct {
	Out    string          `json:"out"`
	Op     string          `json:"op"`
	Salt   string          `json:"salt"`
	IKM    string          `json:"ikm"`
	Secret string          `json:"secret"`
	Label  json.RawMessage `json:"label"`
	Ctx    string          `json:"ctx"`
	Len    string          `json:"len"`
}

type c10Vec struct {
	K string `json:"k"`
	// suite12 / suite13
	SuiteRaw json.RawMessage  `json:"suite"`
	KeyBlock map[string]any   `json:"keyblock"`
	Plan     *c10Plan         `json:"plan"`
	Plan32   *c10Plan         `json:"plan32"`
	Plan48   *c10Plan         `json:"plan48"`
	Seed     bs               `json:"seed"`
	CR       bs               `json:"client_random"`
	SR       bs               `json:"server_random"`
	Which    string           `json:"which"`
	Hash     string           `json:"hash"`
	SessHash bs               `json:"session_hash"`
	HsHash   bs               `json:"handshake_hash"`
	Label    bs               `json:"label"`
	HasCtx   bool             `json:"has_context"`
	Context  bs               `json:"context"`
	N        int              `json:"n"`
	PSK      bs               `json:"psk"`
	Z        bs               `json:"z"`
	Out      bs               `json:"out"`
	Curve    int              `json:"curve"`
	Public   bs               `json:"public"`
	Info     bs               `json:"info"`
	Client   bool             `json:"client"`
	TH       bs               `json:"transcript_hash"`
	Schedule []c10GraphStep   `json:"schedule"`
	TKeys    []c10GraphStep   `json:"traffic_keys"`
	Exporter []c10GraphStep   `json:"exporter"`
	// rec12 / rec13
	Kind     string   `json:"kind"`
	Tag      int      `json:"tag"`
	MacLen   int      `json:"maclen"`
	Mach     string   `json:"mach"`
	KeyLen   int      `json:"keylen"`
	Epoch    int      `json:"epoch"`
	Seq      []int    `json:"seq"`
	Seq64    []int    `json:"seq64"`
	CType    int      `json:"ctype"`
	UseCID   bool     `json:"use_cid"`
	CID      bs       `json:"cid"`
	Content  bs       `json:"content"`
	Zeros    int      `json:"zeros"`
	IV       bs       `json:"iv"`
	Plain    bs       `json:"plain"`
	RecType  int      `json:"record_type"`
	HdrPlain bs       `json:"hdr_plain"`
	FragLen  int      `json:"frag_len"`
	HdrOut   bs       `json:"hdr_out"`
	AAD      bs       `json:"aad"`
	Explicit bs       `json:"explicit"`
	Nonce    bs       `json:"nonce"`
	MacInput bs       `json:"mac_input"`
	Pads     []int    `json:"pads"`
	MinPad   int      `json:"min_pad"`
	UHdr     c10UHdrV `json:"uhdr"`
	Inner    bs       `json:"inner"`
	EncLen   int      `json:"enc_len"`
	Mask     bs       `json:"mask"`
	Masked   bs       `json:"masked_hdr"`
	SnAlg    string   `json:"snalg"`
}

func (v *c10Vec) suite() (c10Suite, string) {
	var s c10Suite
	if err := json.Unmarshal(v.SuiteRaw, &s); err == nil && s.Name != "" {
		return s, s.Name
	}
	var name string
	_ = json.Unmarshal(v.SuiteRaw, &name)

	return s, name
}

func c10Limbs(l []int) uint64 {
	var out uint64
	for _, x := range l {
		out = out<<16 | uint64(x) //nolint:gosec
	}

	return out
}

type c10Res struct {
	viol   []string
	layout []string
	evals  int
}

func (r *c10Res) eq(what string, lib, want []byte) {
	r.evals++
	if !bytes.Equal(lib, want) {
		r.viol = append(r.viol, fmt.Sprintf("%s: library %s != expected %s", what, c10hex(lib), c10hex(want)))
	}
}

func (r *c10Res) lay(what string, goLayout, tlc []byte) {
	if !bytes.Equal(goLayout, tlc) {
		r.layout = append(r.layout, fmt.Sprintf("%s: go %s != tlc %s", what, c10hex(goLayout), c10hex(tlc)))
	}
}

func (r *c10Res) bad(format string, a ...any) { r.viol = append(r.viol, fmt.Sprintf(format, a...)) }

func c10hex(b []byte) string {
	if len(b) > 48 {
		return hex.EncodeToString(b[:48]) + fmt.Sprintf("..(%d)", len(b))
	}

	return hex.EncodeToString(b)
}

func c10Fill(rng *mrand.Rand, n int) []byte {
	out := make([]byte, n)
	_, _ = rng.Read(out)

	return out
}

func c10Range(kb map[string]any, name string) (int, int) {
	r, _ := kb[name].([]any)
	if len(r) != 2 {
		return 0, 0
	}
	a, _ := r[0].(float64)
	b, _ := r[1].(float64)

	return int(a), int(b)
}

// ---------------------------------------------------------------------------

func c10DoSuite12(v *c10Vec, rng *mrand.Rand, r *c10Res) {
	s, _ := v.suite()
	h := c10Hash(s.Prf)
	ms := c10Fill(rng, 48)
	// key block = P_hash(master, "key expansion" || server_random || client_random), partitioned as TLC says
	total, _ := v.KeyBlock["total"].(float64)
	kb, err := c10RunPlan(h, v.Plan, map[string][]byte{"secret": ms, "seed": v.Seed})
	if err != nil || len(kb) != int(total) {
		r.layout = append(r.layout, fmt.Sprintf("plan: %v", err))

		return
	}
	r.lay("P_hash plan vs direct", c10PHash(h, ms, v.Seed, int(total)), kb)
	part := func(n string) []byte { a, b := c10Range(v.KeyBlock, n); return kb[a:b] }
	gk := c10SplitKeyBlock(kb, s.Mac, s.Key, s.IV)
	r.lay("keyblock client_key", gk.cKey, part("client_key"))
	r.lay("keyblock server_iv", gk.sIV, part("server_iv"))
	r.lay("keyblock server_mac", gk.sMac, part("server_mac"))
	keys, err := prf.GenerateEncryptionKeys(ms, v.CR, v.SR, s.Mac, s.Key, s.IV, h)
	if err != nil {
		r.bad("GenerateEncryptionKeys: %v", err)

		return
	}
	r.eq(s.Name+" client_write_MAC_key", keys.ClientMACKey, part("client_mac"))
	r.eq(s.Name+" server_write_MAC_key", keys.ServerMACKey, part("server_mac"))
	r.eq(s.Name+" client_write_key", keys.ClientWriteKey, part("client_key"))
	r.eq(s.Name+" server_write_key", keys.ServerWriteKey, part("server_key"))
	r.eq(s.Name+" client_write_IV", keys.ClientWriteIV, part("client_iv"))
	r.eq(s.Name+" server_write_IV", keys.ServerWriteIV, part("server_iv"))
	// the suite object must exist, carry the RFC id and the PRF hash of the table
	id := ciphersuite.ID(uint16(s.ID[0])<<8 | uint16(s.ID[1]))
	cs := ciphersuite.ForID(id, nil)
	if cs == nil {
		r.bad("suite %s (%04x) unknown to the library", s.Name, uint16(id))

		return
	}
	r.evals++
	probe := []byte("hash probe")
	r.eq(s.Name+" PRF hash", c10Digest(cs.HashFunc(), probe), c10Digest(h, probe))
}

func c10DoPrf(v *c10Vec, rng *mrand.Rand, r *c10Res) { //nolint:cyclop
	h := c10Hash(v.Hash)
	switch v.K {
	case "premaster":
		if v.Which == "pm_psk" {
			r.eq("PSK premaster", prf.PSKPreMasterSecret(v.PSK), v.Out)
		} else {
			// RFC 5489: the layout around Z; Z itself comes from a real ECDH so that the library can compute it
			curve := elliptic.X25519
			if len(v.Z) == 48 {
				curve = elliptic.P384
			}
			a, err1 := elliptic.GenerateKeypair(curve)
			b, err2 := elliptic.GenerateKeypair(curve)
			if err1 != nil || err2 != nil {
				r.layout = append(r.layout, "keypair generation failed")

				return
			}
			z, err := prf.PreMasterSecret(b.PublicKey, a.PrivateKey, curve)
			if err != nil || len(z) != len(v.Z) {
				r.layout = append(r.layout, fmt.Sprintf("ecdh: %v len %d", err, len(z)))

				return
			}
			want := bytes.Replace(bytes.Clone(v.Out), v.Z, z, 1)
			if bytes.Count(v.Out, v.Z) != 1 {
				r.layout = append(r.layout, "Z not unique in TLC premaster")

				return
			}
			got, err := prf.EcdhePSKPreMasterSecret(v.PSK, b.PublicKey, a.PrivateKey, curve)
			if err != nil {
				r.bad("EcdhePSKPreMasterSecret: %v", err)

				return
			}
			r.eq("ECDHE_PSK premaster", got, want)
		}

		return
	case "signed_kx":
		r.eq("ServerKeyExchange signed params", dtlscrypto.ValueKeyMessage(v.CR, v.SR, v.Public, elliptic.Curve(v.Curve)), v.Out) //nolint:gosec

		return
	}
	secret := c10Fill(rng, []int{48, 32, 1, 66, 130}[rng.Intn(5)])
	if v.Which != "master" && v.Which != "ems" {
		secret = c10Fill(rng, 48)
	}
	want, err := c10RunPlan(h, v.Plan, map[string][]byte{"secret": secret, "seed": v.Seed})
	if err != nil {
		r.layout = append(r.layout, err.Error())

		return
	}
	r.lay("P_hash plan vs direct", c10PHash(h, secret, v.Seed, v.N), want)
	lib, err := prf.PHash(secret, v.Seed, v.N, h)
	if err != nil {
		r.bad("PHash: %v", err)
	}
	r.eq("PHash("+v.Which+")", lib, want)
	switch v.Which {
	case "master":
		lib, err = prf.MasterSecret(secret, v.CR, v.SR, h)
		r.eq("MasterSecret", lib, want)
	case "ems":
		lib, err = prf.ExtendedMasterSecret(secret, v.SessHash, h)
		r.eq("ExtendedMasterSecret", lib, want)
	case "cfin", "sfin":
		// the library hashes the handshake messages itself: choose messages, put their real hash
		// where TLC put its handshake_hash (the layout is a pure concatenation)
		bodies := c10Fill(rng, 1+rng.Intn(700))
		real := c10Digest(h, bodies)
		if bytes.Count(v.Seed, v.HsHash) != 1 {
			r.layout = append(r.layout, "handshake hash not unique in seed")

			return
		}
		seed := bytes.Replace(bytes.Clone(v.Seed), v.HsHash, real, 1)
		want, _ = c10RunPlan(h, v.Plan, map[string][]byte{"secret": secret, "seed": seed})
		if v.Which == "cfin" {
			lib, err = prf.VerifyDataClient(secret, bodies, h)
		} else {
			lib, err = prf.VerifyDataServer(secret, bodies, h)
		}
		r.eq("verify_data "+v.Which, lib, want)
	case "exporter":
		st := &State{localEpoch: 1, masterSecret: secret, isClient: rng.Intn(2) == 0}
		id := TLS_ECDHE_ECDSA_WITH_AES_128_GCM_SHA256
		if v.Hash == "sha384" {
			id = TLS_ECDHE_ECDSA_WITH_AES_256_GCM_SHA384
		}
		st.CipherSuiteID = id
		var cr, sr [32]byte
		copy(cr[:], v.CR)
		copy(sr[:], v.SR)
		if st.isClient {
			st.localRandom.UnmarshalFixed(cr)
			st.remoteRandom.UnmarshalFixed(sr)
		} else {
			st.localRandom.UnmarshalFixed(sr)
			st.remoteRandom.UnmarshalFixed(cr)
		}
		var ctx []byte
		if v.HasCtx {
			ctx = v.Context
			if ctx == nil {
				ctx = []byte{}
			}
		}
		lib, err = st.ExportKeyingMaterial(string(v.Label), ctx, v.N)
		if err != nil {
			if len(ctx) != 0 {
				// RFC 5705 contexts are not offered by the library: an error, never wrong bytes
				return
			}
			r.bad("ExportKeyingMaterial(%s): %v", string(v.Label), err)

			return
		}
		if v.HasCtx && len(ctx) == 0 {
			// zero-length context given: RFC 5705 distinguishes it from "no context"; Go API cannot
			// (nil and empty slices are the same length): skip rather than guess
			return
		}
		r.eq("ExportKeyingMaterial", lib, want)
	}
	if err != nil {
		r.bad("%s: %v", v.Which, err)
	}
}

// c10Suite12Params finds the RFC table entry the record vector names (vectors carry kind/tag/mac themselves)
func c10Init12(name string, ms, cr, sr []byte, isClient bool) (ciphersuite.CipherSuite, error) {
	id, ok := suiteByName[name]
	if !ok {
		return nil, fmt.Errorf("%w: suite %s", errC10Plan, name)
	}
	cs := ciphersuite.ForID(ciphersuite.ID(id), nil)
	if cs == nil {
		return nil, fmt.Errorf("%w: suite %s not in library", errC10Plan, name)
	}

	return cs, cs.Init(ms, cr, sr, isClient)
}

func c10DoRec12(v *c10Vec, rng *mrand.Rand, r *c10Res, suites map[string]c10Suite) { //nolint:cyclop,gocognit,gocyclo,maintidx
	_, name := v.suite()
	s, ok := suites[name]
	if !ok {
		r.layout = append(r.layout, "suite table missing "+name)

		return
	}
	epoch := uint16(v.Epoch) //nolint:gosec
	seq := c10Limbs(v.Seq)
	// Go layouts against TLC
	if v.UseCID {
		r.lay("inner plaintext", c10Inner(v.Content, byte(v.CType), v.Zeros), v.Plain)
		if s.Kind == "cbc" {
			r.lay("mac input cid", c10MacInputCID(epoch, seq, c10V12, v.CID, v.Plain), v.MacInput)
		} else {
			r.lay("aad cid", c10AADCID(epoch, seq, c10V12, v.CID, len(v.Plain)), v.AAD)
		}
	} else {
		if s.Kind == "cbc" {
			r.lay("mac input", c10MacInput12(epoch, seq, byte(v.CType), c10V12, v.Plain), v.MacInput)
		} else {
			r.lay("aad", c10AAD12(epoch, seq, byte(v.CType), c10V12, len(v.Plain)), v.AAD)
		}
	}
	if s.Kind == "chacha" {
		r.lay("xor nonce", c10NonceXor(v.IV, uint64(epoch)<<48|seq), v.Nonce)
	}
	// secrets: master secret and randoms are free; keys follow from the key block (suite table of the spec)
	h := c10Hash(s.Prf)
	ms, cr, sr := c10Fill(rng, 48), c10Fill(rng, 32), c10Fill(rng, 32)
	ivLen := s.IV
	kbLen := 2*s.Mac + 2*s.Key + 2*ivLen
	kb := c10PHash(h, ms, c10Cat([]byte("key expansion"), sr, cr), kbLen)
	k := c10SplitKeyBlock(kb, s.Mac, s.Key, ivLen)
	// TLC's nonce was computed for TLC's IV: recompute with the derived IV through the validated layout
	nonceFor := func(iv, explicit []byte) []byte {
		if s.Kind == "chacha" {
			return c10NonceXor(iv, uint64(epoch)<<48|seq)
		}

		return c10Cat(iv, explicit)
	}
	if s.Kind == "gcm" || s.Kind == "ccm" {
		r.lay("explicit nonce layout", c10Cat(v.IV, v.Explicit), v.Nonce)
	}
	hdr := recordlayer.Header{
		ContentType: protocol.ContentType(v.RecType), Version: protocol.Version1_2, //nolint:gosec
		Epoch: epoch, SequenceNumber: seq, ContentLen: uint16(len(v.Plain)), //nolint:gosec
	}
	if v.UseCID {
		hdr.ConnectionID = v.CID
	}
	rawHdr, err := hdr.Marshal()
	if err != nil {
		r.bad("header marshal: %v", err)

		return
	}
	r.eq("record header (plaintext length)", rawHdr, v.HdrPlain)
	for _, libIsClient := range []bool{true, false} {
		cs, err := c10Init12(name, ms, cr, sr, libIsClient)
		if err != nil {
			r.bad("Init(%s): %v", name, err)

			return
		}
		lKey, lIV, lMac := k.cKey, k.cIV, k.cMac
		pKey, pIV, pMac := k.sKey, k.sIV, k.sMac
		if !libIsClient {
			lKey, lIV, lMac, pKey, pIV, pMac = pKey, pIV, pMac, lKey, lIV, lMac
		}
		pkt := &recordlayer.RecordLayer{Header: hdr}
		libOut, err := cs.Encrypt(pkt, c10Cat(rawHdr, v.Plain))
		if err != nil {
			r.bad("%s Encrypt: %v", name, err)

			continue
		}
		who := fmt.Sprintf("%s client=%v cid=%d", name, libIsClient, len(v.CID))
		decHdr := recordlayer.Header{}
		if v.UseCID {
			decHdr.ConnectionID = make([]byte, len(v.CID))
		}
		wantPlain := c10Cat(v.HdrPlain, v.Plain)
		if s.Kind == "cbc" { //nolint:nestif
			// library -> oracle: header, CBC structure, MAC over the TLC MAC input
			r.evals++
			if len(libOut) < len(v.HdrOut) || !bytes.Equal(libOut[:len(v.HdrOut)-2], v.HdrOut[:len(v.HdrOut)-2]) {
				r.bad("%s: protected record header %s, expected %s", who, c10hex(libOut), c10hex(v.HdrOut))

				continue
			}
			frag := libOut[len(v.HdrOut):]
			body, ok := c10CBCOpen(lKey, frag)
			if !ok || len(body) < s.Mac || !bytes.Equal(body[:len(body)-s.Mac], v.Plain) {
				r.bad("%s: library CBC record does not decrypt to content||MAC||padding with the client/server write key", who)

				continue
			}
			wantMac := c10HMAC(c10Hash(s.Mach), lMac, v.MacInput)
			r.eq(who+" CBC MAC (RFC 5246 6.2.3.1 / RFC 9146 5.1 input)", body[len(body)-s.Mac:], wantMac)
			r.evals++
			if int(libOut[len(v.HdrOut)-2])<<8|int(libOut[len(v.HdrOut)-1]) != len(frag) {
				r.bad("%s: length field %d != fragment %d", who, int(libOut[len(v.HdrOut)-2])<<8|int(libOut[len(v.HdrOut)-1]), len(frag))
			}
			// oracle -> library, with every legal padding length class (minimal and one longer)
			for _, pad := range c10PickPads(v.Pads, v.MinPad, rng) {
				iv := make([]byte, 16)
				_, _ = rand.Read(iv)
				peerMac := c10HMAC(c10Hash(s.Mach), pMac, v.MacInput)
				fragO := c10CBCSeal(pKey, iv, v.Plain, peerMac, pad)
				rec := c10Cat(v.HdrOut[:len(v.HdrOut)-2], c10U16(len(fragO)), fragO)
				got, err := cs.Decrypt(decHdr, bytes.Clone(rec))
				r.evals++
				if err != nil {
					r.bad("%s: library rejects a conforming CBC record (padding %d): %v", who, pad, err)

					continue
				}
				c10EqPlain(r, who+" Decrypt(oracle CBC record)", got, wantPlain, len(v.HdrPlain))
			}

			continue
		}
		la, err := c10NewAEAD(s.Kind, lKey, s.Tag)
		pa, err2 := c10NewAEAD(s.Kind, pKey, s.Tag)
		if err != nil || err2 != nil {
			r.layout = append(r.layout, fmt.Sprintf("aead: %v %v", err, err2))

			return
		}
		// library -> oracle: byte for byte (TLC header, TLC explicit nonce, primitive over TLC AAD)
		want := c10Cat(v.HdrOut, v.Explicit, la.Seal(nonceFor(lIV, v.Explicit), v.Plain, v.AAD))
		r.eq(who+" Encrypt", libOut, want)
		// oracle -> library: a conforming peer may pick any explicit nonce (RFC 5288 3)
		explicit := bytes.Clone([]byte(v.Explicit))
		if len(explicit) > 0 && rng.Intn(2) == 0 {
			explicit = c10Fill(rng, 8)
		}
		rec := c10Cat(v.HdrOut, explicit, pa.Seal(nonceFor(pIV, explicit), v.Plain, v.AAD))
		got, err := cs.Decrypt(decHdr, bytes.Clone(rec))
		r.evals++
		if err != nil {
			r.bad("%s: library rejects a conforming record: %v", who, err)

			continue
		}
		c10EqPlain(r, who+" Decrypt(oracle record)", got, wantPlain, len(v.HdrPlain))
		// sanity of the oracle direction: a record protected under a wrong AAD length must not open
		badAAD := bytes.Clone([]byte(v.AAD))
		badAAD[len(badAAD)-1] ^= 1
		if _, err := cs.Decrypt(decHdr, c10Cat(v.HdrOut, explicit, pa.Seal(nonceFor(pIV, explicit), v.Plain, badAAD))); err == nil {
			r.bad("%s: library opens a record whose additional data carries another length", who)
		}
	}
}

// c10EqPlain compares what Decrypt returns (header || plaintext) with the expectation, leaving out the
// header's length field (the library keeps the ciphertext length there; not a wire matter).
func c10EqPlain(r *c10Res, what string, got, want []byte, hdrLen int) {
	if len(got) < hdrLen {
		r.bad("%s: short result %s", what, c10hex(got))

		return
	}
	r.eq(what+" header", got[:hdrLen-2], want[:hdrLen-2])
	r.eq(what+" plaintext", got[hdrLen:], want[hdrLen:])
}

func c10PickPads(pads []int, minPad int, rng *mrand.Rand) []int {
	out := []int{minPad}
	var longer []int
	for _, p := range pads {
		if p != minPad {
			longer = append(longer, p)
		}
	}
	if len(longer) > 0 {
		out = append(out, longer[rng.Intn(len(longer))], longer[len(longer)-1])
	}

	return out
}

func c10DoHkdf(v *c10Vec, rng *mrand.Rand, r *c10Res) {
	switch v.K {
	case "certverify":
		return // checked in-package (harness/handshake), here only the Go restatement
	case "hkdf_label":
		r.lay("HkdfLabel", c10HkdfLabel(v.N, string(v.Label), v.Context), v.Info)
		for _, hn := range []string{"sha256", "sha384"} {
			h := c10Hash(hn)
			plan := v.Plan32
			if hn == "sha384" {
				plan = v.Plan48
			}
			secret := c10Fill(rng, h().Size())
			want, err := c10RunPlan(h, plan, map[string][]byte{"prk": secret, "info": v.Info})
			if err != nil {
				r.layout = append(r.layout, err.Error())

				return
			}
			r.lay("HKDF-Expand plan vs direct", c10Expand(h, secret, v.Info, v.N), want)
			lib, err := keyschedule.HkdfExpandLabel(h, secret, string(v.Label), v.Context, v.N)
			if err != nil {
				r.bad("HkdfExpandLabel(%q): %v", string(v.Label), err)

				continue
			}
			r.eq("HkdfExpandLabel("+string(v.Label)+","+hn+")", lib, want)
			// HKDF-Extract = HMAC(salt, ikm) (RFC 5869 2.2)
			salt, ikm := c10Fill(rng, rng.Intn(2)*h().Size()), c10Fill(rng, 1+rng.Intn(64))
			libX, err := keyschedule.HkdfExtract(h, salt, ikm)
			if err != nil {
				r.bad("HkdfExtract: %v", err)

				continue
			}
			r.eq("HkdfExtract", libX, c10Extract(h, salt, ikm))
		}
	}
}

func c10DoRec13(v *c10Vec, rng *mrand.Rand, r *c10Res, suites map[string]c10Suite) { //nolint:cyclop
	_, name := v.suite()
	s, ok := suites[name]
	if !ok {
		r.layout = append(r.layout, "suite13 table missing "+name)

		return
	}
	u := v.UHdr
	seq64 := c10Limbs(v.Seq64)
	r.lay("unified header", c10UHdr(u.CID, u.S, uint16(u.Seq), u.L, u.Len, uint16(u.Epoch)), v.AAD) //nolint:gosec
	r.lay("nonce13", c10NonceXor(v.IV, seq64), v.Nonce)
	r.lay("inner", c10Inner(v.Content, byte(v.CType), v.Zeros), v.Inner)
	r.lay("mask application", c10ApplyMask(v.AAD, len(u.CID), u.S, v.Mask), v.Masked)
	h := c10Hash(s.Hash)
	secret := c10Fill(rng, h().Size())
	key := c10ExpandLabel(h, secret, "key", nil, s.Key)
	iv := c10ExpandLabel(h, secret, "iv", nil, 12)
	sn := c10ExpandLabel(h, secret, "sn", nil, s.Key)
	aead, err := c10NewAEAD(s.Kind, key, s.Tag)
	if err != nil {
		r.layout = append(r.layout, err.Error())

		return
	}
	id := suiteByName[name]
	cs13, ok := ciphersuite.ForID(ciphersuite.ID(id), nil).(ciphersuite.CipherSuiteTLS13)
	if !ok {
		r.bad("suite %s has no DTLS 1.3 record protection", name)

		return
	}
	prot, err := cs13.NewRecordProtection(secret)
	if err != nil {
		r.bad("NewRecordProtection: %v", err)

		return
	}
	who := fmt.Sprintf("%s cid=%d S=%v L=%v", name, len(u.CID), u.S, u.L)
	// oracle -> library for every header shape (C, S, L): TLC's header is the additional data
	ct := aead.Seal(c10NonceXor(iv, seq64), v.Inner, v.AAD)
	if len(ct) != v.EncLen {
		r.layout = append(r.layout, fmt.Sprintf("enc_len %d != %d", len(ct), v.EncLen))
	}
	mask, err := c10SnMask(s.Sn, sn, ct)
	if err != nil {
		r.layout = append(r.layout, err.Error())

		return
	}
	wire := c10ApplyMask(v.AAD, len(u.CID), u.S, mask)
	var wh recordlayer.UnifiedHeader
	wh.ConnectionID = make([]byte, len(u.CID))
	if err := wh.Unmarshal(wire); err != nil {
		r.bad("%s: unified header unmarshal: %v", who, err)

		return
	}
	clear, err := prot.UnmaskSequenceNumber(wh, ct)
	r.evals++
	if err != nil {
		r.bad("%s: UnmaskSequenceNumber: %v", who, err)

		return
	}
	if int(clear.SequenceNumber) != u.Seq {
		r.bad("%s: unmasked sequence bits %d, expected %d (RFC 9147 4.2.3)", who, clear.SequenceNumber, u.Seq)
	}
	ip, err := prot.Open(wh, seq64, ct)
	r.evals++
	if err != nil {
		r.bad("%s: library rejects a conforming DTLS 1.3 record: %v", who, err)
	} else {
		r.eq(who+" Open content", ip.Content, v.Content)
		if int(ip.RealType) != v.CType {
			r.bad("%s: Open type %d != %d", who, ip.RealType, v.CType)
		}
	}
	// library -> oracle: the library always sends S=1, L=1, no padding
	if u.S && u.L && v.Zeros == 0 {
		rec, err := prot.Seal(recordlayer.UnifiedHeader{ConnectionID: u.CID, EpochLow: uint8(u.Epoch)}, seq64, //nolint:gosec
			protocol.ContentType(v.CType), v.Content) //nolint:gosec
		if err != nil {
			r.bad("%s: Seal: %v", who, err)

			return
		}
		r.eq(who+" Seal ciphertext", rec.EncryptedRecord, ct)
		hb, err := rec.Header.Marshal()
		if err != nil {
			r.bad("%s: header marshal: %v", who, err)

			return
		}
		r.eq(who+" Seal header (masked)", hb, wire)
	}
}

// c10CCMSelfTest checks the harness CCM against RFC 3610 packet vector #1.
func c10CCMSelfTest() string {
	key, _ := hex.DecodeString("c0c1c2c3c4c5c6c7c8c9cacbcccdcecf")
	nonce, _ := hex.DecodeString("00000003020100a0a1a2a3a4a5")
	aad, _ := hex.DecodeString("0001020304050607")
	pt, _ := hex.DecodeString("08090a0b0c0d0e0f101112131415161718191a1b1c1d1e")
	want, _ := hex.DecodeString("588c979a61c663d2f066d0c2c0f989806d5f6b61dac38417e8d12cfdf926e0")
	a, err := c10NewAEAD("ccm", key, 8)
	if err != nil {
		return err.Error()
	}
	if got := a.Seal(nonce, pt, aad); !bytes.Equal(got, want) {
		return "harness CCM fails RFC 3610 packet vector #1: " + hex.EncodeToString(got)
	}
	if back, ok := a.Open(nonce, want, aad); !ok || !bytes.Equal(back, pt) {
		return "harness CCM does not open RFC 3610 packet vector #1"
	}

	return ""
}

// TestVerifC10Vectors is the entry point (see file comment).
func TestVerifC10Vectors(t *testing.T) { //nolint:cyclop
	in, out := os.Getenv("VERIF_IN"), os.Getenv("VERIF_OUT")
	if in == "" || out == "" {
		t.Skip("VERIF_IN / VERIF_OUT not set")
	}
	seed, _ := strconv.ParseInt(os.Getenv("VERIF_SEED"), 10, 64)
	rng := mrand.New(mrand.NewSource(seed)) //nolint:gosec
	fin, err := os.Open(in)                 //nolint:gosec
	if err != nil {
		t.Fatal(err)
	}
	defer fin.Close() //nolint:errcheck
	fout, err := os.Create(out) //nolint:gosec
	if err != nil {
		t.Fatal(err)
	}
	defer fout.Close() //nolint:errcheck
	enc := json.NewEncoder(fout)
	journal := os.Getenv("VERIF_JOURNAL")
	sc := bufio.NewScanner(fin)
	sc.Buffer(make([]byte, 1<<20), 1<<26)
	var vecs []*c10Vec
	for sc.Scan() {
		v := &c10Vec{}
		if err := json.Unmarshal(sc.Bytes(), v); err != nil {
			t.Fatalf("vector %d: %v", len(vecs), err)
		}
		vecs = append(vecs, v)
	}
	suites := map[string]c10Suite{}
	for _, v := range vecs {
		if v.K == "suite12" || v.K == "suite13" {
			s, _ := v.suite()
			suites[s.Name] = s
		}
	}
	total, nviol, nlay := 0, 0, 0
	if msg := c10CCMSelfTest(); msg != "" {
		nlay++
		_ = enc.Encode(map[string]any{"i": -1, "k": "selftest", "layout": []string{msg}})
	}
	for i, v := range vecs {
		if journal != "" {
			_ = os.WriteFile(journal, []byte(strconv.Itoa(i)), 0o600)
		}
		r := &c10Res{}
		switch v.K {
		case "suite12":
			c10DoSuite12(v, rng, r)
		case "suite13":
		case "prf", "premaster", "signed_kx":
			c10DoPrf(v, rng, r)
		case "rec12":
			c10DoRec12(v, rng, r, suites)
		case "hkdf_label", "certverify", "ks_graph":
			c10DoHkdf(v, rng, r)
		case "rec13":
			c10DoRec13(v, rng, r, suites)
		default:
			r.layout = append(r.layout, "unknown vector kind "+v.K)
		}
		total += r.evals
		if len(r.viol) > 0 || len(r.layout) > 0 {
			nviol += len(r.viol)
			nlay += len(r.layout)
			_, name := v.suite()
			_ = enc.Encode(map[string]any{"i": i, "k": v.K, "suite": name, "kind": v.Kind, "cid": v.UseCID, "viol": r.viol, "layout": r.layout})
		}
	}
	_ = enc.Encode(map[string]any{"summary": true, "vectors": len(vecs), "evaluations": total, "viol": nviol, "layout": nlay})
}
