//go:build verif

package dtls

import (
	"encoding/hex"
	"fmt"
	"os"
	"strings"
	"testing"
	"time"
)

// exploratory: inject hostile datagrams into a client during a DTLS 1.3 + CID handshake, one at a time
func TestVerifExploreInject(t *testing.T) {
	for _, hx := range strings.Fields(os.Getenv("VERIF_INJECT")) {
		d, _ := hex.DecodeString(hx)
		r := newLabRun()
		scen := scenCfg{Ver: envOr("VERIF_VER", "13"), HelloVerify: true, CurvesC: []int{29}, CurvesS: []int{29}, CIDc: 4, CIDs: 4}
		if err := r.setup(&scen, &scenStores{}); err != nil {
			t.Fatal(err)
		}
		r.net.Inject(envOr("VERIF_TO", "c"), labAddr("s"), d)
		ce, se := r.handshakeLossless(4 * time.Second)
		fmt.Printf("%s... -> client=%v server=%v\n", hx[:26], ce, se)
		r.closeAll()
	}
}
