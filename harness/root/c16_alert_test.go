// C16 "a received fatal alert closes the connection in the same way [as Close]; the peer's Read then returns EOF":
// instances of Lifecycle.tla's peer scripts on real connections where the application is NOT in Read when the alert
// arrives and at most one datagram is still unread (what the endpoint has taken from its socket).  After the alert has
// been processed the connection must be closed whatever is still unread: Write fails with a closed-class error, Read
// hands out what was received and then EOF / closed, Close returns and nothing is left running.

//go:build verif

package dtls

import (
	"context"
	"encoding/json"
	"errors"
	"fmt"
	"io"
	"net"
	"os"
	"testing"
	"time"

	"github.com/pion/dtls/v3/pkg/protocol/alert"
)

type c16alCase struct {
	Name   string  `json:"name"`
	Scen   scenCfg `json:"scen"`
	Side   string  `json:"side"`   // endpoint under test (receives the alert)
	Unread int     `json:"unread"` // application datagrams delivered before the alert and not read
	Alert  string  `json:"alert"`  // "close_notify" (the peer calls Close) | "fatal" (the peer sends a fatal alert) |
	//                                "close-in-handshake" (no peer action: Close is called while the handshake is still waiting for a silent peer)
	Desc int `json:"desc"` // description of the fatal alert (0 = handshake_failure); any value is an alert the peer may send
}

type c16alResult struct {
	Case       int      `json:"case"`
	Name       string   `json:"name"`
	Lab        string   `json:"lab,omitempty"`
	WriteErr   string   `json:"writeErr"`
	Reads      int      `json:"reads"`
	ReadErr    string   `json:"readErr"`
	CloseOK    bool     `json:"closeOk"`
	Violations []string `json:"violations,omitempty"`
}

func c16alClosedClass(err error) bool {
	return err != nil && (errors.Is(err, io.EOF) || errors.Is(err, net.ErrClosed) || errors.Is(err, ErrConnClosed) || errors.Is(err, context.Canceled) ||
		func() bool { var ae *alertError; return errors.As(err, &ae) }())
}

// runC16CloseInHandshake: Handshake is blocked on a silent peer (nothing is delivered), then Close is called - twice.
// Both Close calls and the Handshake call return promptly, and nothing of the library is left running afterwards.
func runC16CloseInHandshake(idx int, cs *c16alCase) c16alResult {
	res := c16alResult{Case: idx, Name: cs.Name}
	r := newLabRun()
	scen := cs.Scen
	if err := r.setup(&scen, &scenStores{}); err != nil {
		res.Lab = err.Error()

		return res
	}
	defer r.closeAll()
	e := r.c
	if cs.Side == "s" {
		e = r.s
	}
	ctx, cancel := context.WithTimeout(context.Background(), 20*time.Second)
	defer cancel()
	e.startHandshake(ctx) // scripted network: nothing reaches the peer, nothing comes back
	time.Sleep(60 * time.Millisecond)
	for k := 0; k < 2; k++ {
		done := make(chan struct{})
		go func() { _ = e.conn.Close(); close(done) }()
		select {
		case <-done:
		case <-time.After(4 * time.Second):
			res.Violations = append(res.Violations, fmt.Sprintf("Close call %d did not return within 4 s while the handshake was waiting for a silent peer", k+1))

			return res
		}
	}
	res.CloseOK = true
	select {
	case <-e.hsDone:
		if e.hsErr == nil {
			res.Violations = append(res.Violations, "Handshake returned nil after Close")
		}
	case <-time.After(4 * time.Second):
		res.Violations = append(res.Violations, "the pending Handshake call was not released by Close")
	}

	return res
}

func runC16Alert(idx int, cs *c16alCase) c16alResult {
	if cs.Alert == "close-in-handshake" {
		return runC16CloseInHandshake(idx, cs)
	}
	res := c16alResult{Case: idx, Name: cs.Name}
	r := newLabRun()
	scen := cs.Scen
	if err := r.setup(&scen, &scenStores{}); err != nil {
		res.Lab = err.Error()

		return res
	}
	defer r.closeAll()
	if ce, se := r.handshakeLossless(5 * time.Second); ce != nil || se != nil {
		res.Lab = fmt.Sprintf("handshake failed: %v / %v", ce, se)

		return res
	}
	r.waitQuiet(2 * time.Second)
	e, peer := r.c, r.s
	if cs.Side == "s" {
		e, peer = r.s, r.c
	}
	for k := 0; k < cs.Unread; k++ {
		if _, err := peer.conn.Write([]byte(fmt.Sprintf("unread-%d", k))); err != nil {
			res.Lab = "peer write: " + err.Error()

			return res
		}
	}
	r.waitQuiet(2 * time.Second)
	switch cs.Alert {
	case "close_notify":
		go func() { _ = peer.conn.Close() }()
	default:
		go func() {
			ctx, cancel := context.WithTimeout(context.Background(), 2*time.Second)
			defer cancel()
			desc := alert.HandshakeFailure
			if cs.Desc != 0 {
				desc = alert.Description(cs.Desc) //nolint:gosec
			}
			_ = peer.conn.notify(ctx, alert.Fatal, desc)
		}()
	}
	// give the endpoint time to process the alert (it is not read by the application: nobody is in Read)
	time.Sleep(150 * time.Millisecond)
	r.waitQuiet(2 * time.Second)
	_, werr := e.conn.Write([]byte("after-the-alert"))
	res.WriteErr = errString(werr)
	if werr == nil {
		// once more a little later: the close may still be under way
		time.Sleep(300 * time.Millisecond)
		_, werr = e.conn.Write([]byte("after-the-alert-2"))
		res.WriteErr = errString(werr)
	}
	if werr == nil {
		res.Violations = append(res.Violations, fmt.Sprintf("the peer's %s arrived %d ms ago with %d datagram(s) unread and nobody in Read: the connection is still open, Write succeeds",
			cs.Alert, 450, cs.Unread))
	} else if !c16alClosedClass(werr) {
		res.Violations = append(res.Violations, "Write after the peer's alert fails with an error that is neither closed nor EOF: "+werr.Error())
	}
	// Read: what was received, then EOF / closed
	buf := make([]byte, 2048)
	for i := 0; i < cs.Unread+2; i++ {
		_ = e.conn.SetReadDeadline(time.Now().Add(2 * time.Second))
		n, err := e.conn.Read(buf)
		if err != nil {
			res.ReadErr = err.Error()
			if !c16alClosedClass(err) {
				res.Violations = append(res.Violations, "Read after the peer's alert: "+err.Error()+" (expected the unread data, then EOF / closed)")
			}

			break
		}
		if n > 0 {
			res.Reads++
		}
	}
	if res.ReadErr == "" {
		res.Violations = append(res.Violations, "Read never returned EOF / closed after the peer's alert")
	}
	done := make(chan struct{})
	go func() { _ = e.conn.Close(); close(done) }()
	select {
	case <-done:
		res.CloseOK = true
	case <-time.After(5 * time.Second):
		res.Violations = append(res.Violations, "Close did not return after the peer's alert")
	}

	return res
}

func TestVerifC16Alerts(t *testing.T) {
	var cases []c16alCase
	raw, err := os.ReadFile(os.Getenv("VERIF_IN"))
	if err != nil {
		t.Fatal(err)
	}
	if err := json.Unmarshal(raw, &cases); err != nil {
		t.Fatal(err)
	}
	getPKI()
	out, err := os.Create(os.Getenv("VERIF_OUT"))
	if err != nil {
		t.Fatal(err)
	}
	defer out.Close()
	enc := json.NewEncoder(out)
	for i := range cases {
		if err := enc.Encode(runC16Alert(i, &cases[i])); err != nil {
			t.Fatal(err)
		}
	}
}
