// C10 oracle: "spec layout o standard-library primitive".
//
// Nothing in this file calls the library's crypto packages (pkg/crypto/prf, ciphersuite, ccm,
// keyschedule, internal/ciphersuite).  Primitives: crypto/hmac, crypto/sha1/256/512, crypto/aes,
// cipher.NewGCM, x/crypto/chacha20(poly1305) and a CCM written here from RFC 3610.  The layout
// functions (c10AAD..., c10HkdfLabel, ...) restate spec/Codec.tla and are validated against the
// TLC-generated vectors before they are used (see c10CheckLayouts): for TLC tuples the expected
// value is computed from the TLC-printed bytes themselves.

//go:build verif

package dtls

import (
	"bytes"
	"crypto/aes"
	"crypto/cipher"
	"crypto/hmac"
	"crypto/sha1" //nolint:gosec
	"crypto/sha256"
	"crypto/sha512"
	"crypto/subtle"
	"encoding/binary"
	"encoding/json"
	"errors"
	"fmt"
	"hash"

	"golang.org/x/crypto/chacha20"
	"golang.org/x/crypto/chacha20poly1305"
)

// bs is a byte string that travels as a JSON array of numbers (TLC's ToJson of a sequence).
type bs []byte

func (b *bs) UnmarshalJSON(data []byte) error {
	var ints []int
	if err := json.Unmarshal(data, &ints); err != nil {
		return err
	}
	out := make([]byte, len(ints))
	for i, v := range ints {
		if v < 0 || v > 255 {
			return fmt.Errorf("byte out of range: %d", v) //nolint:err113
		}
		out[i] = byte(v)
	}
	*b = out

	return nil
}

func (b bs) MarshalJSON() ([]byte, error) {
	ints := make([]int, len(b))
	for i, v := range b {
		ints[i] = int(v)
	}

	return json.Marshal(ints)
}

func c10Hash(name string) func() hash.Hash {
	switch name {
	case "sha384":
		return sha512.New384
	case "sha1":
		return sha1.New
	default:
		return sha256.New
	}
}

func c10HMAC(h func() hash.Hash, key []byte, parts ...[]byte) []byte {
	m := hmac.New(h, key)
	for _, p := range parts {
		m.Write(p)
	}

	return m.Sum(nil)
}

func c10Digest(h func() hash.Hash, parts ...[]byte) []byte {
	d := h()
	for _, p := range parts {
		d.Write(p)
	}

	return d.Sum(nil)
}

// ---------------------------------------------------------------------------
// HMAC plans (P_hash of RFC 5246 5, HKDF-Expand of RFC 5869 2.3) as printed by TLC

type c10Step struct {
	Out  string            `json:"out"`
	Key  string            `json:"key"`
	Data []json.RawMessage `json:"data"`
}

type c10Plan struct {
	Steps  []c10Step `json:"steps"`
	Result []string  `json:"result"`
	Take   int       `json:"take"`
}

var errC10Plan = errors.New("c10: malformed plan")

func c10RunPlan(h func() hash.Hash, p *c10Plan, env map[string][]byte) ([]byte, error) {
	loc := map[string][]byte{}
	for k, v := range env {
		loc[k] = v
	}
	for _, st := range p.Steps {
		key, ok := loc[st.Key]
		if !ok {
			return nil, fmt.Errorf("%w: key %q", errC10Plan, st.Key)
		}
		var data []byte
		for _, raw := range st.Data {
			var name string
			if err := json.Unmarshal(raw, &name); err == nil {
				v, ok := loc[name]
				if !ok {
					return nil, fmt.Errorf("%w: ref %q", errC10Plan, name)
				}
				data = append(data, v...)

				continue
			}
			var lit bs
			if err := json.Unmarshal(raw, &lit); err != nil {
				return nil, fmt.Errorf("%w: %s", errC10Plan, raw)
			}
			data = append(data, lit...)
		}
		loc[st.Out] = c10HMAC(h, key, data)
	}
	var out []byte
	for _, r := range p.Result {
		out = append(out, loc[r]...)
	}
	if p.Take > len(out) {
		return nil, fmt.Errorf("%w: take %d of %d", errC10Plan, p.Take, len(out))
	}

	return out[:p.Take], nil
}

// the same two algorithms written directly (used where no TLC plan is at hand: live decoder);
// c10CheckLayouts compares them with the plans.
func c10PHash(h func() hash.Hash, secret, seed []byte, n int) []byte {
	var out []byte
	a := seed
	for len(out) < n {
		a = c10HMAC(h, secret, a)
		out = append(out, c10HMAC(h, secret, a, seed)...)
	}

	return out[:n]
}

func c10Extract(h func() hash.Hash, salt, ikm []byte) []byte {
	if len(salt) == 0 {
		salt = make([]byte, h().Size())
	}

	return c10HMAC(h, salt, ikm)
}

func c10Expand(h func() hash.Hash, prk, info []byte, n int) []byte {
	var out, t []byte
	for i := byte(1); len(out) < n; i++ {
		t = c10HMAC(h, prk, t, info, []byte{i})
		out = append(out, t...)
	}

	return out[:n]
}

// ---------------------------------------------------------------------------
// layouts (restated from spec/Codec.tla; validated against TLC vectors)

func c10U16(v int) []byte { return []byte{byte(v >> 8), byte(v)} }

func c10Seq48(seq uint64) []byte {
	var b [8]byte
	binary.BigEndian.PutUint64(b[:], seq)

	return b[2:]
}

func c10Cat(parts ...[]byte) []byte {
	var out []byte
	for _, p := range parts {
		out = append(out, p...)
	}

	return out
}

var c10V12 = []byte{254, 253} //nolint:gochecknoglobals

func c10AAD12(epoch uint16, seq uint64, ctype byte, ver []byte, plen int) []byte {
	return c10Cat(c10U16(int(epoch)), c10Seq48(seq), []byte{ctype}, ver, c10U16(plen))
}

func c10AADCID(epoch uint16, seq uint64, ver, cid []byte, innerLen int) []byte {
	return c10Cat(bytes.Repeat([]byte{0xff}, 8), []byte{25, byte(len(cid)), 25}, ver,
		c10U16(int(epoch)), c10Seq48(seq), cid, c10U16(innerLen))
}

func c10MacInput12(epoch uint16, seq uint64, ctype byte, ver, content []byte) []byte {
	return c10Cat(c10AAD12(epoch, seq, ctype, ver, len(content)), content)
}

func c10MacInputCID(epoch uint16, seq uint64, ver, cid, inner []byte) []byte {
	return c10Cat(c10AADCID(epoch, seq, ver, cid, len(inner)), inner)
}

func c10NonceXor(iv []byte, s64 uint64) []byte {
	out := bytes.Clone(iv)
	var b [8]byte
	binary.BigEndian.PutUint64(b[:], s64)
	for i := range 8 {
		out[len(out)-8+i] ^= b[i]
	}

	return out
}

func c10Inner(content []byte, ctype byte, zeros int) []byte {
	return c10Cat(content, []byte{ctype}, make([]byte, zeros))
}

func c10DecInner(b []byte) (content []byte, ctype byte, ok bool) {
	i := len(b) - 1
	for i >= 0 && b[i] == 0 {
		i--
	}
	if i < 0 {
		return nil, 0, false
	}

	return b[:i], b[i], true
}

func c10HkdfLabel(n int, label string, ctx []byte) []byte {
	full := "dtls13" + label

	return c10Cat(c10U16(n), []byte{byte(len(full))}, []byte(full), []byte{byte(len(ctx))}, ctx)
}

func c10ExpandLabel(h func() hash.Hash, secret []byte, label string, ctx []byte, n int) []byte {
	return c10Expand(h, secret, c10HkdfLabel(n, label, ctx), n)
}

// unified header: returns header bytes
func c10UHdr(cid []byte, sbit bool, seq uint16, lbit bool, length int, epoch uint16) []byte {
	first := byte(0x20) | byte(epoch&3)
	if len(cid) > 0 {
		first |= 0x10
	}
	out := []byte{first}
	out = append(out, cid...)
	if sbit {
		out[0] |= 0x08
		out = append(out, byte(seq>>8), byte(seq))
	} else {
		out = append(out, byte(seq))
	}
	if lbit {
		out[0] |= 0x04
		out = append(out, c10U16(length)...)
	}

	return out
}

func c10ApplyMask(hdr []byte, cidLen int, sbit bool, mask []byte) []byte {
	out := bytes.Clone(hdr)
	out[1+cidLen] ^= mask[0]
	if sbit {
		out[2+cidLen] ^= mask[1]
	}

	return out
}

// key block ranges in RFC 5246 6.3 order
type c10Keys struct {
	cMac, sMac, cKey, sKey, cIV, sIV []byte
}

func c10SplitKeyBlock(kb []byte, mac, key, iv int) c10Keys {
	take := func(n int) []byte {
		out := kb[:n]
		kb = kb[n:]

		return out
	}

	return c10Keys{cMac: take(mac), sMac: take(mac), cKey: take(key), sKey: take(key), cIV: take(iv), sIV: take(iv)}
}

// ---------------------------------------------------------------------------
// AEADs

type c10AEAD interface {
	Seal(nonce, plaintext, aad []byte) []byte
	Open(nonce, ciphertext, aad []byte) ([]byte, bool)
}

type c10Std struct{ a cipher.AEAD }

func (s c10Std) Seal(nonce, pt, aad []byte) []byte { return s.a.Seal(nil, nonce, pt, aad) }
func (s c10Std) Open(nonce, ct, aad []byte) ([]byte, bool) {
	out, err := s.a.Open(nil, nonce, ct, aad)

	return out, err == nil
}

// c10CCM is AES-CCM written from RFC 3610 (no standard-library primitive exists).
type c10CCM struct {
	b cipher.Block
	m int // tag length
}

func (c c10CCM) tagAndStream(nonce, pt, aad []byte) (tag []byte, s0 []byte) {
	l := 15 - len(nonce)
	var b0 [16]byte
	b0[0] = byte(((c.m-2)/2)<<3) | byte(l-1)
	if len(aad) > 0 {
		b0[0] |= 0x40
	}
	copy(b0[1:], nonce)
	for i := range l {
		b0[15-i] = byte(len(pt) >> (8 * i))
	}
	var x [16]byte
	c.b.Encrypt(x[:], b0[:])
	mac := func(data []byte) {
		for len(data) > 0 {
			var blk [16]byte
			n := copy(blk[:], data)
			data = data[n:]
			for i := range 16 {
				x[i] ^= blk[i]
			}
			c.b.Encrypt(x[:], x[:])
		}
	}
	if len(aad) > 0 {
		var enc []byte
		if len(aad) < 0xff00 {
			enc = []byte{byte(len(aad) >> 8), byte(len(aad))}
		} else {
			enc = []byte{0xff, 0xfe, byte(len(aad) >> 24), byte(len(aad) >> 16), byte(len(aad) >> 8), byte(len(aad))}
		}
		mac(append(enc, aad...))
	}
	mac(pt)
	var a0, st [16]byte
	a0[0] = byte(l - 1)
	copy(a0[1:], nonce)
	c.b.Encrypt(st[:], a0[:])

	return x[:c.m], st[:]
}

func (c c10CCM) ctr(nonce, in []byte) []byte {
	l := 15 - len(nonce)
	out := make([]byte, len(in))
	var a, st [16]byte
	a[0] = byte(l - 1)
	copy(a[1:], nonce)
	for off, ctr := 0, 1; off < len(in); off, ctr = off+16, ctr+1 {
		for i := range l {
			a[15-i] = byte(ctr >> (8 * i))
		}
		c.b.Encrypt(st[:], a[:])
		for i := 0; i < 16 && off+i < len(in); i++ {
			out[off+i] = in[off+i] ^ st[i]
		}
	}

	return out
}

func (c c10CCM) Seal(nonce, pt, aad []byte) []byte {
	tag, s0 := c.tagAndStream(nonce, pt, aad)
	out := c.ctr(nonce, pt)
	for i := range c.m {
		out = append(out, tag[i]^s0[i])
	}

	return out
}

func (c c10CCM) Open(nonce, ct, aad []byte) ([]byte, bool) {
	if len(ct) < c.m {
		return nil, false
	}
	pt := c.ctr(nonce, ct[:len(ct)-c.m])
	tag, s0 := c.tagAndStream(nonce, pt, aad)
	want := make([]byte, c.m)
	for i := range c.m {
		want[i] = tag[i] ^ s0[i]
	}
	if subtle.ConstantTimeCompare(want, ct[len(ct)-c.m:]) != 1 {
		return nil, false
	}

	return pt, true
}

func c10NewAEAD(kind string, key []byte, tag int) (c10AEAD, error) {
	switch kind {
	case "gcm":
		b, err := aes.NewCipher(key)
		if err != nil {
			return nil, err
		}
		g, err := cipher.NewGCM(b)

		return c10Std{g}, err
	case "ccm":
		b, err := aes.NewCipher(key)

		return c10CCM{b: b, m: tag}, err
	case "chacha":
		a, err := chacha20poly1305.New(key)

		return c10Std{a}, err
	}

	return nil, fmt.Errorf("%w: aead kind %q", errC10Plan, kind)
}

// CBC (RFC 5246 6.2.3.2): IV || AES-CBC(content || MAC || padding)
func c10CBCSeal(key, iv, content, mac []byte, padLen int) []byte {
	b, _ := aes.NewCipher(key)
	body := c10Cat(content, mac, bytes.Repeat([]byte{byte(padLen)}, padLen+1))
	out := make([]byte, len(body))
	cipher.NewCBCEncrypter(b, iv).CryptBlocks(out, body)

	return c10Cat(iv, out)
}

// returns content||MAC with padding removed
func c10CBCOpen(key, frag []byte) ([]byte, bool) {
	if len(frag) < 32 || len(frag)%16 != 0 {
		return nil, false
	}
	b, _ := aes.NewCipher(key)
	out := make([]byte, len(frag)-16)
	cipher.NewCBCDecrypter(b, frag[:16]).CryptBlocks(out, frag[16:])
	p := int(out[len(out)-1])
	if p+1 > len(out) {
		return nil, false
	}
	for _, x := range out[len(out)-p-1:] {
		if int(x) != p {
			return nil, false
		}
	}

	return out[:len(out)-p-1], true
}

// RFC 9147 4.2.3 record-number mask
func c10SnMask(alg string, snKey, ciphertext []byte) ([]byte, error) {
	if len(ciphertext) < 16 {
		return nil, fmt.Errorf("%w: ciphertext shorter than 16", errC10Plan)
	}
	sample := ciphertext[:16]
	if alg == "chacha20" {
		c, err := chacha20.NewUnauthenticatedCipher(snKey, sample[4:16])
		if err != nil {
			return nil, err
		}
		c.SetCounter(binary.LittleEndian.Uint32(sample[:4]))
		mask := make([]byte, 16)
		c.XORKeyStream(mask, mask)

		return mask, nil
	}
	b, err := aes.NewCipher(snKey)
	if err != nil {
		return nil, err
	}
	mask := make([]byte, 16)
	b.Encrypt(mask, sample)

	return mask, nil
}
