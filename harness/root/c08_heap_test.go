// C08 "hold memory beyond its fixed buffering limits", measured: an endpoint that is handed hostile datagrams which
// ANNOUNCE large objects (handshake fragments claiming 16 MiB messages under many message sequence numbers, records of
// future epochs) must not retain memory in proportion to what is announced.  The fixed limits of the library are the
// reassembly buffer (2 MB / 1000 fragments) and the queue of undecryptable records; the bound checked is generous.

//go:build verif

package dtls

import (
	"context"
	"encoding/json"
	"fmt"
	"os"
	"runtime"
	"testing"
	"time"
)

type c08HeapResult struct {
	Name     string `json:"name"`
	Lab      string `json:"lab,omitempty"`
	Injected int    `json:"injected"`
	GrowthKB int64  `json:"growthKB"`
	LimitKB  int64  `json:"limitKB"`
	Alive    bool   `json:"alive"` // the handshake still completes afterwards
}

func c08Heap() uint64 {
	runtime.GC()
	runtime.GC()
	var m runtime.MemStats
	runtime.ReadMemStats(&m)

	return m.HeapAlloc
}

func TestVerifC08Heap(t *testing.T) {
	getPKI()
	var results []c08HeapResult
	for _, ver := range []string{"12", "13"} {
		for _, target := range []string{"s", "c"} {
			res := c08HeapResult{Name: fmt.Sprintf("%s/announced-sizes/%s", ver, target), LimitKB: 24 * 1024}
			r := newLabRun()
			scen := scenCfg{Ver: ver, HelloVerify: true, CurvesC: []int{29}, CurvesS: []int{29}, CIDc: -1, CIDs: -1}
			if err := r.setup(&scen, &scenStores{}); err != nil {
				res.Lab = err.Error()
				results = append(results, res)

				continue
			}
			ctx, cancel := context.WithTimeout(context.Background(), 20*time.Second)
			r.s.startHandshake(ctx)
			r.c.startHandshake(ctx)
			r.waitQuiet(2 * time.Second)
			if target == "c" { // let the client see the first answer so that it waits for a flight
				r.net.Deliver("c2s", 0)
				r.waitQuiet(2 * time.Second)
			}
			before := c08Heap()
			from := "c"
			if target == "c" {
				from = "s"
			}
			for k := 0; k < 48; k++ {
				var d []byte
				switch k % 3 {
				case 0: // a fragment of a 16 MiB message under a message sequence number still to come
					d = c08Plain(22, 0, uint64(10+k), c08HS([]byte{11, 12, 2, 1}[k%4], 0xffffff, 100+k, 0, 2, []byte{1, 2}))
				case 1: // the last bytes of such a message
					d = c08Plain(22, 0, uint64(10+k), c08HS(11, 0xffffff, 300+k, 0xffffff-2, 2, []byte{1, 2}))
				default: // a record of a future epoch announcing nothing but itself
					d = c08Plain(23, uint16(2+k%3), uint64(k), make([]byte, 64))
				}
				r.net.Inject(target, labAddr(from), d)
				res.Injected++
			}
			r.waitQuiet(3 * time.Second)
			after := c08Heap()
			if after > before {
				res.GrowthKB = int64(after-before) / 1024
			}
			// the handshake goes on
			r.net.mu.Lock()
			r.net.auto = func(*labDgram) labAction { return labAction{deliver: 1} }
			r.net.mu.Unlock()
			for _, dir := range []string{"c2s", "s2c"} {
				for _, k := range r.net.Pending(dir) {
					r.net.Deliver(dir, k)
				}
			}
			select {
			case <-r.c.hsDone:
			case <-time.After(8 * time.Second):
			}
			select {
			case <-r.s.hsDone:
			case <-time.After(8 * time.Second):
			}
			res.Alive = r.c.hsReturned() && r.c.hsErr == nil && r.s.hsReturned() && r.s.hsErr == nil
			cancel()
			r.closeAll()
			results = append(results, res)
		}
	}
	b, _ := json.Marshal(results)
	if p := os.Getenv("VERIF_OUT"); p != "" {
		_ = os.WriteFile(p, b, 0o600)
	} else {
		fmt.Println(string(b))
	}
}
