// C15 (iii): edge scripts of the listener model (spec/CidRrc.tla, Part "route",
// RouteStart = "two") replayed on a real DTLS listener over loopback UDP: two
// connections are established from two client sockets; datagrams that carry a
// genuine record with the CID of connection k are sent from the owner's socket,
// the other client's socket and a fresh socket; accepted connections write to
// other addresses (which releases their address key) and close.  Observed: the
// accepted connection whose Read returns the payload.

//go:build verif

package dtls

import (
	"bufio"
	"context"
	"encoding/json"
	"errors"
	"fmt"
	"io"
	"net"
	"os"
	"sync"
	"testing"
	"time"

	dtlsflight "github.com/pion/dtls/v3/internal/flight"
	"github.com/pion/dtls/v3/pkg/protocol"
	"github.com/pion/dtls/v3/pkg/protocol/recordlayer"
)

type c15LStep struct {
	Op     string `json:"op"`
	Src    string `json:"src"`
	K      int    `json:"k"`
	C      int    `json:"c"`
	A      string `json:"a"`
	Routed struct {
		Conn int `json:"conn"`
	} `json:"routed"`
}

type c15LCase struct {
	Name  string     `json:"name"`
	Ver   string     `json:"ver"`
	CidS  int        `json:"cidS"`
	CidC  int        `json:"cidC"`
	MTU   int        `json:"mtu"` // 0 = default; small values fragment the ServerHello
	Steps []c15LStep `json:"steps"`
}

type c15LRow struct {
	Case       int      `json:"case"`
	Lab        string   `json:"lab,omitempty"`
	Violations []string `json:"violations,omitempty"`
	Diverge    []string `json:"diverge,omitempty"`
	Arrivals   int      `json:"arrivals"`
	ToOwner    int      `json:"toOwner"`
	OffPath    int      `json:"offPath"` // known-CID datagrams from a socket other than the owner's that reached the owner
}

// c15Sock keeps the client's socket usable by the harness after the client Conn closed itself
// (a server-side Close sends close_notify, the client answers by closing): Close only unblocks readers.
type c15Sock struct{ *net.UDPConn }

func (s c15Sock) Close() error { return s.UDPConn.SetReadDeadline(time.Unix(1, 0)) }

type c15LGot struct {
	conn int
	tag  string
}

func runC15Listen(idx int, cc *c15LCase) (row c15LRow) { //nolint:cyclop,gocognit,gocyclo,maintidx
	row.Case = idx
	defer func() {
		if r := recover(); r != nil {
			row.Lab = fmt.Sprint("panic: ", r)
		}
	}()
	p := getPKI()
	vmin, vmax := verRange(cc.Ver)
	lopts := []ServerOption{WithCertificates(p.server), WithMinVersion(vmin), WithMaxVersion(vmax),
		WithConnectionIDGenerator(cidGen(cc.CidS)), WithFlightInterval(300 * time.Millisecond)}
	if cc.MTU > 0 {
		lopts = append(lopts, WithMTU(cc.MTU))
	}
	ln, err := ListenWithOptions("udp4", &net.UDPAddr{IP: net.IPv4(127, 0, 0, 1)}, lopts...)
	if err != nil {
		row.Lab = err.Error()

		return row
	}
	socks := map[string]*net.UDPConn{}
	for _, n := range []string{"a1", "a2", "a3"} {
		s, err := net.ListenUDP("udp4", &net.UDPAddr{IP: net.IPv4(127, 0, 0, 1)})
		if err != nil {
			row.Lab = err.Error()

			return row
		}
		socks[n] = s
	}
	var clients, servers []*Conn
	got := make(chan c15LGot, 64)
	var wg sync.WaitGroup
	defer func() {
		for _, c := range servers {
			_ = c.Close()
		}
		for _, c := range clients {
			_ = c.Close()
		}
		_ = ln.Close()
		for _, s := range socks {
			_ = s.Close()
		}
		wg.Wait()
	}()
	ctx, cancel := context.WithTimeout(context.Background(), 20*time.Second)
	defer cancel()
	for k := 1; k <= 2; k++ {
		cl, err := ClientWithOptions(c15Sock{socks[fmt.Sprintf("a%d", k)]}, ln.Addr(), WithInsecureSkipVerify(true),
			WithMinVersion(vmin), WithMaxVersion(vmax), WithConnectionIDGenerator(cidGen(cc.CidC)),
			WithFlightInterval(300*time.Millisecond))
		if err != nil {
			row.Lab = err.Error()

			return row
		}
		clients = append(clients, cl)
		type acc struct {
			c   *Conn
			err error
		}
		ch := make(chan acc, 1)
		go func() {
			a, err := ln.Accept()
			if err != nil {
				ch <- acc{err: err}

				return
			}
			sc, _ := a.(*Conn)
			ch <- acc{c: sc, err: sc.HandshakeContext(ctx)}
		}()
		if err := cl.HandshakeContext(ctx); err != nil {
			row.Lab = "client handshake: " + err.Error()

			return row
		}
		a := <-ch
		if a.err != nil {
			row.Lab = "server handshake: " + a.err.Error()

			return row
		}
		servers = append(servers, a.c)
		n := k
		wg.Add(1)
		go func() {
			defer wg.Done()
			buf := make([]byte, 512)
			for nerr := 0; nerr < 1000; {
				m, err := a.c.Read(buf)
				if err != nil {
					if errors.Is(err, io.EOF) || errors.Is(err, ErrConnClosed) {
						return
					}
					nerr++ // errors surfaced by Read for undecodable datagrams do not end the connection

					continue
				}
				got <- c15LGot{conn: n, tag: string(buf[:m])}
			}
		}()
	}
	craft := func(k int, tag string) ([]byte, error) {
		cl := clients[k-1]
		common := commonOf(cl)
		is13 := common.LocalVersion.Equal(protocol.Version1_3)
		pkt := &dtlsflight.Packet{
			Record: &recordlayer.RecordLayer{
				Header:  recordlayer.Header{Version: protocol.Version1_2, Epoch: common.LocalEpoch()},
				Content: &protocol.ApplicationData{Data: []byte(tag)},
			},
			ShouldWrapCID: !is13 && cl.state.ShouldWrapConnectionID(),
			ShouldEncrypt: true,
		}
		d, _, err := cl.prepareRawPacketsTracked([]*dtlsflight.Packet{pkt})
		if err != nil || len(d) != 1 {
			return nil, fmt.Errorf("%w: craft: %v", errLab, err)
		}

		return d[0].raw, nil
	}
	closed := map[int]bool{}
	for i := range cc.Steps {
		st := &cc.Steps[i]
		switch st.Op {
		case "arrive":
			if st.K == 0 {
				_, _ = socks[st.Src].WriteTo([]byte{23, 254, 253, 0, 1, 0, 0, 0, 0, 0, 99, 0, 3, 1, 2, 3}, ln.Addr())

				continue
			}
			row.Arrivals++
			tag := fmt.Sprintf("c15-%d-%d", idx, i)
			raw, err := craft(st.K, tag)
			if err != nil {
				row.Lab = err.Error()

				return row
			}
			if _, err := socks[st.Src].WriteTo(raw, ln.Addr()); err != nil {
				row.Lab = err.Error()

				return row
			}
			wait := 1500 * time.Millisecond
			if st.Routed.Conn != st.K {
				wait = 80 * time.Millisecond
			}
			real := 0
			timer := time.NewTimer(wait)
		waitLoop:
			for {
				select {
				case g := <-got:
					if g.tag == tag {
						real = g.conn

						break waitLoop
					}
				case <-timer.C:
					break waitLoop
				}
			}
			timer.Stop()
			if real != 0 && real != st.K {
				row.Violations = append(row.Violations, fmt.Sprintf(
					"step %d: a record of connection %d sent from %s was returned by Read of connection %d", i, st.K, st.Src, real))
			}
			if !closed[st.K] && real != st.K {
				row.Violations = append(row.Violations, fmt.Sprintf(
					"step %d: datagram carrying the CID of open connection %d from %s did not reach it (reached %d)", i, st.K, st.Src, real))
			}
			if real == st.K {
				row.ToOwner++
				if st.Src != fmt.Sprintf("a%d", st.K) {
					row.OffPath++
				}
			}
			if (real == st.K) != (st.Routed.Conn == st.K) {
				row.Diverge = append(row.Diverge, fmt.Sprintf("step %d: reached %d, model %d", i, real, st.Routed.Conn))
			}
		case "write":
			sc := servers[st.C-1]
			sc.lock.Lock()
			sc.rAddr = socks[st.A].LocalAddr()
			sc.lock.Unlock()
			if _, err := sc.Write([]byte("w")); err != nil && !closed[st.C] {
				row.Diverge = append(row.Diverge, fmt.Sprintf("step %d: Write failed: %v", i, err))
			}
		case "close":
			_ = servers[st.C-1].Close()
			closed[st.C] = true
		}
	}

	return row
}

func TestVerifC15Listen(t *testing.T) {
	in, out := os.Getenv("VERIF_IN"), os.Getenv("VERIF_OUT")
	fi, err := os.Open(in)
	if err != nil {
		t.Fatal(err)
	}
	defer fi.Close()
	scan := bufio.NewScanner(fi)
	scan.Buffer(make([]byte, 1<<20), 1<<24)
	var cases []*c15LCase
	for scan.Scan() {
		cc := &c15LCase{}
		if err := json.Unmarshal(scan.Bytes(), cc); err != nil {
			t.Fatalf("case %d: %v", len(cases), err)
		}
		cases = append(cases, cc)
	}
	getPKI()
	rows := make([]c15LRow, len(cases))
	var wg sync.WaitGroup
	sem := make(chan struct{}, 12)
	for i := range cases {
		wg.Add(1)
		sem <- struct{}{}
		go func(i int) {
			defer wg.Done()
			defer func() { <-sem }()
			rows[i] = runC15Listen(i, cases[i])
			if rows[i].Lab != "" || len(rows[i].Diverge) > 0 || len(rows[i].Violations) > 0 { // loopback timing: confirm once
				rows[i] = runC15Listen(i, cases[i])
			}
		}(i)
	}
	wg.Wait()
	fo, err := os.Create(out)
	if err != nil {
		t.Fatal(err)
	}
	defer fo.Close()
	w := bufio.NewWriter(fo)
	defer w.Flush()
	enc := json.NewEncoder(w)
	for i := range rows {
		_ = enc.Encode(&rows[i])
	}
	_ = enc.Encode(map[string]any{"summary": map[string]int{"cases": len(rows)}})
}
