// C03: peer authentication.  Every (honest role, version, policy, credential, deviation) case enumerated by
// spec/Auth.tla is played against a real honest endpoint by a ROGUE pion peer: credential-level deviations are
// configurations (wrong CA, wrong name, expired, wrong PSK), message-level deviations are applied to the rogue's
// outgoing flight through the verif flight filter (omit / empty / substitute Certificate, omit / corrupt the proof
// of possession) and the rogue's own Finished (and CertificateVerify) is recomputed so that it stays consistent
// with what it really sent.  Verdict: the honest endpoint must not report success unless the credential its
// policy requires was proved.

//go:build verif

package dtls

import (
	"bufio"
	"context"
	"crypto"
	"crypto/ecdsa"
	"crypto/elliptic"
	"crypto/rand"
	"crypto/tls"
	"crypto/x509"
	"crypto/x509/pkix"
	"encoding/asn1"
	"encoding/json"
	"fmt"
	"math/big"
	"os"
	"runtime"
	"sync"
	"testing"
	"time"

	dtlsflight "github.com/pion/dtls/v3/internal/flight"
	dtlscrypto "github.com/pion/dtls/v3/internal/handshakecrypto"
	dtlsstate "github.com/pion/dtls/v3/internal/state"
	"github.com/pion/dtls/v3/pkg/crypto/hash"
	"github.com/pion/dtls/v3/pkg/crypto/prf"
	"github.com/pion/dtls/v3/pkg/crypto/signature"
	"github.com/pion/dtls/v3/pkg/protocol/handshake"
)

type c03Case struct {
	Ver         int    `json:"ver"`
	Honest      string `json:"honest"`
	Auth        string `json:"auth"`
	VerifyChain bool   `json:"verifyChain"`
	Policy      int    `json:"policy"`
	Cred        string `json:"cred"`
	Dev         string `json:"dev"`
	Accept      bool   `json:"accept"`   // model's prediction of the honest endpoint's decision
	Required    bool   `json:"required"` // the credential the policy requires was proved
	Suite       string `json:"suite"`    // optional: cipher suite override
	KeyType     string `json:"keyType"`  // "" (ECDSA) | "rsa"  credentials of the rogue server
	Callback    bool   `json:"callback"` // the honest side also installs a VerifyPeerCertificate callback that accepts everything: it adds
	//                                      a check, it must not replace the library's own verification
	SrvInsecure bool `json:"srvInsecure"` // the honest SERVER's option set carries InsecureSkipVerify(true) (a client-role setting that
	//                                      applications put into shared option lists): client chains are verified all the same
	MixedPSK bool   `json:"mixedPSK"` // honest server is configured with certificates AND a PSK callback (both suite families enabled)
	NameKind string `json:"nameKind"` // server name the honest client is configured with: "" (DNS name) | "ip4" | "ip6" (address literals)
}

type c03Result struct {
	Case      int    `json:"case"`
	HonestEst bool   `json:"honestEst"`
	RogueEst  bool   `json:"rogueEst"`
	HonestErr string `json:"honestErr,omitempty"`
	RogueErr  string `json:"rogueErr,omitempty"`
	Applied   bool   `json:"applied"` // the message-level deviation was really applied to a flight
	DataLeak  bool   `json:"dataLeak"`
	Lab       string `json:"lab,omitempty"`
	Panic     string `json:"panic,omitempty"`
}

var (
	c03RogueCAOnce sync.Once       //nolint:gochecknoglobals
	c03RogueCA     tls.Certificate //nolint:gochecknoglobals
)

// c03GetRogueCA: a self-signed certificate of the rogue that is flagged as a CA (so that a verifier which
// "re-orders" chains would treat the victim's leaf behind it as the end entity).
func c03GetRogueCA() tls.Certificate {
	c03RogueCAOnce.Do(func() {
		k, _ := ecdsa.GenerateKey(elliptic.P256(), rand.Reader)
		t := &x509.Certificate{
			SerialNumber: big.NewInt(77), Subject: pkix.Name{CommonName: "rogue root"}, DNSNames: []string{labServerName},
			NotBefore: time.Now().Add(-time.Hour), NotAfter: time.Now().Add(100 * time.Hour),
			KeyUsage: x509.KeyUsageCertSign | x509.KeyUsageDigitalSignature, IsCA: true, BasicConstraintsValid: true,
			ExtKeyUsage: []x509.ExtKeyUsage{x509.ExtKeyUsageServerAuth, x509.ExtKeyUsageClientAuth},
		}
		der, _ := x509.CreateCertificate(rand.Reader, t, t, &k.PublicKey, k)
		c03RogueCA = tls.Certificate{Certificate: [][]byte{der}, PrivateKey: k}
	})

	return c03RogueCA
}

// c03ForgeECDSA builds an ECDSA signature that verifies for public key pub over an EMPTY digest (e = 0):
// R = b*Q, r = R.x, s = r / b.  It needs no private key; it is only "valid" for a verifier that hashes
// with an algorithm that yields no digest (scheme / key-type confusion).
func c03ForgeECDSA(leafDER []byte) []byte {
	cert, err := x509.ParseCertificate(leafDER)
	if err != nil {
		return nil
	}
	pub, ok := cert.PublicKey.(*ecdsa.PublicKey)
	if !ok {
		return nil
	}
	n := pub.Curve.Params().N
	b := big.NewInt(0x1234567)
	rx, _ := pub.Curve.ScalarMult(pub.X, pub.Y, b.Bytes()) //nolint:staticcheck
	r := new(big.Int).Mod(rx, n)
	sVal := new(big.Int).Mul(r, new(big.Int).ModInverse(b, n))
	sVal.Mod(sVal, n)
	der, _ := asn1.Marshal(struct{ R, S *big.Int }{r, sVal})

	return der
}

func c03HS(p *dtlsflight.Packet) (*handshake.Handshake, bool) {
	if p == nil || p.Record == nil {
		return nil, false
	}
	h, ok := p.Record.Content.(*handshake.Handshake)

	return h, ok
}

// c03Rules: the transcript a DTLS 1.2 client hashes before its own flight 5 messages.
func c03ServerSideRules() []dtlsflight.HandshakeCachePullRule {
	return []dtlsflight.HandshakeCachePullRule{
		{Typ: handshake.TypeClientHello, Epoch: 0, IsClient: true},
		{Typ: handshake.TypeServerHello, Epoch: 0, IsClient: false},
		{Typ: handshake.TypeCertificate, Epoch: 0, IsClient: false},
		{Typ: handshake.TypeServerKeyExchange, Epoch: 0, IsClient: false},
		{Typ: handshake.TypeCertificateRequest, Epoch: 0, IsClient: false},
		{Typ: handshake.TypeServerHelloDone, Epoch: 0, IsClient: false},
	}
}

// c03Filter builds the flight filter of the rogue endpoint.
func c03Filter(cs *c03Case, rogue *labPeer, subst [][]byte, otherKey crypto.Signer, applied *bool) func(string, any) any { //nolint:cyclop,gocognit
	return func(point string, v any) any {
		pkts, ok := v.([]*dtlsflight.Packet)
		if !ok || point != "flight" {
			return v
		}
		dropCert := cs.Dev == "omitCert" || cs.Dev == "omitCertAndProof"
		dropProof := cs.Dev == "omitProof" || cs.Dev == "omitCertAndProof"
		var out []*dtlsflight.Packet
		touched := false
		for _, p := range pkts {
			h, isHS := c03HS(p)
			if !isHS {
				out = append(out, p)

				continue
			}
			switch m := h.Message.(type) {
			case *handshake.MessageCertificate:
				if dropCert {
					touched = true

					continue
				}
				if cs.Dev == "emptyCert" {
					m.Certificate, touched = nil, true
				} else if subst != nil {
					m.Certificate, touched = subst, true
				}
			case *handshake.MessageCertificate13:
				if dropCert {
					touched = true

					continue
				}
				if cs.Dev == "emptyCert" {
					m.CertificateList, touched = nil, true
				} else if subst != nil {
					var l []handshake.CertificateEntry13
					for _, c := range subst {
						l = append(l, handshake.CertificateEntry13{CertificateData: c})
					}
					m.CertificateList, touched = l, true
				}
			case *handshake.MessageServerKeyExchange:
				if len(m.Signature) > 0 {
					if cs.Dev == "forgedProof" && subst != nil {
						m.HashAlgorithm, m.SignatureAlgorithm = hash.Ed25519, signature.Ed25519
						m.Signature, touched = c03ForgeECDSA(subst[0]), true
					} else if dropProof {
						m.Signature, touched = []byte{}, true
					} else if cs.Dev == "corruptProof" {
						m.Signature = append([]byte(nil), m.Signature...)
						m.Signature[len(m.Signature)/2] ^= 0x20
						touched = true
					}
				}
			case *handshake.MessageCertificateVerify:
				if dropProof {
					touched = true

					continue
				}
				if cs.Dev == "forgedProof" && subst != nil {
					m.HashAlgorithm, m.SignatureAlgorithm = hash.Ed25519, signature.Ed25519
					m.Signature, touched = c03ForgeECDSA(subst[0]), true
				} else if cs.Dev == "corruptProof" {
					touched = true
					if len(m.Signature) > 0 {
						m.Signature = append([]byte(nil), m.Signature...)
						m.Signature[len(m.Signature)/2] ^= 0x20
					} else {
						p.CertificateVerifySigner = otherKey // DTLS 1.3: signed when the flight is committed
					}
				}
			}
			out = append(out, p)
		}
		if !touched {
			return v
		}
		*applied = true
		// a DTLS 1.2 client computed CertificateVerify and Finished over the flight as generated: make them consistent
		// with the flight as it is really sent (the rogue is competent)
		if cs.Ver == 12 && cs.Honest == "s" {
			c03RecomputeClientFlight(rogue, out, cs.Dev == "corruptProof" || cs.Dev == "forgedProof")
		}

		return out
	}
}

func c03RecomputeClientFlight(rogue *labPeer, pkts []*dtlsflight.Packet, keepBadProof bool) {
	st, ok := rogue.conn.state.(*dtlsstate.State12)
	if !ok || st.CipherSuite == nil {
		return
	}
	seq := uint16(st.HandshakeSendSequence) //nolint:gosec
	merged := []byte{}
	base := rogue.conn.handshakeCache.PullAndMerge(c03ServerSideRules()...)
	for _, p := range pkts {
		h, isHS := c03HS(p)
		if !isHS {
			continue
		}
		if fin, isFin := h.Message.(*handshake.MessageFinished); isFin {
			vd, err := prf.VerifyDataClient(st.MasterSecret, append(append([]byte(nil), base...), merged...), st.CipherSuite.HashFunc())
			if err == nil {
				fin.VerifyData = vd
				st.LocalVerifyData = vd
			}

			continue
		}
		h.Header.MessageSequence = seq
		seq++
		if cv, isCV := h.Message.(*handshake.MessageCertificateVerify); isCV && !keepBadProof {
			if signer := c03Signer(rogue); signer != nil {
				sig, err := dtlscrypto.GenerateCertificateVerify(append(append([]byte(nil), base...), merged...), signer,
					cv.HashAlgorithm, cv.SignatureAlgorithm)
				if err == nil {
					cv.Signature = sig
				}
			}
		}
		raw, err := h.Marshal()
		if err != nil {
			return
		}
		merged = append(merged, raw...)
	}
}

func c03Signer(rogue *labPeer) crypto.Signer {
	certs := rogue.conn.handshakeConfig.LocalCertificates
	if len(certs) == 0 {
		return nil
	}
	s, _ := certs[0].PrivateKey.(crypto.Signer)

	return s
}

func runC03Case(idx int, cs *c03Case) (res c03Result) { //nolint:cyclop,gocognit
	res = c03Result{Case: idx}
	defer func() {
		if p := recover(); p != nil {
			res.Panic = fmt.Sprint(p)
		}
	}()
	p := getPKI()
	sc := scenCfg{Ver: fmt.Sprint(cs.Ver), CIDc: -1, CIDs: -1, Suite: cs.Suite}
	if cs.Ver == 13 {
		sc.CurvesC, sc.CurvesS = []int{29}, []int{29}
	}
	if cs.Ver == 12 && cs.Honest == "s" {
		sc.EMSc, sc.EMSs = 2, 2 // see the comment in c03Filter: the session hash would include the flight as generated
	}
	if cs.Auth == "psk" {
		sc.Auth = "psk"
		if sc.Suite == "" {
			sc.Suite = "TLS_PSK_WITH_AES_128_GCM_SHA256"
		}
		if cs.Cred == "wrongPSK" {
			sc.PSKc, sc.PSKs = "k1", "k2"
		}

	}
	if cs.KeyType == "rsa" {
		sc.Auth = "rsa"
	}
	// start from the generic option lists, then replace the credential-related options (later options win)
	co, so := sc.buildOptions(&scenStores{})
	if cs.Auth == "psk" && cs.Cred == "noPSK" {
		// the honest side knows the key of its legitimate peer only; for any other identity its callback answers the way
		// many applications do: no key, no error.  The rogue names such an identity and uses the empty key.
		known := func(want string) func([]byte) ([]byte, error) {
			return func(hint []byte) ([]byte, error) {
				if string(hint) == want {
					return []byte("k1"), nil
				}

				return nil, nil
			}
		}
		empty := func([]byte) ([]byte, error) { return []byte{}, nil }
		if cs.Honest == "s" {
			so = append(so, WithPSK(known("lab-client")))
			co = append(co, WithPSK(empty), WithPSKIdentityHint([]byte("nobody")))
		} else {
			co = append(co, WithPSK(known("lab-server")))
			so = append(so, WithPSK(empty), WithPSKIdentityHint([]byte("nobody")))
		}
	}
	var subst [][]byte
	var otherKey crypto.Signer
	if cs.Auth == "cert" { //nolint:nestif
		good := p.server
		if cs.KeyType == "rsa" {
			good = p.serverRSA
		}
		pick := func(server bool) (tls.Certificate, bool) {
			victim := good.Certificate
			if !server {
				victim = p.client.Certificate
			}
			if cs.Dev == "mixedChain" { // own CA-flagged certificate first (its key signs), the victim's chain behind it
				rc := c03GetRogueCA()

				return tls.Certificate{Certificate: append(append([][]byte(nil), rc.Certificate...), victim...), PrivateKey: rc.PrivateKey}, true
			}
			if cs.Dev == "forgedProof" { // the victim's public chain with a proof forged without its key
				subst = victim
				if server {
					return p.rogue, true
				}

				return p.rogueCli, true
			}
			switch cs.Cred {
			case "good":
				if server {
					return good, true
				}

				return p.client, true
			case "otherCA":
				if server {
					return p.rogue, true
				}

				return p.rogueCli, true
			case "wrongName":
				return p.wrongName, true
			case "expired":
				return p.expired, true
			case "chainAkeyB": // the legitimate party's public chain, the rogue's own key
				if server {
					subst = good.Certificate

					return p.rogue, true
				}
				subst = p.client.Certificate

				return p.rogueCli, true
			}

			return tls.Certificate{}, false
		}
		if cs.Honest == "c" {
			// honest client: chain verification per VerifyChain; rogue server presents the credential
			if cs.VerifyChain {
				sn := labServerName
				switch cs.NameKind {
				case "ip4":
					sn = labServerIP4
				case "ip6":
					sn = labServerIP6
				}
				co = append(co, WithInsecureSkipVerify(false), WithRootCAs(p.pool), WithServerName(sn))
			} else {
				co = append(co, WithInsecureSkipVerify(true))
			}
			cert, _ := pick(true)
			so = append(so, WithCertificates(cert))
			otherKey, _ = p.client.PrivateKey.(crypto.Signer)
		} else {
			so = append(so, WithCertificates(p.server), WithClientAuth(ClientAuthType(cs.Policy)), WithClientCAs(p.pool))
			co = append(co, WithInsecureSkipVerify(true))
			if cs.MixedPSK && cs.Ver == 12 {
				// the server also serves PSK clients; this client negotiates a certificate suite and knows no PSK
				so = append(so, WithPSK(func([]byte) ([]byte, error) { return []byte("k-server-only"), nil }), WithPSKIdentityHint([]byte("lab-server")),
					WithCipherSuites(TLS_ECDHE_ECDSA_WITH_AES_128_GCM_SHA256, TLS_PSK_WITH_AES_128_GCM_SHA256, TLS_ECDHE_PSK_WITH_AES_128_CBC_SHA256))
				co = append(co, WithCipherSuites(TLS_ECDHE_ECDSA_WITH_AES_128_GCM_SHA256))
			}
			if cert, has := pick(false); has {
				// the getter makes the rogue present its certificate whatever CA names the server asked for
				co = append(co, WithCertificates(cert),
					WithGetClientCertificate(func(*CertificateRequestInfo) (*tls.Certificate, error) { return &cert, nil }))
			}
			otherKey, _ = p.server.PrivateKey.(crypto.Signer)
		}
	}
	if cs.Callback {
		ok := func([][]byte, [][]*x509.Certificate) error { return nil }
		if cs.Honest == "c" {
			co = append(co, WithVerifyPeerCertificate(ok))
		} else {
			so = append(so, WithVerifyPeerCertificate(ok))
		}
	}
	if cs.SrvInsecure && cs.Honest == "s" {
		so = append(so, WithInsecureSkipVerify(true))
	}
	r := newLabRun()
	if err := r.setupWith(co, so); err != nil {
		res.Lab = err.Error()

		return res
	}
	defer r.closeAll()
	honest, rogue := r.c, r.s
	if cs.Honest == "s" {
		honest, rogue = r.s, r.c
	}
	applied := false
	if cs.Auth == "cert" && cs.Dev != "mixedChain" && (cs.Dev != "none" || subst != nil) {
		rogue.filter = c03Filter(cs, rogue, subst, otherKey, &applied)
	}
	r.net.mu.Lock()
	r.net.auto = func(*labDgram) labAction { return labAction{deliver: 1} }
	r.net.mu.Unlock()
	ctx, cancel := context.WithTimeout(context.Background(), 10*time.Second)
	defer cancel()
	r.s.startHandshake(ctx)
	r.c.startHandshake(ctx)
	deadline := time.Now().Add(8 * time.Second)
	for time.Now().Before(deadline) {
		if r.c.hsReturned() && r.s.hsReturned() {
			break
		}
		if r.waitQuiet(50*time.Millisecond) && r.waitQuiet(5*time.Millisecond) {
			// nothing moves any more (a stalled handshake: timers are virtual and never fire by themselves)
			if !(r.c.hsReturned() && r.s.hsReturned()) {
				time.Sleep(2 * time.Millisecond)
				if r.waitQuiet(5 * time.Millisecond) {
					break
				}
			}
		}
	}
	honestDoneEarly := honest.hsReturned() && honest.hsErr == nil
	// a rogue that believes it is connected tries to push application data
	if rogue.hsReturned() && rogue.hsErr == nil {
		_ = rogue.conn.SetWriteDeadline(time.Now().Add(200 * time.Millisecond))
		_, _ = rogue.conn.Write([]byte("c03-rogue-payload"))
	}
	if !honestDoneEarly {
		got := make(chan int, 1)
		go func() {
			buf := make([]byte, 256)
			_ = honest.conn.SetReadDeadline(time.Now().Add(30 * time.Millisecond))
			n, err := honest.conn.Read(buf)
			if err == nil && n > 0 {
				got <- n
			} else {
				got <- 0
			}
		}()
		select {
		case n := <-got:
			res.DataLeak = n > 0
		case <-time.After(300 * time.Millisecond):
		}
	}
	cancel()
	for _, pr := range []*labPeer{r.c, r.s} {
		select {
		case <-pr.hsDone:
		case <-time.After(5 * time.Second):
			res.Lab = "handshake did not return after cancel"

			return res
		}
	}
	res.HonestEst, res.RogueEst = honest.hsErr == nil, rogue.hsErr == nil
	res.HonestErr, res.RogueErr = errString(honest.hsErr), errString(rogue.hsErr)
	res.Applied = applied || cs.Dev == "mixedChain" || cs.Dev == "none" && subst == nil

	return res
}

func TestVerifAuth(t *testing.T) {
	in, out := os.Getenv("VERIF_IN"), os.Getenv("VERIF_OUT")
	fi, err := os.Open(in)
	if err != nil {
		t.Fatal(err)
	}
	defer fi.Close()
	var cases []c03Case
	scan := bufio.NewScanner(fi)
	scan.Buffer(make([]byte, 1<<20), 1<<26)
	for scan.Scan() {
		var c c03Case
		if err := json.Unmarshal(scan.Bytes(), &c); err != nil {
			t.Fatal(err)
		}
		cases = append(cases, c)
	}
	getPKI()
	results := make([]c03Result, len(cases))
	var wg sync.WaitGroup
	sem := make(chan struct{}, runtime.GOMAXPROCS(0))
	for i := range cases {
		wg.Add(1)
		sem <- struct{}{}
		go func(i int) {
			defer wg.Done()
			defer func() { <-sem }()
			results[i] = runC03Case(i, &cases[i])
			if results[i].Lab != "" {
				results[i] = runC03Case(i, &cases[i])
			}
		}(i)
	}
	wg.Wait()
	fo, err := os.Create(out)
	if err != nil {
		t.Fatal(err)
	}
	defer fo.Close()
	w := bufio.NewWriter(fo)
	defer w.Flush()
	enc := json.NewEncoder(w)
	for _, r := range results {
		_ = enc.Encode(r)
	}
}
