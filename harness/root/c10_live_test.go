// C10 live part: full handshakes over the lab network; a passive decoder built only from the oracle
// (c10_oracle_test.go) must decrypt every captured protected record of both directions, verify both
// Finished verify_data values and the exporter.  DTLS 1.2 is keyed from the KeyLogWriter (CLIENT_RANDOM),
// DTLS 1.3 from the key-agreement secret read in-package (the whole key schedule is then recomputed from
// the captured transcript).  The library's message codecs are not used: the few fields needed are read
// at their RFC offsets.
// VERIF_IN: ndjson {"scen":{...},"name":..} plus {"k":"suite12"/"suite13"} table rows from TLC. VERIF_OUT rows + summary.

//go:build verif

package dtls

import (
	"bufio"
	"bytes"
	"encoding/hex"
	"encoding/json"
	"errors"
	"fmt"
	"hash"
	mrand "math/rand"
	"os"
	"sort"
	"strconv"
	"strings"
	"sync"
	"testing"
	"time"

	dtlsstate "github.com/pion/dtls/v3/internal/state"
)

type c10LiveCase struct {
	K    string   `json:"k"`
	Name string   `json:"name"`
	Scen *scenCfg `json:"scen"`
}

type c10Rec struct {
	dir   string
	g     uint64
	raw   []byte // whole record
	ctype byte
	epoch uint16
	seq   uint64
	cid   []byte
	body  []byte // fragment
}

type c10LiveOut struct {
	Name      string   `json:"name"`
	Viol      []string `json:"viol"`
	Lab       string   `json:"lab,omitempty"`
	Records   int      `json:"records"`
	Decrypted int      `json:"decrypted"`
	Finished  int      `json:"finished"`
	AppData   int      `json:"appdata"`
	Notes     []string `json:"notes,omitempty"`
	Family    string   `json:"family"`
	CID       bool     `json:"cid"`
	Ver       string   `json:"ver"`
}

type c10SafeBuf struct {
	mu sync.Mutex
	b  bytes.Buffer
}

func (s *c10SafeBuf) Write(p []byte) (int, error) {
	s.mu.Lock()
	defer s.mu.Unlock()

	return s.b.Write(p)
}

func (s *c10SafeBuf) String() string {
	s.mu.Lock()
	defer s.mu.Unlock()

	return s.b.String()
}

var errC10Live = errors.New("c10 live")

// c10Datagrams returns all emitted datagrams of both directions in emission order.
func c10Datagrams(n *labNet) []*labDgram {
	n.mu.Lock()
	defer n.mu.Unlock()
	var all []*labDgram
	for _, dir := range []string{"c2s", "s2c"} {
		all = append(all, n.emitted[dir]...)
	}
	sort.Slice(all, func(i, j int) bool { return all[i].g < all[j].g })

	return all
}

// c10Split12 restates Unpack/UnpackCID of the spec.
func c10Split12(d *labDgram, cidLen int) ([]c10Rec, bool) {
	var out []c10Rec
	b := d.data
	for len(b) > 0 {
		hs := 13
		if b[0] == 25 {
			hs += cidLen
		}
		if len(b) < hs+1 {
			return out, false
		}
		l := int(b[hs-2])<<8 | int(b[hs-1])
		if len(b) < hs+l {
			return out, false
		}
		r := c10Rec{dir: d.dir, g: d.g, raw: b[:hs+l], ctype: b[0], epoch: uint16(b[3])<<8 | uint16(b[4]), body: b[hs : hs+l]}
		for _, x := range b[5:11] {
			r.seq = r.seq<<8 | uint64(x)
		}
		if b[0] == 25 {
			r.cid = b[11 : 11+cidLen]
		}
		out = append(out, r)
		b = b[hs+l:]
	}

	return out, true
}

// handshake reassembly by (direction, message_seq); returns complete messages in wire order:
// each as type, message_seq, body
type c10HsMsg struct {
	dir  string
	typ  byte
	mseq uint16
	body []byte
}

type c10Reasm struct {
	parts map[string]map[int][]byte // key -> offset -> data
	total map[string]int
	typ   map[string]byte
	done  map[string]bool
	out   []c10HsMsg
}

func newC10Reasm() *c10Reasm {
	return &c10Reasm{parts: map[string]map[int][]byte{}, total: map[string]int{}, typ: map[string]byte{}, done: map[string]bool{}}
}

// push consumes the handshake fragments of one record content; epochTag separates 1.3 epochs (message_seq continues)
func (ra *c10Reasm) push(dir string, content []byte) error {
	for len(content) > 0 {
		if len(content) < 12 {
			return fmt.Errorf("%w: short handshake header", errC10Live)
		}
		typ := content[0]
		length := int(content[1])<<16 | int(content[2])<<8 | int(content[3])
		mseq := uint16(content[4])<<8 | uint16(content[5])
		off := int(content[6])<<16 | int(content[7])<<8 | int(content[8])
		fl := int(content[9])<<16 | int(content[10])<<8 | int(content[11])
		if len(content) < 12+fl {
			return fmt.Errorf("%w: truncated handshake fragment", errC10Live)
		}
		key := dir + "/" + strconv.Itoa(int(mseq))
		if !ra.done[key] {
			if ra.parts[key] == nil {
				ra.parts[key] = map[int][]byte{}
				ra.total[key] = length
				ra.typ[key] = typ
			}
			ra.parts[key][off] = content[12 : 12+fl]
			body, pos := []byte{}, 0
			for pos < length {
				p, ok := ra.parts[key][pos]
				if !ok || len(p) == 0 {
					break
				}
				body = append(body, p...)
				pos += len(p)
			}
			if pos == length {
				ra.done[key] = true
				ra.out = append(ra.out, c10HsMsg{dir: dir, typ: typ, mseq: mseq, body: body})
			}
		}
		content = content[12+fl:]
	}

	return nil
}

func (m c10HsMsg) dtlsForm() []byte {
	l := len(m.body)
	h := []byte{m.typ, byte(l >> 16), byte(l >> 8), byte(l), byte(m.mseq >> 8), byte(m.mseq), 0, 0, 0, byte(l >> 16), byte(l >> 8), byte(l)}

	return append(h, m.body...)
}

func (m c10HsMsg) tlsForm() []byte {
	l := len(m.body)

	return append([]byte{m.typ, byte(l >> 16), byte(l >> 8), byte(l)}, m.body...)
}

func c10KeyLog(text, label string) (cr, secret []byte) {
	for _, line := range strings.Split(text, "\n") {
		f := strings.Fields(line)
		if len(f) == 3 && f[0] == label {
			cr, _ = hex.DecodeString(f[1])
			secret, _ = hex.DecodeString(f[2])

			return cr, secret
		}
	}

	return nil, nil
}

func c10RunLive(lc *c10LiveCase, suites map[string]c10Suite, rng *mrand.Rand) *c10LiveOut { //nolint:cyclop,gocognit,gocyclo,maintidx
	sc := *lc.Scen
	sc.defaults()
	o := &c10LiveOut{Name: lc.Name, Ver: sc.Ver, CID: sc.CIDc >= 0 || sc.CIDs >= 0}
	s, ok := suites[sc.Suite]
	if !ok {
		o.Lab = "suite table has no " + sc.Suite

		return o
	}
	o.Family = strings.ToUpper(s.Kind)
	keylog := &c10SafeBuf{}
	r := newLabRun()
	co, so := sc.buildOptions(&scenStores{})
	co = append(co, WithKeyLogWriter(keylog))
	so = append(so, WithKeyLogWriter(keylog))
	if err := r.setupWith(co, so); err != nil {
		o.Lab = err.Error()

		return o
	}
	defer r.closeAll()
	ce, se := r.handshakeLossless(10 * time.Second)
	if ce != nil || se != nil {
		o.Lab = fmt.Sprintf("handshake failed: client=%v server=%v", ce, se)

		return o
	}
	// application data both ways, read by the library peer (library <-> library sanity)
	var sent [][]byte
	exchange := func(from, to *labPeer, n int) bool {
		p := c10Fill(rng, n)
		sent = append(sent, p)
		if _, err := from.conn.Write(p); err != nil {
			o.Lab = "write: " + err.Error()

			return false
		}
		buf := make([]byte, 1<<16)
		_ = to.conn.SetReadDeadline(time.Now().Add(5 * time.Second))
		m, err := to.conn.Read(buf)
		if err != nil || !bytes.Equal(buf[:m], p) {
			o.Lab = fmt.Sprintf("peer read: %v", err)

			return false
		}

		return true
	}
	for _, n := range []int{1, 37, 1000} {
		if !exchange(r.c, r.s, n) || !exchange(r.s, r.c, n+3) {
			return o
		}
	}
	r.waitQuiet(2 * time.Second)
	cst, ok1 := r.c.conn.ConnectionState()
	sst, ok2 := r.s.conn.ConnectionState()
	if !ok1 || !ok2 {
		o.Lab = "no connection state"

		return o
	}
	dgrams := c10Datagrams(r.net)
	if sc.Ver == "13" {
		c10Decode13(o, r, dgrams, s, sent, &cst, &sst)
	} else {
		c10Decode12(o, dgrams, &sc, s, keylog.String(), sent, &cst, &sst)
	}

	return o
}

func c10Decode12(o *c10LiveOut, dgrams []*labDgram, sc *scenCfg, s c10Suite, keylog string, sent [][]byte, cst, sst *State) { //nolint:cyclop,gocognit,gocyclo,maintidx
	bad := func(f string, a ...any) { o.Viol = append(o.Viol, fmt.Sprintf(f, a...)) }
	cidLenFor := map[string]int{"c2s": max(sc.CIDs, 0), "s2c": max(sc.CIDc, 0)} // a record carries the receiver's CID
	var recs []c10Rec
	for _, d := range dgrams {
		rs, ok := c10Split12(d, cidLenFor[d.dir])
		if !ok {
			bad("datagram %s#%d does not split into records by declared lengths", d.dir, d.idx)
		}
		recs = append(recs, rs...)
	}
	o.Records = len(recs)
	ra := newC10Reasm()
	for _, rc := range recs {
		if rc.epoch == 0 && rc.ctype == 22 {
			if err := ra.push(rc.dir, rc.body); err != nil {
				o.Lab = err.Error()

				return
			}
		}
	}
	var cr, sr []byte
	var suiteID []byte
	hvr := false
	for _, m := range ra.out {
		switch {
		case m.typ == 3:
			hvr = true
		case m.typ == 1 && len(m.body) >= 34:
			cr = m.body[2:34] // the last ClientHello wins (same random in both)
		case m.typ == 2 && len(m.body) >= 38:
			sr = m.body[2:34]
			sid := int(m.body[34])
			if len(m.body) >= 35+sid+2 {
				suiteID = m.body[35+sid : 37+sid]
			}
		}
	}
	if cr == nil || sr == nil || suiteID == nil {
		o.Lab = "hello messages not found in capture"

		return
	}
	if !bytes.Equal(suiteID, s.ID) {
		o.Lab = fmt.Sprintf("negotiated suite %x, expected %x", suiteID, []byte(s.ID))

		return
	}
	klCR, ms := c10KeyLog(keylog, "CLIENT_RANDOM")
	if ms == nil {
		o.Lab = "no CLIENT_RANDOM line in key log"

		return
	}
	if !bytes.Equal(klCR, cr) {
		bad("key log client random %x differs from the ClientHello random %x", klCR, cr)
	}
	h := c10Hash(s.Prf)
	kb := c10PHash(h, ms, c10Cat([]byte("key expansion"), sr, cr), 2*s.Mac+2*s.Key+2*s.IV)
	k := c10SplitKeyBlock(kb, s.Mac, s.Key, s.IV)
	// transcript in wire order of first completion, without HelloVerifyRequest and the cookie-less ClientHello
	var transcript []c10HsMsg
	seenCH := 0
	for _, m := range ra.out {
		if m.typ == 3 {
			continue
		}
		if m.typ == 1 {
			seenCH++
			if hvr && seenCH == 1 {
				continue
			}
		}
		transcript = append(transcript, m)
	}
	trBytes := func() []byte {
		var b []byte
		for _, m := range transcript {
			b = append(b, m.dtlsForm()...)
		}

		return b
	}
	sentIdx := 0
	ra1 := newC10Reasm()
	for _, rc := range recs {
		if rc.epoch == 0 || rc.ctype == 20 {
			continue
		}
		key, iv, mac := k.cKey, k.cIV, k.cMac
		if rc.dir == "s2c" {
			key, iv, mac = k.sKey, k.sIV, k.sMac
		}
		who := fmt.Sprintf("%s epoch %d seq %d type %d", rc.dir, rc.epoch, rc.seq, rc.ctype)
		var plain []byte
		switch s.Kind {
		case "cbc":
			body, ok := c10CBCOpen(key, rc.body)
			if !ok || len(body) < s.Mac {
				bad("%s: CBC record does not decrypt (RFC 5246 6.2.3.2)", who)

				continue
			}
			plain = body[:len(body)-s.Mac]
			var mi []byte
			if rc.ctype == 25 {
				mi = c10MacInputCID(rc.epoch, rc.seq, c10V12, rc.cid, plain)
			} else {
				mi = c10MacInput12(rc.epoch, rc.seq, rc.ctype, c10V12, plain)
			}
			if !bytes.Equal(body[len(body)-s.Mac:], c10HMAC(c10Hash(s.Mach), mac, mi)) {
				bad("%s: CBC MAC differs from HMAC over the RFC MAC input", who)

				continue
			}
		default:
			a, err := c10NewAEAD(s.Kind, key, s.Tag)
			if err != nil {
				o.Lab = err.Error()

				return
			}
			ct, nonce := rc.body, []byte(nil)
			if s.Kind == "chacha" {
				nonce = c10NonceXor(iv, uint64(rc.epoch)<<48|rc.seq)
			} else {
				if len(ct) < 8 {
					bad("%s: no room for the explicit nonce", who)

					continue
				}
				nonce = c10Cat(iv, ct[:8])
				ct = ct[8:]
			}
			plen := len(ct) - s.Tag
			var aad []byte
			if rc.ctype == 25 {
				aad = c10AADCID(rc.epoch, rc.seq, c10V12, rc.cid, plen)
			} else {
				aad = c10AAD12(rc.epoch, rc.seq, rc.ctype, c10V12, plen)
			}
			var ok bool
			plain, ok = a.Open(nonce, ct, aad)
			if !ok {
				bad("%s: AEAD record does not open with RFC nonce/additional data", who)

				continue
			}
		}
		o.Decrypted++
		ctype := rc.ctype
		if rc.ctype == 25 {
			var ok bool
			plain, ctype, ok = c10DecInner(plain)
			if !ok {
				bad("%s: inner plaintext is all zeros", who)

				continue
			}
		}
		switch ctype {
		case 22:
			before := len(ra1.out)
			if err := ra1.push(rc.dir, plain); err != nil {
				bad("%s: decrypted handshake content malformed: %v", who, err)

				continue
			}
			for _, m := range ra1.out[before:] {
				if m.typ != 20 {
					continue
				}
				label := "client finished"
				if m.dir == "s2c" {
					label = "server finished"
				}
				want := c10PHash(h, ms, c10Cat([]byte(label), c10Digest(h, trBytes())), 12)
				o.Finished++
				if !bytes.Equal(m.body, want) {
					bad("%s Finished verify_data %x != PRF(master, %q || Hash(handshake_messages)) %x", m.dir, m.body, label, want)
				}
				transcript = append(transcript, m)
			}
		case 23:
			o.AppData++
			if sentIdx < len(sent) && !bytes.Equal(plain, sent[sentIdx]) {
				bad("%s: decoded application data differs from what was written", who)
			}
			sentIdx++
		}
	}
	if o.Finished < 2 && len(o.Viol) == 0 {
		o.Lab = fmt.Sprintf("only %d Finished messages decoded", o.Finished)
	}
	if o.AppData != len(sent) {
		bad("decoded %d application records, %d were written", o.AppData, len(sent))
	}
	// RFC 5705 exporter on both sides
	for _, st := range []*State{cst, sst} {
		got, err := st.ExportKeyingMaterial("EXTRACTOR-dtls_srtp", nil, 60)
		if err != nil {
			bad("ExportKeyingMaterial: %v", err)

			continue
		}
		want := c10PHash(h, ms, c10Cat([]byte("EXTRACTOR-dtls_srtp"), cr, sr), 60)
		if !bytes.Equal(got, want) {
			bad("exporter %x != PRF(master, label || client_random || server_random) %x", got[:16], want[:16])
		}
	}
}

// ---------------------------------------------------------------------------
// DTLS 1.3

type c10Keys13 struct {
	aead c10AEAD
	iv   []byte
	sn   []byte
}

func c10TrafficKeys(h func() hash.Hash, s c10Suite, secret []byte) (*c10Keys13, error) {
	a, err := c10NewAEAD(s.Kind, c10ExpandLabel(h, secret, "key", nil, s.Key), s.Tag)

	return &c10Keys13{aead: a, iv: c10ExpandLabel(h, secret, "iv", nil, 12), sn: c10ExpandLabel(h, secret, "sn", nil, s.Key)}, err
}

func c10Decode13(o *c10LiveOut, r *labRun, dgrams []*labDgram, s c10Suite, sent [][]byte, cst, sst *State) { //nolint:cyclop,gocognit,gocyclo,maintidx
	bad := func(f string, a ...any) { o.Viol = append(o.Viol, fmt.Sprintf(f, a...)) }
	st13, err := dtlsstate.As13(r.c.conn.state)
	if err != nil {
		o.Lab = "client state is not 1.3"

		return
	}
	ecdhe := bytes.Clone(st13.KeyAgreementSecret)
	if len(ecdhe) == 0 {
		o.Lab = "no key agreement secret in state"

		return
	}
	cidLenFor := map[string]int{
		"c2s": len(dtlsstate.CommonState(r.s.conn.state).LocalConnectionIDForInboundRecords()),
		"s2c": len(dtlsstate.CommonState(r.c.conn.state).LocalConnectionIDForInboundRecords()),
	}
	h := c10Hash(s.Hash)
	hl := h().Size()
	zeros := make([]byte, hl)
	emptyHash := c10Digest(h)
	early := c10Extract(h, zeros, zeros)
	hsSecret := c10Extract(h, c10ExpandLabel(h, early, "derived", emptyHash, hl), ecdhe)
	master := c10Extract(h, c10ExpandLabel(h, hsSecret, "derived", emptyHash, hl), zeros)
	var transcript []byte
	keys := map[string]*c10Keys13{} // dir/epoch
	secrets := map[string][]byte{}
	ra := newC10Reasm()
	sentIdx := 0
	haveHS, haveAP := false, false
	install := func(name, dir string, epoch int, secret []byte) {
		k, err := c10TrafficKeys(h, s, secret)
		if err != nil {
			o.Lab = err.Error()
		}
		keys[fmt.Sprintf("%s/%d", dir, epoch)] = k
		secrets[name] = secret
	}
	var serverFinKey, clientFinKey []byte
	handleMsg := func(m c10HsMsg) {
		switch m.typ {
		case 1, 2: // ClientHello, ServerHello / HelloRetryRequest
			isHRR := m.typ == 2 && len(m.body) >= 34 && bytes.Equal(m.body[2:34], c10HRRRandom)
			if isHRR {
				ch1 := c10Digest(h, transcript)
				transcript = c10Cat([]byte{254, 0, 0, byte(hl)}, ch1)
			}
			transcript = append(transcript, m.tlsForm()...)
			if m.typ == 2 && !isHRR {
				th := c10Digest(h, transcript)
				install("c_hs", "c2s", 2, c10ExpandLabel(h, hsSecret, "c hs traffic", th, hl))
				install("s_hs", "s2c", 2, c10ExpandLabel(h, hsSecret, "s hs traffic", th, hl))
				serverFinKey = c10ExpandLabel(h, secrets["s_hs"], "finished", nil, hl)
				clientFinKey = c10ExpandLabel(h, secrets["c_hs"], "finished", nil, hl)
				haveHS = true
			}
		case 20:
			fk := serverFinKey
			if m.dir == "c2s" {
				fk = clientFinKey
			}
			want := c10HMAC(h, fk, c10Digest(h, transcript))
			o.Finished++
			if !bytes.Equal(m.body, want) {
				bad("%s Finished verify_data %x != HMAC(finished_key, transcript hash) %x (RFC 8446 4.4.4)", m.dir, m.body, want)
			}
			transcript = append(transcript, m.tlsForm()...)
			if m.dir == "s2c" {
				th := c10Digest(h, transcript)
				install("c_ap", "c2s", 3, c10ExpandLabel(h, master, "c ap traffic", th, hl))
				install("s_ap", "s2c", 3, c10ExpandLabel(h, master, "s ap traffic", th, hl))
				secrets["exp_master"] = c10ExpandLabel(h, master, "exp master", th, hl)
				haveAP = true
			}
		case 4, 24: // NewSessionTicket, KeyUpdate: post-handshake, not part of the transcript used here
		default:
			transcript = append(transcript, m.tlsForm()...)
		}
	}
	for _, d := range dgrams {
		b := d.data
		for len(b) > 0 {
			o.Records++
			if b[0]>>5 != 1 { // plaintext record
				if len(b) < 14 {
					bad("datagram %s#%d: truncated plaintext record", d.dir, d.idx)

					break
				}
				l := int(b[11])<<8 | int(b[12])
				if len(b) < 13+l {
					bad("datagram %s#%d: record length exceeds datagram", d.dir, d.idx)

					break
				}
				if b[0] == 22 {
					before := len(ra.out)
					if err := ra.push(d.dir, b[13:13+l]); err != nil {
						o.Lab = err.Error()

						return
					}
					for _, m := range ra.out[before:] {
						handleMsg(m)
					}
				}
				b = b[13+l:]

				continue
			}
			first := b[0]
			cl := 0
			if first&0x10 != 0 {
				cl = cidLenFor[d.dir]
			}
			sl := 1
			if first&0x08 != 0 {
				sl = 2
			}
			hl2 := 1 + cl + sl
			bodyLen := len(b) - hl2
			if first&0x04 != 0 {
				if len(b) < hl2+2 {
					bad("datagram %s#%d: truncated unified header", d.dir, d.idx)

					break
				}
				bodyLen = int(b[hl2])<<8 | int(b[hl2+1])
				hl2 += 2
			}
			if bodyLen < 16 || len(b) < hl2+bodyLen {
				bad("datagram %s#%d: ciphertext record length %d does not fit", d.dir, d.idx, bodyLen)

				break
			}
			hdr, ct := b[:hl2], b[hl2:hl2+bodyLen]
			b = b[hl2+bodyLen:]
			who := fmt.Sprintf("%s#%d unified %02x", d.dir, d.idx, first)
			// candidate epochs with these low bits for which keys exist
			var opened bool
			for epoch := 2; epoch <= 3 && !opened; epoch++ {
				if epoch&3 != int(first&3) {
					continue
				}
				k := keys[fmt.Sprintf("%s/%d", d.dir, epoch)]
				if k == nil {
					continue
				}
				mask, err := c10SnMask(s.Sn, k.sn, ct)
				if err != nil {
					o.Lab = err.Error()

					return
				}
				clear := c10ApplyMask(hdr, cl, sl == 2, mask)
				var low uint64
				if sl == 2 {
					low = uint64(clear[1+cl])<<8 | uint64(clear[2+cl])
				} else {
					low = uint64(clear[1+cl])
				}
				for kk := uint64(0); kk < 4 && !opened; kk++ {
					seq := low + kk<<(8*uint(sl)) //nolint:gosec
					inner, ok := k.aead.Open(c10NonceXor(k.iv, seq), ct, clear)
					if !ok {
						continue
					}
					opened = true
					o.Decrypted++
					content, ctype, ok := c10DecInner(inner)
					if !ok {
						bad("%s: inner plaintext is all zeros", who)

						break
					}
					switch ctype {
					case 22:
						before := len(ra.out)
						if err := ra.push(d.dir, content); err != nil {
							bad("%s: decrypted handshake content malformed: %v", who, err)

							break
						}
						for _, m := range ra.out[before:] {
							handleMsg(m)
						}
					case 23:
						o.AppData++
						if sentIdx < len(sent) && !bytes.Equal(content, sent[sentIdx]) {
							bad("%s: decoded application data differs from what was written", who)
						}
						sentIdx++
					}
				}
			}
			if !opened {
				bad("%s: protected record does not open with the RFC 9147 key schedule / nonce / header-as-AAD / record-number mask", who)
			}
		}
	}
	if !haveHS || !haveAP || o.Finished < 2 {
		if len(o.Viol) == 0 {
			o.Lab = fmt.Sprintf("incomplete decode: hs=%v ap=%v finished=%d", haveHS, haveAP, o.Finished)
		}

		return
	}
	if o.AppData != len(sent) {
		bad("decoded %d application records, %d were written", o.AppData, len(sent))
	}
	// the library's stored secrets against the recomputed schedule
	for _, side := range []*labPeer{r.c, r.s} {
		st, err := dtlsstate.As13(side.conn.state)
		if err != nil {
			continue
		}
		cmp := func(name string, lib []byte) {
			if !bytes.Equal(lib, secrets[name]) {
				bad("%s %s secret %x != recomputed %x", side.name, name, lib, secrets[name])
			}
		}
		cmp("c_hs", st.KeySchedule.HandshakeTraffic.Client)
		cmp("s_hs", st.KeySchedule.HandshakeTraffic.Server)
		cmp("c_ap", st.KeySchedule.ClientApplicationTrafficSecret0)
		cmp("s_ap", st.KeySchedule.ServerApplicationTrafficSecret0)
		cmp("exp_master", st.KeySchedule.ExporterMasterSecret)
	}
	// RFC 8446 7.5 exporter
	for _, st := range []*State{cst, sst} {
		got, err := st.ExportKeyingMaterial("EXTRACTOR-dtls_srtp", nil, 60)
		if err != nil {
			o.Notes = append(o.Notes, "DTLS 1.3 ExportKeyingMaterial returns "+err.Error())

			continue
		}
		d := c10ExpandLabel(h, secrets["exp_master"], "EXTRACTOR-dtls_srtp", emptyHash, hl)
		want := c10ExpandLabel(h, d, "exporter", emptyHash, 60)
		if !bytes.Equal(got, want) {
			o.Viol = append(o.Viol, "EXPORTER13: DTLS 1.3 exporter differs from RFC 8446 7.5 (HKDF-Expand-Label(Derive-Secret(exporter_master_secret, label, \"\"), \"exporter\", Hash(context), L))")
		}
	}
}

var c10HRRRandom = []byte{ //nolint:gochecknoglobals
	0xCF, 0x21, 0xAD, 0x74, 0xE5, 0x9A, 0x61, 0x11, 0xBE, 0x1D, 0x8C, 0x02, 0x1E, 0x65, 0xB8, 0x91,
	0xC2, 0xA2, 0x11, 0x16, 0x7A, 0xBB, 0x8C, 0x5E, 0x07, 0x9E, 0x09, 0xE2, 0xC8, 0xA8, 0x33, 0x9C,
}

// TestVerifC10Live is the entry point.
func TestVerifC10Live(t *testing.T) {
	in, out := os.Getenv("VERIF_IN"), os.Getenv("VERIF_OUT")
	if in == "" || out == "" {
		t.Skip("VERIF_IN / VERIF_OUT not set")
	}
	seed, _ := strconv.ParseInt(os.Getenv("VERIF_SEED"), 10, 64)
	rng := mrand.New(mrand.NewSource(seed)) //nolint:gosec
	fin, err := os.Open(in)                 //nolint:gosec
	if err != nil {
		t.Fatal(err)
	}
	defer fin.Close() //nolint:errcheck
	suites := map[string]c10Suite{}
	var cases []*c10LiveCase
	sc := bufio.NewScanner(fin)
	sc.Buffer(make([]byte, 1<<20), 1<<24)
	for sc.Scan() {
		var probe struct {
			K     string   `json:"k"`
			Suite c10Suite `json:"suite"`
		}
		if err := json.Unmarshal(sc.Bytes(), &probe); err == nil && (probe.K == "suite12" || probe.K == "suite13") {
			suites[probe.Suite.Name] = probe.Suite

			continue
		}
		lc := &c10LiveCase{}
		if err := json.Unmarshal(sc.Bytes(), lc); err != nil {
			t.Fatal(err)
		}
		cases = append(cases, lc)
	}
	fout, err := os.Create(out) //nolint:gosec
	if err != nil {
		t.Fatal(err)
	}
	defer fout.Close() //nolint:errcheck
	enc := json.NewEncoder(fout)
	journal := os.Getenv("VERIF_JOURNAL")
	nrec, ndec, nlab := 0, 0, 0
	for i, lc := range cases {
		if journal != "" {
			_ = os.WriteFile(journal, []byte(strconv.Itoa(i)), 0o600)
		}
		o := c10RunLive(lc, suites, rng)
		if o.Lab != "" {
			// one retry: lab hiccups (timeouts under load) are not verdicts
			o = c10RunLive(lc, suites, rng)
		}
		if o.Lab != "" {
			nlab++
		}
		nrec += o.Records
		ndec += o.Decrypted
		_ = enc.Encode(o)
	}
	_ = enc.Encode(map[string]any{"summary": true, "cases": len(cases), "records": nrec, "decrypted": ndec, "lab": nlab})
}
