// C20 (C): free-running DTLS 1.3 sessions with real retransmission timers and a seeded random fault process on every
// datagram (KeyUpdate, ACK, application data): loss, duplication, delay (reordering).  UpdateKeys is called from both
// sides (with and without requesting the peer's update, one or two caller goroutines per side) while several writer
// goroutines per side keep writing; optionally a key holder's record sealed under a side's NEXT write generation is
// injected while a KeyUpdate is outstanding.  The recorded events are returned for validation by TLC against
// spec/TracePostHandshake13.tla; the harness itself evaluates the payload multisets, "delivered if its datagram
// arrives", the independence-checked successor secrets and the epoch of every sealed record.

//go:build verif

package dtls

import (
	"context"
	"encoding/hex"
	"fmt"
	"math/rand"
	"runtime"
	"sync"
	"testing"
	"time"
)

type c20FreeCase struct {
	ID       int    `json:"id"`
	Seed     int64  `json:"seed"`
	Interval int    `json:"intervalMs"`
	Loss     int    `json:"loss"`  // per cent
	Dup      int    `json:"dup"`   // per cent
	Delay    int    `json:"delay"` // per cent
	Writers  int    `json:"writers"`
	Writes   int    `json:"writes"`
	UpdC     []bool `json:"updC"` // request flags of the client's UpdateKeys calls
	UpdS     []bool `json:"updS"`
	LateC    int    `json:"lateC"`   // the client's first UpdateKeys waits until the PEER has committed this many updates of its own
	LateS    int    `json:"lateS"`   // (asymmetric histories: one side is several generations ahead when the other updates)
	Callers  int    `json:"callers"` // goroutines per side sharing the update list
	Craft    string `json:"craft"`   // "", "c" or "s": inject a record under that side's next generation
	Suite    string `json:"suite"`
	// TicketLost: the first transmission of the server's NewSessionTicket is lost, so the session starts with that flight outstanding
	TicketLost bool `json:"ticketLost"`
}

type c20FreeResult struct {
	Case       int       `json:"case"`
	Violations []c20Viol `json:"violations,omitempty"`
	Info       []string  `json:"info,omitempty"`
	Lab        string    `json:"lab,omitempty"`
	Trace      []vEvent  `json:"trace,omitempty"`
	Writes     int       `json:"writes"`
	Reads      int       `json:"reads"`
	Unfaulted  int       `json:"unfaulted"` // payloads whose datagram no fault touched (all must be read)
	Updates    int       `json:"updates"`   // UpdateKeys calls that returned nil
	Commits    int       `json:"commits"`
	Secrets    int       `json:"secrets"`
	Faults     int       `json:"faults"`
	MaxEpoch   int       `json:"maxEpoch"`
	Events     []vEvent  `json:"events,omitempty"`
}

const (
	c20FreeCraftSeq = 6000
	c20FreeWindow   = 8192
)

func c20FreePayload(side string, i int) []byte {
	b := []byte(fmt.Sprintf("free-%s-%04d-", side, i))
	for len(b) < 24+i {
		b = append(b, byte('a'+i%26))
	}

	return b
}

func c20FreeID(side string, i int) int {
	if side == "c" {
		return 1000 + i
	}

	return 2000 + i
}

func runC20Free(cc *c20FreeCase, keep bool) c20FreeResult { //nolint:cyclop,gocognit,maintidx
	res := c20FreeResult{Case: cc.ID}
	var imu sync.Mutex
	viol := func(kind, f string, a ...any) {
		imu.Lock()
		defer imu.Unlock()
		if len(res.Violations) < 8 {
			res.Violations = append(res.Violations, c20Viol{Kind: kind, What: fmt.Sprintf(f, a...)})
		}
	}
	info := func(f string, a ...any) {
		imu.Lock()
		defer imu.Unlock()
		if len(res.Info) < 8 {
			res.Info = append(res.Info, fmt.Sprintf(f, a...))
		}
	}
	rng := rand.New(rand.NewSource(cc.Seed)) //nolint:gosec
	cfg := &scenCfg{Ver: "13", CIDc: -1, CIDs: -1, Suite: cc.Suite, IntervalMS: cc.Interval, Window: c20FreeWindow}
	r := newLabRun()
	if err := r.setup(cfg, &scenStores{}); err != nil {
		res.Lab = err.Error()

		return res
	}
	var ce, se error
	if cc.TicketLost {
		// the datagram that carries the server's NewSessionTicket is lost: the session starts with a reliable
		// post-handshake flight outstanding on the server, which only its retransmission timer completes
		r.net.mu.Lock()
		r.net.auto = func(d *labDgram) labAction {
			if d.from == "s" {
				for _, e := range r.rec.snapshotEv("rec.seal") {
					if e["side"] == "s" && e["epoch"] == 3 && e["ctype"] == 22 {
						return labAction{hold: true}
					}
				}
			}

			return labAction{deliver: 1}
		}
		r.net.mu.Unlock()
		ctx, cancel := context.WithTimeout(context.Background(), 5*time.Second)
		defer cancel()
		r.c.startHandshake(ctx)
		r.s.startHandshake(ctx)
		<-r.c.hsDone
		<-r.s.hsDone
		ce, se = r.c.hsErr, r.s.hsErr
		for dl := time.Now().Add(2 * time.Second); r.rec.count("ph.start") == 0 && time.Now().Before(dl); {
			time.Sleep(50 * time.Microsecond)
		}
		if ce == nil && se == nil && !r.waitQuiet(2*time.Second) { // both machines parked: their state may be read below
			r.closeAll()
			res.Lab = "not quiescent after the handshake (ticket withheld)"

			return res
		}
	} else {
		ce, se = r.handshakeLossless(5 * time.Second)
	}
	if ce != nil || se != nil {
		r.closeAll()
		res.Lab = fmt.Sprintf("handshake failed: %v / %v", ce, se)

		return res
	}
	d := &dataSess{r: r, sc: cfg, reads: map[string]*readLog{}}
	defer d.close()
	d.startDrain(r.c)
	d.startDrain(r.s)
	if !cc.TicketLost && !c20Settle(d, 3*time.Second) {
		res.Lab = "session not idle after the handshake"

		return res
	}
	startG := len(r.rec.snapshot())
	firstDgram := map[string]int{"c2s": r.net.Emitted("c2s"), "s2c": r.net.Emitted("s2c")}
	r.rec.add("c20.init", "sndC", c20State13(r.c.conn).HandshakeSendSequence, "sndS", c20State13(r.s.conn).HandshakeSendSequence,
		"rcvC", c20State13(r.c.conn).HandshakeRecvSequence, "rcvS", c20State13(r.s.conn).HandshakeRecvSequence)
	// seeded fault process
	var fmu sync.Mutex
	faulted := map[string]map[int]string{"c2s": {}, "s2c": {}}
	faultsOn := true
	r.net.mu.Lock()
	if cc.TicketLost {
		r.net.held = map[string][]*labDgram{} // lost for good
	}
	r.net.auto = func(dg *labDgram) labAction {
		fmu.Lock()
		defer fmu.Unlock()
		if !faultsOn {
			return labAction{deliver: 1}
		}
		x := rng.Intn(100)
		switch {
		case x < cc.Loss:
			faulted[dg.dir][dg.idx] = "drop"

			return labAction{deliver: 0}
		case x < cc.Loss+cc.Dup:
			faulted[dg.dir][dg.idx] = "dup"

			return labAction{deliver: 2}
		case x < cc.Loss+cc.Dup+cc.Delay:
			faulted[dg.dir][dg.idx] = "delay"

			return labAction{delay: time.Duration(1+rng.Intn(4*cc.Interval/2+1)) * time.Millisecond / 2}
		default:
			return labAction{deliver: 1}
		}
	}
	r.net.mu.Unlock()

	var wg sync.WaitGroup
	var wmu sync.Mutex
	wrote := map[string][]int{} // payload indices whose Write returned nil
	next := map[string]int{}
	okUpdates := 0
	for _, p := range []*labPeer{r.c, r.s} {
		for w := 0; w < cc.Writers; w++ {
			wg.Add(1)
			go func(p *labPeer, w int, seed int64) {
				defer wg.Done()
				lr := rand.New(rand.NewSource(seed)) //nolint:gosec
				for k := 0; k < cc.Writes; k++ {
					wmu.Lock()
					i := next[p.name]
					next[p.name]++
					wmu.Unlock()
					r.rec.add("c20.write", "side", p.name, "p", c20FreeID(p.name, i))
					_ = p.conn.SetWriteDeadline(time.Now().Add(8 * time.Second))
					_, err := p.conn.Write(c20FreePayload(p.name, i))
					if err != nil {
						info("Write %s #%d: %v", p.name, i, err)
					} else {
						wmu.Lock()
						wrote[p.name] = append(wrote[p.name], i)
						wmu.Unlock()
					}
					if lr.Intn(3) == 0 {
						time.Sleep(time.Duration(lr.Intn(1500)) * time.Microsecond)
					} else {
						runtime.Gosched()
					}
				}
			}(p, w, cc.Seed*31+int64(w)*7+int64(len(p.name)))
		}
		upd := cc.UpdC
		if p.name == "s" {
			upd = cc.UpdS
		}
		var umu sync.Mutex
		ui := 0
		callers := cc.Callers
		if callers < 1 {
			callers = 1
		}
		for c := 0; c < callers; c++ {
			wg.Add(1)
			go func(p *labPeer, upd []bool, seed int64) {
				defer wg.Done()
				lr := rand.New(rand.NewSource(seed)) //nolint:gosec
				if late := map[string]int{"c": cc.LateC, "s": cc.LateS}[p.name]; late > 0 {
					// wait until the PEER has committed that many updates of its own (its sending epoch starts at 3)
					other := d.peer(map[string]string{"c": "s", "s": "c"}[p.name])
					for dl := time.Now().Add(4 * time.Second); time.Now().Before(dl); {
						if int(commonOf(other.conn).LocalEpoch()) >= 3+late {
							break
						}
						time.Sleep(200 * time.Microsecond)
					}
				}
				for {
					umu.Lock()
					if ui >= len(upd) {
						umu.Unlock()

						return
					}
					req := upd[ui]
					ui++
					umu.Unlock()
					time.Sleep(time.Duration(lr.Intn(3000)) * time.Microsecond)
					r.rec.add("c20.call", "side", p.name, "req", req)
					ctx, cancel := context.WithTimeout(context.Background(), 8*time.Second)
					err := p.conn.UpdateKeys(ctx, KeyUpdateOptions{RequestPeerUpdate: req})
					cancel()
					r.rec.add("c20.ret", "side", p.name, "ok", err == nil, "err", errString(err))
					if err != nil {
						info("UpdateKeys %s: %v", p.name, err)
					} else {
						wmu.Lock()
						okUpdates++
						wmu.Unlock()
					}
				}
			}(p, upd, cc.Seed*17+int64(c)*5+int64(len(upd)))
		}
	}
	// a key holder's record under the next write generation of one side, injected while its KeyUpdate is outstanding
	if cc.Craft != "" {
		wg.Add(1)
		go func() {
			defer wg.Done()
			p := d.peer(cc.Craft)
			to := "s"
			if cc.Craft == "s" {
				to = "c"
			}
			deadline := time.Now().Add(3 * time.Second)
			for time.Now().Before(deadline) {
				if p.phF.Load() > 0 && p.phIdle.Load() == 1 { // a reliable flight is outstanding
					break
				}
				time.Sleep(100 * time.Microsecond)
			}
			h := &c20Driver{d: d}
			data, ep, err := h.craftWith(cc.Craft, c20FreeCraftSeq)
			if err != nil {
				info("craft: %v", err)

				return
			}
			r.rec.add("c20.craft", "side", cc.Craft, "epoch", ep, "seq", uint64(c20FreeCraftSeq))
			r.net.Inject(to, labAddr(cc.Craft), data)
		}()
	}
	done := make(chan struct{})
	go func() { wg.Wait(); close(done) }()
	select {
	case <-done:
	case <-time.After(25 * time.Second):
		res.Lab = "session goroutines did not finish"

		return res
	}
	// reliable network from here on; outstanding flights complete through their retransmission timers
	fmu.Lock()
	faultsOn = false
	fmu.Unlock()
	r.net.flushHeld()
	deadline := time.Now().Add(5 * time.Second)
	for time.Now().Before(deadline) {
		if c20Settle(d, 200*time.Millisecond) && r.c.phF.Load() == 0 && r.s.phF.Load() == 0 && r.c.phQ.Load() == 0 && r.s.phQ.Load() == 0 {
			break
		}
	}
	time.Sleep(time.Duration(3*cc.Interval) * time.Millisecond) // delayed copies still in the air
	c20Settle(d, time.Second)
	evs := r.rec.snapshot()[startG:]

	// ---- harness predicates ----
	// payload multisets
	reads := map[string]map[int]int{"c": {}, "s": {}}
	for _, side := range []string{"c", "s"} {
		peer := "c"
		if side == "c" {
			peer = "s"
		}
		pls, errs, _ := d.reads[side].snapshot()
		if len(errs) > 0 {
			info("Read %s: %s", side, errs[0])
		}
		for _, pl := range pls {
			res.Reads++
			id := -1
			if string(pl) == string(c20Payload(c20CraftP)) {
				id = c20CraftP
			} else {
				var i int
				var sd string
				if n, _ := fmt.Sscanf(string(pl), "free-%1s-%04d-", &sd, &i); n == 2 && sd == peer && i < next[peer] && string(c20FreePayload(peer, i)) == string(pl) {
					id = i
				}
			}
			if id < 0 {
				viol("payload-modified", "Read of %s returned %q, which %s never wrote", side, pl, peer)

				continue
			}
			reads[side][id]++
			if reads[side][id] == 2 {
				viol("payload-twice", "payload %d of %s was handed to Read of %s twice", id, peer, side)
			}
		}
	}
	// seal order = datagram order per side (post-handshake: one record per datagram, one writer goroutine: the FSM)
	seals := map[string][]vEvent{}
	h := &c20Driver{res: &c20Result{}, wsecret: map[string]map[int]string{"c": {}, "s": {}}, rsecret: map[string]map[int]string{"c": {}, "s": {}}}
	lastSeal := map[string]int{"c": 3, "s": 3}
	for _, e := range evs {
		side, _ := e["side"].(string)
		switch e["ev"] {
		case "rec.seal":
			seals[side] = append(seals[side], e)
			ep := e["epoch"].(int)
			if ep > res.MaxEpoch {
				res.MaxEpoch = ep
			}
			if e["ctype"].(int) != 21 {
				if ep < lastSeal[side] {
					viol("seal-epoch-decreased", "%s sealed a record (content type %d) under epoch %d after it had sealed under epoch %d", side, e["ctype"], ep, lastSeal[side])
				} else {
					lastSeal[side] = ep
				}
			}
		case "ku.commit":
			res.Commits++
			h.checkSecret(side, "write", e)
			h.wsecret[side][e["epoch"].(int)] = e["secret"].(string)
		case "ph.rxKeyUpdate":
			h.checkSecret(side, "read", e)
			h.rsecret[side][e["next"].(int)] = e["secret"].(string)
		}
	}
	h.crossSecrets()
	res.Secrets = h.res.Secrets
	res.Violations = append(res.Violations, h.res.Violations...)
	// delivered if its datagram arrives: payloads whose datagram no fault touched
	for _, side := range []string{"c", "s"} {
		dir := dirOf(side)
		peer := "c"
		if side == "c" {
			peer = "s"
		}
		n := r.net.Emitted(dir) - firstDgram[dir]
		if n != len(seals[side]) {
			info("%s: %d datagrams but %d sealed records - arrival predicate skipped", side, n, len(seals[side]))

			continue
		}
		byLen := map[int]int{}
		for k, e := range seals[side] {
			if e["ctype"].(int) == 23 {
				byLen[e["len"].(int)] = firstDgram[dir] + k
			}
		}
		okW := map[int]bool{}
		for _, i := range wrote[side] {
			okW[i] = true
		}
		for i := 0; i < next[side]; i++ {
			idx, sealed := byLen[len(c20FreePayload(side, i))]
			if !sealed {
				continue
			}
			res.Writes++
			fmu.Lock()
			f := faulted[dir][idx]
			fmu.Unlock()
			if f != "" {
				res.Faults++

				continue
			}
			res.Unfaulted++
			if reads[peer][i] == 0 {
				viol("arrived-not-delivered", "payload %d of %s travelled in datagram %s/%d, which was delivered exactly once without delay, but %s never returned it from Read", i, side, dir, idx, peer)
			}
		}
	}
	res.Updates = okUpdates
	res.Trace = c20Trace(evs, d)
	if keep || len(res.Violations) > 0 {
		res.Events = evs
	}

	return res
}

// c20Trace projects the recorded events onto the event vocabulary of spec/TracePostHandshake13.tla.
func c20Trace(evs []vEvent, d *dataSess) []vEvent { //nolint:cyclop
	var out []vEvent
	// Read results are logged by the drain goroutines after the fact; order them by g like everything else
	for _, e := range evs {
		side, _ := e["side"].(string)
		switch e["ev"] {
		case "c20.init":
			out = append(out, vEvent{"ev": "init", "snd": map[string]any{"c": e["sndC"], "s": e["sndS"]}, "rcv": map[string]any{"c": e["rcvC"], "s": e["rcvS"]}})
		case "ph.start":
			if e["kind"] == "keyupdate" {
				out = append(out, vEvent{"ev": "start", "side": side, "ms": e["msgseq"], "epoch": e["epoch"], "user": e["user"]})
			}
		case "ph.acked":
			out = append(out, vEvent{"ev": "acked", "side": side, "ms": e["msgseq"]})
		case "ku.commit":
			out = append(out, vEvent{"ev": "commit", "side": side, "epoch": e["epoch"]})
		case "ph.rxKeyUpdate":
			out = append(out, vEvent{"ev": "rxku", "side": side, "epoch": e["epoch"], "next": e["next"]})
		case "ph.rxTicket":
			out = append(out, vEvent{"ev": "rxticket", "side": side})
		case "rec.seal":
			out = append(out, vEvent{"ev": "seal", "side": side, "epoch": e["epoch"], "seq": e["seq"], "ctype": e["ctype"]})
		case "c20.craft":
			out = append(out, vEvent{"ev": "craft", "side": side, "epoch": e["epoch"], "seq": e["seq"]})
		case "app.deliver":
			out = append(out, vEvent{"ev": "deliver", "side": side, "epoch": e["epoch"], "seq": e["seq"]})
		case "c20.ret":
			out = append(out, vEvent{"ev": "ret", "side": side, "ok": e["ok"]})
		case "c20.write":
			out = append(out, vEvent{"ev": "write", "side": side, "p": e["p"]})
		case "app.read":
			pl, _ := e["payload"].(string)
			raw, _ := hex.DecodeString(pl)
			id := -1
			if string(raw) == string(c20Payload(c20CraftP)) {
				id = c20CraftP
			} else {
				var i int
				var sd string
				if n, _ := fmt.Sscanf(string(raw), "free-%1s-%04d-", &sd, &i); n == 2 && string(c20FreePayload(sd, i)) == string(raw) {
					id = c20FreeID(sd, i)
				}
			}
			out = append(out, vEvent{"ev": "read", "side": side, "p": id})
		}
	}
	_ = d

	return out
}

// TestVerifC20Free runs free-running key-update sessions.
func TestVerifC20Free(t *testing.T) {
	cases := c20ReadCases[c20FreeCase](t)
	keep := testing.Verbose() && false
	getPKI()
	results := make([]c20FreeResult, len(cases))
	var wg sync.WaitGroup
	sem := make(chan struct{}, runtime.GOMAXPROCS(0)/4+1)
	for i := range cases {
		wg.Add(1)
		sem <- struct{}{}
		go func(i int) {
			defer wg.Done()
			defer func() { <-sem }()
			results[i] = runC20Free(&cases[i], keep)
			if results[i].Lab != "" {
				results[i] = runC20Free(&cases[i], keep)
			}
			results[i].Case = cases[i].ID
		}(i)
	}
	wg.Wait()
	c20WriteResults(t, results)
}
