// C07: confidentiality.  Schedules generated from spec/Confidentiality.tla (Write calls racing with handshake
// progress, drops + retransmission timers, key updates, Close, injected cleartext application data) are executed on
// real endpoints over the scripted lab network; a wire monitor then inspects EVERY datagram either endpoint emitted:
// no Write payload, Finished verify_data or post-ServerHello handshake message in clear, no application record
// at epoch 0, injected epoch-0 application data never returned by Read.  A second entry point compares
// ExportKeyingMaterial with everything an observer of the cleartext handshake could compute.

//go:build verif

package dtls

import (
	"bufio"
	"bytes"
	"context"
	"crypto/sha256"
	"crypto/sha512"
	"encoding/json"
	"fmt"
	"hash"
	"os"
	"runtime"
	"sync"
	"testing"
	"time"

	dtlsstate "github.com/pion/dtls/v3/internal/state"
	"github.com/pion/dtls/v3/pkg/crypto/keyschedule"
	"github.com/pion/dtls/v3/pkg/crypto/prf"
)

type c07Op struct {
	Op   string `json:"op"`
	Side string `json:"side"`
}

type c07Case struct {
	Scen  scenCfg `json:"scen"`
	Name  string  `json:"name"`
	Steps []c07Op `json:"steps"`
	Size  int     `json:"size"` // payload size of Write calls
	// exporter cases: number of earlier sessions run (and closed) on the same session stores, and whether the
	// keying material is exported from a ConnectionState snapshot after the connection was closed
	History       int  `json:"history"`
	SnapshotClose bool `json:"snapshotClose"`
}

type c07Result struct {
	Case       int      `json:"case"`
	Name       string   `json:"name"`
	Violations []string `json:"violations,omitempty"`
	Info       []string `json:"info,omitempty"`
	Lab        string   `json:"lab,omitempty"`
	Panic      string   `json:"panic,omitempty"`
	CEst       bool     `json:"cest"`
	SEst       bool     `json:"sest"`
	Datagrams  int      `json:"datagrams"`
	AppRecords int      `json:"appRecords"`
	Protected  int      `json:"protected"`
	Delivered  int      `json:"delivered"`
	Writes     int      `json:"writes"`
}

func c07Marker(side string, i int) []byte {
	h := sha256.Sum256([]byte(fmt.Sprintf("c07-marker-%s-%d", side, i)))

	return h[:16]
}

func c07Payload(marker []byte, size int) []byte {
	if size < len(marker) {
		size = len(marker)
	}
	out := make([]byte, 0, size)
	for len(out)+len(marker) <= size {
		out = append(out, marker...)
	}
	for len(out) < size {
		out = append(out, 0x2e)
	}

	return out
}

// c07Monitor inspects one emitted datagram.
func c07Monitor(res *c07Result, from string, ver string, cidLen int, d []byte, markers [][]byte, secrets map[string][]byte) {
	v := func(f string, a ...any) {
		if len(res.Violations) < 8 {
			res.Violations = append(res.Violations, fmt.Sprintf(f, a...))
		}
	}
	for _, m := range markers {
		if bytes.Contains(d, m) {
			v("a Write payload appears in clear in a datagram emitted by %s (%d bytes)", from, len(d))
		}
	}
	for name, s := range secrets {
		if len(s) >= 12 && bytes.Contains(d, s) {
			v("%s appears in clear in a datagram emitted by %s", name, from)
		}
	}
	off := 0
	for off < len(d) {
		b := d[off]
		if b&0xe0 == 0x20 { // DTLS 1.3 unified header: always record-protected; the rest of the datagram is ciphertext
			res.Protected++

			return
		}
		hdr := 13
		if b == 25 {
			hdr = 13 + cidLen
		}
		if off+hdr > len(d) {
			return
		}
		epoch := int(d[off+3])<<8 | int(d[off+4])
		l := int(d[off+hdr-2])<<8 | int(d[off+hdr-1])
		body := d[off+hdr : min(off+hdr+l, len(d))]
		switch {
		case ver == "13" && (b == 23 || (b == 22 && epoch > 0 && len(body) >= 1)):
			// a DTLS 1.3 endpoint protects records in the unified-header format only: a record in the DTLSPlaintext format
			// is in clear whatever epoch its header names
			if b == 23 {
				res.AppRecords++
				v("application data in a DTLSPlaintext (unprotected) record, epoch field %d, emitted by %s", epoch, from)
			} else if t := body[0]; t != 1 && t != 2 {
				v("DTLS 1.3 handshake message type %d in a DTLSPlaintext (unprotected) record labelled epoch %d emitted by %s", t, epoch, from)
			}
		case b == 23:
			res.AppRecords++
			if epoch == 0 {
				v("application-data record with epoch 0 emitted by %s", from)
			}
		case b == 25 && epoch == 0:
			// an unprotected record in connection-ID framing (e.g. a handshake-failure alert after the IDs were negotiated):
			// content || real type || zero padding.  Only application data would be a leak.
			inner := bytes.TrimRight(body, "\x00")
			if len(inner) > 0 && inner[len(inner)-1] == 23 {
				res.AppRecords++
				v("application data in an epoch-0 connection-ID record emitted by %s", from)
			} else if len(res.Info) < 4 {
				res.Info = append(res.Info, fmt.Sprintf("unprotected connection-ID record (inner type %d) at epoch 0 emitted by %s",
					inner[max(len(inner)-1, 0):], from))
			}
		case b == 22 && epoch == 0 && len(body) >= 1:
			t := body[0]
			if t == 20 {
				v("Finished message in an epoch-0 (cleartext) record emitted by %s", from)
			}
			if ver == "13" && t != 1 && t != 2 {
				v("DTLS 1.3 handshake message type %d in an epoch-0 (cleartext) record emitted by %s", t, from)
			}
		}
		if epoch > 0 && ver != "13" {
			res.Protected++
		}
		off += hdr + l
	}
}

func runC07Case(idx int, cs *c07Case) (res c07Result) { //nolint:cyclop,gocognit,maintidx
	res = c07Result{Case: idx, Name: cs.Name}
	defer func() {
		if p := recover(); p != nil {
			res.Panic = fmt.Sprint(p)
		}
	}()
	r := newLabRun()
	scen := cs.Scen
	scen.IntervalMS = 0
	if err := r.setup(&scen, &scenStores{}); err != nil {
		res.Lab = err.Error()

		return res
	}
	defer r.closeAll()
	scen.defaults()
	ctx, cancel := context.WithTimeout(context.Background(), 20*time.Second)
	defer cancel()
	r.s.startHandshake(ctx)
	r.c.startHandshake(ctx)
	if !r.waitQuiet(2 * time.Second) {
		res.Lab = "not quiescent after start"

		return res
	}
	peer := func(s string) *labPeer {
		if s == "s" {
			return r.s
		}

		return r.c
	}
	var mu sync.Mutex
	var markers [][]byte
	written := map[string]bool{}
	var wg sync.WaitGroup
	reads := map[string]*[][]byte{"c": {}, "s": {}}
	draining := map[string]bool{}
	attacker := c07Marker("attacker", 0)
	startDrain := func(side string) {
		p := peer(side)
		if draining[side] || !p.hsReturned() || p.hsErr != nil {
			return
		}
		draining[side] = true
		go func() {
			buf := make([]byte, 16384)
			for {
				n, err := p.conn.Read(buf)
				if n > 0 {
					mu.Lock()
					*reads[side] = append(*reads[side], append([]byte(nil), buf[:n]...))
					mu.Unlock()
				}
				if err != nil {
					return
				}
			}
		}()
	}
	nextPending := map[string]int{"c2s": 0, "s2c": 0}
	pump := func(deliver bool) bool {
		for _, dir := range []string{"c2s", "s2c"} {
			n := r.net.Emitted(dir)
			for k := nextPending[dir]; k < n; k++ {
				if deliver {
					r.net.Deliver(dir, k)
				} else {
					r.net.Drop(dir, k)
				}
			}
			nextPending[dir] = n
		}
		ok := r.waitQuiet(3 * time.Second)
		startDrain("c")
		startDrain("s")

		return ok
	}
	nw := 0
	for i, st := range cs.Steps {
		switch st.Op {
		case "write":
			if pw := peer(st.Side); pw.hsReturned() && pw.hsErr != nil {
				continue // the handshake of this side failed (e.g. killed by the injected record): Write would start a new one
			}
			m := c07Marker(st.Side, nw)
			nw++
			mu.Lock()
			markers = append(markers, m)
			written[string(c07Payload(m, cs.Size))] = true
			mu.Unlock()
			res.Writes++
			p := peer(st.Side)
			wg.Add(1)
			go func() {
				defer wg.Done()
				_, _ = p.conn.Write(c07Payload(m, cs.Size))
			}()
			time.Sleep(200 * time.Microsecond)
			r.waitQuiet(time.Second)
		case "pump":
			if !pump(true) {
				res.Lab = fmt.Sprintf("step %d: not quiescent (c: %d %v, s: %d %v)", i, r.c.status.Load(), r.net.readerIdle("c"),
					r.s.status.Load(), r.net.readerIdle("s"))
				if os.Getenv("VERIF_KEEP_EVENTS") != "" {
					ev := r.rec.snapshot()
					for _, e := range ev[max(0, len(ev)-40):] {
						res.Info = append(res.Info, fmt.Sprint(e))
					}
				}

				return res
			}
		case "drop":
			pump(false)
		case "timer":
			for _, p := range []*labPeer{r.c, r.s} {
				if !p.hsReturned() || scen.Ver == "13" {
					p.fire()
				}
			}
			r.waitQuiet(3 * time.Second)
		case "update":
			p := peer(st.Side)
			if scen.Ver == "13" && p.hsReturned() && p.hsErr == nil {
				wg.Add(1)
				go func() {
					defer wg.Done()
					uctx, ucancel := context.WithTimeout(ctx, 3*time.Second)
					defer ucancel()
					_ = p.conn.UpdateKeys(uctx, KeyUpdateOptions{RequestPeerUpdate: idx%2 == 0})
				}()
				time.Sleep(200 * time.Microsecond)
				for k := 0; k < 4; k++ {
					pump(true)
				}
			}
		case "updlost":
			// the first transmission of the KeyUpdate is lost, the retransmission timer re-sends it (twice), then the
			// network delivers again: the retransmissions are protected like the first transmission
			p := peer(st.Side)
			if scen.Ver == "13" && p.hsReturned() && p.hsErr == nil {
				wg.Add(1)
				go func() {
					defer wg.Done()
					uctx, ucancel := context.WithTimeout(ctx, 3*time.Second)
					defer ucancel()
					_ = p.conn.UpdateKeys(uctx, KeyUpdateOptions{RequestPeerUpdate: idx%2 == 1})
				}()
				time.Sleep(300 * time.Microsecond)
				r.waitQuiet(time.Second)
				pump(false)
				for k := 0; k < 2; k++ {
					if p.fire() {
						r.waitQuiet(time.Second)
					}
					if k == 0 {
						pump(false)
					}
				}
				for k := 0; k < 4; k++ {
					pump(true)
				}
			}
		case "close":
			p := peer(st.Side)
			wg.Add(1)
			go func() {
				defer wg.Done()
				_ = p.conn.Close()
			}()
			time.Sleep(300 * time.Microsecond)
			r.waitQuiet(time.Second)
		case "inject0":
			// a cleartext application-data record (epoch 0) carrying the attacker's marker
			body := c07Payload(attacker, 32)
			rec := []byte{23, 0xfe, 0xfd, 0, 0, 0, 0, 0, 0, 0, byte(200 + i), byte(len(body) >> 8), byte(len(body))}
			from := "c"
			if st.Side == "c" {
				from = "s"
			}
			r.net.Inject(st.Side, labAddr(from), append(rec, body...))
			r.waitQuiet(time.Second)
		}
	}
	for k := 0; k < 8; k++ { // flush what is still in flight
		before := r.net.Emitted("c2s") + r.net.Emitted("s2c")
		pump(true)
		if r.net.Emitted("c2s")+r.net.Emitted("s2c") == before {
			break
		}
	}
	time.Sleep(2 * time.Millisecond)
	res.CEst = r.c.hsReturned() && r.c.hsErr == nil
	res.SEst = r.s.hsReturned() && r.s.hsErr == nil
	// secrets that must never be visible: the Finished verify_data of both sides (DTLS 1.2)
	secrets := map[string][]byte{}
	for _, p := range []*labPeer{r.c, r.s} {
		if st, ok := p.conn.state.(*dtlsstate.State12); ok && len(st.LocalVerifyData) > 0 {
			secrets["Finished verify_data of "+p.name] = append([]byte(nil), st.LocalVerifyData...)
		}
	}
	cancel()
	_ = r.c.conn.Close()
	_ = r.s.conn.Close()
	done := make(chan struct{})
	go func() { wg.Wait(); close(done) }()
	select {
	case <-done:
	case <-time.After(5 * time.Second):
		res.Lab = "a Write/UpdateKeys/Close call did not return"

		return res
	}
	cid := map[string]int{"c": max(scen.CIDs, 0), "s": max(scen.CIDc, 0)} // records sent BY x carry the peer's CID
	mu.Lock()
	ms := append([][]byte(nil), markers...)
	mu.Unlock()
	for _, dir := range []string{"c2s", "s2c"} {
		for k := 0; k < r.net.Emitted(dir); k++ {
			res.Datagrams++
			c07Monitor(&res, dir[:1], scen.Ver, cid[dir[:1]], r.net.Data(dir, k), ms, secrets)
		}
	}
	mu.Lock()
	for side, l := range reads {
		for _, p := range *l {
			res.Delivered++
			if bytes.Contains(p, attacker) {
				res.Violations = append(res.Violations, fmt.Sprintf("application data from an unprotected (epoch 0) record was delivered by Read on %s", side))
			} else if !written[string(p)] {
				res.Info = append(res.Info, fmt.Sprintf("Read on %s returned %d bytes nobody wrote", side, len(p)))
			}
		}
	}
	mu.Unlock()

	return res
}

func TestVerifConfidential(t *testing.T) {
	in, out := os.Getenv("VERIF_IN"), os.Getenv("VERIF_OUT")
	fi, err := os.Open(in)
	if err != nil {
		t.Fatal(err)
	}
	defer fi.Close()
	var cases []c07Case
	scan := bufio.NewScanner(fi)
	scan.Buffer(make([]byte, 1<<20), 1<<26)
	for scan.Scan() {
		var c c07Case
		if err := json.Unmarshal(scan.Bytes(), &c); err != nil {
			t.Fatal(err)
		}
		cases = append(cases, c)
	}
	getPKI()
	results := make([]c07Result, len(cases))
	var wg sync.WaitGroup
	sem := make(chan struct{}, runtime.GOMAXPROCS(0))
	for i := range cases {
		wg.Add(1)
		sem <- struct{}{}
		go func(i int) {
			defer wg.Done()
			defer func() { <-sem }()
			results[i] = runC07Case(i, &cases[i])
			if results[i].Lab != "" {
				results[i] = runC07Case(i, &cases[i])
			}
		}(i)
	}
	wg.Wait()
	fo, err := os.Create(out)
	if err != nil {
		t.Fatal(err)
	}
	defer fo.Close()
	w := bufio.NewWriter(fo)
	defer w.Flush()
	enc := json.NewEncoder(w)
	for _, r := range results {
		_ = enc.Encode(r)
	}
}

// ---------------------------------------------------------------------------
// exporter versus what an observer of the cleartext handshake can compute

type c07ExpResult struct {
	Case       int      `json:"case"`
	Name       string   `json:"name"`
	Violations []string `json:"violations,omitempty"`
	Lab        string   `json:"lab,omitempty"`
	Candidates int      `json:"candidates"`
	Exports    int      `json:"exports"`
	Info       []string `json:"info,omitempty"`
}

// c07PublicExport compares one exporter output with everything an observer of the cleartext handshake can compute.
func c07PublicExport(label string, n int, got []byte, pub [][]byte, cr, sr []byte) (viol []string, candidates int) {
	for _, hf := range []func() hash.Hash{sha256.New, sha512.New384} {
		empty := hf().Sum(nil)
		for ki, k := range pub {
			for _, seed := range [][]byte{
				append(append([]byte(label), cr...), sr...), append(append([]byte(label), sr...), cr...),
			} {
				candidates++
				if cand, e := prf.PHash(k, seed, n, hf); e == nil && bytes.Equal(cand, got) {
					viol = append(viol, fmt.Sprintf(
						"exporter output for %q equals the TLS 1.2 PRF keyed with public value #%d over label and hello randoms", label, ki))
				}
			}
			if len(k) == 0 {
				k = make([]byte, hf().Size())
			}
			candidates++
			d, e1 := keyschedule.HkdfExpandLabel(hf, k, label, empty, hf().Size())
			if e1 != nil {
				continue
			}
			if cand, e2 := keyschedule.HkdfExpandLabel(hf, d, "exporter", empty, n); e2 == nil && bytes.Equal(cand, got) {
				viol = append(viol, fmt.Sprintf("exporter output for %q equals the TLS 1.3 exporter keyed with public value #%d", label, ki))
			}
		}
	}

	return viol, candidates
}

// c07ExportDuring: the application may call the exporter from its handshake callbacks (VerifyConnection runs on both sides
// before the handshake has finished).  Whatever is handed out there - an error is fine - must not be computable from the
// cleartext part of the handshake either.
func c07ExportDuring(cs *c07Case, res *c07ExpResult) {
	type early struct {
		side  string
		label string
		n     int
		got   []byte
	}
	var mu sync.Mutex
	var got []early
	hook := func(side string) func(*State) error {
		return func(st *State) error {
			for _, label := range []string{"EXTRACTOR-dtls_srtp", "EXPORTER-c07-early"} {
				for _, n := range []int{16, 48} {
					if b, err := st.ExportKeyingMaterial(label, nil, n); err == nil {
						mu.Lock()
						got = append(got, early{side, label, n, b})
						mu.Unlock()
					}
				}
			}

			return nil
		}
	}
	sc := cs.Scen
	co, so := sc.buildOptions(&scenStores{})
	co = append(co, WithVerifyConnection(hook("c")))
	so = append(so, WithVerifyConnection(hook("s")))
	r := newLabRun()
	if err := r.setupWith(co, so); err != nil {
		res.Info = append(res.Info, "export-during-handshake part not run: "+err.Error())

		return
	}
	defer r.closeAll()
	if ce, se := r.handshakeLossless(8 * time.Second); ce != nil || se != nil {
		res.Info = append(res.Info, fmt.Sprintf("export-during-handshake part: handshake failed (%v / %v)", ce, se))

		return
	}
	common := commonOf(r.c.conn)
	lr, rr := common.LocalRandom.MarshalFixed(), common.RemoteRandom.MarshalFixed()
	cr, sr := lr[:], rr[:]
	pub := [][]byte{nil, {}, make([]byte, 32), make([]byte, 48), cr, sr, append(append([]byte(nil), cr...), sr...),
		append(append([]byte(nil), sr...), cr...)}
	mu.Lock()
	defer mu.Unlock()
	for _, e := range got {
		res.Exports++
		v, nc := c07PublicExport(e.label, e.n, e.got, pub, cr, sr)
		res.Candidates += nc
		for _, x := range v {
			res.Violations = append(res.Violations, fmt.Sprintf("inside the %s's VerifyConnection callback: %s", map[string]string{"c": "client", "s": "server"}[e.side], x))
		}
	}
}

func runC07Exporter(idx int, cs *c07Case) c07ExpResult { //nolint:cyclop,gocognit
	res := c07ExpResult{Case: idx, Name: cs.Name}
	stores := &scenStores{}
	for h := 0; h < cs.History; h++ {
		prev, err := openSession(&cs.Scen, stores)
		if err != nil {
			res.Lab = "earlier session: " + err.Error()

			return res
		}
		prev.lossless()
		_, _ = prev.r.c.conn.Write([]byte("c07-history"))
		time.Sleep(time.Millisecond)
		_ = prev.r.c.conn.Close()
		_ = prev.r.s.conn.Close()
		prev.close()
	}
	sess, err := openSession(&cs.Scen, stores)
	if err != nil {
		res.Lab = err.Error()

		return res
	}
	defer sess.close()
	seen := map[string][]byte{}
	for _, p := range []*labPeer{sess.r.c, sess.r.s} {
		st, ok := p.conn.ConnectionState()
		if !ok {
			res.Lab = "no connection state"

			return res
		}
		common := commonOf(p.conn)
		if cs.SnapshotClose {
			_ = p.conn.Close()
		}
		lr, rr := common.LocalRandom.MarshalFixed(), common.RemoteRandom.MarshalFixed()
		cr, sr := lr[:], rr[:]
		if !common.IsClient {
			cr, sr = rr[:], lr[:]
		}
		// keys an observer has: nothing, zeros, and every public handshake value
		pub := [][]byte{nil, {}, make([]byte, 32), make([]byte, 48), cr, sr, append(append([]byte(nil), cr...), sr...),
			append(append([]byte(nil), sr...), cr...)}
		for _, label := range []string{"EXTRACTOR-dtls_srtp", "EXPORTER-c07-a", "EXPERIMENTAL-c07"} {
			for _, n := range []int{16, 60} {
				got, err := st.ExportKeyingMaterial(label, nil, n)
				if err != nil {
					res.Lab = "ExportKeyingMaterial: " + err.Error()

					return res
				}
				res.Exports++
				key := fmt.Sprintf("%s/%d", label, n)
				if prev, dup := seen[key]; dup && !bytes.Equal(prev, got) {
					res.Info = append(res.Info, "client and server export different keying material for "+key+" (property C01)")
				}
				seen[key] = got
				v, nc := c07PublicExport(label, n, got, pub, cr, sr)
				res.Candidates += nc
				res.Violations = append(res.Violations, v...)
			}
		}
	}

	if cs.History == 0 && !cs.SnapshotClose {
		c07ExportDuring(cs, &res)
	}

	return res
}

func TestVerifExporterSecrecy(t *testing.T) {
	in, out := os.Getenv("VERIF_IN"), os.Getenv("VERIF_OUT")
	fi, err := os.Open(in)
	if err != nil {
		t.Fatal(err)
	}
	defer fi.Close()
	var cases []c07Case
	scan := bufio.NewScanner(fi)
	scan.Buffer(make([]byte, 1<<20), 1<<26)
	for scan.Scan() {
		var c c07Case
		if err := json.Unmarshal(scan.Bytes(), &c); err != nil {
			t.Fatal(err)
		}
		cases = append(cases, c)
	}
	fo, err := os.Create(out)
	if err != nil {
		t.Fatal(err)
	}
	defer fo.Close()
	enc := json.NewEncoder(fo)
	for i := range cases {
		_ = enc.Encode(runC07Exporter(i, &cases[i]))
	}
}
