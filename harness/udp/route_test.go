// Replays TLC-generated scripts of spec/CidRrc.tla (Part "route", fresh
// listener) on the real UDP listener of internal/net/udp over loopback
// sockets: every datagram arrival, PacketConn.WriteTo and Close of every edge
// script is performed, and which accepted connection receives each datagram
// and the listener's key table are compared with the model step by step.
//
// Datagram format of this harness: byte 0 'H' (would start a connection) or
// 'D'; byte 1 the connection number whose CID the datagram names (0 = none);
// a unique tag follows.  Outgoing 'S' + n is "a ServerHello carrying CID n".

//go:build verif

package udp

import (
	"bufio"
	"encoding/json"
	"fmt"
	"net"
	"os"
	"sort"
	"sync"
	"testing"
	"time"
)

type vRouted struct {
	Conn  int    `json:"conn"`
	Cid   int    `json:"cid"`
	Src   string `json:"src"`
	Fresh bool   `json:"fresh"`
}

type vRStep struct {
	Op     string         `json:"op"`
	Src    string         `json:"src"`
	K      int            `json:"k"`
	Hello  bool           `json:"hello"`
	C      int            `json:"c"`
	A      string         `json:"a"`
	Sh     bool           `json:"sh"`
	Routed vRouted        `json:"routed"`
	Tab    map[string]int `json:"tab"`
}

type vRScript struct {
	Steps []vRStep `json:"steps"`
}

type vRResult struct {
	Script     int      `json:"script"`
	Violations []string `json:"violations,omitempty"`
	Diverge    []string `json:"diverge,omitempty"`
	Lab        string   `json:"lab,omitempty"`
	Arrivals   int      `json:"arrivals"`
	Routed     int      `json:"routed"`
}

type vGot struct {
	conn int
	tag  string
}

func vCidKey(n int) string { return fmt.Sprintf("cid%d", n) }

func vRouteReplay(idx int, sc *vRScript) (res vRResult) { //nolint:cyclop,gocognit,gocyclo,maintidx
	res.Script = idx
	lc := ListenConfig{
		AcceptFilter: func(p []byte) bool { return len(p) > 0 && p[0] == 'H' },
		DatagramRouter: func(p []byte) (string, bool) {
			if len(p) > 1 && p[1] != 0 {
				return vCidKey(int(p[1])), true
			}

			return "", false
		},
		ConnectionIdentifier: func(p []byte) (string, bool) {
			if len(p) > 1 && p[0] == 'S' {
				return vCidKey(int(p[1])), true
			}

			return "", false
		},
	}
	pl, err := lc.Listen("udp4", &net.UDPAddr{IP: net.IPv4(127, 0, 0, 1)})
	if err != nil {
		res.Lab = err.Error()

		return res
	}
	lst, _ := pl.(*listener)
	socks := map[string]*net.UDPConn{}
	names := map[string]string{} // socket address -> model name
	for _, n := range []string{"a1", "a2", "a3"} {
		s, err := net.ListenUDP("udp4", &net.UDPAddr{IP: net.IPv4(127, 0, 0, 1)})
		if err != nil {
			res.Lab = err.Error()

			return res
		}
		socks[n] = s
		names[s.LocalAddr().String()] = n
	}
	got := make(chan vGot, 64)
	var conns []*PacketConn
	var wg sync.WaitGroup
	defer func() {
		for _, c := range conns {
			_ = c.Close()
		}
		_ = pl.Close()
		for _, s := range socks {
			_ = s.Close()
		}
		wg.Wait()
	}()
	accepted := make(chan *PacketConn, 8)
	go func() {
		for {
			c, _, err := pl.Accept()
			if err != nil {
				return
			}
			pc, _ := c.(*PacketConn)
			accepted <- pc
		}
	}()
	startReader := func(n int, c *PacketConn) {
		wg.Add(1)
		go func() {
			defer wg.Done()
			buf := make([]byte, 256)
			for {
				k, _, err := c.ReadFrom(buf)
				if err != nil {
					return
				}
				got <- vGot{conn: n, tag: string(buf[2:k])}
			}
		}()
	}
	div := func(i int, f string, a ...any) {
		if len(res.Diverge) < 4 {
			res.Diverge = append(res.Diverge, fmt.Sprintf("step %d (%s): ", i, sc.Steps[i].Op)+fmt.Sprintf(f, a...))
		}
	}
	viol := func(i int, f string, a ...any) {
		res.Violations = append(res.Violations, fmt.Sprintf("step %d (%s): ", i, sc.Steps[i].Op)+fmt.Sprintf(f, a...))
	}
	idOf := map[int]bool{}   // identifier established (harness's own bookkeeping)
	closedC := map[int]bool{}
	for i := range sc.Steps {
		st := &sc.Steps[i]
		switch st.Op {
		case "arrive":
			res.Arrivals++
			tag := fmt.Sprintf("s%d-%d", idx, i)
			first := byte('D')
			if st.Hello {
				first = 'H'
			}
			payload := append([]byte{first, byte(st.K)}, tag...)
			if _, err := socks[st.Src].WriteTo(payload, pl.Addr()); err != nil {
				res.Lab = err.Error()

				return res
			}
			// a new connection shows up on Accept before its first datagram can be read
			wait := 400 * time.Millisecond
			if st.Routed.Conn <= 0 {
				wait = 40 * time.Millisecond
			}
			var g *vGot
			timer := time.NewTimer(wait)
		waitLoop:
			for {
				select {
				case c := <-accepted:
					conns = append(conns, c)
					startReader(len(conns), c)
				case x := <-got:
					if x.tag == tag {
						g = &x

						break waitLoop
					}
				case <-timer.C:
					break waitLoop
				}
			}
			timer.Stop()
			real := 0
			if g != nil {
				real = g.conn
				res.Routed++
			}
			// C15: a datagram naming the CID of an identified, open connection reaches that connection
			if st.K != 0 && idOf[st.K] && !closedC[st.K] && real != st.K {
				viol(i, "datagram naming the connection ID of connection %d from %s was delivered to connection %d", st.K, st.Src, real)
			}
			if st.Routed.Conn == -1 {
				return res // beyond the model's connection bound
			}
			if real != st.Routed.Conn {
				div(i, "datagram (cid %d, from %s, hello %v) reached connection %d, model %d", st.K, st.Src, st.Hello, real, st.Routed.Conn)
			}
		case "write":
			if st.C > len(conns) {
				res.Lab = "script writes on a connection that was not accepted"

				return res
			}
			payload := []byte{'W', 0, 'x'}
			if st.Sh {
				payload = []byte{'S', byte(st.C), 'x'}
			}
			wasID := conns[st.C-1].id.Load() != nil
			if _, err := conns[st.C-1].WriteTo(payload, socks[st.A].LocalAddr()); err != nil {
				div(i, "WriteTo failed: %v", err)
			}
			if st.Sh && !wasID {
				idOf[st.C] = true
			}
		case "close":
			if st.C > len(conns) {
				res.Lab = "script closes a connection that was not accepted"

				return res
			}
			_ = conns[st.C-1].Close()
			closedC[st.C] = true
		}
		// compare the key table
		lst.connLock.Lock()
		realTab := map[string]int{}
		for k, c := range lst.conns {
			name := k
			if n, ok := names[k]; ok {
				name = n
			}
			for j, pc := range conns {
				if pc == c {
					realTab[name] = j + 1
				}
			}
			if _, ok := realTab[name]; !ok {
				realTab[name] = -1 // a connection the harness has not accepted yet
			}
		}
		lst.connLock.Unlock()
		keys := make([]string, 0, len(st.Tab))
		for k := range st.Tab {
			keys = append(keys, k)
		}
		sort.Strings(keys)
		for _, k := range keys {
			if realTab[k] != st.Tab[k] {
				div(i, "table[%s] = %d, model %d", k, realTab[k], st.Tab[k])
			}
		}
	}

	return res
}

func TestVerifRouteScripts(t *testing.T) {
	in, out := os.Getenv("VERIF_IN"), os.Getenv("VERIF_OUT")
	fi, err := os.Open(in)
	if err != nil {
		t.Fatal(err)
	}
	defer fi.Close()
	scan := bufio.NewScanner(fi)
	scan.Buffer(make([]byte, 1<<20), 1<<24)
	var scripts []*vRScript
	for scan.Scan() {
		sc := &vRScript{}
		if err := json.Unmarshal(scan.Bytes(), sc); err != nil {
			t.Fatalf("script %d: %v", len(scripts), err)
		}
		scripts = append(scripts, sc)
	}
	results := make([]vRResult, len(scripts))
	var wg sync.WaitGroup
	sem := make(chan struct{}, 24)
	for i := range scripts {
		wg.Add(1)
		sem <- struct{}{}
		go func(i int) {
			defer wg.Done()
			defer func() { <-sem }()
			results[i] = vRouteReplay(i, scripts[i])
			if len(results[i].Diverge) > 0 || results[i].Lab != "" { // timing: retry once alone-ish
				results[i] = vRouteReplay(i, scripts[i])
			}
		}(i)
	}
	wg.Wait()
	fo, err := os.Create(out)
	if err != nil {
		t.Fatal(err)
	}
	defer fo.Close()
	w := bufio.NewWriter(fo)
	defer w.Flush()
	enc := json.NewEncoder(w)
	sum := map[string]int{}
	for i := range results {
		r := &results[i]
		sum["scripts"]++
		sum["arrivals"] += r.Arrivals
		sum["routed"] += r.Routed
		if r.Lab != "" {
			sum["lab"]++
		}
		if len(r.Violations) > 0 || len(r.Diverge) > 0 || r.Lab != "" {
			_ = enc.Encode(r)
		}
	}
	_ = enc.Encode(map[string]any{"summary": sum})
}
