// Replays TLC-generated scripts of spec/ListenerBacklog.tla on the real UDP listener of internal/net/udp over loopback
// sockets: what unauthenticated first datagrams can make the listener keep is bounded by the accept backlog, every table
// entry belongs to a connection somebody can reach (accepted, or waiting in the accept queue), and an address that was
// turned away while the queue was full is served when it tries again.

//go:build verif

package udp

import (
	"bufio"
	"encoding/json"
	"fmt"
	"net"
	"os"
	"sort"
	"strings"
	"sync"
	"testing"
	"time"
)

type vBPost struct {
	Tab   []string `json:"tab"`
	QLen  int      `json:"qlen"`
	Owned []string `json:"owned"`
}

type vBStep struct {
	Op   string `json:"op"`
	A    string `json:"a"`
	Post vBPost `json:"post"`
}

type vBScript struct {
	Backlog int      `json:"backlog"`
	Steps   []vBStep `json:"steps"`
}

type vBResult struct {
	Script     int      `json:"script"`
	Violations []string `json:"violations,omitempty"`
	Diverge    []string `json:"diverge,omitempty"`
	Lab        string   `json:"lab,omitempty"`
	Steps      int      `json:"steps"`
	Served     int      `json:"served"` // connections accepted that could read the datagram which created them
}

func vBacklogReplay(idx int, sc *vBScript) (res vBResult) { //nolint:cyclop,gocognit
	res.Script = idx
	lc := ListenConfig{Backlog: sc.Backlog, AcceptFilter: func(p []byte) bool { return len(p) > 0 && p[0] == 'H' }}
	pl, err := lc.Listen("udp4", &net.UDPAddr{IP: net.IPv4(127, 0, 0, 1)})
	if err != nil {
		res.Lab = err.Error()

		return res
	}
	lst, _ := pl.(*listener)
	socks := map[string]*net.UDPConn{}
	names := map[string]string{}
	for _, n := range []string{"a1", "a2", "a3", "a4"} {
		s, err := net.ListenUDP("udp4", &net.UDPAddr{IP: net.IPv4(127, 0, 0, 1)})
		if err != nil {
			res.Lab = err.Error()

			return res
		}
		socks[n] = s
		names[s.LocalAddr().String()] = n
	}
	owned := map[string]*PacketConn{}
	defer func() {
		for _, c := range owned {
			_ = c.Close()
		}
		_ = pl.Close()
		for _, s := range socks {
			_ = s.Close()
		}
	}()
	table := func() []string {
		lst.connLock.Lock()
		defer lst.connLock.Unlock()
		out := []string{}
		for k := range lst.conns {
			if n, ok := names[k]; ok {
				out = append(out, n)
			} else {
				out = append(out, k)
			}
		}
		sort.Strings(out)

		return out
	}
	same := func(a, b []string) bool { return strings.Join(a, ",") == strings.Join(b, ",") }
	for i := range sc.Steps {
		st := &sc.Steps[i]
		res.Steps++
		want := append([]string(nil), st.Post.Tab...)
		sort.Strings(want)
		switch st.Op {
		case "arrive":
			if _, err := socks[st.A].WriteTo([]byte(fmt.Sprintf("H%s-%d", st.A, i)), pl.Addr()); err != nil {
				res.Lab = err.Error()

				return res
			}
			// the read loop of the listener processes it asynchronously: wait until the expected state shows, and in any
			// case long enough for a datagram that is expected to change nothing
			deadline := time.Now().Add(300 * time.Millisecond)
			settle := time.Now().Add(25 * time.Millisecond)
			for time.Now().Before(deadline) {
				if time.Now().After(settle) && same(table(), want) && len(lst.acceptCh) == st.Post.QLen {
					break
				}
				time.Sleep(2 * time.Millisecond)
			}
		case "accept":
			type acc struct {
				c   net.PacketConn
				err error
			}
			ch := make(chan acc, 1)
			go func() {
				c, _, err := pl.Accept()
				ch <- acc{c, err}
			}()
			select {
			case a := <-ch:
				if a.err != nil {
					res.Diverge = append(res.Diverge, fmt.Sprintf("step %d: Accept failed: %v", i, a.err))

					return res
				}
				pc, _ := a.c.(*PacketConn)
				n := names[pc.raddr.String()]
				if n != st.A {
					res.Diverge = append(res.Diverge, fmt.Sprintf("step %d: Accept returned the connection of %s, the model's queue head is %s", i, n, st.A))
				}
				owned[n] = pc
				// the connection is served: the datagram that created it can be read
				_ = pc.SetReadDeadline(time.Now().Add(300 * time.Millisecond))
				buf := make([]byte, 64)
				if k, _, err := pc.ReadFrom(buf); err != nil || !strings.HasPrefix(string(buf[:k]), "H"+n) {
					res.Violations = append(res.Violations, fmt.Sprintf("step %d: the accepted connection of %s cannot read its first datagram (%v)", i, n, err))
				} else {
					res.Served++
				}
			case <-time.After(500 * time.Millisecond):
				res.Violations = append(res.Violations, fmt.Sprintf("step %d: a first datagram of %s arrived while the accept queue had room, "+
					"but Accept does not return a connection for it", i, st.A))

				return res
			}
		case "close":
			c, ok := owned[st.A]
			if !ok {
				res.Lab = "script closes a connection that was not accepted"

				return res
			}
			_ = c.Close()
			delete(owned, st.A)
		}
		real := table()
		// C08: entries nobody owns are bounded by the backlog, and each of them waits in the accept queue
		unowned := 0
		for _, n := range real {
			if _, ok := owned[n]; !ok {
				unowned++
			}
		}
		if unowned > sc.Backlog {
			res.Violations = append(res.Violations, fmt.Sprintf("step %d (%s %s): %d table entries belong to connections nobody has accepted, the backlog is %d (table %v)",
				i, st.Op, st.A, unowned, sc.Backlog, real))

			return res
		}
		if unowned != len(lst.acceptCh) {
			res.Violations = append(res.Violations, fmt.Sprintf("step %d (%s %s): %d table entries are not owned by the application but only %d connections wait in the accept queue: "+
				"an entry nobody can reach (table %v)", i, st.Op, st.A, unowned, len(lst.acceptCh), real))

			return res
		}
		if !same(real, want) || len(lst.acceptCh) != st.Post.QLen {
			res.Diverge = append(res.Diverge, fmt.Sprintf("step %d (%s %s): table %v queue %d, model %v queue %d", i, st.Op, st.A, real, len(lst.acceptCh), want, st.Post.QLen))

			return res
		}
	}

	return res
}

func TestVerifBacklogScripts(t *testing.T) {
	in, out := os.Getenv("VERIF_IN"), os.Getenv("VERIF_OUT")
	fi, err := os.Open(in)
	if err != nil {
		t.Fatal(err)
	}
	defer fi.Close()
	scan := bufio.NewScanner(fi)
	scan.Buffer(make([]byte, 1<<20), 1<<24)
	var scripts []*vBScript
	for scan.Scan() {
		sc := &vBScript{}
		if err := json.Unmarshal(scan.Bytes(), sc); err != nil {
			t.Fatalf("script %d: %v", len(scripts), err)
		}
		scripts = append(scripts, sc)
	}
	results := make([]vBResult, len(scripts))
	var wg sync.WaitGroup
	sem := make(chan struct{}, 16)
	for i := range scripts {
		wg.Add(1)
		sem <- struct{}{}
		go func(i int) {
			defer wg.Done()
			defer func() { <-sem }()
			results[i] = vBacklogReplay(i, scripts[i])
			if len(results[i].Diverge) > 0 || results[i].Lab != "" || len(results[i].Violations) > 0 { // timing: once more
				results[i] = vBacklogReplay(i, scripts[i])
			}
		}(i)
	}
	wg.Wait()
	fo, err := os.Create(out)
	if err != nil {
		t.Fatal(err)
	}
	defer fo.Close()
	w := bufio.NewWriter(fo)
	defer w.Flush()
	enc := json.NewEncoder(w)
	sum := map[string]int{}
	for i := range results {
		r := &results[i]
		sum["scripts"]++
		sum["steps"] += r.Steps
		sum["served"] += r.Served
		if r.Lab != "" {
			sum["lab"]++
		}
		if len(r.Diverge) > 0 {
			sum["diverged"]++
		}
		if len(r.Violations) > 0 || len(r.Diverge) > 0 || r.Lab != "" {
			_ = enc.Encode(r)
		}
	}
	_ = enc.Encode(map[string]any{"summary": sum})
}
