---------------------------- MODULE Handshake12 ----------------------------
(* M1 - the DTLS 1.2 flight machine of pion/dtls (internal/handshake/fsm12.go,
   internal/flight/flight12) with a lossy / duplicating / reordering network.

   Granularity ("big step"): one action = one environment event (a datagram is
   delivered, a retransmission timer fires) followed by the endpoint's reaction
   up to the point where its FSM goroutine blocks again in wait() or finish().
   This is exactly what the harness observes between two quiescent points when it
   replays a script with virtual timers, and it is sound for free-running
   executions because the reader goroutine hands a datagram to the FSM only while
   the FSM sits in wait()/finish() (rendezvous on handshakeRecv).

   Every flight travels in one datagram (default MTU); fragmented variants are
   covered by the fault-mask enumeration on the real code, not by this module.

   Deviations of the code from the RFC picture are constants:
     ClientResendsFinal  - fsm12.finish: does a client whose current flight is its
                           last *send* flight re-send it when the peer retransmits?
                           (pinned tree: FALSE; the "fix:" commit makes it TRUE)
   Serves C02 (BothEstablish), C17 (TimerLaw, NoTimerHVR, ...), C13 (CookieFirst),
   C01/C14 shape (who completes). *)
EXTENDS Integers, Sequences, FiniteSets, TLC, Json

CONSTANTS Resume,             \* abbreviated handshake: server knows the offered session
          HelloVerify,        \* server answers the first ClientHello with HelloVerifyRequest
          MaxDrop, MaxDup,    \* fault budget of the network
          MaxTimeouts,        \* bound on timer events (>= 100 = unbounded; the state does not count them then)
          BackoffCap,         \* number of doublings until the 60 s cap is reached (model constant)
          NoBackoff,          \* DisableRetransmitBackoff
          ClientResendsFinal,
          EstablishedStaysFinished, \* fsm12.send: an endpoint that is already established returns to Finished after
                              \* re-sending (pinned tree: FALSE - a resumed server falls back to Waiting(4b) and
                              \* retransmits on the timer although it completed; the "fix:" commit makes it TRUE)
          EmitCap,            \* emission counter saturates here (0 in liveness configurations)
          Split,              \* the server's Flight 4 travels in TWO datagrams (F4x: ServerHello + Certificate, F4y: key exchange
                              \* + ServerHelloDone; MTU 900 in the harness): a datagram can then carry NEW handshake data without
                              \* completing the flight - the case in which the retransmit interval must still be reset
          Gen                 \* print one environment script per explored edge

E == {"c", "s"}
Peer(e) == IF e = "c" THEN "s" ELSE "c"
CFlights == {"F1", "F3", "F5", "F5b"}
SFlights == {"F2", "F4", "F4b", "F6"}
Flights  == CFlights \cup SFlights
\* datagram kinds: a flight is one datagram, except Flight 4 when Split
DG(f) == IF Split /\ f = "F4" THEN {"F4x", "F4y"} ELSE {f}
Kinds == UNION {DG(f) : f \in Flights}
Sender(f) == IF f \in CFlights THEN "c" ELSE "s"     \* (F4x, F4y fall into the ELSE branch: server)
Has4(g) == DG("F4") \subseteq g
Cap == 2                      \* identical copies of one flight in flight at once

VARIABLES st,      \* FSM state at quiescence: "Waiting" | "Finished" | "Errored"
          fl,      \* current flight
          retx,    \* retransmit flag of the current flight
          bk,      \* number of doublings applied to the retransmit interval
          got,     \* flights of the peer whose messages are in the handshake cache
          est,     \* establishment marked (HandshakeContext returned nil)
          net,     \* flight -> [n, d, s]: datagrams in flight that are single (n), that have an identical
                   \* twin in flight (d: created by Dup), and stale twins whose original was delivered (s).
                   \* A stale twin carries record numbers the receiver has already accepted: the
                   \* anti-replay window drops its PROTECTED records (see ClearHS for the cleartext ones).
          drops, dups, touts,
          emitted, \* per endpoint: number of datagrams emitted (C17 bound), capped
          inputs,  \* per endpoint: timer events + datagrams received (capped), the budget side of the C17 bound
          cause,   \* what made the last emission happen: "recv" | "timer" | "start"  (C13/C17)
          lastEmit,\* <<endpoint, flight>> of the last emission or <<>>
          hist     \* environment script (hidden by VIEW)

vars == <<st, fl, retx, bk, got, est, net, drops, dups, touts, emitted, inputs, cause, lastEmit, hist>>
view == <<st, fl, retx, bk, got, est, net, drops, dups, touts, emitted, inputs, cause, lastEmit>>

LastSend(f) == f \in {"F6", "F5b"}
LastRecv(f) == f \in {"F5", "F4b"}
Retransmittable(f) == f # "F2"          \* HelloVerifyRequest is never retransmitted on a timer

-----------------------------------------------------------------------------
(* flight parsers: next flight ("none" = keep waiting) *)
ParseNext(e, cf, g) ==
  IF e = "c" THEN
    CASE cf = "F1" -> IF "F4b" \in g THEN "F5b"
                      ELSE IF Has4(g) THEN "F5"
                      ELSE IF "F2" \in g THEN "F3" ELSE "none"
      [] cf = "F3" -> IF "F4b" \in g THEN "F5b"
                      ELSE IF Has4(g) THEN "F5" ELSE "none"
      [] cf = "F5" -> IF "F6" \in g THEN "F5" ELSE "none"
      [] OTHER     -> "none"
  ELSE
    CASE cf = "F0" -> IF "F1" \in g
                      THEN (IF Resume THEN "F4b" ELSE IF HelloVerify THEN "F2" ELSE "F4")
                      ELSE "none"
      [] cf = "F2" -> IF "F3" \in g THEN "F4"
                      ELSE IF "F1" \in g THEN "F2"      \* flight2Parse falls back to flight0Parse
                      ELSE "none"
      [] cf = "F4" -> IF "F5" \in g THEN "F6" ELSE "none"
      [] cf = "F4b" -> IF "F5b" \in g THEN "F4b" ELSE "none"
      [] OTHER     -> "none"

PutK(n, f) == [n EXCEPT ![f].n = IF n[f].n + n[f].d < Cap THEN @ + 1 ELSE @]
\* a flight is emitted: every datagram of it enters the network
Put(n, f) == IF Split /\ f = "F4" THEN PutK(PutK(n, "F4x"), "F4y") ELSE PutK(n, f)
\* one copy of kind k ("n" | "d") of flight f leaves the network towards its destination
Take(n, f, k) == CASE k = "n" -> [n EXCEPT ![f].n = @ - 1]
                   [] k = "d" -> [n EXCEPT ![f].d = @ - 1, ![f].s = @ + 1]
                   [] OTHER   -> [n EXCEPT ![f].s = @ - 1]
Has(f, k) == CASE k = "n" -> net[f].n > 0 [] k = "d" -> net[f].d > 0 [] OTHER -> net[f].s > 0
\* datagrams that carry a cleartext (epoch 0) handshake record.  Epoch-0 records are not subject to the anti-replay window
\* (they are not authenticated: the "fix:" commit that stops a forged cleartext record from moving the window), so the
\* second copy of a duplicated datagram reaches the handshake layer again, where message_seq marks it a retransmission.
\* ChangeCipherSpec + Finished datagrams (F6, F5b) wake nothing: their only handshake record is protected.
ClearHS(f) == f \notin {"F6", "F5b"}
Inc(m, e) == [m EXCEPT ![e] = IF @ < EmitCap THEN @ + 1 ELSE @]

\* the endpoint e (re)sends flight f: the datagram enters the network
EmitUpd(e, f, why) ==
  /\ net' = Put(net, f)
  /\ emitted' = Inc(emitted, e)
  /\ cause' = why
  /\ lastEmit' = <<e, f>>

NoEmit == /\ UNCHANGED <<emitted>> /\ cause' = "none" /\ lastEmit' = <<>>

-----------------------------------------------------------------------------
(* environment events *)

\* a copy of flight f reaches its destination e
Deliver(f, k) ==
  LET e == Peer(Sender(f)) IN
  /\ Has(f, k)
  /\ st[e] \in {"Waiting", "Finished"}
  /\ got' = [got EXCEPT ![e] = @ \cup {f}]
  /\ UNCHANGED <<drops, dups, touts>>
  /\ inputs' = Inc(inputs, e)
  /\ IF st[e] = "Finished"
     THEN \* fsm12.finish
          IF e = "s" \/ (ClientResendsFinal /\ LastSend(fl[e]))
          THEN /\ net' = Put(Take(net, f, k), fl[e])
               /\ emitted' = Inc(emitted, e) /\ cause' = "recv" /\ lastEmit' = <<e, fl[e]>>
               /\ st' = [st EXCEPT ![e] = IF LastSend(fl[e]) \/ EstablishedStaysFinished THEN "Finished" ELSE "Waiting"]
               /\ UNCHANGED <<fl, retx, bk, est>>
          ELSE /\ net' = Take(net, f, k)
               /\ NoEmit
               /\ UNCHANGED <<st, fl, retx, bk, est>>
     ELSE \* fsm12.wait, receive branch
          \* retransmission is recognised by message_seq below the reassembly cursor: the second half of a split flight
          \* whose first half is still missing has not been consumed, a repeated copy of it still counts as new data
          LET isRetx == f \in got[e] /\ (f = "F4y" => "F4x" \in got[e])
              nf     == ParseNext(e, fl[e], got'[e])
              bk1    == IF isRetx THEN bk[e] ELSE 0 IN
          IF nf = "none"
          THEN /\ net' = Take(net, f, k)
               /\ bk' = [bk EXCEPT ![e] = bk1]
               /\ NoEmit
               /\ UNCHANGED <<st, fl, retx, est>>
          ELSE IF LastRecv(nf) /\ nf = fl[e]
          THEN /\ net' = Take(net, f, k)
               /\ bk' = [bk EXCEPT ![e] = bk1]
               /\ st' = [st EXCEPT ![e] = "Finished"]
               /\ est' = [est EXCEPT ![e] = TRUE]
               /\ NoEmit
               /\ UNCHANGED <<fl, retx>>
          ELSE \* prepare + send the next flight
               /\ net' = Put(Take(net, f, k), nf)
               /\ emitted' = Inc(emitted, e) /\ cause' = "recv" /\ lastEmit' = <<e, nf>>
               /\ bk' = [bk EXCEPT ![e] = bk1]
               /\ fl' = [fl EXCEPT ![e] = nf]
               /\ retx' = [retx EXCEPT ![e] = Retransmittable(nf)]
               /\ st' = [st EXCEPT ![e] = IF LastSend(nf) THEN "Finished" ELSE "Waiting"]
               /\ est' = [est EXCEPT ![e] = @ \/ LastSend(nf)]

\* a stale twin arrives: its protected records are dropped by the anti-replay window; its cleartext handshake records are
\* processed again, as a retransmission
DeliverStale(f) ==
  IF ClearHS(f) THEN Deliver(f, "s")
  ELSE /\ net[f].s > 0
       /\ net' = [net EXCEPT ![f].s = @ - 1]
       /\ cause' = "none" /\ lastEmit' = <<>>
       /\ UNCHANGED <<st, fl, retx, bk, got, est, drops, dups, touts, emitted, inputs>>

\* the network loses one copy
Drop(f, k) ==
  /\ drops < MaxDrop
  /\ CASE k = "n" -> net[f].n > 0 /\ net' = [net EXCEPT ![f].n = @ - 1]
       [] k = "d" -> net[f].d > 0 /\ net' = [net EXCEPT ![f].d = @ - 1, ![f].n = @ + 1]
       [] k = "s" -> net[f].s > 0 /\ net' = [net EXCEPT ![f].s = @ - 1]
  /\ drops' = drops + 1
  /\ cause' = "none" /\ lastEmit' = <<>>
  /\ UNCHANGED <<st, fl, retx, bk, got, est, dups, touts, emitted, inputs>>

\* the network duplicates a datagram
Dup(f) ==
  /\ net[f].n > 0 /\ dups < MaxDup
  /\ net' = [net EXCEPT ![f].n = @ - 1, ![f].d = @ + 1] /\ dups' = dups + 1
  /\ cause' = "none" /\ lastEmit' = <<>>
  /\ UNCHANGED <<st, fl, retx, bk, got, est, drops, touts, emitted, inputs>>

\* the retransmission timer of e fires (fsm.go handleRetransmitTimeout)
Timeout(e) ==
  /\ st[e] = "Waiting"
  /\ (MaxTimeouts < 100 => touts < MaxTimeouts)
  /\ touts' = IF MaxTimeouts < 100 THEN touts + 1 ELSE touts
  /\ IF retx[e]
     THEN /\ bk' = [bk EXCEPT ![e] = IF NoBackoff THEN @ ELSE IF @ < BackoffCap THEN @ + 1 ELSE @]
          /\ IF fl[e] = "F0"                       \* server before any ClientHello: nothing to send
             THEN /\ UNCHANGED net /\ NoEmit
             ELSE EmitUpd(e, fl[e], "timer")
     ELSE /\ UNCHANGED <<bk, net>> /\ NoEmit
  /\ UNCHANGED <<st, fl, retx, got, est, drops, dups>>
  /\ inputs' = Inc(inputs, e)

Init ==
  /\ st = [e \in E |-> "Waiting"]
  /\ fl = [e \in E |-> IF e = "c" THEN "F1" ELSE "F0"]
  /\ retx = [e \in E |-> TRUE]
  /\ bk = [e \in E |-> 0]
  /\ got = [e \in E |-> {}]
  /\ est = [e \in E |-> FALSE]
  /\ net = [f \in Kinds |-> [n |-> IF f = "F1" THEN 1 ELSE 0, d |-> 0, s |-> 0]]   \* the first ClientHello is out
  /\ drops = 0 /\ dups = 0 /\ touts = 0
  /\ emitted = [e \in E |-> IF e = "c" THEN 1 ELSE 0]
  /\ inputs = [e \in E |-> 0]
  /\ cause = "start" /\ lastEmit = <<"c", "F1">>
  /\ hist = <<>>

PostP == [cst |-> st'["c"], sst |-> st'["s"], cfl |-> fl'["c"], sfl |-> fl'["s"],
          cest |-> est'["c"], sest |-> est'["s"], cbk |-> bk'["c"], sbk |-> bk'["s"],
          cretx |-> retx'["c"], sretx |-> retx'["s"],
          emit |-> IF lastEmit' = <<>> THEN "" ELSE lastEmit'[2]]
Log(a, x) == hist' = Append(hist, [act |-> a, arg |-> x, post |-> PostP])

Next == \/ \E f \in Kinds   : \/ \E k \in {"n", "d"} : Deliver(f, k) /\ Log("Deliver", f \o "/" \o k)
                              \/ DeliverStale(f) /\ Log("Deliver", f \o "/s")
                              \/ \E k \in {"n", "d", "s"} : Drop(f, k) /\ Log("Drop", f \o "/" \o k)
                              \/ Dup(f) /\ Log("Dup", f)
        \/ \E e \in E : Timeout(e) /\ Log("Timeout", e)

Fair == /\ \A e \in E : WF_vars(Timeout(e) /\ Log("Timeout", e))
        /\ \A e \in E : SF_vars(\E f \in Kinds, k \in {"n", "d"} : Sender(f) = Peer(e) /\ Deliver(f, k) /\ Log("Deliver", f \o "/" \o k))

\* with a flight in two datagrams a fair network delivers each half eventually (delivering one half for ever would
\* satisfy the per-endpoint condition above)
FairSplit == Split => \A f \in DG("F4") : SF_vars(\E k \in {"n", "d"} : Deliver(f, k) /\ Log("Deliver", f \o "/" \o k))

Spec == Init /\ [][Next]_vars /\ Fair /\ FairSplit

-----------------------------------------------------------------------------
(* C02 *)
BothEstablish == <>[](est["c"] /\ est["s"])

(* C01 shape: nobody reports success unless the peer reached its last flight *)
NoLoneCompletion == est["s"] => (IF Resume THEN "F5b" \in got["s"] ELSE "F5" \in got["s"])
ClientCompletionSound == est["c"] => (IF Resume THEN "F4b" \in got["c"] ELSE "F6" \in got["c"])

(* C13: with hello verification and no known session the server emits nothing but the cookie
   request until the cookie came back (F3 = ClientHello echoing the cookie) *)
CookieFirst ==
  [][(HelloVerify /\ ~Resume /\ lastEmit' # <<>> /\ lastEmit'[1] = "s" /\ lastEmit'[2] # "F2") => "F3" \in got'["s"]]_vars
(* ... and a cookie request is sent only in direct response to a ClientHello, never by the timer *)
NoTimerHVR == [][(lastEmit' # <<>> /\ lastEmit'[2] = "F2") => cause' = "recv"]_vars

(* C17: timer law - a timeout doubles the interval (up to the cap) iff the flight is
   retransmittable, and re-sends exactly the current flight; receiving new data resets it *)
TimerLaw ==
  [][\A e \in E : Timeout(e) =>
        /\ (retx[e] /\ ~NoBackoff => bk'[e] = (IF bk[e] < BackoffCap THEN bk[e] + 1 ELSE bk[e]))
        /\ (~retx[e] => (bk'[e] = bk[e] /\ lastEmit' = <<>>))
        /\ (retx[e] /\ fl[e] # "F0" => lastEmit' = <<e, fl[e]>>)]_vars
(* C17: after completing, an endpoint re-sends its final flight only in response to the peer *)
FinalFlightOnlyOnPeerRetx ==
  [][\A e \in E : (est[e] /\ lastEmit' # <<>> /\ lastEmit'[1] = e) => cause' = "recv"]_vars

(* C17: emissions are bounded by the timer schedule plus a constant per datagram received
   (one datagram per flight here, so the constant is 1; the counters saturate at EmitCap) *)
EmissionBound == \A e \in E : emitted[e] < EmitCap => emitted[e] <= 1 + inputs[e]

TypeOK == /\ \A e \in E : st[e] \in {"Waiting", "Finished"} /\ bk[e] \in 0..BackoffCap
          /\ \A f \in Kinds : net[f].n + net[f].d <= Cap

\* script generation
EmitEdge == Gen => PrintT(ToJson([steps |-> hist']))
=============================================================================
