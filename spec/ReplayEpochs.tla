---------------------------- MODULE ReplayEpochs ----------------------------
(* M3b - anti-replay across epochs (DTLS 1.3 key updates): one window per receive epoch, every
   read generation is retained, so a record of an older epoch that arrives after the key update
   is still subject to (and protected by) the window of ITS epoch.  Serves C06 (replays across
   a key update) and C20 (exactly-once under key updates).

   The writer alternates Write / KeyUpdate; the network delivers any written record any number
   of times in any order.  KeyUpdate is atomic here: the harness performs UpdateKeys over a
   reliable network and waits for it to return before continuing the script. *)
EXTENDS Integers, Sequences, FiniteSets, TLC, Json

CONSTANTS Windows, MaxEpoch, N, L, WipeOnGrow, Gen
\* WipeOnGrow = FALSE is the code; TRUE models "the per-epoch table is rebuilt empty when a new
\* epoch is first seen" (a deliberately broken configuration: AtMostOnce must fail)

VARIABLES w, ep, recs, nextSeq, latest, seen, known, delivered, ops, narr

vars == <<w, ep, recs, nextSeq, latest, seen, known, delivered, ops, narr>>
Epochs == 0..MaxEpoch

Init ==
  /\ w \in Windows
  /\ ep = 0
  /\ recs = <<>>
  /\ nextSeq = [e \in Epochs |-> 0]
  /\ latest = [e \in Epochs |-> -1]
  /\ seen = [e \in Epochs |-> {}]
  /\ known = {}                       \* epochs for which the receiver has created a window
  /\ delivered = <<>>
  /\ ops = <<>>
  /\ narr = 0

Write ==
  /\ Len(recs) < N
  /\ recs' = Append(recs, [ep |-> ep, seq |-> nextSeq[ep]])
  /\ nextSeq' = [nextSeq EXCEPT ![ep] = @ + 1]
  /\ ops' = Append(ops, [op |-> "write", rec |-> Len(recs) + 1])
  /\ UNCHANGED <<w, ep, latest, seen, known, delivered, narr>>

\* The KeyUpdate message is itself a record of the OLD epoch; the harness lets it (and its ACK) through, so
\* it is accepted by the receiver and moves the window of that epoch.
KeyUpdate ==
  /\ ep < MaxEpoch
  /\ ep' = ep + 1
  /\ nextSeq' = [nextSeq EXCEPT ![ep] = @ + 1]
  /\ latest' = [latest EXCEPT ![ep] = nextSeq[ep]]
  /\ seen' = [seen EXCEPT ![ep] = @ \cup {nextSeq[ep]}]
  /\ known' = known \cup {ep}
  /\ ops' = Append(ops, [op |-> "keyupdate", rec |-> 0])
  /\ UNCHANGED <<w, recs, delivered, narr>>

\* the window the replay detector really uses: the configured size rounded up to whole 64-bit words (the "fix:" commit
\* that works around the detector's bitmap losing the upper bits of a partially used word; a configured window of
\* 33..63, 97..127, ... let records inside the window be accepted twice).  The properties below speak about the
\* CONFIGURED window.
Eff(x) == ((x + 63) \div 64) * 64
Fresh(e, s) == /\ (s <= latest[e] => latest[e] - s < Eff(w))
               /\ s \notin seen[e]

Arrive(i) ==
  /\ narr < L
  /\ i \in 1..Len(recs)
  /\ narr' = narr + 1
  /\ ops' = Append(ops, [op |-> "deliver", rec |-> i])
  /\ LET e == recs[i].ep
         s == recs[i].seq
         wipe == WipeOnGrow /\ e \notin known /\ known # {}
         lat == IF wipe THEN [x \in Epochs |-> -1] ELSE latest
         sn  == IF wipe THEN [x \in Epochs |-> {}] ELSE seen
         fresh == (s <= lat[e] => lat[e] - s < Eff(w)) /\ s \notin sn[e] IN
     /\ known' = known \cup {e}
     /\ IF fresh
        THEN /\ delivered' = Append(delivered, i)
             /\ latest' = [lat EXCEPT ![e] = IF s > @ THEN s ELSE @]
             /\ seen' = [sn EXCEPT ![e] = @ \cup {s}]
        ELSE /\ UNCHANGED delivered /\ latest' = lat /\ seen' = sn
  /\ UNCHANGED <<w, ep, recs, nextSeq>>

Next == Write \/ KeyUpdate \/ \E i \in 1..N : Arrive(i)
Spec == Init /\ [][Next]_vars

Count(q, x) == Cardinality({ k \in 1..Len(q) : q[k] = x })
AtMostOnce == \A i \in 1..Len(recs) : Count(delivered, i) <= 1
WithinWindowDelivered ==
  [][\A i \in 1..N : (Arrive(i) /\ Count(delivered, i) = 0 /\
        (recs[i].seq > latest[recs[i].ep] \/ latest[recs[i].ep] - recs[i].seq < w)) => Count(delivered', i) = 1]_vars

\* scripts: every behaviour that has used up its arrivals, and in which at least one key update happened
EmitLeaf == (Gen /\ narr' = L /\ narr = L - 1) =>
   PrintT(ToJson([w |-> w, ops |-> ops', recs |-> recs', delivered |-> delivered']))
=============================================================================
