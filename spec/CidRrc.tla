------------------------------- MODULE CidRrc -------------------------------
(* M6 - connection IDs (RFC 9146 / RFC 9147), return routability check (RFC 9853) and
   the listener's datagram routing, as pion/dtls implements them.  Serves C15.

   Three sub-machines share this module; a configuration selects one with Part:

   "mgr"   internal/rrc/rrc.go  Manager, transcribed operator by operator (MStart, MCancel,
           MResponse, MReserve, MReceived, pathLocked = PathAt, touchLocked = exp := now + V,
           the AfterFunc timer = TimerFire / eager deletion in Tick) over a logical clock.
           The caller is the environment: every call with every argument.
   "conn"  one endpoint E after the handshake (conn.go handleIncomingPacket,
           connection_id.go returnRoutabilityConn.HandleRecord / HandleCandidate / WriteRRC):
           the CID acceptance rule, the replay check, recordReceived through the wrapped
           replay marker, path_challenge / path_response handling, the rule for rAddr, and
           what E emits to which address.  The peer is a key holder that may deviate
           (records without / with a foreign CID, wrong or old cookies); the network/attacker
           re-delivers any genuine record from any source address, in any order, any number
           of times, at any time, and injects garbage from any address.
   "route" internal/net/udp/packet_conn.go listener.getConn / PacketConn.WriteTo / Close
           with connection_id.go cidDatagramRouter / cidConnIdentifier: the table
           key -> connection with keys = remote addresses and connection IDs.

   Deliberate deviations that exist only to show that the formulas can fail:
   Factor (3 in the code), SwitchOnCandidate, RrcWithoutCid, AddrFirst.                *)
EXTENDS Integers, Sequences, FiniteSets, TLC, Json

CONSTANTS
  Part,               \* "mgr" | "conn" | "route"
  Addr,               \* address names
  Home,               \* the peer address the handshake ran with
  Sizes,              \* wire sizes of received records / of Reserve requests
  V,                  \* validity window (pathValidationTimeout) in clock ticks
  Factor,             \* amplification factor of Reserve (3)
  Eager,              \* TRUE: the AfterFunc timer fires inside the Tick that expires the path
  MaxSteps, MaxClock, MaxCookie, MaxBytes, MaxSeq,
  RRC,                \* conn: return routability check negotiated
  OwnCid,             \* conn: E negotiated a non-empty own CID
  PeerCid,            \* conn: the peer negotiated a non-empty CID
  ChSize,             \* conn: wire size of E's path_challenge / path_response records
  Kinds,              \* conn: record kinds the peer makes: subset of {"app","chal","resp"}
  CidForms,           \* conn: subset of {"ok","none","other"}
  CountAll,           \* ghost gr counts every byte that arrived from an address (property text) instead of
                      \* the authenticated ones only (what the code counts; the stronger statement)
  SwitchOnCandidate,  \* broken: rAddr := source of the candidate record
  RrcWithoutCid,      \* broken: RRC records are emitted without the peer's CID
  MigrateWithoutRRC,  \* broken: without RRC the newest authentic record moves rAddr (plain RFC 9146 behaviour)
  AcceptNoCid,        \* broken: a protected record without CID is accepted although an own CID was negotiated
  Conns,              \* route: connection numbers, e.g. {1,2}
  RouteStart,         \* route: "empty" = fresh listener; "two" = connections 1, 2 accepted from a1, a2 and identified
  AddrFirst,          \* broken: routing table is consulted by address before CID
  Gen                 \* print one script per explored edge

VARIABLES
  \* manager
  paths,     \* Addr -> [present, recv, sent, cookie, pending, exp]
  now,       \* logical clock
  nck,       \* next fresh cookie (cookies are 1,2,...; 0 = the zero cookie / never issued)
  old,       \* Addr -> previous cookie issued for that address (for "old cookie" calls)
  ret,       \* return value of the last manager call
  \* connection
  raddr,     \* Conn.rAddr
  pseq,      \* number of genuine records the peer has produced
  recs,      \* 1..pseq -> [kind, ck, size, cid]
  seen,      \* accepted sequence numbers (anti-replay state; window never exceeded here)
  maxSeen,   \* highest accepted sequence number
  emit,      \* datagrams E emitted in the last step: <<[dst, kind, ck, size, pcid]>>
  last,      \* the last environment action and E's decision
  \* ghosts for the formulas
  gs, gr,    \* Addr -> bytes sent to / authentic bytes received from the address while it was not active
  newest,    \* Addr -> an authentic newest CID record arrived from it since rAddr last changed
  chal,      \* Addr -> [ck, t] last path_challenge emitted to it since rAddr last changed
  \* listener
  tab,       \* key -> connection (0 = no entry)
  idc,       \* conn -> identifier established
  orig,      \* conn -> address the PacketConn was created for
  rel,       \* conn -> rmraddr
  closed,    \* conn -> closed
  routed,    \* last routing decision
  \* bookkeeping
  steps, hist

mgrVars == <<paths, now, nck, old, ret>>
connVars == <<raddr, pseq, recs, seen, maxSeen, emit, last, gs, gr, newest, chal>>
routeVars == <<tab, idc, orig, rel, closed, routed>>
vars == <<mgrVars, connVars, routeVars, steps, hist>>
view == <<mgrVars, connVars, routeVars, steps>>

-----------------------------------------------------------------------------
(* rrc.Manager as pure operators on the path table *)

NoPath == [present |-> FALSE, recv |-> 0, sent |-> 0, cookie |-> 0, pending |-> FALSE, exp |-> 0]
Fresh == [present |-> TRUE, recv |-> 0, sent |-> 0, cookie |-> 0, pending |-> FALSE, exp |-> 0]
EmptyPaths == [a \in Addr |-> NoPath]

Expired(p, t) == t >= p.exp

\* pathLocked: an absent or expired entry is replaced by a fresh one
PathAt(ps, a, t) == IF ~ps[a].present \/ (ps[a].exp # 0 /\ Expired(ps[a], t)) THEN Fresh ELSE ps[a]

\* Start(enabled, addr, activeAddr) with the cookie rand.Read would produce
MStart(ps, en, a, act, ck, t) ==
  IF ~en \/ a = act THEN [ps |-> ps, ok |-> FALSE]
  ELSE LET p == PathAt(ps, a, t) IN
       IF p.pending THEN [ps |-> [ps EXCEPT ![a] = p], ok |-> FALSE]
       ELSE [ps |-> [ps EXCEPT ![a] = [p EXCEPT !.cookie = ck, !.pending = TRUE, !.exp = t + V]], ok |-> TRUE]

\* Cancel(addr, cookie)
MCancel(ps, a, ck, t) ==
  IF ps[a].present /\ ps[a].pending /\ ps[a].cookie = ck
  THEN [ps EXCEPT ![a].pending = FALSE, ![a].exp = t + V]
  ELSE ps

\* HandleResponse(addr, cookie)
MResponse(ps, a, ck, t) ==
  IF ~ps[a].present \/ ~ps[a].pending \/ ps[a].cookie # ck THEN [ps |-> ps, ok |-> FALSE]
  ELSE IF Expired(ps[a], t) THEN [ps |-> [ps EXCEPT ![a] = NoPath], ok |-> FALSE]
  ELSE [ps |-> EmptyPaths, ok |-> TRUE]

\* Reserve(addr, activeAddr, wireBytes)
MReserve(ps, a, act, n, t) ==
  IF a = act THEN [ps |-> ps, ok |-> TRUE]
  ELSE IF ~ps[a].present \/ Expired(ps[a], t) THEN [ps |-> ps, ok |-> FALSE]
  ELSE LET limit == ps[a].recv * Factor IN
       IF ps[a].sent >= limit \/ n > limit - ps[a].sent THEN [ps |-> ps, ok |-> FALSE]
       ELSE [ps |-> [ps EXCEPT ![a].sent = @ + n], ok |-> TRUE]

\* recordReceived(addr, activeAddr, wireBytes)
MReceived(ps, a, act, n, t) ==
  IF n <= 0 \/ a = act THEN ps
  ELSE LET p == PathAt(ps, a, t)
           q == [p EXCEPT !.recv = @ + n] IN
       [ps EXCEPT ![a] = IF q.pending THEN q ELSE [q EXCEPT !.exp = t + V]]

\* the AfterFunc timer of touchLocked
MTimers(ps, t) == [a \in Addr |-> IF ps[a].present /\ ps[a].exp # 0 /\ Expired(ps[a], t) THEN NoPath ELSE ps[a]]

Obs(ps) == [a \in Addr |-> [present |-> ps[a].present, recv |-> ps[a].recv, sent |-> ps[a].sent,
                            pending |-> ps[a].pending, cookie |-> ps[a].cookie]]

-----------------------------------------------------------------------------
(* initial values of the parts that a configuration does not use *)

MgrIdle == /\ paths = EmptyPaths /\ now = 1 /\ nck = 1 /\ old = [a \in Addr |-> 0]
           /\ ret = [ok |-> FALSE, ck |-> 0]
ConnIdle == /\ raddr = Home /\ pseq = 0 /\ recs = <<>> /\ seen = {} /\ maxSeen = 0 /\ emit = <<>>
            /\ last = [op |-> "init", s |-> 0, src |-> Home, acc |-> FALSE]
            /\ gs = [a \in Addr |-> 0] /\ gr = [a \in Addr |-> 0]
            /\ newest = [a \in Addr |-> FALSE] /\ chal = [a \in Addr |-> [ck |-> 0, t |-> 0]]
Keys == Addr \cup { "cid" \o ToString(c) : c \in Conns }
RouteIdle == /\ tab = [k \in Keys |-> 0] /\ idc = [c \in Conns |-> FALSE] /\ orig = [c \in Conns |-> "-"]
             /\ rel = [c \in Conns |-> FALSE] /\ closed = [c \in Conns |-> FALSE]
             /\ routed = [conn |-> 0, cid |-> 0, src |-> "-", fresh |-> FALSE]

-----------------------------------------------------------------------------
(* Part "mgr": the manager driven by an arbitrary caller; raddr plays activeAddr and follows
   the connection's rule (it becomes the address whose response was accepted) *)

\* cookies a caller may present: none, the current / previous one of the address, any current one, and the LAST ISSUED
\* one (a late response to a challenge whose path has meanwhile expired and been removed)
Cookies(a) == {0, paths[a].cookie, old[a]} \cup { paths[b].cookie : b \in Addr } \cup (IF nck > 1 THEN {nck - 1} ELSE {})

Log(e) == hist' = Append(hist, e @@ [post |-> Obs(paths'), act |-> raddr'])
Step == steps < MaxSteps /\ steps' = steps + 1

CStart(a, en) ==
  /\ Step /\ nck <= MaxCookie
  /\ LET r == MStart(paths, en, a, raddr, nck, now) IN
     /\ paths' = r.ps
     /\ ret' = [ok |-> r.ok, ck |-> IF r.ok THEN nck ELSE 0]
     /\ nck' = IF r.ok THEN nck + 1 ELSE nck
     /\ old' = IF r.ok THEN [old EXCEPT ![a] = paths[a].cookie] ELSE old
     /\ UNCHANGED <<now, raddr>>
     /\ Log([op |-> "start", a |-> a, en |-> en, ok |-> r.ok, ck |-> IF r.ok THEN nck ELSE 0])

CCancel(a, ck) ==
  /\ Step
  /\ paths' = MCancel(paths, a, ck, now)
  /\ ret' = [ok |-> TRUE, ck |-> 0]
  /\ UNCHANGED <<now, nck, old, raddr>>
  /\ Log([op |-> "cancel", a |-> a, ck |-> ck])

CResponse(a, ck) ==
  /\ Step
  /\ LET r == MResponse(paths, a, ck, now) IN
     /\ paths' = r.ps
     /\ ret' = [ok |-> r.ok, ck |-> 0]
     /\ raddr' = IF r.ok THEN a ELSE raddr
     /\ UNCHANGED <<now, nck, old>>
     /\ Log([op |-> "response", a |-> a, ck |-> ck, ok |-> r.ok])

CReserve(a, n) ==
  /\ Step
  /\ LET r == MReserve(paths, a, raddr, n, now) IN
     /\ paths' = r.ps
     /\ ret' = [ok |-> r.ok, ck |-> 0]
     /\ UNCHANGED <<now, nck, old, raddr>>
     /\ Log([op |-> "reserve", a |-> a, n |-> n, ok |-> r.ok])

CReceived(a, n) ==
  /\ Step
  /\ paths' = MReceived(paths, a, raddr, n, now)
  /\ ret' = [ok |-> TRUE, ck |-> 0]
  /\ UNCHANGED <<now, nck, old, raddr>>
  /\ Log([op |-> "received", a |-> a, n |-> n])

Tick ==
  /\ Step /\ now < MaxClock
  /\ now' = now + 1
  /\ paths' = IF Eager THEN MTimers(paths, now + 1) ELSE paths
  /\ UNCHANGED <<nck, old, ret, raddr>>
  /\ Log([op |-> "tick"])

TimerFire(a) ==
  /\ ~Eager /\ paths[a].present /\ paths[a].exp # 0 /\ Expired(paths[a], now)
  /\ paths' = [paths EXCEPT ![a] = NoPath]
  /\ UNCHANGED <<now, nck, old, ret, raddr, steps>>
  /\ Log([op |-> "timer", a |-> a])

MgrNext ==
  /\ \/ \E a \in Addr, en \in BOOLEAN : CStart(a, en)
     \/ \E a \in Addr : \E ck \in Cookies(a) : CCancel(a, ck) \/ CResponse(a, ck)
     \/ \E a \in Addr, n \in Sizes \cup {0} : CReceived(a, n)
     \/ \E a \in Addr, n \in Sizes : CReserve(a, n)
     \/ Tick
     \/ \E a \in Addr : TimerFire(a)
  /\ UNCHANGED <<pseq, recs, seen, maxSeen, emit, last, gs, gr, newest, chal, routeVars>>

MgrInit == MgrIdle /\ ConnIdle /\ RouteIdle /\ steps = 0 /\ hist = <<>>

-----------------------------------------------------------------------------
(* Part "conn": endpoint E *)

ProtKinds == {"app", "chal", "resp"}
Em(dst, kind, ck, size) == [dst |-> dst, kind |-> kind, ck |-> ck, size |-> size,
                            pcid |-> IF RrcWithoutCid THEN FALSE ELSE PeerCid]

\* the peer (a key holder) produces the next genuine record
PeerMake(kind, ck, size, cid) ==
  /\ Step /\ pseq < MaxSeq
  /\ pseq' = pseq + 1
  /\ recs' = Append(recs, [kind |-> kind, ck |-> ck, size |-> size, cid |-> cid])
  /\ emit' = <<>>
  /\ last' = [op |-> "make", s |-> pseq + 1, src |-> Home, acc |-> FALSE]
  /\ UNCHANGED <<mgrVars, raddr, seen, maxSeen, gs, gr, newest, chal>>

\* everything E does with record s arriving from src (conn.go handleIncomingPacket); ckNew is the cookie
\* rand.Read would produce, chSize the wire size of an RRC record E emits
Handle(s, src, ckNew, chSize) ==
  LET r == recs[s]
      acc == (r.cid = "ok" \/ (AcceptNoCid /\ r.cid = "none")) /\ s \notin seen   \* CID rule, anti-replay check
      hadCID == OwnCid                               \* originalCID of an accepted record
      latest == s > maxSeen
      p1 == IF RRC THEN MReceived(paths, src, raddr, r.size, now) ELSE paths   \* wrapped replay marker
      \* content (connection_id.go HandleRecord)
      rsp == IF r.kind = "resp" THEN MResponse(p1, src, r.ck, now) ELSE [ps |-> p1, ok |-> FALSE]
      rsv == IF r.kind = "chal" THEN MReserve(p1, src, raddr, chSize, now) ELSE [ps |-> p1, ok |-> FALSE]
      p2 == IF r.kind = "resp" THEN rsp.ps ELSE IF r.kind = "chal" THEN rsv.ps ELSE p1
      ra2 == IF rsp.ok THEN src ELSE raddr
      e1 == IF r.kind = "chal" /\ rsv.ok THEN <<Em(src, "resp", r.ck, chSize)>> ELSE <<>>
      cand == r.kind # "resp" /\ latest
      \* HandleCandidate
      st == MStart(p2, RRC /\ hadCID /\ cand, src, ra2, ckNew, now)
      rs2 == IF st.ok THEN MReserve(st.ps, src, ra2, chSize, now) ELSE [ps |-> st.ps, ok |-> FALSE]
      p3 == IF st.ok /\ ~rs2.ok THEN MCancel(st.ps, src, ckNew, now) ELSE rs2.ps
      e2 == IF st.ok /\ rs2.ok THEN <<Em(src, "chal", ckNew, chSize)>> ELSE <<>>
      ra3 == IF (SwitchOnCandidate /\ st.ok) \/ (MigrateWithoutRRC /\ ~RRC /\ cand) THEN src ELSE ra2
  IN IF ~acc
     THEN [acc |-> FALSE, ps |-> paths, ra |-> raddr, em |-> <<>>, started |-> FALSE, latest |-> FALSE, hadCID |-> FALSE]
     ELSE [acc |-> TRUE, ps |-> p3, ra |-> ra3, em |-> e1 \o e2, started |-> st.ok, latest |-> latest, hadCID |-> hadCID]

RECURSIVE SumTo(_, _)
SumTo(em, a) == IF em = <<>> THEN 0
                ELSE (IF Head(em).dst = a THEN Head(em).size ELSE 0) + SumTo(Tail(em), a)
ChalTo(em, a) == { i \in 1..Len(em) : em[i].dst = a /\ em[i].kind = "chal" }

\* ghost bookkeeping (shared with the trace specification): what the wire shows
Ghosts(acc, hadCID, latest, size, em, src, ra1, t) ==
  LET moved == ra1 # raddr
      gr1 == IF (acc \/ CountAll) /\ src # raddr THEN [gr EXCEPT ![src] = @ + size] ELSE gr
      gs1 == [a \in Addr |-> IF a # ra1 THEN gs[a] + SumTo(em, a) ELSE gs[a]]
      nw1 == IF acc /\ hadCID /\ latest /\ src # raddr THEN [newest EXCEPT ![src] = TRUE] ELSE newest
      ch1 == [a \in Addr |-> IF ChalTo(em, a) # {}
                              THEN [ck |-> em[CHOOSE i \in ChalTo(em, a) : TRUE].ck, t |-> t]
                              ELSE chal[a]]
  IN [gr |-> IF moved THEN [gr1 EXCEPT ![ra1] = 0] ELSE gr1,
      gs |-> IF moved THEN [gs1 EXCEPT ![ra1] = 0] ELSE gs1,
      newest |-> IF moved THEN [a \in Addr |-> FALSE] ELSE nw1,
      chal |-> IF moved THEN [a \in Addr |-> [ck |-> 0, t |-> 0]] ELSE ch1]

\* the network hands record s to E with source address src
Deliver(s, src) ==
  /\ Step
  /\ LET h == Handle(s, src, nck, ChSize)
         g == Ghosts(h.acc, h.hadCID, h.latest, recs[s].size, h.em, src, h.ra, now) IN
     /\ paths' = h.ps
     /\ raddr' = h.ra
     /\ emit' = h.em
     /\ nck' = IF h.started THEN nck + 1 ELSE nck
     /\ seen' = IF h.acc THEN seen \cup {s} ELSE seen
     /\ maxSeen' = IF h.acc /\ s > maxSeen THEN s ELSE maxSeen
     /\ last' = [op |-> "deliver", s |-> s, src |-> src, acc |-> h.acc]
     /\ gs' = g.gs /\ gr' = g.gr /\ newest' = g.newest /\ chal' = g.chal
  /\ UNCHANGED <<now, old, ret, pseq, recs>>

\* unauthenticated bytes from any address: dropped, nothing changes
Garbage(src) ==
  /\ Step
  /\ emit' = <<>>
  /\ last' = [op |-> "garbage", s |-> 0, src |-> src, acc |-> FALSE]
  /\ gr' = IF CountAll /\ src # raddr THEN [gr EXCEPT ![src] = @ + 1] ELSE gr
  /\ UNCHANGED <<mgrVars, raddr, pseq, recs, seen, maxSeen, gs, newest, chal>>

\* the application writes: the datagram goes to rAddr
EWrite ==
  /\ Step
  /\ emit' = <<[dst |-> raddr, kind |-> "app", ck |-> 0, size |-> ChSize, pcid |-> PeerCid]>>
  /\ last' = [op |-> "write", s |-> 0, src |-> raddr, acc |-> FALSE]
  /\ UNCHANGED <<mgrVars, raddr, pseq, recs, seen, maxSeen, gs, gr, newest, chal>>

ConnTick ==
  /\ Step /\ now < MaxClock
  /\ now' = now + 1
  /\ paths' = IF Eager THEN MTimers(paths, now + 1) ELSE paths
  /\ emit' = <<>>
  /\ last' = [op |-> "tick", s |-> 0, src |-> raddr, acc |-> FALSE]
  /\ UNCHANGED <<nck, old, ret, raddr, pseq, recs, seen, maxSeen, gs, gr, newest, chal>>

\* cookies a deviating peer may put into a path_response / path_challenge
IssuedCookies == 0..(nck - 1)

ConnNext ==
  /\ \/ \E k \in Kinds, sz \in Sizes, cf \in CidForms :
          \E ck \in (IF k = "app" THEN {0} ELSE IssuedCookies) : PeerMake(k, ck, sz, cf)
     \/ \E s \in 1..pseq, src \in Addr : Deliver(s, src)
     \/ \E src \in Addr : Garbage(src)
     \/ EWrite
     \/ ConnTick
  /\ nck <= MaxCookie + 1
  /\ UNCHANGED <<routeVars>>
  /\ hist' = Append(hist, [act |-> last', raddr |-> raddr', emit |-> emit',
                           rec |-> IF last'.s > 0 THEN recs'[last'.s] ELSE [kind |-> "-"]])

ConnInit == MgrIdle /\ ConnIdle /\ RouteIdle /\ steps = 0 /\ hist = <<>>

-----------------------------------------------------------------------------
(* Part "route": the listener's table *)

CidKey(c) == "cid" \o ToString(c)
Created(c) == orig[c] # "-"

\* listener.getConn for a datagram from src whose first CID record names connection k (0 = none / unknown)
Lookup(src, k) ==
  LET byCid == IF k # 0 THEN tab[CidKey(k)] ELSE 0
      byAddr == tab[src] IN
  IF AddrFirst THEN (IF byAddr # 0 THEN byAddr ELSE byCid)
  ELSE (IF byCid # 0 THEN byCid ELSE byAddr)

RLog(e) == hist' = Append(hist, e @@ [routed |-> routed', tab |-> tab'])

Arrive(src, k, hello) ==
  /\ Step
  /\ LET c == Lookup(src, k) IN
     IF c # 0
     THEN /\ routed' = [conn |-> c, cid |-> k, src |-> src, fresh |-> FALSE]
          /\ UNCHANGED <<tab, orig>>
     ELSE IF hello /\ \E n \in Conns : ~Created(n)
     THEN LET n == CHOOSE n \in Conns : ~Created(n) /\ \A m \in Conns : ~Created(m) => n <= m IN
          /\ tab' = [tab EXCEPT ![src] = n]
          /\ orig' = [orig EXCEPT ![n] = src]
          /\ routed' = [conn |-> n, cid |-> k, src |-> src, fresh |-> TRUE]
     ELSE \* dropped; conn = -1: the listener would accept one more connection than the model has
          /\ routed' = [conn |-> IF hello THEN 0 - 1 ELSE 0, cid |-> k, src |-> src, fresh |-> FALSE]
          /\ UNCHANGED <<tab, orig>>
  /\ UNCHANGED <<idc, rel, closed>>
  /\ RLog([op |-> "arrive", src |-> src, k |-> k, hello |-> hello])

\* PacketConn.WriteTo of connection c towards address a; sh = the payload is a ServerHello with a CID
WriteTo(c, a, sh) ==
  /\ Step /\ Created(c) /\ ~closed[c]
  /\ LET ident == ~idc[c] /\ sh
         free == idc[c] /\ ~rel[c] /\ a # orig[c] IN      \* id is loaded before the candidate is stored
     /\ idc' = IF ident THEN [idc EXCEPT ![c] = TRUE] ELSE idc
     /\ rel' = IF free THEN [rel EXCEPT ![c] = TRUE] ELSE rel
     /\ tab' = [k \in Keys |-> IF ident /\ k = CidKey(c) THEN c
                               ELSE IF free /\ k = orig[c] THEN 0 ELSE tab[k]]
  /\ routed' = [conn |-> 0, cid |-> 0, src |-> "-", fresh |-> FALSE]
  /\ UNCHANGED <<orig, closed>>
  /\ RLog([op |-> "write", c |-> c, a |-> a, sh |-> sh])

RClose(c) ==
  /\ Step /\ Created(c) /\ ~closed[c]
  /\ closed' = [closed EXCEPT ![c] = TRUE]
  /\ tab' = [k \in Keys |-> IF (idc[c] /\ k = CidKey(c)) \/ (~rel[c] /\ k = orig[c]) THEN 0 ELSE tab[k]]
  /\ rel' = [rel EXCEPT ![c] = TRUE]
  /\ routed' = [conn |-> 0, cid |-> 0, src |-> "-", fresh |-> FALSE]
  /\ UNCHANGED <<idc, orig>>
  /\ RLog([op |-> "close", c |-> c])

RouteNext ==
  /\ \/ \E src \in Addr, k \in Conns \cup {0}, hello \in (IF RouteStart = "two" THEN {FALSE} ELSE BOOLEAN) : Arrive(src, k, hello)
     \/ \E c \in Conns, a \in Addr, sh \in (IF RouteStart = "two" THEN {FALSE} ELSE BOOLEAN) : WriteTo(c, a, sh)
     \/ \E c \in Conns : RClose(c)
  /\ routed.conn # 0 - 1
  /\ UNCHANGED <<mgrVars, connVars>>

\* two accepted, identified connections (what two completed DTLS handshakes leave behind)
RouteTwo == /\ tab = [k \in Keys |-> IF k = "a1" \/ k = CidKey(1) THEN 1 ELSE IF k = "a2" \/ k = CidKey(2) THEN 2 ELSE 0]
            /\ idc = [c \in Conns |-> TRUE] /\ orig = [c \in Conns |-> IF c = 1 THEN "a1" ELSE "a2"]
            /\ rel = [c \in Conns |-> FALSE] /\ closed = [c \in Conns |-> FALSE]
            /\ routed = [conn |-> 0, cid |-> 0, src |-> "-", fresh |-> FALSE]

RouteInit == MgrIdle /\ ConnIdle /\ (IF RouteStart = "two" THEN RouteTwo ELSE RouteIdle) /\ steps = 0 /\ hist = <<>>

-----------------------------------------------------------------------------
Init == CASE Part = "mgr" -> MgrInit [] Part = "conn" -> ConnInit [] OTHER -> RouteInit
Next == CASE Part = "mgr" -> MgrNext [] Part = "conn" -> ConnNext [] OTHER -> RouteNext
Spec == Init /\ [][Next]_vars

EmitEdge == Gen => PrintT(ToJson([steps |-> hist']))
\* focus for HISTORY generation of the manager (no VIEW: every distinct history is explored, not one script per edge):
\* only the calls that make up a path validation - a started challenge, records received meanwhile, reservations, the
\* clock, a response - on addresses other than the active one.  Different histories that the model maps to the SAME
\* state (e.g. "records arrived while the challenge was pending" vs. "no record arrived") are all replayed this way.
FocusMgr ==
  LET e == hist'[Len(hist')] IN
  /\ e.op \in {"start", "tick", "received", "reserve", "response"}
  /\ e.op = "start" => (e.en /\ e.a # Home)
  /\ e.op \in {"received", "reserve", "response"} => e.a # Home
  /\ e.op = "received" => e.n > 0
  /\ e.op = "response" => e.ck # 0
EmitFocus == FocusMgr /\ EmitEdge
EmitLeaf == (Gen /\ steps' = MaxSteps) => PrintT(ToJson([steps |-> hist']))
\* focus for HISTORY generation of the endpoint (no VIEW): the peer makes a record - application data, or a path_response that
\* carries the cookie issued last - and that record arrives exactly once from some address.  Long enough for an address to be
\* validated, left for another validated address and come back (a1 -> a2 -> a3 -> a2): whether an address was validated
\* EARLIER on the connection must not matter.
FocusConn ==
  LET e == hist'[Len(hist')] IN
  /\ e.act.op \in {"make", "deliver"}
  /\ e.act.op = "make" => /\ (hist = <<>> \/ hist[Len(hist)].act.op = "deliver")
                          /\ e.rec.cid = "ok"
                          /\ (e.rec.kind = "resp" => (nck > 1 /\ e.rec.ck = nck - 1))
                          /\ (e.rec.kind = "chal" => FALSE)
  /\ e.act.op = "deliver" => /\ hist # <<>> /\ hist[Len(hist)].act.op = "make"
                             /\ e.act.s = pseq
EmitFocusConn == FocusConn /\ EmitLeaf

-----------------------------------------------------------------------------
(* C15 *)

TypeOK ==
  /\ \A a \in Addr : paths[a].recv >= 0 /\ paths[a].sent >= 0 /\ (paths[a].pending => paths[a].present)
  /\ raddr \in Addr

\* the table never lets more than three times the received bytes out (the code's own counters) ...
MgrBudget == \A a \in Addr : paths[a].present => paths[a].sent <= 3 * paths[a].recv
\* ... and neither does the endpoint, counted on the wire over the whole time an address is not the active one
ThreeTimesBudget == MgrBudget /\ (Part = "conn" => \A a \in Addr : a # raddr => gs[a] <= 3 * gr[a])

\* a pending challenge never outlives its window unnoticed: an accepted response is timely and matches
MgrResponseSound ==
  [][\A a \in Addr : (raddr' # raddr /\ raddr' = a) =>
        paths[a].present /\ paths[a].pending /\ now < paths[a].exp /\ paths' = EmptyPaths]_vars

\* rAddr changes only in the step that delivers an authentic path_response from the new address which
\* carries the cookie of the challenge E last sent there, within the window, and an authentic newest CID
\* record had come from that address before
AddrChangeOK ==
  (raddr' # raddr /\ last'.op # "init") =>          \* "init": the trace specification starts a new session
       /\ RRC
       /\ last'.op = "deliver" /\ last'.acc /\ last'.src = raddr'
       /\ recs[last'.s].kind = "resp"
       /\ newest[raddr']
       /\ chal[raddr'].ck # 0 /\ chal[raddr'].ck = recs[last'.s].ck
       /\ now' < chal[raddr'].t + V
AddrChangesOnlyAfterValidatedPath == [][AddrChangeOK]_vars

NoRRCNoMigration == ~RRC => raddr = Home

\* once a non-empty own CID is negotiated only records carrying it are accepted (and never a replayed one)
OwnCIDOnly == (last.op = "deliver" /\ last.acc) => recs[last.s].cid = "ok"

PeerCIDOnEveryProtectedRecord == \A i \in 1..Len(emit) : emit[i].pcid = PeerCid

\* application data never goes to an address other than rAddr (whatever else goes there - RRC messages - is
\* limited by ThreeTimesBudget)
NoAppDataOffPath == \A i \in 1..Len(emit) : emit[i].dst # raddr => emit[i].kind # "app"

\* a datagram that names the CID of an identified, open connection reaches that connection from any source
RoutedToOwner ==
  (routed.cid # 0 /\ idc[routed.cid] /\ ~closed[routed.cid]) => routed.conn = routed.cid
\* and one without a usable CID from the address a connection still owns reaches that connection
RoutedByAddress ==
  \A c \in Conns : (routed.src # "-" /\ Created(c) /\ ~rel[c] /\ ~closed[c] /\ routed.src = orig[c]
                    /\ (routed.cid = 0 \/ ~idc[routed.cid] \/ closed[routed.cid])) => routed.conn = c
=============================================================================
