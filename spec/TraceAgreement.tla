--------------------------- MODULE TraceAgreement ---------------------------
(* Trace specification for C01: the negotiated-output projection.  The harness logs, for every association on
   which BOTH HandshakeContext calls returned nil, one "est" line per endpoint with the outputs the property names
   and one "data" line with the result of moving a payload in each direction; associations are separated by
   "reset".  The spec adopts every logged value without a guard (behaviour the property is silent about is always
   accepted) and checks the Agreement formula - the same formula Handshake agreement is stated with in
   NegotiationRun.tla - on the adopted values.  A rejected invariant means: two endpoints both reported success while
   they differ in a field the property lists.  SessionID, EMS flag and the resumed flag are logged but outside the
   projection.

   {"ev":"est","side":"c"|"s","ver":..,"suite":..,"alpn":..,"srtp":..,"lcid":..,"rcid":..,"peer":..,"present":..,"ekm":..}
   {"ev":"data","c2s":BOOLEAN,"s2c":BOOLEAN}      {"ev":"reset"}
   ekm = digests of ExportKeyingMaterial for 3 labels x 2 lengths joined into one string ("error" inside if a call failed);
   peer = digest of the chain the endpoint holds for its peer, present = digest of the certificate_list in the Certificate
   message the endpoint itself sent ("-" = none). *)
EXTENDS Integers, Sequences, TLC, Json, FiniteSets

Trace == ndJsonDeserialize("trace.ndjson")

VARIABLES l,       \* next line
          est,     \* side -> adopted "est" record of the current association
          moved    \* result of the data exchange of the current association (TRUE until logged)

vars == <<l, est, moved>>
Ev == Trace[l]
Upd(f, k, v) == [x \in DOMAIN f \cup {k} |-> IF x = k THEN v ELSE f[x]]
Empty == [x \in {} |-> 0]

Init == l = 1 /\ est = Empty /\ moved = TRUE

Est   == /\ l <= Len(Trace) /\ Ev.ev = "est"
         /\ est' = Upd(est, Ev.side, Ev) /\ l' = l + 1 /\ UNCHANGED moved
Data  == /\ l <= Len(Trace) /\ Ev.ev = "data"
         /\ moved' = (Ev.c2s /\ Ev.s2c) /\ l' = l + 1 /\ UNCHANGED est
Reset == /\ l <= Len(Trace) /\ Ev.ev = "reset"
         /\ est' = Empty /\ moved' = TRUE /\ l' = l + 1

Next == Est \/ Data \/ Reset
Spec == Init /\ [][Next]_vars

Both == {"c", "s"} \subseteq DOMAIN est

(* C01: whenever both sides report success they hold the same session *)
SameVersionAndSuite == Both => est["c"].ver = est["s"].ver /\ est["c"].suite = est["s"].suite
SameKeyingMaterial  == Both => est["c"].ekm = est["s"].ekm
MirroredCIDs        == Both => est["c"].lcid = est["s"].rcid /\ est["c"].rcid = est["s"].lcid
SameALPNAndSRTP     == Both => est["c"].alpn = est["s"].alpn /\ est["c"].srtp = est["s"].srtp
PeerChainAsPresented == Both => est["c"].peer = est["s"].present /\ est["s"].peer = est["c"].present
Agreement == SameVersionAndSuite /\ SameKeyingMaterial /\ MirroredCIDs /\ SameALPNAndSRTP /\ PeerChainAsPresented
DataFlows == moved

Accepted == TLCGet("stats").diameter - 1 = Len(Trace)
=============================================================================
