----------------------------- MODULE RecordLayer -----------------------------
(* M3 - the record layer of an established pion/dtls connection (conn.go).

   SEND SIDE (C09): several goroutines (application writers, the handshake
   retransmitter, alert / close_notify, key update) allocate record numbers and
   emit datagrams.  The code serialises "allocate - marshal - protect - write to
   the socket" under Conn.writeLock (allocation additionally under Conn.lock).
   WithWriteLock = FALSE removes that lock: TLC then shows emission order leaving
   number order, which is why the lock is the mechanism.  Export / Import carry
   (epoch, next number) of the sending epoch; MaxSeq is the model's 2^48-1.

   RECEIVE SIDE (C05, C07): one receive epoch with the pipeline in the code's order
       parse header -> future epoch? -> replay CHECK -> decrypt/authenticate ->
       connection-ID check -> dispatch (deliver) -> replay COMMIT
   over genuine records and attacker-made ones.  CommitBeforeDecrypt = TRUE moves
   the commit in front of authentication (a deliberately broken configuration:
   GenuineStillAccepted must fail). *)
EXTENDS Integers, Sequences, FiniteSets, TLC, Json

CONSTANTS Writers,            \* set of sending goroutines
          MaxWrites,          \* records each of them sends
          MaxSeq,             \* last usable sequence number (2^48-1 in the code)
          StartSeq,           \* sequence counter at the start (to reach MaxSeq quickly)
          WithWriteLock,
          MaxKeyUpdates,      \* epoch changes of the sender (DTLS 1.3 key update / 1.2: 0)
          MaxExports,         \* export/import round trips
          ImportKeepsCounter, \* FALSE: a deliberately broken import that restarts at 0
          \* receive side
          W, NRecv, MaxInject, CommitBeforeDecrypt,
          Gen

\* abstract mutation classes; the harness instantiates each with many concrete mutations:
\*   "auth"  - a field covered by the MAC / AEAD (ciphertext, tag, type, version, connection ID, padding, splice
\*             from another session) is altered, header numbers intact
\*   "seq"   - the header presents another sequence number (of the same epoch)
\*   "frame" - length field / truncation / extension / epoch rewritten to one the receiver has no keys for
Classes == {"auth", "seq", "frame"}

VARIABLES
  \* send side
  pc,        \* writer -> "idle" | "alloc" | "emit"
  held,      \* writer -> <<epoch, seq>> it is about to emit
  lock,      \* holder of the write lock or "none"
  counter,   \* epoch -> next sequence number
  epoch,     \* current sending epoch
  wire,      \* sequence of <<epoch, seq>> in emission order
  done,      \* writer -> records sent
  failed,    \* writer -> number of writes refused (overflow)
  kus, exps,
  \* receive side
  latest, seen, delivered, alerts, injected, narr, script

svars == <<pc, held, lock, counter, epoch, wire, done, failed, kus, exps>>
rvars == <<latest, seen, delivered, alerts, injected, narr, script>>
vars == <<svars, rvars>>
view == <<svars, latest, seen, delivered, alerts, injected, narr>>

-----------------------------------------------------------------------------
(* send side *)

Epochs == 0..MaxKeyUpdates

Begin(wr) ==
  /\ pc[wr] = "idle" /\ done[wr] + failed[wr] < MaxWrites
  /\ (WithWriteLock => lock = "none")
  /\ lock' = IF WithWriteLock THEN wr ELSE lock
  /\ pc' = [pc EXCEPT ![wr] = "alloc"]
  /\ UNCHANGED <<held, counter, epoch, wire, done, failed, kus, exps>>

\* nextLocalSequenceNumber: atomic add, refuse beyond MaxSeq (the number is consumed either way)
Alloc(wr) ==
  /\ pc[wr] = "alloc"
  /\ counter' = [counter EXCEPT ![epoch] = @ + 1]
  /\ IF counter[epoch] > MaxSeq
     THEN /\ failed' = [failed EXCEPT ![wr] = @ + 1]
          /\ pc' = [pc EXCEPT ![wr] = "idle"]
          /\ lock' = IF lock = wr THEN "none" ELSE lock
          /\ UNCHANGED held
     ELSE /\ held' = [held EXCEPT ![wr] = <<epoch, counter[epoch]>>]
          /\ pc' = [pc EXCEPT ![wr] = "emit"]
          /\ UNCHANGED <<failed, lock>>
  /\ UNCHANGED <<epoch, wire, done, kus, exps>>

Emit(wr) ==
  /\ pc[wr] = "emit"
  /\ wire' = Append(wire, held[wr])
  /\ done' = [done EXCEPT ![wr] = @ + 1]
  /\ pc' = [pc EXCEPT ![wr] = "idle"]
  /\ lock' = IF lock = wr THEN "none" ELSE lock
  /\ UNCHANGED <<held, counter, epoch, failed, kus, exps>>

\* commitLocalKeyUpdate takes the write lock: no record is between allocation and emission
KeyUpdate ==
  /\ kus < MaxKeyUpdates
  /\ (WithWriteLock => lock = "none" /\ \A wr \in Writers : pc[wr] = "idle")
  /\ epoch' = epoch + 1
  /\ kus' = kus + 1
  /\ UNCHANGED <<pc, held, lock, counter, wire, done, failed, exps>>

\* ConnectionState() snapshot + ResumeWithOptions: only the counter of the sending epoch travels
ExportImport ==
  /\ exps < MaxExports
  /\ \A wr \in Writers : pc[wr] = "idle"
  /\ exps' = exps + 1
  /\ counter' = IF ImportKeepsCounter THEN counter ELSE [counter EXCEPT ![epoch] = 0]
  /\ UNCHANGED <<pc, held, lock, epoch, wire, done, failed, kus>>

SendNext == \/ \E wr \in Writers : Begin(wr) \/ Alloc(wr) \/ Emit(wr)
            \/ KeyUpdate \/ ExportImport

(* C09 *)
RecordNumbersUnique == \A i, j \in 1..Len(wire) : i # j => wire[i] # wire[j]
StrictlyIncreasingPerEpoch ==
  \A i, j \in 1..Len(wire) : (i < j /\ wire[i][1] = wire[j][1]) => wire[i][2] < wire[j][2]
NoWrap == \A i \in 1..Len(wire) : wire[i][2] <= MaxSeq
EpochMonotone == \A i, j \in 1..Len(wire) : i < j => wire[i][1] <= wire[j][1]

-----------------------------------------------------------------------------
(* receive side: genuine records 1..NRecv of the peer's current epoch; record 0 (Finished) accepted *)

Genuine == 1..NRecv
\* the window the replay detector really uses: the configured size rounded up to whole 64-bit words (the "fix:" commit
\* that works around the detector's bitmap losing the upper bits of a partially used word; a configured window of
\* 33..63, 97..127, ... let records inside the window be accepted twice).  The properties below speak about the
\* CONFIGURED window.
Eff(x) == ((x + 63) \div 64) * 64
Fresh(s) == (s <= latest => latest - s < Eff(W)) /\ s \notin seen

\* the genuine record s arrives (again)
ArriveGenuine(s) ==
  /\ narr < NRecv + 1
  /\ narr' = narr + 1
  /\ script' = Append(script, [op |-> "genuine", rec |-> s, class |-> "", hdr |-> s])
  /\ IF Fresh(s)
     THEN /\ delivered' = Append(delivered, s)
          /\ latest' = IF s > latest THEN s ELSE latest
          /\ seen' = seen \cup {s}
     ELSE UNCHANGED <<delivered, latest, seen>>
  /\ UNCHANGED <<alerts, injected>>

\* an attacker-made record: derived from genuine record s by a mutation of class c.  It claims
\* protection (epoch # 0, type # change_cipher_spec) and cannot authenticate.  Class "seq" presents
\* another sequence number s2 in the header.
ArriveForged(s, c, s2) ==
  /\ injected < MaxInject
  /\ injected' = injected + 1
  /\ UNCHANGED narr
  /\ script' = Append(script, [op |-> "forged", rec |-> s, class |-> c, hdr |-> IF c = "seq" THEN s2 ELSE s])
  /\ LET hdrSeq == IF c = "seq" THEN s2 ELSE s IN
     IF CommitBeforeDecrypt /\ c # "frame" /\ Fresh(hdrSeq)
     THEN \* broken ordering: the slot is burnt before authentication fails
          /\ seen' = seen \cup {hdrSeq}
          /\ latest' = IF hdrSeq > latest THEN hdrSeq ELSE latest
     ELSE UNCHANGED <<seen, latest>>
  /\ UNCHANGED <<delivered, alerts>>

RecvNext == \/ \E s \in Genuine : ArriveGenuine(s)
            \/ \E s \in Genuine, c \in Classes, s2 \in Genuine : (c = "seq" \/ s2 = s) /\ ArriveForged(s, c, s2)

(* C05 *)
Count(q, x) == Cardinality({ k \in 1..Len(q) : q[k] = x })
OnlyPeerPayloads == \A k \in 1..Len(delivered) : delivered[k] \in Genuine /\ Count(delivered, delivered[k]) = 1
NoAlertOnForgery == alerts = 0
\* a forgery leaves window, deliveries and emissions untouched
ForgeryHasNoEffect ==
  [][(\E s \in Genuine, c \in Classes, s2 \in Genuine : ArriveForged(s, c, s2)) => UNCHANGED <<latest, seen, delivered, alerts>>]_vars
\* the genuine record bearing a number is still accepted after any forgeries that used that number
GenuineStillAccepted ==
  [][\A s \in Genuine : (ArriveGenuine(s) /\ Count(delivered, s) = 0 /\ (s > latest \/ latest - s < W)) => Count(delivered', s) = 1]_vars

-----------------------------------------------------------------------------
Init ==
  /\ pc = [wr \in Writers |-> "idle"]
  /\ held = [wr \in Writers |-> <<0, 0>>]
  /\ lock = "none"
  /\ counter = [e \in Epochs |-> IF e = 0 THEN StartSeq ELSE 0]
  /\ epoch = 0
  /\ wire = <<>>
  /\ done = [wr \in Writers |-> 0]
  /\ failed = [wr \in Writers |-> 0]
  /\ kus = 0 /\ exps = 0
  /\ latest = 0 /\ seen = {0} /\ delivered = <<>> /\ alerts = 0 /\ injected = 0 /\ narr = 0 /\ script = <<>>

SendSpec == Init /\ [][SendNext /\ UNCHANGED rvars]_vars
RecvSpec == Init /\ [][RecvNext /\ UNCHANGED svars]_vars

\* script generation for the receive side: every behaviour of NRecv + MaxInject arrivals
EmitLeaf == (Gen /\ narr' = NRecv + 1 /\ narr = NRecv) =>
              PrintT(ToJson([w |-> W, script |-> script', delivered |-> delivered']))
=============================================================================
