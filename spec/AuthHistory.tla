----------------------------- MODULE AuthHistory -----------------------------
(* C03 over a HISTORY of two connections that share the server's session store (DTLS 1.2).  Auth.tla decides one
   handshake; resumption re-uses its verdict: an abbreviated handshake has no client-authentication step, so the
   store must never hold a session whose full handshake did not satisfy the server's policy.

   Connection 1: a client with credential cred answers the CertificateRequest with a chain, with the EMPTY Certificate
   message an honest certificate-less client sends, or - deviating - with no Certificate message at all, sends its
   ClientKeyExchange (from here on it knows the master secret) and either goes on to Finished or STALLS before
   ChangeCipherSpec.  The server (internal/flight/flight12/flight4handler.go flight4Parse) stores the session
     StoreAt = "cke"       as soon as ClientKeyExchange is processed   (the pinned tree)
     StoreAt = "finished"  after the Finished check and the ClientAuth switch   (the "fix:" commit)
   unless a Certificate message arrived (any, also the empty one): resumption is then disabled for the session
   (state.SessionID = nil, the CVE-2016-5419 rule).  A fatal alert sent by the server removes the entry.
   Connection 2: the same client offers the session id with the master secret it knows.

   Policy numbering as in Auth.tla: 0 NoClientCert, 1 RequestClientCert, 2 RequireAnyClientCert,
   3 VerifyClientCertIfGiven, 4 RequireAndVerifyClientCert. *)
EXTENDS Integers, Sequences, FiniteSets, TLC, Json

CONSTANTS StoreAt, Gen

Policies == 0..4
Creds == {"none", "good"}      \* chains of another CA, expired chains etc. are decided per handshake (Auth.tla)
CertMsgs == {"chain", "empty", "omitted"}
Stalls == {"beforeCCS", "complete"}

VARIABLES policy, cred, certmsg, stall,
          phase,     \* "start" | "c1" | "c2" | "done"
          stored,    \* the server's store holds the session of connection 1
          satisfied, \* connection 1 reached the point where the policy was checked and satisfied
          est1, est2 \* the server reported success on connection 1 / 2
vars == <<policy, cred, certmsg, stall, phase, stored, satisfied, est1, est2>>

\* what Auth.tla decides for a complete full handshake of this client (certificate suites, server side)
HasChain == certmsg = "chain" /\ cred # "none"
ChainOK == HasChain /\ cred = "good"
PolicySatisfied ==
  CASE policy \in {0, 1} -> TRUE
    [] policy = 2 -> HasChain
    [] policy = 3 -> (HasChain => ChainOK)
    [] policy = 4 -> ChainOK
\* a presented chain is verified as soon as it arrives for policies 3 and 4: a bad one ends the handshake at once
EarlyReject == HasChain /\ policy \in {3, 4} /\ ~ChainOK
\* resumption is disabled for this session when any Certificate message arrived
Resumable == certmsg = "omitted"

Init ==
  /\ policy \in Policies /\ cred \in Creds /\ certmsg \in CertMsgs /\ stall \in Stalls
  \* combinations that make sense: a chain needs a credential; policy 0 sends no CertificateRequest, so nothing is answered
  /\ (certmsg = "chain" => cred # "none")
  /\ (policy = 0 => certmsg = "omitted")
  /\ phase = "start" /\ stored = FALSE /\ satisfied = FALSE /\ est1 = FALSE /\ est2 = FALSE

Conn1 ==
  /\ phase = "start" /\ phase' = "c1"
  /\ IF EarlyReject
     THEN stored' = FALSE /\ satisfied' = FALSE /\ est1' = FALSE
     ELSE IF stall = "beforeCCS"
          THEN /\ stored' = (StoreAt = "cke" /\ Resumable)
               /\ satisfied' = FALSE /\ est1' = FALSE
          ELSE /\ satisfied' = PolicySatisfied /\ est1' = PolicySatisfied
               \* a refusal sends a fatal alert, which removes whatever was stored
               /\ stored' = (PolicySatisfied /\ Resumable)
  /\ UNCHANGED <<policy, cred, certmsg, stall, est2>>

Conn2 ==
  /\ phase = "c1" /\ phase' = "done"
  /\ est2' = stored          \* the client knows the master secret: the abbreviated handshake succeeds iff the entry exists
  /\ UNCHANGED <<policy, cred, certmsg, stall, stored, satisfied, est1>>

Next == Conn1 \/ Conn2
Spec == Init /\ [][Next]_vars

(* C03 across the history: no established session - resumed ones included - without the required credential *)
ResumedOnlyIfAuthenticated == est2 => satisfied
NoEstablishmentWithoutCredential == (est1 \/ est2) => PolicySatisfied

EmitCase == (Gen /\ phase' = "done") =>
  PrintT(ToJson([policy |-> policy, cred |-> cred, certmsg |-> certmsg, stall |-> stall,
                 resumable |-> stored, est2 |-> est2', satisfied |-> PolicySatisfied]))
=============================================================================
