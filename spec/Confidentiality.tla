--------------------------- MODULE Confidentiality ---------------------------
(* C07 - nothing secret leaves unprotected.
   Two endpoints run a handshake over a lossy network while the application already calls Write, the
   retransmission timers fire, alerts are sent, Close is called, keys are updated (1.3) and an attacker
   injects cleartext application-data records.  The model tracks, for every record an endpoint emits,
   its content class, its epoch and whether it is record-protected, and what a wire observer learns.

   Emission rules follow the code:
     conn.go Write              blocks until the handshake is done (WriteWaits), then one application-data
                                record at the CURRENT local epoch with ShouldEncrypt (processPacket)
     handshake flights          DTLS 1.2: epoch 0 in clear up to ChangeCipherSpec, Finished at epoch 1 protected;
                                DTLS 1.3: ClientHello / ServerHello / HelloRetryRequest in clear, everything
                                later at epoch 2 (handshake keys), post-handshake messages at epoch >= 3
     retransmission             re-emits the flight with the protection it had
     alerts                     protected once the local epoch is > 0; in clear before (alerts carry no secret)
     handleApplicationDataRecord  application data in an epoch-0 record is refused
   Exporter: the value handed to the application is a symbolic term Exp(k, public); an observer can
   compute it iff it knows k.  k is the master / exporter secret; the constant ExporterKeyed13 = FALSE is the
   pinned tree for DTLS 1.3 (empty secret: computable from the hello randoms), TRUE the repaired one. *)
EXTENDS Integers, Sequences, FiniteSets, TLC, Json

CONSTANTS Ver,            \* 12 | 13
          Rounds,         \* delivery rounds a lossless handshake needs (abstract progress bar)
          EstC, EstS,     \* progress value at which the client / the server reports success
          MaxWrites,      \* Write calls per side
          MaxFaults,      \* drops (each needs a timer event to recover)
          MaxInject,      \* attacker injections of cleartext application data
          WriteWaits,     \* Write waits for the handshake (code: TRUE)
          Epoch0AppRefused, \* receiver refuses application data in epoch 0 (code: TRUE)
          ExporterKeyed13,
          Gen

E == {"c", "s"}
EstAt == [c |-> EstC, s |-> EstS]
Peer(e) == IF e = "c" THEN "s" ELSE "c"

VARIABLES prog,      \* handshake progress 0..Rounds
          lost,      \* the datagrams of the current round were dropped: a timer must fire
          est,       \* per endpoint: handshake reported done
          epoch,     \* per endpoint: local (sending) epoch
          pend,      \* per endpoint: Write calls blocked waiting for the handshake
          writes,    \* per endpoint: Write calls made so far
          closed,    \* per endpoint
          faults, injects, updates,
          wire,      \* set of observed record classes [from, cls, epoch, enc]
          delivered, \* per endpoint: payload classes handed to Read
          hist
vars == <<prog, lost, est, epoch, pend, writes, closed, faults, injects, updates, wire, delivered, hist>>
viewv == <<prog, lost, est, epoch, pend, writes, closed, faults, injects, updates, wire, delivered>>

AppEpoch == IF Ver = 13 THEN 3 ELSE 1
Rec(e, cls, ep, enc) == [from |-> e, cls |-> cls, epoch |-> ep, enc |-> enc]

\* what the flight of progress step p looks like on the wire, by sender
FlightRecs(e, p) ==
  IF Ver = 12
  THEN IF p >= Rounds - 2     \* the last two flights carry ChangeCipherSpec + Finished
       THEN {Rec(e, "hs-clear", 0, FALSE), Rec(e, "finished", 1, TRUE)}
       ELSE {Rec(e, "hs-clear", 0, FALSE)}
  ELSE IF p <= 2 THEN {Rec(e, "hello", 0, FALSE)}
       ELSE IF p = 3 THEN {Rec(e, "hello", 0, FALSE), Rec(e, "hs-protected", 2, TRUE)}   \* ServerHello + protected rest
       ELSE {Rec(e, "hs-protected", 2, TRUE)}

Init ==
  /\ prog = 0 /\ lost = FALSE
  /\ est = [e \in E |-> FALSE] /\ epoch = [e \in E |-> 0]
  /\ pend = [e \in E |-> 0] /\ writes = [e \in E |-> 0] /\ closed = [e \in E |-> FALSE]
  /\ faults = 0 /\ injects = 0 /\ updates = 0
  /\ wire = FlightRecs("c", 0) /\ delivered = [e \in E |-> {}]
  /\ hist = <<>>

Sender(p) == IF p % 2 = 0 THEN "c" ELSE "s"

\* one delivery round: the in-flight flight arrives, the receiver answers with the next one
Pump ==
  /\ prog < Rounds /\ ~lost /\ ~closed["c"] /\ ~closed["s"]
  /\ prog' = prog + 1
  /\ LET e == Sender(prog + 1)
         nest == [x \in E |-> est[x] \/ prog + 1 >= EstAt[x]]
         nep  == [x \in E |-> IF nest[x] THEN AppEpoch ELSE IF Ver = 13 /\ prog + 1 >= 2 THEN 2 ELSE epoch[x]]
         \* Write calls that were waiting are released as soon as their side is established
         rel  == {Rec(x, "appdata", nep[x], TRUE) : x \in {y \in E : nest[y] /\ pend[y] > 0}}
     IN /\ est' = nest /\ epoch' = nep
        /\ wire' = wire \cup (IF prog + 1 < Rounds THEN FlightRecs(e, prog + 1) ELSE {}) \cup rel
        /\ delivered' = [x \in E |-> delivered[x] \cup
                           (IF nest[x] /\ nest[Peer(x)] /\ pend[Peer(x)] > 0 THEN {"peer-payload"} ELSE {})]
        /\ pend' = [x \in E |-> IF nest[x] THEN 0 ELSE pend[x]]
  /\ UNCHANGED <<lost, writes, closed, faults, injects, updates>>

Drop ==
  /\ prog < Rounds /\ ~lost /\ faults < MaxFaults
  /\ lost' = TRUE /\ faults' = faults + 1
  /\ UNCHANGED <<prog, est, epoch, pend, writes, closed, injects, updates, wire, delivered>>

\* the retransmission timer re-emits the current flight with the protection it had
Timer ==
  /\ lost
  /\ lost' = FALSE
  /\ wire' = wire \cup FlightRecs(Sender(prog), prog)
  /\ UNCHANGED <<prog, est, epoch, pend, writes, closed, faults, injects, updates, delivered>>

WriteCall(e) ==
  /\ writes[e] < MaxWrites /\ ~closed[e]
  /\ writes' = [writes EXCEPT ![e] = @ + 1]
  /\ IF est[e] \/ ~WriteWaits
     THEN /\ wire' = wire \cup {Rec(e, "appdata", epoch[e], epoch[e] > 0)}
          /\ delivered' = [delivered EXCEPT ![Peer(e)] =
                              IF est[Peer(e)] /\ (epoch[e] > 0 \/ ~Epoch0AppRefused) THEN @ \cup {"peer-payload"} ELSE @]
          /\ UNCHANGED pend
     ELSE /\ pend' = [pend EXCEPT ![e] = @ + 1] /\ UNCHANGED <<wire, delivered>>
  /\ UNCHANGED <<prog, lost, est, epoch, closed, faults, injects, updates>>

\* DTLS 1.3 key update: the KeyUpdate message is a protected post-handshake record, later writes use the next epoch
Update(e) ==
  /\ Ver = 13 /\ est[e] /\ est[Peer(e)] /\ updates < 1 /\ ~closed[e] /\ ~closed[Peer(e)]
  /\ updates' = updates + 1
  /\ wire' = wire \cup {Rec(e, "post-handshake", epoch[e], TRUE), Rec(Peer(e), "ack", epoch[Peer(e)], TRUE)}
  /\ epoch' = [epoch EXCEPT ![e] = @ + 1]
  /\ UNCHANGED <<prog, lost, est, pend, writes, closed, faults, injects, delivered>>

\* the same update whose first transmission is lost: the retransmission timer re-sends the KeyUpdate - a retransmission has
\* the protection of the first transmission (post_handshake.go retransmitPostHandshakeFlight)
UpdateLost(e) ==
  /\ Update(e) /\ faults < MaxFaults

\* Close: close_notify when established (protected), blocked Write calls fail without emitting
Close(e) ==
  /\ ~closed[e]
  /\ closed' = [closed EXCEPT ![e] = TRUE]
  /\ wire' = IF est[e] THEN wire \cup {Rec(e, "alert", epoch[e], epoch[e] > 0)} ELSE wire
  /\ pend' = [pend EXCEPT ![e] = 0]
  /\ UNCHANGED <<prog, lost, est, epoch, writes, faults, injects, updates, delivered>>

\* attacker: a cleartext application-data record (epoch 0) arrives at e
Inject(e) ==
  /\ injects < MaxInject /\ ~closed[e]
  /\ injects' = injects + 1
  /\ delivered' = [delivered EXCEPT ![e] = IF Epoch0AppRefused THEN @ ELSE @ \cup {"attacker-payload"}]
  /\ UNCHANGED <<prog, lost, est, epoch, pend, writes, closed, faults, updates, wire>>

Log(a, x) == hist' = Append(hist, [op |-> a, side |-> x])
Next == \/ Pump /\ Log("pump", "")
        \/ Drop /\ Log("drop", "")
        \/ Timer /\ Log("timer", "")
        \/ \E e \in E : \/ WriteCall(e) /\ Log("write", e)
                        \/ Update(e) /\ Log("update", e)
                        \/ UpdateLost(e) /\ Log("updlost", e)
                        \/ Close(e) /\ Log("close", e)
                        \/ Inject(e) /\ Log("inject0", e)
Spec == Init /\ [][Next]_vars

-----------------------------------------------------------------------------
Secret(cls) == cls \in {"appdata", "finished", "hs-protected", "post-handshake"}
(* C07: nothing secret is observed in clear, application records never carry epoch 0 *)
NoSecretInClear == \A r \in wire : Secret(r.cls) => (r.enc /\ r.epoch > 0)
NoAppDataEpoch0Out == \A r \in wire : r.cls = "appdata" => r.epoch > 0
NoAppDataEpoch0In == \A e \in E : "attacker-payload" \notin delivered[e]
(* exporter: computable by the observer iff its key is public *)
ExporterKey == IF Ver = 13 /\ ~ExporterKeyed13 THEN "empty" ELSE "secret"
ExporterNotComputable == \A e \in E : est[e] => ExporterKey # "empty"
(* non-vacuity *)
SomethingProtected == (prog = Rounds /\ writes["c"] > 0 /\ ~closed["c"]) => \E r \in wire : r.cls = "appdata" /\ r.from = "c"

EmitEdge == Gen => PrintT(ToJson([steps |-> hist']))
=============================================================================
