------------------------------- MODULE Codec -------------------------------
(***************************************************************************)
(* M8 - byte layouts of DTLS 1.2 / DTLS 1.3 as the RFCs state them.        *)
(*                                                                         *)
(* This module is an INDEPENDENT statement of the wire formats: it is      *)
(* written from RFC 5246, 5288, 5705, 5869, 6347, 6655, 7627, 7905, 8446,  *)
(* 9146, 9147 and 9853 (RRC), not from the library.  It contains no        *)
(* cryptography: HMAC/AES/ChaCha/hash are opaque; what is specified is     *)
(*   - which bytes go into which primitive (nonce, additional data, MAC    *)
(*     input, PRF seed, HkdfLabel, key-block ranges, derivation graphs);   *)
(*   - how values are encoded/decoded (record headers, handshake header,   *)
(*     alert, ACK, RRC, inner plaintext, handshake bodies, extensions) and *)
(*     how a datagram is split into records.                               *)
(* TLC evaluates the operators over enumerated parameter tuples and prints *)
(* JSON vectors (one state per tuple, INVARIANT Emit prints, INVARIANT     *)
(* Consistent checks the internal consistency of the layouts: decoders     *)
(* invert encoders, unpacking partitions, lengths add up).  The Go harness *)
(* applies standard-library primitives to these layouts and compares with  *)
(* the library (C10) / compares the library codecs with the encoders and   *)
(* decoders here (C18).                                                    *)
(*                                                                         *)
(* Bytes are naturals 0..255.  TLC integers are 32 bit: 48/64-bit numbers  *)
(* are tuples of 16-bit limbs, most significant first.                     *)
(***************************************************************************)
EXTENDS Integers, Sequences, FiniteSets, TLC, Json, Bitwise

CONSTANT Broken    \* "none", or the name of a deliberately wrong layout (vacuity guard)

---------------------------------------------------------------------------
(* Basic byte-sequence vocabulary *)

Rep(b, n)  == [i \in 1..n |-> b]
Take(s, n) == SubSeq(s, 1, n)
Drop(s, n) == SubSeq(s, n + 1, Len(s))
Max(S)     == CHOOSE x \in S : \A y \in S : y <= x
Min(S)     == CHOOSE x \in S : \A y \in S : y >= x

U8(x)  == << x >>
U16(x) == << x \div 256, x % 256 >>
U24(x) == << x \div 65536, (x \div 256) % 256, x % 256 >>
N16(s, i) == (s[i] * 256) + s[i + 1]
N24(s, i) == (s[i] * 65536) + (s[i + 1] * 256) + s[i + 2]

RECURSIVE Limbs(_)
Limbs(ls) == IF ls = <<>> THEN <<>> ELSE U16(Head(ls)) \o Limbs(Tail(ls))
LimbsAt(s, i, n) == [k \in 1..n |-> N16(s, i + (2 * (k - 1)))]

RECURSIVE Cat(_)
Cat(ss) == IF ss = <<>> THEN <<>> ELSE Head(ss) \o Cat(Tail(ss))

XorSeq(a, b) == [i \in 1..Len(a) |-> a[i] ^^ b[i]]

Reject == [ok |-> FALSE]

---------------------------------------------------------------------------
(* ASCII *)

Printable == << " ", "!", "\"", "#", "$", "%", "&", "'", "(", ")", "*", "+", ",", "-", ".", "/", "0", "1", "2", "3", "4", "5", "6", "7", "8", "9", ":", ";", "<", "=", ">", "?", "@", "A", "B", "C", "D", "E", "F", "G", "H", "I", "J", "K", "L", "M", "N", "O", "P", "Q", "R", "S", "T", "U", "V", "W", "X", "Y", "Z", "[", "\\", "]", "^", "_", "`", "a", "b", "c", "d", "e", "f", "g", "h", "i", "j", "k", "l", "m", "n", "o", "p", "q", "r", "s", "t", "u", "v", "w", "x", "y", "z", "{", "|", "}", "~" >>
Code(c) == 31 + (CHOOSE i \in 1..95 : Printable[i] = c)
S(cs) == [i \in 1..Len(cs) |-> Code(cs[i])]

\* RFC 5246 8.1 / 6.3 / 7.4.9, RFC 7627 4, RFC 5705 / RFC 5764 4.2
L_master == S(<< "m", "a", "s", "t", "e", "r", " ", "s", "e", "c", "r", "e", "t" >>)
L_ems == S(<< "e", "x", "t", "e", "n", "d", "e", "d", " ", "m", "a", "s", "t", "e", "r", " ", "s", "e", "c", "r", "e", "t" >>)
L_keyexp == S(<< "k", "e", "y", " ", "e", "x", "p", "a", "n", "s", "i", "o", "n" >>)
L_cfin == S(<< "c", "l", "i", "e", "n", "t", " ", "f", "i", "n", "i", "s", "h", "e", "d" >>)
L_sfin == S(<< "s", "e", "r", "v", "e", "r", " ", "f", "i", "n", "i", "s", "h", "e", "d" >>)
L_exporter_srtp == S(<< "E", "X", "T", "R", "A", "C", "T", "O", "R", "-", "d", "t", "l", "s", "_", "s", "r", "t", "p" >>)
L_exporter_x == S(<< "E", "X", "P", "E", "R", "I", "M", "E", "N", "T", "A", "L", "-", "v", "e", "r", "i", "f" >>)
\* RFC 9147 5.9 (prefix), RFC 8446 7.1 / 7.2 / 7.3 / 7.5 / 4.4.3 / 4.4.4, RFC 9147 4.2.3 ("sn")
P_dtls13 == S(<< "d", "t", "l", "s", "1", "3" >>)
P_tls13 == S(<< "t", "l", "s", "1", "3", " " >>)
L_derived == S(<< "d", "e", "r", "i", "v", "e", "d" >>)
L_chs == S(<< "c", " ", "h", "s", " ", "t", "r", "a", "f", "f", "i", "c" >>)
L_shs == S(<< "s", " ", "h", "s", " ", "t", "r", "a", "f", "f", "i", "c" >>)
L_cap == S(<< "c", " ", "a", "p", " ", "t", "r", "a", "f", "f", "i", "c" >>)
L_sap == S(<< "s", " ", "a", "p", " ", "t", "r", "a", "f", "f", "i", "c" >>)
L_exp == S(<< "e", "x", "p", " ", "m", "a", "s", "t", "e", "r" >>)
L_res == S(<< "r", "e", "s", " ", "m", "a", "s", "t", "e", "r" >>)
L_finished == S(<< "f", "i", "n", "i", "s", "h", "e", "d" >>)
L_key == S(<< "k", "e", "y" >>)
L_iv == S(<< "i", "v" >>)
L_sn == S(<< "s", "n" >>)
L_upd == S(<< "t", "r", "a", "f", "f", "i", "c", " ", "u", "p", "d" >>)
L_exporter13 == S(<< "e", "x", "p", "o", "r", "t", "e", "r" >>)
CV_server == S(<< "T", "L", "S", " ", "1", ".", "3", ",", " ", "s", "e", "r", "v", "e", "r", " ", "C", "e", "r", "t", "i", "f", "i", "c", "a", "t", "e", "V", "e", "r", "i", "f", "y" >>)
CV_client == S(<< "T", "L", "S", " ", "1", ".", "3", ",", " ", "c", "l", "i", "e", "n", "t", " ", "C", "e", "r", "t", "i", "f", "i", "c", "a", "t", "e", "V", "e", "r", "i", "f", "y" >>)

---------------------------------------------------------------------------
(* Content types, versions *)

CT_ccs == 20  CT_alert == 21  CT_handshake == 22  CT_appdata == 23
CT_cid == 25  \* tls12_cid, RFC 9146 3
CT_ack == 26  \* RFC 9147 7
CT_rrc == 27  \* return_routability_check, RFC 9853
V12 == << 254, 253 >>   \* DTLS 1.2 on the wire (also legacy_record_version of DTLS 1.3)
V10 == << 254, 255 >>

---------------------------------------------------------------------------
(* Record headers                                                          *)

\* RFC 6347 4.1 DTLSPlaintext/DTLSCiphertext header; RFC 9146 4: tls12_cid
\* records carry the connection id between sequence_number and length.
\* h = [type, ver, epoch, seq (3 limbs), cid, len]
EncHdr12(h) == << h.type >> \o h.ver \o U16(h.epoch) \o
               (IF Broken = "hdr_seq_reversed"
                  THEN Limbs(<< h.seq[3], h.seq[2], h.seq[1] >>) ELSE Limbs(h.seq)) \o
               h.cid \o U16(h.len)

\* n = connection-id length negotiated for the receiving direction
DecHdr12(b, n) ==
  IF Len(b) < 13 THEN Reject
  ELSE LET c == IF b[1] = CT_cid THEN n ELSE 0 IN
       IF Len(b) < 13 + c THEN Reject
       ELSE [ok |-> TRUE, used |-> 13 + c,
             h |-> [type |-> b[1], ver |-> << b[2], b[3] >>, epoch |-> N16(b, 4),
                    seq |-> LimbsAt(b, 6, 3), cid |-> SubSeq(b, 12, 11 + c),
                    len |-> N16(b, 12 + c)]]

\* RFC 9147 4 unified header: 0 0 1 C S L E E | cid | 8/16-bit seq | [16-bit length]
\* u = [cid, s (BOOLEAN), seq, l (BOOLEAN), len, epoch (low two bits)]; C <=> cid # <<>>
UFirst(u) == 32 + (IF Len(u.cid) > 0 THEN 16 ELSE 0) + (IF u.s THEN 8 ELSE 0) +
             (IF u.l THEN 4 ELSE 0) + (u.epoch % 4)
EncUHdr(u) == << UFirst(u) >> \o u.cid \o
              (IF u.s THEN U16(u.seq) ELSE << u.seq % 256 >>) \o
              (IF u.l THEN U16(u.len) ELSE <<>>)

IsUnified(b1) == b1 \div 32 = 1          \* 001xxxxx
UBitC(b1) == (b1 \div 16) % 2 = 1
UBitS(b1) == (b1 \div 8) % 2 = 1
UBitL(b1) == (b1 \div 4) % 2 = 1

DecUHdr(b, n) ==
  IF Len(b) < 1 \/ ~IsUnified(b[1]) THEN Reject
  ELSE LET c  == IF UBitC(b[1]) THEN n ELSE 0
           sl == IF UBitS(b[1]) THEN 2 ELSE 1
           ll == IF UBitL(b[1]) THEN 2 ELSE 0
       IN IF Len(b) < 1 + c + sl + ll THEN Reject
          ELSE [ok |-> TRUE, used |-> 1 + c + sl + ll,
                h |-> [cid |-> SubSeq(b, 2, 1 + c), s |-> UBitS(b[1]),
                       seq |-> IF UBitS(b[1]) THEN N16(b, 2 + c) ELSE b[2 + c],
                       l |-> UBitL(b[1]),
                       len |-> IF UBitL(b[1]) THEN N16(b, 2 + c + sl) ELSE 0,
                       epoch |-> b[1] % 4]]

\* RFC 6347 4.2.2 handshake header
\* m = [type, length, mseq, foff, flen]
EncHsHdr(m) == << m.type >> \o U24(m.length) \o U16(m.mseq) \o U24(m.foff) \o U24(m.flen)
DecHsHdr(b) ==
  IF Len(b) < 12 THEN Reject
  ELSE [ok |-> TRUE, used |-> 12,
        h |-> [type |-> b[1], length |-> N24(b, 2), mseq |-> N16(b, 5),
               foff |-> N24(b, 7), flen |-> N24(b, 10)]]

\* RFC 5246 7.2 alert
EncAlert(a) == << a.level, a.desc >>
DecAlert(b) == IF Len(b) < 2 THEN Reject
               ELSE [ok |-> TRUE, used |-> 2, h |-> [level |-> b[1], desc |-> b[2]]]

\* RFC 9147 7: struct { RecordNumber record_numbers<0..2^16-1>; } ACK;
\* RecordNumber = uint64 epoch, uint64 sequence_number (4 limbs each)
RECURSIVE EncRecNums(_)
EncRecNums(rs) == IF rs = <<>> THEN <<>>
                  ELSE Limbs(Head(rs).epoch) \o Limbs(Head(rs).seq) \o EncRecNums(Tail(rs))
EncAck(rs) == U16(16 * Len(rs)) \o EncRecNums(rs)
DecAck(b) ==
  IF Len(b) < 2 THEN Reject
  ELSE LET n == N16(b, 1) IN
       IF Len(b) < 2 + n \/ n % 16 # 0 THEN Reject
       ELSE [ok |-> TRUE, used |-> 2 + n,
             h |-> [k \in 1..(n \div 16) |->
                      [epoch |-> LimbsAt(b, 3 + (16 * (k - 1)), 4),
                       seq   |-> LimbsAt(b, 11 + (16 * (k - 1)), 4)]]]

\* RFC 9853: return_routability_check = msg_type (path_challenge 0, path_response 1,
\* path_drop 2) followed by an 8-byte cookie
\* RFC 9853 4.2: a message with an unknown msg_type is parsed and ignored
\* (whatever follows the type belongs to it; its cookie is not interpreted)
EncRrc(r) == << r.type >> \o r.cookie
DecRrc(b) == IF Len(b) < 1 THEN Reject
             ELSE IF b[1] > 2 THEN [ok |-> TRUE, used |-> Len(b), h |-> [type |-> b[1], cookie |-> Rep(0, 8)]]
             ELSE IF Len(b) < 9 THEN Reject
             ELSE [ok |-> TRUE, used |-> 9, h |-> [type |-> b[1], cookie |-> SubSeq(b, 2, 9)]]

\* RFC 9146 4 / RFC 8446 5.2 / RFC 9147 4: content || real type || zero padding.
\* The receiver strips zeros from the end; the last non-zero byte is the type.
EncInner(p) == p.content \o << p.type >> \o Rep(0, p.zeros)
DecInner(b) ==
  LET nz == {i \in 1..Len(b) : b[i] # 0} IN
  IF nz = {} THEN Reject
  ELSE LET k == Max(nz) IN
       [ok |-> TRUE, used |-> Len(b),
        h |-> [content |-> SubSeq(b, 1, k - 1), type |-> b[k], zeros |-> Len(b) - k]]

---------------------------------------------------------------------------
(* Splitting a datagram into records (RFC 6347 4.1.1, RFC 9146 4,          *)
(* RFC 9147 4 and 4.1): records are laid end to end; each one is           *)
(* delimited by the length in its own header.  A record whose header or    *)
(* declared fragment does not fit is truncated input: nothing of it is     *)
(* consumed and the result is an error.  The splitter does not judge the   *)
(* fragment: an empty one (RFC 5246 6.2.1 allows zero-length application   *)
(* data, and RecordLayer.Marshal produces it) is a record like any other,  *)
(* wherever it stands in the datagram.  MinFragment = 1 is the pinned      *)
(* tree: an empty fragment was split off anywhere but at the end of the    *)
(* datagram, where the whole datagram was refused (repaired by a fix:      *)
(* commit, see known_findings.jsonl).                                      *)

MinFragment == IF Broken = "unpack_min1" THEN 1 ELSE 0

\* result [ok, recs] : recs is a sequence of [from, to] byte positions (1-based, inclusive)
RECURSIVE UnpackFrom(_, _, _, _)
UnpackFrom(d, pos, n, acc) ==
  IF pos > Len(d) THEN [ok |-> TRUE, recs |-> acc]
  ELSE LET hs == 13 + (IF d[pos] = CT_cid THEN n ELSE 0) IN
       IF Len(d) - pos + 1 < hs + MinFragment THEN Reject
       ELSE LET l == N16(d, pos + hs - 2)
                e == IF Broken = "unpack_overread" THEN pos + hs + l ELSE pos + hs + l - 1
            IN IF e > Len(d) THEN Reject
               ELSE UnpackFrom(d, e + 1, n, Append(acc, << pos, e >>))

Unpack(d)       == UnpackFrom(d, 1, 0, <<>>)     \* connection ids not in use
UnpackCID(d, n) == UnpackFrom(d, 1, n, <<>>)     \* content-aware: tls12_cid headers are n bytes longer

\* DTLS 1.3 (RFC 9147 4): plaintext records (alert, handshake, ack) keep the legacy
\* header; 001xxxxx starts a ciphertext record.  Without L bit the record extends to
\* the end of the datagram.  The encrypted record is at least 16 bytes (4.2.3) and at
\* most 2^14 + 256.  RFC 9147 9: once a record carries a connection id, a following
\* record with a different one ends processing: the rest of the datagram is discarded.
\* result [ok, recs, rest] ; rest = number of trailing bytes discarded
IsPlain13(t) == t \in {CT_alert, CT_handshake, CT_ack}
MinCipher13 == 16
MaxCipher13 == 16384 + 256

RECURSIVE Unpack13From(_, _, _, _, _, _, _)
Unpack13From(d, pos, n, cidReq, ctEnabled, first, acc) ==
  IF pos > Len(d) THEN [ok |-> TRUE, recs |-> acc, rest |-> 0]
  ELSE IF IsPlain13(d[pos]) THEN
         IF Len(d) - pos + 1 < 13 + MinFragment THEN Reject
         ELSE LET e == pos + 13 + N16(d, pos + 11) - 1 IN
              IF e > Len(d) THEN Reject
              ELSE Unpack13From(d, e + 1, n, cidReq, ctEnabled, first, Append(acc, << pos, e >>))
  ELSE IF ~ctEnabled \/ ~IsUnified(d[pos]) THEN Reject
  ELSE LET b1 == d[pos]
           hasC == UBitC(b1) IN
       IF (cidReq /\ n > 0 /\ ~hasC) \/ (n = 0 /\ hasC) THEN Reject
       ELSE LET hdr == DecUHdr(SubSeq(d, pos, Len(d)), n) IN
            IF ~hdr.ok THEN Reject
            ELSE LET cid == hdr.h.cid
                     mismatch == n > 0 /\ first # << -1 >> /\ first # cid
                     first2 == IF n > 0 /\ first = << -1 >> THEN cid ELSE first
                     body == IF hdr.h.l THEN hdr.h.len ELSE Len(d) - pos + 1 - hdr.used
                     e == pos + hdr.used + body - 1
                 IN IF body < MinCipher13 \/ body > MaxCipher13 \/ e > Len(d) THEN Reject
                    ELSE IF mismatch THEN [ok |-> TRUE, recs |-> acc, rest |-> Len(d) - pos + 1]
                    ELSE IF ~hdr.h.l THEN [ok |-> TRUE, recs |-> Append(acc, << pos, e >>), rest |-> 0]
                    ELSE Unpack13From(d, e + 1, n, cidReq, ctEnabled, first2, Append(acc, << pos, e >>))

Unpack13(d, n, cidReq, ctEnabled) == Unpack13From(d, 1, n, cidReq, ctEnabled, << -1 >>, <<>>)

\* the records returned are contiguous, start at 1 and (with rest) cover the datagram
RECURSIVE Contiguous(_, _)
Contiguous(recs, start) ==
  IF recs = <<>> THEN start
  ELSE IF Head(recs)[1] # start \/ Head(recs)[2] < start THEN -1
  ELSE Contiguous(Tail(recs), Head(recs)[2] + 1)
Partitions(d, r) == r.ok => Contiguous(r.recs, 1) = Len(d) + 1 - (IF "rest" \in DOMAIN r THEN r.rest ELSE 0)

---------------------------------------------------------------------------
(* Cipher suites: parameters from the defining RFCs                        *)
(* kind: gcm (RFC 5288/5289/5487), ccm (RFC 6655/7251), chacha (RFC 7905), *)
(* cbc (RFC 5246 6.2.3.2, RFC 4492/8422, 5487, 5489).                      *)
(* mac/key/iv = mac_key_length, enc_key_length, fixed_iv_length of the key *)
(* block (RFC 5246 6.3); TLS 1.2 CBC uses an explicit per-record IV, so    *)
(* fixed_iv_length is 0 there.                                             *)

Suites12 == <<
 [name |-> "TLS_ECDHE_ECDSA_WITH_AES_128_GCM_SHA256", id |-> <<192, 43>>, kind |-> "gcm", mac |-> 0, key |-> 16, iv |-> 4, tag |-> 16, prf |-> "sha256", mach |-> "none"],
 [name |-> "TLS_ECDHE_RSA_WITH_AES_128_GCM_SHA256", id |-> <<192, 47>>, kind |-> "gcm", mac |-> 0, key |-> 16, iv |-> 4, tag |-> 16, prf |-> "sha256", mach |-> "none"],
 [name |-> "TLS_ECDHE_ECDSA_WITH_AES_256_GCM_SHA384", id |-> <<192, 44>>, kind |-> "gcm", mac |-> 0, key |-> 32, iv |-> 4, tag |-> 16, prf |-> "sha384", mach |-> "none"],
 [name |-> "TLS_ECDHE_RSA_WITH_AES_256_GCM_SHA384", id |-> <<192, 48>>, kind |-> "gcm", mac |-> 0, key |-> 32, iv |-> 4, tag |-> 16, prf |-> "sha384", mach |-> "none"],
 [name |-> "TLS_PSK_WITH_AES_128_GCM_SHA256", id |-> <<0, 168>>, kind |-> "gcm", mac |-> 0, key |-> 16, iv |-> 4, tag |-> 16, prf |-> "sha256", mach |-> "none"],
 [name |-> "TLS_ECDHE_ECDSA_WITH_AES_128_CCM", id |-> <<192, 172>>, kind |-> "ccm", mac |-> 0, key |-> 16, iv |-> 4, tag |-> 16, prf |-> "sha256", mach |-> "none"],
 [name |-> "TLS_ECDHE_ECDSA_WITH_AES_128_CCM_8", id |-> <<192, 174>>, kind |-> "ccm", mac |-> 0, key |-> 16, iv |-> 4, tag |-> 8, prf |-> "sha256", mach |-> "none"],
 [name |-> "TLS_PSK_WITH_AES_128_CCM", id |-> <<192, 164>>, kind |-> "ccm", mac |-> 0, key |-> 16, iv |-> 4, tag |-> 16, prf |-> "sha256", mach |-> "none"],
 [name |-> "TLS_PSK_WITH_AES_128_CCM_8", id |-> <<192, 168>>, kind |-> "ccm", mac |-> 0, key |-> 16, iv |-> 4, tag |-> 8, prf |-> "sha256", mach |-> "none"],
 [name |-> "TLS_PSK_WITH_AES_256_CCM_8", id |-> <<192, 169>>, kind |-> "ccm", mac |-> 0, key |-> 32, iv |-> 4, tag |-> 8, prf |-> "sha256", mach |-> "none"],
 [name |-> "TLS_ECDHE_ECDSA_WITH_CHACHA20_POLY1305_SHA256", id |-> <<204, 169>>, kind |-> "chacha", mac |-> 0, key |-> 32, iv |-> 12, tag |-> 16, prf |-> "sha256", mach |-> "none"],
 [name |-> "TLS_ECDHE_RSA_WITH_CHACHA20_POLY1305_SHA256", id |-> <<204, 168>>, kind |-> "chacha", mac |-> 0, key |-> 32, iv |-> 12, tag |-> 16, prf |-> "sha256", mach |-> "none"],
 [name |-> "TLS_PSK_WITH_CHACHA20_POLY1305_SHA256", id |-> <<204, 171>>, kind |-> "chacha", mac |-> 0, key |-> 32, iv |-> 12, tag |-> 16, prf |-> "sha256", mach |-> "none"],
 [name |-> "TLS_ECDHE_ECDSA_WITH_AES_256_CBC_SHA", id |-> <<192, 10>>, kind |-> "cbc", mac |-> 20, key |-> 32, iv |-> 0, tag |-> 0, prf |-> "sha256", mach |-> "sha1"],
 [name |-> "TLS_ECDHE_RSA_WITH_AES_256_CBC_SHA", id |-> <<192, 20>>, kind |-> "cbc", mac |-> 20, key |-> 32, iv |-> 0, tag |-> 0, prf |-> "sha256", mach |-> "sha1"],
 [name |-> "TLS_PSK_WITH_AES_128_CBC_SHA256", id |-> <<0, 174>>, kind |-> "cbc", mac |-> 32, key |-> 16, iv |-> 0, tag |-> 0, prf |-> "sha256", mach |-> "sha256"],
 [name |-> "TLS_ECDHE_PSK_WITH_AES_128_CBC_SHA256", id |-> <<192, 55>>, kind |-> "cbc", mac |-> 32, key |-> 16, iv |-> 0, tag |-> 0, prf |-> "sha256", mach |-> "sha256"]
>>

\* RFC 8446 B.4, RFC 9147 4.2.3 (sn key has the AEAD key length)
Suites13 == <<
 [name |-> "TLS_AES_128_GCM_SHA256", id |-> <<19, 1>>, kind |-> "gcm", key |-> 16, iv |-> 12, tag |-> 16, hash |-> "sha256", hlen |-> 32, snalg |-> "aes-ecb"],
 [name |-> "TLS_AES_256_GCM_SHA384", id |-> <<19, 2>>, kind |-> "gcm", key |-> 32, iv |-> 12, tag |-> 16, hash |-> "sha384", hlen |-> 48, snalg |-> "aes-ecb"],
 [name |-> "TLS_CHACHA20_POLY1305_SHA256", id |-> <<19, 3>>, kind |-> "chacha", key |-> 32, iv |-> 12, tag |-> 16, hash |-> "sha256", hlen |-> 32, snalg |-> "chacha20"]
>>

HashLen(h) == IF h = "sha384" THEN 48 ELSE IF h = "sha1" THEN 20 ELSE 32

\* RFC 5246 6.3: key_block is partitioned in this order
\* client_write_MAC_key, server_write_MAC_key, client_write_key, server_write_key,
\* client_write_IV, server_write_IV.  Ranges are [from, to) byte offsets.
KeyBlock(m, k, i) ==
  LET o1 == m  o2 == 2 * m  o3 == o2 + k  o4 == o3 + k  o5 == o4 + i  o6 == o5 + i IN
  IF Broken = "keyblock_swapped"
  THEN [client_mac |-> << 0, o1 >>, server_mac |-> << o1, o2 >>, server_key |-> << o2, o3 >>,
        client_key |-> << o3, o4 >>, client_iv |-> << o4, o5 >>, server_iv |-> << o5, o6 >>, total |-> o6]
  ELSE [client_mac |-> << 0, o1 >>, server_mac |-> << o1, o2 >>, client_key |-> << o2, o3 >>,
        server_key |-> << o3, o4 >>, client_iv |-> << o4, o5 >>, server_iv |-> << o5, o6 >>, total |-> o6]

KeyBlockOK(kb, m, k, i) ==
  /\ kb.total = (2 * m) + (2 * k) + (2 * i)
  /\ kb.client_mac[2] = kb.server_mac[1] /\ kb.server_mac[2] = kb.client_key[1]
  /\ kb.client_key[2] = kb.server_key[1] /\ kb.server_key[2] = kb.client_iv[1]
  /\ kb.client_iv[2] = kb.server_iv[1] /\ kb.server_iv[2] = kb.total

---------------------------------------------------------------------------
(* TLS 1.2 PRF (RFC 5246 5): P_hash as a plan of HMAC invocations, and     *)
(* the seeds (label || ...)                                                *)

Num(i) == ToString(i)

\* out = HMAC(secret, concatenation of data); result = (O1 || O2 || ...)[0..n)
PHashPlan(n, hlen) ==
  LET blocks == (n + hlen - 1) \div hlen IN
  [steps |-> Cat([i \in 1..blocks |->
                   << [out |-> "A" \o Num(i), key |-> "secret",
                       data |-> << IF i = 1 THEN "seed" ELSE "A" \o Num(i - 1) >>],
                      [out |-> "O" \o Num(i), key |-> "secret",
                       data |-> << "A" \o Num(i), "seed" >>] >>]),
   result |-> [i \in 1..blocks |-> "O" \o Num(i)], take |-> n]

SeedMaster(cr, sr)      == L_master \o cr \o sr                 \* RFC 5246 8.1
SeedEMS(sessionHash)    == L_ems \o sessionHash                 \* RFC 7627 4
SeedKeyExpansion(cr, sr) == L_keyexp \o sr \o cr                \* RFC 5246 6.3 (server first)
SeedFinished(client, hsHash) == (IF client THEN L_cfin ELSE L_sfin) \o hsHash   \* RFC 5246 7.4.9
\* RFC 5705 4: label || client_random || server_random [ || uint16 context length || context ]
SeedExporter(label, cr, sr, hasCtx, ctx) ==
  label \o cr \o sr \o (IF hasCtx THEN U16(Len(ctx)) \o ctx ELSE <<>>)

\* RFC 4279 2 (PSK): uint16 N, N zero octets, uint16 N, psk.  RFC 5489 2 (ECDHE_PSK):
\* uint16 len(Z), Z, uint16 len(psk), psk
PremasterPSK(psk) == U16(Len(psk)) \o Rep(0, Len(psk)) \o U16(Len(psk)) \o psk
PremasterEcdhePSK(z, psk) == U16(Len(z)) \o z \o U16(Len(psk)) \o psk

\* RFC 8422 5.4 / RFC 5246 7.4.3: signed params of ServerKeyExchange (ECDHE):
\* client_random || server_random || curve_type(3 = named_curve) || namedcurve(2) || len(1) || point
SignedKeyExchange(cr, sr, curve, pub) == cr \o sr \o << 3 >> \o U16(curve) \o << Len(pub) >> \o pub

---------------------------------------------------------------------------
(* DTLS 1.2 record protection                                              *)

\* RFC 5246 6.2.3.3 with RFC 6347 4.1.2.1: seq_num(8) = epoch || sequence_number
AAD12(epoch, seq, type, ver, plen) ==
  U16(epoch) \o Limbs(seq) \o << type >> \o ver \o
  U16(IF Broken = "aad_len_off" THEN plen + 1 ELSE plen)

\* RFC 9146 5.3: seq_num_placeholder || tls12_cid || cid_length || tls12_cid || version ||
\* epoch || sequence_number || cid || length_of_DTLSInnerPlaintext
AADCID(epoch, seq, ver, cid, innerLen) ==
  Rep(255, 8) \o << CT_cid >> \o << Len(cid) >> \o << CT_cid >> \o ver \o U16(epoch) \o
  Limbs(seq) \o cid \o U16(innerLen)

\* RFC 5288 3 / RFC 6655 3: nonce = 4-byte salt (write IV) || 8-byte explicit part carried
\* in the record.  The explicit part is the sender's choice; RFC 5288 and RFC 9325 4.4
\* recommend the 64-bit sequence number (epoch || sequence_number in DTLS).
ExplicitNonce(epoch, seq) == U16(epoch) \o Limbs(seq)
NonceExplicit(salt, explicit) == salt \o explicit

\* RFC 7905 2: the 64-bit sequence number, left-padded with zeros to 12 bytes, XOR write IV
NonceXor(iv, s64) == XorSeq(iv, Rep(0, Len(iv) - 8) \o Limbs(s64))

\* RFC 5246 6.2.3.1: MAC(MAC_write_key, seq_num || type || version || length || fragment)
MacInput12(epoch, seq, type, ver, content) ==
  U16(epoch) \o Limbs(seq) \o << type >> \o ver \o U16(Len(content)) \o content

\* RFC 9146 5.1 (MAC-then-encrypt block ciphers): the same prefix as the AEAD additional
\* data, followed by content, real type and zeros - each exactly once.
MacInputCID(epoch, seq, ver, cid, inner) ==
  AADCID(epoch, seq, ver, cid, Len(inner)) \o inner

\* RFC 5246 6.2.3.2 GenericBlockCipher: IV || ENC(content || MAC || padding || padding_length),
\* every padding byte = padding_length, total multiple of the block size (16), padding_length <= 255
CbcMinPad(n) == 15 - (n % 16)                \* n = Len(content) + mac length
CbcPadding(p) == Rep(p, p + 1)
CbcPads(n) == {p \in 0..255 : (n + p + 1) % 16 = 0}

\* protected fragment lengths (what the record header's length field says)
FragLen(s, plainLen) ==
  CASE s.kind = "gcm" \/ s.kind = "ccm" -> 8 + plainLen + s.tag
    [] s.kind = "chacha" -> plainLen + s.tag
    [] s.kind = "cbc" -> 16 + plainLen + s.mac + CbcMinPad(plainLen + s.mac) + 1

---------------------------------------------------------------------------
(* DTLS 1.3 (RFC 8446 7.1, RFC 9147 5.9, 4, 4.2.3)                         *)

\* struct { uint16 length; opaque label<6..255> = "dtls13" + Label; opaque context<0..255>; }
HkdfLabel(length, label, ctx) ==
  LET full == (IF Broken = "hkdf_prefix" THEN P_tls13 ELSE P_dtls13) \o label IN
  U16(length) \o << Len(full) >> \o full \o << Len(ctx) >> \o ctx

\* RFC 5869 2.3: T(i) = HMAC(PRK, T(i-1) || info || i); OKM = first L octets
ExpandPlan(n, hlen) ==
  LET blocks == (n + hlen - 1) \div hlen IN
  [steps |-> [i \in 1..blocks |->
                [out |-> "T" \o Num(i), key |-> "prk",
                 data |-> IF i = 1 THEN << "info", << 1 >> >>
                          ELSE << "T" \o Num(i - 1), "info", << i >> >>]],
   result |-> [i \in 1..blocks |-> "T" \o Num(i)], take |-> n]

\* RFC 8446 7.1 key schedule without PSK, as a derivation graph.
\* extract: out = HMAC(salt, ikm).  expand: out = HKDF-Expand-Label(secret, label, ctx, hashlen)
\* inputs: zeros (HashLen zero octets), hash_empty (Hash("")), ecdhe, th_sh (transcript hash
\* ClientHello..ServerHello), th_sf (..server Finished), th_cf (..client Finished)
KeySchedule == <<
 [out |-> "early",     op |-> "extract", salt |-> "zeros", ikm |-> "zeros"],
 [out |-> "derived_e", op |-> "expand", secret |-> "early", label |-> L_derived, ctx |-> "hash_empty"],
 [out |-> "handshake", op |-> "extract", salt |-> "derived_e", ikm |-> "ecdhe"],
 [out |-> "c_hs",      op |-> "expand", secret |-> "handshake", label |-> L_chs, ctx |-> "th_sh"],
 [out |-> "s_hs",      op |-> "expand", secret |-> "handshake", label |-> L_shs, ctx |-> "th_sh"],
 [out |-> "derived_h", op |-> "expand", secret |-> "handshake", label |-> L_derived, ctx |-> "hash_empty"],
 [out |-> "master",    op |-> "extract", salt |-> "derived_h", ikm |-> "zeros"],
 [out |-> "c_ap",      op |-> "expand", secret |-> "master", label |-> L_cap, ctx |-> "th_sf"],
 [out |-> "s_ap",      op |-> "expand", secret |-> "master", label |-> L_sap, ctx |-> "th_sf"],
 [out |-> "exp_master", op |-> "expand", secret |-> "master", label |-> L_exp, ctx |-> "th_sf"],
 [out |-> "res_master", op |-> "expand", secret |-> "master", label |-> L_res, ctx |-> "th_cf"],
 \* RFC 8446 4.4.4: finished_key = HKDF-Expand-Label(BaseKey, "finished", "", Hash.length)
 [out |-> "s_finished_key", op |-> "expand", secret |-> "s_hs", label |-> L_finished, ctx |-> "empty"],
 [out |-> "c_finished_key", op |-> "expand", secret |-> "c_hs", label |-> L_finished, ctx |-> "empty"],
 \* RFC 8446 7.2: application_traffic_secret_N+1
 [out |-> "c_ap_next", op |-> "expand", secret |-> "c_ap", label |-> L_upd, ctx |-> "empty"],
 [out |-> "s_ap_next", op |-> "expand", secret |-> "s_ap", label |-> L_upd, ctx |-> "empty"]
>>
\* per traffic secret (RFC 8446 7.3, RFC 9147 4.2.3): key, iv (12), sn key
TrafficKeys == << [out |-> "key", label |-> L_key, len |-> "keylen"],
                  [out |-> "iv", label |-> L_iv, len |-> "ivlen"],
                  [out |-> "sn", label |-> L_sn, len |-> "keylen"] >>
\* RFC 8446 7.5: exporter(label, context, L) =
\*   HKDF-Expand-Label(Derive-Secret(exp_master, label, ""), "exporter", Hash(context), L)
Exporter13 == << [out |-> "exp_label", op |-> "expand", secret |-> "exp_master", label |-> "LABEL", ctx |-> "hash_empty"],
                 [out |-> "exported", op |-> "expand_len", secret |-> "exp_label", label |-> L_exporter13, ctx |-> "hash_context"] >>

\* RFC 8446 4.4.3: 64 x 0x20 || context string || 0x00 || transcript hash
CertVerifyInput(client, th) == Rep(32, 64) \o (IF client THEN CV_client ELSE CV_server) \o << 0 >> \o th

\* RFC 9147 4: additional data = the record header as sent, before record-number
\* encryption; nonce (RFC 8446 5.3) = write_iv XOR left-padded 64-bit record sequence number
AAD13(u) == EncUHdr(u)
Nonce13(iv, seq64) == NonceXor(iv, seq64)

\* RFC 9147 4.2.3: the mask is generated from the first 16 bytes of the ciphertext
\* (AES-ECB(sn_key, sample) or ChaCha20(sn_key, counter = sample[0..3], nonce = sample[4..15]));
\* the leading mask bytes are XORed onto the 1 or 2 sequence-number bytes of the header.
SnSample(ciphertext) == Take(ciphertext, 16)
ApplySnMask(hdrBytes, cidLen, sbit, mask) ==
  LET p == 2 + cidLen IN      \* position of the first sequence-number byte
  [i \in 1..Len(hdrBytes) |->
     IF i = p THEN hdrBytes[i] ^^ mask[1]
     ELSE IF sbit /\ i = p + 1 THEN hdrBytes[i] ^^ mask[2]
     ELSE hdrBytes[i]]

===========================================================================
