-------------------------------- MODULE Auth --------------------------------
(* C03 - peer authentication.  One HONEST endpoint (role Honest) completes a handshake with a ROGUE peer
   that is cryptographically competent (it performs the key exchange itself and computes a Finished that
   is consistent with everything it really sent) but lacks the credential the honest policy requires, or
   omits / substitutes / corrupts exactly one authentication message.

   Credentials and proofs are symbolic facts about what the rogue sends:
     cert      "chain" | "empty" (Certificate message with an empty list) | "none" (no Certificate message)
     chainOK   the presented chain validates against the honest side's roots, name and time
     proof     "valid" | "invalid" | "none"   - ServerKeyExchange signature (DTLS 1.2 server), CertificateVerify
               (client, DTLS 1.3 server): valid = made with the private key of the PRESENTED leaf over this handshake
     psk       the rogue knows the pre-shared key
   The honest endpoint's decision procedure follows the code, message by message:
     DTLS 1.2 client  flight3Parse (Certificate mandatory for certificate suites), flight5Generate /
                      initializeCipherSuite (VerifyKeySignature, then VerifyServerCert unless InsecureSkipVerify)
     DTLS 1.2 server  flight4Parse (CertificateVerify needs a certificate and is checked against the leaf; chain checked
                      for VerifyClientCertIfGiven and above; a certificate without CertificateVerify keeps it waiting;
                      ClientAuth switch at the end)
     DTLS 1.3         protected_flight.go: Certificate / CertificateVerify / Finished in order; whether a SERVER flight
                      without any Certificate is refused is the constant Client13RequiresServerCert (pinned tree: FALSE -
                      the client completed against an unauthenticated server; the "fix:" commit makes it TRUE)
     PSK suites       keys derive from the PSK: a Finished made without it cannot be read *)
EXTENDS Integers, Sequences, FiniteSets, TLC, Json

CONSTANTS Ver,          \* 12 | 13
          Honest,       \* "c" | "s"   role of the honest endpoint
          AuthType,     \* "cert" | "psk"
          VerifyChain,  \* honest client: chain / name / validity are checked (no InsecureSkipVerify)
          Policy,       \* honest server: 0 NoClientCert, 1 RequestClientCert, 2 RequireAnyClientCert,
                        \*                3 VerifyClientCertIfGiven, 4 RequireAndVerifyClientCert
          Client13RequiresServerCert,
          Gen

\* noPSK: the rogue names an identity the honest side has no key for (its callback answers with an EMPTY key and no error)
\* and keys its Finished with the empty key
Creds == IF AuthType = "psk" THEN {"goodPSK", "wrongPSK", "noPSK"}
         ELSE {"good", "otherCA", "expired", "chainAkeyB"}
              \cup (IF Honest = "s" THEN {"none"} ELSE {"wrongName"})   \* a client certificate carries no name to check
Devs  == IF AuthType = "psk" THEN {"none"}
         ELSE {"none", "omitCert", "emptyCert", "omitProof", "corruptProof", "omitCertAndProof",
               "forgedProof",     \* a proof NOT made with the leaf's private key that exploits a scheme / key-type confusion
               "mixedChain"}      \* own certificate first (its key signs), the victim's valid chain appended behind it

VARIABLES cred, dev,      \* what the rogue is and does (chosen once)
          stage,          \* "start" | "cert" | "proof" | "fin" | "done"
          seenCert,       \* "none" | "empty" | "chain"
          verified,       \* honest server: chain verification succeeded (PeerCertificatesVerified)
          proofOK,        \* a proof of possession was checked and found valid
          alive, est, hist
vars == <<cred, dev, stage, seenCert, verified, proofOK, alive, est, hist>>
viewv == <<cred, dev, stage, seenCert, verified, proofOK, alive, est>>

(* what the rogue puts on the wire *)
SendsCertMsg == cred # "none" /\ dev \notin {"omitCert", "omitCertAndProof"}
CertContent  == IF ~SendsCertMsg THEN "none" ELSE IF dev = "emptyCert" THEN "empty" ELSE "chain"
\* a DTLS 1.2 client that was not asked for a certificate (Policy 0) sends none; an honest-looking client without
\* a certificate answers a request with an empty Certificate message
ClientSendsAnything == Honest = "s" => Policy # 0
SendsProof == cred # "none" /\ dev \notin {"omitProof", "omitCertAndProof"}
\* chain, name and validity all fine - judged on the FIRST certificate, the one whose key must sign
ChainOK == cred \in {"good", "chainAkeyB"} /\ dev # "mixedChain"
\* mixedChain: the rogue signs with the key of the first certificate, which is its own (the proof is valid for THAT leaf)
ProofValid == /\ SendsProof /\ dev \notin {"corruptProof", "forgedProof"} /\ CertContent = "chain"
              /\ (cred # "chainAkeyB" \/ dev = "mixedChain")
KnowsPSK == cred = "goodPSK"

Init ==
  /\ cred \in Creds /\ dev \in Devs
  /\ stage = "start" /\ seenCert = "none" /\ verified = FALSE /\ proofOK = FALSE
  /\ alive = TRUE /\ est = FALSE /\ hist = <<>>

Fail == alive' = FALSE /\ stage' = "done" /\ UNCHANGED <<cred, dev, seenCert, verified, proofOK, est>>

-----------------------------------------------------------------------------
(* PSK suites: the rogue's Finished is readable iff it knows the key *)
PskStep ==
  /\ AuthType = "psk" /\ stage = "start" /\ alive
  /\ IF KnowsPSK THEN /\ est' = TRUE /\ stage' = "done" /\ UNCHANGED <<cred, dev, seenCert, verified, proofOK, alive>>
     ELSE Fail

(* Certificate message *)
CertStep ==
  /\ AuthType = "cert" /\ stage = "start" /\ alive
  /\ LET c == IF ClientSendsAnything THEN CertContent ELSE "none" IN
     IF Honest = "c" /\ Ver = 12 /\ c # "chain"
     THEN Fail                                                 \* flight3Parse: NoCertificate / empty chain is refused
     ELSE IF Honest = "c" /\ Ver = 13 /\ c = "empty"
     THEN Fail                                                 \* processCertificate: ErrInvalidCertificate
     ELSE /\ seenCert' = c /\ stage' = "proof"
          /\ UNCHANGED <<cred, dev, verified, proofOK, alive, est>>

(* proof of possession (ServerKeyExchange signature / CertificateVerify) and chain verification *)
ProofStep ==
  /\ AuthType = "cert" /\ stage = "proof" /\ alive
  /\ LET sends == ClientSendsAnything /\ SendsProof IN
     IF Honest = "c" /\ Ver = 12
     THEN \* initializeCipherSuite: the signature is always there (part of ServerKeyExchange); omitted = empty = invalid
          IF ProofValid /\ (VerifyChain => ChainOK)
          THEN /\ proofOK' = TRUE /\ verified' = VerifyChain /\ stage' = "fin" /\ UNCHANGED <<cred, dev, seenCert, alive, est>>
          ELSE Fail
     ELSE IF sends
     THEN IF seenCert # "chain" THEN Fail                      \* CertificateVerify without certificate
          ELSE IF ~ProofValid THEN Fail
          ELSE IF (Honest = "c" /\ VerifyChain /\ ~ChainOK) \/ (Honest = "s" /\ Policy >= 3 /\ ~ChainOK) THEN Fail
          ELSE /\ proofOK' = TRUE
               /\ verified' = IF Honest = "c" THEN VerifyChain ELSE Policy >= 3
               /\ stage' = "fin" /\ UNCHANGED <<cred, dev, seenCert, alive, est>>
     ELSE \* no proof message
          IF seenCert = "chain" THEN Fail                      \* 1.2 server keeps waiting for CertificateVerify forever; 1.3: not verified
          ELSE /\ stage' = "fin" /\ UNCHANGED <<cred, dev, seenCert, verified, proofOK, alive, est>>

(* Finished: the rogue's Finished is consistent with what it sent; the policy switch decides *)
FinStep ==
  /\ AuthType = "cert" /\ stage = "fin" /\ alive
  /\ LET ok ==
       IF Honest = "c"
       THEN IF Ver = 12 THEN proofOK
            ELSE (seenCert = "chain" /\ proofOK) \/ (seenCert = "none" /\ ~Client13RequiresServerCert)
       ELSE CASE Policy \in {0, 1} -> TRUE
              [] Policy = 2 -> seenCert = "chain"
              [] Policy = 3 -> seenCert = "chain" => verified
              [] Policy = 4 -> seenCert = "chain" /\ verified
     IN IF ok THEN /\ est' = TRUE /\ stage' = "done" /\ UNCHANGED <<cred, dev, seenCert, verified, proofOK, alive>>
        ELSE Fail

Log(a) == hist' = Append(hist, a)
Next == \/ PskStep /\ Log("psk")
        \/ CertStep /\ Log("cert")
        \/ ProofStep /\ Log("proof")
        \/ FinStep /\ Log("fin")
Spec == Init /\ [][Next]_vars

-----------------------------------------------------------------------------
(* what the honest side's policy REQUIRES the peer to have proved (the property, stated independently of the steps above) *)
Presented == ClientSendsAnything /\ CertContent = "chain"
Possession == Presented /\ ProofValid /\ ClientSendsAnything
Required ==
  IF AuthType = "psk" THEN KnowsPSK
  ELSE IF Honest = "c" THEN Possession /\ (VerifyChain => ChainOK)
  ELSE CASE Policy \in {0, 1} -> TRUE
         [] Policy = 2 -> Possession
         [] Policy = 3 -> Presented => (Possession /\ ChainOK)
         [] Policy = 4 -> Possession /\ ChainOK

AuthBeforeEstablished == est => Required
\* non-vacuity: the honest-looking peer is accepted
ControlAccepted == (stage = "done" /\ dev = "none" /\ cred \in {"good", "goodPSK"}) => est

EmitEdge == (Gen /\ stage' = "done") =>
  PrintT(ToJson([ver |-> Ver, honest |-> Honest, auth |-> AuthType, verifyChain |-> VerifyChain, policy |-> Policy,
                 cred |-> cred, dev |-> dev, accept |-> est', required |-> Required, steps |-> hist']))
=============================================================================
