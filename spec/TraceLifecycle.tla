--------------------------- MODULE TraceLifecycle ---------------------------
(* Trace specification: the lifecycle projection of Lifecycle.tla run over the events recorded from
   free-running executions of real endpoints (harness/root/c16_test.go, TestVerifC16Stress).
   One JSON line per event, several executions concatenated, each closed by an "end" line:
     {"ev":"flag","side":s,"byUser":b,"isClosed":b,"est":b}   critical section of Conn.close (emitted under closeLock)
     {"ev":"alertout","side":s,"cn":b}                        an alert is written (cn: it is close_notify)
     {"ev":"alertin","side":s}                                an alert was received
     {"ev":"closeret","side":s}                               Conn.Close returned
     {"ev":"read","side":s,"rid":r,"kind":k}                  a Read of application goroutine r returned data/eof/deadline/err/empty
     {"ev":"end","leaked":n}                                  both endpoints closed; n goroutines with library frames are left
   Variables of the projection (same meaning as in Lifecycle.tla): closed (per side, monotone), cnSent (per side),
   alertSeen (per side), openClose (the application closed an established, still-open session and close_notify is owed).
   The whole trace must be consumed (POSTCONDITION Accepted); the depth reached names the event that is not allowed. *)
EXTENDS Integers, Sequences, TLC, Json, FiniteSets

CONSTANT Strict_NoDataAfterEOF   \* aspect outside the property text: a reader that got EOF never gets data afterwards

Trace == ndJsonDeserialize("trace.ndjson")

VARIABLES l, closed, cnSent, alertSeen, owes, eof
vars == <<l, closed, cnSent, alertSeen, owes, eof>>

Init == l = 1 /\ closed = {} /\ cnSent = {} /\ alertSeen = {} /\ owes = {} /\ eof = {}

Ev == Trace[l]
Is(k) == l <= Len(Trace) /\ Ev.ev = k

\* CloseIdempotent / ClosedMonotone: exactly the first critical section of a side finds the connection open
Flag ==
  /\ Is("flag")
  /\ Ev.isClosed = (Ev.side \in closed)
  /\ closed' = closed \cup {Ev.side}
  /\ owes' = IF Ev.byUser /\ ~Ev.isClosed /\ Ev.est /\ Ev.side \notin alertSeen /\ Ev.side \notin cnSent
             THEN owes \cup {Ev.side} ELSE owes
  /\ UNCHANGED <<cnSent, alertSeen, eof>>

\* CloseNotifyAtMostOnce
AlertOut ==
  /\ Is("alertout")
  /\ IF Ev.cn THEN /\ Ev.side \notin cnSent
                   /\ cnSent' = cnSent \cup {Ev.side}
                   /\ owes' = owes \ {Ev.side}
              ELSE UNCHANGED <<cnSent, owes>>
  /\ UNCHANGED <<closed, alertSeen, eof>>

AlertIn ==
  /\ Is("alertin")
  /\ alertSeen' = alertSeen \cup {Ev.side}
  /\ UNCHANGED <<closed, cnSent, owes, eof>>

\* a Close that returned has closed the connection
CloseRet ==
  /\ Is("closeret")
  /\ Ev.side \in closed
  /\ UNCHANGED <<closed, cnSent, alertSeen, owes, eof>>

\* BlockedCallsGetClosedOrEOF: Read never returns (0, nil); optional aspect: no data after EOF for one application goroutine
Read ==
  /\ Is("read")
  /\ Ev.kind # "empty"
  /\ (Strict_NoDataAfterEOF /\ Ev.kind = "data") => <<Ev.side, Ev.rid>> \notin eof
  /\ eof' = IF Ev.kind = "eof" THEN eof \cup {<<Ev.side, Ev.rid>>} ELSE eof
  /\ UNCHANGED <<closed, cnSent, alertSeen, owes>>

\* NoGoroutineLeft and CloseNotifySentWhenOpen at the end of an execution; then the next execution starts
End ==
  /\ Is("end")
  /\ Ev.leaked = 0
  /\ owes = {}
  /\ closed' = {} /\ cnSent' = {} /\ alertSeen' = {} /\ owes' = {} /\ eof' = {}

Next == (Flag \/ AlertOut \/ AlertIn \/ CloseRet \/ Read \/ End) /\ l' = l + 1
Spec == Init /\ [][Next]_vars

CloseNotifyAtMostOnce == \A s \in cnSent : TRUE   \* enforced by the guard of AlertOut (a second close_notify cannot be consumed)
Accepted == TLCGet("stats").diameter - 1 = Len(Trace)
=============================================================================
