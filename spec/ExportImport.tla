---------------------------- MODULE ExportImport ----------------------------
(* C19 - export / import of an established DTLS 1.2 session (state.go generateState /
   serialize / deserialize / generateInternalState, resume.go resumeWithConfig, conn.go
   prepareHandshakeStart12 with a ResumeState).

   Two endpoints c and s of ONE established session.  Per direction: the sender's next
   sequence number of the sending epoch (the handshake used number 0 for Finished), the
   session keys (a term: "K" for the negotiated ones), the negotiated parameters (a term
   "P": suite, connection IDs, SRTP profile and MKI, ALPN protocol, PSK identity hint,
   session id, peer certificates), and the receiver's anti-replay window.

   Export(e)  = ConnectionState() + MarshalBinary at a quiescent point of e's connection
                (between two records).  Appendix B 21: ONLY the counter of the sending epoch
                travels; the replay window does not.  The exporting connection is gone
                afterwards (a crash / hand-over): it writes nothing more.  StaleImport = TRUE
                lifts that assumption (the old connection keeps writing): numbers are then
                reused - which is why the assumption is part of the property's reading.
   Import(e, cls) = UnmarshalBinary + ResumeWithOptions on e's address, replacing e's
                connection.  cls = "none": the pristine bytes.  Otherwise the bytes were
                corrupted:
                  "malformed" - truncation / gob framing destroyed: rejected with an error;
                  "key"       - a field the record keys depend on (master secret, randoms,
                                suite, role, epochs, connection IDs in use) is altered: the
                                import succeeds but the connection cannot authenticate;
                  "seq"       - the sequence number field is altered;
                  "param"     - a field that is only reported (ALPN, SRTP, certificates,
                                hint, session id) is altered.
                The serialised form carries NO integrity check (BlobIntegrity = FALSE is the
                code): "seq" and "param" corruptions yield a working connection.
   The imported connection starts in Finished (Flight 5 client / Flight 6 server), with an
   EMPTY replay window: records the old connection had accepted are accepted again
   (ReplayAcrossImport, a documented consequence; NoReplayAcrossImport fails on purpose).

   ImportKeepsCounter = FALSE is the deliberately broken import that restarts at 0. *)
EXTENDS Integers, Sequences, FiniteSets, TLC, Json

CONSTANTS MaxWrites,          \* records each side writes in a behaviour
          MaxExports,         \* export/import round trips in a behaviour (both sides together)
          MaxCorrupt,         \* corrupted import attempts
          MaxReplay,          \* re-deliveries of a record that was delivered before
          W,                  \* anti-replay window (larger than the number of records: nothing ages out)
          ImportKeepsCounter, ImportKeepsKeys, ImportKeepsParams,
          StaleImport, BlobIntegrity,
          CorruptClasses,
          Gen

E == {"c", "s"}
Peer(e) == IF e = "c" THEN "s" ELSE "c"
None == "-"
EmptyWin == [latest |-> -1, seen |-> {}]

VARIABLES seq,        \* e -> next sequence number of the sending epoch
          keys,       \* e -> key term of e's connection
          params,     \* e -> negotiated-parameter term reported by e's connection
          inc,        \* e -> incarnation (imports so far)
          down,       \* e -> the connection was exported and nothing has been imported yet
          blob,       \* e -> exported state or NoBlob
          win,        \* e -> replay window for records of the peer
          sent,       \* e -> sequence of [seq, keys, inc, id] in emission order
          flight,     \* set of records in flight [from, seq, keys, inc, id]
          got,        \* e -> sequence of ids delivered to e's application
          writes, exports, corrupts, replays,
          rejected,   \* corrupted imports that were refused with an error
          tainted,    \* e -> the connection came from corrupted bytes: class or None
          lastAct,    \* what the last step did (for the action-level formulas)
          hist

NoBlob == [seq |-> -1, keys |-> None, params |-> None]
vars == <<seq, keys, params, inc, down, blob, win, sent, flight, got, writes, exports, corrupts, replays,
          rejected, tainted, lastAct, hist>>
view == <<seq, keys, params, inc, down, blob, win, sent, flight, got, writes, exports, corrupts, replays,
          rejected, tainted>>

Init ==
  /\ seq = [e \in E |-> 1]
  /\ keys = [e \in E |-> "K"] /\ params = [e \in E |-> "P"]
  /\ inc = [e \in E |-> 0] /\ down = [e \in E |-> FALSE]
  /\ blob = [e \in E |-> NoBlob]
  /\ win = [e \in E |-> [latest |-> 0, seen |-> {0}]]      \* the peer's Finished carried number 0
  /\ sent = [e \in E |-> <<>>] /\ flight = {}
  /\ got = [e \in E |-> <<>>]
  /\ writes = [e \in E |-> 0] /\ exports = 0 /\ corrupts = 0 /\ replays = 0 /\ rejected = 0
  /\ tainted = [e \in E |-> None]
  /\ lastAct = [act |-> "init", e |-> None, ok |-> TRUE]
  /\ hist = <<>>

Fresh(w, n) == (n <= w.latest => w.latest - n < W) /\ n \notin w.seen
Commit(w, n) == [latest |-> IF n > w.latest THEN n ELSE w.latest, seen |-> w.seen \cup {n}]

\* conn.Write: allocate the next number, protect, emit
Write(e) ==
  /\ writes[e] < MaxWrites
  /\ (down[e] => StaleImport)
  /\ LET r == [from |-> e, seq |-> seq[e], keys |-> keys[e], inc |-> inc[e], id |-> writes[e] + 1] IN
     /\ sent' = [sent EXCEPT ![e] = Append(@, r)]
     /\ flight' = flight \cup {r}
  /\ seq' = [seq EXCEPT ![e] = @ + 1]
  /\ writes' = [writes EXCEPT ![e] = @ + 1]
  /\ lastAct' = [act |-> "write", e |-> e, ok |-> TRUE]
  /\ UNCHANGED <<keys, params, inc, down, blob, win, got, exports, corrupts, replays, rejected, tainted>>

\* the receive pipeline of the peer: replay check, authenticate, deliver, commit
Receive(r, isReplay) ==
  LET p == Peer(r.from) IN
  /\ ~down[p]                                   \* a datagram for an endpoint that is gone is lost (Lose below)
  /\ IF r.keys = keys[p] /\ Fresh(win[p], r.seq)
     THEN /\ got' = [got EXCEPT ![p] = Append(@, r.id)]
          /\ win' = [win EXCEPT ![p] = Commit(@, r.seq)]
          /\ lastAct' = [act |-> IF isReplay THEN "replay" ELSE "deliver", e |-> p, ok |-> TRUE]
     ELSE /\ UNCHANGED <<got, win>>
          /\ lastAct' = [act |-> IF isReplay THEN "replay" ELSE "deliver", e |-> p, ok |-> FALSE]
  /\ UNCHANGED <<seq, keys, params, inc, down, blob, sent, writes, exports, corrupts, rejected, tainted>>

Deliver(r) == r \in flight /\ flight' = flight \ {r} /\ Receive(r, FALSE) /\ UNCHANGED replays
Replay(r) ==
  /\ replays < MaxReplay /\ r \notin flight
  /\ \E i \in 1..Len(sent[r.from]) : sent[r.from][i] = r
  /\ replays' = replays + 1 /\ UNCHANGED flight /\ Receive(r, TRUE)
Lose(r) ==
  /\ r \in flight /\ down[Peer(r.from)]
  /\ flight' = flight \ {r}
  /\ lastAct' = [act |-> "lose", e |-> Peer(r.from), ok |-> TRUE]
  /\ UNCHANGED <<seq, keys, params, inc, down, blob, win, sent, got, writes, exports, corrupts, replays,
                 rejected, tainted>>

\* ConnectionState() + MarshalBinary: the counter of the sending epoch, keys and parameters; no window
Export(e) ==
  /\ exports < MaxExports /\ ~down[e] /\ tainted[e] = None
  /\ exports' = exports + 1
  /\ blob' = [blob EXCEPT ![e] = [seq |-> seq[e], keys |-> keys[e], params |-> params[e]]]
  /\ down' = [down EXCEPT ![e] = TRUE]
  /\ lastAct' = [act |-> "export", e |-> e, ok |-> TRUE]
  /\ UNCHANGED <<seq, keys, params, inc, win, sent, flight, got, writes, corrupts, replays, rejected, tainted>>

\* UnmarshalBinary + ResumeWithOptions
Import(e, cls) ==
  /\ down[e] /\ blob[e] # NoBlob
  /\ (cls # "none" => (cls \in CorruptClasses /\ corrupts < MaxCorrupt))
  /\ corrupts' = IF cls = "none" THEN corrupts ELSE corrupts + 1
  /\ IF cls = "malformed" \/ (BlobIntegrity /\ cls # "none")
     THEN \* refused with an error: nothing changes, the pristine bytes can still be imported
          /\ rejected' = rejected + 1
          /\ lastAct' = [act |-> "import", e |-> e, ok |-> FALSE]
          /\ UNCHANGED <<seq, keys, params, inc, down, blob, win, tainted>>
     ELSE /\ seq' = [seq EXCEPT ![e] = CASE cls = "seq" -> 1
                                          [] ~ImportKeepsCounter -> 0
                                          [] OTHER -> blob[e].seq]
          /\ keys' = [keys EXCEPT ![e] = IF cls = "key" \/ ~ImportKeepsKeys THEN "Kbad" \o e ELSE blob[e].keys]
          /\ params' = [params EXCEPT ![e] = IF cls = "param" \/ ~ImportKeepsParams THEN "Pbad" ELSE blob[e].params]
          /\ inc' = [inc EXCEPT ![e] = @ + 1]
          /\ down' = [down EXCEPT ![e] = FALSE]
          /\ blob' = [blob EXCEPT ![e] = NoBlob]
          /\ win' = [win EXCEPT ![e] = EmptyWin]
          /\ tainted' = [tainted EXCEPT ![e] = IF cls = "none" THEN None ELSE cls]
          /\ rejected' = rejected
          /\ lastAct' = [act |-> "import", e |-> e, ok |-> TRUE]
  /\ UNCHANGED <<sent, flight, got, writes, exports, replays>>

Post == [seq |-> seq', inc |-> inc', down |-> down', ngot |-> [e \in E |-> Len(got'[e])], ok |-> lastAct'.ok]
Log(a, e, x) == hist' = Append(hist, [act |-> a, e |-> e, arg |-> x, post |-> Post])

Next ==
  \/ \E e \in E : Write(e) /\ Log("Write", e, <<writes[e] + 1>>)
  \/ \E r \in flight : Deliver(r) /\ Log("Deliver", r.from, <<r.id>>)
  \/ \E r \in flight : Lose(r) /\ Log("Lose", r.from, <<r.id>>)
  \/ \E e \in E : \E i \in 1..Len(sent[e]) : Replay(sent[e][i]) /\ Log("Replay", e, <<sent[e][i].id>>)
  \/ \E e \in E : Export(e) /\ Log("Export", e, <<>>)
  \/ \E e \in E, cls \in {"none"} \cup CorruptClasses : Import(e, cls) /\ Log("Import", e, <<cls>>)

Spec == Init /\ [][Next]_vars

-----------------------------------------------------------------------------
(* C19 formulas *)

\* no record number is reused under the same keys by a side, and numbers keep increasing in emission order
ImportContinues ==
  \A e \in E : tainted[e] = None =>
     \A i, j \in 1..Len(sent[e]) : (i < j /\ sent[e][i].keys = sent[e][j].keys) => sent[e][i].seq < sent[e][j].seq

\* a connection imported from the pristine bytes is the same session: keys (hence exporter output) and
\* negotiated parameters are those of the original
SameSession == \A e \in E : (tainted[e] = None) => (keys[e] = "K" /\ params[e] = "P")

\* traffic continues in both directions with the untouched peer: a record written under the session keys that
\* reaches a live endpoint holding the session keys for the first time is delivered to its application
TrafficContinues ==
  [][\A r \in flight : (Deliver(r) /\ r.keys = "K" /\ keys[Peer(r.from)] = "K" /\ tainted[r.from] = None
                          /\ r.id \notin {got[Peer(r.from)][i] : i \in 1..Len(got[Peer(r.from)])})
        => got'[Peer(r.from)] = Append(got[Peer(r.from)], r.id)]_vars

\* corrupted bytes: refused, or - when a key-relevant field was hit - a connection that authenticates nothing
CorruptKeyFieldsNeverAuthenticate ==
  /\ \A e \in E : tainted[e] = "key" => keys[e] # "K"
  /\ [][\A r \in flight : (Deliver(r) /\ (tainted[r.from] = "key" \/ tainted[Peer(r.from)] = "key")
                             /\ r.inc = inc[r.from]) => got' = got]_vars
\* the literal reading of the property's second sentence; FALSE for the code because the bytes carry no integrity check
CorruptNeverAuthenticates == \A e \in E : tainted[e] # None => keys[e] # "K"

\* documented consequence of the window not being serialised (fails on purpose)
NoReplayAcrossImport == \A e \in E : \A i, j \in 1..Len(got[e]) : i < j => got[e][i] # got[e][j]

TypeOK == /\ \A e \in E : seq[e] \in 0..(2 * MaxWrites + 4) /\ inc[e] \in 0..(MaxExports + MaxCorrupt)

\* script generation: one script per edge
EmitEdge == Gen => PrintT(ToJson([steps |-> hist']))
=============================================================================
