----------------------------- MODULE Negotiation -----------------------------
(* M7 - policy oracle for the negotiation of a DTLS 1.2 / 1.3 association (C11; configuration
   dimension of C01).

   This module is NOT a model of pion/dtls.  It is written from the property text and from the
   RFCs (5246 7.4.1.4 / 7.4.3, 8422 5.1, 7627, 5764 4.1, 7301 3.2, 9146 3, 8446 4.1-4.2, 9147 5)
   and says, for a pair of endpoint configurations, whether the handshake must succeed, must fail,
   or may do either, and which values every negotiated parameter may take when it succeeds.
   Preference order among acceptable values is deliberately absent: all policy lists are SETS.

   Three-valued outcome.  A dimension is
     "ok"     - a value acceptable to both policies exists and its meaning is fixed by the RFCs,
     "fail"   - no common value exists: the property demands failure on both sides with an alert,
     "either" - the RFCs / the property leave the outcome open (e.g. only one side configured SRTP
                profiles; a plain-PSK suite although the group lists are disjoint; a common
                signature scheme whose hash does not match the key's curve in TLS 1.3).
   Expected.ok = "must" iff all dimensions are ok, "mustnot" iff one of them fails, else "either".
   The driver demands nothing about success for "either" (only the membership constraints).

   Uses: (A) TLC checks the sanity theorems below over every enumerated pair;
         (B) TLC prints one expectation record per pair (all 2-way / 3-way combinations around a
             base point, and random points of the full product in simulation mode); the harness
             runs each pair on two real endpoints and the driver compares. *)
EXTENDS Integers, Sequences, FiniteSets, TLC, Json

CONSTANTS BasePoint,  \* base point of the enumeration: 1 = certificate (ECDSA) DTLS 1.2, 2 = pre-shared key suites (plain and ECDHE)
                      \* on both sides, 3 = DTLS 1.3 on both sides, 4 = certificate DTLS 1.2 with client certificate and ALPN / SRTP offered
          T,          \* enumeration: number of dimensions varied at once (1, 2 or 3); 0 = walk (simulation)
          PickLowest  \* deliberately broken oracle (vacuity guard): negotiate the LOWEST common version

-----------------------------------------------------------------------------
(* cipher suites: what the RFCs that define them say *)
Ecdsa12 == {"TLS_ECDHE_ECDSA_WITH_AES_128_GCM_SHA256", "TLS_ECDHE_ECDSA_WITH_AES_256_GCM_SHA384",
            "TLS_ECDHE_ECDSA_WITH_AES_128_CCM", "TLS_ECDHE_ECDSA_WITH_AES_128_CCM_8",
            "TLS_ECDHE_ECDSA_WITH_AES_256_CBC_SHA", "TLS_ECDHE_ECDSA_WITH_CHACHA20_POLY1305_SHA256"}
Rsa12   == {"TLS_ECDHE_RSA_WITH_AES_128_GCM_SHA256", "TLS_ECDHE_RSA_WITH_AES_256_GCM_SHA384",
            "TLS_ECDHE_RSA_WITH_AES_256_CBC_SHA", "TLS_ECDHE_RSA_WITH_CHACHA20_POLY1305_SHA256"}
PurePsk12 == {"TLS_PSK_WITH_AES_128_CCM", "TLS_PSK_WITH_AES_128_CCM_8", "TLS_PSK_WITH_AES_256_CCM_8",
              "TLS_PSK_WITH_AES_128_GCM_SHA256", "TLS_PSK_WITH_AES_128_CBC_SHA256",
              "TLS_PSK_WITH_CHACHA20_POLY1305_SHA256"}
EcdhePsk12 == {"TLS_ECDHE_PSK_WITH_AES_128_CBC_SHA256"}
Tls13   == {"TLS_AES_128_GCM_SHA256", "TLS_AES_256_GCM_SHA384", "TLS_CHACHA20_POLY1305_SHA256"}
AllSuites == Ecdsa12 \cup Rsa12 \cup PurePsk12 \cup EcdhePsk12 \cup Tls13

\* the lists the library documents as its defaults (cipher_suite.go "in order of preference"); as sets
Default12 == {"TLS_ECDHE_ECDSA_WITH_AES_128_GCM_SHA256", "TLS_ECDHE_RSA_WITH_AES_128_GCM_SHA256",
              "TLS_ECDHE_ECDSA_WITH_CHACHA20_POLY1305_SHA256", "TLS_ECDHE_RSA_WITH_CHACHA20_POLY1305_SHA256",
              "TLS_ECDHE_ECDSA_WITH_AES_256_CBC_SHA", "TLS_ECDHE_RSA_WITH_AES_256_CBC_SHA",
              "TLS_ECDHE_ECDSA_WITH_AES_256_GCM_SHA384", "TLS_ECDHE_RSA_WITH_AES_256_GCM_SHA384"}
Default13 == Tls13

SuiteVer(x)  == IF x \in Tls13 THEN 13 ELSE 12
\* who authenticates the server: "ecdsa" / "rsa" certificate key, "psk", or "cert" (TLS 1.3: any certificate)
SuiteAuth(x) == IF x \in Ecdsa12 THEN "ecdsa" ELSE IF x \in Rsa12 THEN "rsa"
                ELSE IF x \in Tls13 THEN "cert" ELSE "psk"
UsesECDHE(x) == x \notin PurePsk12

(* groups *)
X25519 == 29   P256 == 23   P384 == 24   X25519MLKEM768 == 4588
AllGroups == {X25519, P256, P384, X25519MLKEM768}
GroupsFor(v) == IF v = 12 THEN AllGroups \ {X25519MLKEM768} ELSE AllGroups   \* the hybrid group is TLS 1.3 only

(* signature schemes (RFC 8446 4.2.3 code points) *)
EcdsaP256Sha256 == 1027  EcdsaP384Sha384 == 1283  EcdsaP521Sha512 == 1539   \* 0x0403 0x0503 0x0603
RsaPkcs1Sha256 == 1025   RsaPkcs1Sha384 == 1281   RsaPkcs1Sha512 == 1537     \* 0x0401 0x0501 0x0601
RsaPssSha256 == 2052     RsaPssSha384 == 2053     RsaPssSha512 == 2054       \* 0x0804 ..
Ed25519 == 2055                                                               \* 0x0807
EcdsaSchemes == {EcdsaP256Sha256, EcdsaP384Sha384, EcdsaP521Sha512}
Pkcs1Schemes == {RsaPkcs1Sha256, RsaPkcs1Sha384, RsaPkcs1Sha512}
PssSchemes   == {RsaPssSha256, RsaPssSha384, RsaPssSha512}
AllSigs == EcdsaSchemes \cup Pkcs1Schemes \cup PssSchemes \cup {Ed25519}
\* schemes whose algorithm family can be produced with a key of that type at all
Family(key) == IF key = "ecdsa" THEN EcdsaSchemes ELSE IF key = "rsa" THEN Pkcs1Schemes \cup PssSchemes
               ELSE IF key = "ed25519" THEN {Ed25519} ELSE {}
\* which certificate keys can serve a suite of a given authentication kind: ECDHE_ECDSA suites are also the ones an
\* EdDSA certificate is used with (RFC 8422 5.10 / RFC 8446 4.2.3); ECDHE_RSA suites need an RSA key
KeyServes(cert, auth) == cert = auth \/ (cert = "ed25519" /\ auth = "ecdsa")
\* schemes that fit the lab keys (ECDSA P-256, RSA 2048) without any doubt in version v:
\*   TLS 1.2: ECDSA with any hash, RSA PKCS#1 (PSS in 1.2 is optional: RFC 8446 4.2.3) ;
\*   TLS 1.3: ecdsa_secp256r1_sha256 only for a P-256 key, RSA-PSS only (PKCS#1 is forbidden)
StrictFit(key, v) ==
  IF key = "ecdsa" THEN (IF v = 12 THEN EcdsaSchemes ELSE {EcdsaP256Sha256})
  ELSE IF key = "rsa" THEN (IF v = 12 THEN Pkcs1Schemes ELSE PssSchemes)
  ELSE IF key = "ed25519" THEN {Ed25519}
  ELSE {}
\* schemes that MAY be used: the family, minus what the version forbids outright
MayFit(key, v) == IF key = "rsa" /\ v = 13 THEN PssSchemes ELSE Family(key)

-----------------------------------------------------------------------------
(* a configuration: ver "12" | "13" | "dual"; suites/curves/sigs/srtp/alpn: sets, {} = default / absent;
   psk: BOOLEAN; cert: "none" | "ecdsa" | "rsa" | "ed25519"; ems: 0 request, 1 require, 2 disable; cid: -1 = no generator *)
Range(cfg) == IF cfg.ver = "12" THEN {12} ELSE IF cfg.ver = "13" THEN {13} ELSE {12, 13}

Listed(cfg, v)    == IF cfg.suites = {} THEN (IF v = 12 THEN Default12 ELSE Default13)
                     ELSE {x \in cfg.suites : SuiteVer(x) = v}
EffGroups(cfg, v) == (IF cfg.curves = {} THEN AllGroups ELSE cfg.curves) \cap GroupsFor(v)
EffSigs(cfg)      == IF cfg.sigs = {} THEN AllSigs ELSE cfg.sigs

\* a configuration allows version v iff v is in its range and it names a cipher suite and a group defined for v
Usable(cfg, v) == v \in Range(cfg) /\ Listed(cfg, v) # {} /\ EffGroups(cfg, v) # {}

\* the credentials a suite needs: a PSK on both sides, a certificate whose key matches on the server
CredOK(cfg, role, x) ==
  CASE SuiteAuth(x) = "psk"  -> cfg.psk
    [] SuiteAuth(x) = "cert" -> role = "c" \/ cfg.cert # "none"
    [] OTHER                 -> role = "c" \/ KeyServes(cfg.cert, SuiteAuth(x))
EffSuites(cfg, role, v) == {x \in Listed(cfg, v) : CredOK(cfg, role, x)}

\* configurations the oracle speaks about (scope of the enumeration, see docs/C11.md):
\*  - some version is usable, and every usable version has a suite the endpoint's credentials can serve (an endpoint
\*    that advertises a version it cannot serve is a misconfiguration the library detects only after the hello);
\*  - a client that has a PSK lists no DTLS 1.2 certificate suites (what such a list means is library policy, not RFC
\*    matter: a pion client with a PSK callback expects the PSK flight shape);
\*  - an endpoint with a PSK lists a PSK (or TLS 1.3) suite, one with a certificate (or without PSK) lists a non-PSK
\*    suite: the library refuses to construct anything else;
\*  - a server has some credential
ValidCfg(cfg, role) ==
  /\ \E v \in Range(cfg) : Usable(cfg, v)
  /\ \A v \in Range(cfg) : Usable(cfg, v) => EffSuites(cfg, role, v) # {}
  /\ (role = "c" /\ cfg.psk) => cfg.suites \cap (Ecdsa12 \cup Rsa12) = {} /\ (cfg.suites # {} \/ cfg.ver = "13")
  /\ cfg.psk => (\E v \in Range(cfg) : \E x \in Listed(cfg, v) : SuiteAuth(x) = "psk" \/ v = 13)
  /\ (cfg.cert # "none" \/ ~cfg.psk) => (\E v \in Range(cfg) : \E x \in Listed(cfg, v) : SuiteAuth(x) # "psk")
  /\ role = "s" => (cfg.psk \/ cfg.cert # "none")

-----------------------------------------------------------------------------
(* the dimensions *)
CommonVersions(c, s) == {v \in Range(c) \cap Range(s) : Usable(c, v) /\ Usable(s, v)}
SetMax(S) == CHOOSE v \in S : \A w \in S : w <= v
SetMin(S) == CHOOSE v \in S : \A w \in S : v <= w
Chosen(c, s) == IF PickLowest THEN SetMin(CommonVersions(c, s)) ELSE SetMax(CommonVersions(c, s))

Worst(a, b) == IF a = "fail" \/ b = "fail" THEN "fail" ELSE IF a = "either" \/ b = "either" THEN "either" ELSE "ok"

CandSuites(c, s, v) == EffSuites(c, "c", v) \cap EffSuites(s, "s", v)
CommonGroups(c, s, v) == EffGroups(c, v) \cap EffGroups(s, v)
GroupOK(c, s, v, x) ==
  IF CommonGroups(c, s, v) # {} THEN "ok"
  ELSE IF UsesECDHE(x) THEN "fail" ELSE "either"      \* RFC 8422 5.1: the group lists constrain ECC suites only

CommonSigs(c, s, v) == EffSigs(c) \cap EffSigs(s) \cap MayFit(s.cert, v)
SigOK(c, s, v, x) ==
  IF SuiteAuth(x) = "psk" THEN "ok"
  ELSE IF CommonSigs(c, s, v) = {} THEN "fail"
  ELSE IF CommonSigs(c, s, v) \cap StrictFit(s.cert, v) # {} THEN "ok" ELSE "either"

SuiteOutcome(c, s, v, x) == Worst(GroupOK(c, s, v, x), SigOK(c, s, v, x))
\* suites that can be negotiated: offered by the client, enabled on the server, of the negotiated version, served
\* by the server's key type / the PSK, and with a group and a signature scheme to go with them
SuiteAllowed(c, s, v) == {x \in CandSuites(c, s, v) : SuiteOutcome(c, s, v, x) # "fail"}
SuiteOK(c, s, v) ==
  IF SuiteAllowed(c, s, v) = {} THEN "fail"
  ELSE IF \A x \in CandSuites(c, s, v) : SuiteOutcome(c, s, v, x) = "ok" THEN "ok" ELSE "either"

\* RFC 7627 (a TLS 1.2 matter; every TLS 1.3 handshake has the property by construction)
EmsOK(c, s, v) ==
  IF v = 12 /\ ((c.ems = 1 /\ s.ems = 2) \/ (c.ems = 2 /\ s.ems = 1)) THEN "fail" ELSE "ok"
EmsView(cfg, v) == IF v # 12 THEN "any" ELSE IF cfg.ems = 1 THEN "yes" ELSE IF cfg.ems = 2 THEN "no" ELSE "any"

\* RFC 5764: a profile is selected from both lists; what an endpoint without profiles does when the peer has some is
\* its own policy
SrtpOK(c, s) ==
  IF c.srtp = {} /\ s.srtp = {} THEN "ok"
  ELSE IF c.srtp = {} \/ s.srtp = {} THEN "either"
  ELSE IF c.srtp \cap s.srtp = {} THEN "fail" ELSE "ok"
SrtpAllowed(c, s) == IF c.srtp = {} \/ s.srtp = {} THEN {0} ELSE c.srtp \cap s.srtp

\* RFC 7301 3.2: a server that has protocols and finds none in common MUST abort; without a list on either side the
\* extension plays no role and no protocol is selected
AlpnOK(c, s) == IF c.alpn # {} /\ s.alpn # {} /\ c.alpn \cap s.alpn = {} THEN "fail" ELSE "ok"
AlpnAllowed(c, s) == IF c.alpn = {} \/ s.alpn = {} THEN {""} ELSE c.alpn \cap s.alpn

\* RFC 9146 3: CIDs are used iff the client offered and the server answered, i.e. both have a generator; each side
\* receives CIDs of the length it generated (zero length = "I send CIDs but want none")
CidOutcome(c, s) == [negotiated |-> c.cid >= 0 /\ s.cid >= 0,
                     lenC |-> IF c.cid >= 0 /\ s.cid >= 0 THEN c.cid ELSE -1,
                     lenS |-> IF c.cid >= 0 /\ s.cid >= 0 THEN s.cid ELSE -1]

Dims(c, s, v) == [suite |-> SuiteOK(c, s, v), ems |-> EmsOK(c, s, v), srtp |-> SrtpOK(c, s), alpn |-> AlpnOK(c, s)]

NoSession == [ok |-> "mustnot", ver |-> 0, suites |-> {}, groups |-> {}, sigs |-> {}, emsC |-> "any", emsS |-> "any",
              srtp |-> {}, alpn |-> {}, cid |-> [negotiated |-> FALSE, lenC |-> -1, lenS |-> -1], why |-> {"version"},
              open |-> {}]

Expected(c, s) ==
  IF CommonVersions(c, s) = {} THEN NoSession
  ELSE LET v == Chosen(c, s)
           dims == Dims(c, s, v)
           failing == {d \in DOMAIN dims : dims[d] = "fail"}
           open == {d \in DOMAIN dims : dims[d] = "either"} IN
    [ok     |-> IF failing # {} THEN "mustnot" ELSE IF open # {} THEN "either" ELSE "must",
     ver    |-> v,
     suites |-> SuiteAllowed(c, s, v),
     groups |-> CommonGroups(c, s, v),
     sigs   |-> CommonSigs(c, s, v),
     emsC   |-> EmsView(c, v), emsS |-> EmsView(s, v),
     srtp   |-> SrtpAllowed(c, s),
     alpn   |-> AlpnAllowed(c, s),
     cid    |-> CidOutcome(c, s),
     why    |-> failing,
     open   |-> open]

-----------------------------------------------------------------------------
(* enumeration of configuration pairs: an assignment of one value to every dimension *)
SuiteLists ==
  << {},
     {"TLS_ECDHE_ECDSA_WITH_AES_128_GCM_SHA256"},
     {"TLS_ECDHE_ECDSA_WITH_AES_256_CBC_SHA", "TLS_ECDHE_ECDSA_WITH_AES_128_CCM"},
     {"TLS_ECDHE_RSA_WITH_AES_128_GCM_SHA256", "TLS_ECDHE_ECDSA_WITH_AES_128_GCM_SHA256"},
     {"TLS_PSK_WITH_AES_128_GCM_SHA256"},
     {"TLS_ECDHE_PSK_WITH_AES_128_CBC_SHA256", "TLS_PSK_WITH_AES_128_CCM_8"},
     {"TLS_AES_128_GCM_SHA256"},
     {"TLS_CHACHA20_POLY1305_SHA256", "TLS_AES_256_GCM_SHA384"},
     {"TLS_ECDHE_ECDSA_WITH_AES_128_GCM_SHA256", "TLS_AES_128_GCM_SHA256"},
     {"TLS_PSK_WITH_AES_128_GCM_SHA256", "TLS_ECDHE_RSA_WITH_AES_256_GCM_SHA384", "TLS_AES_256_GCM_SHA384"} >>
CurveLists == << {}, {X25519}, {P256}, {P384, P256}, {X25519MLKEM768}, {X25519MLKEM768, X25519} >>
SigLists   == << {}, {EcdsaP256Sha256}, {EcdsaP384Sha384, EcdsaP256Sha256}, {RsaPkcs1Sha256}, {RsaPssSha256},
                 {Ed25519}, {EcdsaP384Sha384}, {RsaPkcs1Sha256, EcdsaP256Sha256, RsaPssSha256} >>
SrtpLists  == << {}, {1}, {1, 2}, {7} >>
AlpnLists  == << {}, {"h2"}, {"h2", "spdy/3"}, {"http/1.1"} >>   \* registered identifiers: libraries special-case some of them
CCreds == << [psk |-> FALSE, cert |-> "none"], [psk |-> TRUE, cert |-> "none"], [psk |-> FALSE, cert |-> "ecdsa"] >>
SCreds == << [psk |-> FALSE, cert |-> "ecdsa"], [psk |-> FALSE, cert |-> "rsa"], [psk |-> TRUE, cert |-> "none"],
             [psk |-> TRUE, cert |-> "ecdsa"], [psk |-> TRUE, cert |-> "rsa"], [psk |-> FALSE, cert |-> "ed25519"] >>
Vers == << "12", "13", "dual" >>
CidsC == << -1, 0, 4 >>
CidsS == << -1, 0, 8 >>

DimNames == << "cver", "sver", "csuites", "ssuites", "ccred", "scred", "ccurves", "scurves", "csigs", "ssigs",
               "cems", "sems", "csrtp", "ssrtp", "calpn", "salpn", "ccid", "scid", "hv" >>
NDims == Len(DimNames)
DimSize == << 3, 3, Len(SuiteLists), Len(SuiteLists), Len(CCreds), Len(SCreds), Len(CurveLists), Len(CurveLists),
              Len(SigLists), Len(SigLists), 3, 3, Len(SrtpLists), Len(SrtpLists), Len(AlpnLists), Len(AlpnLists),
              3, 3, 2 >>
Base1 == [d \in 1..NDims |-> 1]      \* DTLS 1.2, default lists, certificate (ECDSA) server, EMS request, nothing optional
\* combinations that need several coordinated dimensions are out of reach of "<= 3 dimensions away from one base point":
\* further base points put the enumeration next to them
Base == CASE BasePoint = 2 -> [Base1 EXCEPT ![3] = 6, ![4] = 6, ![5] = 2, ![6] = 3]        \* PSK + ECDHE_PSK suites, PSK credentials
          [] BasePoint = 3 -> [Base1 EXCEPT ![1] = 2, ![2] = 2]                            \* DTLS 1.3 on both sides
          [] BasePoint = 4 -> [Base1 EXCEPT ![5] = 3, ![13] = 3, ![14] = 3, ![15] = 3, ![16] = 3]   \* client certificate, SRTP and ALPN lists
          [] OTHER -> Base1

CfgC(a) == [ver |-> Vers[a[1]], suites |-> SuiteLists[a[3]], psk |-> CCreds[a[5]].psk, cert |-> CCreds[a[5]].cert,
            curves |-> CurveLists[a[7]], sigs |-> SigLists[a[9]], ems |-> a[11] - 1, srtp |-> SrtpLists[a[13]],
            alpn |-> AlpnLists[a[15]], cid |-> CidsC[a[17]], hv |-> FALSE]
CfgS(a) == [ver |-> Vers[a[2]], suites |-> SuiteLists[a[4]], psk |-> SCreds[a[6]].psk, cert |-> SCreds[a[6]].cert,
            curves |-> CurveLists[a[8]], sigs |-> SigLists[a[10]], ems |-> a[12] - 1, srtp |-> SrtpLists[a[14]],
            alpn |-> AlpnLists[a[16]], cid |-> CidsS[a[18]], hv |-> a[19] = 2]

\* assignments that differ from the base point in at most one / two dimensions (constructed, not filtered)
Vary1 == {[Base EXCEPT ![d1] = v1] : d1 \in 1..NDims, v1 \in 1..10}
Vary2 == {[Base EXCEPT ![d1] = v1, ![d2] = v2] : d1 \in 1..NDims, d2 \in 1..NDims, v1 \in 1..10, v2 \in 1..10}
InDomain(x) == \A d \in 1..NDims : x[d] <= DimSize[d]

VARIABLES a,     \* the current assignment
          k,     \* walk mode: number of dimensions already drawn; enumeration mode: NDims
          c, s,  \* the two configurations of the assignment (computed once per state)
          E      \* Expected(c, s) when both are valid, else NoSession

vars == <<a, k, c, s, E>>

Valid == ValidCfg(c, "c") /\ ValidCfg(s, "s")
Derive(x) == /\ c = CfgC(x) /\ s = CfgS(x)
             /\ E = IF ValidCfg(CfgC(x), "c") /\ ValidCfg(CfgS(x), "s") THEN Expected(CfgC(x), CfgS(x)) ELSE NoSession
DeriveNext(x) == /\ c' = CfgC(x) /\ s' = CfgS(x)
                 /\ E' = IF ValidCfg(CfgC(x), "c") /\ ValidCfg(CfgS(x), "s") THEN Expected(CfgC(x), CfgS(x)) ELSE NoSession

\* enumeration mode: one initial state per assignment, nothing moves
InitEnum ==
  /\ k = NDims
  /\ a \in (IF T = 1 THEN {x \in Vary1 : InDomain(x)}
            ELSE IF T = 2 THEN {x \in Vary2 : InDomain(x)}
            ELSE {[x EXCEPT ![d3] = v3] : x \in {y \in Vary2 : InDomain(y)}, d3 \in 1..NDims, v3 \in 1..10})
  /\ InDomain(a)
  /\ Derive(a)
NextEnum == UNCHANGED vars

\* walk mode (tlc -simulate): every behaviour draws one value per dimension = a random point of the full product
InitWalk == a = Base /\ k = 0 /\ Derive(Base)
NextWalk == /\ k < NDims
            /\ \E v \in 1..DimSize[k + 1] : a' = [a EXCEPT ![k + 1] = v]
            /\ k' = k + 1
            /\ DeriveNext(a')

Init == IF T = 0 THEN InitWalk ELSE InitEnum
Next == IF T = 0 THEN NextWalk ELSE NextEnum
Spec == Init /\ [][Next]_vars

Complete == k = NDims

-----
(* (A) sanity theorems on the oracle itself, checked by TLC on every enumerated pair *)
Live == Complete /\ Valid

\* the negotiated version lies inside both ranges and no higher version is allowed by both
VersionHighestCommon ==
  (Live /\ E.ok # "mustnot") =>
     /\ E.ver \in Range(c) \cap Range(s)
     /\ \A v \in Range(c) \cap Range(s) : (Usable(c, v) /\ Usable(s, v)) => v <= E.ver
\* a suite that may be negotiated was offered by the client, is enabled on the server, belongs to the negotiated
\* version and fits the server's key type / the shared key
SuiteWithinBoth ==
  (Live /\ E.ok # "mustnot") =>
     /\ E.suites # {}
     /\ \A x \in E.suites :
          /\ x \in Listed(c, E.ver) /\ x \in Listed(s, E.ver) /\ SuiteVer(x) = E.ver
          /\ (SuiteAuth(x) \in {"ecdsa", "rsa"} => KeyServes(s.cert, SuiteAuth(x)))
          /\ (SuiteAuth(x) = "cert" => s.cert # "none")
          /\ (SuiteAuth(x) = "psk" => c.psk /\ s.psk)
GroupWithinBoth ==
  (Live /\ E.ok # "mustnot") =>
     \A g \in E.groups : g \in EffGroups(c, E.ver) /\ g \in EffGroups(s, E.ver) /\ (E.ver = 12 => g # X25519MLKEM768)
SigWithinBoth ==
  (Live /\ E.ok # "mustnot") => \A g \in E.sigs : g \in EffSigs(c) /\ g \in EffSigs(s) /\ g \in Family(s.cert)
\* "must" leaves no dimension without a common value; "mustnot" names the dimension
MustMeansAllOK ==
  Live => /\ (E.ok = "must" => E.why = {} /\ E.open = {} /\ E.suites # {} /\ E.srtp # {} /\ E.alpn # {})
          /\ (E.ok = "mustnot" <=> E.why # {})
\* a side that requires extended master secret is never satisfied by a session without it, and a require/disable
\* pair has no session at all
EmsRequireHonoured ==
  (Live /\ E.ver = 12) =>
     /\ (c.ems = 1 => E.emsC = "yes") /\ (s.ems = 1 => E.emsS = "yes")
     /\ ((c.ems = 1 /\ s.ems = 2) => E.ok = "mustnot") /\ ((s.ems = 1 /\ c.ems = 2) => E.ok = "mustnot")
\* SRTP / ALPN come from both lists; disjoint lists have no session
ListsHonoured ==
  Live => /\ (c.srtp # {} /\ s.srtp # {} /\ c.srtp \cap s.srtp = {} => E.ok = "mustnot")
          /\ (c.alpn # {} /\ s.alpn # {} /\ c.alpn \cap s.alpn = {} => E.ok = "mustnot")
          /\ (E.ok # "mustnot" => /\ \A p \in E.srtp : p = 0 \/ (p \in c.srtp /\ p \in s.srtp)
                                  /\ \A p \in E.alpn : p = "" \/ (p \in c.alpn /\ p \in s.alpn))
\* the symmetric dimensions do not depend on who is the client
Symmetric ==
  Live => /\ SrtpOK(c, s) = SrtpOK(s, c) /\ AlpnOK(c, s) = AlpnOK(s, c)
          /\ \A v \in {12, 13} : EmsOK(c, s, v) = EmsOK(s, c, v)
CidMirrors ==
  (Live /\ E.ver # 0) =>
          /\ (E.cid.negotiated <=> (c.cid >= 0 /\ s.cid >= 0))
          /\ (E.cid.negotiated => E.cid.lenC = c.cid /\ E.cid.lenS = s.cid)

-----------------------------------------------------------------------------
(* (B) one JSON expectation record per pair *)
SideJson(cfg) == [ver |-> cfg.ver, suites |-> cfg.suites, curves |-> cfg.curves, sigs |-> cfg.sigs,
                  psk |-> IF cfg.psk THEN "k1" ELSE "", cert |-> IF cfg.cert = "none" THEN "" ELSE cfg.cert,
                  ems |-> cfg.ems, srtp |-> cfg.srtp, alpn |-> cfg.alpn, cid |-> cfg.cid, hv |-> cfg.hv]
Record == [a |-> a, c |-> SideJson(c), s |-> SideJson(s), exp |-> E]
Emit == (Complete /\ Valid) => PrintT(ToJson(Record))
=============================================================================
