----------------------------- MODULE Robustness -----------------------------
(* C08 - hostile datagrams cannot crash, wedge or bloat an endpoint.
   One endpoint (role Target) runs a handshake with its genuine peer (abstract progress bar, as in
   Confidentiality.tla) while an attacker injects datagrams of the classes below at ANY point, any number
   of times (bounded by MaxHostile).  The model fixes the DISPOSITION of every class in every state, as
   the receive path of conn.go has it:

     unframeable     bytes that do not split into records (random, truncated, corrupted length field, a first
                     byte that is no record type): dropped by the unpacker              [readAndProcessDatagram]
     badtype         well-framed cleartext record of no DTLS content type: dropped      [handleIncomingPacket]
     forged          protected-looking record (current epoch, random ciphertext): before the keys exist it is
                     queued (at most QMax records, unauthenticated), afterwards it fails authentication and
                     is dropped without any effect                                       [prepareLegacyPacket]
     future          record one epoch ahead: queued up to QMax, else dropped
     replay          a record already accepted: dropped by the replay window
     cleartext       well-formed unprotected alert / handshake / CCS / ACK / application data: the code may
                     act on it (a cleartext alert or undecodable content ends the handshake or the connection
                     with at most one alert in response) - allowed, but never more than one emission
     authmalformed   correctly protected by the peer, malformed inside (established only): at most one
                     fatal alert, then the connection may close

   UnframeableStops13 = TRUE reproduces the pinned DTLS 1.3 reader (an unframeable datagram stopped the read
   loop: the handshake failed); the "fix:" commit makes it FALSE. *)
EXTENDS Integers, Sequences, FiniteSets, TLC, Json

CONSTANTS Ver, Rounds, EstAt,      \* progress value at which the target reports success
          KeysAt,                  \* progress value from which the target can authenticate protected records
          QMax,                    \* model value of the queue limit (100 in the code)
          MaxHostile,
          UnframeableStops13,
          Gen

Classes == {"unframeable", "badtype", "forged", "future", "replay", "cleartext", "authmalformed"}
MustServe == {"unframeable", "badtype", "forged", "replay", "future"}   \* the property's "dropped, keeps serving"

VARIABLES prog, alive, est, q, hostile, seen, emitted, hist
vars == <<prog, alive, est, q, hostile, seen, emitted, hist>>
viewv == <<prog, alive, est, q, hostile, seen, emitted>>

Init == prog = 0 /\ alive = TRUE /\ est = FALSE /\ q = 0 /\ hostile = 0 /\ seen = {} /\ emitted = 0 /\ hist = <<>>

\* genuine traffic: one delivery round; the queue is drained when the keys arrive
Pump ==
  /\ alive /\ prog < Rounds
  /\ prog' = prog + 1
  /\ est' = (prog + 1 >= EstAt)
  /\ q' = IF prog + 1 >= KeysAt THEN 0 ELSE q
  /\ UNCHANGED <<alive, hostile, seen, emitted>>

Drop0 == UNCHANGED <<prog, alive, est, q, emitted>>

Inject(c) ==
  /\ alive /\ hostile < MaxHostile
  /\ c = "authmalformed" => est
  /\ hostile' = hostile + 1 /\ seen' = seen \cup {c}
  /\ CASE c = "unframeable" ->
            IF Ver = 13 /\ UnframeableStops13 /\ ~est
            THEN alive' = FALSE /\ UNCHANGED <<prog, est, q, emitted>>
            ELSE Drop0
       [] c \in {"badtype", "replay"} -> Drop0
       [] c \in {"forged", "future"} ->
            IF (c = "future" \/ prog < KeysAt) /\ q < QMax
            THEN q' = q + 1 /\ UNCHANGED <<prog, alive, est, emitted>>
            ELSE Drop0
       [] c = "cleartext" ->
            \/ Drop0
            \/ alive' = FALSE /\ emitted' = emitted + 1 /\ UNCHANGED <<prog, est, q>>
            \/ alive' = FALSE /\ UNCHANGED <<prog, est, q, emitted>>
       [] c = "authmalformed" ->
            \/ Drop0
            \/ alive' = FALSE /\ emitted' = emitted + 1 /\ UNCHANGED <<prog, est, q>>

Log(a, x) == hist' = Append(hist, [op |-> a, class |-> x, at |-> prog])
Next == \/ Pump /\ Log("pump", "")
        \/ \E c \in Classes : Inject(c) /\ Log("inject", c)
Spec == Init /\ [][Next]_vars

-----------------------------------------------------------------------------
QueueBounded == q <= QMax
EmissionBounded == emitted <= hostile                     \* at most one datagram in answer to one hostile datagram
\* the classes the property says are DROPPED leave the endpoint serving
DroppedKeepsServing == (seen \subseteq MustServe) => alive
\* ... and they change nothing but the (bounded) queue
DroppedHasNoEffect ==
  [][\A c \in {"unframeable", "badtype", "replay"} : (Inject(c) /\ alive') => UNCHANGED <<prog, est, q, emitted>>]_vars
\* with only droppable input the handshake still completes
CompletesAnyway == (seen \subseteq MustServe /\ prog = Rounds) => est

EmitEdge == (Gen /\ hist' # <<>> /\ hist'[Len(hist')].op = "inject") =>
  PrintT(ToJson([ver |-> Ver, at |-> prog, class |-> hist'[Len(hist')].class, alive |-> alive', q |-> q']))
=============================================================================
