------------------------------ MODULE CodecMsg ------------------------------
(***************************************************************************)
(* M8, stages 2 and 3: handshake message bodies and extension payloads.    *)
(*                                                                         *)
(* The TLS presentation-language grammars of the RFCs are written down as  *)
(* data (a grammar is a sequence of nodes) and interpreted by ONE encoder  *)
(* and ONE parser:                                                         *)
(*   [t |-> "fix", n |-> k]            k opaque bytes                      *)
(*   [t |-> "vec", w |-> k, of |-> g]  k-byte length prefix, then that     *)
(*                                     many bytes: opaque when g = <<>>,   *)
(*                                     otherwise items of grammar g laid   *)
(*                                     end to end that exactly fill it     *)
(*   [t |-> "opt", g |-> g]            present iff bytes remain            *)
(*   [t |-> "rest"]                    everything that remains             *)
(* A value is a sequence parallel to its grammar (bytes for fix/rest/opaque*)
(* vectors, a sequence of item values for structured vectors, <<>> or      *)
(* <<v>> for opt).  Only framing is specified: enumerations, minimum       *)
(* lengths and semantic constraints are left to the library.               *)
(* Parse fails exactly when a fixed part or a declared length exceeds what *)
(* is available in the enclosing window, or items do not fill their vector:*)
(* such input is truncated w.r.t. its own declarations.                    *)
(***************************************************************************)
EXTENDS Codec

Fix(k)     == [t |-> "fix", n |-> k]
Vec(k)     == [t |-> "vec", w |-> k, of |-> <<>>]
VecOf(k, g) == [t |-> "vec", w |-> k, of |-> g]
Opt(g)     == [t |-> "opt", g |-> g]
Rest       == [t |-> "rest"]

NumW(x, w) == IF w = 1 THEN << x >> ELSE IF w = 2 THEN U16(x) ELSE U24(x)
NumAt(b, i, w) == IF w = 1 THEN b[i] ELSE IF w = 2 THEN N16(b, i) ELSE N24(b, i)

RECURSIVE EncG(_, _), EncItems(_, _)
EncG(g, val) ==
  IF g = <<>> THEN <<>>
  ELSE LET n == Head(g)  x == Head(val) IN
       (CASE n.t = "fix" -> x
          [] n.t = "rest" -> x
          [] n.t = "vec" -> LET body == IF n.of = <<>> THEN x ELSE EncItems(n.of, x)
                            IN NumW(Len(body), n.w) \o body
          [] n.t = "opt" -> IF x = <<>> THEN <<>> ELSE EncG(n.g, x[1]))
       \o EncG(Tail(g), Tail(val))
EncItems(ig, items) == IF items = <<>> THEN <<>> ELSE EncG(ig, Head(items)) \o EncItems(ig, Tail(items))

\* parse grammar g from b[pos..end]; returns the next position or -1
RECURSIVE ParseG(_, _, _, _), ParseItems(_, _, _, _)
ParseG(g, b, pos, end) ==
  IF pos < 0 THEN -1
  ELSE IF g = <<>> THEN pos
  ELSE LET n == Head(g) IN
       CASE n.t = "fix" -> IF pos + n.n - 1 <= end THEN ParseG(Tail(g), b, pos + n.n, end) ELSE -1
         [] n.t = "rest" -> end + 1
         [] n.t = "vec" ->
              IF pos + n.w - 1 > end THEN -1
              ELSE LET l == NumAt(b, pos, n.w)
                       s == pos + n.w
                       e == s + l - 1
                   IN IF e > end THEN -1
                      ELSE IF n.of = <<>> THEN ParseG(Tail(g), b, e + 1, end)
                      ELSE IF ParseItems(n.of, b, s, e) THEN ParseG(Tail(g), b, e + 1, end)
                      ELSE -1
         [] n.t = "opt" -> IF pos > end THEN pos ELSE ParseG(n.g, b, pos, end)
ParseItems(ig, b, pos, e) ==
  IF pos = e + 1 THEN TRUE
  ELSE LET p == ParseG(ig, b, pos, e) IN
       IF p < 0 \/ p <= pos THEN FALSE ELSE ParseItems(ig, b, p, e)

DecG(g, b) == LET p == ParseG(g, b, 1, Len(b)) IN
              IF p < 0 THEN Reject ELSE [ok |-> TRUE, used |-> p - 1]

---------------------------------------------------------------------------
(* Grammars *)

\* RFC 5246 7.4.1.4: struct { ExtensionType type; opaque extension_data<0..2^16-1>; }
ExtG  == << Fix(2), Vec(2) >>
Exts  == VecOf(2, ExtG)

MsgGrammar == [
  \* RFC 6347 4.2.1 / RFC 5246 7.4.1.2: version, random, session_id<0..32>, cookie<0..255>,
  \* cipher_suites<2..2^16-1>, compression_methods<1..2^8-1>, [extensions<0..2^16-1>]
  client_hello |-> << Fix(2), Fix(32), Vec(1), Vec(1), Vec(2), Vec(1), Opt(<< Exts >>) >>,
  \* RFC 5246 7.4.1.3 / RFC 8446 4.1.3
  server_hello |-> << Fix(2), Fix(32), Vec(1), Fix(2), Fix(1), Opt(<< Exts >>) >>,
  \* RFC 6347 4.2.1
  hello_verify_request |-> << Fix(2), Vec(1) >>,
  \* RFC 5246 7.4.2: ASN.1Cert certificate_list<0..2^24-1>, ASN.1Cert = opaque<1..2^24-1>
  certificate |-> << VecOf(3, << Vec(3) >>) >>,
  \* RFC 8422 5.4: curve_type, namedcurve, point<1..2^8-1>, then for the signed key exchanges
  \* SignatureAndHashAlgorithm, signature<0..2^16-1>; ECDH_anon-shaped parameters (no signature) are
  \* what ECDHE_PSK carries and the library decodes both under one key-exchange context
  ske_ecdhe |-> << Fix(1), Fix(2), Vec(1), Opt(<< Fix(2), Vec(2) >>) >>,
  \* RFC 4279 2: psk_identity_hint<0..2^16-1>
  ske_psk |-> << Vec(2) >>,
  \* RFC 5489 2: hint, then ServerECDHParams
  ske_ecdhe_psk |-> << Vec(2), Fix(1), Fix(2), Vec(1) >>,
  \* RFC 8422 5.7: ECPoint ecdh_Yc = opaque<1..2^8-1>
  cke_ecdhe |-> << Vec(1) >>,
  \* RFC 4279 2: psk_identity<0..2^16-1>
  cke_psk |-> << Vec(2) >>,
  \* RFC 5489 2: psk_identity, ClientECDiffieHellmanPublic
  cke_ecdhe_psk |-> << Vec(2), Vec(1) >>,
  \* RFC 5246 7.4.4: certificate_types<1..2^8-1>, supported_signature_algorithms<2..2^16-2>,
  \* DistinguishedName certificate_authorities<0..2^16-1>, DistinguishedName = opaque<1..2^16-1>
  certificate_request |-> << Vec(1), Vec(2), VecOf(2, << Vec(2) >>) >>,
  \* RFC 5246 7.4.8 / RFC 8446 4.4.3: algorithm, signature<0..2^16-1>
  certificate_verify |-> << Fix(2), Vec(2) >>,
  \* RFC 5246 7.4.9 / RFC 8446 4.4.4: verify_data fills the message
  finished |-> << Rest >>,
  server_hello_done |-> << >>,
  \* RFC 8446 4.6.3
  key_update |-> << Fix(1) >>,
  \* RFC 8446 4.6.1: lifetime, age_add, nonce<0..255>, ticket<1..2^16-1>, extensions<0..2^16-2>
  new_session_ticket |-> << Fix(4), Fix(4), Vec(1), Vec(2), Exts >>,
  \* RFC 8446 4.3.1
  encrypted_extensions |-> << Exts >>,
  \* RFC 8446 4.4.2: certificate_request_context<0..2^8-1>, CertificateEntry certificate_list<0..2^24-1>,
  \* CertificateEntry = cert_data<1..2^24-1>, extensions<0..2^16-1>
  certificate13 |-> << Vec(1), VecOf(3, << Vec(3), Exts >>) >>,
  \* RFC 8446 4.3.2: certificate_request_context<0..2^8-1>, extensions<2..2^16-1>
  certificate_request13 |-> << Vec(1), Exts >>
]

ExtGrammar == [
  \* RFC 8422 5.1.1 / RFC 7919: NamedGroup named_group_list<2..2^16-1>
  supported_groups |-> << Vec(2) >>,
  \* RFC 8422 5.1.2: ECPointFormat ec_point_format_list<1..2^8-1>
  ec_point_formats |-> << Vec(1) >>,
  \* RFC 5246 7.4.1.4.1 / RFC 8446 4.2.3
  signature_algorithms |-> << Vec(2) >>,
  signature_algorithms_cert |-> << Vec(2) >>,
  \* RFC 5764 4.1.1: SRTPProtectionProfiles<2..2^16-1>, srtp_mki<0..255>
  use_srtp_offer |-> << Vec(2), Vec(1) >>,
  use_srtp_selection |-> << Vec(2), Vec(1) >>,
  \* RFC 7301 3.1: ProtocolName protocol_name_list<2..2^16-1>, ProtocolName = opaque<1..2^8-1>
  alpn_offer |-> << VecOf(2, << Vec(1) >>) >>,
  alpn_selection |-> << VecOf(2, << Vec(1) >>) >>,
  \* RFC 6066 3: ServerName server_name_list<1..2^16-1>, ServerName = name_type, HostName<1..2^16-1>
  server_name_offer |-> << VecOf(2, << Fix(1), Vec(2) >>) >>,
  server_name_ack |-> << >>,
  \* RFC 7627 5.1, RFC 9853, RFC 8446 4.2.6 / 4.2.10 (ClientHello, EncryptedExtensions): empty
  extended_master_secret |-> << >>,
  rrc |-> << >>,
  post_handshake_auth |-> << >>,
  early_data |-> << >>,
  \* RFC 8446 4.2.10 in NewSessionTicket: uint32 max_early_data_size
  max_early_data |-> << Fix(4) >>,
  \* RFC 5746 3.2: renegotiated_connection<0..255>
  renegotiation_info |-> << Vec(1) >>,
  \* RFC 9146 3: opaque cid<0..2^8-1>
  connection_id |-> << Vec(1) >>,
  \* RFC 8446 4.2.1: ProtocolVersion versions<2..254> (ClientHello); selected_version (ServerHello, HRR)
  supported_versions_ch |-> << Vec(1) >>,
  supported_versions_sh |-> << Fix(2) >>,
  \* RFC 8446 4.2.2: opaque cookie<1..2^16-1>
  cookie |-> << Vec(2) >>,
  \* RFC 8446 4.2.8: KeyShareEntry client_shares<0..2^16-1>; KeyShareEntry = group, key_exchange<1..2^16-1>
  key_share_ch |-> << VecOf(2, << Fix(2), Vec(2) >>) >>,
  key_share_sh |-> << Fix(2), Vec(2) >>,
  key_share_hrr |-> << Fix(2) >>,
  \* RFC 8446 4.2.9: PskKeyExchangeMode ke_modes<1..255>
  psk_key_exchange_modes |-> << Vec(1) >>,
  \* RFC 8446 4.2.11: PskIdentity identities<7..2^16-1> (identity<1..2^16-1>, uint32 age),
  \* PskBinderEntry binders<33..2^16-1> (opaque<32..255>); ServerHello: uint16 selected_identity
  pre_shared_key_ch |-> << VecOf(2, << Vec(2), Fix(4) >>), VecOf(2, << Vec(1) >>) >>,
  pre_shared_key_sh |-> << Fix(2) >>,
  \* RFC 8446 4.2.4: DistinguishedName authorities<3..2^16-1>, DistinguishedName = opaque<1..2^16-1>
  certificate_authorities |-> << VecOf(2, << Vec(2) >>) >>,
  \* RFC 8446 4.2.5: OIDFilter filters<0..2^16-1>; OIDFilter = oid<1..2^8-1>, values<0..2^16-1>
  oid_filters |-> << VecOf(2, << Vec(1), Vec(2) >>) >>
]

\* the parser inverts the encoder and consumes exactly the encoding; a strict prefix never
\* parses to the full length
RoundTripG(g, val) ==
  LET e == EncG(g, val) IN
  /\ DecG(g, e).ok /\ DecG(g, e).used = Len(e)
  /\ \A i \in 0..(Len(e) - 1) : ~DecG(g, Take(e, i)).ok \/ DecG(g, Take(e, i)).used <= i
===========================================================================
