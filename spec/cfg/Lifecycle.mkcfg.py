#!/usr/bin/env python3
"""Writes spec/cfg/Lifecycle.*.cfg (run once; the cfg files are committed)."""
import os, sys
out = sys.argv[1]
BASE = dict(Hs=[], Rd=[], Wr=[], Cl=[], Dl=[], PeerScript="PS_none", HsLen=2, StartEstablished=False, IsClient=True,
            FinishResends=False, LeaseAcrossSend=False, WriteViaFsm=False, CloseReps=1, ReadReps=1, HsCtxDeadline=False,
            TransportBlocks=False, UseCloseLock=True, ReaderClosesDecrypted=True, FsmClosesDone=True, CloseNotifyOnce=True,
            CloseSendsNotify=True, ReadEOFOnClosedChannel=True, Record=False)
SAFE = "NoPanic CloseIdempotent CloseNotifyAtMostOnce CloseNotifySentWhenOpen BlockedCallsGetClosedOrEOF"
LIVE = "AllCallsReturn NoGoroutineLeft PeerReadEOF DeadlineInterrupts"

def val(v):
    if isinstance(v, bool):
        return "TRUE" if v else "FALSE"
    if isinstance(v, list):
        return "{" + ", ".join('"%s"' % x for x in v) + "}"
    return str(v)

def write(name, kw, mode, inv=None):
    c = dict(BASE); c.update(kw)
    lines = ["SPECIFICATION SpecD", "CONSTANTS"]
    for k, v in c.items():
        if k == "PeerScript":
            lines.append(" PeerScript <- %s" % v)
        else:
            lines.append(" %s = %s" % (k, val(v)))
    if mode == "safe":
        lines += ["INVARIANTS " + (inv or SAFE), "PROPERTIES ClosedMonotone", "CHECK_DEADLOCK TRUE"]
    elif mode == "live":
        lines += ["PROPERTIES " + LIVE, "CHECK_DEADLOCK TRUE"]
    elif mode == "gen":
        lines[0] = "SPECIFICATION Spec"
        lines += ["VIEW view", "ACTION_CONSTRAINT EmitEdge", "CHECK_DEADLOCK FALSE"]
    with open(os.path.join(out, name), "w") as fh:
        fh.write("\n".join(lines) + "\n")

D = dict(StartEstablished=True)
V13 = dict(LeaseAcrossSend=True, WriteViaFsm=True)
SRV = dict(IsClient=False, FinishResends=True)
variants = {
    # data phase
    "data-rk": dict(D, Rd=["r1"], Cl=["k1"], PeerScript="PS_app_cn", ReadReps=2),
    "data-wk": dict(D, Wr=["w1"], Cl=["k1"], PeerScript="PS_cn"),
    "data-wk13": dict(D, **V13, Wr=["w1"], Cl=["k1"], PeerScript="PS_cn"),
    "data-kk": dict(D, Cl=["k1", "k2"], CloseReps=2, PeerScript="PS_cn"),
    "data-rkk": dict(D, Rd=["r1"], Cl=["k1", "k2"], PeerScript="PS_app_cn"),
    "data-fatal": dict(D, Rd=["r1"], Wr=["w1"], Cl=["k1"], PeerScript="PS_app_fatal"),
    "data-warn": dict(D, Rd=["r1"], Cl=["k1"], PeerScript="PS_warn_app_cn", ReadReps=2),
    "data-bad": dict(D, Rd=["r1"], Cl=["k1"], PeerScript="PS_bad_app_cn", ReadReps=2),
    "data-srvhs": dict(D, **SRV, Rd=["r1"], Wr=["w1"], Cl=["k1"], PeerScript="PS_app_hs_app"),
    "data-dl": dict(D, Rd=["r1"], Wr=["w1"], Dl=["d1"], Cl=["k1"], PeerScript="PS_app"),
    "data-dl13": dict(D, **V13, Rd=["r1"], Wr=["w1"], Dl=["d1"], PeerScript="PS_app"),
    "data-block": dict(D, Wr=["w1"], Cl=["k1"], Dl=["d1"], TransportBlocks=True),
    "data-rwk": dict(D, Rd=["r1"], Wr=["w1"], Cl=["k1"], PeerScript="PS_app_cn"),
    # handshake phase (start: nothing called yet)
    "hs-hk": dict(Hs=["h1"], Cl=["k1"], PeerScript="PS_hs_hs"),
    "hs-hk-srv": dict(**SRV, Hs=["h1"], Cl=["k1"], PeerScript="PS_hs_hs_hs"),
    "hs-hk13": dict(**V13, Hs=["h1"], Cl=["k1"], PeerScript="PS_hs_hs"),
    "hs-rk": dict(Rd=["r1"], Cl=["k1"], PeerScript="PS_hs_hs_app"),
    "hs-wk": dict(Wr=["w1"], Cl=["k1"], PeerScript="PS_hs_hs"),
    "hs-hrk": dict(Hs=["h1"], Rd=["r1"], Cl=["k1"], PeerScript="PS_hs", HsLen=1),
    "hs-hkk": dict(Hs=["h1"], Cl=["k1", "k2"], PeerScript="PS_hs_hs"),
    "hs-fatal": dict(Hs=["h1"], Rd=["r1"], PeerScript="PS_hs_fatal"),
    "hs-cn": dict(Hs=["h1"], Cl=["k1"], PeerScript="PS_hs_cn"),
    "hs-bad": dict(Hs=["h1"], Cl=["k1"], PeerScript="PS_hs_bad"),
    "hs-warn": dict(Hs=["h1"], Cl=["k1"], PeerScript="PS_hs_warn_hs"),
    "hs-dl": dict(Hs=["h1"], Dl=["d1"], Cl=["k1"], HsCtxDeadline=True, PeerScript="PS_hs"),
    "hs-full": dict(Hs=["h1"], Rd=["r1"], Cl=["k1"], PeerScript="PS_hs_hs_cn"),
}
QUICK = [k for k in variants if k not in ("data-rwk", "hs-full", "data-fatal", "data-srvhs", "data-dl", "data-rkk", "hs-hkk", "data-bad", "data-warn", "hs-hrk")]
NOLIVE = ["data-dl", "data-rkk", "data-rwk", "data-fatal", "data-srvhs", "hs-full", "hs-hkk"]
LIVEQUICK = ["hs-hk", "hs-fatal", "hs-cn", "data-dl13"]
for k, v in variants.items():
    tier = "quick" if k in QUICK else "thorough"
    write("Lifecycle.%s.safe.%s.cfg" % (k, tier), v, "safe")
    tier = "quick" if k in LIVEQUICK else "thorough"
    if k not in NOLIVE:      # liveness checking runs at about 1 500 states/s: only instances up to ~170 000 states
        write("Lifecycle.%s.live.%s.cfg" % (k, tier), v, "live")
# small data-phase instances for the quick liveness run
write("Lifecycle.data-rk-s.live.thorough.cfg", dict(D, Rd=["r1"], Cl=["k1"], PeerScript="PS_cn"), "live")
write("Lifecycle.data-wk-s.live.thorough.cfg", dict(D, Wr=["w1"], Cl=["k1"], PeerScript="PS_none"), "live")
write("Lifecycle.data-wk13-s.live.quick.cfg", dict(D, **V13, Wr=["w1"], Cl=["k1"], PeerScript="PS_none"), "live")
write("Lifecycle.data-kk-s.live.thorough.cfg", dict(D, Cl=["k1", "k2"], PeerScript="PS_none"), "live")
write("Lifecycle.data-fatal-s.live.quick.cfg", dict(D, Rd=["r1"], PeerScript="PS_fatal"), "live")
write("Lifecycle.data-cn-s.live.quick.cfg", dict(D, Rd=["r1"], PeerScript="PS_cn"), "live")
write("Lifecycle.data-block-s.live.thorough.cfg", dict(D, Wr=["w1"], Cl=["k1"], TransportBlocks=True), "live")
# generation
gens = {
    "data-rk": dict(D, Rd=["r1"], Cl=["k1"], PeerScript="PS_app_cn"),
    "data-wk": dict(D, Wr=["w1"], Cl=["k1"], PeerScript="PS_cn"),
    "data-kk": dict(D, Cl=["k1", "k2"], PeerScript="PS_cn"),
    "data-fatal": dict(D, Rd=["r1"], Cl=["k1"], PeerScript="PS_fatal"),
    "data-dl": dict(D, Rd=["r1"], Wr=["w1"], Dl=["d1"], PeerScript="PS_app"),
    "data-rwkk": dict(D, Rd=["r1"], Wr=["w1"], Cl=["k1", "k2"], PeerScript="PS_none"),
    "data-rwk": dict(D, Rd=["r1"], Wr=["w1"], Cl=["k1"], PeerScript="PS_none"),
    "hs-hk": dict(Hs=["h1"], Cl=["k1"], PeerScript="PS_hs_hs"),
    "hs-rk": dict(Rd=["r1"], Cl=["k1"], PeerScript="PS_hs_hs"),
    "hs-wk": dict(Wr=["w1"], Cl=["k1"], PeerScript="PS_hs_hs"),
    "hs-hkk": dict(Hs=["h1"], Cl=["k1", "k2"], PeerScript="PS_hs"),
    "hs-fatal": dict(Hs=["h1"], Rd=["r1"], PeerScript="PS_hs_fatal"),
    "hs-cn": dict(Hs=["h1"], Cl=["k1"], PeerScript="PS_hs_cn"),
    "hs-dl": dict(Hs=["h1"], Dl=["d1"], HsCtxDeadline=True, PeerScript="PS_hs"),
}
for k, v in gens.items():
    write("Lifecycle.%s.gen.%s" % (k, "thorough.cfg" if k in ("data-rwkk", "data-rwk", "hs-hkk") else "cfg"), dict(v, Record=True), "gen")
# broken variants TLC must reject
write("Lifecycle.broken.nolock.cfg", dict(D, Cl=["k1", "k2"], UseCloseLock=False), "safe", inv="CloseIdempotent CloseNotifyAtMostOnce")
write("Lifecycle.broken.closedec.cfg", dict(D, Rd=["r1"], Cl=["k1"], PeerScript="PS_app_app", ReaderClosesDecrypted=False), "safe")
write("Lifecycle.broken.nodone.cfg", dict(Hs=["h1"], Cl=["k1"], PeerScript="PS_hs_hs", FsmClosesDone=False), "live")
write("Lifecycle.broken.pinned.cfg", dict(D, Cl=["k1"], PeerScript="PS_cn", CloseNotifyOnce=False), "safe")
write("Lifecycle.broken.nonotify.cfg", dict(D, Cl=["k1"], CloseSendsNotify=False), "safe")
write("Lifecycle.broken.eofnil.cfg", dict(D, Rd=["r1"], Cl=["k1"], ReadEOFOnClosedChannel=False), "safe")
