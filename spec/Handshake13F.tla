---------------------------- MODULE Handshake13F ----------------------------
(* DTLS 1.3 handshake of pion/dtls when the server's flight does NOT fit into one datagram: selective
   acknowledgement and selective retransmission (RFC 9147 section 7; internal/handshake/reliable_flight.go,
   fsm13.handleReceivedFlight / applyACKProgress / transitionAfterACK, conn.bufferHandshakeRecord / takePendingACKs,
   conn.compactPreparedRecords).  Companion of Handshake13.tla, which keeps every flight in one datagram.

   Granularity: the unit of transmission is the handshake FRAGMENT (one record).  The server's flight is the
   fragment list  SH (ServerHello, epoch 0, cleartext)  EE  C0 C1 (Certificate in two fragments)  CV  FIN  (epoch 2).
   A datagram is a sequence of fragments; which fragments share a datagram is computed as the code computes it
   (greedy: a new datagram is started when the current one plus the next record reaches the limit).
   Datagram contents in the model (sequences of strings):
     <<"CH">>                       ClientHello (no cookie exchange in this module)
     <<f1, .., fn>>                 fragments of the server flight
     <<"A2", f1, .., fn>>           ACK record of the client under the handshake keys (epoch 2) listing records that
                                    carried these fragments
     <<"A3", ...>>                  the same under the application keys (epoch 3): the client switched keys when it
                                    sent its Finished; a server still in flight 4 cannot read it yet
     <<"FIN5">>  <<"AS">>  <<"T">>  client Finished, the server's ACK of it, NewSessionTicket

   Code facts reproduced:
   - every protected handshake record the client can decrypt is remembered (conn.pendingACKs = owe); the list is TAKEN
     each time a datagram wakes the flight machine and is sent as one ACK iff the peer's flight is still incomplete
     (or, when the client is in its last flight, the datagram is a retransmission); it is dropped otherwise;
   - protected records that arrive before ServerHello cannot be decrypted: they are queued and processed when the
     ServerHello has been parsed (inside the same wake-up, after the list was taken: they stay owed);
   - the server removes acknowledged fragments from its flight (per fragment, also inside one message), and an ACK
     that made progress triggers an immediate retransmission of what is still pending through the time-out
     handler (interval first reset - an ACK is new data - then doubled); an ACK without progress changes nothing;
   - ServerHello travels in epoch 0, is never acknowledged and is part of every retransmission;
   - a datagram that contains a fragment of an already assembled message is a retransmission: a client still in
     flight 1 answers it with an ACK of what it holds AND its ClientHello again (doubling the interval), a client in
     flight 5 with the ACK and its Finished again;
   - timers: the current flight's pending fragments, re-packed.
   The model stops when both endpoints have reported success.
   Serves C02 (BothEstablish), C17 (TimerLaw13F, SelectiveRetransmit, AckNeverOnTimer, BoundedReaction),
   C12 for DTLS 1.3 (CompleteOnlyWhenAllFragments). *)
EXTENDS Integers, Sequences, FiniteSets, TLC, Json

CONSTANTS MaxDrop, MaxDup, MaxReorder, MaxTimeouts, BackoffCap, QMax, QuietTimers, Gen,
          SzSH, SzEE, SzC0, SzC1, SzCV, SzFIN, Limit,     \* record sizes and the packing limit (bytes)
          SelectiveAck,   \* TRUE = the code: acknowledged fragments leave the flight.  FALSE: the whole flight is always re-sent
          AckOnlyReceived \* TRUE = the code.  FALSE: the client acknowledges the whole flight as soon as it holds the ServerHello

E == {"c", "s"}
Peer(e) == IF e = "c" THEN "s" ELSE "c"
Frags == <<"SH", "EE", "C0", "C1", "CV", "FIN">>
FragSet == {Frags[i] : i \in 1..Len(Frags)}
Ackable == FragSet \ {"SH"}
Size(f) == CASE f = "SH" -> SzSH [] f = "EE" -> SzEE [] f = "C0" -> SzC0 [] f = "C1" -> SzC1 [] f = "CV" -> SzCV [] OTHER -> SzFIN
Msg(f) == CASE f = "SH" -> 0 [] f = "EE" -> 1 [] f \in {"C0", "C1"} -> 2 [] f = "CV" -> 3 [] OTHER -> 4
MsgFrags(m) == {f \in FragSet : Msg(f) = m}
\* next handshake message the fragment buffer waits for
Expected(h) == IF \A m \in 0..4 : MsgFrags(m) \subseteq h THEN 5
               ELSE CHOOSE m \in 0..4 : ~(MsgFrags(m) \subseteq h) /\ \A n \in 0..(m - 1) : MsgFrags(n) \subseteq h

Ordered(S) == SelectSeq(Frags, LAMBDA f : f \in S)
RECURSIVE SumSize(_)
SumSize(d) == IF d = <<>> THEN 0 ELSE Size(Head(d)) + SumSize(Tail(d))
RECURSIVE PackR(_, _, _)
PackR(rest, cur, acc) ==
  IF rest = <<>> THEN (IF cur = <<>> THEN acc ELSE Append(acc, cur))
  ELSE LET f == Head(rest) IN
       IF cur # <<>> /\ SumSize(cur) + Size(f) >= Limit THEN PackR(Tail(rest), <<f>>, Append(acc, cur))
       ELSE PackR(Tail(rest), Append(cur, f), acc)
Pack(S) == PackR(Ordered(S), <<>>, <<>>)        \* sequence of datagrams
SetOf(d) == {d[i] : i \in 1..Len(d)}
IsFlightDgram(d) == d # <<>> /\ d[1] \in FragSet
Ack(ep, S) == <<ep>> \o Ordered(S) \o (IF "T" \in S THEN <<"T">> ELSE <<>>)
Sender(d) == IF d[1] \in {"CH", "A2", "A3", "FIN5"} THEN "c" ELSE "s"
RECURSIVE Name(_)
Name(d) == IF d = <<>> THEN "" ELSE IF Len(d) = 1 THEN d[1] ELSE d[1] \o "+" \o Name(Tail(d))

VARIABLES st, fl, retx, bk, est,
          gotCH,   \* server: ClientHello processed
          gotF5,   \* server: client Finished processed
          pend,    \* server: fragments of flight 4 not yet acknowledged (ServerHello never is)
          have,    \* client: fragments handed to the fragment buffer
          queue,   \* client: protected fragments that arrived before the ServerHello
          owe,     \* client: fragments whose records are to be acknowledged
          seenT,   \* client: a NewSessionTicket was processed
          tick,    \* server: "none" | "pending"
          q,       \* network: per direction ("c2s", "s2c") the datagrams in flight in emission order, each [k, c] with
                   \* c = "n" (one copy) or "d" (the network duplicated it: delivering it leaves a stale twin)
          stale,   \* per direction: second copies of duplicated datagrams still to arrive (same record numbers)
          drops, dups, reorders, touts, emits, cause, hist
vars == <<st, fl, retx, bk, est, gotCH, gotF5, pend, have, queue, owe, seenT, tick, q, stale, drops, dups, reorders, touts, emits, cause, hist>>
viewv == <<st, fl, retx, bk, est, gotCH, gotF5, pend, have, queue, owe, seenT, tick, q, stale, drops, dups, reorders, touts, emits, cause>>

Dirs == {"c2s", "s2c"}
DirOf(e) == IF e = "c" THEN "c2s" ELSE "s2c"
\* emissions join the queue of their direction in order; beyond QMax datagrams in flight the network loses them
RECURSIVE PutAll(_, _)
PutAll(qq, ks) == IF ks = <<>> THEN qq
                  ELSE LET d == DirOf(Sender(Head(ks))) IN
                       PutAll(IF Len(qq[d]) < QMax THEN [qq EXCEPT ![d] = Append(@, [k |-> Head(ks), c |-> "n"])] ELSE qq, Tail(ks))
RemoveAt(sq, i) == SubSeq(sq, 1, i - 1) \o SubSeq(sq, i + 1, Len(sq))
Bump(b) == IF b < BackoffCap THEN b + 1 ELSE b
Done == est["c"] /\ est["s"]

\* what the server's flight looks like on the wire now
ServerFlight == Pack(IF SelectiveAck THEN pend ELSE FragSet)

\* reaction of the SERVER to datagram k: [fl, st, retx, bk, est, gotCH, gotF5, pend, tick, out]
ReactS(k) ==
  LET same == [fl |-> fl["s"], st |-> st["s"], retx |-> retx["s"], bk |-> bk["s"], est |-> est["s"], gotCH |-> gotCH, gotF5 |-> gotF5,
               pend |-> pend, tick |-> tick, out |-> <<>>] IN
  CASE k = <<"CH">> ->
         IF st["s"] = "Finished" THEN same
         ELSE IF fl["s"] = "F0" THEN [same EXCEPT !.fl = "F4", !.retx = TRUE, !.bk = 0, !.gotCH = TRUE, !.pend = FragSet, !.out = Pack(FragSet)]
         ELSE (IF retx["s"] THEN [same EXCEPT !.bk = Bump(bk["s"]), !.out = ServerFlight] ELSE same)   \* the peer repeats its flight
    [] k[1] = "A2" ->
         IF st["s"] = "Finished" \/ fl["s"] # "F4" THEN same
         ELSE LET A == SetOf(Tail(k)) prog == A \cap pend # {} np == pend \ A IN
              IF prog THEN [same EXCEPT !.pend = np, !.bk = Bump(0),
                                        !.out = Pack(IF SelectiveAck THEN np ELSE FragSet)]
              ELSE [same EXCEPT !.bk = 0]
    [] k[1] = "A3" -> same        \* queued while in flight 4; the post-handshake machine of a finished server has nothing to do with it here
    [] k = <<"FIN5">> ->
         IF st["s"] = "Finished" THEN [same EXCEPT !.out = << <<"AS">> >>]
         ELSE IF fl["s"] = "F4" THEN [same EXCEPT !.st = "Finished", !.est = TRUE, !.retx = FALSE, !.bk = 0, !.gotF5 = TRUE, !.tick = "pending",
                                                  !.out = << <<"AS">>, <<"T">> >>]
         ELSE same
    [] OTHER -> same

\* reaction of the CLIENT to datagram k: [fl, st, retx, bk, est, have, queue, owe, seenT, out]
ReactC(k) ==
  LET same == [fl |-> fl["c"], st |-> st["c"], retx |-> retx["c"], bk |-> bk["c"], est |-> est["c"], have |-> have, queue |-> queue,
               owe |-> owe, seenT |-> seenT, out |-> <<>>]
      keys == "SH" \in have IN
  CASE IsFlightDgram(k) ->
         LET D == SetOf(k) IN
         IF st["c"] = "Finished" THEN
              \* established: acknowledge retransmitted handshake records
              LET toAck == owe \cup (D \cap Ackable) IN
              [same EXCEPT !.owe = {}, !.out = IF toAck = {} THEN <<>> ELSE << Ack("A3", toAck) >>]
         ELSE IF fl["c"] = "F1" THEN
              IF ~keys /\ "SH" \notin D THEN [same EXCEPT !.queue = queue \cup D]           \* undecryptable: queued, wakes nothing
              ELSE IF ~keys THEN
                   LET h == have \cup D \cup queue IN
                   IF h = FragSet
                   THEN [same EXCEPT !.have = h, !.queue = {}, !.owe = (D \cup queue) \cap Ackable, !.bk = 0,
                                     !.fl = "F5", !.retx = TRUE, !.out = << <<"FIN5">> >>]
                   ELSE [same EXCEPT !.have = h, !.queue = {}, !.bk = 0,
                                     !.owe = IF AckOnlyReceived THEN (D \cup queue) \cap Ackable ELSE {},
                                     !.out = IF AckOnlyReceived THEN <<>> ELSE << Ack("A2", Ackable) >>]
              ELSE LET isRetx == \E f \in D : Msg(f) < Expected(have)
                       h == have \cup D
                       toAck == owe \cup (D \cap Ackable)
                       bk0 == IF isRetx THEN bk["c"] ELSE 0 IN
                   IF h = FragSet /\ have # FragSet
                   THEN [same EXCEPT !.have = h, !.owe = {}, !.bk = bk0, !.fl = "F5", !.retx = TRUE, !.out = << <<"FIN5">> >>]
                   ELSE [same EXCEPT !.have = h, !.owe = {}, !.bk = IF isRetx THEN Bump(bk0) ELSE bk0,
                                     !.out = (IF toAck = {} THEN <<>> ELSE << Ack("A2", IF AckOnlyReceived THEN toAck ELSE Ackable) >>)
                                             \o (IF isRetx THEN << <<"CH">> >> ELSE <<>>)]
         ELSE \* flight 5, waiting: every server fragment is a retransmission now
              LET toAck == owe \cup (D \cap Ackable) IN
              [same EXCEPT !.owe = {}, !.bk = Bump(bk["c"]),
                           !.out = (IF toAck = {} THEN <<>> ELSE << Ack("A3", toAck) >>) \o << <<"FIN5">> >>]
    [] k = <<"AS">> ->
         IF st["c"] = "Waiting" /\ fl["c"] = "F5"
         THEN [same EXCEPT !.st = "Finished", !.est = TRUE, !.retx = FALSE, !.owe = {}, !.bk = 0]
         ELSE same
    [] k = <<"T">> ->
         IF st["c"] = "Waiting" /\ fl["c"] = "F5"
         THEN [same EXCEPT !.st = "Finished", !.est = TRUE, !.retx = FALSE, !.owe = {}, !.bk = 0, !.seenT = TRUE]
         ELSE same
    [] OTHER -> same

\* what endpoint-side processing of datagram content k does to the whole state (net without k is passed in)
Process(d, k, rest) ==
  IF d = "c2s"
  THEN LET r == ReactS(k) IN
       /\ fl' = [fl EXCEPT !["s"] = r.fl] /\ st' = [st EXCEPT !["s"] = r.st] /\ retx' = [retx EXCEPT !["s"] = r.retx]
       /\ bk' = [bk EXCEPT !["s"] = r.bk] /\ est' = [est EXCEPT !["s"] = r.est]
       /\ gotCH' = r.gotCH /\ gotF5' = r.gotF5 /\ pend' = r.pend /\ tick' = r.tick
       /\ q' = PutAll(rest, r.out) /\ emits' = r.out
       /\ UNCHANGED <<have, queue, owe, seenT>>
  ELSE LET r == ReactC(k) IN
       /\ fl' = [fl EXCEPT !["c"] = r.fl] /\ st' = [st EXCEPT !["c"] = r.st] /\ retx' = [retx EXCEPT !["c"] = r.retx]
       /\ bk' = [bk EXCEPT !["c"] = r.bk] /\ est' = [est EXCEPT !["c"] = r.est]
       /\ have' = r.have /\ queue' = r.queue /\ owe' = r.owe /\ seenT' = r.seenT
       /\ q' = PutAll(rest, r.out) /\ emits' = r.out
       /\ UNCHANGED <<gotCH, gotF5, pend, tick>>

\* the datagram at position i of direction d is delivered; anything but the head costs one unit of the reordering budget
Deliver(d, i) ==
  /\ ~Done /\ i \in 1..Len(q[d])
  /\ (i > 1 => reorders < MaxReorder)
  /\ reorders' = IF i > 1 THEN reorders + 1 ELSE reorders
  /\ stale' = IF q[d][i].c = "d" THEN [stale EXCEPT ![d] = Append(@, q[d][i].k)] ELSE stale
  /\ Process(d, q[d][i].k, [q EXCEPT ![d] = RemoveAt(@, i)])
  /\ cause' = IF emits' = <<>> THEN "none" ELSE "recv"
  /\ UNCHANGED <<drops, dups, touts>>

\* the second copy of a duplicated datagram: its protected records are discarded by the anti-replay window, its cleartext
\* (epoch 0) handshake records - ClientHello, ServerHello - are not subject to the window and are processed again
ClearPart(k) == IF k = <<"CH">> THEN k ELSE IF IsFlightDgram(k) /\ "SH" \in SetOf(k) THEN <<"SH">> ELSE <<>>
DeliverStale(d) ==
  /\ ~Done /\ stale[d] # <<>>
  /\ stale' = [stale EXCEPT ![d] = Tail(@)]
  /\ IF ClearPart(Head(stale[d])) = <<>>
     THEN /\ emits' = <<>>
          /\ UNCHANGED <<st, fl, retx, bk, est, gotCH, gotF5, pend, have, queue, owe, seenT, tick, q>>
     ELSE Process(d, ClearPart(Head(stale[d])), q)
  /\ cause' = IF emits' = <<>> THEN "none" ELSE "recv"
  /\ UNCHANGED <<drops, dups, reorders, touts>>

Drop(d, i) ==
  /\ ~Done /\ drops < MaxDrop /\ i \in 1..Len(q[d])
  /\ q' = [q EXCEPT ![d] = RemoveAt(@, i)]
  /\ drops' = drops + 1 /\ emits' = <<>> /\ cause' = "none"
  /\ UNCHANGED <<st, fl, retx, bk, est, gotCH, gotF5, pend, have, queue, owe, seenT, tick, stale, dups, reorders, touts>>

Dup(d, i) ==
  /\ ~Done /\ dups < MaxDup /\ i \in 1..Len(q[d]) /\ q[d][i].c = "n"
  /\ q' = [q EXCEPT ![d][i].c = "d"] /\ dups' = dups + 1
  /\ emits' = <<>> /\ cause' = "none"
  /\ UNCHANGED <<st, fl, retx, bk, est, gotCH, gotF5, pend, have, queue, owe, seenT, tick, stale, drops, reorders, touts>>

\* QuietTimers: a retransmission timer fires only when nothing is in flight (timers are slow compared with the network);
\* FALSE also explores premature time-outs
Timeout(e) ==
  /\ ~Done
  /\ (QuietTimers => (q["c2s"] = <<>> /\ q["s2c"] = <<>>))
  /\ (MaxTimeouts < 100 => touts < MaxTimeouts)
  /\ touts' = IF MaxTimeouts < 100 THEN touts + 1 ELSE touts
  /\ LET out == IF st[e] = "Waiting"
                THEN (IF ~retx[e] THEN <<>>
                      ELSE IF e = "c" THEN (IF fl["c"] = "F1" THEN << <<"CH">> >> ELSE << <<"FIN5">> >>)
                      ELSE IF fl["s"] = "F4" THEN ServerFlight ELSE <<>>)
                ELSE IF e = "s" /\ tick = "pending" THEN << <<"T">> >> ELSE <<>>
     IN /\ q' = PutAll(q, out) /\ emits' = out
        /\ cause' = IF out = <<>> THEN "none" ELSE "timer"
        /\ bk' = IF st[e] = "Waiting" /\ retx[e] THEN [bk EXCEPT ![e] = Bump(@)] ELSE bk
  /\ UNCHANGED <<st, fl, retx, est, gotCH, gotF5, pend, have, queue, owe, seenT, tick, stale, drops, dups, reorders>>

Init ==
  /\ st = [e \in E |-> "Waiting"] /\ fl = [e \in E |-> IF e = "c" THEN "F1" ELSE "F0"]
  /\ retx = [e \in E |-> TRUE] /\ bk = [e \in E |-> 0] /\ est = [e \in E |-> FALSE]
  /\ gotCH = FALSE /\ gotF5 = FALSE /\ pend = {} /\ have = {} /\ queue = {} /\ owe = {} /\ seenT = FALSE /\ tick = "none"
  /\ q = [d \in Dirs |-> IF d = "c2s" THEN << [k |-> <<"CH">>, c |-> "n"] >> ELSE <<>>]
  /\ stale = [d \in Dirs |-> <<>>]
  /\ drops = 0 /\ dups = 0 /\ reorders = 0 /\ touts = 0 /\ emits = << <<"CH">> >> /\ cause = "start" /\ hist = <<>>

Names(ds) == [i \in 1..Len(ds) |-> Name(ds[i])]
PostP == [cst |-> st'["c"], sst |-> st'["s"], cfl |-> fl'["c"], sfl |-> fl'["s"], cest |-> est'["c"], sest |-> est'["s"],
          cbk |-> bk'["c"], sbk |-> bk'["s"], emits |-> Names(emits'),
          pend |-> Name(Ordered(pend')), have |-> Name(Ordered(have')), owe |-> Name(Ordered(owe')),
          qc2s |-> [i \in 1..Len(q'["c2s"]) |-> Name(q'["c2s"][i].k)], qs2c |-> [i \in 1..Len(q'["s2c"]) |-> Name(q'["s2c"][i].k)]]
Log(a, d, i, nm) == hist' = Append(hist, [act |-> a, dir |-> d, pos |-> i, name |-> nm, post |-> PostP])

NetStep(d, i) == \/ Deliver(d, i) /\ Log("Deliver", d, i, Name(q[d][i].k))
                 \/ Drop(d, i) /\ Log("Drop", d, i, Name(q[d][i].k))
                 \/ Dup(d, i) /\ Log("Dup", d, i, Name(q[d][i].k))
Next == \/ \E d \in Dirs : \E i \in 1..Len(q[d]) : NetStep(d, i)
        \/ \E d \in Dirs : DeliverStale(d) /\ Log("Stale", d, 0, "")
        \/ \E e \in E : Timeout(e) /\ Log("Timeout", e, 0, "")

\* fairness: timers keep firing and the head of each direction is eventually delivered
Fair == /\ \A e \in E : WF_vars(Timeout(e) /\ Log("Timeout", e, 0, ""))
        /\ \A d \in Dirs : WF_vars(q[d] # <<>> /\ Deliver(d, 1) /\ Log("Deliver", d, 1, Name(q[d][1].k)))
Spec == Init /\ [][Next]_vars /\ Fair

-----------------------------------------------------------------------------
(* C02 *)
BothEstablish == <>[](est["c"] /\ est["s"])
(* C12 for DTLS 1.3: the client leaves flight 1 only with every fragment of the server flight *)
CompleteOnlyWhenAllFragments == fl["c"] = "F5" => have = FragSet
ServerCompletionSound == est["s"] => gotF5
ClientCompletionSound == est["c"] => (have = FragSet /\ est["s"])
(* acknowledgement soundness: the client acknowledges only what it holds; the server forgets only what was acknowledged,
   hence whatever left the server's flight is held by the client *)
AckSound == \A i \in 1..Len(q["c2s"]) : LET k == q["c2s"][i].k IN k[1] \in {"A2", "A3"} => (SetOf(Tail(k)) \ {"T"}) \subseteq have
ForgottenIsHeld == gotCH => (FragSet \ pend) \subseteq have
(* C17: selective retransmission - a server datagram emitted after the first transmission carries no acknowledged fragment *)
SelectiveRetransmit ==
  [][\A i \in 1..Len(emits') : IsFlightDgram(emits'[i]) => SetOf(emits'[i]) \subseteq pend']_vars
(* C17: a timer event re-sends exactly the pending part of the current flight and doubles the interval *)
TimerLaw13F ==
  [][\A e \in E : (cause' = "timer" /\ Timeout(e)) =>
        \/ (st[e] = "Waiting" /\ retx[e] /\ bk'[e] = Bump(bk[e])
              /\ emits' = (IF e = "s" THEN Pack(pend) ELSE IF fl["c"] = "F1" THEN << <<"CH">> >> ELSE << <<"FIN5">> >>))
        \/ (st[e] = "Finished" /\ e = "s" /\ emits' = << <<"T">> >>)]_vars
AckNeverOnTimer == [][(\E i \in 1..Len(emits') : emits'[i][1] \in {"A2", "A3", "AS"}) => cause' = "recv"]_vars
(* C17: what one event makes an endpoint emit is bounded by the flight size plus one acknowledgement *)
BoundedReaction == Len(emits) <= Len(Pack(FragSet)) + 1
TypeOK == \A d \in Dirs : Len(q[d]) <= QMax /\ \A i \in 1..Len(q[d]) : Sender(q[d][i].k) = (IF d = "c2s" THEN "c" ELSE "s")

EmitEdge == Gen => PrintT(ToJson([steps |-> hist']))
=============================================================================
