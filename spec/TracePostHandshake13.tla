------------------------ MODULE TracePostHandshake13 ------------------------
(* Trace specification for C20: the projection of PostHandshake13 onto the variables C20 speaks about, run over the
   events recorded from free-running DTLS 1.3 sessions (real timers, seeded loss / duplication / reordering, UpdateKeys
   from both sides racing with several writers).  The module EXTENDS PostHandshake13: the state is the same variable S
   (per endpoint: write generation w, authorised receive epoch auth, current read generation rgen, active flight act,
   acknowledged flights ackd, returned UpdateKeys calls ret, receive sequence rcv, payloads handed to Read dlv), wr,
   crafted, hiSeal / sealDecr, rxBad, and the C20 formulas are the master module's text, checked as INVARIANTs:
   UpdateKeysReturnsAfterAck, AtMostOnceUnmodified, SealEpochMonotone, UnauthorisedEpochRejected, WriteEpochAuthorised.
   The big-step actions of the master module are split here into the fine-grained events the hooks report; each event
   action carries the guards of the projection (epochs move one step at a time, a KeyUpdate is built under the current
   write epoch and processed under the current authorised epoch, a delivered record was sealed by the peer and is
   delivered once) and adopts everything else from the log.

   One line per event (ndjson, linearised by the global event counter of the process):
     {"ev":"init","snd":{"c":..,"s":..},"rcv":{..}}           session start: handshake message sequences
     {"ev":"start","side","ms","epoch","user"}                ph.start kind=keyupdate
     {"ev":"acked","side","ms"}                               ph.acked
     {"ev":"commit","side","epoch"}                           ku.commit
     {"ev":"rxku","side","epoch","next"}                      ph.rxKeyUpdate
     {"ev":"seal","side","epoch","seq","ctype"}               rec.seal
     {"ev":"craft","side","epoch","seq"}                      the harness injects a key holder's record under side's next generation
     {"ev":"deliver","side","epoch","seq"}                    app.deliver
     {"ev":"ret","side","ok"}                                 Conn.UpdateKeys returned
     {"ev":"write","side","p"} / {"ev":"read","side","p"}     Conn.Write called / Conn.Read returned payload id p
     {"ev":"reset"}                                           end of session
   The whole trace must be consumed (POSTCONDITION Accepted). *)
EXTENDS PostHandshake13

Trace == ndJsonDeserialize("trace.ndjson")

VARIABLES l,        \* position in the trace
          sealedApp,\* application records sealed so far: <<sender, epoch, seq>>
          gotRec    \* application records handed to the application: <<receiver, epoch, seq>>

tvars == <<vars, l, sealedApp, gotRec>>
Ev == Trace[l]

TLocal(e) == [pend |-> <<>>] @@ Local(e)      \* pend: message_seq of user KeyUpdates started and not yet returned

TInit ==
  /\ Init
  /\ l = 1 /\ sealedApp = {} /\ gotRec = {}

Frame == UNCHANGED <<net, drops, dups, timers, pays, lost, calls, arrBad, lastRx, lastOut, hist>>
Step == l' = l + 1
Is(x) == l <= Len(Trace) /\ Ev.ev = x

T_Init ==
  /\ Is("init")
  /\ S' = [e \in E |-> [TLocal(e) EXCEPT !.snd = Ev.snd[e], !.rcv = Ev.rcv[e]]]
  /\ UNCHANGED <<wr, crafted, hiSeal, sealDecr, rxBad, sealedApp, gotRec>> /\ Frame /\ Step

T_Start ==
  /\ Is("start")
  /\ LET e == Ev.side IN
     /\ Ev.epoch = Ep(S[e].w)                          \* a KeyUpdate is built under the current write generation
     /\ S' = [S EXCEPT ![e].act = [k |-> "ku", ms |-> Ev.ms],
                       ![e].pend = IF Ev.user THEN Append(@, Ev.ms) ELSE @]
  /\ UNCHANGED <<wr, crafted, hiSeal, sealDecr, rxBad, sealedApp, gotRec>> /\ Frame /\ Step

T_Acked ==
  /\ Is("acked")
  /\ S' = [S EXCEPT ![Ev.side].ackd = @ \cup {Ev.ms}, ![Ev.side].act = None]
  /\ UNCHANGED <<wr, crafted, hiSeal, sealDecr, rxBad, sealedApp, gotRec>> /\ Frame /\ Step

T_Commit ==
  /\ Is("commit")
  /\ LET e == Ev.side IN
     /\ Ev.epoch = Ep(S[e].w) + 1                      \* one generation at a time, never backwards
     /\ S' = [S EXCEPT ![e].w = @ + 1]
  /\ UNCHANGED <<wr, crafted, hiSeal, sealDecr, rxBad, sealedApp, gotRec>> /\ Frame /\ Step

T_RxKU ==
  /\ Is("rxku")
  /\ LET e == Ev.side IN
     /\ Ev.epoch = S[e].auth /\ Ev.next = Ev.epoch + 1 /\ Ev.epoch = Ep(S[e].rgen)
     /\ Ev.epoch = Ep(S[Peer(e)].w) \/ Ev.epoch + 1 = Ep(S[Peer(e)].w)   \* the peer really is at (or just past) that generation
     /\ S' = [S EXCEPT ![e].auth = Ev.next, ![e].rgen = @ + 1, ![e].rcv = @ + 1]
  /\ UNCHANGED <<wr, crafted, hiSeal, sealDecr, rxBad, sealedApp, gotRec>> /\ Frame /\ Step

T_RxTicket ==
  /\ Is("rxticket")
  /\ S' = [S EXCEPT ![Ev.side].rcv = @ + 1]
  /\ UNCHANGED <<wr, crafted, hiSeal, sealDecr, rxBad, sealedApp, gotRec>> /\ Frame /\ Step

T_Seal ==
  /\ Is("seal")
  /\ LET e == Ev.side IN
     /\ IF Ev.ctype = 21 THEN UNCHANGED <<hiSeal, sealDecr>>       \* alerts (close) are outside the projection
        ELSE /\ hiSeal' = [hiSeal EXCEPT ![e] = IF Ev.epoch > @ THEN Ev.epoch ELSE @]
             /\ sealDecr' = (sealDecr \/ Ev.epoch < hiSeal[e])
     /\ sealedApp' = IF Ev.ctype = 23 THEN sealedApp \cup {<<e, Ev.epoch, Ev.seq>>} ELSE sealedApp
  /\ UNCHANGED <<S, wr, crafted, rxBad, gotRec>> /\ Frame /\ Step

T_Craft ==
  /\ Is("craft")                                         \* (its epoch may already be the current one: the harness races with the commit)
  /\ crafted' = TRUE
  /\ sealedApp' = sealedApp \cup {<<Ev.side, Ev.epoch, Ev.seq>>}
  /\ UNCHANGED <<S, wr, hiSeal, sealDecr, rxBad, gotRec>> /\ Frame /\ Step

T_Deliver ==
  /\ Is("deliver")
  /\ LET e == Ev.side IN
     /\ <<Peer(e), Ev.epoch, Ev.seq>> \in sealedApp       \* only records the peer (or the key holder) sealed
     /\ <<e, Ev.epoch, Ev.seq>> \notin gotRec             \* a record number is accepted once
     /\ gotRec' = gotRec \cup {<<e, Ev.epoch, Ev.seq>>}
     /\ rxBad' = (rxBad \/ Ev.epoch > S[e].auth \/ Ev.epoch \notin 2..S[e].auth)   \* authorised and retained
  /\ UNCHANGED <<S, wr, crafted, hiSeal, sealDecr, sealedApp>> /\ Frame /\ Step

T_Ret ==
  /\ Is("ret")
  /\ LET e == Ev.side IN
     IF Ev.ok
     THEN /\ S[e].pend # <<>>                               \* a successful return belongs to a started user KeyUpdate
          /\ S' = [S EXCEPT ![e].ret = @ \cup {Head(S[e].pend)}, ![e].pend = Tail(@)]
     ELSE UNCHANGED S
  /\ UNCHANGED <<wr, crafted, hiSeal, sealDecr, rxBad, sealedApp, gotRec>> /\ Frame /\ Step

T_Write ==
  /\ Is("write")
  /\ wr' = [wr EXCEPT ![Ev.side] = @ \cup {Ev.p}]
  /\ UNCHANGED <<S, crafted, hiSeal, sealDecr, rxBad, sealedApp, gotRec>> /\ Frame /\ Step

T_Read ==
  /\ Is("read")
  /\ S' = [S EXCEPT ![Ev.side].dlv = Bump(@, Ev.p)]
  /\ UNCHANGED <<wr, crafted, hiSeal, sealDecr, rxBad, sealedApp, gotRec>> /\ Frame /\ Step

T_Reset ==
  /\ Is("reset")
  /\ S' = [e \in E |-> Local(e)] /\ wr' = [e \in E |-> {}] /\ crafted' = FALSE
  /\ hiSeal' = [e \in E |-> 3] /\ sealDecr' = FALSE /\ rxBad' = FALSE
  /\ sealedApp' = {} /\ gotRec' = {}
  /\ Frame /\ Step

TNext == T_Init \/ T_Start \/ T_Acked \/ T_Commit \/ T_RxKU \/ T_RxTicket \/ T_Seal \/ T_Craft \/ T_Deliver
         \/ T_Ret \/ T_Write \/ T_Read \/ T_Reset
TSpec == TInit /\ [][TNext]_tvars

Accepted == TLCGet("stats").diameter - 1 = Len(Trace)
\* reported with a violated invariant: where in the trace
Pos == l
=============================================================================
