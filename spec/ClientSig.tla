------------------------------ MODULE ClientSig ------------------------------
(* C11, client side of "the signature schemes are ones both honest sides allow": a server that requests a client
   certificate lists the schemes it accepts (CertificateRequest), the client owns an ECDSA key and is configured with
   its own list.  The CertificateVerify scheme must lie in both lists; when the lists share no scheme that fits the key
   the handshake must fail.  (The server's own signature is decided by Negotiation.tla; with ECDSA keys on both sides
   the same intersection governs it, so completion is expected exactly when the intersection is not empty.)
   Policy oracle in the style of Negotiation.tla: sets, no preference order. *)
EXTENDS Integers, Sequences, FiniteSets, TLC, Json

CONSTANTS Gen

SigLists == << {}, {"ecdsa_sha256"}, {"ecdsa_sha384", "ecdsa_sha256"}, {"rsa_pkcs1_sha256"}, {"ecdsa_sha384"},
               {"rsa_pkcs1_sha256", "ecdsa_sha256"}, {"ed25519"}, {"ecdsa_sha512", "ecdsa_sha384"} >>
Default == {"ecdsa_sha256", "ecdsa_sha384", "ecdsa_sha512", "ed25519", "rsa_pkcs1_sha256", "rsa_pkcs1_sha384", "rsa_pkcs1_sha512"}
Eff(l) == IF l = {} THEN Default ELSE l
FitsECDSA(s) == s \in {"ecdsa_sha256", "ecdsa_sha384", "ecdsa_sha512"}

VARIABLES ver, ci, si, done
vars == <<ver, ci, si, done>>
Init == ver \in {"12", "13"} /\ ci \in 1..Len(SigLists) /\ si \in 1..Len(SigLists) /\ done = FALSE
Allowed == {s \in Eff(SigLists[ci]) \cap Eff(SigLists[si]) : FitsECDSA(s)}
Next == ~done /\ done' = TRUE /\ UNCHANGED <<ver, ci, si>>
Spec == Init /\ [][Next]_vars

\* sanity of the oracle: what is allowed is in both effective lists; default lists allow something
AllowedInBoth == Allowed \subseteq Eff(SigLists[ci]) /\ Allowed \subseteq Eff(SigLists[si])
DefaultsWork == (ci = 1 /\ si = 1) => Allowed # {}

RECURSIVE SetToSeq(_)
SetToSeq(S) == IF S = {} THEN <<>> ELSE LET x == CHOOSE x \in S : TRUE IN <<x>> \o SetToSeq(S \ {x})
EmitCase == (Gen /\ done') =>
  PrintT(ToJson([ver |-> ver, csigs |-> SetToSeq(SigLists[ci]), ssigs |-> SetToSeq(SigLists[si]), allowed |-> SetToSeq(Allowed)]))
=============================================================================
