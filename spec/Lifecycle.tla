------------------------------ MODULE Lifecycle ------------------------------
(***************************************************************************)
(* M5 - lifecycle of one dtls.Conn endpoint (pion/dtls conn.go): Close,     *)
(* alerts and deadlines against the two handshake goroutines and the user   *)
(* calls.  PlusCal; one label per critical section / blocking point of      *)
(*   Conn.Close / Conn.close          (c_  labels, procedure doClose)       *)
(*   Conn.HandshakeContext / handshake (h_  labels, procedure doHandshake)  *)
(*   Conn.Read  (u_ )   Conn.Write (w_ )   SetDeadline (d_ )                *)
(*   the reader goroutine of handshake()  (r_ ): ReadFromContext,           *)
(*     handshakeRecv rendezvous, decrypted <- data, alert case of           *)
(*     handleRecordContent + notify reply, classifyReadLoopError,           *)
(*     close(false), the deferred close(decrypted) / cancel()               *)
(*   the handshaker goroutine (fsm.Run) (f_ ): send / wait / finish with    *)
(*     their cancellation points, DTLS 1.3 application-data commands        *)
(* in the order the code executes them.  The peer is the sequence of        *)
(* datagrams PeerScript that the reader consumes at arbitrary moments.      *)
(*                                                                          *)
(* Deliberate deviations / abstractions (all named):                        *)
(*  - HsLen handshake datagrams complete the handshake (flight contents are *)
(*    Handshake12/13's business); application data that arrives before     *)
(*    establishment is dropped here (the code queues it);                   *)
(*  - a new handshake attempt starts its goroutines only after the previous *)
(*    reader finished its deferred function (h_go guard): the code lets the *)
(*    tail of the old reader (close(decrypted); cancel()) overlap;          *)
(*  - contextWithClose's forwarding goroutine is instantaneous (a Write's   *)
(*    context is done iff closed or the write deadline fired);              *)
(*  - a transport write is atomic and succeeds unless nextConn is closed    *)
(*    (WriteToContext writes even with a cancelled context when the socket  *)
(*    does not block); TransportBlocks adds a socket that blocks until the  *)
(*    environment unblocks it;                                              *)
(*  - constants UseCloseLock, ReaderClosesDecrypted, FsmClosesDone = FALSE  *)
(*    are broken variants TLC must reject; CloseNotifyOnce = FALSE is the   *)
(*    pinned tree before the fix (reply path and user path both write       *)
(*    close_notify), TRUE is the repaired code (sync.Once in notify).       *)
(***************************************************************************)
EXTENDS Naturals, Sequences, FiniteSets, TLC, Json

CONSTANTS
  Hs, Rd, Wr, Cl, Dl,      \* ids of the user callers: HandshakeContext, Read, Write, Close, SetDeadline
  PeerScript,              \* datagrams the peer sends: "hs" "app" "cn" "fatal" "warn" "bad"
  HsLen,                   \* handshake datagrams this endpoint must process to become established
  StartEstablished,        \* TRUE: start in the data phase (handshake returned, both goroutines running)
  IsClient,                \* client: FSM starts in Sending; server: in Waiting
  FinishResends,           \* a handshake datagram in Finished re-sends the last flight (1.2 server / resumed client)
  LeaseAcrossSend,         \* DTLS 1.3: the reader stays paused until the answering flight was written
  WriteViaFsm,             \* DTLS 1.3: Write is a command executed by the FSM goroutine
  CloseReps, ReadReps,     \* sequential repetitions of Close / Read per caller
  HsCtxDeadline,           \* the deadline also cancels the context of the HandshakeContext callers
  TransportBlocks,         \* the socket blocks writes until the environment unblocks it
  UseCloseLock,            \* code: TRUE
  ReaderClosesDecrypted,   \* code: TRUE (close(decrypted) only in the reader's deferred function); FALSE: close() does it
  FsmClosesDone,           \* code: TRUE (every received RecvHandshakeState gets its Done closed)
  CloseNotifyOnce,         \* FALSE: pinned tree; TRUE: repaired (notify sends close_notify through a sync.Once)
  CloseSendsNotify,        \* code: TRUE (FALSE: broken variant, the user path never writes close_notify)
  ReadEOFOnClosedChannel,  \* code: TRUE (FALSE: broken variant, Read returns (0, nil) when decrypted is closed)
  Record                   \* TRUE: log the controllable actions in hist (script generation)

Callers == Hs \cup Rd \cup Wr \cup Cl \cup Dl
HsCallers == Hs \cup Rd \cup Wr

(* --algorithm Lifecycle
variables
  \* ---- Conn fields
  closed = FALSE,                 \* c.closed (closer.Closer)
  byUser = FALSE,                 \* c.connectionClosedByUser
  ncClosed = FALSE,               \* c.nextConn closed
  hsMutex = "none", writeLock = "none",       \* closeLock: its critical sections are atomic steps
  established = StartEstablished, \* c.handshakeEstablished
  gen = IF StartEstablished THEN 1 ELSE 0,   \* which contexts c.cancelHandshaker / c.cancelHandshakeReader cancel (0 = func(){})
  hsCancel = {}, rdCancel = {},   \* cancelled handshaker / reader contexts (by generation)
  hsDoneCur = IF StartEstablished THEN 1 ELSE 0,   \* c.handshakeDone (attempt number, 0 = nil)
  hsDoneClosed = IF StartEstablished THEN {1} ELSE {},
  dec = "empty", decClosed = FALSE,          \* c.decrypted (capacity 1)
  cnOnce = "idle",                \* repaired code: sync.Once guarding the close_notify write
  \* ---- per handshake attempt (locals of handshake())
  firstErr = "none", loopsDone = 0,
  fsmRun = StartEstablished, rdRun = StartEstablished,
  fsmClosed = FALSE,              \* fsm.Done()
  hsLeft = IF StartEstablished THEN 0 ELSE HsLen,
  offer = "none",                 \* handshakeRecv rendezvous: none / offered / taken / done(=Done closed)
  cmd = [w \in Wr |-> "none"],    \* 1.3 post-handshake command of writer w: none / offered / taken / ok / err
  \* ---- environment
  inbox = PeerScript,
  rdl = FALSE, wdl = FALSE, hsCtxDone = FALSE,
  wblock = TransportBlocks,
  \* ---- observations
  cnSent = 0, alertSeen = FALSE, teardowns = 0,
  panic = "none",
  ret = [p \in Callers |-> <<>>],           \* return values of the calls of p, in order
  hres = [p \in HsCallers |-> "none"],
  openClose = {},                 \* closers that closed an established, still-open session
  hist = <<>>;

define
  DecFree == dec = "empty" /\ ~decClosed
end define;

macro Log(e) begin
  if Record then hist := Append(hist, e) end if;
end macro;

\* ---------------------------------------------------------------- Conn.close(byUser)
procedure doClose(byU = FALSE)
variables cg = 0, prevByUser = FALSE, wasClosed = FALSE;
begin
c_lock:  if UseCloseLock then                      \* c.closeLock.Lock() ... Unlock(): one atomic step
           cg := gen; prevByUser := byUser; wasClosed := closed;
           if byU then byUser := TRUE end if;
           if ~closed then
             closed := TRUE;                         \* c.closed.Close()
             if byU /\ established /\ ~alertSeen then openClose := openClose \cup {self} end if;
             if ~ReaderClosesDecrypted then
               if decClosed then panic := "close of closed channel" else decClosed := TRUE end if;
             end if;
           end if;
           goto c_can1;
         end if;
c_rd:    cg := gen; prevByUser := byUser;          \* UseCloseLock = FALSE: the same statements, interleavable
c_set:   if byU then byUser := TRUE end if;
c_chk:   wasClosed := closed;                      \* isClosed := c.isConnectionClosed()
c_cls:   if ~wasClosed then
           closed := TRUE;
           if byU /\ established /\ ~alertSeen then openClose := openClose \cup {self} end if;
           if ~ReaderClosesDecrypted then
             if decClosed then panic := "close of closed channel" else decClosed := TRUE end if;
           end if;
         end if;
c_can1:  hsCancel := hsCancel \cup {cg};           \* gate close.afterFlag, then cancelHandshaker()
         Log([a |-> "gate", p |-> self, g |-> "close.afterFlag"]);
c_can2:  rdCancel := rdCancel \cup {cg};           \* cancelHandshakeReader()
c_ret:   if prevByUser \/ wasClosed then return end if;
c_ntf:   Log([a |-> "gate", p |-> self, g |-> "close.beforeNotify"]);
         if established /\ byU /\ CloseSendsNotify then    \* notify(context.Background(), warning, close_notify)
           if CloseNotifyOnce then
             await cnOnce # "running";
             if cnOnce = "done" then goto c_nc else cnOnce := "running" end if;
           end if;
         else
           goto c_nc;
         end if;
c_ntfl:  await writeLock = "none"; writeLock := self;
c_ntfw:  await ~wblock \/ ncClosed;                \* Background context: only the socket can end the write
         if ~ncClosed then cnSent := cnSent + 1 end if;
         writeLock := "none";
         if CloseNotifyOnce then cnOnce := "done" end if;
c_nc:    ncClosed := TRUE; teardowns := teardowns + 1;      \* c.nextConn.Close()
         Log([a |-> "gate", p |-> self, g |-> "close.beforeConnClose"]);
         return;
end procedure;

\* ---------------------------------------------------------------- Conn.HandshakeContext(ctx)
procedure doHandshake(hctx = FALSE)
variables herr = "none";
begin
h_lock:  await hsMutex = "none"; hsMutex := self;                    \* Lock(); if established return nil
         if established then hres[self] := "nil"; goto h_unlock end if;
h_done:  hsDoneCur := gen + 1;       \* c.handshakeDone = make(chan), under closeLock
h_setup: gen := gen + 1;                                     \* new FSM, new contexts, cancel functions under closeLock
         fsmClosed := FALSE; firstErr := "none"; loopsDone := 0; offer := "none";
h_go:    await ~fsmRun /\ ~rdRun;                            \* go handshaker; go reader
         fsmRun := TRUE; rdRun := TRUE;
h_sel:   either await firstErr # "none"; herr := firstErr;
         or     await hctx /\ hsCtxDone; herr := "deadline";
         or     await established; hres[self] := "nil"; goto h_close;
         end either;
h_c1:    rdCancel := rdCancel \cup {gen};                    \* cancelRead(); cancel()
         hsCancel := hsCancel \cup {gen};
h_wait:  await loopsDone = 2;                                \* handshakeLoopsFinished.Wait()
         hres[self] := IF herr = "canceled" /\ established THEN "nil" ELSE herr;
h_close: hsDoneClosed := hsDoneClosed \cup {hsDoneCur};          \* defer close(handshakeDone)
h_unlock: hsMutex := "none";                                 \* defer c.handshakeMutex.Unlock()
         return;
end procedure;

\* ---------------------------------------------------------------- handshaker goroutine (fsm.Run)
fair process Fsm = "fsm"
variables fst = "idle", ferr = "none", fg = 0, fwr = "none";
begin
f_idle:  await fsmRun;
         fg := gen; ferr := "none";
         fst := IF established THEN "finish" ELSE IF IsClient THEN "send" ELSE "wait";
f_top:   while TRUE do
           if fst = "finish" then established := TRUE end if;     \* establishment.mark()
           if fst = "send" then
             Log([a |-> "gate", p |-> "fsm", g |-> "fsm.beforeSend"]);
f_sendl:     await writeLock = "none"; writeLock := "fsm";         \* WritePackets(ctx, flights)
f_send:      await ~wblock \/ ncClosed \/ fg \in hsCancel;
             if ncClosed then ferr := "netclosed"
             elsif wblock then ferr := "canceled" end if;
             writeLock := "none";
             if LeaseAcrossSend /\ offer = "taken" then offer := "done" end if;
             fst := IF hsLeft = 0 THEN "finish" ELSE "wait";
             if ncClosed \/ wblock then goto f_exit end if;
           elsif fst = "wait" then
f_wait:      either
               await offer = "offered"; offer := "taken";          \* state := <-conn.RecvHandshake()
f_parse:       if hsLeft > 0 then hsLeft := hsLeft - 1 end if;     \* Parse; gate fsm.afterParse; close(state.Done)
               if FsmClosesDone /\ ~LeaseAcrossSend then offer := "done" end if;
               Log([a |-> "gate", p |-> "fsm", g |-> "fsm.afterParse"]);
               fst := "send";
             or
               await fg \in hsCancel; ferr := "canceled"; goto f_exit;    \* <-ctx.Done()
             end either;
           else
f_fin:       either
               await offer = "offered"; offer := "taken";
f_finrecv:     if FsmClosesDone then offer := "done" end if;
               if FinishResends then fst := "send" end if;
             or
               with w \in {x \in Wr : cmd[x] = "offered"} do       \* command := <-s.postHandshake.commands
                 cmd[w] := "taken"; fwr := w;
               end with;
f_cmdl:        await writeLock = "none"; writeLock := "fsm";       \* startQueuedPostHandshake -> command.Write
f_cmdw:        await ~wblock \/ ncClosed \/ closed \/ wdl;
               if ncClosed \/ wblock then cmd[fwr] := "err" else cmd[fwr] := "ok" end if;
               writeLock := "none";
             or
               await fg \in hsCancel; ferr := "canceled"; goto f_exit;
             end either;
           end if;
         end while;
f_exit:  fsmClosed := TRUE;                                        \* defer close(closed); 1.3: postHandshake.fail
         cmd := [w \in Wr |-> IF cmd[w] = "taken" THEN "err" ELSE cmd[w]];
         if LeaseAcrossSend /\ offer = "taken" then offer := "done" end if;   \* defer s.received.release()
f_err:   if ferr # "canceled" /\ firstErr = "none" then firstErr := ferr end if;
f_done:  loopsDone := loopsDone + 1;                               \* defer handshakeLoopsFinished.Done()
         fsmRun := FALSE;
         goto f_idle;
end process;

\* ---------------------------------------------------------------- reader goroutine of handshake()
fair process Reader = "rdr"
variables d = "none", rerr = "none", act = "none", rg = 0;
begin
r_idle:  await rdRun;
         rg := gen;
r_read:  either                                                    \* gate reader.beforeRead; ReadFromContext(ctxRead)
           await inbox # <<>> /\ ~ncClosed;
           d := Head(inbox); inbox := Tail(inbox); rerr := "none";
           Log([a |-> "dlv", d |-> d, n |-> Len(PeerScript) - Len(inbox)]);
         or
           await rg \in rdCancel /\ ~ncClosed; rerr := "canceled"; goto r_class;
         or
           await ncClosed; rerr := "netclosed"; goto r_class;
         end either;
r_proc:  if d = "hs" then
           offer := "offered";                                     \* select { c.handshakeRecv <- s ; <-c.fsm.Done() }
r_hs2:     either
             await offer \in {"taken", "done"};
r_hs3:       await offer = "done"; offer := "none";                \* <-s.Done
             goto r_read;
           or
             await fsmClosed /\ offer = "offered"; offer := "none";
             goto r_read;
           end either;
         elsif d = "app" then
           if ~established then goto r_read end if;
r_app:     either await dec = "empty" /\ ~decClosed; dec := "data";   \* select { c.decrypted <- data ; closed ; ctx }
           or     await decClosed; panic := "send on closed channel";
           or     await closed;
           or     await rg \in rdCancel;
           end either;
           goto r_read;
         elsif d = "cn" then
           alertSeen := TRUE;                                      \* alert.in; gate reader.alert
           Log([a |-> "gate", p |-> "rdr", g |-> "reader.alert"]);
r_cn1:     if CloseNotifyOnce then                                 \* reply: c.notify(ctxRead, warning, close_notify)
             await cnOnce # "running";
             if cnOnce = "done" then goto r_cn3 else cnOnce := "running" end if;
           end if;
r_cnl:     await writeLock = "none"; writeLock := "rdr";
r_cnw:     await ~wblock \/ ncClosed \/ rg \in rdCancel;
           if ~ncClosed /\ ~wblock then cnSent := cnSent + 1 end if;
           writeLock := "none";
           if CloseNotifyOnce then cnOnce := "done" end if;
r_cn3:     rerr := "alert";
         elsif d = "fatal" then
           alertSeen := TRUE; rerr := "alert";
         elsif d = "warn" then
           rerr := "warn";
         else                                                      \* "bad": undecodable authenticated content
r_badl:    await writeLock = "none"; writeLock := "rdr";           \* reply fatal decode_error
r_badw:    await ~wblock \/ ncClosed \/ rg \in rdCancel;
           writeLock := "none"; rerr := "decode";
         end if;
r_class: act := CASE rerr = "alert" -> "closeAndStop"              \* classifyReadLoopError; gate reader.afterDgram
                  [] rerr = "warn" -> IF established THEN "deliver" ELSE "continue"
                  [] rerr = "canceled" /\ ~closed -> "closeAndStop"
                  [] rerr \in {"canceled", "netclosed"} -> "stop"
                  [] established -> "deliver"
                  [] OTHER -> "stop";
         if act = "continue" then goto r_read
         elsif act = "deliver" then
r_dlv:     either await dec = "empty" /\ ~decClosed; dec := "err";  \* deliverReadError
           or     await decClosed; panic := "send on closed channel";
           or     await closed;
           or     await rg \in rdCancel;
           end either;
           goto r_read;
         end if;
r_first: if firstErr = "none" then firstErr := rerr end if;        \* select { firstErr <- err: default }
         if act # "closeAndStop" then goto r_x1 end if;
r_close: Log([a |-> "gate", p |-> "rdr", g |-> "reader.beforeClose"]);
         call doClose(FALSE);
r_x1:    loopsDone := loopsDone + 1;                               \* defer handshakeLoopsFinished.Done() (runs first)
r_x2:    if established /\ ReaderClosesDecrypted then              \* gate reader.beforeCloseDecrypted
           if decClosed then panic := "close of closed channel" else decClosed := TRUE end if;
         end if;
         Log([a |-> "gate", p |-> "rdr", g |-> "reader.beforeCloseDecrypted"]);
r_x3:    hsCancel := hsCancel \cup {rg};                           \* cancel()
         rdRun := FALSE;
         goto r_idle;
end process;

\* ---------------------------------------------------------------- user calls
fair process UserHs \in Hs
begin
hs_call: Log([a |-> "call", p |-> self, op |-> "handshake"]);
         call doHandshake(HsCtxDeadline);
hs_ret:  ret[self] := Append(ret[self], hres[self]);
end process;

fair process UserClose \in Cl
variables kd = 0, kn = 0;
begin
k_loop:  while kn < CloseReps do
           kn := kn + 1;
           Log([a |-> "call", p |-> self, op |-> "close"]);
           call doClose(TRUE);
k_hd:      kd := hsDoneCur;            \* closeLock: handshakeDone := c.handshakeDone
k_wait:    await kd = 0 \/ kd \in hsDoneClosed;              \* <-handshakeDone
           ret[self] := Append(ret[self], "nil");
         end while;
end process;

fair process UserRead \in Rd
variables un = 0;
begin
u_loop:  while un < ReadReps do
           un := un + 1;
           Log([a |-> "call", p |-> self, op |-> "read"]);
           call doHandshake(FALSE);                                \* c.Handshake()
u_hs:      if hres[self] # "nil" then
             ret[self] := Append(ret[self], hres[self]);
           else
u_dl0:       if rdl then
               ret[self] := Append(ret[self], "deadline");
             else
u_sel:         either await closed; ret[self] := Append(ret[self], "EOF");
               or     await rdl; ret[self] := Append(ret[self], "deadline");
               or     await dec # "empty"; ret[self] := Append(ret[self], dec); dec := "empty";
               or     await decClosed /\ dec = "empty";
                      ret[self] := Append(ret[self], IF ReadEOFOnClosedChannel THEN "EOF" ELSE "nil");
               end either;
             end if;
           end if;
         end while;
end process;

fair process UserWrite \in Wr
begin
w_chk:   Log([a |-> "call", p |-> self, op |-> "write"]);
         if closed then ret[self] := Append(ret[self], "closed"); goto w_end end if;
w_dl0:   if wdl then ret[self] := Append(ret[self], "deadline"); goto w_end end if;
w_hs:    call doHandshake(FALSE);
w_hs2:   if hres[self] # "nil" then ret[self] := Append(ret[self], hres[self]); goto w_end end if;
w_path:  Log([a |-> "gate", p |-> self, g |-> "write.beforeLock"]);
         if WriteViaFsm then
w_sub:     cmd[self] := "offered";                                 \* submitPostHandshakeCommand
w_sub2:    either await cmd[self] # "offered";
           or     await cmd[self] = "offered" /\ (closed \/ wdl); cmd[self] := "none";
                  ret[self] := Append(ret[self], IF closed THEN "closed" ELSE "deadline"); goto w_end;
           or     await cmd[self] = "offered" /\ fsmClosed; cmd[self] := "none";
                  ret[self] := Append(ret[self], "closed"); goto w_end;
           end either;
w_cmpl:    either await cmd[self] \in {"ok", "err"};                \* waitPostHandshakeCompletion
                  ret[self] := Append(ret[self], IF cmd[self] = "ok" THEN "nil" ELSE "closed");
           or     await closed \/ wdl;
                  ret[self] := Append(ret[self], IF closed THEN "closed" ELSE "deadline");
           or     await fsmClosed;
                  ret[self] := Append(ret[self], IF cmd[self] = "ok" THEN "nil" ELSE "closed");
           end either;
         else
w_lock:    await writeLock = "none"; writeLock := self;            \* writePacketsWithResult
w_send:    either await ~wblock /\ ~ncClosed; ret[self] := Append(ret[self], "nil");
           or     await ncClosed; ret[self] := Append(ret[self], "closed");
           or     await wblock /\ ~ncClosed /\ (closed \/ wdl);
                  ret[self] := Append(ret[self], IF closed THEN "closed" ELSE "deadline");
           end either;
w_unl:     writeLock := "none";
         end if;
w_end:   skip;
end process;

fair process Deadline \in Dl
begin
d_rd:    rdl := TRUE;                                              \* SetDeadline(past): read deadline,
         Log([a |-> "call", p |-> self, op |-> "deadline"]);
d_wr:    wdl := TRUE; hsCtxDone := TRUE;                           \* then write deadline (and the handshake context)
         ret[self] := Append(ret[self], "nil");
end process;

fair process Transport = "net"
begin
t_unb:   await wblock; wblock := FALSE;
end process;

end algorithm; *)
\* BEGIN TRANSLATION
VARIABLES pc, closed, byUser, ncClosed, hsMutex, writeLock, established, gen, 
          hsCancel, rdCancel, hsDoneCur, hsDoneClosed, dec, decClosed, cnOnce, 
          firstErr, loopsDone, fsmRun, rdRun, fsmClosed, hsLeft, offer, cmd, 
          inbox, rdl, wdl, hsCtxDone, wblock, cnSent, alertSeen, teardowns, 
          panic, ret, hres, openClose, hist, stack

(* define statement *)
DecFree == dec = "empty" /\ ~decClosed

VARIABLES byU, cg, prevByUser, wasClosed, hctx, herr, fst, ferr, fg, fwr, d, 
          rerr, act, rg, kd, kn, un

vars == << pc, closed, byUser, ncClosed, hsMutex, writeLock, established, gen, 
           hsCancel, rdCancel, hsDoneCur, hsDoneClosed, dec, decClosed, 
           cnOnce, firstErr, loopsDone, fsmRun, rdRun, fsmClosed, hsLeft, 
           offer, cmd, inbox, rdl, wdl, hsCtxDone, wblock, cnSent, alertSeen, 
           teardowns, panic, ret, hres, openClose, hist, stack, byU, cg, 
           prevByUser, wasClosed, hctx, herr, fst, ferr, fg, fwr, d, rerr, 
           act, rg, kd, kn, un >>

ProcSet == {"fsm"} \cup {"rdr"} \cup (Hs) \cup (Cl) \cup (Rd) \cup (Wr) \cup (Dl) \cup {"net"}

Init == (* Global variables *)
        /\ closed = FALSE
        /\ byUser = FALSE
        /\ ncClosed = FALSE
        /\ hsMutex = "none"
        /\ writeLock = "none"
        /\ established = StartEstablished
        /\ gen = IF StartEstablished THEN 1 ELSE 0
        /\ hsCancel = {}
        /\ rdCancel = {}
        /\ hsDoneCur = IF StartEstablished THEN 1 ELSE 0
        /\ hsDoneClosed = IF StartEstablished THEN {1} ELSE {}
        /\ dec = "empty"
        /\ decClosed = FALSE
        /\ cnOnce = "idle"
        /\ firstErr = "none"
        /\ loopsDone = 0
        /\ fsmRun = StartEstablished
        /\ rdRun = StartEstablished
        /\ fsmClosed = FALSE
        /\ hsLeft = IF StartEstablished THEN 0 ELSE HsLen
        /\ offer = "none"
        /\ cmd = [w \in Wr |-> "none"]
        /\ inbox = PeerScript
        /\ rdl = FALSE
        /\ wdl = FALSE
        /\ hsCtxDone = FALSE
        /\ wblock = TransportBlocks
        /\ cnSent = 0
        /\ alertSeen = FALSE
        /\ teardowns = 0
        /\ panic = "none"
        /\ ret = [p \in Callers |-> <<>>]
        /\ hres = [p \in HsCallers |-> "none"]
        /\ openClose = {}
        /\ hist = <<>>
        (* Procedure doClose *)
        /\ byU = [ self \in ProcSet |-> FALSE]
        /\ cg = [ self \in ProcSet |-> 0]
        /\ prevByUser = [ self \in ProcSet |-> FALSE]
        /\ wasClosed = [ self \in ProcSet |-> FALSE]
        (* Procedure doHandshake *)
        /\ hctx = [ self \in ProcSet |-> FALSE]
        /\ herr = [ self \in ProcSet |-> "none"]
        (* Process Fsm *)
        /\ fst = "idle"
        /\ ferr = "none"
        /\ fg = 0
        /\ fwr = "none"
        (* Process Reader *)
        /\ d = "none"
        /\ rerr = "none"
        /\ act = "none"
        /\ rg = 0
        (* Process UserClose *)
        /\ kd = [self \in Cl |-> 0]
        /\ kn = [self \in Cl |-> 0]
        (* Process UserRead *)
        /\ un = [self \in Rd |-> 0]
        /\ stack = [self \in ProcSet |-> << >>]
        /\ pc = [self \in ProcSet |-> CASE self = "fsm" -> "f_idle"
                                        [] self = "rdr" -> "r_idle"
                                        [] self \in Hs -> "hs_call"
                                        [] self \in Cl -> "k_loop"
                                        [] self \in Rd -> "u_loop"
                                        [] self \in Wr -> "w_chk"
                                        [] self \in Dl -> "d_rd"
                                        [] self = "net" -> "t_unb"]

c_lock(self) == /\ pc[self] = "c_lock"
                /\ IF UseCloseLock
                      THEN /\ cg' = [cg EXCEPT ![self] = gen]
                           /\ prevByUser' = [prevByUser EXCEPT ![self] = byUser]
                           /\ wasClosed' = [wasClosed EXCEPT ![self] = closed]
                           /\ IF byU[self]
                                 THEN /\ byUser' = TRUE
                                 ELSE /\ TRUE
                                      /\ UNCHANGED byUser
                           /\ IF ~closed
                                 THEN /\ closed' = TRUE
                                      /\ IF byU[self] /\ established /\ ~alertSeen
                                            THEN /\ openClose' = (openClose \cup {self})
                                            ELSE /\ TRUE
                                                 /\ UNCHANGED openClose
                                      /\ IF ~ReaderClosesDecrypted
                                            THEN /\ IF decClosed
                                                       THEN /\ panic' = "close of closed channel"
                                                            /\ UNCHANGED decClosed
                                                       ELSE /\ decClosed' = TRUE
                                                            /\ panic' = panic
                                            ELSE /\ TRUE
                                                 /\ UNCHANGED << decClosed, 
                                                                 panic >>
                                 ELSE /\ TRUE
                                      /\ UNCHANGED << closed, decClosed, panic, 
                                                      openClose >>
                           /\ pc' = [pc EXCEPT ![self] = "c_can1"]
                      ELSE /\ pc' = [pc EXCEPT ![self] = "c_rd"]
                           /\ UNCHANGED << closed, byUser, decClosed, panic, 
                                           openClose, cg, prevByUser, 
                                           wasClosed >>
                /\ UNCHANGED << ncClosed, hsMutex, writeLock, established, gen, 
                                hsCancel, rdCancel, hsDoneCur, hsDoneClosed, 
                                dec, cnOnce, firstErr, loopsDone, fsmRun, 
                                rdRun, fsmClosed, hsLeft, offer, cmd, inbox, 
                                rdl, wdl, hsCtxDone, wblock, cnSent, alertSeen, 
                                teardowns, ret, hres, hist, stack, byU, hctx, 
                                herr, fst, ferr, fg, fwr, d, rerr, act, rg, kd, 
                                kn, un >>

c_rd(self) == /\ pc[self] = "c_rd"
              /\ cg' = [cg EXCEPT ![self] = gen]
              /\ prevByUser' = [prevByUser EXCEPT ![self] = byUser]
              /\ pc' = [pc EXCEPT ![self] = "c_set"]
              /\ UNCHANGED << closed, byUser, ncClosed, hsMutex, writeLock, 
                              established, gen, hsCancel, rdCancel, hsDoneCur, 
                              hsDoneClosed, dec, decClosed, cnOnce, firstErr, 
                              loopsDone, fsmRun, rdRun, fsmClosed, hsLeft, 
                              offer, cmd, inbox, rdl, wdl, hsCtxDone, wblock, 
                              cnSent, alertSeen, teardowns, panic, ret, hres, 
                              openClose, hist, stack, byU, wasClosed, hctx, 
                              herr, fst, ferr, fg, fwr, d, rerr, act, rg, kd, 
                              kn, un >>

c_set(self) == /\ pc[self] = "c_set"
               /\ IF byU[self]
                     THEN /\ byUser' = TRUE
                     ELSE /\ TRUE
                          /\ UNCHANGED byUser
               /\ pc' = [pc EXCEPT ![self] = "c_chk"]
               /\ UNCHANGED << closed, ncClosed, hsMutex, writeLock, 
                               established, gen, hsCancel, rdCancel, hsDoneCur, 
                               hsDoneClosed, dec, decClosed, cnOnce, firstErr, 
                               loopsDone, fsmRun, rdRun, fsmClosed, hsLeft, 
                               offer, cmd, inbox, rdl, wdl, hsCtxDone, wblock, 
                               cnSent, alertSeen, teardowns, panic, ret, hres, 
                               openClose, hist, stack, byU, cg, prevByUser, 
                               wasClosed, hctx, herr, fst, ferr, fg, fwr, d, 
                               rerr, act, rg, kd, kn, un >>

c_chk(self) == /\ pc[self] = "c_chk"
               /\ wasClosed' = [wasClosed EXCEPT ![self] = closed]
               /\ pc' = [pc EXCEPT ![self] = "c_cls"]
               /\ UNCHANGED << closed, byUser, ncClosed, hsMutex, writeLock, 
                               established, gen, hsCancel, rdCancel, hsDoneCur, 
                               hsDoneClosed, dec, decClosed, cnOnce, firstErr, 
                               loopsDone, fsmRun, rdRun, fsmClosed, hsLeft, 
                               offer, cmd, inbox, rdl, wdl, hsCtxDone, wblock, 
                               cnSent, alertSeen, teardowns, panic, ret, hres, 
                               openClose, hist, stack, byU, cg, prevByUser, 
                               hctx, herr, fst, ferr, fg, fwr, d, rerr, act, 
                               rg, kd, kn, un >>

c_cls(self) == /\ pc[self] = "c_cls"
               /\ IF ~wasClosed[self]
                     THEN /\ closed' = TRUE
                          /\ IF byU[self] /\ established /\ ~alertSeen
                                THEN /\ openClose' = (openClose \cup {self})
                                ELSE /\ TRUE
                                     /\ UNCHANGED openClose
                          /\ IF ~ReaderClosesDecrypted
                                THEN /\ IF decClosed
                                           THEN /\ panic' = "close of closed channel"
                                                /\ UNCHANGED decClosed
                                           ELSE /\ decClosed' = TRUE
                                                /\ panic' = panic
                                ELSE /\ TRUE
                                     /\ UNCHANGED << decClosed, panic >>
                     ELSE /\ TRUE
                          /\ UNCHANGED << closed, decClosed, panic, openClose >>
               /\ pc' = [pc EXCEPT ![self] = "c_can1"]
               /\ UNCHANGED << byUser, ncClosed, hsMutex, writeLock, 
                               established, gen, hsCancel, rdCancel, hsDoneCur, 
                               hsDoneClosed, dec, cnOnce, firstErr, loopsDone, 
                               fsmRun, rdRun, fsmClosed, hsLeft, offer, cmd, 
                               inbox, rdl, wdl, hsCtxDone, wblock, cnSent, 
                               alertSeen, teardowns, ret, hres, hist, stack, 
                               byU, cg, prevByUser, wasClosed, hctx, herr, fst, 
                               ferr, fg, fwr, d, rerr, act, rg, kd, kn, un >>

c_can1(self) == /\ pc[self] = "c_can1"
                /\ hsCancel' = (hsCancel \cup {cg[self]})
                /\ IF Record
                      THEN /\ hist' = Append(hist, ([a |-> "gate", p |-> self, g |-> "close.afterFlag"]))
                      ELSE /\ TRUE
                           /\ hist' = hist
                /\ pc' = [pc EXCEPT ![self] = "c_can2"]
                /\ UNCHANGED << closed, byUser, ncClosed, hsMutex, writeLock, 
                                established, gen, rdCancel, hsDoneCur, 
                                hsDoneClosed, dec, decClosed, cnOnce, firstErr, 
                                loopsDone, fsmRun, rdRun, fsmClosed, hsLeft, 
                                offer, cmd, inbox, rdl, wdl, hsCtxDone, wblock, 
                                cnSent, alertSeen, teardowns, panic, ret, hres, 
                                openClose, stack, byU, cg, prevByUser, 
                                wasClosed, hctx, herr, fst, ferr, fg, fwr, d, 
                                rerr, act, rg, kd, kn, un >>

c_can2(self) == /\ pc[self] = "c_can2"
                /\ rdCancel' = (rdCancel \cup {cg[self]})
                /\ pc' = [pc EXCEPT ![self] = "c_ret"]
                /\ UNCHANGED << closed, byUser, ncClosed, hsMutex, writeLock, 
                                established, gen, hsCancel, hsDoneCur, 
                                hsDoneClosed, dec, decClosed, cnOnce, firstErr, 
                                loopsDone, fsmRun, rdRun, fsmClosed, hsLeft, 
                                offer, cmd, inbox, rdl, wdl, hsCtxDone, wblock, 
                                cnSent, alertSeen, teardowns, panic, ret, hres, 
                                openClose, hist, stack, byU, cg, prevByUser, 
                                wasClosed, hctx, herr, fst, ferr, fg, fwr, d, 
                                rerr, act, rg, kd, kn, un >>

c_ret(self) == /\ pc[self] = "c_ret"
               /\ IF prevByUser[self] \/ wasClosed[self]
                     THEN /\ pc' = [pc EXCEPT ![self] = Head(stack[self]).pc]
                          /\ cg' = [cg EXCEPT ![self] = Head(stack[self]).cg]
                          /\ prevByUser' = [prevByUser EXCEPT ![self] = Head(stack[self]).prevByUser]
                          /\ wasClosed' = [wasClosed EXCEPT ![self] = Head(stack[self]).wasClosed]
                          /\ byU' = [byU EXCEPT ![self] = Head(stack[self]).byU]
                          /\ stack' = [stack EXCEPT ![self] = Tail(stack[self])]
                     ELSE /\ pc' = [pc EXCEPT ![self] = "c_ntf"]
                          /\ UNCHANGED << stack, byU, cg, prevByUser, 
                                          wasClosed >>
               /\ UNCHANGED << closed, byUser, ncClosed, hsMutex, writeLock, 
                               established, gen, hsCancel, rdCancel, hsDoneCur, 
                               hsDoneClosed, dec, decClosed, cnOnce, firstErr, 
                               loopsDone, fsmRun, rdRun, fsmClosed, hsLeft, 
                               offer, cmd, inbox, rdl, wdl, hsCtxDone, wblock, 
                               cnSent, alertSeen, teardowns, panic, ret, hres, 
                               openClose, hist, hctx, herr, fst, ferr, fg, fwr, 
                               d, rerr, act, rg, kd, kn, un >>

c_ntf(self) == /\ pc[self] = "c_ntf"
               /\ IF Record
                     THEN /\ hist' = Append(hist, ([a |-> "gate", p |-> self, g |-> "close.beforeNotify"]))
                     ELSE /\ TRUE
                          /\ hist' = hist
               /\ IF established /\ byU[self] /\ CloseSendsNotify
                     THEN /\ IF CloseNotifyOnce
                                THEN /\ cnOnce # "running"
                                     /\ IF cnOnce = "done"
                                           THEN /\ pc' = [pc EXCEPT ![self] = "c_nc"]
                                                /\ UNCHANGED cnOnce
                                           ELSE /\ cnOnce' = "running"
                                                /\ pc' = [pc EXCEPT ![self] = "c_ntfl"]
                                ELSE /\ pc' = [pc EXCEPT ![self] = "c_ntfl"]
                                     /\ UNCHANGED cnOnce
                     ELSE /\ pc' = [pc EXCEPT ![self] = "c_nc"]
                          /\ UNCHANGED cnOnce
               /\ UNCHANGED << closed, byUser, ncClosed, hsMutex, writeLock, 
                               established, gen, hsCancel, rdCancel, hsDoneCur, 
                               hsDoneClosed, dec, decClosed, firstErr, 
                               loopsDone, fsmRun, rdRun, fsmClosed, hsLeft, 
                               offer, cmd, inbox, rdl, wdl, hsCtxDone, wblock, 
                               cnSent, alertSeen, teardowns, panic, ret, hres, 
                               openClose, stack, byU, cg, prevByUser, 
                               wasClosed, hctx, herr, fst, ferr, fg, fwr, d, 
                               rerr, act, rg, kd, kn, un >>

c_ntfl(self) == /\ pc[self] = "c_ntfl"
                /\ writeLock = "none"
                /\ writeLock' = self
                /\ pc' = [pc EXCEPT ![self] = "c_ntfw"]
                /\ UNCHANGED << closed, byUser, ncClosed, hsMutex, established, 
                                gen, hsCancel, rdCancel, hsDoneCur, 
                                hsDoneClosed, dec, decClosed, cnOnce, firstErr, 
                                loopsDone, fsmRun, rdRun, fsmClosed, hsLeft, 
                                offer, cmd, inbox, rdl, wdl, hsCtxDone, wblock, 
                                cnSent, alertSeen, teardowns, panic, ret, hres, 
                                openClose, hist, stack, byU, cg, prevByUser, 
                                wasClosed, hctx, herr, fst, ferr, fg, fwr, d, 
                                rerr, act, rg, kd, kn, un >>

c_ntfw(self) == /\ pc[self] = "c_ntfw"
                /\ ~wblock \/ ncClosed
                /\ IF ~ncClosed
                      THEN /\ cnSent' = cnSent + 1
                      ELSE /\ TRUE
                           /\ UNCHANGED cnSent
                /\ writeLock' = "none"
                /\ IF CloseNotifyOnce
                      THEN /\ cnOnce' = "done"
                      ELSE /\ TRUE
                           /\ UNCHANGED cnOnce
                /\ pc' = [pc EXCEPT ![self] = "c_nc"]
                /\ UNCHANGED << closed, byUser, ncClosed, hsMutex, established, 
                                gen, hsCancel, rdCancel, hsDoneCur, 
                                hsDoneClosed, dec, decClosed, firstErr, 
                                loopsDone, fsmRun, rdRun, fsmClosed, hsLeft, 
                                offer, cmd, inbox, rdl, wdl, hsCtxDone, wblock, 
                                alertSeen, teardowns, panic, ret, hres, 
                                openClose, hist, stack, byU, cg, prevByUser, 
                                wasClosed, hctx, herr, fst, ferr, fg, fwr, d, 
                                rerr, act, rg, kd, kn, un >>

c_nc(self) == /\ pc[self] = "c_nc"
              /\ ncClosed' = TRUE
              /\ teardowns' = teardowns + 1
              /\ IF Record
                    THEN /\ hist' = Append(hist, ([a |-> "gate", p |-> self, g |-> "close.beforeConnClose"]))
                    ELSE /\ TRUE
                         /\ hist' = hist
              /\ pc' = [pc EXCEPT ![self] = Head(stack[self]).pc]
              /\ cg' = [cg EXCEPT ![self] = Head(stack[self]).cg]
              /\ prevByUser' = [prevByUser EXCEPT ![self] = Head(stack[self]).prevByUser]
              /\ wasClosed' = [wasClosed EXCEPT ![self] = Head(stack[self]).wasClosed]
              /\ byU' = [byU EXCEPT ![self] = Head(stack[self]).byU]
              /\ stack' = [stack EXCEPT ![self] = Tail(stack[self])]
              /\ UNCHANGED << closed, byUser, hsMutex, writeLock, established, 
                              gen, hsCancel, rdCancel, hsDoneCur, hsDoneClosed, 
                              dec, decClosed, cnOnce, firstErr, loopsDone, 
                              fsmRun, rdRun, fsmClosed, hsLeft, offer, cmd, 
                              inbox, rdl, wdl, hsCtxDone, wblock, cnSent, 
                              alertSeen, panic, ret, hres, openClose, hctx, 
                              herr, fst, ferr, fg, fwr, d, rerr, act, rg, kd, 
                              kn, un >>

doClose(self) == c_lock(self) \/ c_rd(self) \/ c_set(self) \/ c_chk(self)
                    \/ c_cls(self) \/ c_can1(self) \/ c_can2(self)
                    \/ c_ret(self) \/ c_ntf(self) \/ c_ntfl(self)
                    \/ c_ntfw(self) \/ c_nc(self)

h_lock(self) == /\ pc[self] = "h_lock"
                /\ hsMutex = "none"
                /\ hsMutex' = self
                /\ IF established
                      THEN /\ hres' = [hres EXCEPT ![self] = "nil"]
                           /\ pc' = [pc EXCEPT ![self] = "h_unlock"]
                      ELSE /\ pc' = [pc EXCEPT ![self] = "h_done"]
                           /\ hres' = hres
                /\ UNCHANGED << closed, byUser, ncClosed, writeLock, 
                                established, gen, hsCancel, rdCancel, 
                                hsDoneCur, hsDoneClosed, dec, decClosed, 
                                cnOnce, firstErr, loopsDone, fsmRun, rdRun, 
                                fsmClosed, hsLeft, offer, cmd, inbox, rdl, wdl, 
                                hsCtxDone, wblock, cnSent, alertSeen, 
                                teardowns, panic, ret, openClose, hist, stack, 
                                byU, cg, prevByUser, wasClosed, hctx, herr, 
                                fst, ferr, fg, fwr, d, rerr, act, rg, kd, kn, 
                                un >>

h_done(self) == /\ pc[self] = "h_done"
                /\ hsDoneCur' = gen + 1
                /\ pc' = [pc EXCEPT ![self] = "h_setup"]
                /\ UNCHANGED << closed, byUser, ncClosed, hsMutex, writeLock, 
                                established, gen, hsCancel, rdCancel, 
                                hsDoneClosed, dec, decClosed, cnOnce, firstErr, 
                                loopsDone, fsmRun, rdRun, fsmClosed, hsLeft, 
                                offer, cmd, inbox, rdl, wdl, hsCtxDone, wblock, 
                                cnSent, alertSeen, teardowns, panic, ret, hres, 
                                openClose, hist, stack, byU, cg, prevByUser, 
                                wasClosed, hctx, herr, fst, ferr, fg, fwr, d, 
                                rerr, act, rg, kd, kn, un >>

h_setup(self) == /\ pc[self] = "h_setup"
                 /\ gen' = gen + 1
                 /\ fsmClosed' = FALSE
                 /\ firstErr' = "none"
                 /\ loopsDone' = 0
                 /\ offer' = "none"
                 /\ pc' = [pc EXCEPT ![self] = "h_go"]
                 /\ UNCHANGED << closed, byUser, ncClosed, hsMutex, writeLock, 
                                 established, hsCancel, rdCancel, hsDoneCur, 
                                 hsDoneClosed, dec, decClosed, cnOnce, fsmRun, 
                                 rdRun, hsLeft, cmd, inbox, rdl, wdl, 
                                 hsCtxDone, wblock, cnSent, alertSeen, 
                                 teardowns, panic, ret, hres, openClose, hist, 
                                 stack, byU, cg, prevByUser, wasClosed, hctx, 
                                 herr, fst, ferr, fg, fwr, d, rerr, act, rg, 
                                 kd, kn, un >>

h_go(self) == /\ pc[self] = "h_go"
              /\ ~fsmRun /\ ~rdRun
              /\ fsmRun' = TRUE
              /\ rdRun' = TRUE
              /\ pc' = [pc EXCEPT ![self] = "h_sel"]
              /\ UNCHANGED << closed, byUser, ncClosed, hsMutex, writeLock, 
                              established, gen, hsCancel, rdCancel, hsDoneCur, 
                              hsDoneClosed, dec, decClosed, cnOnce, firstErr, 
                              loopsDone, fsmClosed, hsLeft, offer, cmd, inbox, 
                              rdl, wdl, hsCtxDone, wblock, cnSent, alertSeen, 
                              teardowns, panic, ret, hres, openClose, hist, 
                              stack, byU, cg, prevByUser, wasClosed, hctx, 
                              herr, fst, ferr, fg, fwr, d, rerr, act, rg, kd, 
                              kn, un >>

h_sel(self) == /\ pc[self] = "h_sel"
               /\ \/ /\ firstErr # "none"
                     /\ herr' = [herr EXCEPT ![self] = firstErr]
                     /\ pc' = [pc EXCEPT ![self] = "h_c1"]
                     /\ hres' = hres
                  \/ /\ hctx[self] /\ hsCtxDone
                     /\ herr' = [herr EXCEPT ![self] = "deadline"]
                     /\ pc' = [pc EXCEPT ![self] = "h_c1"]
                     /\ hres' = hres
                  \/ /\ established
                     /\ hres' = [hres EXCEPT ![self] = "nil"]
                     /\ pc' = [pc EXCEPT ![self] = "h_close"]
                     /\ herr' = herr
               /\ UNCHANGED << closed, byUser, ncClosed, hsMutex, writeLock, 
                               established, gen, hsCancel, rdCancel, hsDoneCur, 
                               hsDoneClosed, dec, decClosed, cnOnce, firstErr, 
                               loopsDone, fsmRun, rdRun, fsmClosed, hsLeft, 
                               offer, cmd, inbox, rdl, wdl, hsCtxDone, wblock, 
                               cnSent, alertSeen, teardowns, panic, ret, 
                               openClose, hist, stack, byU, cg, prevByUser, 
                               wasClosed, hctx, fst, ferr, fg, fwr, d, rerr, 
                               act, rg, kd, kn, un >>

h_c1(self) == /\ pc[self] = "h_c1"
              /\ rdCancel' = (rdCancel \cup {gen})
              /\ hsCancel' = (hsCancel \cup {gen})
              /\ pc' = [pc EXCEPT ![self] = "h_wait"]
              /\ UNCHANGED << closed, byUser, ncClosed, hsMutex, writeLock, 
                              established, gen, hsDoneCur, hsDoneClosed, dec, 
                              decClosed, cnOnce, firstErr, loopsDone, fsmRun, 
                              rdRun, fsmClosed, hsLeft, offer, cmd, inbox, rdl, 
                              wdl, hsCtxDone, wblock, cnSent, alertSeen, 
                              teardowns, panic, ret, hres, openClose, hist, 
                              stack, byU, cg, prevByUser, wasClosed, hctx, 
                              herr, fst, ferr, fg, fwr, d, rerr, act, rg, kd, 
                              kn, un >>

h_wait(self) == /\ pc[self] = "h_wait"
                /\ loopsDone = 2
                /\ hres' = [hres EXCEPT ![self] = IF herr[self] = "canceled" /\ established THEN "nil" ELSE herr[self]]
                /\ pc' = [pc EXCEPT ![self] = "h_close"]
                /\ UNCHANGED << closed, byUser, ncClosed, hsMutex, writeLock, 
                                established, gen, hsCancel, rdCancel, 
                                hsDoneCur, hsDoneClosed, dec, decClosed, 
                                cnOnce, firstErr, loopsDone, fsmRun, rdRun, 
                                fsmClosed, hsLeft, offer, cmd, inbox, rdl, wdl, 
                                hsCtxDone, wblock, cnSent, alertSeen, 
                                teardowns, panic, ret, openClose, hist, stack, 
                                byU, cg, prevByUser, wasClosed, hctx, herr, 
                                fst, ferr, fg, fwr, d, rerr, act, rg, kd, kn, 
                                un >>

h_close(self) == /\ pc[self] = "h_close"
                 /\ hsDoneClosed' = (hsDoneClosed \cup {hsDoneCur})
                 /\ pc' = [pc EXCEPT ![self] = "h_unlock"]
                 /\ UNCHANGED << closed, byUser, ncClosed, hsMutex, writeLock, 
                                 established, gen, hsCancel, rdCancel, 
                                 hsDoneCur, dec, decClosed, cnOnce, firstErr, 
                                 loopsDone, fsmRun, rdRun, fsmClosed, hsLeft, 
                                 offer, cmd, inbox, rdl, wdl, hsCtxDone, 
                                 wblock, cnSent, alertSeen, teardowns, panic, 
                                 ret, hres, openClose, hist, stack, byU, cg, 
                                 prevByUser, wasClosed, hctx, herr, fst, ferr, 
                                 fg, fwr, d, rerr, act, rg, kd, kn, un >>

h_unlock(self) == /\ pc[self] = "h_unlock"
                  /\ hsMutex' = "none"
                  /\ pc' = [pc EXCEPT ![self] = Head(stack[self]).pc]
                  /\ herr' = [herr EXCEPT ![self] = Head(stack[self]).herr]
                  /\ hctx' = [hctx EXCEPT ![self] = Head(stack[self]).hctx]
                  /\ stack' = [stack EXCEPT ![self] = Tail(stack[self])]
                  /\ UNCHANGED << closed, byUser, ncClosed, writeLock, 
                                  established, gen, hsCancel, rdCancel, 
                                  hsDoneCur, hsDoneClosed, dec, decClosed, 
                                  cnOnce, firstErr, loopsDone, fsmRun, rdRun, 
                                  fsmClosed, hsLeft, offer, cmd, inbox, rdl, 
                                  wdl, hsCtxDone, wblock, cnSent, alertSeen, 
                                  teardowns, panic, ret, hres, openClose, hist, 
                                  byU, cg, prevByUser, wasClosed, fst, ferr, 
                                  fg, fwr, d, rerr, act, rg, kd, kn, un >>

doHandshake(self) == h_lock(self) \/ h_done(self) \/ h_setup(self)
                        \/ h_go(self) \/ h_sel(self) \/ h_c1(self)
                        \/ h_wait(self) \/ h_close(self) \/ h_unlock(self)

f_idle == /\ pc["fsm"] = "f_idle"
          /\ fsmRun
          /\ fg' = gen
          /\ ferr' = "none"
          /\ fst' = IF established THEN "finish" ELSE IF IsClient THEN "send" ELSE "wait"
          /\ pc' = [pc EXCEPT !["fsm"] = "f_top"]
          /\ UNCHANGED << closed, byUser, ncClosed, hsMutex, writeLock, 
                          established, gen, hsCancel, rdCancel, hsDoneCur, 
                          hsDoneClosed, dec, decClosed, cnOnce, firstErr, 
                          loopsDone, fsmRun, rdRun, fsmClosed, hsLeft, offer, 
                          cmd, inbox, rdl, wdl, hsCtxDone, wblock, cnSent, 
                          alertSeen, teardowns, panic, ret, hres, openClose, 
                          hist, stack, byU, cg, prevByUser, wasClosed, hctx, 
                          herr, fwr, d, rerr, act, rg, kd, kn, un >>

f_top == /\ pc["fsm"] = "f_top"
         /\ IF fst = "finish"
               THEN /\ established' = TRUE
               ELSE /\ TRUE
                    /\ UNCHANGED established
         /\ IF fst = "send"
               THEN /\ IF Record
                          THEN /\ hist' = Append(hist, ([a |-> "gate", p |-> "fsm", g |-> "fsm.beforeSend"]))
                          ELSE /\ TRUE
                               /\ hist' = hist
                    /\ pc' = [pc EXCEPT !["fsm"] = "f_sendl"]
               ELSE /\ IF fst = "wait"
                          THEN /\ pc' = [pc EXCEPT !["fsm"] = "f_wait"]
                          ELSE /\ pc' = [pc EXCEPT !["fsm"] = "f_fin"]
                    /\ hist' = hist
         /\ UNCHANGED << closed, byUser, ncClosed, hsMutex, writeLock, gen, 
                         hsCancel, rdCancel, hsDoneCur, hsDoneClosed, dec, 
                         decClosed, cnOnce, firstErr, loopsDone, fsmRun, rdRun, 
                         fsmClosed, hsLeft, offer, cmd, inbox, rdl, wdl, 
                         hsCtxDone, wblock, cnSent, alertSeen, teardowns, 
                         panic, ret, hres, openClose, stack, byU, cg, 
                         prevByUser, wasClosed, hctx, herr, fst, ferr, fg, fwr, 
                         d, rerr, act, rg, kd, kn, un >>

f_sendl == /\ pc["fsm"] = "f_sendl"
           /\ writeLock = "none"
           /\ writeLock' = "fsm"
           /\ pc' = [pc EXCEPT !["fsm"] = "f_send"]
           /\ UNCHANGED << closed, byUser, ncClosed, hsMutex, established, gen, 
                           hsCancel, rdCancel, hsDoneCur, hsDoneClosed, dec, 
                           decClosed, cnOnce, firstErr, loopsDone, fsmRun, 
                           rdRun, fsmClosed, hsLeft, offer, cmd, inbox, rdl, 
                           wdl, hsCtxDone, wblock, cnSent, alertSeen, 
                           teardowns, panic, ret, hres, openClose, hist, stack, 
                           byU, cg, prevByUser, wasClosed, hctx, herr, fst, 
                           ferr, fg, fwr, d, rerr, act, rg, kd, kn, un >>

f_send == /\ pc["fsm"] = "f_send"
          /\ ~wblock \/ ncClosed \/ fg \in hsCancel
          /\ IF ncClosed
                THEN /\ ferr' = "netclosed"
                ELSE /\ IF wblock
                           THEN /\ ferr' = "canceled"
                           ELSE /\ TRUE
                                /\ ferr' = ferr
          /\ writeLock' = "none"
          /\ IF LeaseAcrossSend /\ offer = "taken"
                THEN /\ offer' = "done"
                ELSE /\ TRUE
                     /\ offer' = offer
          /\ fst' = (IF hsLeft = 0 THEN "finish" ELSE "wait")
          /\ IF ncClosed \/ wblock
                THEN /\ pc' = [pc EXCEPT !["fsm"] = "f_exit"]
                ELSE /\ pc' = [pc EXCEPT !["fsm"] = "f_top"]
          /\ UNCHANGED << closed, byUser, ncClosed, hsMutex, established, gen, 
                          hsCancel, rdCancel, hsDoneCur, hsDoneClosed, dec, 
                          decClosed, cnOnce, firstErr, loopsDone, fsmRun, 
                          rdRun, fsmClosed, hsLeft, cmd, inbox, rdl, wdl, 
                          hsCtxDone, wblock, cnSent, alertSeen, teardowns, 
                          panic, ret, hres, openClose, hist, stack, byU, cg, 
                          prevByUser, wasClosed, hctx, herr, fg, fwr, d, rerr, 
                          act, rg, kd, kn, un >>

f_wait == /\ pc["fsm"] = "f_wait"
          /\ \/ /\ offer = "offered"
                /\ offer' = "taken"
                /\ pc' = [pc EXCEPT !["fsm"] = "f_parse"]
                /\ ferr' = ferr
             \/ /\ fg \in hsCancel
                /\ ferr' = "canceled"
                /\ pc' = [pc EXCEPT !["fsm"] = "f_exit"]
                /\ offer' = offer
          /\ UNCHANGED << closed, byUser, ncClosed, hsMutex, writeLock, 
                          established, gen, hsCancel, rdCancel, hsDoneCur, 
                          hsDoneClosed, dec, decClosed, cnOnce, firstErr, 
                          loopsDone, fsmRun, rdRun, fsmClosed, hsLeft, cmd, 
                          inbox, rdl, wdl, hsCtxDone, wblock, cnSent, 
                          alertSeen, teardowns, panic, ret, hres, openClose, 
                          hist, stack, byU, cg, prevByUser, wasClosed, hctx, 
                          herr, fst, fg, fwr, d, rerr, act, rg, kd, kn, un >>

f_parse == /\ pc["fsm"] = "f_parse"
           /\ IF hsLeft > 0
                 THEN /\ hsLeft' = hsLeft - 1
                 ELSE /\ TRUE
                      /\ UNCHANGED hsLeft
           /\ IF FsmClosesDone /\ ~LeaseAcrossSend
                 THEN /\ offer' = "done"
                 ELSE /\ TRUE
                      /\ offer' = offer
           /\ IF Record
                 THEN /\ hist' = Append(hist, ([a |-> "gate", p |-> "fsm", g |-> "fsm.afterParse"]))
                 ELSE /\ TRUE
                      /\ hist' = hist
           /\ fst' = "send"
           /\ pc' = [pc EXCEPT !["fsm"] = "f_top"]
           /\ UNCHANGED << closed, byUser, ncClosed, hsMutex, writeLock, 
                           established, gen, hsCancel, rdCancel, hsDoneCur, 
                           hsDoneClosed, dec, decClosed, cnOnce, firstErr, 
                           loopsDone, fsmRun, rdRun, fsmClosed, cmd, inbox, 
                           rdl, wdl, hsCtxDone, wblock, cnSent, alertSeen, 
                           teardowns, panic, ret, hres, openClose, stack, byU, 
                           cg, prevByUser, wasClosed, hctx, herr, ferr, fg, 
                           fwr, d, rerr, act, rg, kd, kn, un >>

f_fin == /\ pc["fsm"] = "f_fin"
         /\ \/ /\ offer = "offered"
               /\ offer' = "taken"
               /\ pc' = [pc EXCEPT !["fsm"] = "f_finrecv"]
               /\ UNCHANGED <<cmd, ferr, fwr>>
            \/ /\ \E w \in {x \in Wr : cmd[x] = "offered"}:
                    /\ cmd' = [cmd EXCEPT ![w] = "taken"]
                    /\ fwr' = w
               /\ pc' = [pc EXCEPT !["fsm"] = "f_cmdl"]
               /\ UNCHANGED <<offer, ferr>>
            \/ /\ fg \in hsCancel
               /\ ferr' = "canceled"
               /\ pc' = [pc EXCEPT !["fsm"] = "f_exit"]
               /\ UNCHANGED <<offer, cmd, fwr>>
         /\ UNCHANGED << closed, byUser, ncClosed, hsMutex, writeLock, 
                         established, gen, hsCancel, rdCancel, hsDoneCur, 
                         hsDoneClosed, dec, decClosed, cnOnce, firstErr, 
                         loopsDone, fsmRun, rdRun, fsmClosed, hsLeft, inbox, 
                         rdl, wdl, hsCtxDone, wblock, cnSent, alertSeen, 
                         teardowns, panic, ret, hres, openClose, hist, stack, 
                         byU, cg, prevByUser, wasClosed, hctx, herr, fst, fg, 
                         d, rerr, act, rg, kd, kn, un >>

f_finrecv == /\ pc["fsm"] = "f_finrecv"
             /\ IF FsmClosesDone
                   THEN /\ offer' = "done"
                   ELSE /\ TRUE
                        /\ offer' = offer
             /\ IF FinishResends
                   THEN /\ fst' = "send"
                   ELSE /\ TRUE
                        /\ fst' = fst
             /\ pc' = [pc EXCEPT !["fsm"] = "f_top"]
             /\ UNCHANGED << closed, byUser, ncClosed, hsMutex, writeLock, 
                             established, gen, hsCancel, rdCancel, hsDoneCur, 
                             hsDoneClosed, dec, decClosed, cnOnce, firstErr, 
                             loopsDone, fsmRun, rdRun, fsmClosed, hsLeft, cmd, 
                             inbox, rdl, wdl, hsCtxDone, wblock, cnSent, 
                             alertSeen, teardowns, panic, ret, hres, openClose, 
                             hist, stack, byU, cg, prevByUser, wasClosed, hctx, 
                             herr, ferr, fg, fwr, d, rerr, act, rg, kd, kn, un >>

f_cmdl == /\ pc["fsm"] = "f_cmdl"
          /\ writeLock = "none"
          /\ writeLock' = "fsm"
          /\ pc' = [pc EXCEPT !["fsm"] = "f_cmdw"]
          /\ UNCHANGED << closed, byUser, ncClosed, hsMutex, established, gen, 
                          hsCancel, rdCancel, hsDoneCur, hsDoneClosed, dec, 
                          decClosed, cnOnce, firstErr, loopsDone, fsmRun, 
                          rdRun, fsmClosed, hsLeft, offer, cmd, inbox, rdl, 
                          wdl, hsCtxDone, wblock, cnSent, alertSeen, teardowns, 
                          panic, ret, hres, openClose, hist, stack, byU, cg, 
                          prevByUser, wasClosed, hctx, herr, fst, ferr, fg, 
                          fwr, d, rerr, act, rg, kd, kn, un >>

f_cmdw == /\ pc["fsm"] = "f_cmdw"
          /\ ~wblock \/ ncClosed \/ closed \/ wdl
          /\ IF ncClosed \/ wblock
                THEN /\ cmd' = [cmd EXCEPT ![fwr] = "err"]
                ELSE /\ cmd' = [cmd EXCEPT ![fwr] = "ok"]
          /\ writeLock' = "none"
          /\ pc' = [pc EXCEPT !["fsm"] = "f_top"]
          /\ UNCHANGED << closed, byUser, ncClosed, hsMutex, established, gen, 
                          hsCancel, rdCancel, hsDoneCur, hsDoneClosed, dec, 
                          decClosed, cnOnce, firstErr, loopsDone, fsmRun, 
                          rdRun, fsmClosed, hsLeft, offer, inbox, rdl, wdl, 
                          hsCtxDone, wblock, cnSent, alertSeen, teardowns, 
                          panic, ret, hres, openClose, hist, stack, byU, cg, 
                          prevByUser, wasClosed, hctx, herr, fst, ferr, fg, 
                          fwr, d, rerr, act, rg, kd, kn, un >>

f_exit == /\ pc["fsm"] = "f_exit"
          /\ fsmClosed' = TRUE
          /\ cmd' = [w \in Wr |-> IF cmd[w] = "taken" THEN "err" ELSE cmd[w]]
          /\ IF LeaseAcrossSend /\ offer = "taken"
                THEN /\ offer' = "done"
                ELSE /\ TRUE
                     /\ offer' = offer
          /\ pc' = [pc EXCEPT !["fsm"] = "f_err"]
          /\ UNCHANGED << closed, byUser, ncClosed, hsMutex, writeLock, 
                          established, gen, hsCancel, rdCancel, hsDoneCur, 
                          hsDoneClosed, dec, decClosed, cnOnce, firstErr, 
                          loopsDone, fsmRun, rdRun, hsLeft, inbox, rdl, wdl, 
                          hsCtxDone, wblock, cnSent, alertSeen, teardowns, 
                          panic, ret, hres, openClose, hist, stack, byU, cg, 
                          prevByUser, wasClosed, hctx, herr, fst, ferr, fg, 
                          fwr, d, rerr, act, rg, kd, kn, un >>

f_err == /\ pc["fsm"] = "f_err"
         /\ IF ferr # "canceled" /\ firstErr = "none"
               THEN /\ firstErr' = ferr
               ELSE /\ TRUE
                    /\ UNCHANGED firstErr
         /\ pc' = [pc EXCEPT !["fsm"] = "f_done"]
         /\ UNCHANGED << closed, byUser, ncClosed, hsMutex, writeLock, 
                         established, gen, hsCancel, rdCancel, hsDoneCur, 
                         hsDoneClosed, dec, decClosed, cnOnce, loopsDone, 
                         fsmRun, rdRun, fsmClosed, hsLeft, offer, cmd, inbox, 
                         rdl, wdl, hsCtxDone, wblock, cnSent, alertSeen, 
                         teardowns, panic, ret, hres, openClose, hist, stack, 
                         byU, cg, prevByUser, wasClosed, hctx, herr, fst, ferr, 
                         fg, fwr, d, rerr, act, rg, kd, kn, un >>

f_done == /\ pc["fsm"] = "f_done"
          /\ loopsDone' = loopsDone + 1
          /\ fsmRun' = FALSE
          /\ pc' = [pc EXCEPT !["fsm"] = "f_idle"]
          /\ UNCHANGED << closed, byUser, ncClosed, hsMutex, writeLock, 
                          established, gen, hsCancel, rdCancel, hsDoneCur, 
                          hsDoneClosed, dec, decClosed, cnOnce, firstErr, 
                          rdRun, fsmClosed, hsLeft, offer, cmd, inbox, rdl, 
                          wdl, hsCtxDone, wblock, cnSent, alertSeen, teardowns, 
                          panic, ret, hres, openClose, hist, stack, byU, cg, 
                          prevByUser, wasClosed, hctx, herr, fst, ferr, fg, 
                          fwr, d, rerr, act, rg, kd, kn, un >>

Fsm == f_idle \/ f_top \/ f_sendl \/ f_send \/ f_wait \/ f_parse \/ f_fin
          \/ f_finrecv \/ f_cmdl \/ f_cmdw \/ f_exit \/ f_err \/ f_done

r_idle == /\ pc["rdr"] = "r_idle"
          /\ rdRun
          /\ rg' = gen
          /\ pc' = [pc EXCEPT !["rdr"] = "r_read"]
          /\ UNCHANGED << closed, byUser, ncClosed, hsMutex, writeLock, 
                          established, gen, hsCancel, rdCancel, hsDoneCur, 
                          hsDoneClosed, dec, decClosed, cnOnce, firstErr, 
                          loopsDone, fsmRun, rdRun, fsmClosed, hsLeft, offer, 
                          cmd, inbox, rdl, wdl, hsCtxDone, wblock, cnSent, 
                          alertSeen, teardowns, panic, ret, hres, openClose, 
                          hist, stack, byU, cg, prevByUser, wasClosed, hctx, 
                          herr, fst, ferr, fg, fwr, d, rerr, act, kd, kn, un >>

r_read == /\ pc["rdr"] = "r_read"
          /\ \/ /\ inbox # <<>> /\ ~ncClosed
                /\ d' = Head(inbox)
                /\ inbox' = Tail(inbox)
                /\ rerr' = "none"
                /\ IF Record
                      THEN /\ hist' = Append(hist, ([a |-> "dlv", d |-> d', n |-> Len(PeerScript) - Len(inbox')]))
                      ELSE /\ TRUE
                           /\ hist' = hist
                /\ pc' = [pc EXCEPT !["rdr"] = "r_proc"]
             \/ /\ rg \in rdCancel /\ ~ncClosed
                /\ rerr' = "canceled"
                /\ pc' = [pc EXCEPT !["rdr"] = "r_class"]
                /\ UNCHANGED <<inbox, hist, d>>
             \/ /\ ncClosed
                /\ rerr' = "netclosed"
                /\ pc' = [pc EXCEPT !["rdr"] = "r_class"]
                /\ UNCHANGED <<inbox, hist, d>>
          /\ UNCHANGED << closed, byUser, ncClosed, hsMutex, writeLock, 
                          established, gen, hsCancel, rdCancel, hsDoneCur, 
                          hsDoneClosed, dec, decClosed, cnOnce, firstErr, 
                          loopsDone, fsmRun, rdRun, fsmClosed, hsLeft, offer, 
                          cmd, rdl, wdl, hsCtxDone, wblock, cnSent, alertSeen, 
                          teardowns, panic, ret, hres, openClose, stack, byU, 
                          cg, prevByUser, wasClosed, hctx, herr, fst, ferr, fg, 
                          fwr, act, rg, kd, kn, un >>

r_proc == /\ pc["rdr"] = "r_proc"
          /\ IF d = "hs"
                THEN /\ offer' = "offered"
                     /\ pc' = [pc EXCEPT !["rdr"] = "r_hs2"]
                     /\ UNCHANGED << alertSeen, hist, rerr >>
                ELSE /\ IF d = "app"
                           THEN /\ IF ~established
                                      THEN /\ pc' = [pc EXCEPT !["rdr"] = "r_read"]
                                      ELSE /\ pc' = [pc EXCEPT !["rdr"] = "r_app"]
                                /\ UNCHANGED << alertSeen, hist, rerr >>
                           ELSE /\ IF d = "cn"
                                      THEN /\ alertSeen' = TRUE
                                           /\ IF Record
                                                 THEN /\ hist' = Append(hist, ([a |-> "gate", p |-> "rdr", g |-> "reader.alert"]))
                                                 ELSE /\ TRUE
                                                      /\ hist' = hist
                                           /\ pc' = [pc EXCEPT !["rdr"] = "r_cn1"]
                                           /\ rerr' = rerr
                                      ELSE /\ IF d = "fatal"
                                                 THEN /\ alertSeen' = TRUE
                                                      /\ rerr' = "alert"
                                                      /\ pc' = [pc EXCEPT !["rdr"] = "r_class"]
                                                 ELSE /\ IF d = "warn"
                                                            THEN /\ rerr' = "warn"
                                                                 /\ pc' = [pc EXCEPT !["rdr"] = "r_class"]
                                                            ELSE /\ pc' = [pc EXCEPT !["rdr"] = "r_badl"]
                                                                 /\ rerr' = rerr
                                                      /\ UNCHANGED alertSeen
                                           /\ hist' = hist
                     /\ offer' = offer
          /\ UNCHANGED << closed, byUser, ncClosed, hsMutex, writeLock, 
                          established, gen, hsCancel, rdCancel, hsDoneCur, 
                          hsDoneClosed, dec, decClosed, cnOnce, firstErr, 
                          loopsDone, fsmRun, rdRun, fsmClosed, hsLeft, cmd, 
                          inbox, rdl, wdl, hsCtxDone, wblock, cnSent, 
                          teardowns, panic, ret, hres, openClose, stack, byU, 
                          cg, prevByUser, wasClosed, hctx, herr, fst, ferr, fg, 
                          fwr, d, act, rg, kd, kn, un >>

r_hs2 == /\ pc["rdr"] = "r_hs2"
         /\ \/ /\ offer \in {"taken", "done"}
               /\ pc' = [pc EXCEPT !["rdr"] = "r_hs3"]
               /\ offer' = offer
            \/ /\ fsmClosed /\ offer = "offered"
               /\ offer' = "none"
               /\ pc' = [pc EXCEPT !["rdr"] = "r_read"]
         /\ UNCHANGED << closed, byUser, ncClosed, hsMutex, writeLock, 
                         established, gen, hsCancel, rdCancel, hsDoneCur, 
                         hsDoneClosed, dec, decClosed, cnOnce, firstErr, 
                         loopsDone, fsmRun, rdRun, fsmClosed, hsLeft, cmd, 
                         inbox, rdl, wdl, hsCtxDone, wblock, cnSent, alertSeen, 
                         teardowns, panic, ret, hres, openClose, hist, stack, 
                         byU, cg, prevByUser, wasClosed, hctx, herr, fst, ferr, 
                         fg, fwr, d, rerr, act, rg, kd, kn, un >>

r_hs3 == /\ pc["rdr"] = "r_hs3"
         /\ offer = "done"
         /\ offer' = "none"
         /\ pc' = [pc EXCEPT !["rdr"] = "r_read"]
         /\ UNCHANGED << closed, byUser, ncClosed, hsMutex, writeLock, 
                         established, gen, hsCancel, rdCancel, hsDoneCur, 
                         hsDoneClosed, dec, decClosed, cnOnce, firstErr, 
                         loopsDone, fsmRun, rdRun, fsmClosed, hsLeft, cmd, 
                         inbox, rdl, wdl, hsCtxDone, wblock, cnSent, alertSeen, 
                         teardowns, panic, ret, hres, openClose, hist, stack, 
                         byU, cg, prevByUser, wasClosed, hctx, herr, fst, ferr, 
                         fg, fwr, d, rerr, act, rg, kd, kn, un >>

r_app == /\ pc["rdr"] = "r_app"
         /\ \/ /\ dec = "empty" /\ ~decClosed
               /\ dec' = "data"
               /\ panic' = panic
            \/ /\ decClosed
               /\ panic' = "send on closed channel"
               /\ dec' = dec
            \/ /\ closed
               /\ UNCHANGED <<dec, panic>>
            \/ /\ rg \in rdCancel
               /\ UNCHANGED <<dec, panic>>
         /\ pc' = [pc EXCEPT !["rdr"] = "r_read"]
         /\ UNCHANGED << closed, byUser, ncClosed, hsMutex, writeLock, 
                         established, gen, hsCancel, rdCancel, hsDoneCur, 
                         hsDoneClosed, decClosed, cnOnce, firstErr, loopsDone, 
                         fsmRun, rdRun, fsmClosed, hsLeft, offer, cmd, inbox, 
                         rdl, wdl, hsCtxDone, wblock, cnSent, alertSeen, 
                         teardowns, ret, hres, openClose, hist, stack, byU, cg, 
                         prevByUser, wasClosed, hctx, herr, fst, ferr, fg, fwr, 
                         d, rerr, act, rg, kd, kn, un >>

r_cn1 == /\ pc["rdr"] = "r_cn1"
         /\ IF CloseNotifyOnce
               THEN /\ cnOnce # "running"
                    /\ IF cnOnce = "done"
                          THEN /\ pc' = [pc EXCEPT !["rdr"] = "r_cn3"]
                               /\ UNCHANGED cnOnce
                          ELSE /\ cnOnce' = "running"
                               /\ pc' = [pc EXCEPT !["rdr"] = "r_cnl"]
               ELSE /\ pc' = [pc EXCEPT !["rdr"] = "r_cnl"]
                    /\ UNCHANGED cnOnce
         /\ UNCHANGED << closed, byUser, ncClosed, hsMutex, writeLock, 
                         established, gen, hsCancel, rdCancel, hsDoneCur, 
                         hsDoneClosed, dec, decClosed, firstErr, loopsDone, 
                         fsmRun, rdRun, fsmClosed, hsLeft, offer, cmd, inbox, 
                         rdl, wdl, hsCtxDone, wblock, cnSent, alertSeen, 
                         teardowns, panic, ret, hres, openClose, hist, stack, 
                         byU, cg, prevByUser, wasClosed, hctx, herr, fst, ferr, 
                         fg, fwr, d, rerr, act, rg, kd, kn, un >>

r_cnl == /\ pc["rdr"] = "r_cnl"
         /\ writeLock = "none"
         /\ writeLock' = "rdr"
         /\ pc' = [pc EXCEPT !["rdr"] = "r_cnw"]
         /\ UNCHANGED << closed, byUser, ncClosed, hsMutex, established, gen, 
                         hsCancel, rdCancel, hsDoneCur, hsDoneClosed, dec, 
                         decClosed, cnOnce, firstErr, loopsDone, fsmRun, rdRun, 
                         fsmClosed, hsLeft, offer, cmd, inbox, rdl, wdl, 
                         hsCtxDone, wblock, cnSent, alertSeen, teardowns, 
                         panic, ret, hres, openClose, hist, stack, byU, cg, 
                         prevByUser, wasClosed, hctx, herr, fst, ferr, fg, fwr, 
                         d, rerr, act, rg, kd, kn, un >>

r_cnw == /\ pc["rdr"] = "r_cnw"
         /\ ~wblock \/ ncClosed \/ rg \in rdCancel
         /\ IF ~ncClosed /\ ~wblock
               THEN /\ cnSent' = cnSent + 1
               ELSE /\ TRUE
                    /\ UNCHANGED cnSent
         /\ writeLock' = "none"
         /\ IF CloseNotifyOnce
               THEN /\ cnOnce' = "done"
               ELSE /\ TRUE
                    /\ UNCHANGED cnOnce
         /\ pc' = [pc EXCEPT !["rdr"] = "r_cn3"]
         /\ UNCHANGED << closed, byUser, ncClosed, hsMutex, established, gen, 
                         hsCancel, rdCancel, hsDoneCur, hsDoneClosed, dec, 
                         decClosed, firstErr, loopsDone, fsmRun, rdRun, 
                         fsmClosed, hsLeft, offer, cmd, inbox, rdl, wdl, 
                         hsCtxDone, wblock, alertSeen, teardowns, panic, ret, 
                         hres, openClose, hist, stack, byU, cg, prevByUser, 
                         wasClosed, hctx, herr, fst, ferr, fg, fwr, d, rerr, 
                         act, rg, kd, kn, un >>

r_cn3 == /\ pc["rdr"] = "r_cn3"
         /\ rerr' = "alert"
         /\ pc' = [pc EXCEPT !["rdr"] = "r_class"]
         /\ UNCHANGED << closed, byUser, ncClosed, hsMutex, writeLock, 
                         established, gen, hsCancel, rdCancel, hsDoneCur, 
                         hsDoneClosed, dec, decClosed, cnOnce, firstErr, 
                         loopsDone, fsmRun, rdRun, fsmClosed, hsLeft, offer, 
                         cmd, inbox, rdl, wdl, hsCtxDone, wblock, cnSent, 
                         alertSeen, teardowns, panic, ret, hres, openClose, 
                         hist, stack, byU, cg, prevByUser, wasClosed, hctx, 
                         herr, fst, ferr, fg, fwr, d, act, rg, kd, kn, un >>

r_badl == /\ pc["rdr"] = "r_badl"
          /\ writeLock = "none"
          /\ writeLock' = "rdr"
          /\ pc' = [pc EXCEPT !["rdr"] = "r_badw"]
          /\ UNCHANGED << closed, byUser, ncClosed, hsMutex, established, gen, 
                          hsCancel, rdCancel, hsDoneCur, hsDoneClosed, dec, 
                          decClosed, cnOnce, firstErr, loopsDone, fsmRun, 
                          rdRun, fsmClosed, hsLeft, offer, cmd, inbox, rdl, 
                          wdl, hsCtxDone, wblock, cnSent, alertSeen, teardowns, 
                          panic, ret, hres, openClose, hist, stack, byU, cg, 
                          prevByUser, wasClosed, hctx, herr, fst, ferr, fg, 
                          fwr, d, rerr, act, rg, kd, kn, un >>

r_badw == /\ pc["rdr"] = "r_badw"
          /\ ~wblock \/ ncClosed \/ rg \in rdCancel
          /\ writeLock' = "none"
          /\ rerr' = "decode"
          /\ pc' = [pc EXCEPT !["rdr"] = "r_class"]
          /\ UNCHANGED << closed, byUser, ncClosed, hsMutex, established, gen, 
                          hsCancel, rdCancel, hsDoneCur, hsDoneClosed, dec, 
                          decClosed, cnOnce, firstErr, loopsDone, fsmRun, 
                          rdRun, fsmClosed, hsLeft, offer, cmd, inbox, rdl, 
                          wdl, hsCtxDone, wblock, cnSent, alertSeen, teardowns, 
                          panic, ret, hres, openClose, hist, stack, byU, cg, 
                          prevByUser, wasClosed, hctx, herr, fst, ferr, fg, 
                          fwr, d, act, rg, kd, kn, un >>

r_class == /\ pc["rdr"] = "r_class"
           /\ act' = (CASE rerr = "alert" -> "closeAndStop"
                        [] rerr = "warn" -> IF established THEN "deliver" ELSE "continue"
                        [] rerr = "canceled" /\ ~closed -> "closeAndStop"
                        [] rerr \in {"canceled", "netclosed"} -> "stop"
                        [] established -> "deliver"
                        [] OTHER -> "stop")
           /\ IF act' = "continue"
                 THEN /\ pc' = [pc EXCEPT !["rdr"] = "r_read"]
                 ELSE /\ IF act' = "deliver"
                            THEN /\ pc' = [pc EXCEPT !["rdr"] = "r_dlv"]
                            ELSE /\ pc' = [pc EXCEPT !["rdr"] = "r_first"]
           /\ UNCHANGED << closed, byUser, ncClosed, hsMutex, writeLock, 
                           established, gen, hsCancel, rdCancel, hsDoneCur, 
                           hsDoneClosed, dec, decClosed, cnOnce, firstErr, 
                           loopsDone, fsmRun, rdRun, fsmClosed, hsLeft, offer, 
                           cmd, inbox, rdl, wdl, hsCtxDone, wblock, cnSent, 
                           alertSeen, teardowns, panic, ret, hres, openClose, 
                           hist, stack, byU, cg, prevByUser, wasClosed, hctx, 
                           herr, fst, ferr, fg, fwr, d, rerr, rg, kd, kn, un >>

r_dlv == /\ pc["rdr"] = "r_dlv"
         /\ \/ /\ dec = "empty" /\ ~decClosed
               /\ dec' = "err"
               /\ panic' = panic
            \/ /\ decClosed
               /\ panic' = "send on closed channel"
               /\ dec' = dec
            \/ /\ closed
               /\ UNCHANGED <<dec, panic>>
            \/ /\ rg \in rdCancel
               /\ UNCHANGED <<dec, panic>>
         /\ pc' = [pc EXCEPT !["rdr"] = "r_read"]
         /\ UNCHANGED << closed, byUser, ncClosed, hsMutex, writeLock, 
                         established, gen, hsCancel, rdCancel, hsDoneCur, 
                         hsDoneClosed, decClosed, cnOnce, firstErr, loopsDone, 
                         fsmRun, rdRun, fsmClosed, hsLeft, offer, cmd, inbox, 
                         rdl, wdl, hsCtxDone, wblock, cnSent, alertSeen, 
                         teardowns, ret, hres, openClose, hist, stack, byU, cg, 
                         prevByUser, wasClosed, hctx, herr, fst, ferr, fg, fwr, 
                         d, rerr, act, rg, kd, kn, un >>

r_first == /\ pc["rdr"] = "r_first"
           /\ IF firstErr = "none"
                 THEN /\ firstErr' = rerr
                 ELSE /\ TRUE
                      /\ UNCHANGED firstErr
           /\ IF act # "closeAndStop"
                 THEN /\ pc' = [pc EXCEPT !["rdr"] = "r_x1"]
                 ELSE /\ pc' = [pc EXCEPT !["rdr"] = "r_close"]
           /\ UNCHANGED << closed, byUser, ncClosed, hsMutex, writeLock, 
                           established, gen, hsCancel, rdCancel, hsDoneCur, 
                           hsDoneClosed, dec, decClosed, cnOnce, loopsDone, 
                           fsmRun, rdRun, fsmClosed, hsLeft, offer, cmd, inbox, 
                           rdl, wdl, hsCtxDone, wblock, cnSent, alertSeen, 
                           teardowns, panic, ret, hres, openClose, hist, stack, 
                           byU, cg, prevByUser, wasClosed, hctx, herr, fst, 
                           ferr, fg, fwr, d, rerr, act, rg, kd, kn, un >>

r_close == /\ pc["rdr"] = "r_close"
           /\ IF Record
                 THEN /\ hist' = Append(hist, ([a |-> "gate", p |-> "rdr", g |-> "reader.beforeClose"]))
                 ELSE /\ TRUE
                      /\ hist' = hist
           /\ /\ byU' = [byU EXCEPT !["rdr"] = FALSE]
              /\ stack' = [stack EXCEPT !["rdr"] = << [ procedure |->  "doClose",
                                                        pc        |->  "r_x1",
                                                        cg        |->  cg["rdr"],
                                                        prevByUser |->  prevByUser["rdr"],
                                                        wasClosed |->  wasClosed["rdr"],
                                                        byU       |->  byU["rdr"] ] >>
                                                    \o stack["rdr"]]
           /\ cg' = [cg EXCEPT !["rdr"] = 0]
           /\ prevByUser' = [prevByUser EXCEPT !["rdr"] = FALSE]
           /\ wasClosed' = [wasClosed EXCEPT !["rdr"] = FALSE]
           /\ pc' = [pc EXCEPT !["rdr"] = "c_lock"]
           /\ UNCHANGED << closed, byUser, ncClosed, hsMutex, writeLock, 
                           established, gen, hsCancel, rdCancel, hsDoneCur, 
                           hsDoneClosed, dec, decClosed, cnOnce, firstErr, 
                           loopsDone, fsmRun, rdRun, fsmClosed, hsLeft, offer, 
                           cmd, inbox, rdl, wdl, hsCtxDone, wblock, cnSent, 
                           alertSeen, teardowns, panic, ret, hres, openClose, 
                           hctx, herr, fst, ferr, fg, fwr, d, rerr, act, rg, 
                           kd, kn, un >>

r_x1 == /\ pc["rdr"] = "r_x1"
        /\ loopsDone' = loopsDone + 1
        /\ pc' = [pc EXCEPT !["rdr"] = "r_x2"]
        /\ UNCHANGED << closed, byUser, ncClosed, hsMutex, writeLock, 
                        established, gen, hsCancel, rdCancel, hsDoneCur, 
                        hsDoneClosed, dec, decClosed, cnOnce, firstErr, fsmRun, 
                        rdRun, fsmClosed, hsLeft, offer, cmd, inbox, rdl, wdl, 
                        hsCtxDone, wblock, cnSent, alertSeen, teardowns, panic, 
                        ret, hres, openClose, hist, stack, byU, cg, prevByUser, 
                        wasClosed, hctx, herr, fst, ferr, fg, fwr, d, rerr, 
                        act, rg, kd, kn, un >>

r_x2 == /\ pc["rdr"] = "r_x2"
        /\ IF established /\ ReaderClosesDecrypted
              THEN /\ IF decClosed
                         THEN /\ panic' = "close of closed channel"
                              /\ UNCHANGED decClosed
                         ELSE /\ decClosed' = TRUE
                              /\ panic' = panic
              ELSE /\ TRUE
                   /\ UNCHANGED << decClosed, panic >>
        /\ IF Record
              THEN /\ hist' = Append(hist, ([a |-> "gate", p |-> "rdr", g |-> "reader.beforeCloseDecrypted"]))
              ELSE /\ TRUE
                   /\ hist' = hist
        /\ pc' = [pc EXCEPT !["rdr"] = "r_x3"]
        /\ UNCHANGED << closed, byUser, ncClosed, hsMutex, writeLock, 
                        established, gen, hsCancel, rdCancel, hsDoneCur, 
                        hsDoneClosed, dec, cnOnce, firstErr, loopsDone, fsmRun, 
                        rdRun, fsmClosed, hsLeft, offer, cmd, inbox, rdl, wdl, 
                        hsCtxDone, wblock, cnSent, alertSeen, teardowns, ret, 
                        hres, openClose, stack, byU, cg, prevByUser, wasClosed, 
                        hctx, herr, fst, ferr, fg, fwr, d, rerr, act, rg, kd, 
                        kn, un >>

r_x3 == /\ pc["rdr"] = "r_x3"
        /\ hsCancel' = (hsCancel \cup {rg})
        /\ rdRun' = FALSE
        /\ pc' = [pc EXCEPT !["rdr"] = "r_idle"]
        /\ UNCHANGED << closed, byUser, ncClosed, hsMutex, writeLock, 
                        established, gen, rdCancel, hsDoneCur, hsDoneClosed, 
                        dec, decClosed, cnOnce, firstErr, loopsDone, fsmRun, 
                        fsmClosed, hsLeft, offer, cmd, inbox, rdl, wdl, 
                        hsCtxDone, wblock, cnSent, alertSeen, teardowns, panic, 
                        ret, hres, openClose, hist, stack, byU, cg, prevByUser, 
                        wasClosed, hctx, herr, fst, ferr, fg, fwr, d, rerr, 
                        act, rg, kd, kn, un >>

Reader == r_idle \/ r_read \/ r_proc \/ r_hs2 \/ r_hs3 \/ r_app \/ r_cn1
             \/ r_cnl \/ r_cnw \/ r_cn3 \/ r_badl \/ r_badw \/ r_class
             \/ r_dlv \/ r_first \/ r_close \/ r_x1 \/ r_x2 \/ r_x3

hs_call(self) == /\ pc[self] = "hs_call"
                 /\ IF Record
                       THEN /\ hist' = Append(hist, ([a |-> "call", p |-> self, op |-> "handshake"]))
                       ELSE /\ TRUE
                            /\ hist' = hist
                 /\ /\ hctx' = [hctx EXCEPT ![self] = HsCtxDeadline]
                    /\ stack' = [stack EXCEPT ![self] = << [ procedure |->  "doHandshake",
                                                             pc        |->  "hs_ret",
                                                             herr      |->  herr[self],
                                                             hctx      |->  hctx[self] ] >>
                                                         \o stack[self]]
                 /\ herr' = [herr EXCEPT ![self] = "none"]
                 /\ pc' = [pc EXCEPT ![self] = "h_lock"]
                 /\ UNCHANGED << closed, byUser, ncClosed, hsMutex, writeLock, 
                                 established, gen, hsCancel, rdCancel, 
                                 hsDoneCur, hsDoneClosed, dec, decClosed, 
                                 cnOnce, firstErr, loopsDone, fsmRun, rdRun, 
                                 fsmClosed, hsLeft, offer, cmd, inbox, rdl, 
                                 wdl, hsCtxDone, wblock, cnSent, alertSeen, 
                                 teardowns, panic, ret, hres, openClose, byU, 
                                 cg, prevByUser, wasClosed, fst, ferr, fg, fwr, 
                                 d, rerr, act, rg, kd, kn, un >>

hs_ret(self) == /\ pc[self] = "hs_ret"
                /\ ret' = [ret EXCEPT ![self] = Append(ret[self], hres[self])]
                /\ pc' = [pc EXCEPT ![self] = "Done"]
                /\ UNCHANGED << closed, byUser, ncClosed, hsMutex, writeLock, 
                                established, gen, hsCancel, rdCancel, 
                                hsDoneCur, hsDoneClosed, dec, decClosed, 
                                cnOnce, firstErr, loopsDone, fsmRun, rdRun, 
                                fsmClosed, hsLeft, offer, cmd, inbox, rdl, wdl, 
                                hsCtxDone, wblock, cnSent, alertSeen, 
                                teardowns, panic, hres, openClose, hist, stack, 
                                byU, cg, prevByUser, wasClosed, hctx, herr, 
                                fst, ferr, fg, fwr, d, rerr, act, rg, kd, kn, 
                                un >>

UserHs(self) == hs_call(self) \/ hs_ret(self)

k_loop(self) == /\ pc[self] = "k_loop"
                /\ IF kn[self] < CloseReps
                      THEN /\ kn' = [kn EXCEPT ![self] = kn[self] + 1]
                           /\ IF Record
                                 THEN /\ hist' = Append(hist, ([a |-> "call", p |-> self, op |-> "close"]))
                                 ELSE /\ TRUE
                                      /\ hist' = hist
                           /\ /\ byU' = [byU EXCEPT ![self] = TRUE]
                              /\ stack' = [stack EXCEPT ![self] = << [ procedure |->  "doClose",
                                                                       pc        |->  "k_hd",
                                                                       cg        |->  cg[self],
                                                                       prevByUser |->  prevByUser[self],
                                                                       wasClosed |->  wasClosed[self],
                                                                       byU       |->  byU[self] ] >>
                                                                   \o stack[self]]
                           /\ cg' = [cg EXCEPT ![self] = 0]
                           /\ prevByUser' = [prevByUser EXCEPT ![self] = FALSE]
                           /\ wasClosed' = [wasClosed EXCEPT ![self] = FALSE]
                           /\ pc' = [pc EXCEPT ![self] = "c_lock"]
                      ELSE /\ pc' = [pc EXCEPT ![self] = "Done"]
                           /\ UNCHANGED << hist, stack, byU, cg, prevByUser, 
                                           wasClosed, kn >>
                /\ UNCHANGED << closed, byUser, ncClosed, hsMutex, writeLock, 
                                established, gen, hsCancel, rdCancel, 
                                hsDoneCur, hsDoneClosed, dec, decClosed, 
                                cnOnce, firstErr, loopsDone, fsmRun, rdRun, 
                                fsmClosed, hsLeft, offer, cmd, inbox, rdl, wdl, 
                                hsCtxDone, wblock, cnSent, alertSeen, 
                                teardowns, panic, ret, hres, openClose, hctx, 
                                herr, fst, ferr, fg, fwr, d, rerr, act, rg, kd, 
                                un >>

k_hd(self) == /\ pc[self] = "k_hd"
              /\ kd' = [kd EXCEPT ![self] = hsDoneCur]
              /\ pc' = [pc EXCEPT ![self] = "k_wait"]
              /\ UNCHANGED << closed, byUser, ncClosed, hsMutex, writeLock, 
                              established, gen, hsCancel, rdCancel, hsDoneCur, 
                              hsDoneClosed, dec, decClosed, cnOnce, firstErr, 
                              loopsDone, fsmRun, rdRun, fsmClosed, hsLeft, 
                              offer, cmd, inbox, rdl, wdl, hsCtxDone, wblock, 
                              cnSent, alertSeen, teardowns, panic, ret, hres, 
                              openClose, hist, stack, byU, cg, prevByUser, 
                              wasClosed, hctx, herr, fst, ferr, fg, fwr, d, 
                              rerr, act, rg, kn, un >>

k_wait(self) == /\ pc[self] = "k_wait"
                /\ kd[self] = 0 \/ kd[self] \in hsDoneClosed
                /\ ret' = [ret EXCEPT ![self] = Append(ret[self], "nil")]
                /\ pc' = [pc EXCEPT ![self] = "k_loop"]
                /\ UNCHANGED << closed, byUser, ncClosed, hsMutex, writeLock, 
                                established, gen, hsCancel, rdCancel, 
                                hsDoneCur, hsDoneClosed, dec, decClosed, 
                                cnOnce, firstErr, loopsDone, fsmRun, rdRun, 
                                fsmClosed, hsLeft, offer, cmd, inbox, rdl, wdl, 
                                hsCtxDone, wblock, cnSent, alertSeen, 
                                teardowns, panic, hres, openClose, hist, stack, 
                                byU, cg, prevByUser, wasClosed, hctx, herr, 
                                fst, ferr, fg, fwr, d, rerr, act, rg, kd, kn, 
                                un >>

UserClose(self) == k_loop(self) \/ k_hd(self) \/ k_wait(self)

u_loop(self) == /\ pc[self] = "u_loop"
                /\ IF un[self] < ReadReps
                      THEN /\ un' = [un EXCEPT ![self] = un[self] + 1]
                           /\ IF Record
                                 THEN /\ hist' = Append(hist, ([a |-> "call", p |-> self, op |-> "read"]))
                                 ELSE /\ TRUE
                                      /\ hist' = hist
                           /\ /\ hctx' = [hctx EXCEPT ![self] = FALSE]
                              /\ stack' = [stack EXCEPT ![self] = << [ procedure |->  "doHandshake",
                                                                       pc        |->  "u_hs",
                                                                       herr      |->  herr[self],
                                                                       hctx      |->  hctx[self] ] >>
                                                                   \o stack[self]]
                           /\ herr' = [herr EXCEPT ![self] = "none"]
                           /\ pc' = [pc EXCEPT ![self] = "h_lock"]
                      ELSE /\ pc' = [pc EXCEPT ![self] = "Done"]
                           /\ UNCHANGED << hist, stack, hctx, herr, un >>
                /\ UNCHANGED << closed, byUser, ncClosed, hsMutex, writeLock, 
                                established, gen, hsCancel, rdCancel, 
                                hsDoneCur, hsDoneClosed, dec, decClosed, 
                                cnOnce, firstErr, loopsDone, fsmRun, rdRun, 
                                fsmClosed, hsLeft, offer, cmd, inbox, rdl, wdl, 
                                hsCtxDone, wblock, cnSent, alertSeen, 
                                teardowns, panic, ret, hres, openClose, byU, 
                                cg, prevByUser, wasClosed, fst, ferr, fg, fwr, 
                                d, rerr, act, rg, kd, kn >>

u_hs(self) == /\ pc[self] = "u_hs"
              /\ IF hres[self] # "nil"
                    THEN /\ ret' = [ret EXCEPT ![self] = Append(ret[self], hres[self])]
                         /\ pc' = [pc EXCEPT ![self] = "u_loop"]
                    ELSE /\ pc' = [pc EXCEPT ![self] = "u_dl0"]
                         /\ ret' = ret
              /\ UNCHANGED << closed, byUser, ncClosed, hsMutex, writeLock, 
                              established, gen, hsCancel, rdCancel, hsDoneCur, 
                              hsDoneClosed, dec, decClosed, cnOnce, firstErr, 
                              loopsDone, fsmRun, rdRun, fsmClosed, hsLeft, 
                              offer, cmd, inbox, rdl, wdl, hsCtxDone, wblock, 
                              cnSent, alertSeen, teardowns, panic, hres, 
                              openClose, hist, stack, byU, cg, prevByUser, 
                              wasClosed, hctx, herr, fst, ferr, fg, fwr, d, 
                              rerr, act, rg, kd, kn, un >>

u_dl0(self) == /\ pc[self] = "u_dl0"
               /\ IF rdl
                     THEN /\ ret' = [ret EXCEPT ![self] = Append(ret[self], "deadline")]
                          /\ pc' = [pc EXCEPT ![self] = "u_loop"]
                     ELSE /\ pc' = [pc EXCEPT ![self] = "u_sel"]
                          /\ ret' = ret
               /\ UNCHANGED << closed, byUser, ncClosed, hsMutex, writeLock, 
                               established, gen, hsCancel, rdCancel, hsDoneCur, 
                               hsDoneClosed, dec, decClosed, cnOnce, firstErr, 
                               loopsDone, fsmRun, rdRun, fsmClosed, hsLeft, 
                               offer, cmd, inbox, rdl, wdl, hsCtxDone, wblock, 
                               cnSent, alertSeen, teardowns, panic, hres, 
                               openClose, hist, stack, byU, cg, prevByUser, 
                               wasClosed, hctx, herr, fst, ferr, fg, fwr, d, 
                               rerr, act, rg, kd, kn, un >>

u_sel(self) == /\ pc[self] = "u_sel"
               /\ \/ /\ closed
                     /\ ret' = [ret EXCEPT ![self] = Append(ret[self], "EOF")]
                     /\ dec' = dec
                  \/ /\ rdl
                     /\ ret' = [ret EXCEPT ![self] = Append(ret[self], "deadline")]
                     /\ dec' = dec
                  \/ /\ dec # "empty"
                     /\ ret' = [ret EXCEPT ![self] = Append(ret[self], dec)]
                     /\ dec' = "empty"
                  \/ /\ decClosed /\ dec = "empty"
                     /\ ret' = [ret EXCEPT ![self] = Append(ret[self], IF ReadEOFOnClosedChannel THEN "EOF" ELSE "nil")]
                     /\ dec' = dec
               /\ pc' = [pc EXCEPT ![self] = "u_loop"]
               /\ UNCHANGED << closed, byUser, ncClosed, hsMutex, writeLock, 
                               established, gen, hsCancel, rdCancel, hsDoneCur, 
                               hsDoneClosed, decClosed, cnOnce, firstErr, 
                               loopsDone, fsmRun, rdRun, fsmClosed, hsLeft, 
                               offer, cmd, inbox, rdl, wdl, hsCtxDone, wblock, 
                               cnSent, alertSeen, teardowns, panic, hres, 
                               openClose, hist, stack, byU, cg, prevByUser, 
                               wasClosed, hctx, herr, fst, ferr, fg, fwr, d, 
                               rerr, act, rg, kd, kn, un >>

UserRead(self) == u_loop(self) \/ u_hs(self) \/ u_dl0(self) \/ u_sel(self)

w_chk(self) == /\ pc[self] = "w_chk"
               /\ IF Record
                     THEN /\ hist' = Append(hist, ([a |-> "call", p |-> self, op |-> "write"]))
                     ELSE /\ TRUE
                          /\ hist' = hist
               /\ IF closed
                     THEN /\ ret' = [ret EXCEPT ![self] = Append(ret[self], "closed")]
                          /\ pc' = [pc EXCEPT ![self] = "w_end"]
                     ELSE /\ pc' = [pc EXCEPT ![self] = "w_dl0"]
                          /\ ret' = ret
               /\ UNCHANGED << closed, byUser, ncClosed, hsMutex, writeLock, 
                               established, gen, hsCancel, rdCancel, hsDoneCur, 
                               hsDoneClosed, dec, decClosed, cnOnce, firstErr, 
                               loopsDone, fsmRun, rdRun, fsmClosed, hsLeft, 
                               offer, cmd, inbox, rdl, wdl, hsCtxDone, wblock, 
                               cnSent, alertSeen, teardowns, panic, hres, 
                               openClose, stack, byU, cg, prevByUser, 
                               wasClosed, hctx, herr, fst, ferr, fg, fwr, d, 
                               rerr, act, rg, kd, kn, un >>

w_dl0(self) == /\ pc[self] = "w_dl0"
               /\ IF wdl
                     THEN /\ ret' = [ret EXCEPT ![self] = Append(ret[self], "deadline")]
                          /\ pc' = [pc EXCEPT ![self] = "w_end"]
                     ELSE /\ pc' = [pc EXCEPT ![self] = "w_hs"]
                          /\ ret' = ret
               /\ UNCHANGED << closed, byUser, ncClosed, hsMutex, writeLock, 
                               established, gen, hsCancel, rdCancel, hsDoneCur, 
                               hsDoneClosed, dec, decClosed, cnOnce, firstErr, 
                               loopsDone, fsmRun, rdRun, fsmClosed, hsLeft, 
                               offer, cmd, inbox, rdl, wdl, hsCtxDone, wblock, 
                               cnSent, alertSeen, teardowns, panic, hres, 
                               openClose, hist, stack, byU, cg, prevByUser, 
                               wasClosed, hctx, herr, fst, ferr, fg, fwr, d, 
                               rerr, act, rg, kd, kn, un >>

w_hs(self) == /\ pc[self] = "w_hs"
              /\ /\ hctx' = [hctx EXCEPT ![self] = FALSE]
                 /\ stack' = [stack EXCEPT ![self] = << [ procedure |->  "doHandshake",
                                                          pc        |->  "w_hs2",
                                                          herr      |->  herr[self],
                                                          hctx      |->  hctx[self] ] >>
                                                      \o stack[self]]
              /\ herr' = [herr EXCEPT ![self] = "none"]
              /\ pc' = [pc EXCEPT ![self] = "h_lock"]
              /\ UNCHANGED << closed, byUser, ncClosed, hsMutex, writeLock, 
                              established, gen, hsCancel, rdCancel, hsDoneCur, 
                              hsDoneClosed, dec, decClosed, cnOnce, firstErr, 
                              loopsDone, fsmRun, rdRun, fsmClosed, hsLeft, 
                              offer, cmd, inbox, rdl, wdl, hsCtxDone, wblock, 
                              cnSent, alertSeen, teardowns, panic, ret, hres, 
                              openClose, hist, byU, cg, prevByUser, wasClosed, 
                              fst, ferr, fg, fwr, d, rerr, act, rg, kd, kn, un >>

w_hs2(self) == /\ pc[self] = "w_hs2"
               /\ IF hres[self] # "nil"
                     THEN /\ ret' = [ret EXCEPT ![self] = Append(ret[self], hres[self])]
                          /\ pc' = [pc EXCEPT ![self] = "w_end"]
                     ELSE /\ pc' = [pc EXCEPT ![self] = "w_path"]
                          /\ ret' = ret
               /\ UNCHANGED << closed, byUser, ncClosed, hsMutex, writeLock, 
                               established, gen, hsCancel, rdCancel, hsDoneCur, 
                               hsDoneClosed, dec, decClosed, cnOnce, firstErr, 
                               loopsDone, fsmRun, rdRun, fsmClosed, hsLeft, 
                               offer, cmd, inbox, rdl, wdl, hsCtxDone, wblock, 
                               cnSent, alertSeen, teardowns, panic, hres, 
                               openClose, hist, stack, byU, cg, prevByUser, 
                               wasClosed, hctx, herr, fst, ferr, fg, fwr, d, 
                               rerr, act, rg, kd, kn, un >>

w_path(self) == /\ pc[self] = "w_path"
                /\ IF Record
                      THEN /\ hist' = Append(hist, ([a |-> "gate", p |-> self, g |-> "write.beforeLock"]))
                      ELSE /\ TRUE
                           /\ hist' = hist
                /\ IF WriteViaFsm
                      THEN /\ pc' = [pc EXCEPT ![self] = "w_sub"]
                      ELSE /\ pc' = [pc EXCEPT ![self] = "w_lock"]
                /\ UNCHANGED << closed, byUser, ncClosed, hsMutex, writeLock, 
                                established, gen, hsCancel, rdCancel, 
                                hsDoneCur, hsDoneClosed, dec, decClosed, 
                                cnOnce, firstErr, loopsDone, fsmRun, rdRun, 
                                fsmClosed, hsLeft, offer, cmd, inbox, rdl, wdl, 
                                hsCtxDone, wblock, cnSent, alertSeen, 
                                teardowns, panic, ret, hres, openClose, stack, 
                                byU, cg, prevByUser, wasClosed, hctx, herr, 
                                fst, ferr, fg, fwr, d, rerr, act, rg, kd, kn, 
                                un >>

w_sub(self) == /\ pc[self] = "w_sub"
               /\ cmd' = [cmd EXCEPT ![self] = "offered"]
               /\ pc' = [pc EXCEPT ![self] = "w_sub2"]
               /\ UNCHANGED << closed, byUser, ncClosed, hsMutex, writeLock, 
                               established, gen, hsCancel, rdCancel, hsDoneCur, 
                               hsDoneClosed, dec, decClosed, cnOnce, firstErr, 
                               loopsDone, fsmRun, rdRun, fsmClosed, hsLeft, 
                               offer, inbox, rdl, wdl, hsCtxDone, wblock, 
                               cnSent, alertSeen, teardowns, panic, ret, hres, 
                               openClose, hist, stack, byU, cg, prevByUser, 
                               wasClosed, hctx, herr, fst, ferr, fg, fwr, d, 
                               rerr, act, rg, kd, kn, un >>

w_sub2(self) == /\ pc[self] = "w_sub2"
                /\ \/ /\ cmd[self] # "offered"
                      /\ pc' = [pc EXCEPT ![self] = "w_cmpl"]
                      /\ UNCHANGED <<cmd, ret>>
                   \/ /\ cmd[self] = "offered" /\ (closed \/ wdl)
                      /\ cmd' = [cmd EXCEPT ![self] = "none"]
                      /\ ret' = [ret EXCEPT ![self] = Append(ret[self], IF closed THEN "closed" ELSE "deadline")]
                      /\ pc' = [pc EXCEPT ![self] = "w_end"]
                   \/ /\ cmd[self] = "offered" /\ fsmClosed
                      /\ cmd' = [cmd EXCEPT ![self] = "none"]
                      /\ ret' = [ret EXCEPT ![self] = Append(ret[self], "closed")]
                      /\ pc' = [pc EXCEPT ![self] = "w_end"]
                /\ UNCHANGED << closed, byUser, ncClosed, hsMutex, writeLock, 
                                established, gen, hsCancel, rdCancel, 
                                hsDoneCur, hsDoneClosed, dec, decClosed, 
                                cnOnce, firstErr, loopsDone, fsmRun, rdRun, 
                                fsmClosed, hsLeft, offer, inbox, rdl, wdl, 
                                hsCtxDone, wblock, cnSent, alertSeen, 
                                teardowns, panic, hres, openClose, hist, stack, 
                                byU, cg, prevByUser, wasClosed, hctx, herr, 
                                fst, ferr, fg, fwr, d, rerr, act, rg, kd, kn, 
                                un >>

w_cmpl(self) == /\ pc[self] = "w_cmpl"
                /\ \/ /\ cmd[self] \in {"ok", "err"}
                      /\ ret' = [ret EXCEPT ![self] = Append(ret[self], IF cmd[self] = "ok" THEN "nil" ELSE "closed")]
                   \/ /\ closed \/ wdl
                      /\ ret' = [ret EXCEPT ![self] = Append(ret[self], IF closed THEN "closed" ELSE "deadline")]
                   \/ /\ fsmClosed
                      /\ ret' = [ret EXCEPT ![self] = Append(ret[self], IF cmd[self] = "ok" THEN "nil" ELSE "closed")]
                /\ pc' = [pc EXCEPT ![self] = "w_end"]
                /\ UNCHANGED << closed, byUser, ncClosed, hsMutex, writeLock, 
                                established, gen, hsCancel, rdCancel, 
                                hsDoneCur, hsDoneClosed, dec, decClosed, 
                                cnOnce, firstErr, loopsDone, fsmRun, rdRun, 
                                fsmClosed, hsLeft, offer, cmd, inbox, rdl, wdl, 
                                hsCtxDone, wblock, cnSent, alertSeen, 
                                teardowns, panic, hres, openClose, hist, stack, 
                                byU, cg, prevByUser, wasClosed, hctx, herr, 
                                fst, ferr, fg, fwr, d, rerr, act, rg, kd, kn, 
                                un >>

w_lock(self) == /\ pc[self] = "w_lock"
                /\ writeLock = "none"
                /\ writeLock' = self
                /\ pc' = [pc EXCEPT ![self] = "w_send"]
                /\ UNCHANGED << closed, byUser, ncClosed, hsMutex, established, 
                                gen, hsCancel, rdCancel, hsDoneCur, 
                                hsDoneClosed, dec, decClosed, cnOnce, firstErr, 
                                loopsDone, fsmRun, rdRun, fsmClosed, hsLeft, 
                                offer, cmd, inbox, rdl, wdl, hsCtxDone, wblock, 
                                cnSent, alertSeen, teardowns, panic, ret, hres, 
                                openClose, hist, stack, byU, cg, prevByUser, 
                                wasClosed, hctx, herr, fst, ferr, fg, fwr, d, 
                                rerr, act, rg, kd, kn, un >>

w_send(self) == /\ pc[self] = "w_send"
                /\ \/ /\ ~wblock /\ ~ncClosed
                      /\ ret' = [ret EXCEPT ![self] = Append(ret[self], "nil")]
                   \/ /\ ncClosed
                      /\ ret' = [ret EXCEPT ![self] = Append(ret[self], "closed")]
                   \/ /\ wblock /\ ~ncClosed /\ (closed \/ wdl)
                      /\ ret' = [ret EXCEPT ![self] = Append(ret[self], IF closed THEN "closed" ELSE "deadline")]
                /\ pc' = [pc EXCEPT ![self] = "w_unl"]
                /\ UNCHANGED << closed, byUser, ncClosed, hsMutex, writeLock, 
                                established, gen, hsCancel, rdCancel, 
                                hsDoneCur, hsDoneClosed, dec, decClosed, 
                                cnOnce, firstErr, loopsDone, fsmRun, rdRun, 
                                fsmClosed, hsLeft, offer, cmd, inbox, rdl, wdl, 
                                hsCtxDone, wblock, cnSent, alertSeen, 
                                teardowns, panic, hres, openClose, hist, stack, 
                                byU, cg, prevByUser, wasClosed, hctx, herr, 
                                fst, ferr, fg, fwr, d, rerr, act, rg, kd, kn, 
                                un >>

w_unl(self) == /\ pc[self] = "w_unl"
               /\ writeLock' = "none"
               /\ pc' = [pc EXCEPT ![self] = "w_end"]
               /\ UNCHANGED << closed, byUser, ncClosed, hsMutex, established, 
                               gen, hsCancel, rdCancel, hsDoneCur, 
                               hsDoneClosed, dec, decClosed, cnOnce, firstErr, 
                               loopsDone, fsmRun, rdRun, fsmClosed, hsLeft, 
                               offer, cmd, inbox, rdl, wdl, hsCtxDone, wblock, 
                               cnSent, alertSeen, teardowns, panic, ret, hres, 
                               openClose, hist, stack, byU, cg, prevByUser, 
                               wasClosed, hctx, herr, fst, ferr, fg, fwr, d, 
                               rerr, act, rg, kd, kn, un >>

w_end(self) == /\ pc[self] = "w_end"
               /\ TRUE
               /\ pc' = [pc EXCEPT ![self] = "Done"]
               /\ UNCHANGED << closed, byUser, ncClosed, hsMutex, writeLock, 
                               established, gen, hsCancel, rdCancel, hsDoneCur, 
                               hsDoneClosed, dec, decClosed, cnOnce, firstErr, 
                               loopsDone, fsmRun, rdRun, fsmClosed, hsLeft, 
                               offer, cmd, inbox, rdl, wdl, hsCtxDone, wblock, 
                               cnSent, alertSeen, teardowns, panic, ret, hres, 
                               openClose, hist, stack, byU, cg, prevByUser, 
                               wasClosed, hctx, herr, fst, ferr, fg, fwr, d, 
                               rerr, act, rg, kd, kn, un >>

UserWrite(self) == w_chk(self) \/ w_dl0(self) \/ w_hs(self) \/ w_hs2(self)
                      \/ w_path(self) \/ w_sub(self) \/ w_sub2(self)
                      \/ w_cmpl(self) \/ w_lock(self) \/ w_send(self)
                      \/ w_unl(self) \/ w_end(self)

d_rd(self) == /\ pc[self] = "d_rd"
              /\ rdl' = TRUE
              /\ IF Record
                    THEN /\ hist' = Append(hist, ([a |-> "call", p |-> self, op |-> "deadline"]))
                    ELSE /\ TRUE
                         /\ hist' = hist
              /\ pc' = [pc EXCEPT ![self] = "d_wr"]
              /\ UNCHANGED << closed, byUser, ncClosed, hsMutex, writeLock, 
                              established, gen, hsCancel, rdCancel, hsDoneCur, 
                              hsDoneClosed, dec, decClosed, cnOnce, firstErr, 
                              loopsDone, fsmRun, rdRun, fsmClosed, hsLeft, 
                              offer, cmd, inbox, wdl, hsCtxDone, wblock, 
                              cnSent, alertSeen, teardowns, panic, ret, hres, 
                              openClose, stack, byU, cg, prevByUser, wasClosed, 
                              hctx, herr, fst, ferr, fg, fwr, d, rerr, act, rg, 
                              kd, kn, un >>

d_wr(self) == /\ pc[self] = "d_wr"
              /\ wdl' = TRUE
              /\ hsCtxDone' = TRUE
              /\ ret' = [ret EXCEPT ![self] = Append(ret[self], "nil")]
              /\ pc' = [pc EXCEPT ![self] = "Done"]
              /\ UNCHANGED << closed, byUser, ncClosed, hsMutex, writeLock, 
                              established, gen, hsCancel, rdCancel, hsDoneCur, 
                              hsDoneClosed, dec, decClosed, cnOnce, firstErr, 
                              loopsDone, fsmRun, rdRun, fsmClosed, hsLeft, 
                              offer, cmd, inbox, rdl, wblock, cnSent, 
                              alertSeen, teardowns, panic, hres, openClose, 
                              hist, stack, byU, cg, prevByUser, wasClosed, 
                              hctx, herr, fst, ferr, fg, fwr, d, rerr, act, rg, 
                              kd, kn, un >>

Deadline(self) == d_rd(self) \/ d_wr(self)

t_unb == /\ pc["net"] = "t_unb"
         /\ wblock
         /\ wblock' = FALSE
         /\ pc' = [pc EXCEPT !["net"] = "Done"]
         /\ UNCHANGED << closed, byUser, ncClosed, hsMutex, writeLock, 
                         established, gen, hsCancel, rdCancel, hsDoneCur, 
                         hsDoneClosed, dec, decClosed, cnOnce, firstErr, 
                         loopsDone, fsmRun, rdRun, fsmClosed, hsLeft, offer, 
                         cmd, inbox, rdl, wdl, hsCtxDone, cnSent, alertSeen, 
                         teardowns, panic, ret, hres, openClose, hist, stack, 
                         byU, cg, prevByUser, wasClosed, hctx, herr, fst, ferr, 
                         fg, fwr, d, rerr, act, rg, kd, kn, un >>

Transport == t_unb

(* Allow infinite stuttering to prevent deadlock on termination. *)
Terminating == /\ \A self \in ProcSet: pc[self] = "Done"
               /\ UNCHANGED vars

Next == Fsm \/ Reader \/ Transport
           \/ (\E self \in ProcSet: doClose(self) \/ doHandshake(self))
           \/ (\E self \in Hs: UserHs(self))
           \/ (\E self \in Cl: UserClose(self))
           \/ (\E self \in Rd: UserRead(self))
           \/ (\E self \in Wr: UserWrite(self))
           \/ (\E self \in Dl: Deadline(self))
           \/ Terminating

Spec == /\ Init /\ [][Next]_vars
        /\ WF_vars(Fsm)
        /\ WF_vars(Reader) /\ WF_vars(doClose("rdr"))
        /\ \A self \in Hs : WF_vars(UserHs(self)) /\ WF_vars(doHandshake(self))
        /\ \A self \in Cl : WF_vars(UserClose(self)) /\ WF_vars(doClose(self))
        /\ \A self \in Rd : WF_vars(UserRead(self)) /\ WF_vars(doHandshake(self))
        /\ \A self \in Wr : WF_vars(UserWrite(self)) /\ WF_vars(doHandshake(self))
        /\ \A self \in Dl : WF_vars(Deadline(self))
        /\ WF_vars(Transport)

Termination == <>(\A self \in ProcSet: pc[self] = "Done")

\* END TRANSLATION

\* ---------------------------------------------------------------- formulas
Range(f) == {f[i] : i \in DOMAIN f}
AllDone == \A p \in Callers : pc[p] = "Done"
GoroutinesGone == ~fsmRun /\ ~rdRun
DlFired == rdl \/ wdl \/ hsCtxDone
HsFail == {"canceled", "netclosed", "alert"} \cup (IF "bad" \in Range(PeerScript) THEN {"decode"} ELSE {})
DlVals == IF Dl # {} THEN {"deadline"} ELSE {}

\* Go runtime panics are error states
NoPanic == panic = "none"

\* Close any number of times: every Close returns nil, the transport is torn down at most once, closed never reverts
CloseIdempotent == /\ teardowns <= 1
                   /\ \A k \in Cl : \A i \in DOMAIN ret[k] : ret[k][i] = "nil"
ClosedMonotone == [][closed => closed']_vars

CloseNotifyAtMostOnce == cnSent <= 1

\* the application closed an established session on which no alert had been received: close_notify is on the wire
\* when that Close returns
CloseNotifySentWhenOpen == \A k \in openClose : (Len(ret[k]) >= 1 => cnSent >= 1)

\* return values: closed / EOF class, deadline only when a deadline was set, EOF and closed only for a reason
BlockedCallsGetClosedOrEOF ==
  /\ \A p \in Rd : \A i \in DOMAIN ret[p] :
        /\ ret[p][i] \in {"data", "err", "EOF"} \cup DlVals \cup HsFail
        /\ ret[p][i] = "EOF" => closed \/ decClosed
        /\ ret[p][i] = "deadline" => DlFired
  /\ \A p \in Wr : \A i \in DOMAIN ret[p] :
        /\ ret[p][i] \in {"nil", "closed"} \cup DlVals \cup HsFail
        /\ ret[p][i] = "closed" => closed \/ ncClosed
        /\ ret[p][i] = "deadline" => DlFired
  /\ \A p \in Hs : \A i \in DOMAIN ret[p] :
        /\ ret[p][i] \in {"nil"} \cup DlVals \cup HsFail
        /\ ret[p][i] \in {"canceled", "netclosed"} => closed \/ ncClosed
        /\ ret[p][i] = "deadline" => DlFired

\* proper terminal states: everything returned (and nothing left once closed), or the endpoint waits for a silent peer
WaitingForPeer == /\ pc["rdr"] = "r_read" /\ inbox = <<>>
                  /\ pc["fsm"] \in {"f_wait", "f_fin"}
                  /\ \A p \in Callers : pc[p] \in {"Done", "h_sel", "h_lock", "u_sel"}
ProperTerminal == \/ AllDone /\ (GoroutinesGone \/ (~closed /\ WaitingForPeer))
                  \/ ~closed /\ ~alertSeen /\ WaitingForPeer
\* deadlock freedom: SpecD adds a stuttering step in proper terminal states only, so TLC's deadlock check
\* (CHECK_DEADLOCK TRUE) reports exactly the improper ones
TerminalStutter == ProperTerminal /\ UNCHANGED vars
Fairness == /\ WF_vars(Fsm)
            /\ WF_vars(Reader) /\ WF_vars(doClose("rdr"))
            /\ \A self \in Hs : WF_vars(UserHs(self)) /\ WF_vars(doHandshake(self))
            /\ \A self \in Cl : WF_vars(UserClose(self)) /\ WF_vars(doClose(self))
            /\ \A self \in Rd : WF_vars(UserRead(self)) /\ WF_vars(doHandshake(self))
            /\ \A self \in Wr : WF_vars(UserWrite(self)) /\ WF_vars(doHandshake(self))
            /\ \A self \in Dl : WF_vars(Deadline(self))
            /\ WF_vars(Transport)
SpecD == Init /\ [][Next \/ TerminalStutter]_vars /\ Fairness

\* liveness (fair processes)
AllCallsReturn == (closed \/ alertSeen) ~> AllDone
NoGoroutineLeft == [](~closed) \/ <>[]GoroutinesGone
PeerReadEOF == alertSeen ~> (\A r \in Rd : pc[r] = "Done")
DeadlineInterrupts == (rdl /\ wdl) ~> (\A p \in Hs \cup Dl \cup (IF StartEstablished THEN Rd \cup Wr ELSE {}) : pc[p] = "Done")

\* ---------------------------------------------------------------- peer scripts (cfg: PeerScript <- PS_...)
PS_none == <<>>
PS_hs == <<"hs">>
PS_hs_hs == <<"hs", "hs">>
PS_hs_hs_app == <<"hs", "hs", "app">>
PS_hs_hs_hs == <<"hs", "hs", "hs">>
PS_hs_cn == <<"hs", "cn">>
PS_hs_fatal == <<"hs", "fatal">>
PS_hs_bad == <<"hs", "bad">>
PS_hs_warn_hs == <<"hs", "warn", "hs">>
PS_hs_hs_cn == <<"hs", "hs", "cn">>
PS_app == <<"app">>
PS_app_app == <<"app", "app">>
PS_cn == <<"cn">>
PS_fatal == <<"fatal">>
PS_app_cn == <<"app", "cn">>
PS_app_fatal == <<"app", "fatal">>
PS_app_app_cn == <<"app", "app", "cn">>
PS_cn_app == <<"cn", "app">>
PS_hs_app_cn == <<"hs", "app", "cn">>
PS_warn_app_cn == <<"warn", "app", "cn">>
PS_bad_app_cn == <<"bad", "app", "cn">>
PS_app_hs_app == <<"app", "hs", "app">>
\* ---------------------------------------------------------------- script generation
view == <<pc, stack, closed, byUser, ncClosed, hsMutex, writeLock, established, gen, hsCancel, rdCancel,
          hsDoneCur, hsDoneClosed, dec, decClosed, cnOnce, firstErr, loopsDone, fsmRun, rdRun, fsmClosed, hsLeft, offer,
          cmd, inbox, rdl, wdl, hsCtxDone, wblock, cnSent, alertSeen, teardowns, panic, ret, hres, openClose,
          byU, cg, prevByUser, wasClosed, hctx, herr, fst, ferr, fg, fwr, d, rerr, act, rg, kd, kn, un>>
EmitEdge == (Record /\ hist' # hist) =>
              PrintT(ToJson([steps |-> hist', cn |-> cnSent', closed |-> closed', est |-> established', panic |-> panic']))
=============================================================================
