----------------------------- MODULE TraceCidRrc -----------------------------
(* Trace specification for CidRrc.tla, Part "conn": the steps recorded from real connections
   (harness/root/c15_conn_test.go) are replayed against the endpoint model.  One ndjson line per
   environment action; what the endpoint was observed to do (accept decision, Conn.RemoteAddr(),
   every datagram it emitted with destination, size, decoded kind / cookie and whether it carries
   the peer's CID) is adopted into raddr / emit / last and the ghost counters, so that the C15
   formulas of CidRrc.tla (same text, EXTENDS) are evaluated on the real behaviour:

     {"ev":"clock","t":ms}                                   time of the following action (ms since start, >= 1)
     {"ev":"make","kind":..,"ck":..,"size":..,"cid":..}      the peer produced its next genuine record
     {"ev":"deliver","s":..,"src":..,"chsize":..,"acc":..,"raddr":..,"emit":[..]}
     {"ev":"garbage","src":..,"size":..,"raddr":..,"emit":[..]}
     {"ev":"hs","src":..,"size":..,"raddr":..,"emit":[..]}   a handshake-phase datagram of the peer (from any address)
     {"ev":"write","raddr":..,"emit":[..]}
     {"ev":"reset"}                                          next session

   Projection (Strict = FALSE): the manager model runs on the inputs but nothing observed is compared
   with it; a rejection is a formula of C15 that is false on the observed behaviour.
   Strict = TRUE additionally demands that decision, address and emissions equal the model's
   (reported as model/code divergence, never as a violation).
   The whole trace must be consumed (POSTCONDITION Accepted).                                   *)
EXTENDS CidRrc

CONSTANT Strict
VARIABLE l

Trace == ndJsonDeserialize("trace.ndjson")
Ev == Trace[l]
tvars == <<vars, l>>

IsEv(name) == l <= Len(Trace) /\ Ev.ev = name
Adv == l' = l + 1

ToEmit(e) == [dst |-> e.dst, kind |-> e.kind, ck |-> e.ck, size |-> e.size, pcid |-> e.pcid]
EmSeq(ev) == [i \in 1..Len(ev.emit) |-> ToEmit(ev.emit[i])]

ObservedCookie(em) == IF \E i \in 1..Len(em) : em[i].kind = "chal"
                      THEN em[CHOOSE i \in 1..Len(em) : em[i].kind = "chal"].ck ELSE 0 - 1

\* the model speaks about RRC messages only; other records the endpoint sends to its active address
\* (DTLS 1.3 post-handshake retransmissions, ACKs) are outside it
IsRrc(e) == e.kind \in {"chal", "resp"}
Rrc(em) == SelectSeq(em, IsRrc)

SameEmit(m, o) ==
  /\ Len(m) = Len(o)
  /\ \A i \in 1..Len(m) : /\ m[i].dst = o[i].dst /\ m[i].kind = o[i].kind /\ m[i].size = o[i].size
                          /\ m[i].pcid = o[i].pcid
                          /\ (m[i].kind = "resp" => m[i].ck = o[i].ck)

TInit == MgrIdle /\ ConnIdle /\ RouteIdle /\ steps = 0 /\ hist = <<>> /\ l = 1

TClock ==
  /\ IsEv("clock") /\ Ev.t >= now
  /\ now' = Ev.t
  /\ paths' = MTimers(paths, Ev.t)
  /\ UNCHANGED <<nck, old, ret, connVars, routeVars, steps, hist>>
  /\ Adv

TMake ==
  /\ IsEv("make")
  /\ pseq' = pseq + 1
  /\ recs' = Append(recs, [kind |-> Ev.kind, ck |-> Ev.ck, size |-> Ev.size, cid |-> Ev.cid])
  /\ emit' = <<>>
  /\ last' = [op |-> "make", s |-> pseq + 1, src |-> Home, acc |-> FALSE]
  /\ UNCHANGED <<mgrVars, raddr, seen, maxSeen, gs, gr, newest, chal, routeVars, steps, hist>>
  /\ Adv

TDeliver ==
  /\ IsEv("deliver") /\ Ev.s \in 1..pseq /\ Ev.src \in Addr /\ Ev.raddr \in Addr
  /\ LET s == Ev.s
         src == Ev.src
         em == EmSeq(Ev)
         h == Handle(s, src, ObservedCookie(em), Ev.chsize)
         acc == Ev.acc
         hadCID == OwnCid /\ recs[s].cid = "ok"
         g == Ghosts(acc, hadCID, s > maxSeen, recs[s].size, em, src, Ev.raddr, now) IN
     /\ Strict => (h.acc = acc /\ h.ra = Ev.raddr /\ SameEmit(h.em, Rrc(em)))
     /\ paths' = h.ps
     /\ raddr' = Ev.raddr
     /\ emit' = em
     /\ seen' = IF acc THEN seen \cup {s} ELSE seen
     /\ maxSeen' = IF acc /\ s > maxSeen THEN s ELSE maxSeen
     /\ last' = [op |-> "deliver", s |-> s, src |-> src, acc |-> acc]
     /\ gs' = g.gs /\ gr' = g.gr /\ newest' = g.newest /\ chal' = g.chal
  /\ UNCHANGED <<now, nck, old, ret, pseq, recs, routeVars, steps, hist>>
  /\ Adv

TGarbage ==
  /\ IsEv("garbage") /\ Ev.src \in Addr /\ Ev.raddr \in Addr
  /\ LET em == EmSeq(Ev)
         g == Ghosts(FALSE, FALSE, FALSE, Ev.size, em, Ev.src, Ev.raddr, now) IN
     /\ Strict => (Rrc(em) = <<>> /\ Ev.raddr = raddr)
     /\ raddr' = Ev.raddr
     /\ emit' = em
     /\ last' = [op |-> "garbage", s |-> 0, src |-> Ev.src, acc |-> FALSE]
     /\ gs' = g.gs /\ gr' = g.gr /\ newest' = g.newest /\ chal' = g.chal
  /\ UNCHANGED <<mgrVars, pseq, recs, seen, maxSeen, routeVars, steps, hist>>
  /\ Adv

\* a datagram of the peer's handshake flights (records the endpoint model does not describe) arrived from Ev.src:
\* what the endpoint did is adopted; the C15 formulas judge it, the strict comparison does not apply
THs ==
  /\ IsEv("hs") /\ Ev.src \in Addr /\ Ev.raddr \in Addr
  /\ LET em == EmSeq(Ev)
         \* the datagram is a genuine one of the peer that is delivered once: authentic and newest
         g == Ghosts(TRUE, TRUE, TRUE, Ev.size, em, Ev.src, Ev.raddr, now) IN
     /\ raddr' = Ev.raddr
     /\ emit' = em
     /\ last' = [op |-> "hs", s |-> 0, src |-> Ev.src, acc |-> FALSE]
     /\ gs' = g.gs /\ gr' = g.gr /\ newest' = g.newest /\ chal' = g.chal
  /\ UNCHANGED <<mgrVars, pseq, recs, seen, maxSeen, routeVars, steps, hist>>
  /\ Adv

TWrite ==
  /\ IsEv("write") /\ Ev.raddr \in Addr
  /\ LET em == EmSeq(Ev)
         g == Ghosts(FALSE, FALSE, FALSE, 0, em, raddr, Ev.raddr, now) IN
     /\ Strict => (Ev.raddr = raddr /\ Rrc(em) = <<>> /\ \A i \in 1..Len(em) : em[i].dst = raddr)
     /\ raddr' = Ev.raddr
     /\ emit' = em
     /\ last' = [op |-> "write", s |-> 0, src |-> raddr, acc |-> FALSE]
     /\ gs' = g.gs /\ gr' = g.gr /\ newest' = g.newest /\ chal' = g.chal
  /\ UNCHANGED <<mgrVars, pseq, recs, seen, maxSeen, routeVars, steps, hist>>
  /\ Adv

TReset ==
  /\ IsEv("reset")
  /\ paths' = EmptyPaths /\ now' = 1 /\ nck' = 1 /\ old' = [a \in Addr |-> 0] /\ ret' = [ok |-> FALSE, ck |-> 0]
  /\ raddr' = Home /\ pseq' = 0 /\ recs' = <<>> /\ seen' = {} /\ maxSeen' = 0 /\ emit' = <<>>
  /\ last' = [op |-> "init", s |-> 0, src |-> Home, acc |-> FALSE]
  /\ gs' = [a \in Addr |-> 0] /\ gr' = [a \in Addr |-> 0]
  /\ newest' = [a \in Addr |-> FALSE] /\ chal' = [a \in Addr |-> [ck |-> 0, t |-> 0]]
  /\ UNCHANGED <<routeVars, steps, hist>>
  /\ Adv

TNext == TClock \/ TMake \/ TDeliver \/ TGarbage \/ THs \/ TWrite \/ TReset
TSpec == TInit /\ [][TNext]_tvars

\* batch form: a step that would falsify a C15 formula cannot be taken, so that the trace gets stuck at the
\* offending line (no error trace of the whole batch is printed); the session is then re-validated alone
\* with TSpec and the formulas as INVARIANT / PROPERTY to name the formula
PropsNow == ThreeTimesBudget /\ NoRRCNoMigration /\ OwnCIDOnly /\ PeerCIDOnEveryProtectedRecord /\ NoAppDataOffPath
TNextG == TNext /\ AddrChangeOK /\ PropsNow'
TSpecG == TInit /\ [][TNextG]_tvars

Accepted == TLCGet("stats").diameter - 1 = Len(Trace)
=============================================================================
