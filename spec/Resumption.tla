----------------------------- MODULE Resumption -----------------------------
(* C14 - DTLS 1.2 session resumption of pion/dtls as the code implements it
   (session.go, config.go newHandshakeConfig Get/Set/DelSession, flight0handler.go
   handleHelloResume, flight1handler.go, flight3handler.go handleResumption,
   flight4handler.go, flight4bhandler.go, flight5handler.go, flight5bhandler.go,
   conn.go notify / sessionKey).

   The model is a HISTORY of up to MaxConns connections between one client and one
   server that share two session stores:
     cstore  - the client's store.  The key is "remote address _ server name", i.e.
               ONE slot for this client/server pair; it holds (id, secret) or nothing.
     sstore  - the server's store, keyed by session id.
   Connections are started one after the other but run interleaved (at most
   MaxActive unfinished ones at a time); every action is one environment event
   (datagram delivered / dropped / tampered, retransmission timer, handshake
   deadline, provoked fatal alert) followed by the reaction of the receiving
   endpoint up to its next blocking point - what the harness observes between two
   quiescent points.

   Secrets, keys and MACs are symbolic terms.  A Finished verifies only by
   structural equality of (secret, transcript); a protected record decrypts only
   under structurally equal keys (secret, client random, server random).

   Code facts reproduced (named where they deviate from the RFC picture):
    * flight1Generate: the client offers whatever its store holds under the key
      (id and secret are taken as they are, no length / consistency check).
    * handleHelloResume: the server resumes iff Get(offered id) returns a non-nil
      id; the secret is used as stored.  The cipher suite is negotiated afresh
      from the hellos (a session does not bind a suite).  Known id => Flight 4b at
      once, also with hello verification enabled.
    * handleResumption (client): keys are initialised from the client's secret, the
      queued records are decrypted (a record that does not decrypt is dropped
      SILENTLY: the client keeps waiting and retransmitting), then verify_data is
      compared; a mismatch is a fatal handshake_failure.
    * flight4bParse (server): the same for the client's Finished.
    * abbreviated handshakes never write a store.  Full handshakes: the server
      stores (id -> secret) in flight4Parse when the ClientKeyExchange is parsed
      (BEFORE the client's Finished is seen) unless the client sent a certificate
      (SessionID dropped); the client stores under its key in flight5Parse after the
      server's Finished verified.
    * ClientFallbackDelIsNoop: on fallback the client calls DelSession(old session
      id) - the wrong key for a client store - so nothing is deleted there.
    * notify: the endpoint that SENDS a fatal alert deletes c.sessionKey() from its
      store when its SessionID is non-empty: the server deletes the id, the client
      deletes its single slot (whatever it holds by then).  RECEIVING a fatal alert
      deletes nothing.
    * a resumed client that completed re-sends Flight 5b when Flight 4b arrives again.
    * rogue peers on either side (StartRogue / RogueHello: a "server" without store; StartRogueClient /
      RogueFinished: a "client" that offers an id and keys its Finished with a secret of its choice).
    * flight3Parse is RE-ENTERED whenever more of the server flight arrives.  A ServerHello
      whose session id is not the offered one starts the full path: the client adopts the
      id (state.SessionID) and clears the master secret BEFORE the rest of the flight is
      there.  ResumeNeedsStoredSecret = FALSE is the pinned tree: on the next pass the
      adopted id compares equal and the client runs handleResumption under the EMPTY
      master secret "E", which everybody knows.  A rogue peer (no certificate, no PSK, no
      stored secret) then completes an abbreviated handshake: RogueHello below.  The
      "fix:" commit makes resumption require the stored, non-empty secret (TRUE).
   Deliberately broken variants (constants) exist so that every formula can be seen
   to fail: ClientChecksFinished, ServerChecksFinished, KeysBindSecret,
   AlertDeletesSession, FreshRandoms, ResumeInheritsCIDs. *)
EXTENDS Integers, Sequences, FiniteSets, TLC, Json

CONSTANTS MaxConns,             \* connections in a history
          MaxActive,            \* connections that may be unfinished at the same time
          MaxDrop,              \* datagrams of the abbreviated flights (and alerts) lost in a history
          MaxTamper,            \* ClientHellos modified in flight (transcripts then differ)
          MaxDev,               \* connections in which one peer sends a wrong verify_data although it holds the keys
          MaxProvoke,           \* established connections on which an endpoint is made to send a fatal alert
          MaxTimeouts,          \* retransmission timer events in a history
          MaxFaults,            \* drops + tampers + deviations + provoked alerts in a history
          InitContents,         \* subset of StoreContents
          AllowClientCert,      \* a full handshake may use a client certificate
          ClientChecksFinished, ServerChecksFinished, KeysBindSecret,
          AlertDeletesSession, FreshRandoms, ResumeInheritsCIDs,
          MaxRogue,             \* connections whose "server" is a rogue peer that holds no store
          RogueSecrets,         \* secrets such a peer may key its Finished with: "E" the empty one, "SB" some other,
                                \* "SA" = the peer does hold the secret of session A (positive control)
          ResumeNeedsStoredSecret,
          Gen

None == "-"
Conns == 1..MaxConns
NId(k) == "N" \o ToString(k)          \* session id drawn by the server in the full handshake of connection k
MS(k)  == "M" \o ToString(k)          \* master secret computed in the full handshake of connection k
Ids == {"A", "R"} \cup {NId(k) : k \in Conns}
RogueIds == {"R", "A"}                \* session id in a rogue ServerHello: a new one, or the well-known A
Secrets == {"SA", "SB", "ST", "E"} \cup {MS(k) : k \in Conns}
StoreContents == {"empty", "fresh", "stale", "swapped", "ctrunc", "strunc", "sonly", "cempty"}
Devs == {"none", "sfin", "cfin"}
Msgs == {"CH", "CHt", "F4b", "F5b", "F4", "F5", "F6", "alertC", "alertS"}
Lossy == {"CH", "CHt", "F4b", "F5b", "alertC", "alertS"}
EmptySlot == [id |-> None, ms |-> None]
NoServerStore == [i \in Ids |-> None]
NoRogue == [id |-> None, sec |-> None, side |-> None]

\* pre-populated store contents: session "A" with secret "SA"; "SB" is another (swapped) secret,
\* "ST" a truncated copy (a different term)
InitC(n) == CASE n = "empty"   -> EmptySlot
              [] n = "sonly"   -> EmptySlot
              [] n = "ctrunc"  -> [id |-> "A", ms |-> "ST"]
              [] n = "cempty"  -> [id |-> "A", ms |-> "E"]       \* an entry whose secret is EMPTY (truncated to nothing)
              [] OTHER         -> [id |-> "A", ms |-> "SA"]
InitS(n) == CASE n = "empty"   -> NoServerStore
              [] n = "stale"   -> NoServerStore
              [] n = "cempty"  -> NoServerStore
              [] n = "swapped" -> [NoServerStore EXCEPT !["A"] = "SB"]
              [] n = "strunc"  -> [NoServerStore EXCEPT !["A"] = "ST"]
              [] OTHER         -> [NoServerStore EXCEPT !["A"] = "SA"]

VARIABLES content,   \* which pre-populated content this history started from
          cstore, sstore,
          started,   \* connections started so far
          cst,       \* client of connection k: "off" | "waitSH" | "waitF6" | "est" | "failed" | "closed"
          sst,       \* server of connection k: "off" | "idle" | "waitCF" | "waitF5" | "est" | "failed" | "closed"
          offer,     \* what the client took from its store when it generated the ClientHello
          csid, cms, \* client: session id / master secret of the connection
          sid, sms,  \* server: the same
          cabbr, sabbr, \* the endpoint runs the abbreviated handshake
          cver, sver,   \* the endpoint compared the peer's verify_data and found it equal
          ce, se,       \* the endpoint reported success (sticky)
          tam,       \* the server consumed a ClientHello that differs from the one the client sent
          dev, cc,   \* deviation of a peer / client certificate in use
          cids,      \* connection in whose hellos the connection IDs in use were negotiated
          net,       \* datagrams in flight per connection (set of message kinds)
          alerted,   \* per endpoint: session ids on which it SENT a fatal alert
          rogue,     \* [id, sec] (None: honest server): connection k talks to a rogue peer that sends this id / keys with this secret
          drops, tampers, devs, provokes, touts,
          hist

vars == <<content, cstore, sstore, started, cst, sst, offer, csid, cms, sid, sms, cabbr, sabbr, cver, sver, ce, se,
          tam, dev, cc, cids, net, alerted, rogue, drops, tampers, devs, provokes, touts, hist>>
view == <<content, cstore, sstore, started, cst, sst, offer, csid, cms, sid, sms, cabbr, sabbr, cver, sver, ce, se,
          tam, dev, cc, cids, net, alerted, rogue, drops, tampers, devs, provokes, touts>>

Faults == drops + tampers + devs + provokes
CTerminal(k) == cst[k] \in {"est", "failed", "closed", "rogue"}
STerminal(k) == sst[k] \in {"est", "failed", "closed", "rogue"}
Finished(k) == CTerminal(k) /\ STerminal(k)
CRand(k) == IF FreshRandoms THEN k ELSE 0
SRand(k) == IF FreshRandoms THEN k ELSE 0
CKeys(k) == <<cms[k], CRand(k), SRand(k)>>     \* record keys the client derives
SKeys(k) == <<sms[k], CRand(k), SRand(k)>>
Origin(id) == IF id = "A" THEN 0 ELSE CHOOSE j \in Conns : NId(j) = id

Init ==
  /\ content \in InitContents
  /\ cstore = InitC(content) /\ sstore = InitS(content)
  /\ started = 0
  /\ cst = [k \in Conns |-> "off"] /\ sst = [k \in Conns |-> "off"]
  /\ offer = [k \in Conns |-> EmptySlot]
  /\ csid = [k \in Conns |-> None] /\ cms = [k \in Conns |-> None]
  /\ sid = [k \in Conns |-> None] /\ sms = [k \in Conns |-> None]
  /\ cabbr = [k \in Conns |-> FALSE] /\ sabbr = [k \in Conns |-> FALSE]
  /\ cver = [k \in Conns |-> FALSE] /\ sver = [k \in Conns |-> FALSE]
  /\ ce = [k \in Conns |-> FALSE] /\ se = [k \in Conns |-> FALSE]
  /\ tam = [k \in Conns |-> FALSE]
  /\ dev = [k \in Conns |-> "none"] /\ cc = [k \in Conns |-> FALSE]
  /\ cids = [k \in Conns |-> -1]
  /\ net = [k \in Conns |-> {}]
  /\ alerted = [c |-> {}, s |-> {}]
  /\ rogue = [k \in Conns |-> NoRogue]
  /\ drops = 0 /\ tampers = 0 /\ devs = 0 /\ provokes = 0 /\ touts = 0
  /\ hist = <<>>

-----------------------------------------------------------------------------
(* starting a connection: flight1Generate reads the client's store *)
Start(k, d, useCert) ==
  /\ k = started + 1 /\ k <= MaxConns
  /\ Cardinality({j \in 1..started : ~Finished(j)}) < MaxActive
  /\ (d # "none" => (devs < MaxDev /\ Faults < MaxFaults))
  /\ (useCert => AllowClientCert)
  /\ started' = k
  /\ devs' = IF d # "none" THEN devs + 1 ELSE devs
  /\ offer' = [offer EXCEPT ![k] = cstore]
  /\ csid' = [csid EXCEPT ![k] = cstore.id]
  /\ cms' = [cms EXCEPT ![k] = cstore.ms]
  /\ dev' = [dev EXCEPT ![k] = d]
  /\ cc' = [cc EXCEPT ![k] = useCert]
  /\ cst' = [cst EXCEPT ![k] = "waitSH"]
  /\ sst' = [sst EXCEPT ![k] = "idle"]
  /\ net' = [net EXCEPT ![k] = {"CH"}]
  /\ UNCHANGED <<content, cstore, sstore, sid, sms, cabbr, sabbr, cver, sver, ce, se, tam, cids, alerted,
                 drops, tampers, provokes, touts>>

(* flight0Parse + handleHelloResume *)
SrvCH(k, m) ==
  /\ m \in {"CH", "CHt"} /\ m \in net[k]
  /\ IF sst[k] = "idle"
     THEN LET id == offer[k].id IN
          IF id # None /\ sstore[id] # None
          THEN /\ sid' = [sid EXCEPT ![k] = id]
               /\ sms' = [sms EXCEPT ![k] = sstore[id]]
               /\ sabbr' = [sabbr EXCEPT ![k] = TRUE]
               /\ sst' = [sst EXCEPT ![k] = "waitCF"]
               /\ net' = [net EXCEPT ![k] = (@ \ {m}) \cup {"F4b"}]
          ELSE /\ sid' = [sid EXCEPT ![k] = NId(k)]
               /\ sst' = [sst EXCEPT ![k] = "waitF5"]
               /\ net' = [net EXCEPT ![k] = (@ \ {m}) \cup {"F4"}]
               /\ UNCHANGED <<sms, sabbr>>
     ELSE /\ net' = [net EXCEPT ![k] = @ \ {m}]        \* a repeated ClientHello changes nothing
          /\ UNCHANGED <<sid, sms, sabbr, sst>>
  /\ tam' = IF sst[k] = "idle" THEN [tam EXCEPT ![k] = (m = "CHt")] ELSE tam
  /\ UNCHANGED <<content, cstore, sstore, started, cst, offer, csid, cms, cabbr, cver, sver, ce, se, dev, cc, cids,
                 alerted, drops, tampers, devs, provokes, touts>>

(* conn.go notify on the client: fatal alert, the slot of the store is deleted *)
ClientAlertUpd(k) ==
  /\ alerted' = IF csid[k] # None THEN [alerted EXCEPT !.c = @ \cup {csid[k]}] ELSE alerted
  /\ cstore' = IF AlertDeletesSession /\ csid[k] # None THEN EmptySlot ELSE cstore
ServerAlertUpd(k) ==
  /\ alerted' = IF sid[k] # None THEN [alerted EXCEPT !.s = @ \cup {sid[k]}] ELSE alerted
  /\ sstore' = IF AlertDeletesSession /\ sid[k] # None THEN [sstore EXCEPT ![sid[k]] = None] ELSE sstore

(* flight3Parse + handleResumption: the abbreviated server flight reaches the client *)
CliF4b(k) ==
  /\ "F4b" \in net[k]
  /\ LET decryptOK == ~KeysBindSecret \/ cms[k] = sms[k]
         macOK == cms[k] = sms[k] /\ ~tam[k] /\ dev[k] # "sfin"
     IN
     IF cst[k] = "waitSH" /\ decryptOK /\ ClientChecksFinished /\ ~macOK
     THEN \* verify_data mismatch: fatal handshake_failure
          /\ ClientAlertUpd(k)
          /\ cst' = [cst EXCEPT ![k] = "failed"]
          /\ net' = [net EXCEPT ![k] = (@ \ {"F4b"}) \cup {"alertC"}]
          /\ UNCHANGED <<cabbr, cver, ce, cids>>
     ELSE IF cst[k] = "waitSH" /\ decryptOK
     THEN /\ cabbr' = [cabbr EXCEPT ![k] = TRUE]
          /\ cver' = [cver EXCEPT ![k] = ClientChecksFinished /\ macOK]
          /\ ce' = [ce EXCEPT ![k] = TRUE]
          /\ cst' = [cst EXCEPT ![k] = "est"]
          /\ cids' = [cids EXCEPT ![k] = IF ResumeInheritsCIDs THEN Origin(csid[k]) ELSE k]
          /\ net' = [net EXCEPT ![k] = (@ \ {"F4b"}) \cup {"F5b"}]
          /\ UNCHANGED <<alerted, cstore>>
     ELSE IF cst[k] = "est" /\ cabbr[k]
     THEN \* the server retransmitted: the client re-sends its final flight
          /\ net' = [net EXCEPT ![k] = (@ \ {"F4b"}) \cup {"F5b"}]
          /\ UNCHANGED <<alerted, cstore, cst, cabbr, cver, ce, cids>>
     ELSE \* does not decrypt under the client's keys (dropped silently), or the client is gone
          /\ net' = [net EXCEPT ![k] = @ \ {"F4b"}]
          /\ UNCHANGED <<alerted, cstore, cst, cabbr, cver, ce, cids>>
  /\ UNCHANGED <<content, sstore, started, sst, offer, csid, cms, sid, sms, sabbr, sver, se, tam, dev, cc,
                 drops, tampers, devs, provokes, touts>>

(* flight3Parse, ServerHello with another session id: full handshake (fallback) *)
CliF4(k) ==
  /\ "F4" \in net[k]
  /\ IF cst[k] = "waitSH"
     THEN /\ csid' = [csid EXCEPT ![k] = NId(k)]
          /\ cms' = [cms EXCEPT ![k] = MS(k)]
          /\ cst' = [cst EXCEPT ![k] = "waitF6"]
          /\ net' = [net EXCEPT ![k] = (@ \ {"F4"}) \cup {"F5"}]
     ELSE /\ net' = [net EXCEPT ![k] = @ \ {"F4"}]
          /\ UNCHANGED <<csid, cms, cst>>
  /\ UNCHANGED <<content, cstore, sstore, started, sst, offer, sid, sms, cabbr, sabbr, cver, sver, ce, se, tam, dev, cc,
                 cids, alerted, drops, tampers, devs, provokes, touts>>

(* flight4bParse: the client's Finished of the abbreviated handshake reaches the server *)
SrvF5b(k) ==
  /\ "F5b" \in net[k]
  /\ LET decryptOK == ~KeysBindSecret \/ cms[k] = sms[k]
         macOK == cms[k] = sms[k] /\ ~tam[k] /\ dev[k] # "cfin"
     IN
     IF sst[k] = "waitCF" /\ decryptOK /\ ServerChecksFinished /\ ~macOK
     THEN /\ ServerAlertUpd(k)
          /\ sst' = [sst EXCEPT ![k] = "failed"]
          /\ net' = [net EXCEPT ![k] = (@ \ {"F5b"}) \cup {"alertS"}]
          /\ UNCHANGED <<sver, se>>
     ELSE IF sst[k] = "waitCF" /\ decryptOK
     THEN /\ sver' = [sver EXCEPT ![k] = ServerChecksFinished /\ macOK]
          /\ se' = [se EXCEPT ![k] = TRUE]
          /\ sst' = [sst EXCEPT ![k] = "est"]
          /\ net' = [net EXCEPT ![k] = @ \ {"F5b"}]
          /\ UNCHANGED <<alerted, sstore>>
     ELSE /\ net' = [net EXCEPT ![k] = @ \ {"F5b"}]
          /\ UNCHANGED <<alerted, sstore, sst, sver, se>>
  /\ UNCHANGED <<content, cstore, started, cst, offer, csid, cms, sid, sms, cabbr, sabbr, cver, ce, tam, dev, cc, cids,
                 drops, tampers, devs, provokes, touts>>

(* flight4Parse: ClientKeyExchange .. Finished of a full handshake; the server stores the session
   (unless a client certificate came) and answers with Flight 6 *)
SrvF5(k) ==
  /\ "F5" \in net[k]
  /\ IF sst[k] = "waitF5"
     THEN /\ sms' = [sms EXCEPT ![k] = MS(k)]
          /\ sid' = [sid EXCEPT ![k] = IF cc[k] THEN None ELSE NId(k)]
          /\ sstore' = IF cc[k] THEN sstore ELSE [sstore EXCEPT ![NId(k)] = MS(k)]
          /\ sver' = [sver EXCEPT ![k] = TRUE]
          /\ se' = [se EXCEPT ![k] = TRUE]
          /\ sst' = [sst EXCEPT ![k] = "est"]
          /\ net' = [net EXCEPT ![k] = (@ \ {"F5"}) \cup {"F6"}]
     ELSE /\ net' = [net EXCEPT ![k] = @ \ {"F5"}]
          /\ UNCHANGED <<sms, sid, sstore, sver, se, sst>>
  /\ UNCHANGED <<content, cstore, started, cst, offer, csid, cms, cabbr, sabbr, cver, ce, tam, dev, cc, cids, alerted,
                 drops, tampers, devs, provokes, touts>>

(* flight5Parse: the server's Finished of a full handshake verified; the client stores the session *)
CliF6(k) ==
  /\ "F6" \in net[k]
  /\ IF cst[k] = "waitF6"
     THEN /\ cstore' = [id |-> csid[k], ms |-> cms[k]]
          /\ cver' = [cver EXCEPT ![k] = TRUE]
          /\ ce' = [ce EXCEPT ![k] = TRUE]
          /\ cst' = [cst EXCEPT ![k] = "est"]
          /\ cids' = [cids EXCEPT ![k] = k]
     ELSE UNCHANGED <<cstore, cver, ce, cst, cids>>
  /\ net' = [net EXCEPT ![k] = @ \ {"F6"}]
  /\ UNCHANGED <<content, sstore, started, sst, offer, csid, cms, sid, sms, cabbr, sabbr, sver, se, tam, dev, cc,
                 alerted, drops, tampers, devs, provokes, touts>>

(* a fatal alert reaches the peer: it gives up; nothing is deleted on the receiving side *)
SrvAlertIn(k) ==
  /\ "alertC" \in net[k]
  /\ net' = [net EXCEPT ![k] = @ \ {"alertC"}]
  /\ sst' = [sst EXCEPT ![k] = IF sst[k] = "est" THEN "closed" ELSE IF STerminal(k) THEN @ ELSE "failed"]
  /\ UNCHANGED <<content, cstore, sstore, started, cst, offer, csid, cms, sid, sms, cabbr, sabbr, cver, sver, ce, se, tam,
                 dev, cc, cids, alerted, drops, tampers, devs, provokes, touts>>
CliAlertIn(k) ==
  /\ "alertS" \in net[k]
  /\ net' = [net EXCEPT ![k] = @ \ {"alertS"}]
  /\ cst' = [cst EXCEPT ![k] = IF cst[k] = "est" THEN "closed" ELSE IF CTerminal(k) THEN @ ELSE "failed"]
  /\ UNCHANGED <<content, cstore, sstore, started, sst, offer, csid, cms, sid, sms, cabbr, sabbr, cver, sver, ce, se, tam,
                 dev, cc, cids, alerted, drops, tampers, devs, provokes, touts>>

(* network faults on the abbreviated flights *)
Drop(k, m) ==
  /\ m \in net[k] /\ m \in Lossy /\ drops < MaxDrop /\ Faults < MaxFaults
  /\ drops' = drops + 1
  /\ net' = [net EXCEPT ![k] = @ \ {m}]
  /\ UNCHANGED <<content, cstore, sstore, started, cst, sst, offer, csid, cms, sid, sms, cabbr, sabbr, cver, sver, ce, se,
                 tam, dev, cc, cids, alerted, tampers, devs, provokes, touts>>
\* (only ClientHellos the server would answer with the abbreviated flight are modified: what a full handshake
\* does with a modified hello is the subject of C04, and depends on extended master secret)
Tamper(k) ==
  /\ "CH" \in net[k] /\ tampers < MaxTamper /\ Faults < MaxFaults
  /\ sst[k] = "idle" /\ offer[k].id # None /\ sstore[offer[k].id] # None
  /\ tampers' = tampers + 1
  /\ net' = [net EXCEPT ![k] = (@ \ {"CH"}) \cup {"CHt"}]
  /\ UNCHANGED <<content, cstore, sstore, started, cst, sst, offer, csid, cms, sid, sms, cabbr, sabbr, cver, sver, ce, se,
                 tam, dev, cc, cids, alerted, drops, devs, provokes, touts>>

(* retransmission timers (only the lossy flights are modelled with them) *)
Timeout(k, e) ==
  /\ touts < MaxTimeouts
  /\ touts' = touts + 1
  /\ \/ /\ e = "c" /\ cst[k] = "waitSH" /\ net[k] \cap {"CH", "CHt"} = {}
        /\ net' = [net EXCEPT ![k] = @ \cup {"CH"}]
     \/ /\ e = "s" /\ sst[k] = "waitCF" /\ "F4b" \notin net[k]
        /\ net' = [net EXCEPT ![k] = @ \cup {"F4b"}]
  /\ UNCHANGED <<content, cstore, sstore, started, cst, sst, offer, csid, cms, sid, sms, cabbr, sabbr, cver, sver, ce, se,
                 tam, dev, cc, cids, alerted, drops, tampers, devs, provokes>>

(* the handshake deadline passes: every endpoint of the connection that has not completed fails *)
Abort(k) ==
  /\ k <= started /\ ~Finished(k)
  /\ cst' = [cst EXCEPT ![k] = IF CTerminal(k) THEN @ ELSE "failed"]
  /\ sst' = [sst EXCEPT ![k] = IF STerminal(k) THEN @ ELSE "failed"]
  /\ net' = [net EXCEPT ![k] = {}]
  /\ UNCHANGED <<content, cstore, sstore, started, offer, csid, cms, sid, sms, cabbr, sabbr, cver, sver, ce, se, tam, dev, cc,
                 cids, alerted, drops, tampers, devs, provokes, touts>>

(* an established endpoint is made to send a fatal alert (authenticated but undecodable record) *)
Provoke(k, e) ==
  /\ cst[k] = "est" /\ sst[k] = "est" /\ provokes < MaxProvoke /\ Faults < MaxFaults
  /\ provokes' = provokes + 1
  /\ IF e = "c" THEN ClientAlertUpd(k) /\ UNCHANGED sstore ELSE ServerAlertUpd(k) /\ UNCHANGED cstore
  /\ cst' = [cst EXCEPT ![k] = "closed"] /\ sst' = [sst EXCEPT ![k] = "closed"]
  /\ net' = [net EXCEPT ![k] = {}]
  /\ UNCHANGED <<content, started, offer, csid, cms, sid, sms, cabbr, sabbr, cver, sver, ce, se, tam, dev, cc, cids,
                 drops, tampers, devs, touts>>

(* a rogue peer: it owns the server's address but no store, no certificate key, no PSK.  It sees the
   ClientHello (randoms are public) and sends a ServerHello with a session id of its choice, optionally followed
   by ChangeCipherSpec + a Finished computed and protected under a secret of its choice. *)
StartRogue(k, i, x) ==
  /\ k = started + 1 /\ k <= MaxConns
  /\ Cardinality({j \in 1..started : rogue[j].id # None}) < MaxRogue
  /\ Cardinality({j \in 1..started : ~Finished(j)}) < MaxActive
  /\ started' = k
  /\ rogue' = [rogue EXCEPT ![k] = [id |-> i, sec |-> x, side |-> "s"]]
  /\ offer' = [offer EXCEPT ![k] = cstore]
  /\ csid' = [csid EXCEPT ![k] = cstore.id]
  /\ cms' = [cms EXCEPT ![k] = cstore.ms]
  /\ cst' = [cst EXCEPT ![k] = "waitSH"]
  /\ sst' = [sst EXCEPT ![k] = "rogue"]
  /\ UNCHANGED <<content, cstore, sstore, sid, sms, cabbr, sabbr, cver, sver, ce, se, tam, dev, cc, cids, net, alerted,
                 drops, tampers, devs, provokes, touts>>

\* flight3Parse on the rogue's ServerHello (withFin: ChangeCipherSpec + Finished travel with it)
RogueHello(k, withFin) ==
  /\ rogue[k].side = "s" /\ cst[k] = "waitSH"
  /\ LET id == rogue[k].id
         resumeBranch == csid[k] = id /\ (ResumeNeedsStoredSecret => cms[k] \notin {None, "E"})
     IN
     IF resumeBranch
     THEN IF withFin /\ cms[k] = rogue[k].sec
          THEN \* decrypts under the client's keys and verify_data matches
               /\ cabbr' = [cabbr EXCEPT ![k] = TRUE]
               /\ cver' = [cver EXCEPT ![k] = TRUE]
               /\ ce' = [ce EXCEPT ![k] = TRUE]
               /\ cst' = [cst EXCEPT ![k] = "est"]
               /\ cids' = [cids EXCEPT ![k] = k]
               /\ UNCHANGED <<csid, cms>>
          ELSE UNCHANGED <<cabbr, cver, ce, cst, cids, csid, cms>>   \* nothing decrypts: the client keeps waiting
     ELSE \* full path, the rest of the flight never comes: the id is adopted, the master secret cleared
          /\ csid' = [csid EXCEPT ![k] = id]
          /\ cms' = [cms EXCEPT ![k] = "E"]
          /\ UNCHANGED <<cabbr, cver, ce, cst, cids>>
  /\ UNCHANGED <<content, cstore, sstore, started, sst, offer, sid, sms, sabbr, sver, se, tam, dev, cc, net, alerted, rogue,
                 drops, tampers, devs, provokes, touts>>

(* a rogue CLIENT: it offers a session id of its choice and keys its Finished with a secret of its choice; the
   real server (with the shared store) answers.  The client-side variables of the connection describe the rogue. *)
StartRogueClient(k, i, x) ==
  /\ k = started + 1 /\ k <= MaxConns
  /\ Cardinality({j \in 1..started : rogue[j].id # None}) < MaxRogue
  /\ Cardinality({j \in 1..started : ~Finished(j)}) < MaxActive
  /\ started' = k
  /\ rogue' = [rogue EXCEPT ![k] = [id |-> i, sec |-> x, side |-> "c"]]
  /\ offer' = [offer EXCEPT ![k] = [id |-> i, ms |-> x]]
  /\ csid' = [csid EXCEPT ![k] = i]
  /\ cms' = [cms EXCEPT ![k] = x]
  /\ cst' = [cst EXCEPT ![k] = "rogue"]
  /\ sst' = [sst EXCEPT ![k] = "idle"]
  /\ net' = [net EXCEPT ![k] = {"CH"}]
  /\ UNCHANGED <<content, cstore, sstore, sid, sms, cabbr, sabbr, cver, sver, ce, se, tam, dev, cc, cids, alerted,
                 drops, tampers, devs, provokes, touts>>

\* having seen the server's abbreviated flight (its random), the rogue sends ChangeCipherSpec + Finished
RogueFinished(k) ==
  /\ rogue[k].side = "c" /\ "F4b" \in net[k]
  /\ net' = [net EXCEPT ![k] = (@ \ {"F4b"}) \cup {"F5b"}]
  /\ UNCHANGED <<content, cstore, sstore, started, cst, sst, offer, csid, cms, sid, sms, cabbr, sabbr, cver, sver, ce, se, tam,
                 dev, cc, cids, alerted, rogue, drops, tampers, devs, provokes, touts>>

-----------------------------------------------------------------------------
Post == [c |-> cst', s |-> sst', ca |-> cabbr', sa |-> sabbr',
         cs |-> cstore', ss |-> [i \in Ids |-> sstore'[i]]]
Log(a, k, x) == hist' = Append(hist, [act |-> a, k |-> k, arg |-> x, post |-> Post])

HonestNext(k) ==
     \/ \E d \in Devs, u \in BOOLEAN : Start(k, d, u) /\ Log("Start", k, <<d, IF u THEN "cert" ELSE "nocert">>)
     \/ \E m \in {"CH", "CHt"} : SrvCH(k, m) /\ Log("Deliver", k, <<m>>)
     \/ CliF4b(k) /\ Log("Deliver", k, <<"F4b">>)
     \/ CliF4(k) /\ Log("Deliver", k, <<"F4">>)
     \/ SrvF5b(k) /\ Log("Deliver", k, <<"F5b">>)
     \/ SrvF5(k) /\ Log("Deliver", k, <<"F5">>)
     \/ CliF6(k) /\ Log("Deliver", k, <<"F6">>)
     \/ SrvAlertIn(k) /\ Log("Deliver", k, <<"alertC">>)
     \/ CliAlertIn(k) /\ Log("Deliver", k, <<"alertS">>)
     \/ \E m \in Lossy : Drop(k, m) /\ Log("Drop", k, <<m>>)
     \/ Tamper(k) /\ Log("Tamper", k, <<"CH">>)
     \/ \E e \in {"c", "s"} : Timeout(k, e) /\ Log("Timeout", k, <<e>>)
     \/ Abort(k) /\ Log("Abort", k, <<>>)
     \/ \E e \in {"c", "s"} : Provoke(k, e) /\ Log("Provoke", k, <<e>>)

Next ==
  \E k \in Conns :
     \/ \E i \in RogueIds, x \in RogueSecrets : StartRogue(k, i, x) /\ Log("StartRogue", k, <<i, x>>)
     \/ \E f \in BOOLEAN : RogueHello(k, f) /\ Log("RogueHello", k, <<IF f THEN "fin" ELSE "nofin">>)
     \/ \E i \in RogueIds, x \in RogueSecrets : StartRogueClient(k, i, x) /\ Log("StartRogueClient", k, <<i, x>>)
     \/ RogueFinished(k) /\ Log("RogueFinished", k, <<>>)
     \/ UNCHANGED rogue /\ HonestNext(k)

Spec == Init /\ [][Next]_vars

-----------------------------------------------------------------------------
(* C14 formulas *)

BothEst(k) == ce[k] /\ se[k]

\* an abbreviated handshake on which both sides reported success
ResumeSound ==
  \A k \in Conns : (BothEst(k) /\ (cabbr[k] \/ sabbr[k])) =>
     /\ cabbr[k] /\ sabbr[k]
     /\ cms[k] # None /\ cms[k] = sms[k]                       \* the stored secrets were equal
     /\ offer[k].id = sid[k]                                   \* ... for the offered session id
     /\ cver[k] /\ sver[k]                                     \* each verified the other's Finished
     /\ \A j \in Conns \ {k} : (ce[j] \/ se[j]) =>             \* fresh record keys
           (CKeys(j) # CKeys(k) /\ SKeys(j) # SKeys(k))
     /\ cids[k] = k                                            \* connection IDs from this handshake's hellos

\* one-sided forms: an endpoint reports success of an abbreviated handshake only after it
\* verified a Finished computed from the secret it holds itself
PeerSecret(k) == IF rogue[k].side = "s" THEN rogue[k].sec ELSE sms[k]
ClientResumeSound == \A k \in Conns : (ce[k] /\ cabbr[k]) => (cver[k] /\ cms[k] = PeerSecret(k))
\* ... and the client resumes only the session it offered, under the secret its store held for it
ClientResumesOnlyOffered ==
  \A k \in Conns : (ce[k] /\ cabbr[k]) =>
     (offer[k].id # None /\ csid[k] = offer[k].id /\ cms[k] = offer[k].ms /\ cms[k] \notin {None, "E"})
ServerResumeSound == \A k \in Conns : (se[k] /\ sabbr[k]) => (sver[k] /\ cms[k] = sms[k])

\* never an established pair keyed from different secrets; an id the server does not hold is never resumed
MismatchFallsBackOrFails ==
  /\ \A k \in Conns : BothEst(k) => cms[k] = sms[k]
  /\ \A k \in Conns : sabbr[k] => sms[k] # None
UnknownFallsBack ==
  [][\A k \in Conns, m \in {"CH", "CHt"} :
        (SrvCH(k, m) /\ sst[k] = "idle" /\ (offer[k].id = None \/ sstore[offer[k].id] = None)) => ~sabbr'[k]]_vars

\* a session on which an endpoint sent a fatal alert is gone from that endpoint's store
\* (and therefore is never offered / resumed again: offers and lookups read the store)
AlertDropsSession ==
  /\ \A x \in alerted.c : cstore.id # x
  /\ \A x \in alerted.s : sstore[x] = None
NeverOfferedAgain ==
  [][\A k \in Conns, d \in Devs, u \in BOOLEAN : Start(k, d, u) => offer'[k].id \notin alerted.c]_vars
NeverResumedAgain ==
  [][\A k \in Conns, m \in {"CH", "CHt"} : (SrvCH(k, m) /\ sabbr'[k] /\ ~sabbr[k]) => sid'[k] \notin alerted.s]_vars

\* abbreviated handshakes never write a store
AbbreviatedWritesNothing ==
  [][\A k \in Conns : (CliF4b(k) \/ SrvF5b(k)) =>
        /\ (cstore' = cstore \/ cstore' = EmptySlot)
        /\ \A i \in Ids : (sstore'[i] = sstore[i] \/ sstore'[i] = None)]_vars

TypeOK ==
  /\ cstore.id \in Ids \cup {None} /\ cstore.ms \in Secrets \cup {None}
  /\ \A i \in Ids : sstore[i] \in Secrets \cup {None}
  /\ \A k \in Conns : net[k] \subseteq Msgs

\* script generation: one script per edge of the state graph
EmitEdge == Gen => PrintT(ToJson([content |-> content, steps |-> hist']))
=============================================================================
