---------------------------- MODULE Handshake13 ----------------------------
(* The DTLS 1.3 flight machine of pion/dtls (internal/handshake/fsm13.go, reliable_flight.go, the start of
   post_handshake.go) with a lossy / duplicating / reordering network.  Same granularity as Handshake12.tla:
   one action = one environment event (a datagram is delivered, a retransmission timer fires) followed by the
   endpoint's reaction up to the point where its FSM goroutine blocks again in wait() or finish().

   Every flight travels in one datagram (one classical key-share group, default MTU).  Datagram kinds:
     F1  ClientHello            F2  HelloRetryRequest       F3  ClientHello with cookie
     F4  ServerHello .. Finished (one datagram)              F5  client Finished
     As  ACK record of the server
     Ac4 ACK record of the client that acknowledges only flight-4 records    AcT one that (also) acknowledges the ticket
     T   NewSessionTicket (first post-handshake flight of the server)
   Without hello verification (HRR = FALSE) F1 is answered by F4 directly.

   Code facts reproduced (fsm13.handleReceivedFlight / transitionAfterACK / handlePreviousFlightRetransmit):
   - a flight is retransmitted on the timer iff its retransmit flag is set (F2 is not) and it is not fully acknowledged;
   - a peer retransmission of the previous flight makes the endpoint answer at once: HelloRetryRequest is sent again,
     a retransmittable flight is sent again through the timeout handler (which also doubles the interval), and a
     client whose current flight is its last one first acknowledges the duplicate (Ac);
   - the server completes when the client's Finished arrives: it acknowledges it (As), reports success and starts
     the NewSessionTicket flight (T) which it retransmits on its own timer until acknowledged;
   - the client completes when its Finished is acknowledged - explicitly (As) or implicitly by new post-handshake
     data (T) arriving while it still waits (the "fix:" commit 4651e65);
   - an established endpoint acknowledges retransmitted handshake records of the peer.
   Serves C02 (BothEstablish), C17 (TimerLaw13, NoTimerHRR, AckNeverOnTimer), C13 (CookieFirst13). *)
EXTENDS Integers, Sequences, FiniteSets, TLC, Json

CONSTANTS HRR,                \* server answers the first ClientHello with HelloRetryRequest
          MaxDrop, MaxDup, MaxTimeouts, BackoffCap,
          ResendHRR,          \* a repeated ClientHello makes the server send its HelloRetryRequest again (TRUE since the
                              \* "fix:" commit 13cb030; FALSE = pinned tree: a lost HelloRetryRequest was never recovered)
          PostTimeouts,       \* further time-outs that only an established server with an unacknowledged ticket flight may take
          Cap,                \* identical copies of one datagram kind in flight at once (further emissions are merged)
          Gen

E == {"c", "s"}
Peer(e) == IF e = "c" THEN "s" ELSE "c"
Kinds == {"F1", "F2", "F3", "F4", "F5", "As", "Ac4", "AcT", "T"}
Sender(k) == IF k \in {"F1", "F3", "F5", "Ac4", "AcT"} THEN "c" ELSE "s"

VARIABLES st,      \* "Waiting" | "Finished"
          fl,      \* current flight: client F1 F3 F5, server F0 F2 F4
          retx,    \* retransmit flag of the current flight (cleared when it is fully acknowledged)
          bk,      \* doublings of the retransmit interval
          got,     \* datagram kinds of the peer this endpoint has processed
          est,     \* HandshakeContext returned nil
          tick,    \* server: NewSessionTicket flight "none" | "pending" | "acked"
          owe,     \* client: protected handshake records received and not yet acknowledged ({"F4","T"} subset): every
                   \* acknowledgement the client sends flushes all of them (conn.pendingACKs)
          net,     \* kind -> [n, d, s] as in Handshake12
          drops, dups, touts,
          tbk,     \* doublings of the ticket flight's own retransmit interval (post-handshake flights back off like handshake flights)
          ptouts,  \* time-outs taken from the PostTimeouts budget
          emits,   \* sequence of kinds emitted by the last action
          cause,   \* "recv" | "timer" | "start" | "none"
          hist
vars == <<st, fl, retx, bk, got, est, tick, owe, net, drops, dups, touts, tbk, ptouts, emits, cause, hist>>
viewv == <<st, fl, retx, bk, got, est, tick, owe, net, drops, dups, touts, tbk, ptouts, emits, cause>>

PutK(n, k) == [n EXCEPT ![k].n = IF n[k].n + n[k].d < Cap THEN @ + 1 ELSE @]
RECURSIVE PutAll(_, _)
PutAll(n, ks) == IF ks = <<>> THEN n ELSE PutAll(PutK(n, Head(ks)), Tail(ks))
Take(n, k, c) == CASE c = "n" -> [n EXCEPT ![k].n = @ - 1] [] c = "d" -> [n EXCEPT ![k].d = @ - 1, ![k].s = @ + 1]
                   [] OTHER -> [n EXCEPT ![k].s = @ - 1]
Has(k, c) == CASE c = "n" -> net[k].n > 0 [] c = "d" -> net[k].d > 0 [] OTHER -> net[k].s > 0
Bump(b) == IF b < BackoffCap THEN b + 1 ELSE b

\* the acknowledgement the client would send now (nothing when it owes none)
AckOf(o) == IF o = {} THEN <<>> ELSE IF "T" \in o THEN <<"AcT">> ELSE <<"Ac4">>

\* reaction of endpoint e to datagram kind k: [fl, st, retx, bk, est, tick, owe, out]
ReactG(e, k, stale) ==
  LET new == k \notin got[e]
      f4 == IF stale THEN {} ELSE {"F4"}     \* a stale twin's protected records never reach the list of records to acknowledge
      bk0 == IF new THEN 0 ELSE bk[e]          \* interval reset on non-retransmitted input
      same == [fl |-> fl[e], st |-> st[e], retx |-> retx[e], bk |-> bk0, est |-> est[e], tick |-> tick, owe |-> owe, out |-> <<>>]
  IN
  IF e = "s" THEN
    CASE st["s"] = "Finished" ->
           \* post-handshake machine: acknowledge retransmitted handshake records; the ticket flight ends when it is acknowledged
           IF k = "AcT" THEN [same EXCEPT !.tick = IF tick = "pending" THEN "acked" ELSE tick]
           ELSE IF k = "F5" THEN [same EXCEPT !.out = <<"As">>]
           ELSE same
      [] fl["s"] = "F0" ->
           IF k = "F1" THEN (IF HRR THEN [same EXCEPT !.fl = "F2", !.retx = FALSE, !.out = <<"F2">>]
                                   ELSE [same EXCEPT !.fl = "F4", !.retx = TRUE, !.out = <<"F4">>])
           ELSE same
      [] fl["s"] = "F2" ->
           IF k = "F3" THEN [same EXCEPT !.fl = "F4", !.retx = TRUE, !.out = <<"F4">>]
           ELSE IF k = "F1" /\ ResendHRR THEN [same EXCEPT !.out = <<"F2">>]      \* peer repeats its ClientHello: HRR again
           ELSE same
      [] fl["s"] = "F4" ->
           IF k = "F5" THEN [same EXCEPT !.st = "Finished", !.est = TRUE, !.retx = FALSE, !.tick = "pending", !.out = <<"As", "T">>]
           ELSE IF k \in {"F3", "F1"} /\ ~new
                THEN (IF retx["s"] THEN [same EXCEPT !.bk = Bump(bk0), !.out = <<"F4">>] ELSE same)
           \* the client's acknowledgements travel under its application keys (it switched when it sent Finished):
           \* a server still in flight 4 cannot read them yet - they are queued and wake nothing
           ELSE IF k \in {"Ac4", "AcT"} THEN [same EXCEPT !.bk = bk[e]]
           ELSE same
      [] OTHER -> same
  ELSE
    CASE st["c"] = "Finished" ->
           IF k = "T" THEN [same EXCEPT !.owe = {}, !.out = <<"AcT">>]
           ELSE IF k = "F4" THEN [same EXCEPT !.owe = {}, !.out = AckOf(owe \cup f4)]
           ELSE same                               \* an old cleartext HelloRetryRequest wakes nothing any more
      [] fl["c"] = "F1" ->
           IF k = "F2" THEN [same EXCEPT !.fl = "F3", !.retx = TRUE, !.out = <<"F3">>]
           ELSE IF k = "F4" /\ ~HRR THEN [same EXCEPT !.fl = "F5", !.retx = TRUE, !.owe = {"F4"}, !.out = <<"F5">>]
           ELSE same
      [] fl["c"] = "F3" ->
           IF k = "F4" THEN [same EXCEPT !.fl = "F5", !.retx = TRUE, !.owe = {"F4"}, !.out = <<"F5">>]
           ELSE IF k = "F2" /\ ~new THEN [same EXCEPT !.bk = Bump(bk0), !.out = <<"F3">>]
           ELSE same
      [] fl["c"] = "F5" ->
           \* every wake-up of the flight machine takes the list of records still to be acknowledged with it; a reaction
           \* that sends no ACK (completion by ACK or by post-handshake data) forgets that debt, the ticket included:
           \* it is acknowledged only when the server retransmits it
           IF k = "As" THEN [same EXCEPT !.st = "Finished", !.est = TRUE, !.retx = FALSE, !.owe = {}]
           ELSE IF k = "T" THEN [same EXCEPT !.st = "Finished", !.est = TRUE, !.retx = FALSE, !.owe = {}]   \* implicit acknowledgement
           \* a duplicate of the peer's previous flight: acknowledge what is owed, send the final flight again
           ELSE IF k = "F4" /\ ~new THEN [same EXCEPT !.bk = Bump(bk0), !.owe = {}, !.out = AckOf(owe \cup f4) \o <<"F5">>]
           ELSE IF k = "F2" /\ ~new THEN [same EXCEPT !.bk = Bump(bk0), !.owe = {}, !.out = AckOf(owe) \o <<"F5">>]
           ELSE same
      [] OTHER -> same

React(e, k) == ReactG(e, k, FALSE)
\* datagrams with a cleartext (epoch 0) handshake record: ClientHello, HelloRetryRequest, and the ServerHello at the head of
\* flight 4.  Epoch-0 records are not subject to the anti-replay window (the "fix:" commit that stops a forged cleartext
\* record from moving it): the second copy of a duplicated datagram is processed again as a retransmission, its protected
\* records are dropped.
ClearHS(k) == k \in {"F1", "F2", "F3", "F4"}

Deliver(k, c) ==
  LET e == Peer(Sender(k)) r == ReactG(e, k, c = "s") IN
  /\ Has(k, c)
  /\ got' = [got EXCEPT ![e] = @ \cup {k}]
  /\ fl' = [fl EXCEPT ![e] = r.fl] /\ st' = [st EXCEPT ![e] = r.st] /\ retx' = [retx EXCEPT ![e] = r.retx]
  /\ bk' = [bk EXCEPT ![e] = r.bk] /\ est' = [est EXCEPT ![e] = r.est] /\ tick' = r.tick /\ owe' = r.owe
  /\ net' = PutAll(Take(net, k, c), r.out)
  /\ emits' = r.out /\ cause' = IF r.out = <<>> THEN "none" ELSE "recv"
  /\ UNCHANGED <<drops, dups, touts, tbk, ptouts>>

DeliverStale(k) ==
  IF ClearHS(k) THEN Deliver(k, "s")
  ELSE /\ net[k].s > 0
       /\ net' = [net EXCEPT ![k].s = @ - 1]
       /\ emits' = <<>> /\ cause' = "none"
       /\ UNCHANGED <<st, fl, retx, bk, got, est, tick, owe, drops, dups, touts, tbk, ptouts>>

Drop(k, c) ==
  /\ drops < MaxDrop
  /\ CASE c = "n" -> net[k].n > 0 /\ net' = [net EXCEPT ![k].n = @ - 1]
       [] c = "d" -> net[k].d > 0 /\ net' = [net EXCEPT ![k].d = @ - 1, ![k].n = @ + 1]
       [] c = "s" -> net[k].s > 0 /\ net' = [net EXCEPT ![k].s = @ - 1]
  /\ drops' = drops + 1 /\ emits' = <<>> /\ cause' = "none"
  /\ UNCHANGED <<st, fl, retx, bk, got, est, tick, owe, dups, touts, tbk, ptouts>>

Dup(k) ==
  /\ net[k].n > 0 /\ dups < MaxDup
  /\ net' = [net EXCEPT ![k].n = @ - 1, ![k].d = @ + 1] /\ dups' = dups + 1
  /\ emits' = <<>> /\ cause' = "none"
  /\ UNCHANGED <<st, fl, retx, bk, got, est, tick, owe, drops, touts, tbk, ptouts>>

\* the retransmission timer of e fires: the handshake timer while waiting, the post-handshake timer of an
\* established server with an unacknowledged ticket flight
Timeout(e) ==
  LET post == e = "s" /\ st["s"] = "Finished" /\ tick = "pending" IN
  /\ \/ (MaxTimeouts < 100 => touts < MaxTimeouts) /\ touts' = (IF MaxTimeouts < 100 THEN touts + 1 ELSE touts) /\ UNCHANGED ptouts
     \/ MaxTimeouts < 100 /\ touts >= MaxTimeouts /\ post /\ ptouts < PostTimeouts /\ ptouts' = ptouts + 1 /\ UNCHANGED touts
  /\ IF st[e] = "Waiting"
     THEN /\ UNCHANGED tbk
          /\ IF retx[e] /\ fl[e] # "F0"
             THEN /\ net' = PutK(net, fl[e]) /\ emits' = <<fl[e]>> /\ cause' = "timer"
                  /\ bk' = [bk EXCEPT ![e] = Bump(@)]
             ELSE IF retx[e]       \* server before any ClientHello: the interval doubles, nothing to send
             THEN /\ UNCHANGED net /\ bk' = [bk EXCEPT ![e] = Bump(@)] /\ emits' = <<>> /\ cause' = "none"
             ELSE /\ UNCHANGED <<net, bk>> /\ emits' = <<>> /\ cause' = "none"
     ELSE IF post
          THEN /\ net' = PutK(net, "T") /\ emits' = <<"T">> /\ cause' = "timer" /\ UNCHANGED bk
               /\ tbk' = Bump(tbk)
          ELSE /\ UNCHANGED <<net, bk, tbk>> /\ emits' = <<>> /\ cause' = "none"
  /\ UNCHANGED <<st, fl, retx, got, est, tick, owe, drops, dups>>

Init ==
  /\ st = [e \in E |-> "Waiting"] /\ fl = [e \in E |-> IF e = "c" THEN "F1" ELSE "F0"]
  /\ retx = [e \in E |-> TRUE] /\ bk = [e \in E |-> 0] /\ got = [e \in E |-> {}] /\ est = [e \in E |-> FALSE]
  /\ tick = "none" /\ owe = {}
  /\ net = [k \in Kinds |-> [n |-> IF k = "F1" THEN 1 ELSE 0, d |-> 0, s |-> 0]]
  /\ drops = 0 /\ dups = 0 /\ touts = 0 /\ tbk = 0 /\ ptouts = 0 /\ emits = <<"F1">> /\ cause = "start" /\ hist = <<>>

PostP == [cst |-> st'["c"], sst |-> st'["s"], cfl |-> fl'["c"], sfl |-> fl'["s"], cest |-> est'["c"], sest |-> est'["s"],
          cbk |-> bk'["c"], sbk |-> bk'["s"], tbk |-> tbk', emits |-> emits']
Log(a, x) == hist' = Append(hist, [act |-> a, arg |-> x, post |-> PostP])

Next == \/ \E k \in Kinds : \/ \E c \in {"n", "d"} : Deliver(k, c) /\ Log("Deliver", k \o "/" \o c)
                            \/ DeliverStale(k) /\ Log("Deliver", k \o "/s")
                            \/ \E c \in {"n", "d", "s"} : Drop(k, c) /\ Log("Drop", k \o "/" \o c)
                            \/ Dup(k) /\ Log("Dup", k)
        \/ \E e \in E : Timeout(e) /\ Log("Timeout", e)

\* fairness: timers keep firing, and each endpoint keeps receiving datagrams that it can process.  The client's
\* acknowledgements are excluded: a server still in flight 4 merely queues them, so delivering them for ever would
\* satisfy a per-endpoint fairness condition while the flight that matters is starved.  (One strong-fairness
\* condition per datagram kind would be the natural statement; TLC did not finish it in 20 minutes.)
Fair == /\ \A e \in E : WF_vars(Timeout(e) /\ Log("Timeout", e))
        /\ \A e \in E : SF_vars(\E k \in Kinds \ {"Ac4", "AcT"}, c \in {"n", "d"} :
                                     Sender(k) = Peer(e) /\ Deliver(k, c) /\ Log("Deliver", k \o "/" \o c))
Spec == Init /\ [][Next]_vars /\ Fair

-----------------------------------------------------------------------------
(* C02 *)
BothEstablish == <>[](est["c"] /\ est["s"])
(* shape: nobody completes alone *)
ServerCompletionSound == est["s"] => "F5" \in got["s"]
ClientCompletionSound == est["c"] => (("As" \in got["c"] \/ "T" \in got["c"]) /\ "F4" \in got["c"])
(* C13: nothing but HelloRetryRequest leaves the server until the cookie came back, and never on a timer *)
CookieFirst13 == [][(HRR /\ \E i \in 1..Len(emits') : Sender(emits'[i]) = "s" /\ emits'[i] # "F2") => "F3" \in got'["s"]]_vars
NoTimerHRR == [][(\E i \in 1..Len(emits') : emits'[i] = "F2") => cause' = "recv"]_vars
(* C17: a timer event re-sends exactly the current unacknowledged flight (or the ticket flight) and doubles the interval *)
TimerLaw13 ==
  [][\A e \in E : (cause' = "timer" /\ Timeout(e)) =>
        \/ (st[e] = "Waiting" /\ emits' = <<fl[e]>> /\ retx[e] /\ fl[e] # "F0" /\ bk'[e] = Bump(bk[e]))
        \/ (st[e] = "Finished" /\ e = "s" /\ emits' = <<"T">> /\ tbk' = Bump(tbk))]_vars
(* acknowledgements are never sent by a timer *)
AckNeverOnTimer == [][(\E i \in 1..Len(emits') : emits'[i] \in {"As", "Ac4", "AcT"}) => cause' = "recv"]_vars
(* after completing, the handshake flights are re-sent only in response to the peer *)
FinalFlightOnlyOnPeerRetx13 ==
  [][\A e \in E : (est[e] /\ cause' = "timer" /\ Timeout(e)) => (e = "s" /\ emits' = <<"T">>)]_vars
TypeOK == \A k \in Kinds : net[k].n + net[k].d <= Cap

EmitEdge == Gen => PrintT(ToJson([steps |-> hist']))
=============================================================================
