--------------------------- MODULE FragmentBuffer ---------------------------
(* M4 - handshake reassembly of pion/dtls (internal/fragmentbuffer) as the code
   implements it: Push / Pop / AdvanceTo transcribed action by action, together
   with an independent reference reassembler.  Serves C12 (and the reassembly
   part of C08).

   Bytes are abstract: byte p (0-based) of message s is the number s*16+p+1, so
   that the Go harness can build the very same fragments and compare Pop results
   byte for byte.  Hostile fragments may carry "junk" bytes (value 255).

   Mode = "honest" : every message has ONE partition into fragments (chosen
                     non-deterministically in Init, zero-length pieces allowed);
                     fragments arrive in any order, duplicated, interleaved.
   Mode = "hostile": header fields range over the whole small domain, including
                     inconsistent ones (off+flen > len, differing len, overlaps). *)
EXTENDS Integers, Sequences, FiniteSets, TLC, Json

CONSTANTS MaxSeq,      \* message sequence numbers 0..MaxSeq
          MaxLen,      \* message / fragment lengths and offsets 0..MaxLen
          MaxPush,     \* number of Push calls in a behaviour
          MaxPieces,   \* honest mode: at most this many fragments per message
          Mode,        \* "honest" | "hostile"
          GuardFirst,  \* TRUE: Pop returns nil when no fragment sits at offset 0 (fixed code)
                       \* FALSE: Pop dereferences it (pinned tree: nil-pointer panic)
          SkipEmpty,   \* TRUE: an empty fragment of a non-empty message is ignored (fixed code)
                       \* FALSE: it is stored and occupies its offset (pinned tree: can wedge a message)
          Junk255,     \* hostile mode: also fragments carrying junk bytes
          Gen          \* TRUE: print one replay script per explored edge

VARIABLES cache,   \* seq -> [byOff : off -> [flen, data], fl : sum of lengths, hl : handshakeLength]
          cur,     \* currentMessageSequenceNumber
          npush,
          plan,    \* honest mode: seq -> [len, pieces]
          popped,  \* history: sequence of [seq, content]
          pushed,  \* fragments pushed so far that were not classified as retransmissions
          panic,
          hist     \* script with expected results (hidden from the state space by VIEW)

vars == <<cache, cur, npush, plan, popped, pushed, panic, hist>>
view == <<cache, cur, npush, plan, popped, pushed, panic>>

Seqs == 0..MaxSeq
Nil  == <<"nil">>

Byte(s, p)        == s * 16 + p + 1
Data(s, off, n)   == [i \in 1..n |-> Byte(s, off + i - 1)]
Junk(n)           == [i \in 1..n |-> 255]
Original(s, len)  == Data(s, 0, len)

FData(f) == IF f.junk THEN Junk(f.flen) ELSE Data(f.seq, f.off, f.flen)

EmptyFn == [x \in {} |-> 0]

-----------------------------------------------------------------------------
(* honest partitions *)

\* all ways to tile [0,len) with 1..MaxPieces non-empty pieces
RECURSIVE Tilings(_, _, _)
Tilings(from, len, k) ==
  IF from = len THEN {{}}
  ELSE IF k = 0 THEN {}
  ELSE UNION { { {<<from, n>>} \cup rest : rest \in Tilings(from + n, len, k - 1) } : n \in 1..(len - from) }

ZeroPieces(len) == { <<o, 0>> : o \in 0..len }

Partitions(len) ==
  IF len = 0 THEN { {<<0, 0>>} }
  ELSE { t \cup z : t \in Tilings(0, len, MaxPieces), z \in SUBSET ZeroPieces(len) }

PartitionsBounded(len) == { p \in Partitions(len) : Cardinality(p) <= MaxPieces }

HonestFrags ==
  UNION { { [seq |-> s, len |-> plan[s].len, off |-> pc[1], flen |-> pc[2], junk |-> FALSE] : pc \in plan[s].pieces }
          : s \in Seqs }

HostileFrags == [seq : Seqs, len : 0..MaxLen, off : 0..MaxLen, flen : 0..MaxLen, junk : BOOLEAN]

Frags == IF Mode = "honest" THEN HonestFrags ELSE { f \in HostileFrags : f.junk => (f.flen > 0 /\ Junk255) }

-----------------------------------------------------------------------------
(* transcription of the code *)

Entry(s) == IF s \in DOMAIN cache THEN cache[s] ELSE [byOff |-> EmptyFn, fl |-> 0, hl |-> -1]

PushCache(f) ==
  LET e0 == IF f.seq \in DOMAIN cache THEN cache[f.seq]
            ELSE [byOff |-> EmptyFn, fl |-> 0, hl |-> f.len]          \* first fragment fixes handshakeLength
      e1 == IF f.off \in DOMAIN e0.byOff THEN e0                       \* first fragment per offset wins
            ELSE [e0 EXCEPT !.byOff = [o \in DOMAIN e0.byOff \cup {f.off} |->
                                          IF o = f.off THEN [flen |-> f.flen, data |-> FData(f)] ELSE e0.byOff[o]],
                            !.fl = @ + f.flen]
  IN [s \in DOMAIN cache \cup {f.seq} |-> IF s = f.seq THEN e1 ELSE cache[s]]

RECURSIVE Walk(_, _, _, _)
Walk(e, i, target, raw) ==
  IF i >= Cardinality(DOMAIN e.byOff) \/ target >= e.hl THEN [ok |-> TRUE, raw |-> raw]
  ELSE IF target \in DOMAIN e.byOff
       THEN Walk(e, i + 1, target + e.byOff[target].flen, raw \o e.byOff[target].data)
       ELSE [ok |-> FALSE, raw |-> raw]

\* "nil" | "panic" | "msg"
PopKind ==
  IF cur \notin DOMAIN cache THEN "nil"
  ELSE LET e == cache[cur] IN
       IF e.fl # e.hl THEN "nil"
       ELSE LET w == Walk(e, 0, 0, <<>>) IN
            IF ~w.ok \/ Len(w.raw) # e.hl THEN "nil"
            ELSE IF 0 \notin DOMAIN e.byOff THEN (IF GuardFirst THEN "nil" ELSE "panic")
            ELSE "msg"

PopContent == Walk(cache[cur], 0, 0, <<>>).raw

CountFrags == LET S == DOMAIN cache IN
              IF S = {} THEN 0 ELSE
              LET RECURSIVE Sum(_)
                  Sum(T) == IF T = {} THEN 0 ELSE LET x == CHOOSE y \in T : TRUE IN
                            Cardinality(DOMAIN cache[x].byOff) + Sum(T \ {x})
              IN Sum(S)
SizeFrags == LET RECURSIVE Sum(_)
                 Sum(T) == IF T = {} THEN 0 ELSE LET x == CHOOSE y \in T : TRUE IN cache[x].fl + Sum(T \ {x})
             IN Sum(DOMAIN cache)

Obs(c, k) == [cur |-> k, count |-> LET RECURSIVE S(_)
                                       S(T) == IF T = {} THEN 0 ELSE LET x == CHOOSE y \in T : TRUE IN
                                               Cardinality(DOMAIN c[x].byOff) + S(T \ {x})
                                   IN S(DOMAIN c),
                         size  |-> LET RECURSIVE S(_)
                                       S(T) == IF T = {} THEN 0 ELSE LET x == CHOOSE y \in T : TRUE IN c[x].fl + S(T \ {x})
                                   IN S(DOMAIN c)]

Push(f) ==
  /\ ~panic
  /\ npush < MaxPush
  /\ npush' = npush + 1
  /\ IF f.seq < cur
     THEN /\ UNCHANGED <<cache, pushed>>
          /\ hist' = Append(hist, [op |-> "push", f |-> f, hs |-> TRUE, retx |-> TRUE, obs |-> Obs(cache, cur)])
     ELSE IF SkipEmpty /\ f.flen = 0 /\ f.len # 0
     THEN /\ UNCHANGED cache
          /\ pushed' = pushed \cup {f}
          /\ hist' = Append(hist, [op |-> "push", f |-> f, hs |-> TRUE, retx |-> FALSE, obs |-> Obs(cache, cur)])
     ELSE /\ cache' = PushCache(f)
          /\ pushed' = pushed \cup {f}
          /\ hist' = Append(hist, [op |-> "push", f |-> f, hs |-> TRUE, retx |-> FALSE, obs |-> Obs(PushCache(f), cur)])
  /\ UNCHANGED <<cur, plan, popped, panic>>

Pop ==
  /\ ~panic
  /\ LET k == PopKind IN
     CASE k = "nil"   -> /\ hist' = Append(hist, [op |-> "pop-nil", obs |-> Obs(cache, cur)])
                         /\ UNCHANGED <<cache, cur, popped, panic>>
       [] k = "panic" -> /\ panic' = TRUE
                         /\ hist' = Append(hist, [op |-> "pop-panic"])
                         /\ UNCHANGED <<cache, cur, popped>>
       [] k = "msg"   -> LET c2 == [s \in DOMAIN cache \ {cur} |-> cache[s]] IN
                         /\ popped' = Append(popped, [seq |-> cur, content |-> PopContent])
                         /\ cache' = c2
                         /\ cur' = cur + 1
                         /\ hist' = Append(hist, [op |-> "pop", seq |-> cur, content |-> PopContent,
                                                  obs |-> Obs(c2, cur + 1)])
                         /\ UNCHANGED panic
  /\ UNCHANGED <<npush, plan, pushed>>

AdvanceTo(k) ==
  /\ ~panic
  /\ k > cur
  /\ Mode = "hostile"
  /\ LET c2 == [s \in { x \in DOMAIN cache : x >= k } |-> cache[s]] IN
     /\ cache' = c2
     /\ cur' = k
     /\ hist' = Append(hist, [op |-> "advance", to |-> k, obs |-> Obs(c2, k)])
  /\ UNCHANGED <<npush, plan, popped, pushed, panic>>

Init ==
  /\ cache = EmptyFn
  /\ cur = 0
  /\ npush = 0
  /\ popped = <<>>
  /\ pushed = {}
  /\ panic = FALSE
  /\ hist = <<>>
  /\ IF Mode = "honest"
     THEN plan \in [Seqs -> UNION { { [len |-> l, pieces |-> p] : p \in PartitionsBounded(l) } : l \in 0..MaxLen }]
     ELSE plan = [s \in Seqs |-> [len |-> 0, pieces |-> {}]]

Next == \/ \E f \in Frags : Push(f)
        \/ Pop
        \/ \E k \in 1..(MaxSeq + 1) : AdvanceTo(k)

Spec == Init /\ [][Next]_vars

-----------------------------------------------------------------------------
(* reference reassembler and the C12 formulas *)

\* fragments of message s pushed so far (not counting recognised retransmissions)
PushedOf(s) == { f \in pushed : f.seq = s }

\* bytes of message s covered by what has been pushed
Covered(s) == UNION { (f.off)..(f.off + f.flen - 1) : f \in PushedOf(s) }

NoPanic == ~panic

\* delivered exactly once and in message-sequence order
ExactlyOnceInOrder ==
  /\ \A i, j \in 1..Len(popped) : i < j => popped[i].seq < popped[j].seq
  /\ Mode = "honest" => \A i \in 1..Len(popped) : popped[i].seq = i - 1

\* honest mode: what surfaces is the original message ...
SurfacedIsOriginal ==
  Mode = "honest" => \A i \in 1..Len(popped) : popped[i].content = Original(popped[i].seq, plan[popped[i].seq].len)

\* ... and never while a byte of it is still missing
NeverIncomplete ==
  Mode = "honest" => \A i \in 1..Len(popped) :
      /\ (0..(plan[popped[i].seq].len - 1)) \subseteq Covered(popped[i].seq)
      /\ PushedOf(popped[i].seq) # {}

\* honest mode, availability: once every fragment of the partition of the message under the
\* cursor has been pushed, Pop surfaces it (no wedge).  This is what "reconstructs ... whatever
\* the arrival order, duplication or interleaving" demands of the receiver.
CompleteIsSurfaced ==
  (Mode = "honest" /\ cur \in Seqs /\ ~panic) =>
     ( { <<f.off, f.flen>> : f \in PushedOf(cur) } = plan[cur].pieces => PopKind = "msg" )

\* fragments of delivered messages are retransmissions and leave the buffer untouched
RetransmitRecognised ==
  [][\A f \in Frags : (Push(f) /\ f.seq < cur) => (UNCHANGED <<cache, cur, popped>> /\ hist'[Len(hist')].retx)]_vars

\* hostile mode: Pop agrees with the reference: a message surfaces only if the stored
\* fragments chain from 0 and cover exactly [0, hl)
RefChain(e) ==
  \E n \in 0..Cardinality(DOMAIN e.byOff) :
     \E c \in [1..n -> DOMAIN e.byOff] :
        /\ (n = 0 => e.hl = 0)
        /\ (n > 0 => c[1] = 0)
        /\ \A i \in 1..(n - 1) : c[i + 1] = c[i] + e.byOff[c[i]].flen
        /\ (n > 0 => c[n] + e.byOff[c[n]].flen = e.hl)
PopMatchesReference ==
  (cur \in DOMAIN cache /\ PopKind = "msg") => /\ 0 \in DOMAIN cache[cur].byOff
                                               /\ Len(PopContent) = cache[cur].hl

BoundedBuffer == Obs(cache, cur).count <= MaxPush /\ Obs(cache, cur).size <= MaxPush * MaxLen

\* script generation: one JSON script per explored edge
EmitEdge == Gen => PrintT(ToJson([plan |-> [i \in 1..(MaxSeq + 1) |-> plan[i - 1].len], steps |-> hist']))
=============================================================================
