--------------------------- MODULE PostHandshake13 ---------------------------
(* M2 (post-handshake half) - DTLS 1.3 key updates of pion/dtls:
     internal/handshake/post_handshake.go  (command queue, one active reliable flight, ACK tracking,
                                            handleKeyUpdate, completePostHandshakeFlight)
     internal/handshake/fsm13.go finish()  (select over: received datagram / user command / timer)
     internal/state/traffic_keys.go        (current + retained generations, ReadCandidates)
     conn.go                               (openCiphertextRecord, commitLocalKeyUpdate, future queue, replay windows)

   Two established endpoints.  Granularity ("big step"): one action = one environment event (a user call
   UpdateKeys / Write is taken from the command channel, a datagram reaches an endpoint, the retransmission
   timer fires) plus the reaction of the endpoint's FSM goroutine until it blocks again in finish().  This is
   one critical section of the code: the reader goroutine hands a datagram that carries a handshake or ACK record
   to the FSM and stays paused until the FSM released it (recvHandshakeLease), application records are handled by
   the reader alone and touch only the replay window and the read channel, user commands touch only the send side.

   Every record travels in its own datagram (true for post-handshake traffic of the code: each WritePackets call
   flushes).  The network is a bag: per record class the number of single copies (n), of copies that have an
   identical twin in flight (d, made by Dup) and of stale twins whose original was already processed (s; the
   anti-replay window of the receiving epoch drops them).  Two records of the same class differ only in their
   record sequence number, so any of them may stand for the class.

   Secrets are symbolic terms: Base(e) = application_traffic_secret_0 of sender e, Succ(x) = HKDF-Expand-Label(x,
   "traffic upd", "", Hash.length).  A record is opened by a read generation iff the secret terms are equal.

   Deviations / design switches (the value of the pinned tree in brackets):
     CommitOnAck     [TRUE]  the new write generation is installed when the KeyUpdate is acknowledged
                             (FALSE: at send time - broken variant)
     CheckAuthorised [TRUE]  openCiphertextRecord skips candidate generations above the authorised receive epoch
     Preinstall      [FALSE] the receiver derives the next read generation ahead of the peer's KeyUpdate (the pinned
                             tree installs it and bumps the authorised epoch in one critical section; TRUE explores the
                             design in which the "epoch <= authorised" test is what keeps early records out)
     ReplayCheck     [TRUE]  per-epoch anti-replay window
     ReturnOnAck     [TRUE]  UpdateKeys completes when the flight is acknowledged (FALSE: when it was sent)
     GoodSuccessor   [TRUE]  next read secret = Succ(current read secret) (FALSE: Succ(generation-0 secret))
     Craft                   the environment may inject ONE application record sealed under the sender's NEXT write
                             generation (a key holder's record that arrives before the receiver authorised its epoch;
                             the harness builds it in-package).  It is not a user payload (id 99).
   Only application records are kept in the future-epoch queue of the model (the code queues any record type; an
   honest peer never sends under an epoch the receiver has not authorised - invariant NetEpochsAuthorised - so the
   queue can only ever hold crafted records; in the broken variants a queued control record is simply lost).

   Serves C20. *)
EXTENDS Integers, Sequences, FiniteSets, TLC, Json

CONSTANTS UpdC, UpdS,    \* user UpdateKeys calls of the client / the server
          Reqs,          \* request_update values the user may choose (subset of BOOLEAN)
          TrackLost,     \* record which payloads were hit by a fault (needed by the liveness formula only)
          MaxPay,        \* application payloads written in total
          MaxDrop, MaxDup, MaxTimers,   \* fault / timer budgets (MaxTimers >= 100: unbounded, not counted)
          FutureCap,     \* bound of the future-epoch queue (code: 100)
          Cap,           \* copies of one record class in flight at once (emissions beyond it are merged)
          TicketPending, \* the server's NewSessionTicket is still unacknowledged when the scenario starts
          CommitOnAck, CheckAuthorised, Preinstall, ReplayCheck, ReturnOnAck, GoodSuccessor, Craft,
          Gen            \* print one environment script per explored edge

E == {"c", "s"}
Peer(e) == IF e = "c" THEN "s" ELSE "c"
Ep(g) == 3 + g                       \* epoch of application generation g
Low(x) == x % 4                      \* the two epoch bits of the unified header
Base(e) == <<"app0", e>>
Succ(x) == <<"upd", x>>
HsKey(e) == <<"hs", e>>              \* handshake traffic secret (epoch 2), retained as an old read generation
RECURSIVE NextK(_, _)
NextK(k, x) == IF k = 0 THEN x ELSE NextK(k - 1, Succ(x))
CraftId == 99
None == [k |-> "none"]

VARIABLES S,        \* endpoint -> local state record (see Init)
          net,      \* record class -> [n, d, s]
          drops, dups, timers,
          pays,     \* number of payloads written so far (ids 1..pays)
          wr,       \* endpoint -> payload ids it has written
          lost,     \* payload ids whose record was touched by a fault (dropped) or merged away
          crafted,  \* the crafted record has been injected
          calls,    \* endpoint -> number of user UpdateKeys calls
          hiSeal,   \* endpoint -> highest epoch it has sealed a record under
          sealDecr, \* some record was sealed under an epoch below an earlier one of the same sender
          rxBad,    \* sticky: a record was accepted under an epoch that was not authorised / not retained at that moment
          arrBad,   \* sticky: the first copy of a user payload arrived and was not handed to Read
          lastRx,   \* what happened to the record that arrived in this step (script/projection only, hidden by VIEW)
          lastOut,  \* records emitted in this step (script/projection only, hidden by VIEW)
          hist      \* environment script (hidden by VIEW)

vars == <<S, net, drops, dups, timers, pays, wr, lost, crafted, calls, hiSeal, sealDecr, rxBad, arrBad, lastRx, lastOut, hist>>
view == <<S, net, drops, dups, timers, pays, wr, lost, crafted, calls, hiSeal, sealDecr, rxBad, arrBad>>

NoRx == [how |-> "none"]

(* State-space reduction (VIEW rview): records that can no longer have any effect are ignored when states are compared.
   Inert are: stale twins (the replay window drops them); an ACK for a flight that is no longer the active one (applyACK
   finds no record index entry); a copy of a reliable message the receiver has already consumed whose flight the sender
   has already completed (it is answered by an ACK that is itself inert).  Inert records stay inert. *)
Inert(c) ==
  CASE c.t = "ack" -> LET a == S[Peer(c.from)].act IN a = [k |-> "none"] \/ a.ms # c.ms
    [] c.t \in {"ku", "nst"} -> /\ c.ms < S[Peer(c.from)].rcv
                                /\ LET a == S[c.from].act IN a = [k |-> "none"] \/ a.ms # c.ms
    [] OTHER -> FALSE
LiveNet == LET D == {c \in DOMAIN net : ~Inert(c) /\ net[c].n + net[c].d > 0} IN [c \in D |-> <<net[c].n, net[c].d>>]
rview == <<S, LiveNet, drops, dups, timers, pays, wr, lost, crafted, calls, hiSeal, sealDecr, rxBad, arrBad>>

-----------------------------------------------------------------------------
(* records *)
MkRec(t, e, ep, key, ms, req, p) == [t |-> t, from |-> e, ep |-> ep, key |-> key, ms |-> ms, req |-> req, p |-> p]
CurRec(t, e, L, ms, req, p) == MkRec(t, e, Ep(L.w), L.wsec, ms, req, p)
AckRec(e, L, ms) == CurRec("ack", e, L, ms, FALSE, 0)      \* sendACK(.., p.state.LocalEpoch(), ..)
FlightRec(e, f) == MkRec(f.k, e, f.ep, f.key, f.ms, f.req, 0)   \* (re)transmission: always the flight's own epoch

Zero == [n |-> 0, d |-> 0, s |-> 0]
Cnt(nw, c) == IF c \in DOMAIN nw THEN nw[c] ELSE Zero
SetCnt(nw, c, v) == IF v = Zero THEN [x \in (DOMAIN nw) \ {c} |-> nw[x]]
                    ELSE [x \in (DOMAIN nw) \cup {c} |-> IF x = c THEN v ELSE nw[x]]
Put(nw, c) == LET v == Cnt(nw, c) IN IF v.n + v.d < Cap THEN SetCnt(nw, c, [v EXCEPT !.n = @ + 1]) ELSE nw
RECURSIVE PutAll(_, _)
PutAll(nw, out) == IF out = <<>> THEN nw ELSE PutAll(Put(nw, Head(out)), Tail(out))
\* one copy leaves the network; marked = the replay window recorded its number (the twin of a "d" copy is stale then,
\* otherwise - the copy was queued or dropped before the window was touched - the twin is an ordinary single again)
Take(nw, c, k, marked) == LET v == Cnt(nw, c) IN
  SetCnt(nw, c, IF k = "n" THEN [v EXCEPT !.n = @ - 1]
                ELSE IF k = "d" THEN (IF marked /\ ReplayCheck THEN [v EXCEPT !.d = @ - 1, !.s = @ + 1]
                                      ELSE [v EXCEPT !.d = @ - 1, !.n = @ + 1])
                ELSE [v EXCEPT !.s = @ - 1])
Has(c, k) == c \in DOMAIN net /\ (IF k = "n" THEN net[c].n > 0 ELSE IF k = "d" THEN net[c].d > 0 ELSE net[c].s > 0)
\* payloads whose emission would be merged away by Cap (never happens for application records: each class is unique)

-----------------------------------------------------------------------------
(* send side: postHandshake.startQueuedPostHandshake *)
Bump(f, p) == [x \in (DOMAIN f) \cup {p} |-> IF x \in DOMAIN f THEN (IF x = p THEN f[x] + 1 ELSE f[x]) ELSE 1]

RECURSIVE RunQ(_, _)
RunQ(e, X) ==      \* X = [L |-> local state, out |-> records emitted so far in this step]
  LET L == X.L IN
  IF L.fatal \/ L.queue = <<>> THEN X
  ELSE LET c == Head(L.queue) IN
    IF c.k = "app"                                         \* writeApplicationData: LocalEpoch at execution time
    THEN RunQ(e, [L |-> [L EXCEPT !.queue = Tail(@)], out |-> Append(X.out, CurRec("app", e, L, 0, FALSE, c.p))])
    ELSE IF L.act # None THEN X                            \* one active reliable flight: the head waits (and blocks the rest)
    ELSE LET fl == [k |-> "ku", ms |-> L.snd, ep |-> Ep(L.w), key |-> L.wsec, req |-> c.req, user |-> c.user,
                    next |-> Succ(L.wsec)]                 \* buildKeyUpdateFlight: PendingWrite
             L1 == [L EXCEPT !.queue = Tail(@), !.act = fl, !.snd = @ + 1,
                             !.w    = IF CommitOnAck THEN @ ELSE @ + 1,
                             !.wsec = IF CommitOnAck THEN @ ELSE Succ(@),
                             !.ret  = IF c.user /\ ~ReturnOnAck THEN @ \cup {L.snd} ELSE @]
         IN RunQ(e, [L |-> L1, out |-> Append(X.out, FlightRec(e, fl))])

\* completePostHandshakeFlight: commitLocalKeyUpdate under the write lock, completion signalled
Complete(L) ==
  LET f == L.act IN
  [L EXCEPT !.act = None,
            !.w    = IF f.k = "ku" /\ CommitOnAck THEN @ + 1 ELSE @,
            !.wsec = IF f.k = "ku" /\ CommitOnAck THEN f.next ELSE @,
            !.ackd = @ \cup {f.ms},
            !.ret  = IF f.k = "ku" /\ f.user THEN @ \cup {f.ms} ELSE @]

\* queueRequiredKeyUpdateResponse: before the first queued application write
RECURSIVE FirstApp(_, _)
FirstApp(q, i) == IF i > Len(q) THEN i ELSE IF q[i].k = "app" THEN i ELSE FirstApp(q, i + 1)
InsertResp(q) == LET i == FirstApp(q, 1)
                     c == [k |-> "ku", req |-> FALSE, user |-> FALSE, p |-> 0] IN
                 SubSeq(q, 1, i - 1) \o <<c>> \o SubSeq(q, i, Len(q))

-----------------------------------------------------------------------------
(* receive side: openCiphertextRecord *)
Cands(L, r) == {x \in DOMAIN L.rkeys : Low(x) = Low(r.ep) /\ (CheckAuthorised => x <= L.auth)}
Opens(L, r) == {x \in Cands(L, r) : L.rkeys[x] = r.key}
Ext(f, k, v) == [x \in (DOMAIN f) \cup {k} |-> IF x = k THEN v ELSE f[x]]

\* handleQueuedPackets inside handleKeyUpdate: queued records go through the pipeline again, never re-queued
RECURSIVE Drain(_, _)
Drain(L, q) == IF q = <<>> THEN [L EXCEPT !.fq = <<>>]
               ELSE LET r == Head(q) IN
                    Drain(IF Opens(L, r) # {} /\ ~(ReplayCheck /\ r.p \in DOMAIN L.dlv)   \* twins queued twice: replay window
                          THEN [L EXCEPT !.dlv = Bump(@, r.p)] ELSE L, Tail(q))

Handle(e, X, r) ==
  LET L == X.L IN
  CASE r.t = "app" -> [X EXCEPT !.L.dlv = Bump(@, r.p)]
    [] r.t = "ack" -> IF L.act # None /\ L.act.ms = r.ms THEN RunQ(e, [X EXCEPT !.L = Complete(L)]) ELSE X
    [] r.t = "nst" -> IF r.ms = L.rcv
                      THEN RunQ(e, [L |-> [L EXCEPT !.rcv = @ + 1], out |-> Append(X.out, AckRec(e, L, r.ms))])
                      ELSE IF r.ms < L.rcv THEN RunQ(e, [X EXCEPT !.out = Append(@, AckRec(e, L, r.ms))])
                      ELSE [X EXCEPT !.L.odd = TRUE]
    [] r.t = "ku"  ->
         IF r.ms > L.rcv THEN [X EXCEPT !.L.odd = TRUE]                        \* never: one flight at a time, in order
         ELSE IF r.ms < L.rcv THEN RunQ(e, [X EXCEPT !.out = Append(@, AckRec(e, L, r.ms))])   \* retransmission: ACK again
         ELSE IF r.ep # Ep(L.rgen) \/ L.auth # r.ep THEN [X EXCEPT !.L.fatal = TRUE]          \* unexpected_message
         ELSE LET nk == IF GoodSuccessor THEN Succ(L.rkeys[r.ep]) ELSE Succ(L.rkeys[3])
                  k1 == Ext(L.rkeys, r.ep + 1, nk)
                  k2 == IF Preinstall THEN Ext(k1, r.ep + 2, Succ(nk)) ELSE k1
                  L1 == [L EXCEPT !.rkeys = k2, !.rgen = @ + 1, !.auth = r.ep + 1, !.rcv = @ + 1,
                                  !.queue = IF r.req THEN InsertResp(@) ELSE @]
                  L2 == Drain(L1, L1.fq)
              IN RunQ(e, [L |-> L2, out |-> Append(X.out, AckRec(e, L2, r.ms))])

\* epochs sealed in this step by e
RECURSIVE SealScan(_, _, _)
SealScan(hi, bad, out) == IF out = <<>> THEN [hi |-> hi, bad |-> bad]
                          ELSE SealScan(IF Head(out).ep > hi THEN Head(out).ep ELSE hi, bad \/ Head(out).ep < hi, Tail(out))
Sealed(e, out) ==
  LET r == SealScan(hiSeal[e], FALSE, out) IN
  /\ hiSeal' = [hiSeal EXCEPT ![e] = r.hi]
  /\ sealDecr' = (sealDecr \/ r.bad)
  /\ lastOut' = IF Gen THEN out ELSE <<>>

-----------------------------------------------------------------------------
(* environment events *)

\* Conn.UpdateKeys: the command is taken by finish()
UpdateKeys(e, req) ==
  /\ calls[e] < (IF e = "c" THEN UpdC ELSE UpdS) /\ req \in Reqs /\ ~S[e].fatal
  /\ calls' = [calls EXCEPT ![e] = @ + 1]
  /\ LET X == RunQ(e, [L |-> [S[e] EXCEPT !.queue = Append(@, [k |-> "ku", req |-> req, user |-> TRUE, p |-> 0])],
                       out |-> <<>>]) IN
     /\ S' = [S EXCEPT ![e] = X.L] /\ net' = PutAll(net, X.out) /\ Sealed(e, X.out)
  /\ lastRx' = NoRx /\ UNCHANGED <<rxBad, arrBad>>
  /\ UNCHANGED <<drops, dups, timers, pays, wr, lost, crafted>>

\* Conn.Write
Write(e) ==
  /\ pays < MaxPay /\ ~S[e].fatal
  /\ pays' = pays + 1 /\ wr' = [wr EXCEPT ![e] = @ \cup {pays + 1}]
  /\ LET X == RunQ(e, [L |-> [S[e] EXCEPT !.queue = Append(@, [k |-> "app", req |-> FALSE, user |-> TRUE, p |-> pays + 1])],
                       out |-> <<>>]) IN
     /\ S' = [S EXCEPT ![e] = X.L] /\ net' = PutAll(net, X.out) /\ Sealed(e, X.out)
  /\ lastRx' = NoRx /\ UNCHANGED <<rxBad, arrBad>>
  /\ UNCHANGED <<drops, dups, timers, calls, lost, crafted>>

\* one copy of class c reaches its destination
Deliver(c, kind) ==
  /\ Has(c, kind) /\ kind \in {"n", "d"}
  /\ LET e == Peer(c.from)
         L == S[e]
         X0 == [L |-> L, out |-> <<>>]
         op == Opens(L, c)
         cs == Cands(L, c) IN
     /\ ~L.fatal
     /\ LET res == IF op # {} /\ c.t = "app" /\ ReplayCheck /\ c.p \in DOMAIN L.dlv     \* its twin went through the queue
                   THEN [X |-> X0, how |-> "replay", x |-> 0]
                   ELSE IF op # {}
                   THEN [X |-> Handle(e, X0, c), how |-> "accepted", x |-> CHOOSE x \in op : TRUE]
                   ELSE IF cs = {} /\ Low(c.ep) = Low(L.auth + 1) /\ c.t = "app" /\ Len(L.fq) < FutureCap
                   THEN [X |-> [X0 EXCEPT !.L.fq = Append(@, c)], how |-> "queued", x |-> 0]
                   ELSE [X |-> X0, how |-> IF cs = {} THEN "epoch" ELSE "decrypt", x |-> 0] IN
        /\ S' = [S EXCEPT ![e] = res.X.L]
        /\ net' = PutAll(Take(net, c, kind, res.how = "accepted"), res.X.out)
        /\ Sealed(e, res.X.out)
        /\ lastRx' = IF Gen THEN [how |-> res.how] ELSE NoRx
        /\ rxBad' = (rxBad \/ (res.how = "accepted" /\ (res.x > L.auth \/ res.x \notin DOMAIN L.rkeys)))
        /\ arrBad' = (arrBad \/ (c.t = "app" /\ c.p # CraftId /\ res.how \notin {"accepted", "replay"}))
  /\ UNCHANGED <<drops, dups, timers, pays, wr, lost, crafted, calls>>

\* a stale twin arrives: the replay window of its epoch drops it before any content handling
DeliverStale(c) ==
  /\ Has(c, "s")
  /\ net' = Take(net, c, "s", TRUE)
  /\ lastRx' = IF Gen THEN [how |-> "replay"] ELSE NoRx
  /\ lastOut' = <<>>
  /\ UNCHANGED <<rxBad, arrBad, S, drops, dups, timers, pays, wr, lost, crafted, calls, hiSeal, sealDecr>>

Drop(c, kind) ==
  /\ drops < MaxDrop /\ Has(c, kind)
  /\ net' = SetCnt(net, c, LET v == net[c] IN
                   IF kind = "n" THEN [v EXCEPT !.n = @ - 1]
                   ELSE IF kind = "d" THEN [v EXCEPT !.d = @ - 1, !.n = @ + 1]
                   ELSE [v EXCEPT !.s = @ - 1])
  /\ drops' = drops + 1
  /\ lost' = IF TrackLost /\ c.t = "app" /\ kind = "n" THEN lost \cup {c.p} ELSE lost
  /\ lastRx' = NoRx /\ lastOut' = <<>> /\ UNCHANGED <<rxBad, arrBad>>
  /\ UNCHANGED <<S, dups, timers, pays, wr, crafted, calls, hiSeal, sealDecr>>

Dup(c) ==
  /\ dups < MaxDup /\ Has(c, "n")
  /\ net' = SetCnt(net, c, [net[c] EXCEPT !.n = @ - 1, !.d = @ + 1])
  /\ dups' = dups + 1
  /\ lastRx' = NoRx /\ lastOut' = <<>> /\ UNCHANGED <<rxBad, arrBad>>
  /\ UNCHANGED <<S, drops, timers, pays, wr, lost, crafted, calls, hiSeal, sealDecr>>

\* retransmitPostHandshake: the active flight is sent again under the epoch it was built for
Timer(e) ==
  /\ S[e].act # None /\ ~S[e].fatal
  /\ (MaxTimers < 100 => timers < MaxTimers)
  /\ timers' = IF MaxTimers < 100 THEN timers + 1 ELSE timers
  /\ LET out == <<FlightRec(e, S[e].act)>> IN net' = PutAll(net, out) /\ Sealed(e, out)
  /\ lastRx' = NoRx /\ UNCHANGED <<rxBad, arrBad>>
  /\ UNCHANGED <<S, drops, dups, pays, wr, lost, crafted, calls>>

\* a key holder's application record under e's NEXT write generation enters the network
CraftEarly(e) ==
  /\ Craft /\ ~crafted /\ ~S[e].fatal
  /\ crafted' = TRUE
  /\ net' = Put(net, MkRec("app", e, Ep(S[e].w) + 1, Succ(S[e].wsec), 0, FALSE, CraftId))
  /\ lastRx' = NoRx /\ lastOut' = <<>> /\ UNCHANGED <<rxBad, arrBad>>
  /\ UNCHANGED <<S, drops, dups, timers, pays, wr, lost, calls, hiSeal, sealDecr>>

-----------------------------------------------------------------------------
Local(e) ==
  [w |-> 0, wsec |-> Base(e),                       \* write generation and its secret
   rgen |-> 0,                                      \* current read generation
   auth |-> 3,                                      \* authorised receive epoch (State.RemoteEpoch)
   rkeys |-> IF Preinstall THEN (2 :> HsKey(Peer(e)) @@ 3 :> Base(Peer(e)) @@ 4 :> Succ(Base(Peer(e))))
             ELSE (2 :> HsKey(Peer(e)) @@ 3 :> Base(Peer(e))),   \* installed read generations by epoch (all retained)
   queue |-> <<>>,                                  \* postHandshake.queue
   act |-> IF e = "s" /\ TicketPending
           THEN [k |-> "nst", ms |-> 0, ep |-> 3, key |-> Base("s"), req |-> FALSE, user |-> FALSE, next |-> <<>>]
           ELSE None,                               \* postHandshake.flights (at most one)
   snd |-> IF e = "s" THEN 1 ELSE 0,                \* HandshakeSendSequence (relative; the server's ticket is message 0)
   rcv |-> IF e = "c" /\ ~TicketPending THEN 1 ELSE 0,   \* HandshakeRecvSequence (relative)
   fq |-> <<>>,                                     \* future-epoch queue
   dlv |-> <<>>,                                    \* payload id -> number of times handed to Read
   ret |-> {},                                      \* message_seq of user KeyUpdates whose UpdateKeys returned nil
   ackd |-> {},                                     \* message_seq of own flights for which an ACK was accepted
   fatal |-> FALSE, odd |-> FALSE]

Init ==
  /\ S = [e \in E |-> Local(e)]
  /\ net = IF TicketPending THEN (MkRec("nst", "s", 3, Base("s"), 0, FALSE, 0) :> [n |-> 1, d |-> 0, s |-> 0]) ELSE <<>>
  /\ drops = 0 /\ dups = 0 /\ timers = 0 /\ pays = 0
  /\ wr = [e \in E |-> {}] /\ lost = {} /\ crafted = FALSE
  /\ calls = [e \in E |-> 0]
  /\ hiSeal = [e \in E |-> 3] /\ sealDecr = FALSE
  /\ rxBad = FALSE /\ arrBad = FALSE
  /\ lastRx = NoRx /\ lastOut = <<>> /\ hist = <<>>

RecP(r) == [t |-> r.t, from |-> r.from, ep |-> r.ep, ms |-> r.ms, req |-> r.req, p |-> r.p]
RECURSIVE OutP(_)
OutP(o) == IF o = <<>> THEN <<>> ELSE <<RecP(Head(o))>> \o OutP(Tail(o))
SideP(e) == [w |-> Ep(S'[e].w), auth |-> S'[e].auth, act |-> IF S'[e].act = None THEN -1 ELSE S'[e].act.ms,
             nret |-> Cardinality(S'[e].ret), qlen |-> Len(S'[e].queue), fq |-> Len(S'[e].fq),
             dlv |-> {<<p, S'[e].dlv[p]>> : p \in DOMAIN S'[e].dlv}, fatal |-> S'[e].fatal]
PostP == [c |-> SideP("c"), s |-> SideP("s"), out |-> OutP(lastOut'), how |-> lastRx'.how]
Log(a, x) == hist' = IF Gen THEN Append(hist, [act |-> a, arg |-> x, post |-> PostP]) ELSE hist   \* history only when scripts are generated

Classes == DOMAIN net
Next ==
  \/ \E e \in E, req \in BOOLEAN : UpdateKeys(e, req) /\ Log("UpdateKeys", [side |-> e, req |-> req])
  \/ \E e \in E : Write(e) /\ Log("Write", [side |-> e, p |-> pays + 1])
  \/ \E c \in Classes : \/ \E k \in {"n", "d"} : Deliver(c, k) /\ Log("Deliver", [rec |-> RecP(c), kind |-> k])
                        \/ DeliverStale(c) /\ Log("Deliver", [rec |-> RecP(c), kind |-> "s"])
                        \/ \E k \in {"n", "d", "s"} : Drop(c, k) /\ Log("Drop", [rec |-> RecP(c), kind |-> k])
                        \/ Dup(c) /\ Log("Dup", [rec |-> RecP(c), kind |-> "n"])
  \/ \E e \in E : Timer(e) /\ Log("Timer", [side |-> e])
  \/ \E e \in E : CraftEarly(e) /\ Log("Craft", [side |-> e])

\* fairness (liveness configurations run with Gen = FALSE and without VIEW: the history variables are constant then)
Fair == /\ \A e \in E : WF_vars(Timer(e) /\ UNCHANGED hist)
        /\ \A e \in E : \A ts \in {{"ack"}, {"ku", "nst"}, {"app"}} :      \* per record kind: ACKs must not starve behind retransmissions
              SF_vars(\E c \in Classes, k \in {"n", "d"} : c.from = Peer(e) /\ c.t \in ts /\ Deliver(c, k) /\ UNCHANGED hist)
Spec == Init /\ [][Next]_vars
LiveSpec == Spec /\ Fair

-----------------------------------------------------------------------------
(* C20 formulas *)

\* UpdateKeys returns nil only after an ACK of that KeyUpdate was received - hence after the peer processed it
UpdateKeysReturnsAfterAck ==
  \A e \in E : /\ S[e].ret \subseteq S[e].ackd
               /\ \A m \in S[e].ret : S[Peer(e)].rcv > m

\* every payload is handed to Read at most once, and only payloads the peer wrote (or the key holder's crafted one)
AtMostOnceUnmodified ==
  \A e \in E : \A p \in DOMAIN S[e].dlv : S[e].dlv[p] <= 1 /\ (p \in wr[Peer(e)] \/ (p = CraftId /\ crafted))

\* safety half of "delivered if its datagram arrives": a first copy of a user payload that arrives is handed to Read
ArrivalDelivers == ~arrBad
\* liveness half, for behaviours whose faults are finite: a written payload is delivered unless a fault hit its record
Delivered(p) == \E e \in E : p \in DOMAIN S[e].dlv
DeliveredIfArrives == \A p \in 1..MaxPay : (\E e \in E : p \in wr[e]) ~> (Delivered(p) \/ p \in lost)
\* ... and every UpdateKeys call eventually returns (sanity of the model, not demanded by C20)
UpdateKeysTerminates == <>[](\A e \in E : Cardinality(S[e].ret) = calls[e])

\* the write generation never moves backwards, moves one step at a time, and no record is sealed under an epoch
\* below one the same sender used before
WriteEpochMonotone == [][\A e \in E : S'[e].w \in {S[e].w, S[e].w + 1}]_vars
SealEpochMonotone == ~sealDecr

\* generation k keys are the k-fold successor of generation 0, and both directions agree
KeySuccession ==
  \A e \in E : /\ S[e].wsec = NextK(S[e].w, Base(e))
               /\ \A x \in DOMAIN S[e].rkeys : x >= 3 => S[e].rkeys[x] = NextK(x - 3, Base(Peer(e)))
               /\ (~Preinstall => Ep(S[e].rgen) = S[e].auth /\ DOMAIN S[e].rkeys = 2..S[e].auth)

\* a record is accepted only under an epoch that is authorised at that moment and retained
UnauthorisedEpochRejected == ~rxBad
\* the sender side of the same coin: nobody seals under an epoch the peer has not authorised yet
WriteEpochAuthorised == \A e \in E : Ep(S[e].w) <= S[Peer(e)].auth
NetEpochsAuthorised == \A c \in DOMAIN net : c.p # CraftId => c.ep <= S[Peer(c.from)].auth

\* structure
OneFlight == \A e \in E : ~S[e].fatal /\ ~S[e].odd
TypeOK == /\ \A c \in DOMAIN net : net[c].n + net[c].d <= Cap /\ net[c] # Zero
          /\ \A e \in E : Len(S[e].fq) <= FutureCap /\ S[e].w <= UpdC + UpdS + 1

\* script generation: one script per explored edge
EmitEdge == Gen => PrintT(ToJson([steps |-> hist']))
=============================================================================
