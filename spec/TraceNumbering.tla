--------------------------- MODULE TraceNumbering ---------------------------
(* Trace specification: the numbering projection of RecordLayer.tla (send side) run over the
   record numbers observed in real sessions (wire headers for DTLS 1.2, seal hook for DTLS 1.3).
   One line per emitted record: {"ev":"rec","side":..,"epoch":..,"hi":..,"lo":..} (the 48-bit number as
   two 24-bit limbs, TLC integers are 32-bit), {"ev":"reset"} between sessions.
   A record is accepted iff it could have been produced by Alloc/Emit of RecordLayer: its number is
   >= the counter of that (side, epoch) - gaps are legal, repeats and decreases are not - and <= MaxSeq.
   The whole trace must be consumed (POSTCONDITION). *)
EXTENDS Integers, Sequences, TLC, Json, FiniteSets

Trace == ndJsonDeserialize("trace.ndjson")

VARIABLES l, nexthi, nextlo   \* position; per <<side, epoch>> the next admissible number (limbs)

vars == <<l, nexthi, nextlo>>
Limb == 16777216  \* 2^24
Keys == DOMAIN nexthi

Init == l = 1 /\ nexthi = [k \in {} |-> 0] /\ nextlo = [k \in {} |-> 0]

Ev == Trace[l]
Key(e) == <<e.side, e.epoch>>

\* the number of event e is >= the next admissible number of its key
Admissible(e) ==
  LET k == Key(e) IN
  IF k \notin DOMAIN nexthi THEN TRUE
  ELSE e.hi > nexthi[k] \/ (e.hi = nexthi[k] /\ e.lo >= nextlo[k])

Upd(f, k, v) == [x \in DOMAIN f \cup {k} |-> IF x = k THEN v ELSE f[x]]

Rec ==
  /\ l <= Len(Trace) /\ Ev.ev = "rec"
  /\ Admissible(Ev)
  /\ Ev.hi < Limb /\ Ev.lo < Limb                          \* <= 2^48 - 1
  /\ LET k == Key(Ev)
         lo1 == IF Ev.lo + 1 = Limb THEN 0 ELSE Ev.lo + 1
         hi1 == IF Ev.lo + 1 = Limb THEN Ev.hi + 1 ELSE Ev.hi IN
     /\ nexthi' = Upd(nexthi, k, hi1)
     /\ nextlo' = Upd(nextlo, k, lo1)
  /\ l' = l + 1

Reset ==
  /\ l <= Len(Trace) /\ Ev.ev = "reset"
  /\ nexthi' = [k \in {} |-> 0] /\ nextlo' = [k \in {} |-> 0]
  /\ l' = l + 1

Next == Rec \/ Reset
Spec == Init /\ [][Next]_vars

\* acceptance: every line was consumed
Accepted == TLCGet("stats").diameter - 1 = Len(Trace)
\* where the trace got stuck (for the report)
Stuck == l
=============================================================================
