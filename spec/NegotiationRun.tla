--------------------------- MODULE NegotiationRun ---------------------------
(* C01 (A): both endpoints compute their negotiated outputs from the hellos they saw.

   The exchange of one association, on top of the policy operators of Negotiation.tla:
       ClientHello -> [HelloVerifyRequest / HelloRetryRequest -> second ClientHello with the cookie] ->
       ServerHello (the server's selection from the offer IT SAW) -> client Finished -> server Finished.
   The network is a monotone SET of messages: everything that was ever sent can be delivered any number of times, in any
   order, or never (loss, duplication, reordering, retransmission are inherent).  An attacker may rewrite the negotiable
   part of an in-flight ClientHello or ServerHello (MaxTamper copies).  The server selects nondeterministically among the
   values the oracle allows for the offer it saw (no preference order), draws a fresh random and a fresh connection ID
   per generated ServerHello; each side commits outputs only at the point where the code does (client: ServerHello
   validated against its own offer, session complete after the server Finished verified; server: complete after the
   client Finished).

   Constants name the code's behaviour:
     HelloVerify          - the server demands the cookie round
     ServerChecksFinished - flight4Parse compares the client's verify_data (pinned tree: FALSE for the full handshake; TRUE since the fix e73d0d6)
     ClientChecksFinished - flight5Parse compares the server's verify_data (TRUE)
     ServerReselects      - a repeated cookie-bearing ClientHello makes the server generate a NEW ServerHello
                            (FALSE: the first selection is cached and re-sent)
   Agreement must hold for the real setting under tampering, and must fail when nobody checks Finished. *)
EXTENDS Negotiation

CONSTANTS HelloVerify, ServerChecksFinished, ClientChecksFinished, ServerReselects, MaxTamper, Width

VARIABLES net,      \* set of messages ever sent
          cst, sst, \* "start" | "wait" | "keyed" | "done" | "failed"   /   "idle" | "hello" | "done"
          cCookie,  \* client already answered a cookie request
          cSel, cRand, sOffer, sSel, sRand,
          out,      \* side -> committed outputs (or <<>>)
          tampers

rvars == <<a, k, c, s, E, net, cst, sst, cCookie, cSel, cRand, sOffer, sSel, sRand, out, tampers>>

\* the negotiable part of the client's hello: what the client really offers
Offer == [alpn |-> c.alpn, srtp |-> c.srtp, cid |-> IF c.cid >= 0 THEN "C" ELSE "none", rand |-> "r"]
NoSel == [suite |-> "", srtp |-> 0, alpn |-> "", scid |-> 0]

\* the server's admissible selections for an offer it saw (the oracle's sets, re-evaluated on the SEEN offer)
Select(o, n) ==
  {[suite |-> x, srtp |-> p, alpn |-> q, scid |-> IF o.cid # "none" /\ s.cid >= 0 THEN n ELSE 0] :
      x \in E.suites,
      p \in (IF o.srtp = {} \/ s.srtp = {} THEN {0} ELSE o.srtp \cap s.srtp),
      q \in (IF o.alpn = {} \/ s.alpn = {} THEN {""} ELSE o.alpn \cap s.alpn)}

\* the client validates a selection against its OWN offer
ClientAccepts(sel) ==
  /\ sel.suite \in Listed(c, E.ver)
  /\ (IF c.srtp = {} THEN sel.srtp = 0 ELSE sel.srtp \in c.srtp)
  /\ (sel.alpn = "" \/ sel.alpn \in c.alpn)
  /\ (sel.scid # 0 => c.cid >= 0)

Transcript(o, sel, r) == <<o, sel, r>>
Secret(o, sel, r) == <<o.rand, r, sel.suite>>       \* master secret term: every exporter label derives from it

RunInit ==
  /\ k = NDims
  /\ a \in (IF Width = 1 THEN {x \in Vary1 : InDomain(x)} ELSE {x \in Vary2 : InDomain(x)})
  /\ \A d \in 1..NDims : (a[d] # Base[d]) => d \in 11..18     \* EMS, SRTP, ALPN, CID dimensions vary here
  /\ Derive(a)
  /\ ValidCfg(CfgC(a), "c") /\ ValidCfg(CfgS(a), "s") /\ Expected(CfgC(a), CfgS(a)).ok = "must"
  /\ net = {} /\ cst = "start" /\ sst = "idle" /\ cCookie = FALSE
  /\ cSel = NoSel /\ cRand = 0 /\ sOffer = Offer /\ sSel = NoSel /\ sRand = 0
  /\ out = [e \in {"c", "s"} |-> <<>>] /\ tampers = 0

Send(m) == net' = net \cup {m}
Keep == UNCHANGED <<a, k, c, s, E>>

CliStart ==
  /\ cst = "start" /\ cst' = "wait"
  /\ Send([t |-> "CH", cookie |-> FALSE, offer |-> Offer])
  /\ UNCHANGED <<sst, cCookie, cSel, cRand, sOffer, sSel, sRand, out, tampers>> /\ Keep

CliCookie ==
  /\ cst = "wait" /\ ~cCookie /\ [t |-> "HVR"] \in net
  /\ cCookie' = TRUE
  /\ Send([t |-> "CH", cookie |-> TRUE, offer |-> Offer])      \* same random, same offer, plus the cookie
  /\ UNCHANGED <<cst, sst, cSel, cRand, sOffer, sSel, sRand, out, tampers>> /\ Keep

CliServerHello ==
  \E m \in net :
    /\ m.t = "SH" /\ cst = "wait"
    /\ IF ClientAccepts(m.sel)
       THEN /\ cst' = "keyed" /\ cSel' = m.sel /\ cRand' = m.rand
            /\ Send([t |-> "FC", th |-> Transcript(Offer, m.sel, m.rand)])
       ELSE /\ cst' = "failed" /\ UNCHANGED <<cSel, cRand, net>>
    /\ UNCHANGED <<sst, cCookie, sOffer, sSel, sRand, out, tampers>> /\ Keep

CliFinished ==
  \E m \in net :
    /\ m.t = "FS" /\ cst = "keyed"
    /\ IF ClientChecksFinished => m.th = Transcript(Offer, cSel, cRand)
       THEN /\ cst' = "done"
            /\ out' = [out EXCEPT !["c"] = [ver |-> E.ver, suite |-> cSel.suite, srtp |-> cSel.srtp, alpn |-> cSel.alpn,
                                            lcid |-> IF cSel.scid # 0 THEN Offer.cid ELSE "none",
                                            rcid |-> cSel.scid, ms |-> Secret(Offer, cSel, cRand)]]
       ELSE cst' = "failed" /\ UNCHANGED out
    /\ UNCHANGED <<net, sst, cCookie, cSel, cRand, sOffer, sSel, sRand, tampers>> /\ Keep

SrvClientHello ==
  \E m \in net :
    /\ m.t = "CH"
    /\ IF HelloVerify /\ ~m.cookie
       THEN /\ Send([t |-> "HVR"]) /\ UNCHANGED <<sst, sOffer, sSel, sRand>>
       ELSE /\ (sst = "idle" \/ (ServerReselects /\ sst = "hello" /\ sRand < 2))
            /\ \E sel \in Select(m.offer, sRand + 1) :
                 /\ sSel' = sel /\ sRand' = sRand + 1 /\ sOffer' = m.offer /\ sst' = "hello"
                 /\ Send([t |-> "SH", sel |-> sel, rand |-> sRand + 1])
    /\ UNCHANGED <<cst, cCookie, cSel, cRand, out, tampers>> /\ Keep

SrvFinished ==
  \E m \in net :
    /\ m.t = "FC" /\ sst = "hello"
    /\ ServerChecksFinished => m.th = Transcript(sOffer, sSel, sRand)
    /\ sst' = "done"
    /\ out' = [out EXCEPT !["s"] = [ver |-> E.ver, suite |-> sSel.suite, srtp |-> sSel.srtp, alpn |-> sSel.alpn,
                                    lcid |-> sSel.scid,
                                    rcid |-> IF sSel.scid # 0 THEN sOffer.cid ELSE "none", ms |-> Secret(sOffer, sSel, sRand)]]
    /\ Send([t |-> "FS", th |-> Transcript(sOffer, sSel, sRand)])
    /\ UNCHANGED <<cst, cCookie, cSel, cRand, sOffer, sSel, sRand, tampers>> /\ Keep

\* the attacker rewrites the negotiable part of a hello in flight
Tamper ==
  /\ tampers < MaxTamper /\ tampers' = tampers + 1
  /\ \E m \in net :
       \/ /\ m.t = "CH"
          /\ \E al \in SUBSET m.offer.alpn, cd \in {m.offer.cid, "X"} :
               /\ (al # m.offer.alpn \/ cd # m.offer.cid)
               /\ Send([m EXCEPT !.offer = [m.offer EXCEPT !.alpn = al, !.cid = cd]])
       \/ /\ m.t = "SH"
          /\ \E q \in c.alpn \cup {""}, p \in c.srtp \cup {0} :
               /\ (q # m.sel.alpn \/ p # m.sel.srtp)
               /\ Send([m EXCEPT !.sel = [m.sel EXCEPT !.alpn = q, !.srtp = p]])
  /\ UNCHANGED <<cst, sst, cCookie, cSel, cRand, sOffer, sSel, sRand, out>> /\ Keep

RunNext == CliStart \/ CliCookie \/ CliServerHello \/ CliFinished \/ SrvClientHello \/ SrvFinished \/ Tamper
RunSpec == RunInit /\ [][RunNext]_rvars

-----------------------------------------------------------------------------
Done == cst = "done" /\ sst = "done"
(* C01: whenever both report success they hold the same session *)
Agreement ==
  Done => /\ out["c"].ver = out["s"].ver /\ out["c"].suite = out["s"].suite
          /\ out["c"].ms = out["s"].ms                       \* hence every exporter label
          /\ out["c"].srtp = out["s"].srtp /\ out["c"].alpn = out["s"].alpn
          /\ out["c"].lcid = out["s"].rcid /\ out["c"].rcid = out["s"].lcid
(* ... and the session lies within the oracle's allowed sets (ties C01 to C11) *)
WithinPolicy ==
  cst = "done" => /\ out["c"].suite \in E.suites /\ out["c"].srtp \in E.srtp \cup {0}
                  /\ (out["c"].alpn = "" \/ out["c"].alpn \in c.alpn)
(* vacuity: some behaviour completes on both sides (checked as an invariant that must FAIL) *)
NeverBothDone == ~Done
=============================================================================
