----------------------------- MODULE Transcript -----------------------------
(* C04 - transcript integrity.  A handshake between two honest endpoints with an
   on-path attacker that may ALTER handshake messages in transit (the altered message
   stays parseable).  Messages are abstract: each transmitted message carries a content
   id (0 = as sent, k > 0 = altered) and the attacker says which part of the message the
   alteration touches:
     "neutral"  a field that does not enter key derivation (suite lists, extensions,
                session id, versions, certificate bytes, signature-algorithm lists)
     "random"   the hello random (enters the master secret without EMS, and the signed
                ServerKeyExchange parameters)
     "share"    an (EC)DH share / PSK identity (enters the premaster secret)
     "sig"      signature bytes
   Every endpoint keeps ITS OWN VIEW of every message (what it sent / what it received);
   secrets and Finished values are symbolic terms over those views and are equal only
   structurally.  The endpoint logic follows pion/dtls:

     DTLS 1.2 full     internal/flight/flight12: flight3Parse, flight5Generate (signature check in
                       initializeCipherSuite), flight4Parse (server side; whether it compares the client's
                       verify_data is the constant ServerChecksClientFinished: the pinned tree did NOT,
                       the "fix:" commit does), flight5Parse (client compares the server's verify_data)
     DTLS 1.2 resumed  flight0Parse -> 4b, handleResumption (client compares), flight4bParse (server compares)
     DTLS 1.3          ClientHello, HelloRetryRequest, ServerHello are cleartext; everything later is
                       record-protected (alterations there are record forgeries, property C05); both
                       Finished values are compared (protected_flight.go verifyPeerFinished)

   The first ClientHello and the HelloVerifyRequest of DTLS 1.2 are outside the Finished
   hash by RFC 6347 4.2.1; InTranscript says so and the property formula is stated over the
   messages the transcript covers (the model shows that completion after an altered
   HelloVerifyRequest is possible by design: formula HvrCoveredToo is expected to FAIL). *)
EXTENDS Integers, Sequences, FiniteSets, TLC, Json

CONSTANTS Ver,          \* 12 | 13
          Mode,         \* "full" | "resume"           (1.2)  /  "hrr" | "nohrr" (1.3)
          HelloVerify,  \* 1.2: cookie exchange first
          Kx,           \* "cert" | "psk" | "ecdhepsk"  (1.2 full)
          ClientAuth,   \* 1.2 full with certificate request: client Certificate + CertificateVerify
          EMS,          \* extended master secret negotiated
          ServerChecksClientFinished,
          NegotiateFrom, \* "CH2" | "CH1": the ClientHello whose extensions the DTLS 1.2 server negotiates from when there is a
                         \* cookie exchange ("CH1" = the pinned tree: flight0Parse; "CH2" = the "fix:" commit, flight2Parse)
          MaxTamper,
          Gen

E == {"c", "s"}
Peer(e) == IF e = "c" THEN "s" ELSE "c"

\* the cleartext handshake messages of the variant, in protocol order, with their sender
Msgs ==
  IF Ver = 13 THEN
     (IF Mode = "hrr" THEN <<"CH1", "HRR">> ELSE <<>>) \o <<"CH2", "SH">>
  ELSE
     (IF HelloVerify THEN <<"CH1", "HVR">> ELSE <<>>) \o
     (IF Mode = "resume" THEN <<"CH2", "SH">>
      ELSE <<"CH2", "SH">>
           \o (IF Kx = "cert" THEN <<"CERT">> ELSE <<>>)
           \o (IF Kx # "psk" THEN <<"SKE">> ELSE <<>>)
           \o (IF ClientAuth /\ Kx = "cert" THEN <<"CR">> ELSE <<>>)
           \o <<"SHD">>
           \o (IF ClientAuth /\ Kx = "cert" THEN <<"CCERT">> ELSE <<>>)
           \o <<"CKE">>
           \o (IF ClientAuth /\ Kx = "cert" THEN <<"CV">> ELSE <<>>))
MsgSet == {Msgs[i] : i \in 1..Len(Msgs)}
Sender(m) == IF m \in {"CH1", "CH2", "CCERT", "CKE", "CV"} THEN "c" ELSE "s"
InTranscript(m) == Ver = 13 \/ m \notin {"CH1", "HVR"}

Kinds(m) ==
  CASE m \in {"CH1", "CH2", "SH"} -> {"neutral", "random"} \cup (IF Ver = 13 THEN {"share"} ELSE {})
    [] m = "HRR"                  -> {"neutral"}
    [] m = "HVR"                  -> {"neutral"}
    [] m = "SKE"                  -> {"share"} \cup (IF Kx = "cert" THEN {"sig"} ELSE {})
    [] m = "CKE"                  -> {"share"}
    [] m = "CV"                   -> {"sig", "neutral"}
    [] OTHER                      -> {"neutral"}

VARIABLES pc,        \* index of the next cleartext message to travel (Len(Msgs)+1.. = Finished phase)
          view,      \* view[e][m] = [id, kind] as endpoint e holds message m ("none" kind when unaltered)
          alive,     \* endpoint has not aborted
          est,       \* endpoint reports a successful handshake
          tampered,  \* set of messages altered in transit
          phase,     \* "msgs" | "fin1" | "fin2" | "done"
          hist

vars == <<pc, view, alive, est, tampered, phase, hist>>
viewv == <<pc, view, alive, est, tampered, phase>>

Orig == [id |-> 0, kind |-> "none"]
Unset == [id |-> -1, kind |-> "none"]

Init ==
  /\ pc = 1
  /\ view = [e \in E |-> [m \in MsgSet |-> Unset]]
  /\ alive = [e \in E |-> TRUE]
  /\ est = [e \in E |-> FALSE]
  /\ tampered = {}
  /\ phase = "msgs"
  /\ hist = <<>>

-----------------------------------------------------------------------------
(* symbolic secrets as each endpoint computes them from ITS view *)
Has(e, m) == m \in MsgSet
Part(e, ms, kinds) == [m \in ms \cap MsgSet |-> IF view[e][m].kind \in kinds THEN view[e][m].id ELSE 0]

\* premaster: the (EC)DH shares / PSK identity as e sees them
Pms(e) == IF Ver = 13 THEN Part(e, {"CH2", "SH"}, {"share"}) ELSE Part(e, {"SKE", "CKE"}, {"share"})
\* hello randoms as e sees them
Rnd(e) == Part(e, {"CH2", "SH"}, {"random"})
\* the whole transcript as e sees it (ids of every covered message)
Tr(e) == [m \in {x \in MsgSet : InTranscript(x)} |-> view[e][m].id]

\* DTLS 1.3 keys depend on the transcript hash through ServerHello; 1.2 on randoms, and on the
\* session hash with EMS; a resumed 1.2 handshake uses the stored secret and the fresh randoms
KeyOf(e) ==
  IF Ver = 13 THEN <<Pms(e), Tr(e)>>
  ELSE IF Mode = "resume" THEN <<"stored", Rnd(e)>>
  ELSE IF EMS THEN <<Pms(e), Tr(e)>> ELSE <<Pms(e), Rnd(e)>>

Fin(e) == <<KeyOf(e), Tr(e)>>   \* verify_data of e over its own transcript view

-----------------------------------------------------------------------------
(* the signature in ServerKeyExchange covers client random, server random and the server's share;
   the client checks it against ITS view (initializeCipherSuite) *)
SkeSigOK ==
  \/ Ver = 13 \/ Mode = "resume" \/ Kx # "cert"
  \/ /\ view["c"]["SKE"].kind # "sig"
     /\ Part("c", {"CH2", "SH"}, {"random"}) = Part("s", {"CH2", "SH"}, {"random"})
     /\ Part("c", {"SKE"}, {"share"}) = Part("s", {"SKE"}, {"share"})
\* CertificateVerify covers the transcript through ClientKeyExchange as the server sees it
CvOK ==
  \/ ~("CV" \in MsgSet)
  \/ /\ view["s"]["CV"].kind # "sig"
     /\ \A m \in MsgSet \ {"CV"} : InTranscript(m) => view["s"][m].id = view["c"][m].id

\* one cleartext message travels; the attacker may alter it; the receiver may refuse an altered
\* message outright (parse / semantic check) or take it into its view
Travel(alter, kind, refuse) ==
  /\ phase = "msgs" /\ pc <= Len(Msgs)
  /\ LET m == Msgs[pc] s == Sender(m) r == Peer(Sender(m)) IN
     /\ alive[s] /\ alive[r]
     /\ alter => (Cardinality(tampered) < MaxTamper /\ kind \in Kinds(m))
     /\ ~alter => (kind = "none" /\ ~refuse)
     /\ LET got == IF alter THEN [id |-> 1, kind |-> kind] ELSE Orig IN
        /\ view' = [view EXCEPT ![s][m] = Orig, ![r][m] = IF refuse THEN Unset ELSE got]
        /\ tampered' = IF alter THEN tampered \cup {m} ELSE tampered
        /\ alive' = [alive EXCEPT ![r] = ~refuse]
        /\ pc' = pc + 1
        /\ phase' = IF pc + 1 > Len(Msgs) THEN "fin1" ELSE "msgs"
        /\ UNCHANGED est

\* the signature checks happen when the flight that carries them is consumed
SigChecks ==
  /\ phase = "fin1"
  /\ alive' = [alive EXCEPT !["c"] = @ /\ SkeSigOK, !["s"] = @ /\ CvOK]
  /\ phase' = "fin1b"
  /\ UNCHANGED <<pc, view, est, tampered>>

\* who sends the first Finished: the client in a full 1.2 handshake, the server when resuming and in 1.3
FirstFin == IF Ver = 12 /\ Mode = "full" THEN "c" ELSE "s"
Checks(e) == e = "c" \/ Ver = 13 \/ Mode = "resume" \/ ServerChecksClientFinished

\* x's Finished reaches y: it is protected under x's keys, so y can read it only with equal keys,
\* and accepts it iff (it checks and) the verify_data equals y's own computation
Accepts(y, x) == KeyOf(x) = KeyOf(y) /\ (Checks(y) => Fin(x) = Fin(y))

Fin1 ==
  /\ phase = "fin1b"
  /\ LET x == FirstFin y == Peer(FirstFin) IN
     IF alive[x] /\ alive[y] /\ ~Accepts(y, x)
     THEN alive' = [alive EXCEPT ![y] = FALSE]
     ELSE alive' = alive
  /\ phase' = "fin2"
  /\ UNCHANGED <<pc, view, tampered, est>>

\* the endpoint that accepted the first Finished answers with its own and completes when it sends
\* (server Flight 6 / client Flight 5b / 1.3 client Flight 5); the first sender completes on receipt
Fin2 ==
  /\ phase = "fin2"
  /\ LET y == Peer(FirstFin) x == FirstFin IN
     IF alive[x] /\ alive[y]
     THEN /\ est' = [est EXCEPT ![y] = TRUE, ![x] = Accepts(x, y)]
          /\ alive' = [alive EXCEPT ![x] = Accepts(x, y)]
     ELSE UNCHANGED <<alive, est>>
  /\ phase' = "done"
  /\ UNCHANGED <<pc, view, tampered>>

Post == [cest |-> est'["c"], sest |-> est'["s"], calive |-> alive'["c"], salive |-> alive'["s"], phase |-> phase']
Log(a, m, k) == hist' = Append(hist, [act |-> a, msg |-> m, kind |-> k, post |-> Post])
Keep == hist' = hist

Next ==
  \/ /\ phase = "msgs" /\ pc <= Len(Msgs)
     /\ \/ Travel(FALSE, "none", FALSE) /\ Keep
        \/ \E k \in Kinds(Msgs[pc]), rf \in BOOLEAN :
              Travel(TRUE, k, rf) /\ Log(IF rf THEN "TamperRefused" ELSE "Tamper", Msgs[pc], k)
  \/ /\ phase = "msgs" /\ (~alive["c"] \/ ~alive["s"])
     /\ phase' = "done" /\ UNCHANGED <<pc, view, alive, est, tampered>> /\ Log("End", "", "")
  \/ SigChecks /\ Keep
  \/ Fin1 /\ Keep
  \/ Fin2 /\ Log("End", "", "")

Spec == Init /\ [][Next]_vars

-----------------------------------------------------------------------------
(* C04: an endpoint that sent or received an altered (transcript-covered) message never reports success.
   Every message has one sender and one receiver, both honest: any alteration touches both endpoints. *)
Covered == {m \in tampered : InTranscript(m)}
TamperNoCompletion == Covered # {} => (~est["c"] /\ ~est["s"])
\* expected to FAIL for DTLS 1.2 with hello verification: the cookie exchange is outside the Finished hash
HvrCoveredToo == tampered # {} => (~est["c"] /\ ~est["s"])
\* sanity: the honest run completes on both sides
HonestCompletes == (phase = "done" /\ tampered = {} ) => (est["c"] /\ est["s"])
\* agreement of transcript views whenever both complete
ViewsAgreeWhenBothComplete == (est["c"] /\ est["s"]) => Tr("c") = Tr("s")

(* the second half of C04: no negotiated parameter is steered.  Whatever the server negotiates from must be what the
   client sent whenever both complete.  With a cookie exchange the first ClientHello is outside the Finished hash, so a
   server that negotiates from it (the pinned tree did, for every extension-borne parameter: extended master secret,
   ALPN, groups, signature schemes, server name) lets an attacker steer the outcome. *)
NegSource == IF Ver = 12 /\ HelloVerify /\ "CH1" \in MsgSet THEN NegotiateFrom ELSE "CH2"
NoSteering == (est["c"] /\ est["s"]) => (view["s"][NegSource] = Orig /\ view["c"]["SH"] = Orig)

EmitEdge == (Gen /\ phase' = "done") =>
  PrintT(ToJson([ver |-> Ver, mode |-> Mode, hv |-> HelloVerify, kx |-> Kx, clientAuth |-> ClientAuth, ems |-> EMS,
                 steps |-> hist']))
=============================================================================
