-------------------------- MODULE ListenerBacklog --------------------------
(* C08 for the demultiplexer behind dtls.Listen (internal/net/udp/packet_conn.go listener.getConn / Accept /
   PacketConn.Close): the state an UNAUTHENTICATED sender can create - one table entry and one receive buffer per remote
   address - is bounded by the accept backlog, and an address that was turned away while the backlog was full is served
   when it tries again.

   getConn, for a datagram of an address without table entry that passes the accept filter:
     the new connection is OFFERED to the accept queue (a channel of capacity Backlog); only if the offer succeeds is it
     entered in the table.  Queue full: the datagram is dropped and nothing is kept.
   A datagram of an address WITH an entry is appended to that connection's buffer (no new state besides the bytes).
   Accept takes the head of the queue; PacketConn.Close removes the entry (only the owner of a connection can do that).

   EntryFirst = TRUE is the deliberately wrong order (entry made before the offer and not taken back). *)
EXTENDS Integers, Sequences, FiniteSets, TLC, Json

CONSTANTS Addrs, Backlog, MaxSteps, EntryFirst, Gen

VARIABLES queue,    \* addresses whose connection waits in the accept queue
          table,    \* addresses with a table entry
          owned,    \* addresses whose connection the application has accepted and not closed
          turned,   \* addresses that were turned away at least once (history)
          hist
vars == <<queue, table, owned, turned, hist>>

Range(s) == {s[i] : i \in DOMAIN s}
Snap(op, a) == [op |-> op, a |-> a]

Init == queue = <<>> /\ table = {} /\ owned = {} /\ turned = {} /\ hist = <<>>

Post(t, q, o) == [tab |-> t, qlen |-> Len(q), owned |-> o]

Arrive(a) ==
  /\ Len(hist) < MaxSteps
  /\ IF a \in table
     THEN UNCHANGED <<queue, table, owned, turned>>          \* buffered on the existing connection
     ELSE IF Len(queue) < Backlog
          THEN queue' = Append(queue, a) /\ table' = table \cup {a} /\ UNCHANGED <<owned, turned>>
          ELSE /\ turned' = turned \cup {a} /\ UNCHANGED <<queue, owned>>
               /\ table' = IF EntryFirst THEN table \cup {a} ELSE table
  /\ hist' = Append(hist, [op |-> "arrive", a |-> a, post |-> Post(table', queue', owned')])

Accept ==
  /\ Len(hist) < MaxSteps /\ queue # <<>>
  /\ owned' = owned \cup {Head(queue)} /\ queue' = Tail(queue)
  /\ UNCHANGED <<table, turned>>
  /\ hist' = Append(hist, [op |-> "accept", a |-> Head(queue), post |-> Post(table', queue', owned')])

Close(a) ==
  /\ Len(hist) < MaxSteps /\ a \in owned
  /\ owned' = owned \ {a} /\ table' = table \ {a}
  /\ UNCHANGED <<queue, turned>>
  /\ hist' = Append(hist, [op |-> "close", a |-> a, post |-> Post(table', queue', owned')])

Next == (\E a \in Addrs : Arrive(a) \/ Close(a)) \/ Accept
Spec == Init /\ [][Next]_vars

(* what unauthenticated senders hold: entries nobody has accepted - at most Backlog *)
UnownedBounded == Cardinality(table \ owned) <= Backlog
(* every entry is reachable: either the application owns it or Accept will hand it out *)
NoOrphans == table = owned \cup Range(queue)
(* an address without entry is served as soon as there is room: turned away earlier or not *)
ServedWhenRoom == [][\A a \in Addrs : (a \notin table /\ Len(queue) < Backlog /\ hist' # hist /\ hist'[Len(hist')].op = "arrive"
                                        /\ hist'[Len(hist')].a = a) => a \in table']_vars

viewv == <<queue, table, owned, turned>>
EmitEdge == Gen => PrintT(ToJson([steps |-> hist']))
=============================================================================
