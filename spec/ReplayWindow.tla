---------------------------- MODULE ReplayWindow ----------------------------
(* M3a - the anti-replay window of one receive epoch, as pion/dtls uses it:
   pion/transport replaydetector.slidingWindowDetector.Check (before decryption)
   and the accept closure (after the record was authenticated and consumed).
   Serves C06; reused by RecordLayer.tla.

   The peer has written records Base..Base+N-1 of the epoch (records below Base,
   e.g. the Finished, were accepted in order).  The network delivers any arrival
   sequence with repetition of length <= L.  delivered is what Read returns. *)
EXTENDS Integers, Sequences, FiniteSets, TLC, Json

CONSTANTS Windows,   \* set of window sizes explored
          Base,      \* records 0..Base-1 of the epoch were accepted before the session starts
          N,         \* application records Base..Base+N-1
          L,         \* arrival sequence length
          Gap,       \* 0: records Base..Base+N-1.  > 0: two clusters of N/2 records whose first numbers are Gap apart
                     \* (arrival sequences around the far edge of a large window stay enumerable)
          Strict,    \* 0 = the code (a record exactly Eff(W) behind the newest is too old); 1 = a window one too small;
                     \* 2 = the unrounded window of the pinned tree whose bitmap loses bits (see Keep)
          Gen

VARIABLES w, latest, seen, delivered, arrivals

vars == <<w, latest, seen, delivered, arrivals>>

Recs == IF Gap = 0 THEN Base..(Base + N - 1)
        ELSE (Base..(Base + (N \div 2) - 1)) \cup ((Base + Gap)..(Base + Gap + (N - (N \div 2)) - 1))

Init ==
  /\ w \in Windows
  /\ latest = IF Base = 0 THEN 0 ELSE Base - 1
  /\ seen = 0..(Base - 1)
  /\ delivered = <<>>
  /\ arrivals = <<>>

\* the window the replay detector really uses: the configured size rounded up to whole 64-bit words (the "fix:" commit
\* that works around the detector's bitmap losing the upper bits of a partially used word; a configured window of
\* 33..63, 97..127, ... let records inside the window be accepted twice).  The properties below speak about the
\* CONFIGURED window.
Eff(x) == ((x + 63) \div 64) * 64
\* Strict = 2, the detector before that commit: when the window slides, the top word of the bitmap is masked with
\* (1 << (64 - w mod 64)) - 1, and bits at or above w are never read - what survives a slide is this many positions
Keep(x) == IF (x % 64) = 0 THEN x
           ELSE (x \div 64) * 64 + (IF (x % 64) < 64 - (x % 64) THEN (x % 64) ELSE 64 - (x % 64))
\* slidingWindowDetector.checkSeq
Fresh(s) ==
  /\ (s <= latest => latest - s < (CASE Strict = 1 -> w - 1 [] Strict = 2 -> w [] OTHER -> Eff(w)))
  /\ s \notin seen

\* one datagram carrying record s arrives: check, (decrypt ok, genuine), deliver, accept
Arrive(s) ==
  /\ Len(arrivals) < L
  /\ arrivals' = Append(arrivals, s)
  /\ IF Fresh(s)
     THEN /\ delivered' = Append(delivered, s)
          /\ latest' = IF s > latest THEN s ELSE latest
          /\ seen' = IF Strict = 2 /\ s > latest THEN {x \in seen \cup {s} : s - x < Keep(w)} ELSE seen \cup {s}
     ELSE UNCHANGED <<delivered, latest, seen>>
  /\ UNCHANGED w

Next == \E s \in Recs : Arrive(s)
Spec == Init /\ [][Next]_vars

-----------------------------------------------------------------------------
(* C06 *)
Count(q, x) == Cardinality({ i \in 1..Len(q) : q[i] = x })

\* no payload is delivered more often than it was written (each record is written once)
AtMostOnce == \A s \in Recs : Count(delivered, s) <= 1

\* a not yet delivered record arriving fewer than w numbers behind the newest accepted one is delivered
WithinWindowDelivered ==
  [][\A s \in Recs : (Arrive(s) /\ Count(delivered, s) = 0 /\ (s > latest \/ latest - s < w))
        => Count(delivered', s) = 1]_vars

\* only written records are delivered, and only after they arrived
OnlyArrived == \A i \in 1..Len(delivered) : Count(arrivals, delivered[i]) >= 1

Newest == IF delivered = <<>> THEN -1 ELSE latest

EmitLeaf == (Gen /\ Len(arrivals') = L) =>
              PrintT(ToJson([w |-> w, base |-> Base, arrivals |-> arrivals', delivered |-> delivered']))
=============================================================================
