------------------------------ MODULE CodecGen ------------------------------
(***************************************************************************)
(* Enumeration of parameter tuples / abstract values for the layouts of    *)
(* Codec.tla (and CodecMsg.tla), one TLC state per tuple.                  *)
(*   INVARIANT Emit        prints the JSON vector of the tuple             *)
(*   INVARIANT Consistent  internal consistency of the layouts on it       *)
(* Opaque fields (randoms, connection ids, IVs, payloads, hashes) are      *)
(* filled by a seeded pseudo-random function so that the vectors carry     *)
(* their own inputs; secrets/keys are chosen by the harness.               *)
(***************************************************************************)
EXTENDS Codec

CONSTANTS Mode,     \* which vector family to enumerate
          Seed,     \* seeds the pseudo-random fill
          Big       \* TRUE: thorough-tier bounds

VARIABLE v

Fill(tag, n) == [i \in 1..n |->
                   (((Seed % 9973) * 131) + (tag * 977) + (i * 37) + ((i * i) % 251)) % 256]
FillNZ(tag, n) == [i \in 1..n |-> 1 + (Fill(tag, n)[i] % 255)]

---------------------------------------------------------------------------
(* C10: DTLS 1.2 suites, key block, PRF seeds                              *)

SuiteCases == [suite : 1..Len(Suites12)]
SuiteOut(c) ==
  LET s == Suites12[c.suite]
      cr == Fill(11, 32)  sr == Fill(12, 32)
      kb == KeyBlock(s.mac, s.key, s.iv)
  IN [k |-> "suite12", suite |-> s, keyblock |-> kb, client_random |-> cr, server_random |-> sr,
      seed |-> SeedKeyExpansion(cr, sr), plan |-> PHashPlan(kb.total, HashLen(s.prf))]
SuiteOK(c) == LET s == Suites12[c.suite] IN KeyBlockOK(KeyBlock(s.mac, s.key, s.iv), s.mac, s.key, s.iv)

Suite13Cases == [suite : 1..Len(Suites13)]
Suite13Out(c) == [k |-> "suite13", suite |-> Suites13[c.suite]]

PrfCases ==
  [which : {"master", "ems", "cfin", "sfin"}, hash : {"sha256", "sha384"}, n : {0}, ctx : {-1}]
  \cup [which : {"exporter"}, hash : {"sha256", "sha384"},
        n : IF Big THEN {1, 16, 20, 31, 32, 33, 48, 49, 64, 96, 97, 255} ELSE {1, 20, 32, 33, 97},
        ctx : {-1, 0, 5}]
  \cup [which : {"pm_psk"}, hash : {"sha256"}, n : {1, 16, 32, 64}, ctx : {-1}]
  \cup [which : {"pm_ecdhe_psk"}, hash : {"sha256"}, n : {1, 16, 64}, ctx : {32, 48}]
  \cup [which : {"signed_kx"}, hash : {"sha256"}, n : {23, 24, 29}, ctx : {-1}]

PrfOut(c) ==
  LET cr == Fill(21, 32)  sr == Fill(22, 32)
      hl == HashLen(c.hash)
      sh == Fill(23, hl)
      ctx == IF c.ctx < 0 THEN <<>> ELSE Fill(24, c.ctx)
      lab == IF c.n % 2 = 0 THEN L_exporter_srtp ELSE L_exporter_x
  IN CASE c.which = "master" ->
            [k |-> "prf", which |-> c.which, hash |-> c.hash, client_random |-> cr, server_random |-> sr,
             seed |-> SeedMaster(cr, sr), n |-> 48, plan |-> PHashPlan(48, hl)]
       [] c.which = "ems" ->
            [k |-> "prf", which |-> c.which, hash |-> c.hash, session_hash |-> sh,
             seed |-> SeedEMS(sh), n |-> 48, plan |-> PHashPlan(48, hl)]
       [] c.which \in {"cfin", "sfin"} ->
            [k |-> "prf", which |-> c.which, hash |-> c.hash, handshake_hash |-> sh,
             seed |-> SeedFinished(c.which = "cfin", sh), n |-> 12, plan |-> PHashPlan(12, hl)]
       [] c.which = "exporter" ->
            [k |-> "prf", which |-> c.which, hash |-> c.hash, client_random |-> cr, server_random |-> sr,
             label |-> lab, has_context |-> c.ctx >= 0, context |-> ctx,
             seed |-> SeedExporter(lab, cr, sr, c.ctx >= 0, ctx), n |-> c.n, plan |-> PHashPlan(c.n, hl)]
       [] c.which = "pm_psk" ->
            [k |-> "premaster", which |-> c.which, psk |-> Fill(25, c.n), out |-> PremasterPSK(Fill(25, c.n))]
       [] c.which = "pm_ecdhe_psk" ->
            [k |-> "premaster", which |-> c.which, psk |-> Fill(25, c.n), z |-> Fill(26, c.ctx),
             out |-> PremasterEcdhePSK(Fill(26, c.ctx), Fill(25, c.n))]
       [] c.which = "signed_kx" ->
            LET pl == IF c.n = 29 THEN 32 ELSE IF c.n = 23 THEN 65 ELSE 97 IN
            [k |-> "signed_kx", curve |-> c.n, client_random |-> cr, server_random |-> sr,
             public |-> Fill(27, pl), out |-> SignedKeyExchange(cr, sr, c.n, Fill(27, pl))]
PrfOK(c) ==
  LET o == PrfOut(c) IN
  CASE c.which = "master" -> Len(o.seed) = 13 + 64 /\ SubSeq(o.seed, 14, 45) = o.client_random
    [] c.which = "exporter" -> Len(o.seed) = Len(o.label) + 64 + (IF c.ctx >= 0 THEN 2 + c.ctx ELSE 0)
    [] c.which = "pm_psk" -> Len(o.out) = 4 + (2 * c.n)
    [] OTHER -> TRUE

---------------------------------------------------------------------------
(* C10: DTLS 1.2 record protection                                         *)

ESeq == << [epoch |-> 1, seq |-> << 0, 0, 0 >>],
           [epoch |-> 65535, seq |-> << 65535, 65535, 65535 >>],
           [epoch |-> 256, seq |-> << 1, 0, 65535 >>],
           [epoch |-> 2, seq |-> << 0, 1, 0 >>],
           [epoch |-> 1, seq |-> << 0, 0, 1 >>],
           [epoch |-> 0, seq |-> << 43981, 4660, 7 >>] >>

Rec12Cases ==
  LET A == [suite : 1..Len(Suites12), cid : -1..8, es : IF Big THEN 1..6 ELSE 1..3,
            plen : IF Big THEN {0, 1, 17} ELSE {0, 17}, zeros : {0, 3}, ctype : {CT_appdata}]
      B == [suite : 1..Len(Suites12), cid : {-1, 4}, es : {3},
            plen : IF Big THEN {0, 1, 15, 16, 31, 32, 255, 256, 1200} ELSE {15, 16, 255, 256, 1200},
            zeros : {0, 16}, ctype : {CT_handshake, CT_alert, CT_appdata}]
  IN {c \in A \cup B : c.cid < 0 => c.zeros = 0}

Rec12Out(c) ==
  LET s == Suites12[c.suite]
      useCid == c.cid >= 0
      cid == IF useCid THEN Fill(31, c.cid) ELSE <<>>
      epoch == ESeq[c.es].epoch
      seq == ESeq[c.es].seq
      content == Fill(32 + c.plen, c.plen)
      plain == IF useCid THEN EncInner([content |-> content, type |-> c.ctype, zeros |-> c.zeros]) ELSE content
      otype == IF useCid THEN CT_cid ELSE c.ctype
      iv == Fill(33, s.iv)
      explicit == ExplicitNonce(epoch, seq)
      hdr(l) == EncHdr12([type |-> otype, ver |-> V12, epoch |-> epoch, seq |-> seq, cid |-> cid, len |-> l])
  IN [k |-> "rec12", suite |-> s.name, kind |-> s.kind, tag |-> s.tag, maclen |-> s.mac, mach |-> s.mach,
      keylen |-> s.key, epoch |-> epoch, seq |-> seq, ctype |-> c.ctype, use_cid |-> useCid, cid |-> cid,
      content |-> content, zeros |-> c.zeros, iv |-> iv,
      plain |-> plain, record_type |-> otype,
      hdr_plain |-> hdr(Len(plain)),
      frag_len |-> FragLen(s, Len(plain)),
      hdr_out |-> hdr(FragLen(s, Len(plain))),
      aad |-> IF s.kind = "cbc" THEN <<>>
              ELSE IF useCid THEN AADCID(epoch, seq, V12, cid, Len(plain))
              ELSE AAD12(epoch, seq, c.ctype, V12, Len(plain)),
      explicit |-> IF s.kind \in {"gcm", "ccm"} THEN explicit ELSE <<>>,
      nonce |-> CASE s.kind \in {"gcm", "ccm"} -> NonceExplicit(iv, explicit)
                  [] s.kind = "chacha" -> NonceXor(iv, << epoch >> \o seq)
                  [] OTHER -> <<>>,
      mac_input |-> IF s.kind # "cbc" THEN <<>>
                    ELSE IF useCid THEN MacInputCID(epoch, seq, V12, cid, plain)
                    ELSE MacInput12(epoch, seq, c.ctype, V12, plain),
      pads |-> IF s.kind = "cbc" THEN CbcPads(Len(plain) + s.mac) ELSE {},
      min_pad |-> IF s.kind = "cbc" THEN CbcMinPad(Len(plain) + s.mac) ELSE 0]

Rec12OK(c) ==
  LET o == Rec12Out(c)
      d == DecHdr12(o.hdr_out, IF c.cid < 0 THEN 0 ELSE c.cid)
  IN /\ d.ok /\ d.used = Len(o.hdr_out) /\ d.h.len = o.frag_len /\ d.h.cid = o.cid
     /\ d.h.epoch = o.epoch /\ d.h.seq = o.seq /\ d.h.type = o.record_type
     /\ o.use_cid => LET p == DecInner(o.plain) IN
                     p.ok /\ p.h.content = o.content /\ p.h.type = o.ctype /\ p.h.zeros = o.zeros
     /\ o.kind # "cbc" => /\ Len(o.nonce) = 12
                          /\ Len(o.aad) = (IF o.use_cid THEN 23 + Len(o.cid) ELSE 13)
                          /\ N16(o.aad, Len(o.aad) - 1) = Len(o.plain)
     /\ o.kind = "cbc" => /\ (Len(o.plain) + o.maclen + o.min_pad + 1) % 16 = 0
                          /\ o.min_pad \in o.pads /\ o.min_pad < 16
                          /\ o.frag_len % 16 = 0
                          /\ Len(o.mac_input) = (IF o.use_cid THEN 23 + Len(o.cid) ELSE 13) + Len(o.plain)

---------------------------------------------------------------------------
(* C10: DTLS 1.3 HkdfLabel, key schedule, record protection                *)

HkdfLabels == << L_derived, L_chs, L_shs, L_cap, L_sap, L_exp, L_res, L_finished, L_key, L_iv, L_sn, L_upd,
                 L_exporter13, L_exporter_srtp >>
HkdfCases ==
  [which : {"label"}, label : 1..Len(HkdfLabels), ctx : {0, 32, 48}, n : IF Big THEN {1, 12, 16, 32, 48, 100} ELSE {12, 32, 48}]
  \cup [which : {"graph"}, label : {0}, ctx : {0}, n : {0}]
  \cup [which : {"certverify"}, label : {0, 1}, ctx : {32, 48}, n : {0}]

HkdfOut(c) ==
  CASE c.which = "label" ->
         LET ctx == Fill(41, c.ctx) IN
         [k |-> "hkdf_label", label |-> HkdfLabels[c.label], context |-> ctx, n |-> c.n,
          info |-> HkdfLabel(c.n, HkdfLabels[c.label], ctx),
          plan32 |-> ExpandPlan(c.n, 32), plan48 |-> ExpandPlan(c.n, 48)]
    [] c.which = "graph" ->
         [k |-> "ks_graph", schedule |-> KeySchedule, traffic_keys |-> TrafficKeys, exporter |-> Exporter13]
    [] c.which = "certverify" ->
         [k |-> "certverify", client |-> c.label = 1, transcript_hash |-> Fill(42, c.ctx),
          out |-> CertVerifyInput(c.label = 1, Fill(42, c.ctx))]
HkdfOK(c) ==
  c.which = "label" =>
    LET o == HkdfOut(c) IN
    /\ N16(o.info, 1) = c.n
    /\ o.info[3] = 6 + Len(o.label)
    /\ SubSeq(o.info, 4, 9) = P_dtls13
    /\ Len(o.info) = 2 + 1 + 6 + Len(o.label) + 1 + c.ctx

Seq64 == << << 0, 0, 0, 0 >>, << 0, 0, 0, 255 >>, << 0, 0, 0, 256 >>, << 0, 0, 1, 0 >>,
            << 0, 65535, 65535, 65535 >>, << 0, 4660, 22136, 39612 >> >>
Rec13Cases ==
  LET A == [suite : 1..3, cid : IF Big THEN 0..8 ELSE {0, 1, 4, 8}, s : BOOLEAN, l : BOOLEAN, epoch : {2, 3, 4, 5},
            sq : IF Big THEN 1..6 ELSE {1, 3, 5, 6}, plen : {0, 17}, zeros : {0, 5}, ctype : {CT_appdata}]
      B == [suite : 1..3, cid : {0, 4}, s : {TRUE}, l : {TRUE}, epoch : {3},
            sq : {6}, plen : IF Big THEN {0, 1, 15, 16, 255, 256, 1200} ELSE {1, 16, 1200}, zeros : {0, 1},
            ctype : {CT_handshake, CT_alert, CT_ack, CT_appdata}]
  IN A \cup B

Rec13Out(c) ==
  LET s == Suites13[c.suite]
      cid == Fill(51, c.cid)
      seq64 == Seq64[c.sq]
      content == Fill(52 + c.plen, c.plen)
      inner == EncInner([content |-> content, type |-> c.ctype, zeros |-> c.zeros])
      elen == Len(inner) + s.tag
      u == [cid |-> cid, s |-> c.s, seq |-> IF c.s THEN seq64[4] ELSE seq64[4] % 256, l |-> c.l,
            len |-> IF c.l THEN elen ELSE 0, epoch |-> c.epoch % 4]
      iv == Fill(53, 12)
      mask == Fill(54, 16)
      hdr == EncUHdr(u)
  IN [k |-> "rec13", suite |-> s.name, kind |-> s.kind, keylen |-> s.key, hash |-> s.hash, snalg |-> s.snalg,
      epoch |-> c.epoch, seq64 |-> seq64, uhdr |-> u, cid |-> cid, content |-> content, ctype |-> c.ctype,
      zeros |-> c.zeros, iv |-> iv, inner |-> inner, enc_len |-> elen,
      aad |-> AAD13(u), nonce |-> Nonce13(iv, seq64),
      mask |-> mask, masked_hdr |-> ApplySnMask(hdr, c.cid, c.s, mask)]

Rec13OK(c) ==
  LET o == Rec13Out(c)
      d == DecUHdr(o.aad, c.cid)
      m2 == ApplySnMask(o.masked_hdr, c.cid, c.s, o.mask)
  IN /\ d.ok /\ d.used = Len(o.aad) /\ d.h = o.uhdr
     /\ m2 = o.aad
     /\ Len(o.nonce) = 12 /\ Take(o.nonce, 4) = Take(o.iv, 4)
     /\ \A i \in 1..Len(o.aad) : (o.masked_hdr[i] # o.aad[i]) => i \in {2 + c.cid, 3 + c.cid}
     /\ LET p == DecInner(o.inner) IN p.ok /\ p.h.content = o.content /\ p.h.type = o.ctype /\ p.h.zeros = o.zeros

---------------------------------------------------------------------------
Cases ==
  CASE Mode = "suite12" -> SuiteCases
    [] Mode = "suite13" -> Suite13Cases
    [] Mode = "prf" -> PrfCases
    [] Mode = "rec12" -> Rec12Cases
    [] Mode = "hkdf" -> HkdfCases
    [] Mode = "rec13" -> Rec13Cases

Out(c) ==
  CASE Mode = "suite12" -> SuiteOut(c)
    [] Mode = "suite13" -> Suite13Out(c)
    [] Mode = "prf" -> PrfOut(c)
    [] Mode = "rec12" -> Rec12Out(c)
    [] Mode = "hkdf" -> HkdfOut(c)
    [] Mode = "rec13" -> Rec13Out(c)

OK(c) ==
  CASE Mode = "suite12" -> SuiteOK(c)
    [] Mode = "suite13" -> TRUE
    [] Mode = "prf" -> PrfOK(c)
    [] Mode = "rec12" -> Rec12OK(c)
    [] Mode = "hkdf" -> HkdfOK(c)
    [] Mode = "rec13" -> Rec13OK(c)

Init == v \in Cases
Next == UNCHANGED v
Emit == PrintT(ToJson(Out(v)))
Consistent == OK(v)
===========================================================================
