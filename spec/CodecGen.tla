------------------------------ MODULE CodecGen ------------------------------
(***************************************************************************)
(* Enumeration of parameter tuples / abstract values for the layouts of    *)
(* Codec.tla (and CodecMsg.tla), one TLC state per tuple.                  *)
(*   INVARIANT Emit        prints the JSON vector of the tuple             *)
(*   INVARIANT Consistent  internal consistency of the layouts on it       *)
(* Opaque fields (randoms, connection ids, IVs, payloads, hashes) are      *)
(* filled by a seeded pseudo-random function so that the vectors carry     *)
(* their own inputs; secrets/keys are chosen by the harness.               *)
(***************************************************************************)
EXTENDS CodecMsg

CONSTANTS Mode,     \* which vector family to enumerate
          Seed,     \* seeds the pseudo-random fill
          Big       \* TRUE: thorough-tier bounds

VARIABLE v

Fill(tag, n) == [i \in 1..n |->
                   (((Seed % 9973) * 131) + (tag * 977) + (i * 37) + ((i * i) % 251)) % 256]
FillNZ(tag, n) == [i \in 1..n |-> 1 + (Fill(tag, n)[i] % 255)]

---------------------------------------------------------------------------
(* C10: DTLS 1.2 suites, key block, PRF seeds                              *)

SuiteCases == [suite : 1..Len(Suites12)]
SuiteOut(c) ==
  LET s == Suites12[c.suite]
      cr == Fill(11, 32)  sr == Fill(12, 32)
      kb == KeyBlock(s.mac, s.key, s.iv)
  IN [k |-> "suite12", suite |-> s, keyblock |-> kb, client_random |-> cr, server_random |-> sr,
      seed |-> SeedKeyExpansion(cr, sr), plan |-> PHashPlan(kb.total, HashLen(s.prf))]
SuiteOK(c) == LET s == Suites12[c.suite] IN KeyBlockOK(KeyBlock(s.mac, s.key, s.iv), s.mac, s.key, s.iv)

Suite13Cases == [suite : 1..Len(Suites13)]
Suite13Out(c) == [k |-> "suite13", suite |-> Suites13[c.suite]]

PrfCases ==
  [which : {"master", "ems", "cfin", "sfin"}, hash : {"sha256", "sha384"}, n : {0}, ctx : {-1}]
  \cup [which : {"exporter"}, hash : {"sha256", "sha384"},
        n : IF Big THEN {1, 16, 20, 31, 32, 33, 48, 49, 64, 96, 97, 255} ELSE {1, 20, 32, 33, 97},
        ctx : {-1, 0, 5}]
  \cup [which : {"pm_psk"}, hash : {"sha256"}, n : {1, 16, 32, 64}, ctx : {-1}]
  \cup [which : {"pm_ecdhe_psk"}, hash : {"sha256"}, n : {1, 16, 64}, ctx : {32, 48}]
  \cup [which : {"signed_kx"}, hash : {"sha256"}, n : {23, 24, 29}, ctx : {-1}]

PrfOut(c) ==
  LET cr == Fill(21, 32)  sr == Fill(22, 32)
      hl == HashLen(c.hash)
      sh == Fill(23, hl)
      ctx == IF c.ctx < 0 THEN <<>> ELSE Fill(24, c.ctx)
      lab == IF c.n % 2 = 0 THEN L_exporter_srtp ELSE L_exporter_x
  IN CASE c.which = "master" ->
            [k |-> "prf", which |-> c.which, hash |-> c.hash, client_random |-> cr, server_random |-> sr,
             seed |-> SeedMaster(cr, sr), n |-> 48, plan |-> PHashPlan(48, hl)]
       [] c.which = "ems" ->
            [k |-> "prf", which |-> c.which, hash |-> c.hash, session_hash |-> sh,
             seed |-> SeedEMS(sh), n |-> 48, plan |-> PHashPlan(48, hl)]
       [] c.which \in {"cfin", "sfin"} ->
            [k |-> "prf", which |-> c.which, hash |-> c.hash, handshake_hash |-> sh,
             seed |-> SeedFinished(c.which = "cfin", sh), n |-> 12, plan |-> PHashPlan(12, hl)]
       [] c.which = "exporter" ->
            [k |-> "prf", which |-> c.which, hash |-> c.hash, client_random |-> cr, server_random |-> sr,
             label |-> lab, has_context |-> c.ctx >= 0, context |-> ctx,
             seed |-> SeedExporter(lab, cr, sr, c.ctx >= 0, ctx), n |-> c.n, plan |-> PHashPlan(c.n, hl)]
       [] c.which = "pm_psk" ->
            [k |-> "premaster", which |-> c.which, psk |-> Fill(25, c.n), out |-> PremasterPSK(Fill(25, c.n))]
       [] c.which = "pm_ecdhe_psk" ->
            [k |-> "premaster", which |-> c.which, psk |-> Fill(25, c.n), z |-> Fill(26, c.ctx),
             out |-> PremasterEcdhePSK(Fill(26, c.ctx), Fill(25, c.n))]
       [] c.which = "signed_kx" ->
            LET pl == IF c.n = 29 THEN 32 ELSE IF c.n = 23 THEN 65 ELSE 97 IN
            [k |-> "signed_kx", curve |-> c.n, client_random |-> cr, server_random |-> sr,
             public |-> Fill(27, pl), out |-> SignedKeyExchange(cr, sr, c.n, Fill(27, pl))]
PrfOK(c) ==
  LET o == PrfOut(c) IN
  CASE c.which = "master" -> Len(o.seed) = 13 + 64 /\ SubSeq(o.seed, 14, 45) = o.client_random
    [] c.which = "exporter" -> Len(o.seed) = Len(o.label) + 64 + (IF c.ctx >= 0 THEN 2 + c.ctx ELSE 0)
    [] c.which = "pm_psk" -> Len(o.out) = 4 + (2 * c.n)
    [] OTHER -> TRUE

---------------------------------------------------------------------------
(* C10: DTLS 1.2 record protection                                         *)

ESeq == << [epoch |-> 1, seq |-> << 0, 0, 0 >>],
           [epoch |-> 65535, seq |-> << 65535, 65535, 65535 >>],
           [epoch |-> 256, seq |-> << 1, 0, 65535 >>],
           [epoch |-> 2, seq |-> << 0, 1, 0 >>],
           [epoch |-> 1, seq |-> << 0, 0, 1 >>],
           [epoch |-> 0, seq |-> << 43981, 4660, 7 >>] >>

Rec12Cases ==
  LET A == [suite : 1..Len(Suites12), cid : -1..8, es : IF Big THEN 1..6 ELSE 1..3,
            plen : IF Big THEN {0, 1, 17} ELSE {0, 17}, zeros : {0, 3}, ctype : {CT_appdata}]
      B == [suite : 1..Len(Suites12), cid : {-1, 4}, es : {3},
            plen : IF Big THEN {0, 1, 15, 16, 31, 32, 255, 256, 1200} ELSE {15, 16, 255, 256, 1200},
            zeros : {0, 16}, ctype : {CT_handshake, CT_alert, CT_appdata}]
  IN {c \in A \cup B : c.cid < 0 => c.zeros = 0}

Rec12Out(c) ==
  LET s == Suites12[c.suite]
      useCid == c.cid >= 0
      cid == IF useCid THEN Fill(31, c.cid) ELSE <<>>
      epoch == ESeq[c.es].epoch
      seq == ESeq[c.es].seq
      content == Fill(32 + c.plen, c.plen)
      plain == IF useCid THEN EncInner([content |-> content, type |-> c.ctype, zeros |-> c.zeros]) ELSE content
      otype == IF useCid THEN CT_cid ELSE c.ctype
      iv == Fill(33, s.iv)
      explicit == ExplicitNonce(epoch, seq)
      hdr(l) == EncHdr12([type |-> otype, ver |-> V12, epoch |-> epoch, seq |-> seq, cid |-> cid, len |-> l])
  IN [k |-> "rec12", suite |-> s.name, kind |-> s.kind, tag |-> s.tag, maclen |-> s.mac, mach |-> s.mach,
      keylen |-> s.key, epoch |-> epoch, seq |-> seq, ctype |-> c.ctype, use_cid |-> useCid, cid |-> cid,
      content |-> content, zeros |-> c.zeros, iv |-> iv,
      plain |-> plain, record_type |-> otype,
      hdr_plain |-> hdr(Len(plain)),
      frag_len |-> FragLen(s, Len(plain)),
      hdr_out |-> hdr(FragLen(s, Len(plain))),
      aad |-> IF s.kind = "cbc" THEN <<>>
              ELSE IF useCid THEN AADCID(epoch, seq, V12, cid, Len(plain))
              ELSE AAD12(epoch, seq, c.ctype, V12, Len(plain)),
      explicit |-> IF s.kind \in {"gcm", "ccm"} THEN explicit ELSE <<>>,
      nonce |-> CASE s.kind \in {"gcm", "ccm"} -> NonceExplicit(iv, explicit)
                  [] s.kind = "chacha" -> NonceXor(iv, << epoch >> \o seq)
                  [] OTHER -> <<>>,
      mac_input |-> IF s.kind # "cbc" THEN <<>>
                    ELSE IF useCid THEN MacInputCID(epoch, seq, V12, cid, plain)
                    ELSE MacInput12(epoch, seq, c.ctype, V12, plain),
      pads |-> IF s.kind = "cbc" THEN CbcPads(Len(plain) + s.mac) ELSE {},
      min_pad |-> IF s.kind = "cbc" THEN CbcMinPad(Len(plain) + s.mac) ELSE 0]

Rec12OK(c) ==
  LET o == Rec12Out(c)
      d == DecHdr12(o.hdr_out, IF c.cid < 0 THEN 0 ELSE c.cid)
  IN /\ d.ok /\ d.used = Len(o.hdr_out) /\ d.h.len = o.frag_len /\ d.h.cid = o.cid
     /\ d.h.epoch = o.epoch /\ d.h.seq = o.seq /\ d.h.type = o.record_type
     /\ o.use_cid => LET p == DecInner(o.plain) IN
                     p.ok /\ p.h.content = o.content /\ p.h.type = o.ctype /\ p.h.zeros = o.zeros
     /\ o.kind # "cbc" => /\ Len(o.nonce) = 12
                          /\ Len(o.aad) = (IF o.use_cid THEN 23 + Len(o.cid) ELSE 13)
                          /\ N16(o.aad, Len(o.aad) - 1) = Len(o.plain)
     /\ o.kind = "cbc" => /\ (Len(o.plain) + o.maclen + o.min_pad + 1) % 16 = 0
                          /\ o.min_pad \in o.pads /\ o.min_pad < 16
                          /\ o.frag_len % 16 = 0
                          /\ Len(o.mac_input) = (IF o.use_cid THEN 23 + Len(o.cid) ELSE 13) + Len(o.plain)

---------------------------------------------------------------------------
(* C10: DTLS 1.3 HkdfLabel, key schedule, record protection                *)

HkdfLabels == << L_derived, L_chs, L_shs, L_cap, L_sap, L_exp, L_res, L_finished, L_key, L_iv, L_sn, L_upd,
                 L_exporter13, L_exporter_srtp >>
HkdfCases ==
  [which : {"label"}, label : 1..Len(HkdfLabels), ctx : {0, 32, 48}, n : IF Big THEN {1, 12, 16, 32, 48, 100} ELSE {12, 32, 48}]
  \cup [which : {"graph"}, label : {0}, ctx : {0}, n : {0}]
  \cup [which : {"certverify"}, label : {0, 1}, ctx : {32, 48}, n : {0}]

HkdfOut(c) ==
  CASE c.which = "label" ->
         LET ctx == Fill(41, c.ctx) IN
         [k |-> "hkdf_label", label |-> HkdfLabels[c.label], context |-> ctx, n |-> c.n,
          info |-> HkdfLabel(c.n, HkdfLabels[c.label], ctx),
          plan32 |-> ExpandPlan(c.n, 32), plan48 |-> ExpandPlan(c.n, 48)]
    [] c.which = "graph" ->
         [k |-> "ks_graph", schedule |-> KeySchedule, traffic_keys |-> TrafficKeys, exporter |-> Exporter13]
    [] c.which = "certverify" ->
         [k |-> "certverify", client |-> c.label = 1, transcript_hash |-> Fill(42, c.ctx),
          out |-> CertVerifyInput(c.label = 1, Fill(42, c.ctx))]
HkdfOK(c) ==
  c.which = "label" =>
    LET o == HkdfOut(c) IN
    /\ N16(o.info, 1) = c.n
    /\ o.info[3] = 6 + Len(o.label)
    /\ SubSeq(o.info, 4, 9) = P_dtls13
    /\ Len(o.info) = 2 + 1 + 6 + Len(o.label) + 1 + c.ctx

Seq64 == << << 0, 0, 0, 0 >>, << 0, 0, 0, 255 >>, << 0, 0, 0, 256 >>, << 0, 0, 1, 0 >>,
            << 0, 65535, 65535, 65535 >>, << 0, 4660, 22136, 39612 >> >>
Rec13Cases ==
  LET A == [suite : 1..3, cid : IF Big THEN 0..8 ELSE {0, 1, 4, 8}, s : BOOLEAN, l : BOOLEAN, epoch : {2, 3, 4, 5},
            sq : IF Big THEN 1..6 ELSE {1, 3, 5, 6}, plen : {0, 17}, zeros : {0, 5}, ctype : {CT_appdata}]
      B == [suite : 1..3, cid : {0, 4}, s : {TRUE}, l : {TRUE}, epoch : {3},
            sq : {6}, plen : IF Big THEN {0, 1, 15, 16, 255, 256, 1200} ELSE {1, 16, 1200}, zeros : {0, 1},
            ctype : {CT_handshake, CT_alert, CT_ack, CT_appdata}]
  IN A \cup B

Rec13Out(c) ==
  LET s == Suites13[c.suite]
      cid == Fill(51, c.cid)
      seq64 == Seq64[c.sq]
      content == Fill(52 + c.plen, c.plen)
      inner == EncInner([content |-> content, type |-> c.ctype, zeros |-> c.zeros])
      elen == Len(inner) + s.tag
      u == [cid |-> cid, s |-> c.s, seq |-> IF c.s THEN seq64[4] ELSE seq64[4] % 256, l |-> c.l,
            len |-> IF c.l THEN elen ELSE 0, epoch |-> c.epoch % 4]
      iv == Fill(53, 12)
      mask == Fill(54, 16)
      hdr == EncUHdr(u)
  IN [k |-> "rec13", suite |-> s.name, kind |-> s.kind, keylen |-> s.key, hash |-> s.hash, snalg |-> s.snalg,
      epoch |-> c.epoch, seq64 |-> seq64, uhdr |-> u, cid |-> cid, content |-> content, ctype |-> c.ctype,
      zeros |-> c.zeros, iv |-> iv, inner |-> inner, enc_len |-> elen,
      aad |-> AAD13(u), nonce |-> Nonce13(iv, seq64),
      mask |-> mask, masked_hdr |-> ApplySnMask(hdr, c.cid, c.s, mask)]

Rec13OK(c) ==
  LET o == Rec13Out(c)
      d == DecUHdr(o.aad, c.cid)
      m2 == ApplySnMask(o.masked_hdr, c.cid, c.s, o.mask)
  IN /\ d.ok /\ d.used = Len(o.aad) /\ d.h = o.uhdr
     /\ m2 = o.aad
     /\ Len(o.nonce) = 12 /\ Take(o.nonce, 4) = Take(o.iv, 4)
     /\ \A i \in 1..Len(o.aad) : (o.masked_hdr[i] # o.aad[i]) => i \in {2 + c.cid, 3 + c.cid}
     /\ LET p == DecInner(o.inner) IN p.ok /\ p.h.content = o.content /\ p.h.type = o.ctype /\ p.h.zeros = o.zeros

---------------------------------------------------------------------------
(* C18 stage 1: record headers, handshake header, alert, ACK, RRC, inner   *)
(* plaintext, datagram unpacking.  For every abstract value: the encoding, *)
(* and systematically derived variants (every strict prefix, trailing      *)
(* bytes, every byte +-1 which includes every length field +-1), each with *)
(* the result of the specification's decoder:                              *)
(*   d.ok = FALSE          the input is truncated w.r.t. its own declared  *)
(*                         lengths / fixed part: a decoder must reject it  *)
(*   d.ok, d.used = Len    well formed: decodes to d.h                     *)
(*   d.ok, d.used < Len    bytes beyond the declared end: never consumed   *)

Prefixes(b) == [i \in 1..Len(b) |-> Take(b, i - 1)]
Trails(b) == << b \o << 0 >>, b \o << 255, 7 >> >>
Perturb(b, maxpos) ==
  Cat([i \in 1..Min({Len(b), maxpos}) |->
        << [b EXCEPT ![i] = (@ + 1) % 256], [b EXCEPT ![i] = (@ + 255) % 256] >>])
Variants(b, maxpos) == Prefixes(b) \o Trails(b) \o Perturb(b, maxpos)
WithDec(vs, D(_)) == [i \in 1..Len(vs) |-> [b |-> vs[i], d |-> D(vs[i])]]

SeqB == << << 0, 0, 0 >>, << 65535, 65535, 65535 >>, << 1, 2, 3 >> >>

Hdr12Cases == [type : {CT_ccs, CT_alert, CT_handshake, CT_appdata, CT_cid, CT_ack, CT_rrc}, ver : {1, 2},
               epoch : {0, 1, 65535}, sq : 1..3, n : {0, 1, 4, 8}, len : {0, 1, 255, 256, 65535}]
Hdr12Val(c) == [type |-> c.type, ver |-> IF c.ver = 1 THEN V12 ELSE V10, epoch |-> c.epoch, seq |-> SeqB[c.sq],
                cid |-> IF c.type = CT_cid THEN Fill(61, c.n) ELSE <<>>, len |-> c.len]
Hdr12Out(c) ==
  LET h == Hdr12Val(c)  e == EncHdr12(h)  D(b) == DecHdr12(b, c.n) IN
  [k |-> "hdr12", n |-> c.n, val |-> h, enc |-> e, variants |-> WithDec(Variants(e, 0), D)]
Hdr12OK(c) == LET d == DecHdr12(EncHdr12(Hdr12Val(c)), c.n) IN d.ok /\ d.h = Hdr12Val(c) /\ d.used = Len(EncHdr12(Hdr12Val(c)))

UHdrCases == [n : {0, 1, 2, 8}, s : BOOLEAN, l : BOOLEAN, epoch : 0..3, seq : {0, 1, 255, 256, 65535}, len : {0, 16, 65535}]
UHdrVal(c) == [cid |-> Fill(62, c.n), s |-> c.s, seq |-> IF c.s THEN c.seq ELSE c.seq % 256, l |-> c.l,
               len |-> IF c.l THEN c.len ELSE 0, epoch |-> c.epoch]
UHdrOut(c) ==
  LET u == UHdrVal(c)  e == EncUHdr(u)  D(b) == DecUHdr(b, c.n) IN
  [k |-> "uhdr", n |-> c.n, val |-> u, enc |-> e, variants |-> WithDec(Variants(e, 1), D)]
UHdrOK(c) == LET d == DecUHdr(EncUHdr(UHdrVal(c)), c.n) IN d.ok /\ d.h = UHdrVal(c) /\ d.used = Len(EncUHdr(UHdrVal(c)))

HsHdrCases == [type : {1, 2, 11, 20, 255}, length : {0, 1, 255, 256, 65535, 65536, 16777215}, mseq : {0, 1, 65535},
               foff : {0, 1, 16777215}, flen : {0, 256, 16777215}]
HsHdrVal(c) == [type |-> c.type, length |-> c.length, mseq |-> c.mseq, foff |-> c.foff, flen |-> c.flen]
HsHdrOut(c) == LET e == EncHsHdr(HsHdrVal(c)) IN
  [k |-> "hshdr", val |-> HsHdrVal(c), enc |-> e, variants |-> WithDec(Prefixes(e) \o Trails(e), DecHsHdr)]
HsHdrOK(c) == LET d == DecHsHdr(EncHsHdr(HsHdrVal(c))) IN d.ok /\ d.h = HsHdrVal(c)

AlertCases == [level : {0, 1, 2, 255}, desc : {0, 10, 20, 50, 120, 255}]
AlertOut(c) == LET e == EncAlert(c) IN [k |-> "alert", val |-> c, enc |-> e, variants |-> WithDec(Variants(e, 0), DecAlert)]
AlertOK(c) == DecAlert(EncAlert(c)).h = c

RecNumB == << [epoch |-> << 0, 0, 0, 0 >>, seq |-> << 0, 0, 0, 0 >>],
              [epoch |-> << 0, 0, 0, 2 >>, seq |-> << 0, 0, 0, 1 >>],
              [epoch |-> << 65535, 65535, 65535, 65535 >>, seq |-> << 65535, 65535, 65535, 65535 >>],
              [epoch |-> << 0, 0, 0, 3 >>, seq |-> << 0, 65535, 0, 258 >>] >>
AckCases == UNION {[1..n -> 1..4] : n \in 0..3}
AckVal(c) == [i \in 1..Len(c) |-> RecNumB[c[i]]]
AckOut(c) == LET e == EncAck(AckVal(c)) IN
  [k |-> "ack", val |-> AckVal(c), enc |-> e, variants |-> WithDec(Variants(e, 4), DecAck)]
AckOK(c) == LET d == DecAck(EncAck(AckVal(c))) IN d.ok /\ d.h = AckVal(c) /\ d.used = 2 + (16 * Len(c))

RrcCases == [type : {0, 1, 2}, f : {1, 2}]
RrcVal(c) == [type |-> c.type, cookie |-> Fill(63 + c.f, 8)]
RrcOut(c) == LET e == EncRrc(RrcVal(c)) IN
  [k |-> "rrc", val |-> RrcVal(c), enc |-> e, variants |-> WithDec(Prefixes(e) \o Trails(e), DecRrc)]
RrcOK(c) == DecRrc(EncRrc(RrcVal(c))).h = RrcVal(c)

InnerCases == [clen : {0, 1, 5, 40}, tz : {0, 2}, type : {1, 20, 21, 22, 23, 26, 27, 255}, zeros : {0, 1, 4, 300}]
\* tz: number of zero bytes the content itself ends with (they must not be stripped)
InnerVal(c) == [content |-> FillNZ(66, c.clen) \o Rep(0, c.tz), type |-> c.type, zeros |-> c.zeros]
InnerOut(c) == LET e == EncInner(InnerVal(c)) IN
  [k |-> "inner", val |-> InnerVal(c), enc |-> e,
   variants |-> WithDec(<< Rep(0, Len(e)), <<>>, Take(e, c.clen + c.tz), e \o << 0 >> >>, DecInner)]
InnerOK(c) == LET d == DecInner(EncInner(InnerVal(c))) IN d.ok /\ d.h = InnerVal(c)

\* whole DTLSPlaintext records (RFC 6347 4.1: header + fragment of the DECLARED length) as RecordLayer.Unmarshal takes them:
\* the fragment is exactly the len bytes behind the header - bytes beyond it belong to the next record, fewer bytes are a
\* truncation.  Bodies: change_cipher_spec (1 byte, value 1), alert (2 bytes), application data (any length, 0 included)
Plain12Cases == [type : {CT_ccs, CT_alert, CT_appdata}, blen : {0, 1, 2, 5}, epoch : {0, 1}]
Plain12Body(c) == IF c.type = CT_ccs THEN << 1 >> ELSE IF c.type = CT_alert THEN << 2, 40 >> ELSE FillNZ(70, c.blen)
Plain12Val(c) == [hdr |-> [type |-> c.type, ver |-> V12, epoch |-> c.epoch, seq |-> SeqB[3], cid |-> <<>>, len |-> Len(Plain12Body(c))],
                  body |-> Plain12Body(c)]
EncPlain12(r) == EncHdr12(r.hdr) \o r.body
BodyOK(t, body) == CASE t = CT_ccs -> body = << 1 >>
                     [] t = CT_alert -> Len(body) = 2
                     [] t = CT_appdata -> TRUE
                     [] OTHER -> FALSE
DecPlain12(b) ==
  LET d == DecHdr12(b, 0) IN
  IF ~d.ok THEN Reject
  ELSE IF Broken = "plain_ignores_len"          \* the pinned tree: everything behind the header is the fragment
       THEN LET body == SubSeq(b, 14, Len(b)) IN
            IF ~BodyOK(d.h.type, body) THEN Reject ELSE [ok |-> TRUE, used |-> Len(b), h |-> [hdr |-> d.h, body |-> body]]
  ELSE IF Len(b) - 13 < d.h.len THEN Reject
  ELSE LET body == SubSeq(b, 14, 13 + d.h.len) IN
       IF ~BodyOK(d.h.type, body) THEN Reject
       ELSE [ok |-> TRUE, used |-> 13 + d.h.len, h |-> [hdr |-> d.h, body |-> body]]
Plain12Out(c) == LET e == EncPlain12(Plain12Val(c)) IN
  [k |-> "plain12", val |-> Plain12Val(c), enc |-> e, variants |-> WithDec(Prefixes(e) \o Trails(e), DecPlain12)]
Plain12OK(c) == LET e == EncPlain12(Plain12Val(c))  d == DecPlain12(e) IN
  /\ d.ok /\ d.h = Plain12Val(c) /\ d.used = Len(e)
  /\ \A i \in 1..Len(e) : ~DecPlain12(Take(e, i - 1)).ok          \* every truncation is refused
  /\ LET t == DecPlain12(e \o << 0 >>) IN t.ok /\ t.h = Plain12Val(c)   \* trailing bytes never reach the value

\* whole handshake messages as Handshake.Unmarshal takes them (RFC 6347 4.2.2): a COMPLETE message in one piece, i.e.
\* fragment_offset = 0 and fragment_length = length = the bytes behind the 12-byte header.  A header that claims the piece
\* starts at a non-zero offset yet carries length bytes declares more than the message holds (and the value could not be
\* re-encoded: the encoder writes complete messages only).  Body: Finished (opaque verify_data)
Hs12Cases == [vlen : {0, 12, 32}, mseq : {0, 3, 65535}]
Hs12Val(c) == [hdr |-> [type |-> 20, length |-> c.vlen, mseq |-> c.mseq, foff |-> 0, flen |-> c.vlen], body |-> FillNZ(71, c.vlen)]
EncHs12(m) == EncHsHdr(m.hdr) \o m.body
DecHs12(b) ==
  LET d == DecHsHdr(b) IN
  IF ~d.ok THEN Reject
  ELSE IF Len(b) - 12 # d.h.length \/ d.h.flen # d.h.length THEN Reject
  ELSE IF d.h.foff # 0 /\ Broken # "hs_any_offset" THEN Reject
  ELSE [ok |-> TRUE, used |-> Len(b), h |-> [hdr |-> d.h, body |-> SubSeq(b, 13, Len(b))]]
Hs12Offsets(e) == << [e EXCEPT ![9] = 5], [e EXCEPT ![7] = 1], [e EXCEPT ![8] = 255, ![9] = 255] >>
Hs12Out(c) == LET e == EncHs12(Hs12Val(c)) IN
  [k |-> "hs12", val |-> Hs12Val(c), enc |-> e, variants |-> WithDec(Prefixes(e) \o Trails(e) \o Hs12Offsets(e), DecHs12)]
\* whatever the decoder accepts is the encoding of the value it returns (so it can be re-encoded to the same bytes)
Hs12OK(c) == LET e == EncHs12(Hs12Val(c))  d == DecHs12(e) IN
  /\ d.ok /\ d.h = Hs12Val(c)
  /\ \A i \in 1..3 : LET x == DecHs12(Hs12Offsets(e)[i]) IN x.ok => EncHs12([hdr |-> [x.h.hdr EXCEPT !.foff = 0], body |-> x.h.body]) = Hs12Offsets(e)[i]

\* all byte strings up to a length over an alphabet that hits the type, flag and length fields
Alpha == {0, 1, 2, 21, 25, 47, 63, 255}
StrCases == UNION {[1..n -> Alpha] : n \in 0..(IF Big THEN 5 ELSE 4)}
StrOut(b) ==
  [k |-> "str", b |-> b, alert |-> DecAlert(b), ack |-> DecAck(b), rrc |-> DecRrc(b), inner |-> DecInner(b),
   uhdr0 |-> DecUHdr(b, 0), uhdr1 |-> DecUHdr(b, 1), uhdr2 |-> DecUHdr(b, 2), hdr12 |-> DecHdr12(b, 0), hshdr |-> DecHsHdr(b),
   unpack |-> Unpack(b), unpackcid |-> UnpackCID(b, 1),
   unpack13 |-> Unpack13(b, 0, FALSE, TRUE), unpack13cid |-> Unpack13(b, 1, TRUE, TRUE)]
StrOK(b) == Partitions(b, Unpack(b)) /\ Partitions(b, UnpackCID(b, 1)) /\ Partitions(b, Unpack13(b, 1, TRUE, TRUE))

\* datagrams of legacy records: up to 3 records (type, body length), connection-id length n
RecDesc12 == [type : {CT_handshake, CT_appdata, CT_cid}, blen : IF Big THEN {0, 1, 2, 300} ELSE {0, 1, 2, 40}]
Dgram12Cases == [n : {0, 3}, recs : UNION {[1..m -> RecDesc12] : m \in 1..(IF Big THEN 3 ELSE 2)}]
RECURSIVE BuildDgram12(_, _, _)
BuildDgram12(recs, n, i) ==
  IF recs = <<>> THEN <<>>
  ELSE LET r == Head(recs)
           cid == IF r.type = CT_cid THEN Fill(70 + i, n) ELSE <<>>
       IN EncHdr12([type |-> r.type, ver |-> V12, epoch |-> 1, seq |-> << 0, 0, i >>, cid |-> cid, len |-> r.blen])
          \o Fill(80 + i, r.blen) \o BuildDgram12(Tail(recs), n, i + 1)
\* positions of the low length byte of each record header
RECURSIVE LenPos12(_, _, _)
LenPos12(recs, n, at) ==
  IF recs = <<>> THEN <<>>
  ELSE LET hs == 13 + (IF Head(recs).type = CT_cid THEN n ELSE 0) IN
       << at + hs >> \o LenPos12(Tail(recs), n, at + hs + Head(recs).blen)
Dgram12Out(c) ==
  LET d == BuildDgram12(c.recs, c.n, 1)
      lp == LenPos12(c.recs, c.n, 0)
      lens == Cat([i \in 1..Len(lp) |-> << [d EXCEPT ![lp[i]] = (@ + 1) % 256], [d EXCEPT ![lp[i]] = (@ + 255) % 256] >>])
      vs == << d >> \o Trails(d) \o lens
      D0(b) == Unpack(b)
      Dn(b) == UnpackCID(b, c.n)
  IN \* prefix0/prefixn[i] = result for the first i-1 bytes of d (every truncation)
     [k |-> "dgram12", n |-> c.n, recs |-> c.recs, d |-> d,
      prefix0 |-> [i \in 1..Len(d) |-> Unpack(Take(d, i - 1))],
      prefixn |-> [i \in 1..Len(d) |-> UnpackCID(Take(d, i - 1), c.n)],
      plain |-> WithDec(vs, D0), cid |-> WithDec(vs, Dn)]
Dgram12OK(c) ==
  LET d == BuildDgram12(c.recs, c.n, 1)
      r == UnpackCID(d, c.n)
  IN /\ r.ok /\ Len(r.recs) = Len(c.recs) /\ Partitions(d, r)
     /\ \A i \in 1..Len(d) : Partitions(Take(d, i), UnpackCID(Take(d, i), c.n)) /\ Partitions(Take(d, i), Unpack(Take(d, i)))
     /\ \A i \in 0..(Len(d) - 1) : ~UnpackCID(Take(d, i), c.n).ok \/ \E m \in 0..Len(c.recs) : Len(UnpackCID(Take(d, i), c.n).recs) = m /\ m < Len(c.recs)

\* DTLS 1.3 datagrams: plaintext records and ciphertext records
RecDesc13 == [kind : {"plain"}, type : {CT_handshake, CT_ack}, blen : {0, 1, 20}, c : {FALSE}, s : {TRUE}, l : {TRUE}, cidv : {0}]
             \cup [kind : {"cipher"}, type : {0}, blen : IF Big THEN {15, 16, 40} ELSE {15, 16},
                   c : BOOLEAN, s : IF Big THEN BOOLEAN ELSE {TRUE}, l : BOOLEAN, cidv : {0, 1}]
Dgram13Cases == [n : {0, 2}, req : BOOLEAN, cte : BOOLEAN, recs : UNION {[1..m -> RecDesc13] : m \in 1..2}]
RECURSIVE BuildDgram13(_, _, _)
BuildDgram13(recs, n, i) ==
  IF recs = <<>> THEN <<>>
  ELSE LET r == Head(recs) IN
       (IF r.kind = "plain"
        THEN EncHdr12([type |-> r.type, ver |-> V12, epoch |-> 0, seq |-> << 0, 0, i >>, cid |-> <<>>, len |-> r.blen])
        ELSE EncUHdr([cid |-> IF r.c THEN Fill(90 + r.cidv, n) ELSE <<>>, s |-> r.s, seq |-> 7 + i, l |-> r.l,
                      len |-> IF r.l THEN r.blen ELSE 0, epoch |-> 3]))
       \o Fill(95 + i, r.blen) \o BuildDgram13(Tail(recs), n, i + 1)
Dgram13Out(c) ==
  LET d == BuildDgram13(c.recs, c.n, 1)
      vs == << d >> \o Trails(d) \o Perturb(d, 4)
      D(b) == Unpack13(b, c.n, c.req, c.cte)
  IN [k |-> "dgram13", n |-> c.n, req |-> c.req, cte |-> c.cte, recs |-> c.recs, d |-> d,
      prefix |-> [i \in 1..Len(d) |-> Unpack13(Take(d, i - 1), c.n, c.req, c.cte)],
      variants |-> WithDec(vs, D)]
Dgram13OK(c) ==
  LET d == BuildDgram13(c.recs, c.n, 1) IN
  \A i \in 0..Len(d) : Partitions(Take(d, i), Unpack13(Take(d, i), c.n, c.req, c.cte))

---------------------------------------------------------------------------
(* C18 stages 2 and 3: handshake bodies and extension payloads (CodecMsg)  *)

R32 == Fill(101, 32)
SuiteA == << 192, 43 >>
SuiteB == << 192, 43, 192, 174, 0, 168 >>
E_ems    == << << 0, 23 >>, <<>> >>
E_groups == << << 0, 10 >>, << 0, 4, 0, 29, 0, 23 >> >>
E_sigalg == << << 0, 13 >>, << 0, 4, 4, 3, 8, 4 >> >>
E_reneg  == << << 255, 1 >>, << 0 >> >>
E_alpn   == << << 0, 16 >>, << 0, 3, 2, 104, 50 >> >>
E_sv_ch  == << << 0, 43 >>, << 2, 254, 252 >> >>
E_sv_sh  == << << 0, 43 >>, << 254, 252 >> >>
E_ks_ch  == << << 0, 51 >>, << 0, 36, 0, 29, 0, 32 >> \o Fill(102, 32) >>
E_ks_sh  == << << 0, 51 >>, << 0, 29, 0, 32 >> \o Fill(103, 32) >>
E_med    == << << 0, 42 >>, << 0, 0, 4, 0 >> >>
OptExts(items) == << << items >> >>
SigAlg == << 4, 3 >>

MsgVals == [
  client_hello |-> <<
    \* (a ClientHello without an extensions block is legal TLS but outside what the library sends or takes)
    << V12, R32, <<>>, <<>>, SuiteA, << 0 >>, OptExts(<<>>) >>,
    << V12, R32, Fill(104, 32), Fill(105, 255), SuiteB, << 0 >>, OptExts(<< E_ems, E_groups, E_sigalg >>) >>,
    << V12, R32, << 7 >>, << 9 >>, SuiteA, << 0 >>, OptExts(<< E_reneg >>) >>,
    << V12, R32, <<>>, Fill(105, 20), SuiteB, << 0 >>, OptExts(<< E_sv_ch, E_groups, E_sigalg, E_ks_ch >>) >> >>,
  server_hello |-> <<
    << V12, R32, <<>>, SuiteA, << 0 >>, <<>> >>,
    << V12, R32, Fill(104, 32), SuiteA, << 0 >>, OptExts(<< E_ems, E_reneg >>) >>,
    << V12, R32, << 1 >>, SuiteA, << 0 >>, OptExts(<<>>) >>,
    << V12, R32, <<>>, << 19, 1 >>, << 0 >>, OptExts(<< E_sv_sh, E_ks_sh >>) >> >>,
  hello_verify_request |-> << << V12, <<>> >>, << V12, << 1 >> >>, << V12, Fill(105, 20) >>, << V12, Fill(105, 255) >> >>,
  certificate |-> << << <<>> >>, << << << Fill(106, 1) >> >> >>, << << << Fill(106, 300) >>, << Fill(107, 2) >> >> >> >>,
  ske_ecdhe |-> << << << 3 >>, << 0, 29 >>, Fill(108, 32), << << SigAlg, Fill(109, 70) >> >> >>,
                   << << 3 >>, << 0, 23 >>, Fill(108, 65), << << SigAlg, Fill(109, 1) >> >> >>,
                   << << 3 >>, << 0, 29 >>, Fill(108, 32), <<>> >>,
                   << << 3 >>, << 0, 29 >>, Fill(108, 255), << << SigAlg, Fill(109, 256) >> >> >> >>,
  ske_psk |-> << << <<>> >>, << << 104 >> >>, << Fill(110, 300) >> >>,
  ske_ecdhe_psk |-> << << <<>>, << 3 >>, << 0, 29 >>, Fill(108, 32) >>, << Fill(110, 9), << 3 >>, << 0, 23 >>, Fill(108, 65) >> >>,
  cke_ecdhe |-> << << Fill(111, 32) >>, << Fill(111, 1) >>, << Fill(111, 255) >> >>,
  cke_psk |-> << << <<>> >>, << << 105 >> >>, << Fill(112, 300) >> >>,
  cke_ecdhe_psk |-> << << <<>>, Fill(111, 32) >>, << Fill(112, 9), Fill(111, 65) >>, << Fill(112, 256), Fill(111, 1) >> >>,
  certificate_request |-> << << << 64 >>, SigAlg, <<>> >>,
                             << << 1, 64 >>, << 4, 3, 8, 4 >>, << << Fill(113, 1) >> >> >>,
                             << << 64 >>, SigAlg, << << Fill(113, 40) >>, << Fill(114, 300) >> >> >> >>,
  certificate_verify |-> << << SigAlg, <<>> >>, << SigAlg, Fill(115, 1) >>, << SigAlg, Fill(115, 70) >>, << << 8, 4 >>, Fill(115, 256) >> >>,
  finished |-> << << <<>> >>, << Fill(116, 12) >>, << Fill(116, 32) >>, << Fill(116, 48) >> >>,
  server_hello_done |-> << <<>> >>,
  key_update |-> << << << 0 >> >>, << << 1 >> >> >>,
  new_session_ticket |-> << << << 0, 0, 14, 16 >>, Fill(117, 4), <<>>, << 5 >>, <<>> >>,
                            << << 0, 9, 58, 128 >>, Fill(117, 4), Fill(118, 8), Fill(119, 32), << E_med >> >>,
                            << << 0, 0, 0, 0 >>, Fill(117, 4), Fill(118, 255), Fill(119, 300), <<>> >> >>,
  encrypted_extensions |-> << << <<>> >>, << << E_groups >> >>, << << E_alpn, E_groups >> >> >>,
  certificate13 |-> << << <<>>, <<>> >>,
                       << <<>>, << << Fill(106, 1), <<>> >> >> >>,
                       << Fill(120, 4), << << Fill(106, 300), <<>> >>, << Fill(107, 2), <<>> >> >> >> >>,
  certificate_request13 |-> << << <<>>, << E_sigalg >> >>, << Fill(120, 255), << E_sigalg >> >>, << << 1 >>, << E_sigalg >> >> >>
]

Name(n) == << 0 >> \o U16(n) \o FillNZ(121, n)   \* host_name entry body: type 0, HostName
ExtVals == [
  supported_groups |-> << << << 0, 29 >> >>, << << 0, 29, 0, 23, 0, 24 >> >> >>,
  ec_point_formats |-> << << << 0 >> >>, << << 0, 1, 2 >> >> >>,
  signature_algorithms |-> << << SigAlg >>, << << 4, 3, 8, 4, 4, 1 >> >> >>,
  signature_algorithms_cert |-> << << SigAlg >>, << << 4, 3, 8, 4 >> >> >>,
  use_srtp_offer |-> << << << 0, 1 >>, <<>> >>, << << 0, 1, 0, 7 >>, Fill(122, 4) >>, << << 0, 7 >>, Fill(122, 255) >> >>,
  use_srtp_selection |-> << << << 0, 1 >>, <<>> >>, << << 0, 7 >>, Fill(122, 4) >> >>,
  alpn_offer |-> << << << << << 104, 50 >> >> >> >>, << << << << 104, 50 >> >>, << S(<< "w", "e", "b", "r", "t", "c" >>) >>, << FillNZ(123, 255) >> >> >> >>,
  alpn_selection |-> << << << << << 104, 50 >> >> >> >>, << << << FillNZ(123, 255) >> >> >> >>,
  \* third value: an entry of a name type other than host_name whose opaque body is shaped like a host_name entry (RFC 6066:
  \* unknown name types are skipped by their declared length) before a host_name entry.  (A list without any host_name
  \* entry is refused by the library; that is its right.)
  server_name_offer |-> << << << << << 0 >>, S(<< "a" >>) >> >> >>, << << << << 0 >>, S(<< "s", "e", "r", "v", "e", "r", ".", "l", "a", "b" >>) >> >> >>,
                           << << << << 7 >>, << 0, 0, 4, 101, 118, 105, 108 >> >>, << << 0 >>, S(<< "a" >>) >> >> >> >>,
  server_name_ack |-> << <<>> >>,
  extended_master_secret |-> << <<>> >>,
  rrc |-> << <<>> >>,
  post_handshake_auth |-> << <<>> >>,
  early_data |-> << <<>> >>,
  max_early_data |-> << << << 0, 0, 0, 0 >> >>, << << 255, 255, 255, 255 >> >> >>,
  \* (only the empty renegotiated_connection of an initial handshake: the library does not renegotiate)
  renegotiation_info |-> << << <<>> >> >>,
  connection_id |-> << << <<>> >>, << Fill(125, 1) >>, << Fill(125, 8) >>, << Fill(125, 255) >> >>,
  supported_versions_ch |-> << << << 254, 252 >> >>, << << 254, 252, 254, 253 >> >> >>,
  supported_versions_sh |-> << << << 254, 252 >> >> >>,
  cookie |-> << << Fill(126, 1) >>, << Fill(126, 32) >>, << Fill(126, 300) >> >>,
  key_share_ch |-> << << <<>> >>, << << << << 0, 29 >>, Fill(127, 32) >> >> >>,
                      << << << << 0, 29 >>, Fill(127, 32) >>, << << 0, 23 >>, Fill(128, 65) >> >> >> >>,
  key_share_sh |-> << << << 0, 29 >>, Fill(127, 32) >>, << << 0, 23 >>, Fill(128, 65) >> >>,
  key_share_hrr |-> << << << 0, 29 >> >>, << << 0, 23 >> >> >>,
  psk_key_exchange_modes |-> << << << 1 >> >>, << << 1, 0 >> >> >>,
  pre_shared_key_ch |-> << << << << Fill(129, 1), Fill(130, 4) >> >>, << << Fill(131, 32) >> >> >>,
                           << << << Fill(129, 40), Fill(130, 4) >>, << Fill(132, 300), Fill(130, 4) >> >>,
                              << << Fill(131, 32) >>, << Fill(133, 48) >> >> >> >>,
  pre_shared_key_sh |-> << << << 0, 0 >> >>, << << 0, 1 >> >> >>,
  certificate_authorities |-> << << << << Fill(134, 1) >> >> >>, << << << Fill(134, 40) >>, << Fill(135, 300) >> >> >> >>,
  oid_filters |-> << << <<>> >>, << << << Fill(136, 3), <<>> >> >> >>, << << << Fill(136, 3), Fill(137, 5) >>, << Fill(138, 9), Fill(137, 300) >> >> >> >>
]

MsgCases == UNION {{[name |-> nm, i |-> j] : j \in 1..Len(MsgVals[nm])} : nm \in DOMAIN MsgVals}
ExtCases == UNION {{[name |-> nm, i |-> j] : j \in 1..Len(ExtVals[nm])} : nm \in DOMAIN ExtVals}
GOut(kind, gram, vals, c) ==
  LET g == gram[c.name]
      e == EncG(g, vals[c.name][c.i])
      D(b) == DecG(g, b)
  IN [k |-> kind, msg |-> c.name, i |-> c.i, enc |-> e, variants |-> WithDec(Variants(e, IF Big THEN 128 ELSE 64), D)]
MsgOut(c) == GOut("msg", MsgGrammar, MsgVals, c)
ExtOut(c) == GOut("ext", ExtGrammar, ExtVals, c)
MsgOK(c) == RoundTripG(MsgGrammar[c.name], MsgVals[c.name][c.i])
ExtOK(c) == RoundTripG(ExtGrammar[c.name], ExtVals[c.name][c.i])

---------------------------------------------------------------------------
Cases ==
  CASE Mode = "suite12" -> SuiteCases
    [] Mode = "suite13" -> Suite13Cases
    [] Mode = "prf" -> PrfCases
    [] Mode = "rec12" -> Rec12Cases
    [] Mode = "hkdf" -> HkdfCases
    [] Mode = "rec13" -> Rec13Cases
    [] Mode = "hdr12" -> Hdr12Cases
    [] Mode = "uhdr" -> UHdrCases
    [] Mode = "hs12" -> Hs12Cases
    [] Mode = "plain12" -> Plain12Cases
    [] Mode = "hshdr" -> HsHdrCases
    [] Mode = "alert" -> AlertCases
    [] Mode = "ack" -> AckCases
    [] Mode = "rrc" -> RrcCases
    [] Mode = "inner" -> InnerCases
    [] Mode = "str" -> StrCases
    [] Mode = "dgram12" -> Dgram12Cases
    [] Mode = "dgram13" -> Dgram13Cases
    [] Mode = "msg" -> MsgCases
    [] Mode = "ext" -> ExtCases

Out(c) ==
  CASE Mode = "suite12" -> SuiteOut(c)
    [] Mode = "suite13" -> Suite13Out(c)
    [] Mode = "prf" -> PrfOut(c)
    [] Mode = "rec12" -> Rec12Out(c)
    [] Mode = "hkdf" -> HkdfOut(c)
    [] Mode = "rec13" -> Rec13Out(c)
    [] Mode = "hdr12" -> Hdr12Out(c)
    [] Mode = "uhdr" -> UHdrOut(c)
    [] Mode = "hs12" -> Hs12Out(c)
    [] Mode = "plain12" -> Plain12Out(c)
    [] Mode = "hshdr" -> HsHdrOut(c)
    [] Mode = "alert" -> AlertOut(c)
    [] Mode = "ack" -> AckOut(c)
    [] Mode = "rrc" -> RrcOut(c)
    [] Mode = "inner" -> InnerOut(c)
    [] Mode = "str" -> StrOut(c)
    [] Mode = "dgram12" -> Dgram12Out(c)
    [] Mode = "dgram13" -> Dgram13Out(c)
    [] Mode = "msg" -> MsgOut(c)
    [] Mode = "ext" -> ExtOut(c)

OK(c) ==
  CASE Mode = "suite12" -> SuiteOK(c)
    [] Mode = "suite13" -> TRUE
    [] Mode = "prf" -> PrfOK(c)
    [] Mode = "rec12" -> Rec12OK(c)
    [] Mode = "hkdf" -> HkdfOK(c)
    [] Mode = "rec13" -> Rec13OK(c)
    [] Mode = "hdr12" -> Hdr12OK(c)
    [] Mode = "uhdr" -> UHdrOK(c)
    [] Mode = "hs12" -> Hs12OK(c)
    [] Mode = "plain12" -> Plain12OK(c)
    [] Mode = "hshdr" -> HsHdrOK(c)
    [] Mode = "alert" -> AlertOK(c)
    [] Mode = "ack" -> AckOK(c)
    [] Mode = "rrc" -> RrcOK(c)
    [] Mode = "inner" -> InnerOK(c)
    [] Mode = "str" -> StrOK(c)
    [] Mode = "dgram12" -> Dgram12OK(c)
    [] Mode = "dgram13" -> Dgram13OK(c)
    [] Mode = "msg" -> MsgOK(c)
    [] Mode = "ext" -> ExtOK(c)

Init == v \in Cases
Next == UNCHANGED v
Emit == PrintT(ToJson(Out(v)))
Consistent == OK(v)
===========================================================================
