"""Cipher-suite x header-layout scenario table shared by C05 / C07 / C09 / C19 / C10."""
SUITES12 = [("TLS_ECDHE_ECDSA_WITH_AES_128_GCM_SHA256", "cert"), ("TLS_ECDHE_ECDSA_WITH_AES_256_GCM_SHA384", "cert"),
            ("TLS_ECDHE_ECDSA_WITH_AES_128_CCM", "cert"), ("TLS_ECDHE_ECDSA_WITH_AES_128_CCM_8", "cert"),
            ("TLS_ECDHE_ECDSA_WITH_AES_256_CBC_SHA", "cert"), ("TLS_ECDHE_ECDSA_WITH_CHACHA20_POLY1305_SHA256", "cert"),
            ("TLS_ECDHE_RSA_WITH_AES_128_GCM_SHA256", "rsa"), ("TLS_ECDHE_RSA_WITH_AES_256_GCM_SHA384", "rsa"),
            ("TLS_ECDHE_RSA_WITH_AES_256_CBC_SHA", "rsa"), ("TLS_ECDHE_RSA_WITH_CHACHA20_POLY1305_SHA256", "rsa"),
            ("TLS_PSK_WITH_AES_128_CCM", "psk"), ("TLS_PSK_WITH_AES_128_CCM_8", "psk"), ("TLS_PSK_WITH_AES_256_CCM_8", "psk"),
            ("TLS_PSK_WITH_AES_128_GCM_SHA256", "psk"), ("TLS_PSK_WITH_AES_128_CBC_SHA256", "psk"),
            ("TLS_PSK_WITH_CHACHA20_POLY1305_SHA256", "psk"), ("TLS_ECDHE_PSK_WITH_AES_128_CBC_SHA256", "ecdhepsk")]
SUITES13 = ["TLS_AES_128_GCM_SHA256", "TLS_AES_256_GCM_SHA384", "TLS_CHACHA20_POLY1305_SHA256"]


def record_scenarios(cid13=True):
    """[(name, scen)] : every suite x {no CID, CID 4, CID 8 + padding 16} (1.2) and x {no CID, CID 4} (1.3)."""
    out = []
    for s, a in SUITES12:
        for cid, pad in [(-1, 0), (4, 0), (8, 16)]:
            out.append(("%s/cid%d/pad%d" % (s, cid, pad), dict(ver="12", auth=a, suite=s, cidC=cid, cidS=cid, padding=pad)))
    for s in SUITES13:
        for cid in ((-1, 4) if cid13 else (-1,)):
            out.append(("%s/cid%d" % (s, cid), dict(ver="13", suite=s, cidC=cid, cidS=cid, curvesC=[29], curvesS=[29])))
    return out
