"""Shared machinery of the vcheck driver: building harness binaries from /repo's
working tree, running TLC (model check / generate / trace validation), running
harness tests, evidence and known-findings handling.  Standard library only."""
import glob
import hashlib
import json
import os
import re
import shutil
import subprocess
import sys
import tempfile
import time

VERIF = os.path.dirname(os.path.dirname(os.path.abspath(__file__)))
REPO = os.environ.get("VERIF_REPO", "/repo")
BUILD = os.path.join(VERIF, ".build")
SPEC = os.path.join(VERIF, "spec")
NCPU = os.cpu_count() or 4


class Inconclusive(Exception):
    """The machinery could not reach a verdict (exit 2, never a violation)."""


def log(*a):
    print(*a, file=sys.stderr, flush=True)


def goenv():
    env = dict(os.environ)
    env["GOFLAGS"] = "-mod=mod"
    env["GOPROXY"] = "off"
    env.pop("GOSUMDB", None)
    env["VERIF_ROOT"] = VERIF
    env["VERIF_REPO"] = REPO
    return env


def build(name, race=False):
    """Compile /verif/harness/<name> into the /repo package it belongs to (overlay, tag verif)."""
    os.makedirs(BUILD, exist_ok=True)
    cmd = [os.path.join(VERIF, "driver", "build.sh"), name]
    if race:
        cmd.append("-race")
    t0 = time.time()
    p = subprocess.run(cmd, env=goenv(), stdout=subprocess.PIPE, stderr=subprocess.PIPE, text=True)
    if p.returncode != 0:
        raise Inconclusive("harness build failed for %s:\n%s" % (name, p.stderr[-4000:]))
    out = p.stdout.strip().splitlines()[-1]
    log("[build] %s%s in %.1fs" % (name, " -race" if race else "", time.time() - t0))
    return out


def run_test(binary, test, env=None, timeout=600, args=()):
    """Run one harness test function; returns (returncode, stdout+stderr)."""
    e = goenv()
    e.update({k: str(v) for k, v in (env or {}).items()})
    cmd = [binary, "-test.run", "^" + test + "$", "-test.timeout", "%ds" % (timeout + 30), "-test.v"] + list(args)
    try:
        p = subprocess.run(cmd, env=e, stdout=subprocess.PIPE, stderr=subprocess.STDOUT, text=True,
                           timeout=timeout + 60, cwd=BUILD)
    except subprocess.TimeoutExpired as ex:
        return 124, (ex.stdout or "") if isinstance(ex.stdout, str) else ""
    return p.returncode, p.stdout


def scratch(prefix):
    os.makedirs(BUILD, exist_ok=True)
    return tempfile.mkdtemp(prefix=prefix + ".", dir=BUILD)


# ---------------------------------------------------------------------------
# TLC

_STATES = re.compile(r"^(\d+) states generated, (\d+) distinct states found, (\d+) states left on queue", re.M)
_DEPTH = re.compile(r"The depth of the complete state graph search is (\d+)")
_VIOL_INV = re.compile(r"Error: Invariant (\S+) is violated")
_VIOL_ACT = re.compile(r"Error: Action property (\S+) is violated")
_VIOL_TMP = re.compile(r"Error: Temporal propert(?:y \S+ was|ies were) violated")
_VIOL_POST = re.compile(r"Error: Evaluating (?:post|assumption|invariant).*|is violated|was violated|Assumption .* is false")


class TLCResult:
    def __init__(self, rc, out, wall):
        self.rc, self.out, self.wall = rc, out, wall
        m = _STATES.findall(out)
        self.generated = int(m[-1][0]) if m else 0
        self.distinct = int(m[-1][1]) if m else 0
        d = _DEPTH.findall(out)
        self.depth = int(d[-1]) if d else 0
        self.ok = ("Model checking completed. No error has been found." in out) and rc == 0
        self.inv = _VIOL_INV.findall(out)
        self.actprop = _VIOL_ACT.findall(out)
        self.temporal = bool(_VIOL_TMP.search(out))
        self.errors = [l for l in out.splitlines() if l.startswith("Error:")]
        self.printed = []

    def violated(self):
        return bool(self.inv or self.actprop or self.temporal)

    def summary(self):
        return {"generated": self.generated, "distinct": self.distinct, "depth": self.depth,
                "ok": self.ok, "wall_s": round(self.wall, 2), "errors": self.errors[:5]}


def tlc(module, cfg, workdir=None, workers=None, timeout=900, extra=(), files=(), java_opts=None,
        keep=False, simulate=None, depth=None, seed=None, coverage=False, dfs=False):
    """Run TLC on spec/<module>.tla with spec/cfg/<cfg> inside a scratch copy.
    files: dict name->content of additional files to place in the scratch dir (e.g. trace.ndjson)."""
    wd = workdir or scratch("tlc")
    try:
        for f in glob.glob(os.path.join(SPEC, "*.tla")):
            shutil.copy(f, wd)
        cfgsrc = cfg if os.path.isabs(cfg) else os.path.join(SPEC, "cfg", cfg)
        shutil.copy(cfgsrc, os.path.join(wd, "run.cfg"))
        if isinstance(files, dict):
            for name, content in files.items():
                mode = "wb" if isinstance(content, bytes) else "w"
                with open(os.path.join(wd, name), mode) as fh:
                    fh.write(content)
        cmd = ["timeout", str(timeout), "tlc", "-metadir", os.path.join(wd, "meta"), "-config", "run.cfg",
               "-workers", str(workers or NCPU), "-noGenerateSpecTE"]
        if simulate:
            cmd += ["-simulate", simulate]
        if depth:
            cmd += ["-depth", str(depth)]
        if seed is not None:
            cmd += ["-seed", str(seed)]
        if coverage:
            cmd += ["-coverage", "1"]
        cmd += list(extra) + [module + ".tla"]
        env = dict(os.environ)
        jopts = java_opts or ""
        if dfs:
            jopts += " -Dtlc2.tool.queue.IStateQueue=StateDeque"
        if jopts.strip():
            env["JAVA_TOOL_OPTIONS"] = (env.get("JAVA_TOOL_OPTIONS", "") + " " + jopts).strip()
        t0 = time.time()
        p = subprocess.run(cmd, cwd=wd, env=env, stdout=subprocess.PIPE, stderr=subprocess.STDOUT, text=True)
        res = TLCResult(p.returncode, p.stdout, time.time() - t0)
        if simulate and p.returncode == 0 and not res.errors:
            res.ok = True
        if p.returncode == 124:
            raise Inconclusive("TLC timed out after %ss on %s/%s" % (timeout, module, cfg))
        if "java.lang.OutOfMemoryError" in res.out or "StackOverflowError" in res.out:
            raise Inconclusive("TLC resource failure on %s/%s" % (module, cfg))
        return res
    finally:
        if not keep and not workdir:
            shutil.rmtree(wd, ignore_errors=True)


def tlc_check(module, cfg, **kw):
    """Model check; the model itself must satisfy its formulas (a model counter-example is
    never a violation of the implementation: DESIGN 1.2) -> Inconclusive when it fails."""
    res = tlc(module, cfg, **kw)
    if not res.ok:
        raise Inconclusive("model check %s/%s failed: %s\n%s" % (module, cfg, res.errors[:3], res.out[-3000:]))
    log("[tlc] %s/%s: %d generated, %d distinct, depth %d, %.1fs" %
        (module, cfg, res.generated, res.distinct, res.depth, res.wall))
    return res


def tlc_expect_violation(module, cfg, what, **kw):
    """Sanity of a formula: a deliberately broken configuration must make TLC fail."""
    res = tlc(module, cfg, **kw)
    if res.ok or not res.violated():
        raise Inconclusive("vacuity guard: %s/%s was expected to violate %s but did not" % (module, cfg, what))
    log("[tlc] %s/%s: expected violation of %s reproduced (%s)" % (module, cfg, what, (res.inv + res.actprop)[:2]))
    return res


_PRINTT = re.compile(r'^"?(\{.*\}|\[.*\])"?$')


def tlc_generate(module, cfg, **kw):
    """Run a generation cfg whose constraint PrintT's JSON strings; returns the parsed JSON values."""
    kw.setdefault("workers", 1)
    res = tlc(module, cfg, **kw)
    if not res.ok:
        raise Inconclusive("generation %s/%s failed: %s\n%s" % (module, cfg, res.errors[:3], res.out[-3000:]))
    vals = []
    for line in res.out.splitlines():
        line = line.strip()
        if not line or line[0] not in '"{[':
            continue
        if line.startswith('"') and line.endswith('"'):
            try:
                line = json.loads(line)
            except Exception:
                line = line[1:-1].replace('\\"', '"')
        try:
            vals.append(json.loads(line))
        except Exception:
            pass
    res.printed = vals
    res.out = res.out[-20000:]    # the printed values were parsed: do not keep the raw text (hundreds of MB) alive
    log("[tlc-gen] %s/%s: %d values, %d distinct states, %.1fs" % (module, cfg, len(vals), res.distinct, res.wall))
    return res


def tlc_trace(module, cfg, trace_rows, trace_name="trace.ndjson", **kw):
    """Validate recorded events against a trace spec.  Acceptance is decided by the spec's
    POSTCONDITION / invariants; returns the TLCResult (ok == accepted)."""
    data = "\n".join(json.dumps(r, sort_keys=True) for r in trace_rows) + "\n"
    kw.setdefault("workers", 1)
    res = tlc(module, cfg, files={trace_name: data}, **kw)
    return res


# ---------------------------------------------------------------------------
# evidence / findings

def load_known(prop):
    path = os.path.join(VERIF, "known_findings.jsonl")
    out = []
    if os.path.exists(path):
        for line in open(path):
            line = line.strip()
            if not line or line.startswith("#"):
                continue
            rec = json.loads(line)
            if rec.get("property") == prop:
                out.append(rec)
    return out


def match_known(known, facts):
    """A failing case is absorbed by a 'known' entry iff every key of its match predicate equals the
    corresponding fact of the case.  'fixed' entries absorb nothing."""
    for k in known:
        if k.get("status") != "known":
            continue
        m = k.get("match", {})
        if m and all(facts.get(a) == b for a, b in m.items()):
            return k
    return None


class _KeySet(set):
    """Set of keys that keeps only a 64-bit hash of each (the keys are long JSON strings, hundreds of thousands per run)."""

    def add(self, key):
        super().add(hash(key))


class Check:
    def __init__(self, prop, tier, seed):
        self.prop, self.tier, self.seed = prop, tier, seed
        self.t0 = time.time()
        self.coverage = {"samples": [], "states": 0, "transitions": 0, "traces_validated_against_impl": 0,
                         "evaluations": 0, "distinct_nontrivial": 0, "rule": "", "explanation": ""}
        self.assumptions = []
        self.violations = []   # (facts, replay_path)
        self.known_hits = {}
        self.notes = []
        self.distinct = _KeySet()
        self.known = load_known(prop)
        self.level = "model_checking"
        self.parts = {}

    @property
    def quick(self):
        return self.tier == "quick"

    def add_tlc(self, name, res):
        self.coverage["states"] += res.distinct
        self.coverage["transitions"] += res.generated
        self.parts[name] = res.summary()

    def sample(self, s):
        if len(self.coverage["samples"]) < 12:
            self.coverage["samples"].append(s)

    def evaluated(self, key=None, n=1):
        self.coverage["evaluations"] += n
        if key is not None:
            self.distinct.add(key if isinstance(key, str) else json.dumps(key, sort_keys=True))

    def traces(self, n):
        self.coverage["traces_validated_against_impl"] += n

    def note(self, s):
        self.notes.append(s)
        log("[note] " + s)

    def violation(self, facts, replay=None):
        """Report a failing real-code case: absorbed by a known finding or a VIOLATION."""
        k = match_known(self.known, facts)
        if k is not None:
            self.known_hits.setdefault(k["key"], [k, 0])[1] += 1
            return False
        path = replay
        if path is None and len(self.violations) >= 25:
            path = self.violations[-1][1]
        if path is None:
            d = os.path.join(VERIF, "replays", self.prop)
            os.makedirs(d, exist_ok=True)
            h = hashlib.sha1(json.dumps(facts, sort_keys=True, default=str).encode()).hexdigest()[:12]
            path = os.path.join(d, h + ".json")
            with open(path, "w") as fh:
                json.dump(facts, fh, indent=1, sort_keys=True, default=str)
        self.violations.append((facts, path))
        return True

    def finish(self):
        wall = time.time() - self.t0
        cov = self.coverage
        cov["distinct_nontrivial"] = max(len(self.distinct), cov.get("distinct_nontrivial", 0))
        cov["parts"] = self.parts
        cov["notes"] = self.notes[:40]
        cov["known_findings_hit"] = {k: v[1] for k, v in self.known_hits.items()}
        if not cov["samples"]:
            cov["samples"] = ["(no sample recorded)"]
        ev = {"property_id": self.prop, "tier": self.tier, "seed": self.seed, "level": self.level,
              "coverage": cov, "assumptions": self.assumptions, "wall_s": round(wall, 2),
              "violations": len(self.violations)}
        evdir = os.path.join(VERIF, "evidence") if REPO == "/repo" else os.path.join(BUILD, "evidence-alt")
        os.makedirs(evdir, exist_ok=True)
        with open(os.path.join(evdir, self.prop + ".json"), "w") as fh:
            json.dump(ev, fh, indent=1, sort_keys=True, default=str)
        for key, (k, n) in sorted(self.known_hits.items()):
            print("KNOWN-FINDING: property=%s %s (%s; %d failing cases absorbed)" % (self.prop, k["what"], key, n))
        seen = set()
        for facts, path in self.violations:
            if path in seen:
                continue
            seen.add(path)
            print("VIOLATION property=%s replay=%s" % (self.prop, path))
            if len(seen) >= 20:
                break
        sys.stdout.flush()
        log("[%s] %s tier, %.1fs, %d violations, evidence/%s.json" %
            (self.prop, self.tier, wall, len(self.violations), self.prop))
        return 1 if self.violations else 0


def read_ndjson(path):
    rows = []
    with open(path) as fh:
        for line in fh:
            line = line.strip()
            if line:
                rows.append(json.loads(line))
    return rows
