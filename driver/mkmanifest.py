#!/usr/bin/env python3
"""Regenerates MANIFEST.json from the table below (single source of truth for the interface)."""
import json
import os

VERIF = os.path.dirname(os.path.dirname(os.path.abspath(__file__)))
ALL = ["C%02d" % i for i in range(1, 21)]

CHECKS = {
    "C13": dict(
        engine="Handshake12",
        category="model_checking",
        text=("TLC checks CookieFirst (no server emission other than the cookie request before the cookie-bearing ClientHello was "
              "received) and NoTimerHVR on the flight machine; every model edge script is replayed on real endpoints and everything the "
              "server emits is classified; a man in the middle rewrites the second ClientHello of a real client (cookie absent, wrong, "
              "one bit off, truncated, extended, stale, removed; right cookie with altered random / session id / suites / extensions), "
              "1..3 repetitions, with timer events in between, for DTLS 1.2 and 1.3; real-time silence after the cookie request."),
        design_ref="DESIGN.md 3 (M1), 4 (C13)",
        note=("Trusted: TLC, the wire classifier of the harness (record/handshake type bytes, HRR random). 'Otherwise identical' is read as "
              "the RFC parameter lists; DTLS 1.2 changes to other extensions and alerts answering a bad hello are informational."),
        technique="TLA+ model (Handshake12.tla) checked by TLC; edge scripts and ClientHello-pair classes replayed against a real server",
    ),
    "C17": dict(
        engine="Handshake12",
        category="model_checking",
        text=("TLC checks TimerLaw, NoTimerHVR, FinalFlightOnlyOnPeerRetx and EmissionBound on the flight machine; the pre-fix resumed "
              "server (falls back to Waiting after completion) must violate FinalFlightOnlyOnPeerRetx. Every model edge script is replayed "
              "with virtual timers and the law is evaluated on the real interval/retransmit-flag/emissions after each timer event and "
              "datagram (new vs retransmitted input, stale twins, backoff disabled); handleRetransmitTimeout is driven in-package to the "
              "60 s cap; real-time silence runs measure inter-emission gaps for every flight, both roles, DTLS 1.2 and 1.3 (hard lower "
              "bound I*2^k), floods of stale / replayed / garbage datagrams are held against the emission bound."),
        design_ref="DESIGN.md 3 (M1), 4 (C17)",
        note=("Trusted: TLC, the virtual-timer hook (same handler as the real timer), Go timers not firing early. Upper timing bounds are "
              "informational only. DTLS 1.3 is covered by the real-time and flood runs, not by a 1.3 model yet."),
        technique="TLA+ model (Handshake12.tla) checked by TLC; edge scripts replayed with law predicates; real-time gap measurement",
    ),
    "C02": dict(
        engine="Handshake12",
        category="model_checking",
        text=("TLC checks <>[](both established) under fairness with the fault budget inside Next on the DTLS 1.2 flight machine "
              "(full, no-cookie, resumed); the pre-fix fsm12.finish must violate it. Every explored edge of the model is replayed as an "
              "environment script (deliver/drop/duplicate/stale twin/timer) on two real endpoints with virtual timers, state compared "
              "after every step, then the network turns reliable and both must complete; this is crossed with the certificate, PSK, "
              "ECDHE-PSK, client-auth, CID and resumed scenario families. The property's own quantifier (every fault mask over the first "
              "N datagrams of a direction, joint masks, sampled longer ones) runs on free-running endpoints with real timers, for DTLS 1.2 "
              "incl. fragmented handshakes and DTLS 1.3 with and without HelloRetryRequest, with application data checked afterwards."),
        design_ref="DESIGN.md 3 (M1), 4 (C02)",
        note=("Trusted: TLC, lab network, virtual-timer hook (same handler as the real timer). Model: one datagram per flight; "
              "DTLS 1.3 and fragmented handshakes are decided by mask enumeration only. Timing failures are re-run twice before they count."),
        technique="TLA+ model (Handshake12.tla) with TLC liveness checking; TLC edge scripts replayed on real endpoints; fault-mask enumeration",
    ),
    "C06": dict(
        engine="ReplayWindow",
        category="model_checking",
        text=("TLC checks AtMostOnce and WithinWindowDelivered on the window function over every arrival sequence with repetition "
              "(windows 1,2,3,4,8,...); every generated sequence is then replayed on a fresh live connection configured with that "
              "window (DTLS 1.2 and a DTLS 1.3 share), and seeded long sequences from tlc -simulate exercise the default window of 64 "
              "at its edges. Verdicts come from what Read really returned; the model's delivery list is compared too."),
        design_ref="DESIGN.md 3 (M3), 4 (C06)",
        note=("Trusted: TLC; lab network FIFO delivery; one payload per record. Short sessions exhaustive, long sessions sampled; "
              "replay across export/import is not in the quantifier."),
        technique="TLA+ model (ReplayWindow.tla) checked by TLC; TLC-generated arrival scripts replayed on live connections",
    ),
    "C12": dict(
        engine="FragmentBuffer",
        category="model_checking",
        text=("TLC checks the reassembly formulas (exactly-once in order, surfaced = original, never incomplete, complete => surfaced, "
              "retransmission recognised, Pop agrees with the reference) on a transcription of Push/Pop/AdvanceTo over honest partitions "
              "and over inconsistent header fields; every explored edge of that model is replayed as a script on the real FragmentBuffer "
              "and the predicates are evaluated on the real outputs; the sender's fragmentHandshake is enumerated over (length, MTU) "
              "pairs and fed to the real receiver. Exhaustive within the stated small domains, which is where ordering/duplication/"
              "inconsistency mistakes live."),
        design_ref="DESIGN.md 3 (M4), 4 (C12)",
        note=("Trusted: TLC, the Go harness's position-coded byte scheme, small header domains (lengths/offsets 0..3, two or three message "
              "sequences, <= 6 pushes). Buffer limits are exercised under C08."),
        technique="TLA+ model (FragmentBuffer.tla) checked by TLC; TLC-generated edge scripts replayed on the real FragmentBuffer",
    ),
}

NOT_YET = "check not built yet in this round (planned in DESIGN.md section 4)"


def main():
    checks = []
    for pid in ALL:
        if pid not in CHECKS:
            continue
        c = CHECKS[pid]
        checks.append({
            "property_id": pid,
            "quick_cmd": "./vcheck %s --tier quick" % pid,
            "thorough_cmd": "./vcheck %s --tier thorough" % pid,
            "evidence_file": "evidence/%s.json" % pid,
            "replay_cmd_template": "./vcheck %s --replay {path}" % pid,
            "engine": c["engine"],
            "level_claimed": {"category": c["category"], "text": c["text"], "design_ref": c["design_ref"]},
            "level_note": c["note"],
            "technique": c["technique"],
        })
    engines = {}
    for pid, c in CHECKS.items():
        for e in c["engine"].split("+"):
            engines.setdefault(e, []).append(pid)
    hooks_commits = [l.strip() for l in open(os.path.join(VERIF, "hooks_commits.txt")) if l.strip()]
    man = {
        "version": 1,
        "setup_cmd": "./setup.sh",
        "hooks": {
            "guard": "verif",
            "enable": "go test -c -tags verif -overlay <generated: /verif/harness/<pkg>/*.go -> /repo/<pkg>/zz_verif_*.go> (driver/build.sh)",
            "baseline_off_cmd": "cd /repo && GOFLAGS=-mod=mod go test -json -vet=off -count=1 -timeout 25m ./...",
            "source_commits": hooks_commits,
            "add_only": True,
        },
        "engines": [{"name": e, "path": "spec/%s.tla" % e, "serves_properties": sorted(p),
                     "kind_free_text": "TLA+ module checked with TLC; bound to the code by script replay / trace validation"}
                    for e, p in sorted(engines.items())],
        "checks": checks,
        "notes": "See DESIGN.md. Exit codes: 0 held, 1 VIOLATION, 2 inconclusive (machinery could not decide; never a violation).",
        "not_applicable": [{"property_id": p, "reason": NOT_YET} for p in ALL if p not in CHECKS],
    }
    with open(os.path.join(VERIF, "MANIFEST.json"), "w") as fh:
        json.dump(man, fh, indent=1)
        fh.write("\n")


if __name__ == "__main__":
    main()
