#!/usr/bin/env python3
"""Regenerates MANIFEST.json from the table below (single source of truth for the interface)."""
import json
import os

VERIF = os.path.dirname(os.path.dirname(os.path.abspath(__file__)))
ALL = ["C%02d" % i for i in range(1, 21)]

def load_checks():
    """One JSON file per claimed property under driver/manifest/ (engine, category, text, design_ref, note, technique);
    optional driver/manifest/na/Cxx.txt holds the reason a property is not claimed."""
    out = {}
    d = os.path.join(VERIF, "driver", "manifest")
    for f in sorted(os.listdir(d)):
        if f.endswith(".json"):
            out[f[:-5]] = json.load(open(os.path.join(d, f)))
    return out


CHECKS = load_checks()

NOT_YET = "check not built yet in this round (planned in DESIGN.md section 4)"


def na_reason(p):
    f = os.path.join(VERIF, "driver", "manifest", "na", p + ".txt")
    return open(f).read().strip() if os.path.exists(f) else NOT_YET


def main():
    checks = []
    for pid in ALL:
        if pid not in CHECKS:
            continue
        c = CHECKS[pid]
        checks.append({
            "property_id": pid,
            "quick_cmd": "./vcheck %s --tier quick" % pid,
            "thorough_cmd": "./vcheck %s --tier thorough" % pid,
            "evidence_file": "evidence/%s.json" % pid,
            "replay_cmd_template": "./vcheck %s --replay {path}" % pid,
            "engine": c["engine"],
            "level_claimed": {"category": c["category"], "text": c["text"], "design_ref": c["design_ref"]},
            "level_note": c["note"],
            "technique": c["technique"],
        })
    engines = {}
    for pid, c in CHECKS.items():
        for e in c["engine"].split("+"):
            engines.setdefault(e, []).append(pid)
    hooks_commits = [l.strip() for l in open(os.path.join(VERIF, "hooks_commits.txt")) if l.strip()]
    man = {
        "version": 1,
        "setup_cmd": "./setup.sh",
        "hooks": {
            "guard": "verif",
            "enable": "go test -c -tags verif -overlay <generated: /verif/harness/<pkg>/*.go -> /repo/<pkg>/zz_verif_*.go> (driver/build.sh)",
            "baseline_off_cmd": "cd /repo && GOFLAGS=-mod=mod go test -json -vet=off -count=1 -timeout 25m ./...",
            "source_commits": hooks_commits,
            "add_only": True,
        },
        "engines": [{"name": e, "path": "spec/%s.tla" % e, "serves_properties": sorted(p),
                     "kind_free_text": "TLA+ module checked with TLC; bound to the code by script replay / trace validation"}
                    for e, p in sorted(engines.items())],
        "checks": checks,
        "notes": "See DESIGN.md. Exit codes: 0 held, 1 VIOLATION, 2 inconclusive (machinery could not decide; never a violation).",
        "not_applicable": [{"property_id": p, "reason": na_reason(p)} for p in ALL if p not in CHECKS],
    }
    with open(os.path.join(VERIF, "MANIFEST.json"), "w") as fh:
        json.dump(man, fh, indent=1)
        fh.write("\n")


if __name__ == "__main__":
    main()
