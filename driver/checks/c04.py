"""C04 transcript integrity: spec/Transcript.tla.
(A) TLC: TamperNoCompletion / HonestCompletes / ViewsAgreeWhenBothComplete for every handshake variant (key exchange x client auth
    x EMS x cookie exchange, resumed, DTLS 1.3 with/without HelloRetryRequest) with up to two alterations; the pinned tree's
    server (no verify_data comparison, no EMS) must violate the formula, and the cookie exchange must be shown to lie outside
    the DTLS 1.2 Finished hash.
(B) every Tamper edge of the model (message x kind of field) is made concrete with a mutator table and played by a man in
    the middle between two honest real endpoints (every copy of the message is rewritten the same way, retransmission timers
    are fired when the handshake stalls); verdict: no endpoint may report success when a transcript-covered message was
    altered; every scenario also runs unaltered and must complete (non-vacuity)."""
import concurrent.futures
import json
import os
import random
import shutil

import vlib

MODULE = "Transcript"
NOCID = {"cidC": -1, "cidS": -1}


def variants():
    return [l.strip() for l in open(os.path.join(vlib.SPEC, "cfg", "Transcript.variants.txt")) if l.strip()]


def scen_for(v):
    """Transcript.tla variant name -> harness scenario."""
    if v.startswith("13"):
        return dict(ver="13", helloVerify=(v == "13hrr"), curvesC=[29], curvesS=[29], **NOCID)
    s = dict(ver="12", helloVerify=v.endswith("hv"), **NOCID)
    if "resume" in v:
        s["resume"] = True
        return s
    ems = "ems" in v
    s["emsC"] = s["emsS"] = 0 if ems else 2
    if "ecdhepsk" in v:
        s.update(auth="ecdhepsk", suite="TLS_ECDHE_PSK_WITH_AES_128_CBC_SHA256")
    elif "psk" in v:
        s.update(auth="psk", suite="TLS_PSK_WITH_AES_128_GCM_SHA256")
    elif "certca" in v:
        s.update(clientAuth=4, clientCert=True, verify=True)
    return s


EXTRA = {  # scenarios beyond the model variants: more extensions to strip, other layouts (same message names)
    "x-rich12": dict(ver="12", helloVerify=False, emsC=2, emsS=2, cidC=4, cidS=8, srtpC=[1, 2], srtpS=[2, 1], alpnC=["a", "b"], alpnS=["b"]),
    "x-rsa12": dict(ver="12", helloVerify=False, emsC=2, emsS=2, auth="rsa", **NOCID),
    "x-frag12": dict(ver="12", helloVerify=False, emsC=2, emsS=2, mtu=200, **NOCID),
    "x-chacha12": dict(ver="12", helloVerify=True, emsC=2, emsS=2, suite="TLS_ECDHE_ECDSA_WITH_CHACHA20_POLY1305_SHA256", **NOCID),
    "x-cbc12": dict(ver="12", helloVerify=False, emsC=2, emsS=2, suite="TLS_ECDHE_ECDSA_WITH_AES_256_CBC_SHA", **NOCID),
    # steerable parameters behind a cookie exchange: the first ClientHello is outside the Finished hash, so nothing in it
    # may decide the outcome (extended master secret on request, ALPN, two groups in opposite preference, SRTP, CIDs)
    "x-rich12hv": dict(ver="12", helloVerify=True, emsC=0, emsS=0, cidC=4, cidS=8, srtpC=[1, 2], srtpS=[2, 1], alpnC=["a", "b"], alpnS=["b", "a"],
                       curvesC=[29, 23], curvesS=[23, 29]),
    # session stores present on both sides, nothing to resume: the full handshake takes the store-related branches
    "x-stores12": dict(ver="12", helloVerify=True, emsC=2, emsS=2, stores=True, alpnC=["a", "b"], alpnS=["b", "a"], **NOCID),
    "x-stores12ems": dict(ver="12", helloVerify=False, emsC=0, emsS=0, stores=True, **NOCID),
    "x-rich13": dict(ver="13", helloVerify=True, curvesC=[29], curvesS=[29], cidC=4, cidS=4, srtpC=[1], srtpS=[1]),
}
OUTSIDE = {"12": {"CH1", "HVR"}, "13": set()}   # RFC 6347 4.2.1: not part of the DTLS 1.2 Finished hash


def run_cases(binary, cases, tag):
    wd = vlib.scratch("c04")
    try:
        inp, out = os.path.join(wd, "in"), os.path.join(wd, "out")
        with open(inp, "w") as fh:
            for c in cases:
                fh.write(json.dumps(c) + "\n")
        rc, txt = vlib.run_test(binary, "TestVerifTamper", {"VERIF_IN": inp, "VERIF_OUT": out}, timeout=2400)
        if rc != 0 or not os.path.exists(out):
            raise vlib.Inconclusive("tamper harness failed (%s): %s" % (tag, txt[-1500:]))
        rows = vlib.read_ndjson(out)
        if len(rows) != len(cases):
            raise vlib.Inconclusive("tamper harness returned %d of %d rows" % (len(rows), len(cases)))
        return rows
    finally:
        shutil.rmtree(wd, ignore_errors=True)


def mutators(msg, kind, info, rng, nbits):
    """Concrete instances of a model Tamper(msg, kind) edge for a message of info['len'] body bytes."""
    n = info["len"]
    out = []
    if n == 0:
        return out
    frag = info.get("frag")

    def bits(lo, hi, k):   # k bit positions with byte index in [lo, hi)
        lo, hi = max(0, lo), min(n, hi)
        if hi <= lo:
            return []
        return ["bit:%d" % (8 * rng.randrange(lo, hi) + rng.randrange(8)) for _ in range(k)]
    if kind == "random" and msg in ("CH1", "CH2", "SH"):
        out += bits(2, 34, 2) + ([] if frag else ["random"])
    elif kind == "share":
        out += bits(n // 3, n, 3) if msg in ("CH1", "CH2", "SH") else bits(1, n, 3)
    elif kind == "sig":
        out += bits(n - 24, n, 3) + ([] if frag else ["sig-malleate"])
    else:
        out += ["bit:0", "bit:%d" % (8 * n - 1)] + bits(0, n, nbits)
        if not frag and msg in ("CH1", "CH2"):
            out += ["suites-reverse", "suites-drop-first", "suites-only-last", "sessionid", "version"]
            out += ["strip-ext:%d" % i for i in range(info.get("exts", 0))]
        if not frag and msg in ("SH", "HRR"):
            out += ["sessionid", "version", "suite-swap"] + ["strip-ext:%d" % i for i in range(info.get("exts", 0))]
    return sorted(set(out))


def run(chk):
    rng = random.Random(chk.seed)
    vs = variants()
    # (A) model check every variant (small state spaces; run the JVMs side by side)
    def mc(v):
        return v, vlib.tlc_check(MODULE, "Transcript.%s.mc.cfg" % v, timeout=600, workers=2)
    with concurrent.futures.ThreadPoolExecutor(max_workers=8) as ex:
        for v, res in ex.map(mc, vs):
            chk.add_tlc("mc." + v, res)
    vlib.tlc_expect_violation(MODULE, "Transcript.12cert.nocheck.cfg", "TamperNoCompletion (server without verify_data check)", timeout=300, workers=2)
    vlib.tlc_expect_violation(MODULE, "Transcript.12certhv.negch1.cfg", "NoSteering (server negotiating from the first ClientHello)", timeout=300, workers=2)
    vlib.tlc_expect_violation(MODULE, "Transcript.12certhv.hvrcovered.cfg", "HvrCoveredToo (cookie exchange is outside the Finished hash)", timeout=300, workers=2)

    # (B) Tamper edges -> concrete cases
    def gen(v):
        return v, vlib.tlc_generate(MODULE, "Transcript.%s.gen.cfg" % v, timeout=600)
    edges = {}
    with concurrent.futures.ThreadPoolExecutor(max_workers=8) as ex:
        for v, res in ex.map(gen, vs):
            chk.add_tlc("gen." + v, res)
            es = set()
            for beh in res.printed:
                for st in beh["steps"]:
                    if st["act"] == "Tamper":
                        es.add((st["msg"], st["kind"]))
                        if st["post"]["cest"] or st["post"]["sest"]:
                            raise vlib.Inconclusive("model step leaves an endpoint established right after a tamper")
            if not es:
                raise vlib.Inconclusive("no Tamper edge generated for " + v)
            edges[v] = sorted(es)
    binary = vlib.build("root")
    scens = {v: scen_for(v) for v in vs}
    if not chk.quick:
        scens.update(EXTRA)
    else:
        scens.update({k: EXTRA[k] for k in ("x-rich12", "x-rich12hv", "x-stores12", "x-rich13", "x-frag12")})
    names = sorted(scens)
    probes = run_cases(binary, [{"scen": scens[n], "name": n, "probe": True} for n in names], "probe")
    infos, control = {}, {}
    for n, r in zip(names, probes):
        if r.get("lab") or r.get("panic") or not (r["cest"] and r["sest"]):
            raise vlib.Inconclusive("honest control of scenario %s did not complete: %s" % (n, {k: r.get(k) for k in ("lab", "panic", "cerr", "serr")}))
        infos[n] = {m["name"]: m for m in r["msgs"]}
        control[n] = (r.get("cneg"), r.get("sneg"))
        if not control[n][0] or not control[n][1]:
            raise vlib.Inconclusive("honest control of scenario %s reports no negotiated outputs" % n)
    nbits = 3 if chk.quick else 24
    cases, instantiated = [], 0
    for n in names:
        ver = scens[n]["ver"]
        if n in edges:
            todo = edges[n]
        else:   # extra scenarios follow the model variant with the same message set: every message, every kind it can carry
            todo = [(m, k) for m in infos[n] for k in ("neutral", "random", "share", "sig")
                    if not (k == "random" and m not in ("CH1", "CH2", "SH")) and not (k == "sig" and m not in ("SKE", "CV"))
                    and not (k == "share" and m not in ("SKE", "CKE", "CH1", "CH2", "SH"))]
        for msg, kind in todo:
            if msg not in infos[n]:
                # e.g. the model's PSK variant has no ServerKeyExchange while the library sends one with the identity hint
                continue
            ms = mutators(msg, kind, infos[n][msg], rng, nbits)
            if ms:
                instantiated += 1
            for mu in ms:
                cases.append({"scen": scens[n], "name": "%s/%s/%s/%s" % (n, msg, kind, mu), "msg": msg, "mut": mu, "_v": n, "_ver": ver})
        # messages the model does not name for this variant are altered too (bit flips), e.g. the PSK ServerKeyExchange
        for msg, inf in infos[n].items():
            if all(msg != m for m, _ in todo):
                for mu in mutators(msg, "neutral", inf, rng, nbits):
                    cases.append({"scen": scens[n], "name": "%s/%s/unmodelled/%s" % (n, msg, mu), "msg": msg, "mut": mu, "_v": n, "_ver": ver})
    rows = run_cases(binary, [{k: v for k, v in c.items() if not k.startswith("_")} for c in cases], "tamper")
    applied = lab = info_completions = 0
    per_variant = {}
    for c, r in zip(cases, rows):
        if r.get("panic"):
            raise vlib.Inconclusive("harness panic in %s: %s" % (c["name"], r["panic"]))
        if r.get("lab"):
            lab += 1
            continue
        if not r["applied"]:
            continue
        applied += 1
        per_variant[c["_v"]] = per_variant.get(c["_v"], 0) + 1
        chk.evaluated(key=c["name"])
        done = [s for s, e in (("client", r["cest"]), ("server", r["sest"])) if e]
        if not done:
            continue
        if c["msg"] in OUTSIDE[c["_ver"]]:
            # outside the Finished hash by design: completion as such is not judged, but the altered message must not have
            # decided anything ("an on-path attacker cannot downgrade or steer any negotiated parameter")
            got = (r.get("cneg") if r["cest"] else control[c["_v"]][0], r.get("sneg") if r["sest"] else control[c["_v"]][1])
            if got != control[c["_v"]]:
                chk.violation({"kind": "steered-by-message-outside-transcript", "variant": c["_v"], "msg": c["msg"], "mut": c["mut"],
                               "completed": done, "negotiated": list(got), "control": list(control[c["_v"]]),
                               "case": {k: v for k, v in c.items() if not k.startswith("_")}})
                continue
            info_completions += 1
            if info_completions <= 3:
                chk.note("info: %s completed after an altered %s (outside the DTLS 1.2 Finished hash, RFC 6347 4.2.1): %s" % (done, c["msg"], c["name"]))
            continue
        chk.violation({"kind": "tamper-completion", "variant": c["_v"], "msg": c["msg"], "mut": c["mut"], "completed": done,
                       "case": {k: v for k, v in c.items() if not k.startswith("_")}, "cerr": r.get("cerr"), "serr": r.get("serr")})
    if lab > max(3, len(cases) // 100):
        raise vlib.Inconclusive("%d of %d tamper cases could not be executed by the lab" % (lab, len(cases)))
    missing = [n for n in names if per_variant.get(n, 0) == 0]
    if missing or applied < len(cases) // 2:
        raise vlib.Inconclusive("vacuous: alterations applied in %d of %d cases; scenarios without any: %s" % (applied, len(cases), missing))
    chk.traces(instantiated)
    chk.parts["tamper"] = {"scenarios": len(names), "cases": len(cases), "applied": applied, "lab_skipped": lab,
                           "model_edges_instantiated": instantiated, "completions_outside_transcript": info_completions}
    chk.sample({"case": cases[len(cases) // 2]["name"], "result": {k: rows[len(cases) // 2].get(k) for k in ("applied", "cest", "sest", "cerr", "serr", "fired")}})
    chk.sample({"model_edges": {v: edges[v] for v in vs[:2]}})
    chk.coverage["rule"] = ("every Tamper(message, field kind) edge of Transcript.tla per variant x concrete mutators (seeded bit positions in the "
                            "field region, first/last bit, codec-level rewrites of the hellos: suite list, extensions, session id, version, "
                            "random, suite swap); distinct = scenario/message/mutator actually applied on the wire")
    chk.assumptions += ["the first ClientHello and HelloVerifyRequest of DTLS 1.2 are outside the Finished hash (RFC 6347 4.2.1): completion after altering them is by design, but the negotiated outputs of both sides (version, suite, ALPN, SRTP, extended master secret, group, CID lengths, peer chain length) must equal those of the honest control",
                        "every copy of the target message is altered in the same way (a discarded altered copy followed by a genuine retransmission is loss, not tampering)",
                        "protected handshake messages (Finished, DTLS 1.3 after ServerHello) are record forgeries and belong to C05"]


def replay(chk, path):
    facts = json.load(open(path))
    rows = run_cases(vlib.build("root"), [facts["case"]], "replay")
    r = rows[0]
    chk.evaluated(key=facts["case"]["name"])
    chk.evaluated(key="replay")
    if r.get("applied") and (r["cest"] or r["sest"]):
        chk.violation(dict(facts, replayed=True), replay=path)
