"""C17 retransmission discipline.
(A) TLC: TimerLaw, NoTimerHVR, FinalFlightOnlyOnPeerRetx, EmissionBound on spec/Handshake12.tla (safe cfgs); the pre-fix
    behaviour (established resumed server falls back to Waiting) must violate FinalFlightOnlyOnPeerRetx;
(B) every model edge script replayed with virtual timers: after each timer event / datagram the real interval exponent,
    retransmit flag and emissions are checked against the law (evaluated on the real observations);
    handleRetransmitTimeout is driven in-package up to the 60 s cap;
(C) real-time silence runs: inter-emission gaps of every flight, both roles, DTLS 1.2 and 1.3 (hard lower bound, soft upper
    bound), and floods of stale / replayed / garbage datagrams against the emission bound."""
import json
import os
import shutil

import hsreplay
import hsreplay13
import hsreplay13f
import scen
import vlib

MODULE = "Handshake12"


def silence_cases(chk):
    cases = []
    table = [("full12", "c", "F1"), ("full12", "c", "F3"), ("full12", "c", "F5"), ("full12", "s", "F2"), ("full12", "s", "F4"),
             ("full12", "s", "F6"), ("resume12", "s", "F4b"), ("resume12", "c", "F5b"), ("psk12", "c", "F5"), ("psk12", "s", "F4"),
             ("hrr13", "c", "F1"), ("hrr13", "c", "F3"), ("hrr13", "c", "F5"), ("hrr13", "s", "F2"), ("hrr13", "s", "F4"),
             ("nohrr13", "s", "F4")]
    intervals = [10] if chk.quick else [10, 15, 20, 35]
    for iv in intervals:
        for fam, side, fl in table:
            cases.append({"scen": dict(scen.ALL[fam], intervalMs=iv), "name": "%s/%s/%s@%dms" % (fam, side, fl, iv),
                          "side": side, "flight": fl, "gaps": 4})
        cases.append({"scen": dict(scen.ALL["full12"], noBackoff=True, intervalMs=iv), "name": "full12-nobackoff/c/F1@%dms" % iv,
                      "side": "c", "flight": "F1", "gaps": 4})
        cases.append({"scen": dict(scen.ALL["hrr13"], noBackoff=True, intervalMs=iv), "name": "hrr13-nobackoff/s/F4@%dms" % iv,
                      "side": "s", "flight": "F4", "gaps": 4})
    n = 300 if chk.quick else 3000
    for fam in ("full12", "psk12"):
        for fl, side, kind in [("F2", "s", "stale"), ("F4", "s", "stale"), ("F4", "s", "garbage"), ("F4", "s", "replay"),
                               ("F3", "c", "garbage"), ("F3", "c", "replay"), ("F5", "c", "replay"), ("F6", "s", "replay"),
                               ("F1", "c", "garbage")]:
            cases.append({"scen": scen.ALL[fam], "name": "flood-%s/%s/%s/%s" % (kind, fam, side, fl), "side": side, "flight": fl,
                          "gaps": 2, "flood": kind, "floodN": n})
    if not chk.quick:
        # the 60 s cap on the real timer: 16 s -> 32 s -> 60 s
        cases.append({"scen": dict(scen.ALL["full12"], intervalMs=16000), "name": "cap60/c/F1@16s", "side": "c", "flight": "F1",
                      "gaps": 3})
    return cases


def run(chk):
    t = chk.tier
    for variant in ("full", "nohv", "resume", "split"):
        res = vlib.tlc_check(MODULE, "Handshake12.%s.safe.%s.cfg" % (variant, t), timeout=2400)
        chk.add_tlc("safe." + variant, res)
    vlib.tlc_expect_violation(MODULE, "Handshake12.resume.safe.noesf.cfg", "FinalFlightOnlyOnPeerRetx", timeout=600)
    binary = vlib.build("root")
    # (B) script replay with the law predicates ("split": Flight 4 in two datagrams - new data that does not complete a flight)
    for variant in ("full", "nohv", "resume", "split"):
        scripts = hsreplay.generate(chk, variant)
        fams = hsreplay.families(variant)
        for fam in fams[:2] if chk.quick else fams:
            share = scripts if fam == fams[0] else scripts[chk.seed % 3::3]
            rows, summ, sc = hsreplay.replay(chk, binary, fam, share)
            nlaw = 0
            for r in rows:
                for v in r.get("law", [])[:1]:
                    nlaw += 1
                    chk.violation({"kind": "timer-law", "variant": fam, "what": v.split(": ", 1)[-1],
                                   "script": {"scen": sc, "steps": share[r["script"]]["steps"], "cap": 2, "bkcap": 3,
                                              "split": variant == "split"}})
                if r.get("diverge") and not r.get("law"):
                    chk.note("DIVERGENCE model/code (%s script %d): %s" % (fam, r["script"], r["diverge"][0]))
            chk.parts["replay." + fam] = {"scripts": summ["scripts"], "law_violations": nlaw}
        # backoff disabled
        if variant == "full":
            nb = scripts[chk.seed % 5::5]
            rows, summ, sc = hsreplay.replay(chk, binary, "full12", nb, extra_scen={"noBackoff": True}, bkcap=0)
            for r in rows:
                for v in r.get("law", [])[:1]:
                    chk.violation({"kind": "timer-law", "variant": "full12-nobackoff", "what": v.split(": ", 1)[-1],
                                   "script": {"scen": sc, "steps": nb[r["script"]]["steps"], "cap": 2, "bkcap": 0}})
            chk.parts["replay.full12-nobackoff"] = {"scripts": summ["scripts"]}
        chk.sample({"variant": variant, "script": [(x["act"], x["arg"]) for x in scripts[len(scripts) // 2]["steps"]]})
    # DTLS 1.3: spec/Handshake13.tla (TimerLaw13, NoTimerHRR, AckNeverOnTimer, FinalFlightOnlyOnPeerRetx13) and its edge scripts
    for variant in ("hrr", "nohrr"):
        res = vlib.tlc_check("Handshake13", "Handshake13.%s.safe.%s.cfg" % (variant, t), timeout=2400)
        chk.add_tlc("safe13." + variant, res)
        scripts13 = hsreplay13.generate(chk, variant)
        for extra, tag in (({}, ""), ({"noBackoff": True}, "-nobackoff")):
            share = scripts13 if not extra else scripts13[chk.seed % 4::4]
            rows, summ, sc = hsreplay13.replay(chk, binary, variant, share, extra_scen=extra, tag=tag)
            nlaw = 0
            for r in rows:
                for v in [x for x in r.get("law", []) if "C17" in x][:1]:
                    nlaw += 1
                    chk.violation({"kind": "timer-law-13", "variant": variant + tag, "what": v,
                                   "script13": {"scen": sc, "steps": share[r["script"]]["steps"], "cap": 2, "bkcap": 3}})
                if r.get("diverge") and not r.get("law") and not extra:
                    chk.note("DIVERGENCE model/code (1.3 %s script %d): %s" % (variant, r["script"], r["diverge"][0]))
            chk.parts["replay13." + variant + tag] = {"scripts": summ["scripts"], "law_violations": nlaw, "diverged": summ.get("diverged", 0)}
    # DTLS 1.3 with a server flight of several datagrams: selective acknowledgement / retransmission (spec/Handshake13F.tla)
    hsreplay13f.model_check(chk)
    hsreplay13f.vacuity(chk)
    for variant, lim in (("", 12000 if chk.quick else 60000), ("m400", 6000 if chk.quick else 30000)):
        s13f = hsreplay13f.generate(chk, limit=lim, variant=variant)
        rows, summ = hsreplay13f.replay(chk, binary, s13f, variant=variant)
        nlaw = 0
        for r in rows:
            for v in [x for x in r.get("law", []) if "C17" in x][:1]:
                nlaw += 1
                chk.violation({"kind": "timer-law-13f", "what": v,
                               "script13f": {"scen": hsreplay13f.scen_of(variant), "steps": s13f[r["script"]]["steps"], "qmax": hsreplay13f.QMAX, "bkcap": 3}})
            if r.get("diverge") and not r.get("law"):
                chk.note("DIVERGENCE model/code (1.3 fragmented flight %s script %d): %s" % (variant, r["script"], r["diverge"][0]))
        chk.parts["replay13f" + variant] = {"scripts": summ["scripts"], "law_violations": nlaw, "diverged": summ.get("diverged", 0)}
        del s13f
    # (B ii) the timer function in-package
    hb = vlib.build("handshake")
    wd = vlib.scratch("c17")
    try:
        out = os.path.join(wd, "timer.json")
        rc, txt = vlib.run_test(hb, "TestVerifTimerFn", {"VERIF_OUT": out})
        if rc != 0 or not os.path.exists(out):
            raise vlib.Inconclusive("timer function harness failed: " + txt[-1500:])
        r = json.load(open(out))
        chk.parts["timerfn"] = {"calls": r["calls"]}
        chk.evaluated(n=r["calls"])
        for v in r.get("violations") or []:
            chk.violation({"kind": "timer-function", "what": v})
        # (C) real time
        cases = silence_cases(chk)
        inp, out = os.path.join(wd, "sil.in"), os.path.join(wd, "sil.out")
        with open(inp, "w") as fh:
            for c in cases:
                fh.write(json.dumps(c) + "\n")
        rc, txt = vlib.run_test(binary, "TestVerifSilence", {"VERIF_IN": inp, "VERIF_OUT": out}, timeout=2400)
        if rc != 0 or not os.path.exists(out):
            raise vlib.Inconclusive("silence harness failed: " + txt[-1500:])
        rows = vlib.read_ndjson(out)
        soft = 0
        for r in rows:
            c = cases[r["case"]]
            chk.evaluated(key="silence:" + c["name"])
            if r.get("lab"):
                raise vlib.Inconclusive("silence run could not be set up: %s %s" % (c["name"], r["lab"]))
            for v in r.get("hard") or []:
                chk.violation({"kind": "real-time", "what": v, "case": c, "gaps_ms": r.get("gapsMs")})
            soft += len(r.get("soft") or [])
            for v in (r.get("soft") or [])[:1]:
                chk.note("timing (scheduler dependent, not a verdict): " + v)
        chk.parts["realtime"] = {"cases": len(cases), "soft_upper_bound_misses": soft}
        chk.sample({"silence": {"name": rows[0]["name"], "gaps_ms": rows[0].get("gapsMs")}})
    finally:
        shutil.rmtree(wd, ignore_errors=True)
    chk.coverage["rule"] = ("one script per explored edge of Handshake12.tla (safe cfg bounds) x scenario families; real-time silence per "
                            "(family, role, flight, interval); floods per (kind, role, flight)")
    chk.assumptions += ["virtual timer case runs the same handler as the real timer (hook)", "upper timing bounds are informational"]


def replay(chk, path):
    facts = json.load(open(path))
    binary = vlib.build("root")
    if "script13f" in facts:
        wd = vlib.scratch("c17r")
        try:
            inp, out = os.path.join(wd, "in"), os.path.join(wd, "out")
            open(inp, "w").write(json.dumps(facts["script13f"]) + "\n")
            vlib.run_test(binary, "TestVerifHs13FScripts", {"VERIF_IN": inp, "VERIF_OUT": out})
            chk.evaluated(key="replay13f")
            chk.evaluated(key="replay")
            for r in vlib.read_ndjson(out)[:-1]:
                if any("C17" in x for x in r.get("law", [])):
                    chk.violation(dict(facts, replayed=True), replay=path)
        finally:
            shutil.rmtree(wd, ignore_errors=True)
        return
    if "script13" in facts:
        wd = vlib.scratch("c17r")
        try:
            inp, out = os.path.join(wd, "in"), os.path.join(wd, "out")
            open(inp, "w").write(json.dumps(facts["script13"]) + "\n")
            vlib.run_test(binary, "TestVerifHs13Scripts", {"VERIF_IN": inp, "VERIF_OUT": out})
            chk.evaluated(key="replay13")
            chk.evaluated(key="replay")
            for r in vlib.read_ndjson(out)[:-1]:
                if any("C17" in x for x in r.get("law", [])):
                    chk.violation(dict(facts, replayed=True), replay=path)
        finally:
            shutil.rmtree(wd, ignore_errors=True)
        return
    if "script" in facts:
        wd = vlib.scratch("c17r")
        try:
            inp, out = os.path.join(wd, "in"), os.path.join(wd, "out")
            open(inp, "w").write(json.dumps(facts["script"]) + "\n")
            vlib.run_test(binary, "TestVerifHsScripts", {"VERIF_IN": inp, "VERIF_OUT": out})
            for r in vlib.read_ndjson(out)[:-1]:
                if r.get("law"):
                    chk.violation(dict(facts, replayed=True))
        finally:
            shutil.rmtree(wd, ignore_errors=True)
